/-
  SpanTraj2 — the span invariant `SpanInv`: a task body that has stamped the start at
  `a` with total duration `tot` is due at `a + bodyWait tot`; a body that has
  ended left `aft = finishTime a tot`; a record carries a finish stamp only if
  its body has ended.  `tot` is related to the nominal duration (runtime of the
  work on the body's machine, or the planned duration of a record without work)
  by whatever relation `R` the oracles of the run obey.
-/
import TopsimProofs.SpanTraj1
import TopsimProofs.TaskTimeLemmas

namespace Topsim

/-- the total duration the start block of the body of `t` computes from the nominal duration
`dur`, when `k` bodies of workflow tasks have started before -/
def Oracle.bodyTotal (orc : Oracle) (t : Tid) (k dur : Nat) : Nat :=
  match orc.total with
  | some x => x
  | none =>
    if t.isIngest then dur
    else match dictGet orc.delayTable dur with
      | some x => x
      | none =>
        if orc.delayScript.isEmpty then dur
        else dur + orc.delayScript.getD (k % orc.delayScript.length) 0

/-- every total the oracle can hand to a body is in relation `R` with the nominal duration -/
def Oracle.Obeys (R : Tid → Nat → Nat → Prop) (orc : Oracle) : Prop :=
  ∀ t k dur, R t dur (orc.bodyTotal t k dur)

namespace Sys

/-! ### the exact shape of a `do_work` block, with the durations -/

inductive DwShape2 (s : Sys) (now : Time) (orc : Oracle) (t : Tid) (m : Mid) (preds : List Tid) (ph tot : Nat) :
    Sys × PK × Yield → Prop
  | raised (ph' : Nat) (e : Err) : ph' ≤ 2 →
      DwShape2 s now orc t m preds ph tot (s, .doWork t m preds ph' tot, .raised e)
  | wait (w : Time) : DwShape2 s now orc t m preds ph tot (s, .doWork t m preds 1 tot, .timeout w)
  | start (r : TaskRec) (mm : Machine) (dur : Nat) :
      s.task? t = some r → s.machine? m = some mm →
      nominalDuration r.flops r.data mm.cpu mm.bw r.duration = .ok dur →
      DwShape2 s now orc t m preds ph tot
        ({ (s.updTask t (dwStartF now dur)) with starts := s.starts ++ [t], active := s.active ++ [(m, t)] },
          .doWork t m preds 2 (orc.bodyTotal t (s.starts.filter (fun x => !x.isIngest)).length dur),
          .timeout ((bodyWait (orc.bodyTotal t (s.starts.filter (fun x => !x.isIngest)).length dur) : Nat) : Rat))
  | finish : 2 ≤ ph →
      DwShape2 s now orc t m preds ph tot
        ({ (s.updTask t (dwEndF now tot)) with active := s.active.erase (m, t) },
          .doWork t m preds 3 tot, .done)

theorem doWorkBlock_shape2 (s : Sys) (now : Time) (orc : Oracle) (t : Tid) (m : Mid) (preds : List Tid)
    (ph tot : Nat) : DwShape2 s now orc t m preds ph tot (s.doWorkBlock now orc t m preds ph tot) := by
  have hstart :
      DwShape2 s now orc t m preds ph tot
        (match s.task? t, s.machine? m with
          | some r, some mm =>
            match nominalDuration r.flops r.data mm.cpu mm.bw r.duration with
            | .error e => (s, .doWork t m preds 2 tot, .raised e)
            | .ok dur =>
              let tot := match orc.total with
                | some t => t
                | none =>
                  if t.isIngest then dur
                  else match dictGet orc.delayTable dur with
                  | some t => t
                  | none =>
                    if orc.delayScript.isEmpty then dur
                    else dur + orc.delayScript.getD
                      ((s.starts.filter (fun x => !x.isIngest)).length % orc.delayScript.length) 0
              let s1 := s.updTask t (fun r => { r with status := .running, ast := some now, duration := dur })
              let s2 := { s1 with starts := s1.starts ++ [t], active := s1.active ++ [(m, t)] }
              (s2, .doWork t m preds 2 tot, .timeout (bodyWait tot : Nat))
          | _, _ => (s, .doWork t m preds 2 tot, .raised .other)) := by
    cases hr : s.task? t with
    | none => exact DwShape2.raised _ _ (by omega)
    | some r =>
      cases hmm : s.machine? m with
      | none => exact DwShape2.raised _ _ (by omega)
      | some mm =>
        simp only
        cases hd : nominalDuration r.flops r.data mm.cpu mm.bw r.duration with
        | error e => exact DwShape2.raised _ _ (by omega)
        | ok dur => exact DwShape2.start r mm dur hr hmm hd
  unfold doWorkBlock
  by_cases h0 : ph = 0
  · subst h0
    simp only [if_true]
    by_cases hp : preds.isEmpty = true
    · simp only [hp, if_true]
      exact hstart
    · simp only [hp]
      cases hw : s.transferWait now t m preds with
      | error e => exact DwShape2.raised _ _ (by omega)
      | ok w => exact DwShape2.wait w
  · simp only [h0, if_false]
    by_cases h1 : ph = 1
    · subst h1
      simp only [if_true]
      exact hstart
    · simp only [h1, if_false]
      exact DwShape2.finish (by omega)

theorem dwEndF_work (now : Time) (total : Nat) (r : TaskRec) :
    (dwEndF now total r).flops = r.flops ∧ (dwEndF now total r).data = r.data ∧
    (dwEndF now total r).duration = r.duration := by
  unfold dwEndF
  simp only
  split <;> simp

/-! ### the invariant -/

/-- `tot` is an admissible total for the nominal duration of record `r` on machine `m` -/
def Nom (R : Tid → Nat → Nat → Prop) (s : Sys) (t : Tid) (m : Mid) (tot : Nat) (r : TaskRec) : Prop :=
  ∃ mm, s.machine? m = some mm ∧
    ((0 < r.flops ∨ 0 < r.data) →
      0 < mm.cpu ∧ 0 < mm.bw ∧ R t (max (r.flops / mm.cpu) (r.data / mm.bw)) tot) ∧
    (r.flops = 0 → r.data = 0 → R t r.duration tot)

theorem Nom.transfer {R} {s X : Sys} {t : Tid} {m : Mid} {tot : Nat} {r r' : TaskRec} (h : Nom R s t m tot r)
    (hf : r'.flops = r.flops) (hd : r'.data = r.data)
    (hdur : r.flops = 0 → r.data = 0 → r'.duration = r.duration)
    (hm : X.machines = s.machines) : Nom R X t m tot r' := by
  obtain ⟨mm, h1, h2, h3⟩ := h
  refine ⟨mm, by rw [machine?_congr hm]; exact h1, ?_, ?_⟩
  · intro hw
    rw [hf, hd] at hw ⊢
    exact h2 hw
  · intro h0 h0'
    rw [hf] at h0
    rw [hd] at h0'
    rw [hdur h0 h0']
    exact h3 h0 h0'

theorem Nom.span {R} {s X : Sys} {t : Tid} {m : Mid} {tot : Nat} {r r' : TaskRec} (h : Nom R s t m tot r)
    (hk : TSpan r r') (hm : X.machines = s.machines) : Nom R X t m tot r' :=
  h.transfer hk.flops hk.data hk.dur hm

structure SpanInv (R : Tid → Nat → Nat → Prop) (s : Sys) : Prop where
  /-- a live body is before its last block -/
  phase : ∀ d ∈ s.procs, d.alive = true → ∀ t m cross ph tot, d.k = .doWork t m cross ph tot → ph ≤ 2
  /-- a live body that has stamped the start `a`: due at `a + bodyWait tot` -/
  run : ∀ d ∈ s.procs, d.alive = true → ∀ t m cross tot, d.k = .doWork t m cross 2 tot →
    ∃ r a, s.task? t = some r ∧ r.ast = some a ∧ d.wake = a + ((bodyWait tot : Nat) : Time) ∧ Nom R s t m tot r
  /-- a body that has run its last block: `aft = finishTime ast tot` -/
  done : ∀ d ∈ s.procs, ∀ t m cross tot, d.k = .doWork t m cross 3 tot →
    ∃ r a, s.task? t = some r ∧ r.ast = some a ∧ r.aft = some (finishTime a tot) ∧ Nom R s t m tot r
  /-- only the last block of its body stamps the finish of a task -/
  stamped : ∀ t r f, s.task? t = some r → r.aft = some f →
    ∃ d ∈ s.procs, ∃ m cross tot, d.k = .doWork t m cross 3 tot

/-! ### a step that stamps nothing -/

theorem spanInv_quiet {R} {s s' : Sys} {p p' : Proc} {new : List Proc} (h : SpanInv R s) (hpw : PW s)
    (hp : p ∈ s.procs) (ha : p.alive = true) (hm : MemSpec s s' p p' new) (hT : SpanStep s s')
    (hmach : s'.machines = s.machines)
    (hnew : ∀ q ∈ new, ∀ t m c ph tot, q.k = .doWork t m c ph tot → ph = 0)
    (hp' : ∀ t m c ph tot, p'.k = .doWork t m c ph tot → ph ≤ 1 ∨ (p'.alive = false ∧ ph ≤ 2)) :
    SpanInv R s' := by
  constructor
  · intro d hd hda t m c ph tot hk
    rcases (hm d).mp hd with rfl | ⟨h1, _⟩ | h1
    · rcases hp' t m c ph tot hk with h2 | ⟨h2, _⟩
      · omega
      · rw [h2] at hda; exact absurd hda (by simp)
    · exact h.phase d h1 hda t m c ph tot hk
    · have := hnew d h1 t m c ph tot hk; omega
  · intro d hd hda t m c tot hk
    rcases (hm d).mp hd with rfl | ⟨h1, _⟩ | h1
    · rcases hp' t m c 2 tot hk with h2 | ⟨h2, _⟩
      · omega
      · rw [h2] at hda; exact absurd hda (by simp)
    · obtain ⟨r, a, g1, g2, g3, g4⟩ := h.run d h1 hda t m c tot hk
      obtain ⟨r', g5, g6⟩ := hT.fwd t r g1
      exact ⟨r', a, g5, by rw [g6.ast]; exact g2, g3, g4.span g6 hmach⟩
    · have := hnew d h1 t m c 2 tot hk; omega
  · intro d hd t m c tot hk
    rcases (hm d).mp hd with rfl | ⟨h1, _⟩ | h1
    · rcases hp' t m c 3 tot hk with h2 | ⟨_, h2⟩ <;> omega
    · obtain ⟨r, a, g1, g2, g3, g4⟩ := h.done d h1 t m c tot hk
      obtain ⟨r', g5, g6⟩ := hT.fwd t r g1
      exact ⟨r', a, g5, by rw [g6.ast]; exact g2, by rw [g6.aft]; exact g3, g4.span g6 hmach⟩
    · have := hnew d h1 t m c 3 tot hk; omega
  · intro t r' f hr' hf
    rcases hT.bwd hr' with ⟨r, hr, hk⟩ | ⟨_, hfr⟩
    · obtain ⟨d, hd, m, c, tot, hdk⟩ := h.stamped t r f hr (by rw [← hk.aft]; exact hf)
      have hne : d.pid ≠ p.pid := by
        intro e
        have : d = p := hpw.eq_of_pid hd hp e
        subst this
        have := h.phase d hd ha t m c 3 tot hdk
        omega
      exact ⟨d, (hm d).mpr (Or.inr (Or.inl ⟨hd, hne⟩)), m, c, tot, hdk⟩
    · rw [hfr.aft] at hf; exact absurd hf (by simp)

/-! ### the two stamps -/

/-- facts shared by the two stamping blocks of the body `p` of task `t`: the records of the other
tasks are as before, and the other bodies belong to other tasks -/
theorem spanInv_stamp_frame {s s' : Sys} (hs : SInv s) {p : Proc} (hp : p ∈ s.procs) {t m c ph tot}
    (hk : p.k = .doWork t m c ph tot) (f : TaskRec → TaskRec) (hid : ∀ r, (f r).id = r.id)
    (ht : s'.tasks = (s.updTask t f).tasks) :
    (∀ r, s.task? t = some r → s'.task? t = some (f r)) ∧
    (∀ x, x ≠ t → s'.task? x = s.task? x) ∧
    (∀ x r', s'.task? x = some r' →
      (x = t ∧ ∃ r, s.task? t = some r ∧ r' = f r) ∨ (x ≠ t ∧ s.task? x = some r')) ∧
    (∀ d ∈ s.procs, d.pid ≠ p.pid → ∀ t1 m1 c1 ph1 tot1, d.k = .doWork t1 m1 c1 ph1 tot1 → t1 ≠ t) := by
  have htq : ∀ x, s'.task? x = (s.updTask t f).task? x := fun x => by unfold task?; rw [ht]
  have heq : ∀ r, s.task? t = some r → s'.task? t = some (f r) := fun r hr => by
    rw [htq]; exact task?_updTask_eq s f hid hr
  have hne : ∀ x, x ≠ t → s'.task? x = s.task? x := fun x hx => by
    rw [htq]; exact task?_updTask_ne s f hid hx
  refine ⟨heq, hne, ?_, ?_⟩
  · intro x r' hr'
    by_cases e : x = t
    · subst e
      cases h0 : s.task? x with
      | none =>
        rw [htq, task?_updTask s x x f hid, h0] at hr'
        exact absurd hr' (by simp)
      | some r =>
        rw [heq r h0] at hr'
        injection hr' with e'
        exact Or.inl ⟨rfl, r, rfl, e'.symm⟩
    · rw [hne x e] at hr'; exact Or.inr ⟨e, hr'⟩
  · intro d hd hne' t1 m1 c1 ph1 tot1 hdk e
    subst e
    exact hne' (hs.dg.dwUniq d hd p hp t1 m1 c1 ph1 tot1 m c ph tot hdk hk)

/-- the block that stamps the start -/
theorem spanInv_start {R} {s s' : Sys} (h : SpanInv R s) (hs : SInv s) {p p' : Proc} {new : List Proc}
    (hp : p ∈ s.procs) (ha : p.alive = true) {t m c ph tot} (hk : p.k = .doWork t m c ph tot)
    (r : TaskRec) (mm : Machine) (dur tot' : Nat) (hr : s.task? t = some r) (hmm : s.machine? m = some mm)
    (hnd : nominalDuration r.flops r.data mm.cpu mm.bw r.duration = .ok dur) (hR : R t dur tot')
    (hm : MemSpec s s' p p' new) (hnew : ∀ q, q ∉ new)
    (ht : s'.tasks = (s.updTask t (dwStartF p.wake dur)).tasks) (hmach : s'.machines = s.machines)
    (hk' : p'.k = .doWork t m c 2 tot') (hw' : p'.wake = p.wake + ((bodyWait tot' : Nat) : Time)) :
    SpanInv R s' := by
  obtain ⟨heq, hne, hback, hoth⟩ := spanInv_stamp_frame hs hp hk (dwStartF p.wake dur) (fun _ => rfl) ht
  have hmq : ∀ x, s'.machine? x = s.machine? x := machine?_congr hmach
  have hnomO : ∀ {t1 m1 tot1 r1}, Nom R s t1 m1 tot1 r1 → Nom R s' t1 m1 tot1 r1 :=
    fun hn => hn.transfer rfl rfl (fun _ _ => rfl) hmach
  constructor
  · intro d hd hda t1 m1 c1 ph1 tot1 hdk
    rcases (hm d).mp hd with rfl | ⟨h1, _⟩ | h1
    · rw [hk'] at hdk; injection hdk with _ _ _ e _; omega
    · exact h.phase d h1 hda t1 m1 c1 ph1 tot1 hdk
    · exact absurd h1 (hnew d)
  · intro d hd hda t1 m1 c1 tot1 hdk
    rcases (hm d).mp hd with rfl | ⟨h1, h2⟩ | h1
    · rw [hk'] at hdk
      injection hdk with e1 e2 _ _ e5
      subst e1 e2 e5
      refine ⟨dwStartF p.wake dur r, p.wake, heq r hr, rfl, hw', mm, by rw [hmq]; exact hmm, ?_, ?_⟩
      · intro hwk
        have hwk' : r.flops > 0 ∨ r.data > 0 := hwk
        unfold nominalDuration at hnd
        rw [if_pos hwk'] at hnd
        obtain ⟨g1, g2, g3⟩ := runtime_formula _ _ _ _ _ hnd
        refine ⟨g1, g2, ?_⟩
        show R t (max (r.flops / mm.cpu) (r.data / mm.bw)) tot'
        rw [← g3]; exact hR
      · intro h0 h0'
        have h0a : r.flops = 0 := h0
        have h0b : r.data = 0 := h0'
        show R t dur tot'
        exact hR
    · have hnt := hoth d h1 h2 t1 m1 c1 2 tot1 hdk
      obtain ⟨r1, a, g1, g2, g3, g4⟩ := h.run d h1 hda t1 m1 c1 tot1 hdk
      exact ⟨r1, a, by rw [hne t1 hnt]; exact g1, g2, g3, hnomO g4⟩
    · exact absurd h1 (hnew d)
  · intro d hd t1 m1 c1 tot1 hdk
    rcases (hm d).mp hd with rfl | ⟨h1, h2⟩ | h1
    · rw [hk'] at hdk; injection hdk with _ _ _ e _; omega
    · have hnt := hoth d h1 h2 t1 m1 c1 3 tot1 hdk
      obtain ⟨r1, a, g1, g2, g3, g4⟩ := h.done d h1 t1 m1 c1 tot1 hdk
      exact ⟨r1, a, by rw [hne t1 hnt]; exact g1, g2, g3, hnomO g4⟩
    · exact absurd h1 (hnew d)
  · intro x r' f hr' hf
    have hkeep : ∀ r0, s.task? x = some r0 → r0.aft = some f →
        ∃ d ∈ s'.procs, ∃ m1 c1 tot1, d.k = .doWork x m1 c1 3 tot1 := by
      intro r0 hr0 hf0
      obtain ⟨d, hd, m1, c1, tot1, hdk⟩ := h.stamped x r0 f hr0 hf0
      have hne' : d.pid ≠ p.pid := by
        intro e
        have : d = p := hs.pw.eq_of_pid hd hp e
        subst this
        have := h.phase d hd ha x m1 c1 3 tot1 hdk
        omega
      exact ⟨d, (hm d).mpr (Or.inr (Or.inl ⟨hd, hne'⟩)), m1, c1, tot1, hdk⟩
    rcases hback x r' hr' with ⟨rfl, r0, hr0, rfl⟩ | ⟨_, hr0⟩
    · exact hkeep r0 hr0 hf
    · exact hkeep r' hr0 hf

/-- the block that stamps the finish -/
theorem spanInv_finish {R} {s s' : Sys} (h : SpanInv R s) (hs : SInv s) {p p' : Proc} {new : List Proc}
    (hp : p ∈ s.procs) (ha : p.alive = true) {t m c ph tot} (hk : p.k = .doWork t m c ph tot) (hph : 2 ≤ ph)
    (hm : MemSpec s s' p p' new) (hnew : ∀ q, q ∉ new)
    (ht : s'.tasks = (s.updTask t (dwEndF p.wake tot)).tasks) (hmach : s'.machines = s.machines)
    (hk' : p'.k = .doWork t m c 3 tot) (ha' : p'.alive = false) :
    SpanInv R s' := by
  have hph2 : ph = 2 := by
    have := h.phase p hp ha t m c ph tot hk
    omega
  subst hph2
  obtain ⟨heq, hne, hback, hoth⟩ := spanInv_stamp_frame hs hp hk (dwEndF p.wake tot)
    (fun r => (dwEndF_spec p.wake tot r).1) ht
  have hnomO : ∀ {t1 m1 tot1 r1}, Nom R s t1 m1 tot1 r1 → Nom R s' t1 m1 tot1 r1 :=
    fun hn => hn.transfer rfl rfl (fun _ _ => rfl) hmach
  have hp'm : p' ∈ s'.procs := (hm p').mpr (Or.inl rfl)
  constructor
  · intro d hd hda t1 m1 c1 ph1 tot1 hdk
    rcases (hm d).mp hd with rfl | ⟨h1, _⟩ | h1
    · rw [ha'] at hda; exact absurd hda (by simp)
    · exact h.phase d h1 hda t1 m1 c1 ph1 tot1 hdk
    · exact absurd h1 (hnew d)
  · intro d hd hda t1 m1 c1 tot1 hdk
    rcases (hm d).mp hd with rfl | ⟨h1, h2⟩ | h1
    · rw [ha'] at hda; exact absurd hda (by simp)
    · have hnt := hoth d h1 h2 t1 m1 c1 2 tot1 hdk
      obtain ⟨r1, a, g1, g2, g3, g4⟩ := h.run d h1 hda t1 m1 c1 tot1 hdk
      exact ⟨r1, a, by rw [hne t1 hnt]; exact g1, g2, g3, hnomO g4⟩
    · exact absurd h1 (hnew d)
  · intro d hd t1 m1 c1 tot1 hdk
    rcases (hm d).mp hd with rfl | ⟨h1, h2⟩ | h1
    · rw [hk'] at hdk
      injection hdk with e1 e2 _ _ e5
      subst e1 e2 e5
      obtain ⟨r, a, g1, g2, g3, g4⟩ := h.run p hp ha t m c tot hk
      obtain ⟨_, _, _, q4, _, q6⟩ := dwEndF_spec p.wake tot r
      obtain ⟨w1, w2, w3⟩ := dwEndF_work p.wake tot r
      refine ⟨dwEndF p.wake tot r, a, heq r g1, by rw [q4]; exact g2, ?_, g4.transfer w1 w2 (fun _ _ => w3) hmach⟩
      rw [q6, g3]
      rfl
    · have hnt := hoth d h1 h2 t1 m1 c1 3 tot1 hdk
      obtain ⟨r1, a, g1, g2, g3, g4⟩ := h.done d h1 t1 m1 c1 tot1 hdk
      exact ⟨r1, a, by rw [hne t1 hnt]; exact g1, g2, g3, hnomO g4⟩
    · exact absurd h1 (hnew d)
  · intro x r' f hr' hf
    rcases hback x r' hr' with ⟨rfl, _, _, _⟩ | ⟨hxt, hr0⟩
    · exact ⟨p', hp'm, m, c, tot, hk'⟩
    · obtain ⟨d, hd, m1, c1, tot1, hdk⟩ := h.stamped x r' f hr0 hf
      have hne' : d.pid ≠ p.pid := by
        intro e
        have : d = p := hs.pw.eq_of_pid hd hp e
        subst this
        rw [hk] at hdk
        injection hdk with e1 _ _ _ _
        exact hxt e1.symm
      exact ⟨d, (hm d).mpr (Or.inr (Or.inl ⟨hd, hne'⟩)), m1, c1, tot1, hdk⟩

/-! ### one step -/

theorem newKind_dw {k k' : PK} (h : NewKind k k') {t m c ph tot} (e : k' = .doWork t m c ph tot) : ph = 0 := by
  subst e
  cases k <;> simp [NewKind] at h
  exact h.2.2.2.1

theorem spanInv_step {R} {s : Sys} (hs : SInv s) (h : SpanInv R s) {pid : Nat} (hen : s.enabled pid) (orc : Oracle)
    (hob : orc.Obeys R) : SpanInv R (s.resume pid orc).1 := by
  obtain ⟨p, hp, ha, hmin⟩ := hen
  obtain ⟨hpm, hpid⟩ := proc?_some hp
  obtain ⟨new, hnewe, hnewp⟩ := block_newp s p orc
  have hm := resume_memSpec ⟨hs.pw, hs.eg⟩ hp ha hmin orc hnewe
  have hcore := resume_core s pid orc p hp ha
  have htasks : (s.resume pid orc).1.tasks = (s.block p orc).1.tasks := by rw [hcore.tasks]; rfl
  have hmach := resume_machs s pid orc
  by_cases htag : p.k.tag = "doWork"
  · cases hk : p.k with
    | doWork t m c ph tot =>
      have hnone : ∀ q, q ∉ new := by
        intro q hq
        have := (hnewp q hq).2.2.2
        rw [hk] at this
        exact this
      have hb : s.block p orc = s.doWorkBlock p.wake orc t m c ph tot := block_doWork orc hk
      have hsh := doWorkBlock_shape2 s p.wake orc t m c ph tot
      rw [hb] at hm htasks
      generalize s.doWorkBlock p.wake orc t m c ph tot = X at hsh hm htasks
      cases hsh with
      | raised ph' e hph' =>
        refine spanInv_quiet h hs.pw hpm ha hm (SpanStep.of_eq htasks) hmach (fun q hq => absurd hq (hnone q)) ?_
        intro t1 m1 c1 ph1 tot1 hk1
        right
        refine ⟨rfl, ?_⟩
        simp only [fin_k] at hk1
        injection hk1 with _ _ _ e4 _
        omega
      | wait w =>
        refine spanInv_quiet h hs.pw hpm ha hm (SpanStep.of_eq htasks) hmach (fun q hq => absurd hq (hnone q)) ?_
        intro t1 m1 c1 ph1 tot1 hk1
        left
        simp only [fin_k] at hk1
        injection hk1 with _ _ _ e4 _
        omega
      | start r mm dur hr hmm hnd =>
        exact spanInv_start h hs hpm ha hk r mm dur _ hr hmm hnd (hob t _ dur) hm hnone htasks hmach
          (by simp only [fin_k]) rfl
      | finish hph =>
        exact spanInv_finish h hs hpm ha hk hph hm hnone htasks hmach (by simp only [fin_k]) rfl
    | _ => rw [hk] at htag; simp [PK.tag] at htag
  · have hT : SpanStep s (s.resume pid orc).1 := (block_spanStep s hs.pw p orc htag).of_tasks_eq htasks
    refine spanInv_quiet h hs.pw hpm ha hm hT hmach ?_ ?_
    · intro q hq t m c ph tot hqk
      exact newKind_dw (hnewp q hq).2.2.2 hqk
    · intro t m c ph tot hk1
      exfalso
      simp only [fin_k] at hk1
      have := block_tag s hs.pw p orc
      rw [hk1] at this
      exact htag this.symm

theorem spanInv_start0 {R} (s0 : Sys) (hw : WFConfig s0) : SpanInv R s0.start := by
  obtain ⟨hprocs, hnp, htasks, _⟩ := hw.fresh
  have hp : s0.start.procs = s0.procs ++
      [{ pid := s0.nextPid, k := .monitor, wake := 0 }, { pid := s0.nextPid + 1, k := .telescope, wake := 0 },
       { pid := s0.nextPid + 2, k := .clusterLoop, wake := 0 }, { pid := s0.nextPid + 3, k := .schedLoop, wake := 0 },
       { pid := s0.nextPid + 4, k := .bufferLoop, wake := 0 }] := by
    simp [start, spawn]
  have ht : s0.start.tasks = s0.tasks := by simp [start, spawn]
  rw [hprocs] at hp
  simp only [List.nil_append] at hp
  constructor
  · rw [hp]; intro d hd _ t m c ph tot hk
    simp at hd; rcases hd with rfl | rfl | rfl | rfl | rfl <;> simp at hk
  · rw [hp]; intro d hd _ t m c tot hk
    simp at hd; rcases hd with rfl | rfl | rfl | rfl | rfl <;> simp at hk
  · rw [hp]; intro d hd t m c tot hk
    simp at hd; rcases hd with rfl | rfl | rfl | rfl | rfl <;> simp at hk
  · intro t r f hr
    unfold task? at hr
    rw [ht, htasks] at hr
    simp at hr

end Sys
end Topsim
