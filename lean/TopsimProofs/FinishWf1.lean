/-
  FinishWf1 — the workflow invariant `WI`: every unfinished workflow-task record
  belongs to its observation's (pruned) plan; the plan of an observation whose
  data has been removed from the buffer is empty; FINISHED records were started.
  Primitive preservation lemmas, one per field.
-/
import TopsimProofs.FinishRes11

namespace Topsim
namespace Sys

/-- `t` is the id of a workflow task -/
def IsWf (t : Tid) : Prop := ∃ o c n, t = Tid.wf o c n

structure WI (s : Sys) : Prop where
  /-- the records of one workflow task agree on the status -/
  un : ∀ r ∈ s.tasks, ∀ r' ∈ s.tasks, r.id = r'.id → IsWf r.id → r.status = r'.status
  /-- workflow records exist only for planned observations -/
  pr : ∀ r ∈ s.tasks, ∀ o c n, r.id = .wf o c n → (s.plan? o).isSome = true
  /-- an unfinished workflow record is in the (pruned) plan of its observation -/
  pc : ∀ r ∈ s.tasks, ∀ o c n, r.id = .wf o c n → r.status ≠ .finished → r.id ∈ planTasks s o
  pf : ∀ pl ∈ s.plans, pl.status = .finished → pl.tasks = []
  pt : ∀ pl ∈ s.plans, ∀ t ∈ pl.tasks, ∃ c n, t = .wf pl.obs c n
  pn : (s.plans.map (·.obs)).Nodup
  /-- the plan of an observation removed from the hot buffer is empty -/
  fz : ∀ o ∈ s.buf.hot.finished, (s.plan? o).isSome = true ∧ planTasks s o = []
  /-- a FINISHED record was started -/
  fs : ∀ r ∈ s.tasks, r.status = .finished → r.id ∈ s.starts
  /-- a live allocation process carries a task without FINISHED record -/
  ast : ∀ p ∈ s.procs, p.alive = true → ∀ t m preds obs ing ret, p.k = .allocTask t m preds obs ing ret →
    IsWf t → ∀ r ∈ s.tasks, r.id = t → r.status ≠ .finished

theorem plan?_of_plans {a b : Sys} (h : b.plans = a.plans) (o : Oid) : b.plan? o = a.plan? o := by
  unfold plan?; rw [h]

/-- `starts` only grows -/
theorem WI.starts {s s' : Sys} (h : WI s) (ht : s'.tasks = s.tasks) (hp : s'.plans = s.plans)
    (hf : s'.buf.hot.finished = s.buf.hot.finished) (hpr : s'.procs = s.procs)
    (hc : ∀ x ∈ s.starts, x ∈ s'.starts) : WI s' := by
  have hplT : ∀ o, planTasks s' o = planTasks s o := planTasks_of_plans hp
  have hpl? : ∀ o, s'.plan? o = s.plan? o := plan?_of_plans hp
  constructor
  · rw [ht]; exact h.un
  · rw [ht]; intro r hr o c n e; rw [hpl?]; exact h.pr r hr o c n e
  · rw [ht]; intro r hr o c n e hs; rw [hplT]; exact h.pc r hr o c n e hs
  · rw [hp]; exact h.pf
  · rw [hp]; exact h.pt
  · rw [hp]; exact h.pn
  · rw [hf]; intro o ho; rw [hpl?, hplT]; exact h.fz o ho
  · rw [ht]; intro r hr hs; exact hc _ (h.fs r hr hs)
  · rw [hpr, ht]; exact h.ast

theorem WI.congr {s s' : Sys} (h : WI s) (ht : s'.tasks = s.tasks) (hp : s'.plans = s.plans)
    (hf : s'.buf.hot.finished = s.buf.hot.finished) (hpr : s'.procs = s.procs)
    (hc : s'.starts = s.starts) : WI s' :=
  h.starts ht hp hf hpr (fun x hx => by rw [hc]; exact hx)

/-- the process table changes: every live allocation process of the new table is an old one or
carries a task without FINISHED record -/
theorem WI.procs {s s' : Sys} (h : WI s) (ht : s'.tasks = s.tasks) (hp : s'.plans = s.plans)
    (hf : s'.buf.hot.finished = s.buf.hot.finished) (hc : s'.starts = s.starts)
    (hpr : ∀ p ∈ s'.procs, p.alive = true → ∀ t m preds obs ing ret, p.k = .allocTask t m preds obs ing ret →
      IsWf t →
      (∃ p0 ∈ s.procs, p0.alive = true ∧ ∃ m0 preds0 obs0 ing0 ret0, p0.k = .allocTask t m0 preds0 obs0 ing0 ret0) ∨
      (∀ r ∈ s.tasks, r.id = t → r.status ≠ .finished)) : WI s' := by
  have h0 : WI { s' with procs := s.procs } := h.congr ht hp hf rfl hc
  refine { h0 with ast := ?_ }
  intro p hp' hpa t m preds obs ing ret hk hw r hr hid
  rw [ht] at hr
  rcases hpr p hp' hpa t m preds obs ing ret hk hw with ⟨p0, hp0, ha0, m0, preds0, obs0, ing0, ret0, hk0⟩ | hno
  · exact h.ast p0 hp0 ha0 _ _ _ _ _ _ hk0 hw r hr hid
  · exact hno r hr hid

/-- task records updated without touching ids or statuses -/
theorem WI.tasksKeep {s s' : Sys} (h : WI s) (hp : s'.plans = s.plans)
    (hf : s'.buf.hot.finished = s.buf.hot.finished) (hc : s'.starts = s.starts)
    (hpr : s'.procs = s.procs) (g : TaskRec → TaskRec) (hg : ∀ r, (g r).id = r.id ∧ (g r).status = r.status)
    (ht : s'.tasks = s.tasks.map g) : WI s' := by
  have hplT : ∀ o, planTasks s' o = planTasks s o := planTasks_of_plans hp
  have hpl? : ∀ o, s'.plan? o = s.plan? o := plan?_of_plans hp
  have back : ∀ r' ∈ s'.tasks, ∃ r ∈ s.tasks, r'.id = r.id ∧ r'.status = r.status := by
    intro r' hr'
    rw [ht] at hr'
    obtain ⟨r, hr, rfl⟩ := List.mem_map.mp hr'
    exact ⟨r, hr, (hg r).1, (hg r).2⟩
  constructor
  · intro r1 h1 r2 h2 e hw
    obtain ⟨a, ha, e1, s1⟩ := back r1 h1
    obtain ⟨b, hb, e2, s2⟩ := back r2 h2
    rw [s1, s2]
    exact h.un a ha b hb (by rw [← e1, ← e2]; exact e) (by rw [← e1]; exact hw)
  · intro r' hr' o c n e
    obtain ⟨r, hr, e1, _⟩ := back r' hr'
    rw [hpl?]; exact h.pr r hr o c n (by rw [← e1]; exact e)
  · intro r' hr' o c n e hs
    obtain ⟨r, hr, e1, s1⟩ := back r' hr'
    rw [hplT, e1]; exact h.pc r hr o c n (by rw [← e1]; exact e) (by rw [← s1]; exact hs)
  · rw [hp]; exact h.pf
  · rw [hp]; exact h.pt
  · rw [hp]; exact h.pn
  · rw [hf]; intro o ho; rw [hpl?, hplT]; exact h.fz o ho
  · intro r' hr' hs
    obtain ⟨r, hr, e1, s1⟩ := back r' hr'
    rw [hc, e1]; exact h.fs r hr (by rw [← s1]; exact hs)
  · intro p hp' hpa t m preds obs ing ret hk hw r' hr' hid
    obtain ⟨r, hr, e1, s1⟩ := back r' hr'
    rw [hpr] at hp'
    rw [s1]; exact h.ast p hp' hpa t m preds obs ing ret hk hw r hr (by rw [← e1]; exact hid)

/-- the records of task `t` get status `st'` (not FINISHED); none of them was FINISHED -/
theorem WI.tasksSet {s s' : Sys} (h : WI s) (hp : s'.plans = s.plans)
    (hf : s'.buf.hot.finished = s.buf.hot.finished) (hc : s'.starts = s.starts)
    (hpr : s'.procs = s.procs) (t : Tid) (f : TaskRec → TaskRec) (st' : TStatus)
    (hf' : ∀ r, (f r).id = r.id ∧ (f r).status = st') (hne : st' ≠ .finished)
    (hnf : IsWf t → ∀ r ∈ s.tasks, r.id = t → r.status ≠ .finished)
    (ht : s'.tasks = s.tasks.map (fun r => if r.id = t then f r else r)) : WI s' := by
  have hplT : ∀ o, planTasks s' o = planTasks s o := planTasks_of_plans hp
  have hpl? : ∀ o, s'.plan? o = s.plan? o := plan?_of_plans hp
  have back : ∀ r' ∈ s'.tasks, ∃ r ∈ s.tasks, r'.id = r.id ∧
      ((r.id = t ∧ r'.status = st') ∨ (r.id ≠ t ∧ r'.status = r.status)) := by
    intro r' hr'
    rw [ht] at hr'
    obtain ⟨r, hr, rfl⟩ := List.mem_map.mp hr'
    by_cases e : r.id = t
    · simp only [e, if_true]; exact ⟨r, hr, by rw [(hf' r).1, e], Or.inl ⟨e, (hf' r).2⟩⟩
    · simp only [e, if_false]; exact ⟨r, hr, rfl, Or.inr ⟨e, rfl⟩⟩
  constructor
  · intro r1 h1 r2 h2 e hw
    obtain ⟨a, ha, e1, c1⟩ := back r1 h1
    obtain ⟨b, hb, e2, c2⟩ := back r2 h2
    have eab : a.id = b.id := by rw [← e1, ← e2]; exact e
    rcases c1 with ⟨a1, s1⟩ | ⟨a1, s1⟩ <;> rcases c2 with ⟨b1, s2⟩ | ⟨b1, s2⟩
    · rw [s1, s2]
    · exact absurd (eab ▸ a1) b1
    · exact absurd (eab ▸ b1) a1
    · rw [s1, s2]; exact h.un a ha b hb eab (by rw [← e1]; exact hw)
  · intro r' hr' o c n e
    obtain ⟨r, hr, e1, _⟩ := back r' hr'
    rw [hpl?]; exact h.pr r hr o c n (by rw [← e1]; exact e)
  · intro r' hr' o c n e hs
    obtain ⟨r, hr, e1, c1⟩ := back r' hr'
    rw [hplT, e1]
    apply h.pc r hr o c n (by rw [← e1]; exact e)
    rcases c1 with ⟨a1, _⟩ | ⟨_, s1⟩
    · exact hnf ⟨o, c, n, by rw [← a1, ← e1]; exact e⟩ r hr a1
    · rw [← s1]; exact hs
  · rw [hp]; exact h.pf
  · rw [hp]; exact h.pt
  · rw [hp]; exact h.pn
  · rw [hf]; intro o ho; rw [hpl?, hplT]; exact h.fz o ho
  · intro r' hr' hs
    obtain ⟨r, hr, e1, c1⟩ := back r' hr'
    rcases c1 with ⟨_, s1⟩ | ⟨_, s1⟩
    · rw [s1] at hs; exact absurd hs hne
    · rw [hc, e1]; exact h.fs r hr (by rw [← s1]; exact hs)
  · intro p hp' hpa t1 m preds obs ing ret hk hw r' hr' hid
    obtain ⟨r, hr, e1, c1⟩ := back r' hr'
    rw [hpr] at hp'
    rcases c1 with ⟨_, s1⟩ | ⟨_, s1⟩
    · rw [s1]; exact hne
    · rw [s1]; exact h.ast p hp' hpa t1 m preds obs ing ret hk hw r hr (by rw [← e1]; exact hid)

/-- the records of task `t` become FINISHED: it was started and no live allocation
process carries it any more -/
theorem WI.tasksFinish {s s' : Sys} (h : WI s) (hp : s'.plans = s.plans)
    (hf : s'.buf.hot.finished = s.buf.hot.finished) (hc : s'.starts = s.starts)
    (hpr : s'.procs = s.procs) (t : Tid) (f : TaskRec → TaskRec)
    (hf' : ∀ r, (f r).id = r.id ∧ (f r).status = .finished)
    (hst : t ∈ s.starts)
    (hno : ∀ p ∈ s.procs, p.alive = true → ∀ m preds obs ing ret, p.k ≠ .allocTask t m preds obs ing ret)
    (ht : s'.tasks = s.tasks.map (fun r => if r.id = t then f r else r)) : WI s' := by
  have hplT : ∀ o, planTasks s' o = planTasks s o := planTasks_of_plans hp
  have hpl? : ∀ o, s'.plan? o = s.plan? o := plan?_of_plans hp
  have back : ∀ r' ∈ s'.tasks, ∃ r ∈ s.tasks, r'.id = r.id ∧
      ((r.id = t ∧ r'.status = .finished) ∨ (r.id ≠ t ∧ r'.status = r.status)) := by
    intro r' hr'
    rw [ht] at hr'
    obtain ⟨r, hr, rfl⟩ := List.mem_map.mp hr'
    by_cases e : r.id = t
    · simp only [e, if_true]; exact ⟨r, hr, by rw [(hf' r).1, e], Or.inl ⟨e, (hf' r).2⟩⟩
    · simp only [e, if_false]; exact ⟨r, hr, rfl, Or.inr ⟨e, rfl⟩⟩
  constructor
  · intro r1 h1 r2 h2 e hw
    obtain ⟨a, ha, e1, c1⟩ := back r1 h1
    obtain ⟨b, hb, e2, c2⟩ := back r2 h2
    have eab : a.id = b.id := by rw [← e1, ← e2]; exact e
    rcases c1 with ⟨a1, s1⟩ | ⟨a1, s1⟩ <;> rcases c2 with ⟨b1, s2⟩ | ⟨b1, s2⟩
    · rw [s1, s2]
    · exact absurd (eab ▸ a1) b1
    · exact absurd (eab ▸ b1) a1
    · rw [s1, s2]; exact h.un a ha b hb eab (by rw [← e1]; exact hw)
  · intro r' hr' o c n e
    obtain ⟨r, hr, e1, _⟩ := back r' hr'
    rw [hpl?]; exact h.pr r hr o c n (by rw [← e1]; exact e)
  · intro r' hr' o c n e hs
    obtain ⟨r, hr, e1, c1⟩ := back r' hr'
    rw [hplT, e1]
    apply h.pc r hr o c n (by rw [← e1]; exact e)
    rcases c1 with ⟨_, s1⟩ | ⟨_, s1⟩
    · exact absurd s1 hs
    · rw [← s1]; exact hs
  · rw [hp]; exact h.pf
  · rw [hp]; exact h.pt
  · rw [hp]; exact h.pn
  · rw [hf]; intro o ho; rw [hpl?, hplT]; exact h.fz o ho
  · intro r' hr' hs
    obtain ⟨r, hr, e1, c1⟩ := back r' hr'
    rw [hc, e1]
    rcases c1 with ⟨a1, _⟩ | ⟨_, s1⟩
    · rw [a1]; exact hst
    · exact h.fs r hr (by rw [← s1]; exact hs)
  · intro p hp' hpa t1 m preds obs ing ret hk hw r' hr' hid
    obtain ⟨r, hr, e1, c1⟩ := back r' hr'
    rw [hpr] at hp'
    rcases c1 with ⟨a1, _⟩ | ⟨_, s1⟩
    · exfalso
      have : t1 = t := by rw [← hid, e1, a1]
      subst this
      exact hno p hp' hpa m preds obs ing ret hk
    · rw [s1]; exact h.ast p hp' hpa t1 m preds obs ing ret hk hw r hr (by rw [← e1]; exact hid)

/-- a per-plan update of observation `oid`: tasks are only dropped, and only tasks all of whose
records are FINISHED; a FINISHED status comes with an empty task list -/
theorem WI.planMap {s s' : Sys} (h : WI s) (ht : s'.tasks = s.tasks)
    (hf : s'.buf.hot.finished = s.buf.hot.finished) (hc : s'.starts = s.starts)
    (hpr : s'.procs = s.procs) (oid : Oid) (F : Plan → Plan)
    (hpl : s'.plans = s.plans.map (fun pl => if pl.obs = oid then F pl else pl))
    (hobs : ∀ pl, (F pl).obs = pl.obs)
    (hsub : ∀ pl ∈ s.plans, pl.obs = oid → ∀ t ∈ (F pl).tasks, t ∈ pl.tasks)
    (hkeep : ∀ pl ∈ s.plans, pl.obs = oid → ∀ t ∈ pl.tasks,
      t ∈ (F pl).tasks ∨ ∀ r ∈ s.tasks, r.id = t → r.status = .finished)
    (hfin : ∀ pl ∈ s.plans, pl.obs = oid → (F pl).status = .finished → (F pl).tasks = []) : WI s' := by
  have hp? := plan?_map s s' oid F hobs hpl
  have hsome : ∀ o, (s.plan? o).isSome = true → (s'.plan? o).isSome = true := by
    intro o ho
    rw [hp? o]
    cases hpo : s.plan? o with
    | none => rw [hpo] at ho; simp at ho
    | some pl => rfl
  have hkeep' : ∀ o t, t ∈ planTasks s o → t ∈ planTasks s' o ∨ ∀ r ∈ s.tasks, r.id = t → r.status = .finished := by
    intro o t ht'
    unfold planTasks at ht' ⊢
    rw [hp? o]
    cases hpo : s.plan? o with
    | none => rw [hpo] at ht'; simp at ht'
    | some pl =>
      rw [hpo] at ht'
      obtain ⟨hm, ho⟩ := plan?_mem hpo
      simp only [Option.map_some]
      by_cases e : pl.obs = oid
      · simp only [e, if_true]; exact hkeep pl hm e t ht'
      · simp only [e, if_false]; exact Or.inl ht'
  have hnil : ∀ o, planTasks s o = [] → planTasks s' o = [] := by
    intro o ho
    unfold planTasks at ho ⊢
    rw [hp? o]
    cases hpo : s.plan? o with
    | none => rfl
    | some pl =>
      rw [hpo] at ho
      obtain ⟨hm, _⟩ := plan?_mem hpo
      simp only [Option.map_some]
      by_cases e : pl.obs = oid
      · simp only [e, if_true]
        cases htk : (F pl).tasks with
        | nil => rfl
        | cons x r =>
          have := hsub pl hm e x (by rw [htk]; simp)
          simp only at ho
          rw [ho] at this; simp at this
      · simp only [e, if_false]; exact ho
  constructor
  · rw [ht]; exact h.un
  · rw [ht]; intro r hr o c n e; exact hsome o (h.pr r hr o c n e)
  · rw [ht]; intro r hr o c n e hs
    rcases hkeep' o r.id (h.pc r hr o c n e hs) with h1 | h1
    · exact h1
    · exact absurd (h1 r hr rfl) hs
  · intro pl' hpl' hfin'
    rw [hpl] at hpl'
    obtain ⟨pl, hpl0, rfl⟩ := List.mem_map.mp hpl'
    by_cases e : pl.obs = oid
    · simp only [e, if_true] at hfin' ⊢; exact hfin pl hpl0 e hfin'
    · simp only [e, if_false] at hfin' ⊢; exact h.pf pl hpl0 hfin'
  · intro pl' hpl' t ht'
    rw [hpl] at hpl'
    obtain ⟨pl, hpl0, rfl⟩ := List.mem_map.mp hpl'
    by_cases e : pl.obs = oid
    · rw [if_pos e] at ht' ⊢
      rw [hobs]; exact h.pt pl hpl0 t (hsub pl hpl0 e t ht')
    · rw [if_neg e] at ht' ⊢; exact h.pt pl hpl0 t ht'
  · rw [hpl, List.map_map]
    have : (fun pl : Plan => pl.obs) ∘ (fun pl => if pl.obs = oid then F pl else pl) = fun pl => pl.obs := by
      funext pl
      simp only [Function.comp]
      split
      · exact hobs pl
      · rfl
    rw [this]; exact h.pn
  · rw [hf]; intro o ho
    obtain ⟨a1, a2⟩ := h.fz o ho
    exact ⟨hsome o a1, hnil o a2⟩
  · rw [ht, hc]; exact h.fs
  · rw [hpr, ht]; exact h.ast

/-- the observation `oid`, whose plan is empty, is removed from the hot buffer -/
theorem WI.hotFinished {s s' : Sys} (h : WI s) (ht : s'.tasks = s.tasks) (hp : s'.plans = s.plans)
    (hc : s'.starts = s.starts) (hpr : s'.procs = s.procs) (oid : Oid)
    (hf : ∀ o ∈ s'.buf.hot.finished, o ∈ s.buf.hot.finished ∨ o = oid)
    (hpo : (s.plan? oid).isSome = true) (hnil : planTasks s oid = []) : WI s' := by
  have h0 : WI { s' with buf := s.buf } := h.congr ht hp rfl hpr hc
  refine { h0 with fz := ?_ }
  intro o ho
  have hplT : ∀ o, planTasks s' o = planTasks s o := planTasks_of_plans hp
  have hpl? : ∀ o, s'.plan? o = s.plan? o := plan?_of_plans hp
  rw [hpl?, hplT]
  rcases hf o ho with h1 | rfl
  · exact h.fz o h1
  · exact ⟨hpo, hnil⟩

/-- a new plan, with its new (UNSCHEDULED) task records, for an observation without plan -/
theorem WI.planned {s s' : Sys} (h : WI s) (hf : s'.buf.hot.finished = s.buf.hot.finished)
    (hc : s'.starts = s.starts) (hpr : s'.procs = s.procs) (oid : Oid) (c : Nat) (recs : List TaskRec) (plan : Plan)
    (ht : s'.tasks = s.tasks ++ recs) (hpl : s'.plans = s.plans ++ [plan])
    (hnone : s.plan? oid = none) (hobs : plan.obs = oid) (hstat : plan.status ≠ .finished)
    (hrecs : ∀ r ∈ recs, r.status = .unscheduled ∧ ∃ n, r.id = .wf oid c n)
    (hptasks : ∀ r ∈ recs, r.id ∈ plan.tasks) (hpt : ∀ t ∈ plan.tasks, ∃ n, t = .wf oid c n) : WI s' := by
  have hnoplan : ∀ pl ∈ s.plans, pl.obs ≠ oid := by
    intro pl hpl' e
    unfold plan? at hnone
    rw [List.find?_eq_none] at hnone
    exact absurd (hnone pl hpl') (by simp [e])
  have hplan? : ∀ o', s'.plan? o' = if o' = oid then some plan else s.plan? o' := by
    intro o'
    unfold plan?
    rw [hpl, plan?_append]
    by_cases e : o' = oid
    · subst e
      have : s.plans.find? (fun p => decide (p.obs = o')) = none := hnone
      rw [this]; simp [hobs]
    · rw [if_neg e]
      cases hf' : s.plans.find? (fun p => decide (p.obs = o')) with
      | some pl => rfl
      | none => simp only; rw [if_neg (by rw [hobs]; exact fun e' => e e'.symm)]
  have hPT : ∀ o', o' ≠ oid → planTasks s' o' = planTasks s o' := by
    intro o' e; unfold planTasks; rw [hplan?, if_neg e]
  have hPT1 : planTasks s' oid = plan.tasks := by unfold planTasks; rw [hplan?, if_pos rfl]
  have hsome : ∀ o, (s.plan? o).isSome = true → (s'.plan? o).isSome = true := by
    intro o ho
    rw [hplan?]
    split
    · rfl
    · exact ho
  -- old records are not about `oid`
  have hold : ∀ r ∈ s.tasks, ∀ c n, r.id ≠ .wf oid c n := by
    intro r hr c n e
    have := h.pr r hr oid c n e
    rw [hnone] at this; simp at this
  have hmem : ∀ r ∈ s'.tasks, r ∈ s.tasks ∨ r ∈ recs := by
    intro r hr; rw [ht] at hr; exact List.mem_append.mp hr
  constructor
  · intro r1 h1 r2 h2 e hw
    rcases hmem r1 h1 with a | a <;> rcases hmem r2 h2 with b | b
    · exact h.un r1 a r2 b e hw
    · obtain ⟨_, n, e2⟩ := hrecs r2 b
      exact absurd (e.trans e2) (hold r1 a c n)
    · obtain ⟨_, n, e1⟩ := hrecs r1 a
      exact absurd (e.symm.trans e1) (hold r2 b c n)
    · rw [(hrecs r1 a).1, (hrecs r2 b).1]
  · intro r hr o c' n e
    rcases hmem r hr with a | a
    · exact hsome o (h.pr r a o c' n e)
    · obtain ⟨_, n', e'⟩ := hrecs r a
      rw [e'] at e
      injection e with e1 _ _
      subst e1
      rw [hplan?, if_pos rfl]; rfl
  · intro r hr o c' n e hs
    rcases hmem r hr with a | a
    · have hne : o ≠ oid := by
        intro e'; subst e'; exact hold r a c' n e
      rw [hPT o hne]; exact h.pc r a o c' n e hs
    · obtain ⟨_, n', e'⟩ := hrecs r a
      have : o = oid := by
        rw [e'] at e
        injection e with e1 _ _
        exact e1.symm
      subst this
      rw [hPT1]; exact hptasks r a
  · intro pl hpl' hfin
    rw [hpl] at hpl'
    rcases List.mem_append.mp hpl' with h1 | h1
    · exact h.pf pl h1 hfin
    · simp only [List.mem_singleton] at h1
      subst h1
      exact absurd hfin hstat
  · intro pl hpl' t ht'
    rw [hpl] at hpl'
    rcases List.mem_append.mp hpl' with h1 | h1
    · exact h.pt pl h1 t ht'
    · simp only [List.mem_singleton] at h1
      subst h1
      obtain ⟨n, e⟩ := hpt t ht'
      exact ⟨c, n, by rw [hobs]; exact e⟩
  · rw [hpl, List.map_append, List.nodup_append]
    refine ⟨h.pn, by simp, ?_⟩
    intro a ha b hb'
    simp at hb'; subst hb'
    obtain ⟨pl, hpl', rfl⟩ := List.mem_map.mp ha
    rw [hobs]; exact hnoplan pl hpl'
  · rw [hf]; intro o ho
    obtain ⟨a1, a2⟩ := h.fz o ho
    have hne : o ≠ oid := by
      intro e; subst e; rw [hnone] at a1; simp at a1
    exact ⟨hsome o a1, by rw [hPT o hne]; exact a2⟩
  · intro r hr hs
    rw [hc]
    rcases hmem r hr with a | a
    · exact h.fs r a hs
    · rw [(hrecs r a).1] at hs; exact absurd hs (by simp)
  · intro p hp' hpa t m preds obs ing ret hk hw r hr hid
    rw [hpr] at hp'
    rcases hmem r hr with a | a
    · exact h.ast p hp' hpa t m preds obs ing ret hk hw r a hid
    · rw [(hrecs r a).1]; simp

/-- new records that are not workflow records (the ingest provisioner's) -/
theorem WI.tasksAppend {s s' : Sys} (h : WI s) (hp : s'.plans = s.plans)
    (hf : s'.buf.hot.finished = s.buf.hot.finished) (hc : s'.starts = s.starts)
    (hpr : s'.procs = s.procs) (recs : List TaskRec) (ht : s'.tasks = s.tasks ++ recs)
    (hrecs : ∀ r ∈ recs, ¬ IsWf r.id ∧ r.status ≠ .finished) : WI s' := by
  have hplT : ∀ o, planTasks s' o = planTasks s o := planTasks_of_plans hp
  have hpl? : ∀ o, s'.plan? o = s.plan? o := plan?_of_plans hp
  have hmem : ∀ r ∈ s'.tasks, r ∈ s.tasks ∨ r ∈ recs := by
    intro r hr; rw [ht] at hr; exact List.mem_append.mp hr
  constructor
  · intro r1 h1 r2 h2 e hw
    rcases hmem r1 h1 with a | a <;> rcases hmem r2 h2 with b | b
    · exact h.un r1 a r2 b e hw
    · exact absurd (e ▸ hw) (hrecs r2 b).1
    · exact absurd hw (hrecs r1 a).1
    · exact absurd hw (hrecs r1 a).1
  · intro r hr o c n e
    rcases hmem r hr with a | a
    · rw [hpl?]; exact h.pr r a o c n e
    · exact absurd ⟨o, c, n, e⟩ (hrecs r a).1
  · intro r hr o c n e hs
    rcases hmem r hr with a | a
    · rw [hplT]; exact h.pc r a o c n e hs
    · exact absurd ⟨o, c, n, e⟩ (hrecs r a).1
  · rw [hp]; exact h.pf
  · rw [hp]; exact h.pt
  · rw [hp]; exact h.pn
  · rw [hf]; intro o ho; rw [hpl?, hplT]; exact h.fz o ho
  · intro r hr hs
    rw [hc]
    rcases hmem r hr with a | a
    · exact h.fs r a hs
    · exact absurd hs (hrecs r a).2
  · intro p hp' hpa t m preds obs ing ret hk hw r hr hid
    rw [hpr] at hp'
    rcases hmem r hr with a | a
    · exact h.ast p hp' hpa t m preds obs ing ret hk hw r a hid
    · exact (hrecs r a).2

/-- the entry of the process that ran is replaced: an allocation process keeps its task -/
theorem WI.updProc {X : Sys} (h : WI X) (pid : Nat) (k' : PK) (y : Yield) (w : Time)
    (hk' : ∀ q0 ∈ X.procs, q0.pid = pid → ∀ t m preds obs ing ret, k' = .allocTask t m preds obs ing ret →
      ∃ m0 preds0 obs0 ing0 ret0, q0.k = .allocTask t m0 preds0 obs0 ing0 ret0) :
    WI (X.updProc pid (fin k' y w)) := by
  refine h.procs rfl rfl rfl rfl ?_
  intro q hq hqa t m preds obs ing ret hqk _
  left
  obtain ⟨q0, hq0, rfl⟩ := mem_updProc.mp hq
  by_cases e : q0.pid = pid
  · rw [if_pos e] at hqa hqk
    simp only [fin_k] at hqk
    exact ⟨q0, hq0, (fin_alive _ _ _ _ hqa).1, hk' q0 hq0 e t m preds obs ing ret hqk⟩
  · rw [if_neg e] at hqa hqk
    exact ⟨q0, hq0, hqa, m, preds, obs, ing, ret, hqk⟩

end Sys
end Topsim
