/-
  Live8d — the telescope's status flag is set only while arrays are in use (`live_telStatus`), and
  J6 (`live_free`): with no live worker process and every admitted observation FINISHED, the
  cluster, the ingest counter and the telescope are completely free.
-/
import TopsimProofs.Live8c

namespace Topsim

open KState Sys

namespace Sys

/-- the telescope's status flag is set only while arrays are in use -/
def l8TS (s : Sys) : Prop := s.telStatus = true → 0 < s.telUse

theorem l8_ts_telStep {n : Nat} {oid : Oid} {acc acc' : Sys × Option Err} {t : List Event}
    (ha : TelAcct acc.1) (ha' : TelAcct acc'.1) (ht : TelStep n oid acc acc' t) (h : l8TS acc.1) :
    l8TS acc'.1 := by
  cases ht with
  | quiet _ _ _ _ _ hu hs _ _ _ =>
    intro h1
    rw [hu]; exact h (by rw [← hs]; exact h1)
  | start ob _ _ _ hob _ _ _ _ _ _ hu _ _ =>
    intro _
    rw [hu]
    have h1 := ha.dem ob (obs_mem_of_obs? hob).1
    have h2 : 0 ≤ acc.1.telUse := by rw [ha.use]; exact useL_nonneg _ _
    omega
  | finish ob a _ _ _ _ _ _ _ _ _ _ _ _ hu hs _ =>
    intro h1
    have h2 : 0 ≤ acc'.1.telUse := by rw [ha'.use]; exact useL_nonneg _ _
    rw [hs] at h1
    by_cases e : acc.1.telUse - (ob.demand : Int) = 0
    · rw [if_pos e] at h1; cases h1
    · rw [hu] at h2 ⊢
      omega

theorem l8_ts_telRun {n : Nat} {l : List Oid} {acc acc' : Sys × Option Err} {L : List Event}
    (hrun : TelRun n l acc acc' L) (ha : TelAcct acc.1) (hnd : acc'.1.admitted.Nodup) (h : l8TS acc.1) :
    l8TS acc'.1 := by
  induction hrun with
  | nil acc => exact h
  | cons oid l acc acc1 acc2 t L ht hr ih =>
    have hpre := telRun_admitted_prefix hr
    have hnd1 : acc1.1.admitted.Nodup := by
      obtain ⟨t', ht'⟩ := hpre
      rw [← ht'] at hnd
      exact (List.nodup_append.mp hnd).1
    have ha1 := ha.telStep ht hnd1
    exact ih ha1 hnd (l8_ts_telStep ha ha1 ht h)

theorem l8_ts_step {s0 s : Sys} (hw : WFConfig s0) (hr : Reach s0 s) (h : l8TS s) {pid : Nat}
    (hen : s.enabled pid) (orc : Oracle) : l8TS (s.resume pid orc).1 := by
  have hacc := reach_telAcct hw hr
  have hndA := reach_admitted_nodup s0 _ hw (Reach.step s pid orc hr hen)
  obtain ⟨p, hp, ha, hmin⟩ := hen
  have hrts := resume_telSame s pid orc p hp ha
  by_cases hk : p.k = .telescope
  · have hb : l8TS (s.block p orc).1 := by
      rcases blockEvents_telescope (s := s) orc hk with ⟨_, hb, _⟩ | ⟨s0', e0, g1, g2, g3, _, g5, g6, _, hrun, _⟩
      · rw [hb]; exact h
      · have h0 : TelAcct s0' :=
          ⟨by rw [g2]; exact hacc.nodup, by rw [g5, g1, g2]; exact hacc.use, by rw [g2, g1, g6]; exact hacc.stat,
           by rw [g2]; exact hacc.dem, by rw [g2, g1]; exact hacc.astAdm, by rw [g3, g1]; exact hacc.aiAdm⟩
        have h1 : l8TS s0' := by
          intro hs; rw [g5]; exact h (by rw [← g6]; exact hs)
        exact l8_ts_telRun hrun h0 (by rw [← hrts.admitted]; exact hndA) h1
    intro hs
    rw [hrts.telUse]; exact hb (by rw [← hrts.telStatus]; exact hs)
  · have hts : TelSame s (s.resume pid orc).1 := (block_telSame s p orc hk).trans hrts
    intro hs
    rw [hts.telUse]; exact h (by rw [← hts.telStatus]; exact hs)

theorem l8_useL_zero (adm : List Oid) (l : List Obs) (h : ∀ r ∈ l, useC adm r = 0) : useL adm l = 0 := by
  induction l with
  | nil => rfl
  | cons r rest ih =>
    simp only [useL]
    rw [h r (by simp), ih (fun r' hr' => h r' (List.mem_cons_of_mem _ hr'))]
    rfl

end Sys

section
variable {env : SimEnv} {s0 : Sys}

theorem live_telStatus (C : LiveCfg env s0) (K : LiveKernel env s0) (n : Nat) :
    (simAt env s0 n).st.telStatus = true → 0 < (simAt env s0 n).st.telUse := by
  induction n with
  | zero =>
    intro h
    have hst : (simAt env s0 0).st = s0.start := rfl
    rw [hst] at h
    have : s0.start.telStatus = s0.telStatus := by simp [start, spawn]
    rw [this, C.hw.fresh.2.2.2.2.2.2.2.2.2.1] at h
    cases h
  | succ n ih =>
    obtain ⟨e, p, _, _, _, _, hen, _, hst⟩ := l8_step C K n
    rw [hst]
    exact Sys.l8_ts_step C.hw (l8_reach C K n) ih hen _

/-- **J6.**  With no live worker process and every admitted observation FINISHED, the cluster,
the ingest counter and the telescope are free. -/
theorem live_free (C : LiveCfg env s0) (K : LiveKernel env s0) (n : Nat)
    (hq : ∀ q ∈ (simAt env s0 n).st.procs, q.alive = true →
      q.k.tag ≠ "allocIngest" ∧ q.k.tag ≠ "provIngest" ∧ q.k.tag ≠ "ingestStream" ∧
      q.k.tag ≠ "allocTask" ∧ q.k.tag ≠ "doWork")
    (hfin : ∀ ob ∈ (simAt env s0 n).st.obs, ob.ast ≠ none → ob.status = .finished) :
    (simAt env s0 n).st.cl.occupied = [] ∧ (simAt env s0 n).st.cl.ingest = [] ∧
    (simAt env s0 n).st.cl.running = [] ∧
    (simAt env s0 n).st.cl.available.length = s0.machines.length ∧
    (simAt env s0 n).st.provIngest = 0 ∧ (simAt env s0 n).st.telUse = 0 ∧
    (simAt env s0 n).st.telStatus = false := by
  obtain ⟨h1, h2, h3, h4⟩ := live_cluster_free C K n (fun q hq' ha => (hq q hq' ha).2.2.2.1)
  have h5 := live_provIngest_zero C K n (fun q hq' ha => (hq q hq' ha).1)
  have hacc := reach_telAcct C.hw (l8_reach C K n)
  have heg := (l8_sinv C K n).eg
  have hA := sim_otAst env s0 C.hw _ (K.reach n)
  have h6 : (simAt env s0 n).st.telUse = 0 := by
    rw [hacc.use]
    apply Sys.l8_useL_zero
    intro r hr
    unfold useC
    rw [if_neg]
    rintro ⟨hadm, hnf⟩
    have hob := obs?_of_mem heg.obsNodup hr
    by_cases hw : r.status = .waiting
    · obtain ⟨ob, hob', hsup⟩ := heg.adm r.id hadm
      rw [hob] at hob'; cases hob'
      obtain ⟨q, hq', hqa, _, ⟨tl, hqk⟩, _⟩ := hsup hw
      exact (hq q hq' hqa).1 (by rw [hqk]; rfl)
    · apply hnf
      apply hfin r hr
      intro hast
      exact hw (hA.wait r.id r hob hast)
  refine ⟨h1, h2, h3, h4, h5, h6, ?_⟩
  cases hts : (simAt env s0 n).st.telStatus with
  | false => rfl
  | true =>
    have := live_telStatus C K n hts
    omega

end

end Topsim
