/-
  Live17d — the process-local dictionary `pairs` of an `allocate_tasks` process: what one block does
  to it (`nc_allocTasksBlock_sum`: it only grows, and every allocation process the block creates is
  for a task entered in it), and (in Live17e) the invariant `NcP` along the runs of QueueProcessing: every
  scheduler-side allocation process (alive or ended) of an observation carries a task that is a key
  of the `pairs` of the observation's running `allocate_tasks` process; every task body has an
  allocation process; the machines of a leftover schedule are machines of the cluster.
-/
import TopsimProofs.Live17c
import TopsimProofs.Live9
import TopsimProofs.Preced17
import TopsimProofs.FinishWf3

namespace Topsim
namespace Sys

open Cluster

/-! ### dictionaries -/

theorem nc_dictHas_dictSet {κ α} [DecidableEq κ] (d : List (κ × α)) (k k' : κ) (v : α)
    (h : dictHas d k' = true) : dictHas (dictSet d k v) k' = true := by
  unfold dictHas at h ⊢
  rw [dictGet_dictSet]
  split
  · rfl
  · exact h

theorem nc_dictHas_dictSet_self {κ α} [DecidableEq κ] (d : List (κ × α)) (k : κ) (v : α) :
    dictHas (dictSet d k v) k = true := by
  unfold dictHas
  rw [dictGet_dictSet_self]; rfl

theorem nc_mem_dictErase {κ α} [DecidableEq κ] {d : List (κ × α)} {k : κ} {x : κ × α}
    (h : x ∈ dictErase d k) : x ∈ d := by
  induction d with
  | nil => simp [dictErase] at h
  | cons p r ih =>
    obtain ⟨k', v'⟩ := p
    by_cases e : k' = k
    · simp only [dictErase, e, if_true] at h
      exact List.mem_cons_of_mem _ h
    · simp only [dictErase, e, if_false, List.mem_cons] at h
      rcases h with h | h
      · rw [h]; exact List.mem_cons_self
      · exact List.mem_cons_of_mem _ (ih h)

/-! ### `_process_current_schedule` and `pairs` -/

/-- one iteration of the loop: `pairs` only grows, the schedule only shrinks, and a process that is
created is an allocation process of the task, which is then a key of `pairs` -/
theorem nc_processOne_pairs (now : Time) (oid : Oid) (st : PcsSt) (x : Tid) :
    (∀ t, dictHas st.pairs t = true → dictHas (processOne now oid st x).pairs t = true) ∧
    (∀ y ∈ (processOne now oid st x).schedule, y ∈ st.schedule) ∧
    (∀ q ∈ (processOne now oid st x).s.procs, q ∈ st.s.procs ∨
      ∃ m cross, q.k = .allocTask x m cross (some oid) false 0 ∧
        dictHas (processOne now oid st x).pairs x = true) := by
  unfold processOne
  cases hok : st.err with
  | some e => exact ⟨fun _ h => h, fun _ h => h, fun q hq => Or.inl hq⟩
  | none =>
    simp only
    cases hm : dictGet st.schedule x with
    | none => exact ⟨fun _ h => h, fun _ h => h, fun q hq => Or.inl hq⟩
    | some m =>
      cases hr : st.s.task? x with
      | none => exact ⟨fun _ h => h, fun _ h => h, fun q hq => Or.inl hq⟩
      | some r =>
        simp only []
        cases hmm : st.s.machine? m with
        | none => exact ⟨fun _ h => h, fun _ h => h, fun q hq => Or.inl hq⟩
        | some mm =>
          simp only []
          by_cases hz : ((r.allocObj || r.planned != some m) = true ∧ (mm.cpu = 0 ∨ mm.bw = 0))
          · rw [if_pos hz]; exact ⟨fun _ h => h, fun _ h => h, fun q hq => Or.inl hq⟩
          · simp only [hz, if_false]
            generalize hs1 : (if (r.allocObj || r.planned != some m) = true then
              st.s.updTask x (fun r => updateAllocation r mm) else st.s) = s1
            have hp1 : s1.procs = st.s.procs := by
              subst hs1; split <;> rfl
            have hmono : ∀ t, dictHas st.pairs t = true → dictHas (dictSet st.pairs x m) t = true :=
              fun t ht => nc_dictHas_dictSet st.pairs x t m ht
            by_cases hocc : (st.curr.contains m = true ∨ s1.cl.isOccupied m = true)
            · rw [if_pos hocc]
              exact ⟨fun _ h => h, fun _ h => h, fun q hq => Or.inl (by rw [← hp1]; exact hq)⟩
            · rw [if_neg hocc]
              by_cases hmiss : (r.preds.any fun p => !dictHas (dictSet st.pairs x m) p) = true
              · rw [if_pos hmiss]
                exact ⟨hmono, fun _ h => h, fun q hq => Or.inl (by rw [← hp1]; exact hq)⟩
              · rw [if_neg hmiss]
                by_cases hst : r.status ≠ TStatus.unscheduled
                · rw [if_pos hst]
                  exact ⟨hmono, fun _ h => h, fun q hq => Or.inl (by rw [← hp1]; exact hq)⟩
                · rw [if_neg hst]
                  refine ⟨hmono, fun y hy => nc_mem_dictErase hy, ?_⟩
                  intro q hq
                  have hq' : q ∈ s1.procs ++
                      [({ pid := s1.nextPid, wake := now,
                          k := .allocTask x m (crossPreds (dictSet st.pairs x m) r.preds m) (some oid) false 0 } :
                        Proc)] := hq
                  rcases List.mem_append.mp hq' with h1 | h1
                  · exact Or.inl (by rw [← hp1]; exact h1)
                  · simp only [List.mem_singleton] at h1
                    subst h1
                    exact Or.inr ⟨m, _, rfl, nc_dictHas_dictSet_self st.pairs x m⟩

/-- the whole loop -/
theorem nc_pcs_pairs (a : Sys) (now : Time) (oid : Oid) (sched0 pairs0 : List (Tid × Mid)) :
    (∀ t, dictHas pairs0 t = true → dictHas (processCurrentSchedule a now oid sched0 pairs0).pairs t = true) ∧
    (∀ y ∈ (processCurrentSchedule a now oid sched0 pairs0).schedule, y ∈ sched0) ∧
    (∀ q ∈ (processCurrentSchedule a now oid sched0 pairs0).s.procs, q ∈ a.procs ∨
      ∃ t m cross, q.k = .allocTask t m cross (some oid) false 0 ∧
        dictHas (processCurrentSchedule a now oid sched0 pairs0).pairs t = true) := by
  unfold processCurrentSchedule
  simp only
  generalize ((dictKeys sched0).mergeSort _) = l
  have key : ∀ (l : List Tid) (st : PcsSt),
      ((∀ t, dictHas pairs0 t = true → dictHas st.pairs t = true) ∧
       (∀ y ∈ st.schedule, y ∈ sched0) ∧
       (∀ q ∈ st.s.procs, q ∈ a.procs ∨ ∃ t m cross, q.k = .allocTask t m cross (some oid) false 0 ∧
          dictHas st.pairs t = true)) →
      ((∀ t, dictHas pairs0 t = true → dictHas (l.foldl (processOne now oid) st).pairs t = true) ∧
       (∀ y ∈ (l.foldl (processOne now oid) st).schedule, y ∈ sched0) ∧
       (∀ q ∈ (l.foldl (processOne now oid) st).s.procs, q ∈ a.procs ∨
          ∃ t m cross, q.k = .allocTask t m cross (some oid) false 0 ∧
            dictHas (l.foldl (processOne now oid) st).pairs t = true)) := by
    intro l
    induction l with
    | nil => intro st h; exact h
    | cons x r ih =>
      intro st h
      obtain ⟨h1, h2, h3⟩ := h
      obtain ⟨g1, g2, g3⟩ := nc_processOne_pairs now oid st x
      apply ih
      refine ⟨fun t ht => g1 t (h1 t ht), fun y hy => h2 y (g2 y hy), ?_⟩
      intro q hq
      rcases g3 q hq with h4 | ⟨m, cross, hk, hd⟩
      · rcases h3 q h4 with h5 | ⟨t, m, cross, hk, hd⟩
        · exact Or.inl h5
        · exact Or.inr ⟨t, m, cross, hk, g1 t hd⟩
      · exact Or.inr ⟨x, m, cross, hk, hd⟩
  exact key l _ ⟨fun _ h => h, fun _ h => h, fun q hq => Or.inl hq⟩

/-! ### one block of `allocate_tasks` -/

theorem nc_avail_machine {c : Cluster} {U : List Tid} (h : Cluster.Inv c U) {m : Mid} (hm : m ∈ c.available) :
    m ∈ c.machines := by
  have h1 := h.part m
  have h2 := count_pos_of_mem hm
  exact List.count_pos_iff.mp (by omega)

/-- one block of an `allocate_tasks` process (QueueProcessing): the new local variables and the new
processes -/
theorem nc_allocTasksBlock_sum (s : Sys) (now : Time) (orc : Oracle) (pc : Nat) (oid : Oid)
    (sc pa : List (Tid × Mid)) (po : List Tid) (fn : Bool) (halg : s.alg = .queue) :
    ∃ sc' pa' po' fn', (s.allocTasksBlock now orc pc oid sc pa po fn).2.1 = .allocTasks oid sc' pa' po' fn' ∧
      (∀ t, dictHas pa t = true → dictHas pa' t = true) ∧
      (∀ x ∈ sc', x ∈ sc ∨ x.2 ∈ s.cl.available) ∧
      (∀ q ∈ (s.allocTasksBlock now orc pc oid sc pa po fn).1.procs, q ∈ s.procs ∨
        ∃ t m cross, q.k = .allocTask t m cross (some oid) false 0 ∧ dictHas pa' t = true) := by
  cases fn with
  | true =>
    rw [allocTasksBlock_fin]
    exact ⟨sc, pa, po, true, rfl, fun _ h => h, fun x hx => Or.inl hx, fun q hq => Or.inl hq⟩
  | false =>
    rw [allocTasksBlock_eq]
    have hp0 : (atStart s now pc oid).procs = s.procs := atStart_procs _ _ _ _
    have hp1 : ((atStart s now pc oid).updateCurrentPlan oid).procs = s.procs :=
      (updateCurrentPlan_procs _ oid).trans hp0
    have hcl1 : ((atStart s now pc oid).updateCurrentPlan oid).cl = s.cl :=
      (updateCurrentPlan_core _ oid).cl.trans (atStart_cl _ _ _ _)
    have halg1 : ((atStart s now pc oid).updateCurrentPlan oid).alg = .queue := by
      rw [updateCurrentPlan_alg, atStart_alg]; exact halg
    have hsched : ∀ plan out, ((atStart s now pc oid).updateCurrentPlan oid).runAlgorithm orc plan sc po = .ok out →
        ∀ x ∈ out.schedule, x ∈ sc ∨ x.2 ∈ s.cl.available := by
      intro plan out hrun
      unfold runAlgorithm at hrun
      rw [halg1] at hrun
      have := (nc_queueRun_facts _ _ _ _ _ _ hrun).2.2.2.2
      rw [hcl1] at this
      exact this
    have hout := allocTasksIter_out (atStart s now pc oid) now orc oid sc pa po
    generalize (atStart s now pc oid).allocTasksIter now orc oid sc pa po = r at hout ⊢
    have hnil : ∀ (sch : List (Tid × Mid)), sch.isEmpty = true → ∀ x ∈ sch, x ∈ sc ∨ x.2 ∈ s.cl.available := by
      intro sch he x hx
      have : sch = [] := by simpa using he
      rw [this] at hx; simp at hx
    cases hout with
    | noPlan _ =>
      exact ⟨sc, pa, po, false, rfl, fun _ h => h, fun x hx => Or.inl hx,
        fun q hq => Or.inl (by rw [← hp1]; exact hq)⟩
    | algErr _ _ _ _ =>
      exact ⟨sc, pa, po, false, rfl, fun _ h => h, fun x hx => Or.inl hx,
        fun q hq => Or.inl (by rw [← hp1]; exact hq)⟩
    | finish plan out _ _ hemp _ _ _ =>
      refine ⟨out.schedule, pa, out.pool, true, rfl, fun _ h => h, hnil _ hemp, fun q hq => Or.inl ?_⟩
      have : q ∈ (atS3 ((atStart s now pc oid).updateCurrentPlan oid) out oid).procs := hq
      rw [atS3_procs, hp1] at this; exact this
    | finishBad plan out _ _ hemp _ _ _ =>
      refine ⟨out.schedule, pa, out.pool, false, rfl, fun _ h => h, hnil _ hemp, fun q hq => Or.inl ?_⟩
      have : q ∈ (atS3 ((atStart s now pc oid).updateCurrentPlan oid) out oid).procs := hq
      rw [atS3_procs, hp1] at this; exact this
    | finishWait plan out _ _ hemp _ _ =>
      refine ⟨out.schedule, pa, out.pool, false, rfl, fun _ h => h, hnil _ hemp, fun q hq => Or.inl ?_⟩
      have : q ∈ (atS3 ((atStart s now pc oid).updateCurrentPlan oid) out oid).procs := hq
      rw [atS3_procs, hp1] at this; exact this
    | idle plan out _ _ hemp _ =>
      refine ⟨out.schedule, pa, out.pool, false, rfl, fun _ h => h, hnil _ hemp, fun q hq => Or.inl ?_⟩
      rw [atS3_procs, hp1] at hq; exact hq
    | alloc plan out y hplan hrun _ _ =>
      obtain ⟨g1, g2, g3⟩ := nc_pcs_pairs (atS3 ((atStart s now pc oid).updateCurrentPlan oid) out oid) now oid
        out.schedule pa
      refine ⟨_, _, out.pool, false, rfl, g1, fun x hx => hsched plan out hrun x (g2 x hx), fun q hq => ?_⟩
      rcases g3 q hq with h2 | h2
      · rw [atS3_procs, hp1] at h2; exact Or.inl h2
      · exact Or.inr h2

end Sys
end Topsim
