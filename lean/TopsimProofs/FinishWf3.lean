/-
  FinishWf3 — `WI` along every run that has not crashed: one step per kind of
  process.
-/
import TopsimProofs.FinishWf2

namespace Topsim
namespace Sys

open Cluster

/-- the invariant: as long as no block has raised -/
def WInv (s : Sys) : Prop := s.crashed = none → WI s

/-! ### generic steps -/

theorem wi_frame {s X : Sys} (h : WI s) (ht : X.tasks = s.tasks) (hp : X.plans = s.plans)
    (hf : X.buf.hot.finished = s.buf.hot.finished) (hc : X.starts = s.starts)
    (new : List Proc) (hprocs : X.procs = s.procs ++ new)
    (hnew : ∀ q ∈ new, ∀ t m preds obs ing ret, q.k = .allocTask t m preds obs ing ret → ¬ IsWf t) : WI X := by
  refine h.procs ht hp hf hc ?_
  intro q hq hqa t m preds obs ing ret hqk hw
  rw [hprocs] at hq
  rcases List.mem_append.mp hq with hq | hq
  · left; exact ⟨q, hq, hqa, m, preds, obs, ing, ret, hqk⟩
  · exact absurd hw (hnew q hq t m preds obs ing ret hqk)

theorem WI.updProc_tag {X : Sys} (h : WI X) (pid : Nat) (k' : PK) (y : Yield) (w : Time)
    (hk : k'.tag ≠ "allocTask") : WI (X.updProc pid (fin k' y w)) :=
  h.updProc pid k' y w (fun _ _ _ t m preds obs ing ret e => absurd (by rw [e]; rfl) hk)

theorem wi_quiet {s : Sys} (hs : SInv s) (h : WI s) {p : Proc} (orc : Oracle)
    (h1 : p.k.tag ≠ "schedLoop") (h2 : p.k.tag ≠ "allocTasks") (h3 : p.k.tag ≠ "provIngest")
    (h4 : p.k.tag ≠ "allocTask") (h5 : p.k.tag ≠ "doWork")
    (hfin : (s.block p orc).1.buf.hot.finished = s.buf.hot.finished)
    (new : List Proc) (hprocs : (s.block p orc).1.procs = s.procs ++ new)
    (hnew : ∀ q ∈ new, q.k.tag ≠ "allocTask") :
    WI ((s.block p orc).1.updProc p.pid (fin (s.block p orc).2.1 (s.block p orc).2.2 p.wake)) := by
  have htag := block_tag s hs.pw p orc
  refine (wi_frame h (block_tasks s p orc h1 h3 h4 h5 h2) (block_plans s p orc h1 h2) hfin
    (block_starts s p orc h1 h5 h2) new hprocs ?_).updProc_tag _ _ _ _ (by rw [htag]; exact h4)
  intro q hq t m preds obs ing ret hqk _
  exact hnew q hq (by rw [hqk]; rfl)

/-! ### the ingest provisioner -/

theorem provIngestBlock_shape2 (s : Sys) (now : Time) (pc : Nat) (oid : Oid) (d : Nat) :
    ∃ recs : List TaskRec, (∀ r ∈ recs, r.id.isIngest = true ∧ r.status = .scheduled) ∧
      (s.provIngestBlock now pc oid d).1.tasks = s.tasks ++ recs ∧
      ∃ new, (s.provIngestBlock now pc oid d).1.procs = s.procs ++ new ∧
        ∀ q ∈ new, ∃ t m, q.k = .allocTask t m [] (some oid) true 0 ∧ t.isIngest = true := by
  unfold provIngestBlock
  split
  · simp only
    generalize hr : s.cl.provisionIngest d oid = r
    obtain ⟨cl1, e1, pairs⟩ := r
    cases e1 with
    | some e => exact ⟨[], by simp, by simp, [], by simp, by simp⟩
    | none =>
      simp only
      have hing : ∀ x ∈ pairs, x.2.isIngest = true := by
        intro x hx
        have : (s.cl.provisionIngest d oid).2.2 = pairs := by rw [hr]
        have hx' : x ∈ (s.cl.provisionIngest d oid).2.2 := by rw [this]; exact hx
        unfold provisionIngest at hx'
        split at hx'
        · simp at hx'
        · simp only at hx'
          obtain ⟨⟨m', i⟩, _, rfl⟩ := List.mem_map.mp hx'
          rfl
      generalize hs1 : ({ s with cl := cl1, tasks := s.tasks ++ List.map (fun x : Mid × Tid => ({ id := x.2, duration := (match s.obs? oid with | some o => o.duration | none => 0), status := TStatus.scheduled } : TaskRec)) pairs } : Sys) = s1
      have e1 : s1.procs = s.procs := by subst hs1; rfl
      have e3 : s1.tasks = s.tasks ++ List.map (fun x : Mid × Tid => ({ id := x.2, duration := (match s.obs? oid with | some o => o.duration | none => 0), status := TStatus.scheduled } : TaskRec)) pairs := by subst hs1; rfl
      obtain ⟨new, g1, g2, _⟩ := foldSpawn_spec2
        (fun x : Mid × Tid => PK.allocTask x.2 x.1 [] (some oid) true 0) now pairs s1
      obtain ⟨_, _, _, gtasks, _⟩ := foldSpawn_spec
        (fun x : Mid × Tid => PK.allocTask x.2 x.1 [] (some oid) true 0) now pairs s1
      refine ⟨_, ?_, by rw [gtasks, e3], new, by rw [g1, e1], ?_⟩
      · intro r hr'
        obtain ⟨x, hx, rfl⟩ := List.mem_map.mp hr'
        exact ⟨hing x hx, rfl⟩
      · intro q hq
        obtain ⟨_, _, x, hx, hqk⟩ := g2 q hq
        exact ⟨x.2, x.1, hqk, hing x hx⟩
  · exact ⟨[], by simp, by simp, [], by simp, by simp⟩

theorem not_isWf_of_ingest {t : Tid} (h : t.isIngest = true) : ¬ IsWf t := by
  rintro ⟨o, c, n, e⟩
  rw [e] at h; simp [Tid.isIngest] at h

theorem wi_provIngest {s : Sys} (hs : SInv s) (h : WI s) {p : Proc} (orc : Oracle) {o d}
    (hk : p.k = .provIngest o d) :
    WI ((s.block p orc).1.updProc p.pid (fin (s.block p orc).2.1 (s.block p orc).2.2 p.wake)) := by
  have hb : s.block p orc = s.provIngestBlock p.wake p.pc o d := by
    unfold block; simp only [hk]
  have htag := block_tag s hs.pw p orc
  obtain ⟨recs, hrecs, htasks, new, hprocs, hnew⟩ := provIngestBlock_shape2 s p.wake p.pc o d
  rw [← hb] at htasks hprocs
  have h1 : p.k.tag ≠ "schedLoop" := by simp [hk, PK.tag]
  have h2 : p.k.tag ≠ "allocTasks" := by simp [hk, PK.tag]
  have h4 : p.k.tag ≠ "allocTask" := by simp [hk, PK.tag]
  have h5 : p.k.tag ≠ "doWork" := by simp [hk, PK.tag]
  have hA : WI { s with tasks := (s.block p orc).1.tasks } :=
    h.tasksAppend rfl rfl rfl rfl recs htasks
      (fun r hr => ⟨not_isWf_of_ingest (hrecs r hr).1, by rw [(hrecs r hr).2]; simp⟩)
  have hX : WI (s.block p orc).1 := by
    refine wi_frame hA rfl (block_plans s p orc h1 h2)
      (congrArg (·.hot.finished) (block_buf s p orc h1 (by simp [hk, PK.tag]) h2 (by simp [hk, PK.tag])
        (by simp [hk, PK.tag]))) (block_starts s p orc h1 h5 h2) new hprocs ?_
    intro q hq t m preds obs ing ret hqk
    obtain ⟨t', m', e, hi⟩ := hnew q hq
    rw [e] at hqk
    simp only [PK.allocTask.injEq] at hqk
    obtain ⟨rfl, _⟩ := hqk
    exact not_isWf_of_ingest hi
  exact hX.updProc_tag _ _ _ _ (by rw [htag]; exact h4)

/-! ### `do_work` -/

theorem wi_doWork {s : Sys} (hs : SInv s) (h : WI s) {p : Proc} (hp : p ∈ s.procs) (ha : p.alive = true)
    (orc : Oracle) {t m preds ph tot} (hk : p.k = .doWork t m preds ph tot) :
    WI ((s.block p orc).1.updProc p.pid (fin (s.block p orc).2.1 (s.block p orc).2.2 p.wake)) := by
  have hb : s.block p orc = s.doWorkBlock p.wake orc t m preds ph tot := by
    unfold block; simp only [hk]
  have htag := block_tag s hs.pw p orc
  have hprocs : (s.block p orc).1.procs = s.procs := by
    rw [hb]; exact doWorkBlock_procs s p.wake orc t m preds ph tot
  have h1 : p.k.tag ≠ "schedLoop" := by simp [hk, PK.tag]
  have h2 : p.k.tag ≠ "allocTasks" := by simp [hk, PK.tag]
  have h4 : p.k.tag ≠ "allocTask" := by simp [hk, PK.tag]
  -- the task has a live allocation process
  have hnf : IsWf t → ∀ r ∈ s.tasks, r.id = t → r.status ≠ .finished := by
    intro hw
    obtain ⟨a, ha1, haa, _, preds', obs, ing, hak⟩ := hs.dg.dwAlloc p hp ha _ _ _ _ _ hk
    exact h.ast a ha1 haa _ _ _ _ _ _ hak hw
  have hstarts : ∀ x ∈ s.starts, x ∈ (s.block p orc).1.starts := by
    rw [hb]
    rcases doWorkBlock_out s p.wake orc t m preds ph tot with
      ⟨_, _, _, _, heq⟩ | ⟨_, _, _, _, _, heq⟩ | ⟨_, _, _, heq⟩ <;> rw [heq]
    · exact fun _ hx => hx
    · intro x hx; exact List.mem_append_left _ hx
    · exact fun _ hx => hx
  have hA : WI { s with tasks := (s.block p orc).1.tasks } := by
    rw [hb]
    rcases doWorkBlock_tasks s p.wake orc t m preds ph tot with e | ⟨f, hf, hst, e⟩
    · exact h.congr e rfl rfl rfl rfl
    · rcases hst with hst | hst
      · exact h.tasksSet rfl rfl rfl rfl t f .running (fun r => ⟨hf r, hst r⟩) (by simp) hnf e
      · refine h.tasksKeep rfl rfl rfl rfl (fun r => if r.id = t then f r else r) ?_ e
        intro r
        split
        · exact ⟨hf r, hst r⟩
        · exact ⟨rfl, rfl⟩
  have hX : WI (s.block p orc).1 :=
    hA.starts (s' := (s.block p orc).1) rfl (block_plans s p orc h1 h2)
      (congrArg (·.hot.finished) (block_buf s p orc h1 (by simp [hk, PK.tag]) h2 (by simp [hk, PK.tag])
        (by simp [hk, PK.tag]))) hprocs hstarts
  exact hX.updProc_tag _ _ _ _ (by rw [htag]; exact h4)

/-! ### the allocation process -/

theorem wi_allocTask {s : Sys} (hs : SInv s) (hfi : FI s) (h : WI s) {p : Proc} (hp : p ∈ s.procs)
    (ha : p.alive = true) (orc : Oracle) {t m preds obs ing ret} (hk : p.k = .allocTask t m preds obs ing ret) :
    WI ((s.block p orc).1.updProc p.pid (fin (s.block p orc).2.1 (s.block p orc).2.2 p.wake)) := by
  have hpw := hs.pw
  obtain ⟨U, hU⟩ := hs.ci
  have hb : s.block p orc = s.allocTaskBlock p.wake t m preds obs ing ret := by
    unfold block; simp only [hk]
  have hnfp : IsWf t → ∀ r ∈ s.tasks, r.id = t → r.status ≠ .finished :=
    h.ast p hp ha _ _ _ _ _ _ hk
  -- the entry of `p` keeps its task
  have hown : ∀ X : Sys, PW X → p ∈ X.procs → ∀ ret' : Nat, ∀ q0 ∈ X.procs, q0.pid = p.pid →
      ∀ t1 m1 preds1 obs1 ing1 ret1, PK.allocTask t m preds obs ing ret' = .allocTask t1 m1 preds1 obs1 ing1 ret1 →
      ∃ m0 preds0 obs0 ing0 ret0, q0.k = .allocTask t1 m0 preds0 obs0 ing0 ret0 := by
    intro X hpwX hpX ret' q0 hq0 e t1 m1 preds1 obs1 ing1 ret1 hk'
    have : q0 = p := hpwX.eq_of_pid hq0 hpX e
    subst this
    simp only [PK.allocTask.injEq] at hk'
    obtain ⟨rfl, _⟩ := hk'
    exact ⟨m, preds, obs, ing, ret, hk⟩
  have hpwX : PW (s.block p orc).1 := by
    rw [hb]; exact (allocTaskBlock_presE s hpw p.wake t m preds obs ing ret).1.pw hpw
  rw [hb] at hpwX ⊢
  rcases allocTaskBlock_cases s hpw p.wake t m preds obs ing ret with
    ⟨_, e, _, heq⟩ | ⟨_, _, heq⟩ | ⟨_, _, heq⟩ | ⟨hr, htr, e, _, heq⟩ | ⟨hr, htr, _, heq⟩
  · -- refused
    rw [heq] at hpwX ⊢
    have hX : WI ({ s with cl := (s.cl.allocBegin t m obs ing).1 } : Sys) := h.congr rfl rfl rfl rfl rfl
    exact hX.updProc p.pid (.allocTask t m preds obs ing ret) (.raised e) p.wake (hown _ hpwX hp ret)
  · -- first block
    rw [heq] at hpwX ⊢
    have hA : WI (({ s with cl := (s.cl.allocBegin t m obs ing).1 } : Sys).updTask t
        (fun r => { r with status := .scheduled })) :=
      h.tasksSet rfl rfl rfl rfl t (fun r : TaskRec => { r with status := .scheduled }) .scheduled
        (fun _ => ⟨rfl, rfl⟩) (by simp) hnfp rfl
    have hX : WI ((({ s with cl := (s.cl.allocBegin t m obs ing).1 } : Sys).updTask t
        (fun r => { r with status := .scheduled })).spawn (.doWork t m preds 0 0) p.wake).1 := by
      refine wi_frame hA rfl rfl rfl rfl [{ pid := s.nextPid, k := .doWork t m preds 0 0, wake := p.wake }] rfl ?_
      intro q hq t1 m1 preds1 obs1 ing1 ret1 hqk
      simp only [List.mem_singleton] at hq
      subst hq
      simp at hqk
    exact hX.updProc p.pid (.allocTask t m preds obs ing s.nextPid) (.timeout 1) p.wake
      (hown _ hpwX (by show p ∈ s.procs ++ _; exact List.mem_append_left _ hp) s.nextPid)
  · -- polling
    rw [heq] at hpwX ⊢
    exact h.updProc p.pid (.allocTask t m preds obs ing ret) (.timeout 1) p.wake (hown _ hpw hp ret)
  · -- completion refused
    rw [heq] at hpwX ⊢
    have hX : WI ({ s with cl := (s.cl.allocEnd t m obs ing).1 } : Sys) := h.congr rfl rfl rfl rfl rfl
    exact hX.updProc p.pid (.allocTask t m preds obs ing ret) (.raised e) p.wake (hown _ hpwX hp ret)
  · -- completion
    rw [heq]
    have hpc := hU.pc_pos hp ha hk hr
    -- the body of the task has ended, hence has been started
    have hts : t ∈ s.starts := by
      obtain ⟨d, hd, hdp, m', preds', ph, tot, hdk⟩ := (hfi.ok p hp).atRet _ _ _ _ _ _ hk hpc
      have hdead : d.alive = false := by
        unfold procTriggered at htr
        rw [← hdp, hpw.proc?_of_mem hd] at htr
        simpa using htr
      exact (hfi.ok d hd).dwStarted _ _ _ _ _ hdk (Or.inl hdead)
    have hA : WI (s.updProc p.pid (fin (.allocTask t m preds obs ing ret) .done p.wake)) :=
      h.updProc p.pid (.allocTask t m preds obs ing ret) .done p.wake (hown _ hpw hp ret)
    refine hA.tasksFinish (s' := (({ s with cl := (s.cl.allocEnd t m obs ing).1 } : Sys).updTask t
        (fun r => { r with status := .finished })).updProc p.pid
          (fin (.allocTask t m preds obs ing ret) .done p.wake)) rfl rfl rfl rfl t
      (fun r : TaskRec => { r with status := .finished }) (fun _ => ⟨rfl, rfl⟩) hts ?_ rfl
    intro q hq hqa m1 preds1 obs1 ing1 ret1 hqk
    rcases (mem_updProc_iff hpw hp _ q).mp hq with rfl | ⟨hq0, hne⟩
    · obtain ⟨_, d, hd⟩ := fin_alive _ _ _ _ hqa
      cases hd
    · exact hne (hU.uniq q hq0 p hp hqa ha _ _ _ _ _ _ _ _ _ _ _ hqk hk)

/-! ### the scheduler loop -/

theorem planOf_tasks (o : Obs) (c : Nat) (stat : Bool) (rows : List (Nat × Mid × Nat × Nat))
    (recs : List TaskRec) (plan : Plan)
    (h : (recs, plan) = (if stat = true then staticPlanOf o c rows else batchPlan o c)) :
    plan.tasks = recs.map (·.id) := by
  split at h <;> (injection h with h1 h2; subst h1 h2; rfl)

theorem wi_schedLoop {s : Sys} (_hs : SInv s) (h : WI s) (hb : BufI s) {p : Proc} (orc : Oracle) :
    WI ((s.schedLoopBlock p.wake orc).1.updProc p.pid (fin .schedLoop (s.schedLoopBlock p.wake orc).2 p.wake)) := by
  have hstarts := (schedLoopBlock_pres s p.wake orc).shape.starts
  apply WI.updProc_tag (hk := by simp [PK.tag])
  rcases schedLoopBlock_buf s p.wake orc with ⟨hbuf, hpl, htasks, _, hprocs⟩ |
    ⟨oid, o, recs, plan, hnx, hob, hrp, hbuf, hpl, htasks, hq⟩
  · exact wi_frame h htasks hpl (by rw [hbuf]) hstarts [] (by simpa using hprocs) (by simp)
  · have hoid : o.id = oid := (obs_mem_of_obs? hob).2
    obtain ⟨g1, g2, g3, g4⟩ := planOf_facts o (natNow p.wake) s.staticPlan orc.plan recs plan hrp
    have g5 := planOf_tasks o (natNow p.wake) s.staticPlan orc.plan recs plan hrp
    rw [hoid] at g1 g3 g4
    -- no plan exists yet for this observation: it is still in `hot.stored`
    obtain ⟨_, hst, _, hfinb⟩ := bufList_next s.buf oid hnx
    have hnoplan : ∀ pl ∈ s.plans, pl.obs ≠ oid := by
      intro pl hpl' e
      have h1 := hb.planLoc pl hpl'
      rw [e] at h1
      have h2 := hb.cnt oid
      have c1 := count_pos_of_mem hst
      have c2 := count_pos_of_mem h1
      unfold locCount bufList at h2
      simp only [List.count_append] at h2 c2
      omega
    have hfilter : s.plans.filter (fun pl => decide (pl.obs ≠ oid)) = s.plans := by
      rw [List.filter_eq_self]
      intro pl hpl'; simpa using hnoplan pl hpl'
    rw [hfilter] at hpl
    have hplanNone : s.plan? oid = none := by
      unfold plan?
      rw [List.find?_eq_none]
      intro pl hpl'; simpa using hnoplan pl hpl'
    have hA : WI { s with tasks := (s.schedLoopBlock p.wake orc).1.tasks,
                          plans := (s.schedLoopBlock p.wake orc).1.plans } :=
      h.planned rfl rfl rfl oid (natNow p.wake) recs plan htasks hpl hplanNone g1 (by rw [g2]; simp)
        g4 (fun r hr => by rw [g5]; exact List.mem_map_of_mem hr) g3
    have hfinX : (s.schedLoopBlock p.wake orc).1.buf.hot.finished = s.buf.hot.finished := by
      rw [hbuf]; exact hfinb
    rcases hq with ⟨_, _, hprocs⟩ | ⟨_, _, hprocs⟩
    · exact wi_frame hA rfl rfl hfinX hstarts [] (by simpa using hprocs) (by simp)
    · refine wi_frame hA rfl rfl hfinX hstarts _ hprocs ?_
      intro q hq t1 m1 preds1 obs1 ing1 ret1 hqk
      simp only [List.mem_singleton] at hq
      subst hq
      simp at hqk

/-! ### one step -/

theorem wi_step {s : Sys} (hs : SInv s) (hf : FInv s) (hbuf : BufI s) (h : WInv s) {pid : Nat}
    (hen : s.enabled pid) (orc : Oracle) : WInv (s.resume pid orc).1 := by
  intro hc
  obtain ⟨p, hp, ha, hmin⟩ := hen
  obtain ⟨hc0, _⟩ := resume_nocrash s pid orc p hp ha hc
  have hw := h hc0
  have hfi := hf hc0
  obtain ⟨hpm, hpid⟩ := proc?_some hp
  subst hpid
  have hcore := resume_core s p.pid orc p hp ha
  have hpw := hs.pw
  refine WI.congr (s := (s.block p orc).1.updProc p.pid (fin (s.block p orc).2.1 (s.block p orc).2.2 p.wake)) ?_
    hcore.tasks (resume_plans s p.pid orc p hp ha) (by rw [resume_buf s p.pid orc p hp ha]; rfl) hcore.procs
    hcore.starts
  cases hk : p.k with
  | monitor =>
    have hb : s.block p orc = ((s.monitorBlock p.wake).1, p.k, (s.monitorBlock p.wake).2) := by
      unfold block; simp only [hk]
    exact wi_quiet hs hw orc (by simp [hk, PK.tag]) (by simp [hk, PK.tag]) (by simp [hk, PK.tag])
      (by simp [hk, PK.tag]) (by simp [hk, PK.tag])
      (congrArg (·.hot.finished) (block_buf s p orc (by simp [hk, PK.tag]) (by simp [hk, PK.tag])
        (by simp [hk, PK.tag]) (by simp [hk, PK.tag]) (by simp [hk, PK.tag])))
      [] (by rw [hb]; simpa using monitorBlock_procsq s p.wake) (by simp)
  | telescope =>
    have hb : s.block p orc = ((s.telescopeBlock p.wake).1, .telescope, (s.telescopeBlock p.wake).2) := by
      unfold block; simp only [hk]
    obtain ⟨new, hprocs, hnewk⟩ := telescopeBlock_procs s p.wake
    exact wi_quiet hs hw orc (by simp [hk, PK.tag]) (by simp [hk, PK.tag]) (by simp [hk, PK.tag])
      (by simp [hk, PK.tag]) (by simp [hk, PK.tag])
      (congrArg (·.hot.finished) (block_buf s p orc (by simp [hk, PK.tag]) (by simp [hk, PK.tag])
        (by simp [hk, PK.tag]) (by simp [hk, PK.tag]) (by simp [hk, PK.tag])))
      new (by rw [hb]; exact hprocs) (fun q hq => by rw [hnewk q hq]; decide)
  | clusterLoop =>
    have hb : s.block p orc = ({ s with cl := s.cl.loopTick }, p.k, .timeout 1) := by
      unfold block; simp only [hk]
    exact wi_quiet hs hw orc (by simp [hk, PK.tag]) (by simp [hk, PK.tag]) (by simp [hk, PK.tag])
      (by simp [hk, PK.tag]) (by simp [hk, PK.tag])
      (congrArg (·.hot.finished) (block_buf s p orc (by simp [hk, PK.tag]) (by simp [hk, PK.tag])
        (by simp [hk, PK.tag]) (by simp [hk, PK.tag]) (by simp [hk, PK.tag])))
      [] (by rw [hb]; simp) (by simp)
  | schedLoop =>
    have hb : s.block p orc = ((s.schedLoopBlock p.wake orc).1, p.k, (s.schedLoopBlock p.wake orc).2) := by
      unfold block; simp only [hk]
    rw [hb]
    simp only
    rw [hk]
    exact wi_schedLoop hs hw hbuf orc
  | bufferLoop =>
    have hb : s.block p orc = ((s.bufferLoopBlock p.wake).1, p.k, (s.bufferLoopBlock p.wake).2) := by
      unfold block; simp only [hk]
    obtain ⟨new, hprocs, hnewk⟩ := bufferLoopBlock_newprocs s p.wake
    exact wi_quiet hs hw orc (by simp [hk, PK.tag]) (by simp [hk, PK.tag]) (by simp [hk, PK.tag])
      (by simp [hk, PK.tag]) (by simp [hk, PK.tag])
      (congrArg (·.hot.finished) (block_buf s p orc (by simp [hk, PK.tag]) (by simp [hk, PK.tag])
        (by simp [hk, PK.tag]) (by simp [hk, PK.tag]) (by simp [hk, PK.tag])))
      new (by rw [hb]; exact hprocs)
      (fun q hq => by rcases hnewk q hq with e | e <;> rw [e] <;> decide)
  | allocIngest o tl =>
    have hb : s.block p orc = s.allocIngestBlock p.wake p.pc o tl := by
      unfold block; simp only [hk]
    have hfin := congrArg (·.hot.finished) (block_buf s p orc (by simp [hk, PK.tag]) (by simp [hk, PK.tag])
        (by simp [hk, PK.tag]) (by simp [hk, PK.tag]) (by simp [hk, PK.tag]))
    rcases allocIngestBlock_procs s p.wake p.pc o tl with hsame | ⟨ob, d, _, _, hprocs, _⟩
    · exact wi_quiet hs hw orc (by simp [hk, PK.tag]) (by simp [hk, PK.tag]) (by simp [hk, PK.tag])
        (by simp [hk, PK.tag]) (by simp [hk, PK.tag]) hfin [] (by rw [hb]; simpa using hsame) (by simp)
    · exact wi_quiet hs hw orc (by simp [hk, PK.tag]) (by simp [hk, PK.tag]) (by simp [hk, PK.tag])
        (by simp [hk, PK.tag]) (by simp [hk, PK.tag]) hfin _ (by rw [hb]; exact hprocs) (by simp [PK.tag])
  | provIngest o d => exact wi_provIngest hs hw orc hk
  | ingestStream o tl =>
    have hb : s.block p orc = s.ingestStreamBlock p.wake p.pc o tl := by
      unfold block; simp only [hk]
    exact wi_quiet hs hw orc (by simp [hk, PK.tag]) (by simp [hk, PK.tag]) (by simp [hk, PK.tag])
      (by simp [hk, PK.tag]) (by simp [hk, PK.tag])
      (by rw [hb]; exact (ingestStreamBlock_buf s p.wake p.pc o tl).2.1)
      [] (by rw [hb]; simpa using ingestStreamBlock_procsq s p.wake p.pc o tl) (by simp)
  | allocTask t m preds obs ing ret => exact wi_allocTask hs hfi hw hpm ha orc hk
  | doWork t m preds ph tot => exact wi_doWork hs hw hpm ha orc hk
  | allocTasks o sc pa po fn =>
    have hb : s.block p orc = s.allocTasksBlock p.wake orc p.pc o sc pa po fn := by
      unfold block; simp only [hk]
    have hX : WI (s.block p orc).1 := by
      rw [hb]; exact wi_allocTasksBlock hw _ _ _ _ _ _ _ _
    exact hX.updProc_tag _ _ _ _ (by rw [block_tag s hpw p orc, hk]; simp [PK.tag])
  | hot2cold cur =>
    have hb : s.block p orc = s.hot2coldBlock p.wake cur := by
      unfold block; simp only [hk]
    exact wi_quiet hs hw orc (by simp [hk, PK.tag]) (by simp [hk, PK.tag]) (by simp [hk, PK.tag])
      (by simp [hk, PK.tag]) (by simp [hk, PK.tag])
      (by rw [hb]; exact (hot2coldBlock_schedfin s p.wake cur).2)
      [] (by rw [hb]; simpa using hot2coldBlock_procsq s p.wake cur) (by simp)
  | cold2hot cur =>
    have hb : s.block p orc = s.cold2hotBlock p.wake cur := by
      unfold block; simp only [hk]
    exact wi_quiet hs hw orc (by simp [hk, PK.tag]) (by simp [hk, PK.tag]) (by simp [hk, PK.tag])
      (by simp [hk, PK.tag]) (by simp [hk, PK.tag])
      (by rw [hb]; exact (cold2hotBlock_schedfin s p.wake cur).2)
      [] (by rw [hb]; simpa using cold2hotBlock_procsq s p.wake cur) (by simp)

theorem start_wi (s0 : Sys) (hw : WFConfig s0) (hbuf : bufList s0.buf = []) : WI s0.start := by
  obtain ⟨hprocs, _, htasks, hplans, _, _⟩ := hw.fresh
  have hp : s0.start.procs = s0.procs ++
      [{ pid := s0.nextPid, k := .monitor, wake := 0 }, { pid := s0.nextPid + 1, k := .telescope, wake := 0 },
       { pid := s0.nextPid + 2, k := .clusterLoop, wake := 0 }, { pid := s0.nextPid + 3, k := .schedLoop, wake := 0 },
       { pid := s0.nextPid + 4, k := .bufferLoop, wake := 0 }] := by
    simp [start, spawn]
  have ht : s0.start.tasks = [] := by rw [← htasks]; simp [start, spawn]
  have hpl : s0.start.plans = [] := by rw [← hplans]; simp [start, spawn]
  have hb : s0.start.buf = s0.buf := by simp [start, spawn]
  rw [hprocs] at hp
  simp only [List.nil_append] at hp
  have hfin : s0.buf.hot.finished = [] := by
    unfold bufList at hbuf
    simp only [List.append_eq_nil_iff] at hbuf
    exact hbuf.1.2
  constructor
  · rw [ht]; intro r hr; simp at hr
  · rw [ht]; intro r hr; simp at hr
  · rw [ht]; intro r hr; simp at hr
  · rw [hpl]; intro pl hpl'; simp at hpl'
  · rw [hpl]; intro pl hpl'; simp at hpl'
  · rw [hpl]; simp
  · rw [hb, hfin]; intro o ho; simp at ho
  · rw [ht]; intro r hr; simp at hr
  · intro q hq _ t m preds obs ing ret hqk
    rw [hp] at hq
    simp only [List.mem_cons, List.not_mem_nil, or_false] at hq
    rcases hq with rfl | rfl | rfl | rfl | rfl <;> simp at hqk

theorem reachOk_wi (s0 s : Sys) (hw : WFConfig s0) (hbuf : bufList s0.buf = []) (h : ReachOk s0 s) : WInv s := by
  induction h with
  | start => exact fun _ => start_wi s0 hw hbuf
  | step s pid orc hr hen hpre ih =>
    exact wi_step (reach_inv s0 s hw hr) (reach_finv s0 s hw hr) (reachOk_bufi s0 s hw hbuf hr) ih hen orc

/-- (5), conditional form: in a run that has not crashed, an observation whose data has been
removed from the hot buffer has an emptied plan, and all its workflow task records are FINISHED
and were started -/
theorem removed_tasks_ran (s0 s : Sys) (hw : WFConfig s0) (hbuf : bufList s0.buf = []) (h : ReachOk s0 s)
    (hc : s.crashed = none) (o : Oid) (ho : o ∈ s.buf.hot.finished) :
    ∃ p, s.plan? o = some p ∧ p.tasks = [] ∧
      ∀ r ∈ s.tasks, (∃ c n, r.id = .wf o c n) → r.status = .finished ∧ r.id ∈ s.starts := by
  have hwi := reachOk_wi s0 s hw hbuf h hc
  obtain ⟨h1, h2⟩ := hwi.fz o ho
  cases hp : s.plan? o with
  | none => rw [hp] at h1; simp at h1
  | some pl =>
    refine ⟨pl, rfl, ?_, ?_⟩
    · unfold planTasks at h2; rw [hp] at h2; exact h2
    · rintro r hr ⟨c, n, e⟩
      have hfin : r.status = .finished := by
        by_cases hf : r.status = .finished
        · exact hf
        · have := hwi.pc r hr o c n e hf
          rw [h2] at this; simp at this
      exact ⟨hfin, hwi.fs r hr hfin⟩

end Sys
end Topsim
