/-
  Live1 — hypothesis H1 of the liveness development: when the volumes rate × duration of ALL
  observations together stay within 3/5 of the hot buffer's capacity, the hot buffer is never over
  its tiering threshold along a run of the simulator that has not raised.  Hence the buffer loop
  never indexes an empty list (K1a), never starts a tier move (K1b), and "has observations ready
  for processing" is simply "something is stored".
-/
import TopsimProps.C07Traj
import TopsimProofs.OnTime1

namespace Topsim

open KState Sys

namespace Buffer

theorem live_applyOp_total (b : Buffer) (op : BufOp) : (b.applyOp op).hot.total = b.hot.total := by
  cases op with
  | deposit o r =>
    simp only [applyOp]
    rcases deposit_spec b o r with ⟨_, he⟩ | ⟨_, _, _, _, _, h4, _, _⟩
    · rw [he]
    · exact h4
  | store o n => rfl
  | next =>
    simp only [applyOp, nextForProcessing]
    split <;> rfl
  | remove o =>
    simp only [applyOp, remove]
    split <;> rfl
  | h2cBegin => exact (hot2coldBegin_spec b).2.2.1
  | c2hBegin => exact (cold2hotBegin_spec b).2.2.1
  | h2cStep o l => exact (hot2coldStep_spec b o l).2.2.1
  | c2hStep o l => exact (cold2hotStep_spec b o l).2.2.1

theorem live_run_total (ops : List BufOp) (b : Buffer) : (b.run ops).hot.total = b.hot.total := by
  induction ops generalizing b with
  | nil => rfl
  | cons op ops ih => rw [run_cons, ih, live_applyOp_total]

end Buffer

namespace Sys

/-- H1: the volumes of all observations together fit below the tiering threshold (0.6) of the hot
buffer -/
def NoTierCfg (s0 : Sys) : Prop :=
  5 * ((s0.obs.map (fun o => o.rate * (o.duration : Int))).sum) ≤ 3 * s0.buf.hot.total

theorem live_vol_stat (l l' : List Obs) (h : l'.map Obs.stat = l.map Obs.stat) :
    (l'.map (fun o => o.rate * (o.duration : Int))).sum = (l.map (fun o => o.rate * (o.duration : Int))).sum := by
  have e : ∀ L : List Obs, L.map (fun o => o.rate * (o.duration : Int)) =
      (L.map Obs.stat).map (fun x => x.2.2.2.2.1 * (x.2.2.1 : Int)) := by
    intro L; rw [List.map_map]; rfl
  rw [e l', e l, h]

theorem live_begun_le_all (s : Sys) (hpos : ∀ ob ∈ s.obs, 0 ≤ ob.rate * (ob.duration : Int)) :
    begunVolume s ≤ (s.obs.map (fun o => o.rate * (o.duration : Int))).sum := by
  unfold begunVolume
  rw [sum_filter_map]
  apply sum_map_le
  intro ob hob
  split
  · exact Int.le_refl _
  · exact hpos ob hob

end Sys

/-- the static attributes along a run, from the configuration -/
theorem SimReach.keep0 {env : SimEnv} {s0 : Sys} (hw : WFConfig s0) {k : SimState}
    (h : SimReach env s0 k) : k.st.obs.map Obs.stat = s0.obs.map Obs.stat := by
  have h1 : Sys.ObsKeep (SimState.start s0).st k.st := SimPath.keep hw SimReach.start h.toPath
  have h2 : (SimState.start s0).st.obs = s0.obs := by
    show s0.start.obs = s0.obs
    simp [Sys.start, Sys.spawn]
  unfold Sys.ObsKeep at h1
  rw [h1, h2]

/-- **H1 ⇒ never over the threshold.**  Along a run of the simulator that has not raised, with an
initially empty, full-free buffer, positive ingest rates and `NoTierCfg`: the used space of the hot
tier stays within 3/5 of its capacity. -/
theorem live_not_over (env : SimEnv) (s0 : Sys) (hw : WFConfig s0)
    (hb0 : s0.buf.hot.stored = [] ∧ s0.buf.hot.scheduled = [] ∧ s0.buf.hot.finished = [] ∧
      s0.buf.cold.stored = [])
    (hfull : s0.buf.size = [] ∧ s0.buf.hot.cur = s0.buf.hot.total ∧ s0.buf.cold.cur = s0.buf.cold.total)
    (hrate : ∀ o ∈ s0.obs, 0 < o.rate) (hH1 : NoTierCfg s0)
    (k : SimState) (h : SimRun env s0 k) (hc : k.st.crashed = none) :
    k.st.buf.overThreshold = false ∧ k.st.buf.hot.total = s0.buf.hot.total ∧
    5 * (k.st.buf.hot.total - k.st.buf.hot.cur) + 5 * (k.st.buf.cold.total - k.st.buf.cold.cur)
      ≤ 5 * ((k.st.obs.filter (fun ob => ob.status != .waiting && !k.st.buf.hot.finished.contains ob.id)).map
        (fun ob => ob.rate * (ob.duration : Int))).sum ∧
    0 ≤ k.st.buf.cold.total - k.st.buf.cold.cur := by
  have hacc := C07_accounting_simpy env s0 hw hb0 hfull k h hc
  have hbd := C07_bounds_simpy env s0 hw hb0 hfull hrate k h hc
  have hbeg : k.st.buf.residentData ≤ begunVolume k.st ∧ k.st.buf.hot.total = s0.buf.hot.total :=
    L3_transfer env s0 hw
      (fun s => s.crashed = none → s.buf.residentData ≤ begunVolume s ∧ s.buf.hot.total = s0.buf.hot.total)
      (fun s hs hc => by
        refine ⟨(C07_lower_bounds_begun_volume_traj s0 s hw hb0 hfull hrate hs hc).1, ?_⟩
        obtain ⟨ops, _, hops⟩ := C07_refines_L1_traj s0 s hw hb0 hs hc
        rw [hops]
        exact Buffer.live_run_total ops s0.buf)
      (by intro _ h; exact h) k h hc
  have hkeep := h.toReach.keep0 hw
  have hpos : ∀ ob ∈ k.st.obs, 0 ≤ ob.rate * (ob.duration : Int) := by
    intro ob hob
    have hm : ob.stat ∈ s0.obs.map Obs.stat := by rw [← hkeep]; exact List.mem_map_of_mem hob
    obtain ⟨o0, ho0, hst⟩ := List.mem_map.mp hm
    obtain ⟨_, _, hd, _, hr, _⟩ := Sys.ot_stat_fields hst
    have := hrate o0 ho0
    rw [← hr, ← hd]
    exact Int.mul_nonneg (by omega) (by omega)
  have hall := Sys.live_begun_le_all k.st hpos
  rw [Sys.live_vol_stat s0.obs k.st.obs hkeep] at hall
  unfold Sys.NoTierCfg at hH1
  have hbeg' := hbeg.1
  unfold begunVolume at hbeg' hall
  refine ⟨?_, hbeg.2, by omega, by omega⟩
  unfold Buffer.overThreshold
  rw [decide_eq_false_iff_not, hbeg.2]
  have := hbeg.2
  omega

end Topsim
