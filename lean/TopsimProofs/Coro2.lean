/-
  Coro2 — a concrete run of the simulator (SimPy order) for C17Waits.

  Configuration `coroW`: three machines (cpu 1, bandwidth 1), one array, one ingest machine;
  DynamicSchedulingFromPlan with static plans (`coroEnv`).
    observation 0 (due at 0, one timestep): workflow chain `0 → 1` (2 and 1 units of work);
        plan: node 0 on machine 2, node 1 on machine 1;
    observation 1 (due at 1, one timestep): one workflow task of 3 units of work;
        plan: node 0 on machine 1.
  t = 1: observation 0 is planned (clock 1); `.wf 0 1 0` starts on machine 2 (recorded finish 3).
  t = 2: observation 1 is planned (clock 2 in its task ids); its ingest task is recorded on machine 1
         over [2, 3).
  t = 3: `.wf 1 2 0` starts on machine 1 at 3 — exactly the recorded finish of the ingest task —
         recorded finish 6.
  t = 4, 5: `.wf 0 1 1` (planned on machine 1) is ready; machine 1 is occupied; machines 0 and 2 are
         free; it is not proposed.
  t = 6: the allocation process of `.wf 1 2 0` gives machine 1 back (the clock has reached the recorded
         finish 6); later in the same instant `allocate_tasks` of observation 0 proposes `.wf 0 1 1`
         on machine 1; its body starts at 6 = the recorded finish of `.wf 1 2 0`.  Recorded finish 7.
-/
import TopsimProofs.DelayTraj10

namespace Topsim
namespace Sys

def coroObs0 : Obs :=
  { id := 0, est := 0, duration := 1, demand := 1, rate := 1, ingestDemand := 1,
    wf := ⟨[(0, 2, 0), (1, 1, 0)], [(0, 1, 0)], [0, 1]⟩ }

def coroObs1 : Obs :=
  { id := 1, est := 1, duration := 1, demand := 1, rate := 1, ingestDemand := 1,
    wf := ⟨[(0, 3, 0)], [], [0]⟩ }

def coroW : Sys :=
  { machines := [⟨0, 1, 1⟩, ⟨1, 1, 1⟩, ⟨2, 1, 1⟩], totalArrays := 1, maxIngest := 1, alg := .dynamic,
    staticPlan := true, cl := Cluster.init [0, 1, 2], buf := Buffer.init 100 10 100 10,
    obs := [coroObs0, coroObs1] }

/-- rows (node, machine, est, eft) -/
def coroEnv : SimEnv :=
  { staticPlans := [(0, [(0, 2, 0, 100), (1, 1, 100, 200)]), (1, [(0, 1, 0, 100)])] }

theorem coroW_wf : WFConfig coroW := by
  refine ⟨by decide, rfl, by decide, ?_, ⟨rfl, rfl, rfl, rfl, rfl, rfl, rfl, rfl, rfl, rfl, rfl, rfl, rfl,
    rfl, rfl, rfl, rfl⟩⟩
  intro o ho
  simp only [coroW, List.mem_cons, List.not_mem_nil, or_false] at ho
  rcases ho with rfl | rfl <;> exact ⟨rfl, rfl, by decide, by decide⟩

/-- the simulator after every event before t = `u` -/
def coroK (u : Nat) : SimState := SimState.runUntil coroEnv (u : Nat) 800 (SimState.start coroW)

theorem coroK_run (u : Nat) : SimRun coroEnv coroW (coroK u) := SimRun.runUntil _ _ SimRun.start

/-- the record of `t`: planned machine (an id), both stamps -/
def coroRecChk (s : Sys) (t : Tid) (planned : Option Mid) (ast aft : Option Time) : Bool :=
  match s.task? t with
  | some r => decide (r.planned = planned) && !r.allocObj && decide (r.ast = ast) && decide (r.aft = aft)
  | none => false

theorem coroRecChk_spec {s : Sys} {t : Tid} {planned : Option Mid} {ast aft : Option Time}
    (h : coroRecChk s t planned ast aft = true) :
    ∃ r, s.task? t = some r ∧ r.planned = planned ∧ r.allocObj = false ∧ r.ast = ast ∧ r.aft = aft := by
  unfold coroRecChk at h
  cases hr : s.task? t with
  | none => rw [hr] at h; cases h
  | some r =>
    rw [hr] at h
    simp only [Bool.and_eq_true, decide_eq_true_eq, Bool.not_eq_true'] at h
    exact ⟨r, rfl, h.1.1.1, h.1.1.2, h.1.2, h.2⟩

/-- a body of `t` on machine `m` in the process table -/
def coroBodyChk (s : Sys) (t : Tid) (m : Mid) : Bool :=
  s.procs.any (fun p => match p.k with
    | .doWork t' m' _ _ _ => decide (t' = t) && decide (m' = m)
    | _ => false)

theorem coroBodyChk_spec {s : Sys} {t : Tid} {m : Mid} (h : coroBodyChk s t m = true) :
    ∃ d ∈ s.procs, ∃ c ph tot, d.k = .doWork t m c ph tot := by
  unfold coroBodyChk at h
  obtain ⟨d, hd, hk⟩ := List.any_eq_true.mp h
  refine ⟨d, hd, ?_⟩
  cases hdk : d.k <;> rw [hdk] at hk <;> simp at hk
  obtain ⟨rfl, rfl⟩ := hk
  exact ⟨_, _, _, rfl⟩

/-- the two workflow tasks planned on machine 1 -/
def coroU : Tid := .wf 1 2 0
def coroT : Tid := .wf 0 1 1

/-- the end of the run (`is_finished()`): both tasks ran on machine 1, their planned machine;
`coroU` over [3, 6), `coroT` over [6, 7) -/
theorem coroK_final_chk :
    ((coroK 12).st.isFinished && decide ((coroK 12).st.crashed = none) && !(coroK 12).st.halted &&
      coroRecChk (coroK 12).st coroU (some 1) (some 3) (some 6) &&
      coroRecChk (coroK 12).st coroT (some 1) (some 6) (some 7) &&
      coroBodyChk (coroK 12).st coroU 1 && coroBodyChk (coroK 12).st coroT 1 &&
      coroBodyChk (coroK 12).st (.ingest 1 0) 1 &&
      coroRecChk (coroK 12).st (.ingest 1 0) none (some 2) (some 3)) = true := by
  decide +kernel

/-- in the middle (every event before t = 5 processed): `coroU` runs on machine 1 (started, no recorded
finish), `coroT` is ready (its predecessor is finished), unscheduled, has no body; machines 0 and 2
are available, machine 1 is occupied -/
theorem coroK_mid_chk :
    (!(coroK 5).st.halted && decide ((coroK 5).st.crashed = none) &&
      coroRecChk (coroK 5).st coroU (some 1) (some 3) none &&
      coroRecChk (coroK 5).st coroT (some 1) none none &&
      decide (((coroK 5).st.task? coroT).map (fun r => (r.status, r.preds)) = some (.unscheduled, [.wf 0 1 0])) &&
      decide (((coroK 5).st.task? (.wf 0 1 0)).map (·.status) = some .finished) &&
      decide ((coroK 5).st.cl.available = [0, 2]) && decide ((coroK 5).st.cl.occupied = [1]) &&
      decide ((coroK 5).st.active = [(1, coroU)]) && !coroBodyChk (coroK 5).st coroT 1) = true := by
  decide +kernel

/-- the round of the algorithm that `allocate_tasks` of observation 0 (process 10: schedule `[]`, pool
`[coroT]`) runs in that state: the new schedule and pool -/
def coroRound (s : Sys) : Option (List (Tid × Mid) × List Tid) :=
  match s.plan? 0 with
  | some plan =>
    match s.runAlgorithm {} plan [] [coroT] with
    | .ok out => some (out.schedule, out.pool)
    | .error _ => none
  | none => none

theorem coroRound_spec {s : Sys} {x : List (Tid × Mid) × List Tid} (h : coroRound s = some x) :
    ∃ plan out, s.plan? 0 = some plan ∧ s.runAlgorithm {} plan [] [coroT] = .ok out ∧
      out.schedule = x.1 ∧ out.pool = x.2 := by
  unfold coroRound at h
  cases hp : s.plan? 0 with
  | none => rw [hp] at h; cases h
  | some plan =>
    rw [hp] at h
    simp only at h
    cases hr : s.runAlgorithm {} plan [] [coroT] with
    | error e => rw [hr] at h; cases h
    | ok out =>
      rw [hr] at h
      simp only at h
      injection h with h
      subst h
      exact ⟨plan, out, rfl, hr, rfl, rfl⟩

/-- the round succeeds and proposes nothing: `coroT` stays in the pool -/
theorem coroK_mid_round : coroRound (coroK 5).st = some ([], [coroT]) := by decide +kernel

theorem coroK_mid_occupied : (coroK 5).st.cl.isOccupied 1 = true := by decide +kernel

end Sys
end Topsim
