/-
  LiveB14 — BatchProcessing: the declarations of Live14 that depend on the configuration hypotheses,
  for `LiveCfgB` / `NcCfgB` (`s0.alg = .batch …`).  Generated from Live14.lean by renaming (suffix `_B`);
  the algorithm-dependent ones are rewritten (see the comments).
-/
import TopsimProofs.Live14
import TopsimProofs.LiveB5

namespace Topsim
open KState Sys

structure NcCfgB (env : SimEnv) (s0 : Sys) : Prop where
  hw : Sys.WFConfig s0
  feas : Sys.Feasible s0
  hb0 : s0.buf.hot.stored = [] ∧ s0.buf.hot.scheduled = [] ∧ s0.buf.hot.finished = [] ∧
      s0.buf.cold.stored = []
  hfull : s0.buf.size = [] ∧ s0.buf.hot.cur = s0.buf.hot.total ∧ s0.buf.cold.cur = s0.buf.cold.total
  hct : s0.buf.cold.transfer = none
  h1 : Sys.NoTierCfg s0
  alg : Sys.BatchAlg s0
  stat : s0.staticPlan = false
  topo : ∀ o ∈ s0.obs, IsTopo o.wf
  hh0 : s0.halted = false
  minOk : Sys.BatchMinOk s0

theorem NcCfgB.toLive {env : SimEnv} {s0 : Sys} (N : NcCfgB env s0) (hnr : NoRaise env s0) : LiveCfgB env s0 :=
  ⟨N.hw, N.feas, N.hb0, N.hfull, N.hct, N.h1, N.alg, N.stat, N.topo, hnr, N.minOk⟩
end Topsim
