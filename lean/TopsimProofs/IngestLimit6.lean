/-
  IngestLimit6 — the ledger invariant across the blocks of the ingest
  supervisor (`allocate_ingest`): creation of the provisioning process, the
  count-down, and the last block, where the counter goes down.
-/
import TopsimProofs.IngestLimit5

namespace Topsim
namespace Sys

open Cluster

theorem ILStep.of_quiet {s sA X : Sys} (h : ILInv s) (hq : ILQ s sA) (hX : ILStep sA X) : ILStep s X := by
  obtain ⟨h1, h2, h3⟩ := hX
  exact ⟨h1, h2.trans hq.maxI, Nat.le_trans h3 (h.quiet hq).2⟩

theorem il_iter_allocIngest {s : Sys} (hs : SInv s) (h : ILInv s) {p : Proc} (hpm : p ∈ s.procs)
    (ha : p.alive = true) (hmin : ∀ q ∈ s.procs, q.alive = true → p.wake ≤ q.wake)
    {oid : Oid} {tl0 : Int} (hk : p.k = .allocIngest oid tl0) (tl : Int) :
    ILStep s ((s.allocIngestIter p.wake oid tl).1.updProc p.pid
      (fin (s.allocIngestIter p.wake oid tl).2.1 (s.allocIngestIter p.wake oid tl).2.2 p.wake)) := by
  have hpw := hs.pw
  obtain ⟨l1, l2, e, hne, hg⟩ := il_split hpw hpm
  have hil : ILC (l1 ++ p :: l2) s.ilDemand s.cl.ilEntries s.provIngest s.maxIngest s.admitted := by
    have := h; unfold ILInv at this; rw [e] at this; exact this
  have hpai : p.k.aiObs = some oid := by rw [hk]; rfl
  -- the process that runs is nobody's later-due witness
  have hnw : ∀ q, q ∈ l1 ∨ q ∈ l2 → q.alive = true → q.pc = 0 → ∀ o d, q.k = .provIngest o d →
      ¬ (p.alive = true ∧ 1 ≤ p.pc ∧ p.k.aiObs = some o ∧ q.wake < p.wake) := by
    intro q hq hqa _ o d _ hw
    have hqm : q ∈ s.procs := by rw [e]; exact mem_replace_of_side hq
    have := hmin q hqm hqa
    exact absurd hw.2.2.2 (Rat.not_lt.mpr this)
  have hrep : ∀ (tl' : Int) (y : Yield),
      ILC (l1 ++ fin (.allocIngest oid tl') y p.wake p :: l2) s.ilDemand s.cl.ilEntries s.provIngest
        s.maxIngest s.admitted ∧
      ilPromised (l1 ++ fin (.allocIngest oid tl') y p.wake p :: l2) s.ilDemand
        ≤ ilPromised (l1 ++ p :: l2) s.ilDemand := by
    intro tl' y
    refine hil.replace (by rw [fin_k, hk]; rfl) (by simp) (fun ha' => (fin_alive _ _ _ _ ha').1) ?_ hnw ?_
    · intro x hx
      have := (ilUnprov_iff.mp hx).2.1
      simp at this
    · intro _ _ o d hkk
      simp at hkk
  -- the supervisor stays or dies, nothing else changes
  have stay : ∀ (tl' : Int) (y : Yield),
      ILStep s (s.updProc p.pid (fin (.allocIngest oid tl') y p.wake)) := by
    intro tl' y
    obtain ⟨hc, hl⟩ := hrep tl' y
    have := ILInv.of_ilc (s' := s.updProc p.pid (fin (.allocIngest oid tl') y p.wake)) hc
      (hg _) (fun _ => rfl) (fun _ => Nat.le_refl _) rfl rfl rfl
    refine ⟨this.1, rfl, Nat.le_trans this.2 ?_⟩
    unfold ilLoadS ingestPromised
    rw [e]
    exact Nat.add_le_add_left hl _
  unfold allocIngestIter
  simp only
  cases hob : s.obs? oid with
  | none => simp only; exact stay tl _
  | some o =>
    simp only
    have hdem : s.ilDemand oid = o.ingestDemand := by unfold ilDemand; rw [hob]
    -- the last block
    have epi : ILStep s (({ s with provIngest := s.provIngest - (o.ingestDemand : Int), cl := s.cl.cleanUpIngest }).updProc p.pid (fin (.allocIngest oid tl) .done p.wake)) := by
      obtain ⟨hc, hl⟩ := hil.epilogue (p' := fin (.allocIngest oid tl) .done p.wake p) (o := oid) ha hpai
        (by rw [fin_k, hk]; rfl) (by simp) (by simp) hnw
      have := ILInv.of_ilc (s' := ({ s with provIngest := s.provIngest - (o.ingestDemand : Int), cl := s.cl.cleanUpIngest }).updProc p.pid (fin (.allocIngest oid tl) .done p.wake)) hc
        (hg _) (fun _ => rfl) (fun _ => Nat.le_refl _) (by rw [hdem]; rfl) rfl rfl
      refine ⟨this.1, rfl, Nat.le_trans this.2 ?_⟩
      unfold ilLoadS ingestPromised
      rw [e]
      exact Nat.add_le_add_left hl _
    by_cases hfin : o.status = .finished
    · simp only [hfin, if_true]; exact epi
    · simp only [hfin, if_false]
      by_cases hwt : o.status = .waiting
      · simp only [hwt, if_true]
        -- the supervisor is at its first block
        have hpc : p.pc = 0 := by
          obtain ⟨ob, hob', hw'⟩ := hs.eg.adm oid (hil.aiAdm p (by simp) oid hpai)
          rw [hob] at hob'
          injection hob' with hob'
          subst hob'
          obtain ⟨w, hw1, _, hwc, ⟨tlw, hwk⟩, _⟩ := hw' hwt
          have hw1' : w ∈ l1 ++ p :: l2 := by rw [← e]; exact hw1
          have := hil.aiUniq w hw1' p (by simp) oid (by rw [hwk]; rfl) hpai
          have : w = p := hpw.eq_of_pid hw1 hpm this
          rw [← this]; exact hwc
        have holive : oid ∈ ilLiveAI (l1 ++ p :: l2) := mem_ilLiveAI.mpr ⟨p, by simp, ha, hpai⟩
        have hunp : ilUnprovisioned (l1 ++ p :: l2) oid = true :=
          ilUnprovisioned_iff.mpr ⟨p, by simp, ha, hpc, Or.inl hpai⟩
        have hE0 : ilEntCount s.cl.ilEntries oid = 0 := by
          have := hil.perObs oid holive
          have hpt : ilPromisedTo (l1 ++ p :: l2) s.ilDemand oid = s.ilDemand oid := by
            unfold ilPromisedTo; rw [if_pos hunp]
          omega
        obtain ⟨hc, _⟩ := hrep tl (.timeout 1)
        let p' : Proc := fin (.allocIngest oid tl) (.timeout 1) p.wake p
        let q : Proc := { pid := s.nextPid, k := .provIngest oid o.ingestDemand, wake := p.wake }
        let r : Proc := { pid := s.nextPid + 1, k := .ingestStream oid 0, wake := p.wake }
        have hwlt : q.wake < p'.wake := by
          show p.wake < p.wake + 1
          grind
        have hc2 : ILC ((l1 ++ p' :: l2) ++ [q]) s.ilDemand s.cl.ilEntries s.provIngest s.maxIngest
            s.admitted :=
          hc.addPI q oid (by rw [hdem]) ⟨p', List.mem_append_right _ (List.mem_cons_self ..), by simp [p', ha], by simp [p'], by simp [p', PK.aiObs], hwlt⟩ hE0
        have hrn : ∀ x ∈ [r], x.k.aiObs = none ∧ x.k.piObs = none := by
          intro x hx; simp only [List.mem_singleton] at hx; subst hx; exact ⟨rfl, rfl⟩
        have hc3 := hc2.append_neutral [r] hrn
        have hprocs : ((((s.spawn (.provIngest oid o.ingestDemand) p.wake).1.spawn (.ingestStream oid 0)
            p.wake).1.updObs oid (fun r => { r with status := .running })).updProc p.pid
              (fin (.allocIngest oid tl) (.timeout 1) p.wake)).procs = ((l1 ++ p' :: l2) ++ [q]) ++ [r] := by
          have h1 := updProc_spawn_procs (s.spawn (.provIngest oid o.ingestDemand) p.wake).1
            (.ingestStream oid 0) p.wake p.pid (fin (.allocIngest oid tl) (.timeout 1) p.wake)
            (by have := hpw.lt p hpm; simp; omega)
          have h2 := updProc_spawn_procs s (.provIngest oid o.ingestDemand) p.wake p.pid
            (fin (.allocIngest oid tl) (.timeout 1) p.wake) (hpw.lt p hpm)
          show (((s.spawn (.provIngest oid o.ingestDemand) p.wake).1.spawn (.ingestStream oid 0)
            p.wake).1.updProc p.pid (fin (.allocIngest oid tl) (.timeout 1) p.wake)).procs = _
          rw [h1, h2, hg]
          rfl
        have hfin := ILInv.of_ilc hc3 hprocs
          (fun x => (ilDemand_congr (a := s.updObs oid (fun r => { r with status := .running })) rfl x).trans
            (ilDemand_updObs s oid (fun r => { r with status := .running }) (fun _ => rfl) (fun _ => rfl) x))
          (fun _ => Nat.le_refl _) rfl rfl rfl
        refine ⟨hfin.1, rfl, Nat.le_trans hfin.2 ?_⟩
        rw [ilPromised_append_neutral _ _ _ hrn]
        unfold ilLoadS ingestPromised
        rw [e]
        apply Nat.add_le_add_left
        exact ilPromised_aiSpawn s.ilDemand ha hpc hpai
          (by rw [ilAiLive_some.mpr ⟨ha, hpai⟩]
              exact ilAiLive_some.mpr ⟨by simp [p', ha], by simp [p', PK.aiObs]⟩) (by simp [p']) rfl rfl
      · simp only [hwt, if_false]
        split
        · exact stay _ _
        · exact epi

theorem il_step_allocIngest {s : Sys} (hs : SInv s) (h : ILInv s) {p : Proc} (hpm : p ∈ s.procs)
    (ha : p.alive = true) (hmin : ∀ q ∈ s.procs, q.alive = true → p.wake ≤ q.wake)
    {oid : Oid} {tl : Int} (hk : p.k = .allocIngest oid tl) :
    ILStep s ((s.allocIngestBlock p.wake p.pc oid tl).1.updProc p.pid
      (fin (s.allocIngestBlock p.wake p.pc oid tl).2.1 (s.allocIngestBlock p.wake p.pc oid tl).2.2 p.wake)) := by
  unfold allocIngestBlock
  split
  · have hgood : GoodO (fun r : Obs => { r with ast := some (natNow p.wake) }) :=
      fun r => ⟨rfl, fun h => h⟩
    have hq : ILQ s (s.updObs oid (fun r => { r with ast := some (natNow p.wake) })) :=
      ilq_updObs s oid _ (fun _ => rfl) (fun _ => rfl)
    exact ILStep.of_quiet h hq
      (il_iter_allocIngest (hs.updObs oid _ hgood) (h.quiet hq).1 (p := p) hpm ha hmin hk _)
  · exact il_iter_allocIngest hs h hpm ha hmin hk tl

end Sys
end Topsim
