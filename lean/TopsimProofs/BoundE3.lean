/-
  BoundE3 — C05, the numeric clause UNDER A DELAY MODEL for the plan-following algorithms
  (DynamicSchedulingFromPlan, GreedySchedulingFromPlan, static plans): vocabulary, the algebra of the
  delayed weight (BoundP2 / BoundD1) and its arithmetic (BoundP4 / BoundD2).

  How a delay reaches a task WITHOUT work (`doWorkBlock`, `nominalDuration`, `SimEnv.bodyTotal`): the
  nominal duration of a record with `comp = task_data = 0` is the PLANNED duration `eft - est` of the
  plan row it was made from, and the delay table / script is applied to THAT number exactly as to a
  runtime computed from a machine: `table[eft - est]` if there is an entry, else `eft - est + script[k]`.
  A table need not be monotone, so the charge of such a node is the largest `boundDTot env (eft - est)`
  over the rows of the static plan naming the node (`boundE_planTot`), not `boundDTot` of the largest
  planned duration.  A node with work is charged `boundDOcc` as under QueueProcessing (the machine —
  planned, or greedy's fallback — is some machine of the cluster).
-/
import TopsimProofs.BoundE1

namespace Topsim

open KState Sys

/-- the largest total the environment can hand the PLANNED duration `eft - est` of a row of the static
plan of `o` naming `node` -/
def boundE_planTot (env : SimEnv) (o : Obs) (node : Nat) : Nat :=
  (((env.rowsOf o.id).filter (fun x => x.1 = node)).map
    (fun x => env.boundDTot (x.2.2.2 - x.2.2.1))).foldl max 0

/-- delayed occupancy of a node under a static plan: `boundDRt` (any machine) when it has work, the
largest delayed planned duration (at least one step) when it has none -/
def boundEP_Rt (env : SimEnv) (s0 : Sys) (o : Obs) (node : Nat) : Nat :=
  if (boundAttrs o node).2.1 = 0 ∧ (boundAttrs o node).2.2 = 0 then max 1 (boundE_planTot env o node)
  else boundDRt env s0 o node

/-- weight of the start of a workflow task -/
def boundEP_WAT (env : SimEnv) (s0 : Sys) (o : Obs) (node : Nat) : Nat :=
  boundEP_Rt env s0 o node + boundWait s0 o node + 1

open Classical in
/-- the delayed weight of the stages that have happened -/
noncomputable def boundEP_V (env : SimEnv) (s0 s : Sys) : Nat :=
  (s0.obs.map (fun o =>
    (if Sys.PAst o.id s then o.duration + 1 else 0) + (if Sys.PQ o.id s then 1 else 0) +
    (if Sys.PRm o.id s then 1 else 0) +
    (o.wf.topo.map (fun node => if Sys.PAT o.id node s then boundEP_WAT env s0 o node else 0)).sum)).sum

/-- the delayed weight of all the stages -/
def boundEP_VTotal (env : SimEnv) (s0 : Sys) : Nat :=
  (s0.obs.map (fun o => o.duration + 3 + (o.wf.topo.map (fun node => boundEP_WAT env s0 o node)).sum)).sum

/-- `latest + V` (delayed, plans) at index `n`, as a time -/
noncomputable def boundEP_LV (env : SimEnv) (s0 : Sys) (n : Nat) : Time :=
  ((boundLatest s0 + boundEP_V env s0 (simAt env s0 n).st : Nat) : Time)

/-- **The serial bound under a delay environment for a run that follows the static plans of `env`**:
`Sys.serialBoundD` in which the occupancy term of a node WITHOUT work is the largest total the
environment can hand one of its planned durations. -/
def boundEP_serial (env : SimEnv) (s0 : Sys) (c : Nat := 3) : Nat :=
  let slowBw := (s0.machines.map (·.bw)).foldl min (s0.machines.headD default).bw
  let rate := (min s0.buf.hot.maxRate s0.buf.cold.maxRate).toNat
  let latest := (s0.obs.map (·.est)).foldl max 0
  latest + (s0.obs.map (fun o =>
    o.duration + 2 * Sys.ceilDiv (o.rate * o.duration).toNat rate + c +
    (o.wf.nodes.map (fun n =>
      (if n.2.1 = 0 ∧ n.2.2 = 0 then max 1 (boundE_planTot env o n.1) else boundDOcc env s0 n.2.1 n.2.2) +
      Sys.ceilDiv ((o.wf.edges.filter (fun e => e.2.1 = n.1)).map (·.2.2) |>.foldl max 0) slowBw + c)).foldl (· + ·) 0)).foldl (· + ·) 0

/-- every row of the static plans naming a node listed without work is handed, by the environment, at
most what a planned duration 0 is handed (at least one step): with no delay model this is `BoundPDurOk`
(`eft - est ≤ 1`) -/
def BoundEPDurOk (env : SimEnv) (s0 : Sys) : Prop :=
  ∀ o ∈ s0.obs, ∀ n ∈ o.wf.nodes, n.2.1 = 0 → n.2.2 = 0 →
    ∀ x ∈ env.rowsOf o.id, x.1 = n.1 → env.boundDTot (x.2.2.2 - x.2.2.1) ≤ max 1 (env.boundDTot 0)

/-- every row of the static plans naming a node listed without work books no time (`eft = est`): what
both shipped planners do -/
def BoundEPDurZero (env : SimEnv) (s0 : Sys) : Prop :=
  ∀ o ∈ s0.obs, ∀ n ∈ o.wf.nodes, n.2.1 = 0 → n.2.2 = 0 →
    ∀ x ∈ env.rowsOf o.id, x.1 = n.1 → x.2.2.2 - x.2.2.1 = 0

/-! ### the algebra of the weight (as BoundP2) -/

open Classical in
/-- the weight of one observation -/
noncomputable def boundEP_VObs (env : SimEnv) (s0 s : Sys) (o : Obs) : Nat :=
  (if Sys.PAst o.id s then o.duration + 1 else 0) + (if Sys.PQ o.id s then 1 else 0) +
    (if Sys.PRm o.id s then 1 else 0) +
    (o.wf.topo.map (fun node => if Sys.PAT o.id node s then boundEP_WAT env s0 o node else 0)).sum

theorem boundEP_V_eq (env : SimEnv) (s0 s : Sys) : boundEP_V env s0 s = (s0.obs.map (boundEP_VObs env s0 s)).sum := rfl

open Classical in
theorem boundEP_vobs_le {env : SimEnv} {s0 s s' : Sys} (h : BoundMono s0 s s') {o : Obs} (ho : o ∈ s0.obs) :
    boundEP_VObs env s0 s o ≤ boundEP_VObs env s0 s' o := by
  obtain ⟨h1, h2, h3, h4⟩ := h o ho
  unfold boundEP_VObs
  have a1 := bound_ite_le h1 (o.duration + 1)
  have a2 := bound_ite_le h2 1
  have a3 := bound_ite_le h3 1
  have a4 := bound_sum_le o.wf.topo
    (fun node => if Sys.PAT o.id node s then boundEP_WAT env s0 o node else 0)
    (fun node => if Sys.PAT o.id node s' then boundEP_WAT env s0 o node else 0)
    (fun node hn => bound_ite_le (h4 node hn) _)
  omega

theorem boundEP_v_mono_of {env : SimEnv} {s0 s s' : Sys} (h : BoundMono s0 s s') : boundEP_V env s0 s ≤ boundEP_V env s0 s' := by
  rw [boundEP_V_eq, boundEP_V_eq]
  exact bound_sum_le _ _ _ (fun o ho => boundEP_vobs_le h ho)

open Classical in
/-- an admission adds `duration + 1` -/
theorem boundEP_v_add_ast {env : SimEnv} {s0 s s' : Sys} (h : BoundMono s0 s s') {o : Obs} (ho : o ∈ s0.obs)
    (hn : ¬ Sys.PAst o.id s) (hy : Sys.PAst o.id s') : boundEP_V env s0 s + (o.duration + 1) ≤ boundEP_V env s0 s' := by
  rw [boundEP_V_eq, boundEP_V_eq]
  refine bound_sum_add_le _ _ _ (fun o ho => boundEP_vobs_le h ho) ho ?_
  obtain ⟨_, h2, h3, h4⟩ := h o ho
  unfold boundEP_VObs
  have a1 := bound_ite_flip hn hy (o.duration + 1)
  have a2 := bound_ite_le h2 1
  have a3 := bound_ite_le h3 1
  have a4 := bound_sum_le o.wf.topo
    (fun node => if Sys.PAT o.id node s then boundEP_WAT env s0 o node else 0)
    (fun node => if Sys.PAT o.id node s' then boundEP_WAT env s0 o node else 0)
    (fun node hn => bound_ite_le (h4 node hn) _)
  omega

open Classical in
/-- a hand-over adds 1 -/
theorem boundEP_v_add_q {env : SimEnv} {s0 s s' : Sys} (h : BoundMono s0 s s') {o : Obs} (ho : o ∈ s0.obs)
    (hn : ¬ Sys.PQ o.id s) (hy : Sys.PQ o.id s') : boundEP_V env s0 s + 1 ≤ boundEP_V env s0 s' := by
  rw [boundEP_V_eq, boundEP_V_eq]
  refine bound_sum_add_le _ _ _ (fun o ho => boundEP_vobs_le h ho) ho ?_
  obtain ⟨h1, _, h3, h4⟩ := h o ho
  unfold boundEP_VObs
  have a1 := bound_ite_le h1 (o.duration + 1)
  have a2 := bound_ite_flip hn hy 1
  have a3 := bound_ite_le h3 1
  have a4 := bound_sum_le o.wf.topo
    (fun node => if Sys.PAT o.id node s then boundEP_WAT env s0 o node else 0)
    (fun node => if Sys.PAT o.id node s' then boundEP_WAT env s0 o node else 0)
    (fun node hn => bound_ite_le (h4 node hn) _)
  omega

open Classical in
/-- a removal adds 1 -/
theorem boundEP_v_add_rm {env : SimEnv} {s0 s s' : Sys} (h : BoundMono s0 s s') {o : Obs} (ho : o ∈ s0.obs)
    (hn : ¬ Sys.PRm o.id s) (hy : Sys.PRm o.id s') : boundEP_V env s0 s + 1 ≤ boundEP_V env s0 s' := by
  rw [boundEP_V_eq, boundEP_V_eq]
  refine bound_sum_add_le _ _ _ (fun o ho => boundEP_vobs_le h ho) ho ?_
  obtain ⟨h1, h2, _, h4⟩ := h o ho
  unfold boundEP_VObs
  have a1 := bound_ite_le h1 (o.duration + 1)
  have a2 := bound_ite_le h2 1
  have a3 := bound_ite_flip hn hy 1
  have a4 := bound_sum_le o.wf.topo
    (fun node => if Sys.PAT o.id node s then boundEP_WAT env s0 o node else 0)
    (fun node => if Sys.PAT o.id node s' then boundEP_WAT env s0 o node else 0)
    (fun node hn => bound_ite_le (h4 node hn) _)
  omega

open Classical in
/-- the start of a workflow task adds `boundEP_WAT` -/
theorem boundEP_v_add_at {env : SimEnv} {s0 s s' : Sys} (h : BoundMono s0 s s') {o : Obs} (ho : o ∈ s0.obs) {node : Nat}
    (hnode : node ∈ o.wf.topo) (hn : ¬ Sys.PAT o.id node s) (hy : Sys.PAT o.id node s') :
    boundEP_V env s0 s + boundEP_WAT env s0 o node ≤ boundEP_V env s0 s' := by
  rw [boundEP_V_eq, boundEP_V_eq]
  refine bound_sum_add_le _ _ _ (fun o ho => boundEP_vobs_le h ho) ho ?_
  obtain ⟨h1, h2, h3, h4⟩ := h o ho
  unfold boundEP_VObs
  have a1 := bound_ite_le h1 (o.duration + 1)
  have a2 := bound_ite_le h2 1
  have a3 := bound_ite_le h3 1
  have a4 := bound_sum_add_le o.wf.topo
    (fun node => if Sys.PAT o.id node s then boundEP_WAT env s0 o node else 0)
    (fun node => if Sys.PAT o.id node s' then boundEP_WAT env s0 o node else 0)
    (fun node hn => bound_ite_le (h4 node hn) _) hnode
    (w := boundEP_WAT env s0 o node) (by rw [if_neg hn, if_pos hy]; omega)
  omega

theorem boundEP_WAT_pos (env : SimEnv) (s0 : Sys) (o : Obs) (node : Nat) : 1 ≤ boundEP_WAT env s0 o node := by
  unfold boundEP_WAT; omega

/-- if the weight did not change, no stage happened -/
theorem boundEP_v_eq_noflip {env : SimEnv} {s0 s s' : Sys} (h : BoundMono s0 s s') (he : boundEP_V env s0 s' = boundEP_V env s0 s) :
    ∀ o ∈ s0.obs, (Sys.PAst o.id s' → Sys.PAst o.id s) ∧ (Sys.PQ o.id s' → Sys.PQ o.id s) ∧
      (Sys.PRm o.id s' → Sys.PRm o.id s) ∧
      ∀ node ∈ o.wf.topo, Sys.PAT o.id node s' → Sys.PAT o.id node s := by
  intro o ho
  refine ⟨fun hy => ?_, fun hy => ?_, fun hy => ?_, fun node hnode hy => ?_⟩
  · apply Classical.byContradiction
    intro hn
    have := boundEP_v_add_ast (env := env) h ho hn hy
    omega
  · apply Classical.byContradiction
    intro hn
    have := boundEP_v_add_q (env := env) h ho hn hy
    omega
  · apply Classical.byContradiction
    intro hn
    have := boundEP_v_add_rm (env := env) h ho hn hy
    omega
  · apply Classical.byContradiction
    intro hn
    have := boundEP_v_add_at (env := env) h ho hnode hn hy
    have := boundEP_WAT_pos env s0 o node
    omega


/-! ### transfer between the two weights: they change at the same steps -/

theorem boundEP_v_eq_of_eq {env : SimEnv} {s0 s s' : Sys} (h : BoundMono s0 s s')
    (he : boundEP_V env s0 s' = boundEP_V env s0 s) : boundP_V env s0 s' = boundP_V env s0 s :=
  Nat.le_antisymm (boundP_v_mono_of (boundEP_v_eq_noflip h he)) (boundP_v_mono_of h)

theorem boundEP_v_lt_of_lt {env : SimEnv} {s0 s s' : Sys} (h : BoundMono s0 s s')
    (hl : boundP_V env s0 s < boundP_V env s0 s') : boundEP_V env s0 s < boundEP_V env s0 s' := by
  have h1 := boundEP_v_mono_of (env := env) h
  apply Classical.byContradiction
  intro hn
  have he : boundEP_V env s0 s' = boundEP_V env s0 s := by omega
  have := boundEP_v_eq_of_eq h he
  omega

/-! ### the arithmetic (as BoundP4 / BoundD2) -/

open Classical in
theorem boundEP_v_le_total (env : SimEnv) (s0 s : Sys) : boundEP_V env s0 s ≤ boundEP_VTotal env s0 := by
  unfold boundEP_V boundEP_VTotal
  apply bound_ar_sum_map_le
  intro o _
  have h : (o.wf.topo.map (fun node => if Sys.PAT o.id node s then boundEP_WAT env s0 o node else 0)).sum ≤
      (o.wf.topo.map (fun node => boundEP_WAT env s0 o node)).sum := by
    apply bound_ar_sum_map_le
    intro n _
    exact bound_ar_ite_le _ _
  have h1 := bound_ar_ite_le (Sys.PAst o.id s) (o.duration + 1)
  have h2 := bound_ar_ite_le (Sys.PQ o.id s) 1
  have h3 := bound_ar_ite_le (Sys.PRm o.id s) 1
  omega

theorem boundEP_total_le_serial (env : SimEnv) (s0 : Sys) (htopo : ∀ o ∈ s0.obs, IsTopo o.wf) :
    boundLatest s0 + boundEP_VTotal env s0 ≤ boundEP_serial env s0 := by
  unfold boundEP_serial boundEP_VTotal
  simp only [bound_ar_foldl_sum]
  show boundLatest s0 + _ ≤ boundLatest s0 + _
  apply Nat.add_le_add_left
  apply bound_ar_sum_map_le
  intro o ho
  have ht := htopo o ho
  have h1 : (o.wf.topo.map (fun node => boundEP_WAT env s0 o node)).sum ≤
      (o.wf.topo.map (fun node => (fun n : Nat × Nat × Nat =>
        (if n.2.1 = 0 ∧ n.2.2 = 0 then max 1 (boundE_planTot env o n.1) else boundDOcc env s0 n.2.1 n.2.2) +
        Sys.ceilDiv (((o.wf.edges.filter (fun e => e.2.1 = n.1)).map (·.2.2)).foldl max 0)
          (boundSlowBw s0) + 3)
        ((o.wf.nodes.find? (·.1 = node)).getD (node, 0, 0)))).sum := by
    apply bound_ar_sum_map_le
    intro node _
    have hf := bound_ar_attrs_fst o node
    unfold boundAttrs at hf
    beta_reduce
    rw [hf]
    unfold boundEP_WAT boundEP_Rt boundDRt boundWait boundAttrs
    omega
  have h2 := bound_ar_topo_sum (fun n : Nat × Nat × Nat =>
        (if n.2.1 = 0 ∧ n.2.2 = 0 then max 1 (boundE_planTot env o n.1) else boundDOcc env s0 n.2.1 n.2.2) +
        Sys.ceilDiv (((o.wf.edges.filter (fun e => e.2.1 = n.1)).map (·.2.2)).foldl max 0)
          (boundSlowBw s0) + 3) o.wf.nodes o.wf.topo ht.nodup (fun x hx => (ht.nodes x).1 hx)
  have h3 := Nat.le_trans h1 h2
  beta_reduce at h3
  unfold boundSlowBw at h3
  omega

/-! ### comparisons -/

/-- without a delay model the delayed planned total is the planned duration -/
theorem boundE_planTot_nodelay {env : SimEnv} (h1 : env.delayTable = []) (h2 : env.delayScript = [])
    (o : Obs) (node : Nat) : boundE_planTot env o node = boundP_planDur env o node := by
  unfold boundE_planTot boundP_planDur
  congr 2
  funext x
  exact boundD_tot_nodelay h1 h2 _

/-- **Without a delay model the delayed plan bound is within the corrected plan bound** `boundP_serial`
(machines with positive speeds: part of `Sys.Feasible`). -/
theorem boundEP_serial_nodelay {env : SimEnv} (h1 : env.delayTable = []) (h2 : env.delayScript = [])
    (s0 : Sys) (hf : ∀ m ∈ s0.machines, 0 < m.cpu ∧ 0 < m.bw) :
    boundEP_serial env s0 ≤ boundP_serial env s0 := by
  unfold boundEP_serial boundP_serial
  simp only [bound_ar_foldl_sum]
  apply Nat.add_le_add_left
  apply bound_ar_sum_map_le
  intro o _
  apply Nat.add_le_add_left
  apply bound_ar_sum_map_le
  intro n _
  by_cases hz : n.2.1 = 0 ∧ n.2.2 = 0
  · rw [if_pos hz, if_pos hz, boundE_planTot_nodelay h1 h2]
    omega
  · rw [if_neg hz, if_neg hz]
    have := boundD_occ_nodelay h1 h2 s0 hf n.2.1 n.2.2
    unfold boundSlowCpu boundSlowBw at this
    omega

theorem boundE_planTot_le {env : SimEnv} {s0 : Sys} (h : BoundEPDurOk env s0) {o : Obs} (ho : o ∈ s0.obs)
    {n : Nat × Nat × Nat} (hn : n ∈ o.wf.nodes) (h1 : n.2.1 = 0) (h2 : n.2.2 = 0) :
    boundE_planTot env o n.1 ≤ max 1 (env.boundDTot 0) := by
  unfold boundE_planTot
  apply boundD_foldl_max_le _ _ _ (by omega)
  intro x hx
  obtain ⟨y, hy, rfl⟩ := List.mem_map.mp hx
  obtain ⟨hy1, hy2⟩ := List.mem_filter.mp hy
  exact h o ho n hn h1 h2 y hy1 (by simpa using hy2)

/-- the occupancy charged to a task without work by `Sys.serialBoundD` (cluster not empty) -/
theorem boundE_occ_zero (env : SimEnv) (s0 : Sys) (hne : s0.machines ≠ []) :
    max 1 (env.boundDTot 0) ≤ boundDOcc env s0 0 0 := by
  cases hm : s0.machines with
  | nil => exact absurd hm hne
  | cons mm l =>
    have := boundD_tot_le_occ env s0 (mm := mm) (by rw [hm]; exact List.mem_cons_self) 0 0
    simp only [Nat.zero_div, Nat.max_self] at this
    have h1 : 1 ≤ boundDOcc env s0 0 0 := by unfold boundDOcc; omega
    omega

/-- **Under `BoundEPDurOk` the delayed plan bound is within `Sys.serialBoundD`** (cluster not empty). -/
theorem boundEP_serial_le_serialD {env : SimEnv} {s0 : Sys} (h : BoundEPDurOk env s0)
    (hne : s0.machines ≠ []) : boundEP_serial env s0 ≤ Sys.serialBoundD env s0 := by
  unfold boundEP_serial Sys.serialBoundD
  simp only [bound_ar_foldl_sum]
  apply Nat.add_le_add_left
  apply bound_ar_sum_map_le
  intro o ho
  apply Nat.add_le_add_left
  apply bound_ar_sum_map_le
  intro n hn
  by_cases hz : n.2.1 = 0 ∧ n.2.2 = 0
  · rw [if_pos hz]
    have a1 := boundE_planTot_le h ho hn hz.1 hz.2
    have a2 := boundE_occ_zero env s0 hne
    rw [hz.1, hz.2]
    omega
  · rw [if_neg hz]

theorem boundEP_durOk_of_zero {env : SimEnv} {s0 : Sys} (h : BoundEPDurZero env s0) : BoundEPDurOk env s0 := by
  intro o ho n hn h1 h2 x hx hxn
  rw [h o ho n hn h1 h2 x hx hxn]
  omega

/-- without a delay model `BoundEPDurOk` is `BoundPDurOk` -/
theorem boundEP_durOk_nodelay {env : SimEnv} (h1 : env.delayTable = []) (h2 : env.delayScript = [])
    (s0 : Sys) : BoundEPDurOk env s0 ↔ BoundPDurOk env s0 := by
  unfold BoundEPDurOk BoundPDurOk
  simp only [boundD_tot_nodelay h1 h2]
  constructor
  · intro h o ho n hn a b x hx hxn
    have := h o ho n hn a b x hx hxn
    omega
  · intro h o ho n hn a b x hx hxn
    have := h o ho n hn a b x hx hxn
    omega

end Topsim
