/-
  Live15b — the telescope's block under `OneAdmission`: it does not touch the cluster and admits
  at most ONE observation, whose ingest demand fits the machines available (the admission test
  `Cluster.check_ingest_capacity`).
-/
import TopsimProofs.Live15a
import TopsimProofs.FinishRes3
import TopsimProofs.OnTime9

namespace Topsim

open KState Sys

namespace Sys

/-- H2 on a list of records -/
def OneAdmL (T M : Nat) (l : List Obs) : Prop :=
  ∀ a ∈ l, ∀ b ∈ l, a.id ≠ b.id → T < a.demand + b.demand ∨ M < a.ingestDemand + b.ingestDemand

theorem OneAdmL.keep {T M : Nat} {a b : Sys} (h : OneAdmL T M a.obs) (hk : ObsKeep a b) : OneAdmL T M b.obs := by
  intro x hx y hy hne
  have hx' : x.stat ∈ a.obs.map Obs.stat := by rw [← hk]; exact List.mem_map_of_mem hx
  have hy' : y.stat ∈ a.obs.map Obs.stat := by rw [← hk]; exact List.mem_map_of_mem hy
  obtain ⟨x0, hx0, ex⟩ := List.mem_map.mp hx'
  obtain ⟨y0, hy0, ey⟩ := List.mem_map.mp hy'
  simp only [Obs.stat, Prod.mk.injEq] at ex ey
  obtain ⟨e1, _, _, e4, _, e6⟩ := ex
  obtain ⟨f1, _, _, f4, _, f6⟩ := ey
  have := h x0 hx0 y0 hy0 (by rw [e1, f1]; exact hne)
  rw [e4, f4, e6, f6] at this
  exact this

-- F14: for any reservation counter `r`
theorem nco_clCheck {c : Cluster} {d M : Nat} {r : Int} (h : c.checkIngestCapacity d M r = true) :
    d ≤ c.available.length :=
  (clCheckIngestCapacity_true c d M r h).1

/-- the admission test, with what it establishes -/
theorem nco_check (s : Sys) (o : Obs) (s1 : Sys) (b : Bool) (h : s.checkIngestCapacity o = .ok (s1, b)) :
    (b = false ∧ s1 = s) ∨
    (b = true ∧ s1 = { s with provIngest := s.provIngest + o.ingestDemand } ∧
      o.ingestDemand ≤ s.cl.available.length ∧ s.provIngest + o.ingestDemand ≤ s.maxIngest) := by
  unfold checkIngestCapacity at h
  split at h
  · simp at h
  · rename_i bc _
    split at h
    · rename_i h1
      split at h
      · rename_i h2
        simp only [Except.ok.injEq, Prod.mk.injEq] at h
        obtain ⟨e1, e2⟩ := h
        subst e2
        cases bc with
        | false => left; exact ⟨rfl, by simpa using e1.symm⟩
        | true => right; exact ⟨rfl, by simpa using e1.symm, nco_clCheck h1, h2⟩
      · simp only [Except.ok.injEq, Prod.mk.injEq] at h
        left; exact ⟨h.2.symm, h.1.symm⟩
    · simp only [Except.ok.injEq, Prod.mk.injEq] at h
      left; exact ⟨h.2.symm, h.1.symm⟩

theorem nco_mem_updObs {s : Sys} {oid : Oid} {f : Obs → Obs} {x : Obs} (hx : x ∈ s.obs) (hne : x.id ≠ oid) :
    x ∈ (s.updObs oid f).obs := by
  simp only [updObs, List.mem_map]
  exact ⟨x, hx, by rw [if_neg hne]⟩

theorem nco_mem_updObs_self {s : Sys} {oid : Oid} {f : Obs → Obs} {x : Obs} (hx : x ∈ s.obs) (he : x.id = oid) :
    f x ∈ (s.updObs oid f).obs := by
  simp only [updObs, List.mem_map]
  exact ⟨x, hx, by rw [if_pos he]⟩

/-- one visit of the admission loop: nothing is created, or the visited observation is admitted
after the array test and the ingest-capacity test -/
theorem nco_visit (n : Nat) (s : Sys) (oid : Oid) (r : Sys × Option Err)
    (hr : telescopeVisit n (s, none) oid = r) :
    r.1.maxIngest = s.maxIngest ∧ (∀ x ∈ s.obs, x.id ≠ oid → x ∈ r.1.obs) ∧
    ((r.1.nextPid = s.nextPid ∧ r.1.procs = s.procs ∧ r.1.provIngest = s.provIngest ∧
        r.1.admitted = s.admitted) ∨
     (∃ o, s.obs? oid = some o ∧ o.status = .waiting ∧
        (o.demand : Int) ≤ (s.totalArrays : Int) - s.telUse ∧
        o.ingestDemand ≤ s.cl.available.length ∧ s.provIngest + o.ingestDemand ≤ s.maxIngest ∧
        r.1.provIngest = s.provIngest + o.ingestDemand ∧ r.1.nextPid = s.nextPid + 1 ∧
        r.1.procs = s.procs ++ [{ pid := s.nextPid, k := .allocIngest oid 0, wake := (n : Time) }] ∧
        r.1.admitted = s.admitted ++ [oid] ∧ ({ o with ast := some n } : Obs) ∈ r.1.obs)) := by
  subst hr
  unfold telescopeVisit
  simp only
  cases hob : s.obs? oid with
  | none => exact ⟨rfl, fun x hx _ => hx, Or.inl ⟨rfl, rfl, rfl, rfl⟩⟩
  | some o =>
    simp only
    by_cases hready : o.isReady n ((s.totalArrays : Int) - s.telUse) = true
    · simp only [hready, if_true]
      obtain ⟨_, hr2, hr3⟩ := isReady_true hready
      cases hc : s.checkIngestCapacity o with
      | error e => exact ⟨rfl, fun x hx _ => hx, Or.inl ⟨rfl, rfl, rfl, rfl⟩⟩
      | ok r =>
        obtain ⟨s', b⟩ := r
        rcases nco_check s o s' b hc with ⟨hb, hs'⟩ | ⟨hb, hs', h1, h2⟩
        · subst hb; subst hs'
          exact ⟨rfl, fun x hx _ => hx, Or.inl ⟨rfl, rfl, rfl, rfl⟩⟩
        · subst hb; subst hs'
          simp only
          obtain ⟨hom, hoid⟩ := obs_mem_of_obs? hob
          refine ⟨rfl, ?_, Or.inr ⟨o, rfl, hr3, hr2, h1, h2, rfl, rfl, ?_, rfl, ?_⟩⟩
          · intro x hx hne
            show x ∈ (Sys.updObs _ oid _).obs
            exact nco_mem_updObs hx hne
          · simp [spawn, updObs, addTel]
          · show _ ∈ (Sys.updObs _ oid (fun r => { r with ast := some n })).obs
            exact nco_mem_updObs_self (f := fun r => { r with ast := some n }) hom hoid
    · simp only [hready, Bool.false_eq_true, if_false]
      by_cases hfin : o.isFinishedAt n s.telStatus = true
      · simp only [hfin, if_true]
        refine ⟨rfl, ?_, Or.inl ⟨rfl, rfl, rfl, rfl⟩⟩
        intro x hx hne
        show x ∈ (Sys.updObs _ oid _).obs
        exact nco_mem_updObs hx hne
      · rw [if_neg hfin]
        exact ⟨rfl, fun x hx _ => hx, Or.inl ⟨rfl, rfl, rfl, rfl⟩⟩

theorem nco_visit_err (n : Nat) (s : Sys) (e : Err) (oid : Oid) :
    telescopeVisit n (s, some e) oid = (s, some e) := by
  unfold telescopeVisit; rfl

/-- what the visits so far have created, relative to the table `(P, N)` before the loop: nothing,
or the supervisor of one observation `o1` — admitted, still WAITING, not to be visited again, its
ingest demand covered by the counter and by the `A` machines available -/
def AdmSt (n : Nat) (P : List Proc) (N : Nat) (A : Nat) (l : List Oid) (s : Sys) : Prop :=
  (s.procs = P ∧ s.nextPid = N) ∨
  (∃ o1 r1, o1 ∉ l ∧ r1 ∈ s.obs ∧ r1.id = o1 ∧ r1.status = .waiting ∧ o1 ∈ s.admitted ∧
     (r1.ingestDemand : Int) ≤ s.provIngest ∧ r1.ingestDemand ≤ A ∧
     s.procs = P ++ [{ pid := N, k := .allocIngest o1 0, wake := (n : Time) }] ∧ s.nextPid = N + 1)

theorem nco_telFold (n : Nat) (P : List Proc) (N A : Nat) (l : List Oid) (hl : l.Nodup)
    (s : Sys) (err : Option Err) (hcl : s.cl.available.length = A) (hacct : TelAcct s)
    (hnd : (l.foldl (telescopeVisit n) (s, err)).1.admitted.Nodup)
    (hone : OneAdmL s.totalArrays s.maxIngest s.obs) (hp0 : 0 ≤ s.provIngest)
    (hadm : AdmSt n P N A l s) :
    AdmSt n P N A [] (l.foldl (telescopeVisit n) (s, err)).1 := by
  induction l generalizing s err with
  | nil => exact hadm
  | cons x rest ih =>
    rw [List.nodup_cons] at hl
    simp only [List.foldl_cons] at hnd ⊢
    cases err with
    | some e =>
      rw [nco_visit_err] at hnd ⊢
      refine ih hl.2 s (some e) hcl hacct hnd hone hp0 ?_
      rcases hadm with h | ⟨o1, r1, h1, h2⟩
      · exact Or.inl h
      · exact Or.inr ⟨o1, r1, fun hh => h1 (List.mem_cons_of_mem _ hh), h2⟩
    | none =>
      -- one visit
      obtain ⟨t, hstep⟩ := telescopeVisit_step n (s, none) x
      have hclq : (telescopeVisit n (s, none) x).1.cl = s.cl := telescopeVisit_clq n (s, none) x
      have hkeep : ObsKeep s (telescopeVisit n (s, none) x).1 := telStep_keep hstep
      obtain ⟨L, hrun⟩ := telescopeFold_run n rest (telescopeVisit n (s, none) x)
      have hnd1 : (telescopeVisit n (s, none) x).1.admitted.Nodup := by
        obtain ⟨t', ht'⟩ := telRun_admitted_prefix hrun
        rw [← ht'] at hnd
        exact (List.nodup_append.mp hnd).1
      have hacct1 : TelAcct (telescopeVisit n (s, none) x).1 := TelAcct.telStep (acc := (s, none)) hacct hstep hnd1
      have hta : (telescopeVisit n (s, none) x).1.totalArrays = s.totalArrays := by
        cases hstep with
        | quiet _ _ _ _ _ _ _ h => exact h
        | start _ _ _ _ _ _ _ _ _ _ _ _ _ h => exact h
        | finish _ _ _ _ _ _ _ _ _ _ _ _ _ _ _ _ h => exact h
      obtain ⟨hmi, hobs, hcase⟩ := nco_visit n s x _ rfl
      refine ih hl.2 (telescopeVisit n (s, none) x).1 (telescopeVisit n (s, none) x).2
        (by rw [hclq]; exact hcl) hacct1 hnd ?_ ?_ ?_
      · rw [hta, hmi]; exact hone.keep hkeep
      · rcases hcase with ⟨_, _, h3, _⟩ | ⟨o, _, _, _, _, _, h3, _⟩
        · rw [h3]; exact hp0
        · rw [h3]; exact Int.add_nonneg hp0 (Int.natCast_nonneg _)
      · rcases hcase with ⟨c1, c2, c3, c4⟩ | ⟨o, hob, hw, hdem, hfit, hcnt, c3, c1, c2, c4, hmem⟩
        · -- nothing created by this visit
          rcases hadm with ⟨a1, a2⟩ | ⟨o1, r1, b1, b2, b3, b4, b5, b6, b7, b8, b9⟩
          · exact Or.inl ⟨c2.trans a1, c1.trans a2⟩
          · refine Or.inr ⟨o1, r1, fun hh => b1 (List.mem_cons_of_mem _ hh), ?_, b3, b4, ?_, ?_, b7, ?_, ?_⟩
            · apply hobs r1 b2
              rw [b3]; intro e; exact b1 (by rw [e]; exact List.mem_cons_self)
            · rw [c4]; exact b5
            · rw [c3]; exact b6
            · rw [c2]; exact b8
            · rw [c1]; exact b9
        · -- `x` is admitted by this visit
          obtain ⟨hom, hoid⟩ := obs_mem_of_obs? hob
          rcases hadm with ⟨a1, a2⟩ | ⟨o1, r1, b1, b2, b3, b4, b5, b6, b7, b8, b9⟩
          · refine Or.inr ⟨x, { o with ast := some n }, hl.1, hmem, hoid, hw, ?_, ?_, ?_, ?_, ?_⟩
            · rw [c4]; simp
            · rw [c3]; show (o.ingestDemand : Int) ≤ s.provIngest + o.ingestDemand; omega
            · show o.ingestDemand ≤ A; rw [← hcl]; exact hfit
            · rw [c2, a1, a2]
            · rw [c1, a2]
          · -- a second admission contradicts H2
            exfalso
            have hne : r1.id ≠ o.id := by
              rw [b3, hoid]; intro e; exact b1 (by rw [e]; exact List.mem_cons_self)
            have huse : (r1.demand : Int) ≤ s.telUse := by
              have h1 := useL_ge s.admitted s.obs b2
              have h2 : useC s.admitted r1 = (r1.demand : Int) := by
                unfold useC; rw [if_pos]; exact ⟨by rw [b3]; exact b5, by rw [b4]; simp⟩
              rw [hacct.use]; omega
            rcases hone r1 b2 o hom hne with h | h
            · omega
            · omega

/-- **The telescope's block admits at most one observation**, and the cluster is not touched. -/
theorem nco_telescopeBlock (s : Sys) (now : Time) (hacct : TelAcct s)
    (hnd : (s.telescopeBlock now).1.admitted.Nodup)
    (hone : OneAdmL s.totalArrays s.maxIngest s.obs) (hp0 : 0 ≤ s.provIngest) :
    AdmSt (natNow now) s.procs s.nextPid s.cl.available.length [] (s.telescopeBlock now).1 := by
  unfold telescopeBlock at hnd ⊢
  split
  · exact Or.inl ⟨rfl, rfl⟩
  · rename_i hall
    simp only [hall, Bool.false_eq_true, if_false] at hnd
    simp only
    have key := nco_telFold (natNow now) s.procs s.nextPid s.cl.available.length (s.obs.map (·.id))
      hacct.nodup
      { s with telEvents := [],
               telDelayed := if s.schedDelayed ∧ !s.telDelayed then true else s.telDelayed } none
      rfl ⟨hacct.nodup, hacct.use, hacct.stat, hacct.dem, hacct.astAdm, hacct.aiAdm⟩
    split
    all_goals
      rename_i heq
      simp only [heq] at hnd
      have h := congrArg Prod.fst heq
      simp only at h
      rw [← h]
      exact key (by rw [h]; exact hnd) hone hp0 (Or.inl ⟨rfl, rfl⟩)

end Sys
end Topsim
