/-
  BufTraj2 — the only block that adds to `hot.finished` is the `allocate_tasks`
  block that removes an observation; it frees exactly the observation's size
  and changes no other counter of the buffer.
-/
import TopsimProofs.BufTraj1

namespace Topsim
namespace Sys

/-- what `HotBuffer.remove` does, every field -/
theorem remove_full (b : Buffer) (o : Oid) :
    (b.remove o).1 = b ∨
    (o ∈ b.hot.scheduled ∧ (b.remove o).1.hot.cur = b.hot.cur + b.sizeOf o ∧
      (b.remove o).1.hot.finished = b.hot.finished ++ [o] ∧
      (b.remove o).1.hot.scheduled = b.hot.scheduled.erase o ∧
      (b.remove o).1.hot.total = b.hot.total ∧ (b.remove o).1.hot.stored = b.hot.stored ∧
      (b.remove o).1.hot.transfer = b.hot.transfer ∧ (b.remove o).1.hot.maxRate = b.hot.maxRate ∧
      (b.remove o).1.cold = b.cold ∧ (b.remove o).1.size = b.size ∧ (b.remove o).1.dltt = b.dltt ∧
      (b.remove o).1.storedTimes = b.storedTimes ∧ (b.remove o).1.waiting = b.waiting) := by
  unfold Buffer.remove
  split
  · rename_i h; exact Or.inr ⟨h, rfl, rfl, rfl, rfl, rfl, rfl, rfl, rfl, rfl, rfl, rfl, rfl⟩
  · exact Or.inl rfl

/-- every block keeps `hot.finished`, except the `allocate_tasks` block whose effect on the
buffer is `HotBuffer.remove` -/
theorem block_finished_cases (s : Sys) (p : Proc) (orc : Oracle) :
    (s.block p orc).1.buf.hot.finished = s.buf.hot.finished ∨
    ∃ o, (s.block p orc).1.buf = (s.buf.remove o).1 := by
  have quiet : p.k.tag ≠ "schedLoop" → p.k.tag ≠ "ingestStream" → p.k.tag ≠ "allocTasks" →
      p.k.tag ≠ "hot2cold" → p.k.tag ≠ "cold2hot" →
      (s.block p orc).1.buf.hot.finished = s.buf.hot.finished ∨ ∃ o, (s.block p orc).1.buf = (s.buf.remove o).1 :=
    fun h1 h2 h3 h4 h5 => Or.inl (by rw [block_buf s p orc h1 h2 h3 h4 h5])
  cases hk : p.k with
  | monitor => exact quiet (by simp [hk, PK.tag]) (by simp [hk, PK.tag]) (by simp [hk, PK.tag]) (by simp [hk, PK.tag]) (by simp [hk, PK.tag])
  | telescope => exact quiet (by simp [hk, PK.tag]) (by simp [hk, PK.tag]) (by simp [hk, PK.tag]) (by simp [hk, PK.tag]) (by simp [hk, PK.tag])
  | clusterLoop => exact quiet (by simp [hk, PK.tag]) (by simp [hk, PK.tag]) (by simp [hk, PK.tag]) (by simp [hk, PK.tag]) (by simp [hk, PK.tag])
  | bufferLoop => exact quiet (by simp [hk, PK.tag]) (by simp [hk, PK.tag]) (by simp [hk, PK.tag]) (by simp [hk, PK.tag]) (by simp [hk, PK.tag])
  | allocIngest o tl => exact quiet (by simp [hk, PK.tag]) (by simp [hk, PK.tag]) (by simp [hk, PK.tag]) (by simp [hk, PK.tag]) (by simp [hk, PK.tag])
  | provIngest o d => exact quiet (by simp [hk, PK.tag]) (by simp [hk, PK.tag]) (by simp [hk, PK.tag]) (by simp [hk, PK.tag]) (by simp [hk, PK.tag])
  | allocTask t m preds obs ing ret => exact quiet (by simp [hk, PK.tag]) (by simp [hk, PK.tag]) (by simp [hk, PK.tag]) (by simp [hk, PK.tag]) (by simp [hk, PK.tag])
  | doWork t m preds ph tot => exact quiet (by simp [hk, PK.tag]) (by simp [hk, PK.tag]) (by simp [hk, PK.tag]) (by simp [hk, PK.tag]) (by simp [hk, PK.tag])
  | schedLoop =>
    have hb' : s.block p orc = ((s.schedLoopBlock p.wake orc).1, p.k, (s.schedLoopBlock p.wake orc).2) := by
      unfold block; simp only [hk]
    left
    rw [hb']
    exact congrArg (·.2.2.2.1) (schedLoopBlock_bq s p.wake orc)
  | ingestStream o tl =>
    have hb' : s.block p orc = s.ingestStreamBlock p.wake p.pc o tl := by
      unfold block; simp only [hk]
    left
    rw [hb']
    exact (ingestStreamBlock_buf s p.wake p.pc o tl).2.1
  | allocTasks o sc pa po fn =>
    have hb' : s.block p orc = s.allocTasksBlock p.wake orc p.pc o sc pa po fn := by
      unfold block; simp only [hk]
    rw [hb']
    rcases allocTasksBlock_bufCases s p.wake orc p.pc o sc pa po fn with e | e
    · left; rw [e]
    · right; exact ⟨o, e⟩
  | hot2cold cur =>
    have hb' : s.block p orc = s.hot2coldBlock p.wake cur := by
      unfold block; simp only [hk]
    left
    rw [hb']
    exact (hot2coldBlock_schedfin s p.wake cur).2
  | cold2hot cur =>
    have hb' : s.block p orc = s.cold2hotBlock p.wake cur := by
      unfold block; simp only [hk]
    left
    rw [hb']
    exact (cold2hotBlock_schedfin s p.wake cur).2

/-- the buffer after one `resume`, whatever the pid -/
theorem resume_buf_cases (s : Sys) (pid : Nat) (orc : Oracle) :
    (s.resume pid orc).1.buf = s.buf ∨
    ∃ p, s.proc? pid = some p ∧ p.alive = true ∧ (s.resume pid orc).1.buf = (s.block p orc).1.buf := by
  cases hp : s.proc? pid with
  | none => left; unfold resume; simp only [hp]
  | some p =>
    by_cases ha : p.alive = true
    · exact Or.inr ⟨p, rfl, ha, resume_buf s pid orc p hp ha⟩
    · left; unfold resume; simp [hp, ha]

theorem removed_frees_exact (s : Sys) (pid : Nat) (orc : Oracle) (o : Oid)
    (hbefore : o ∉ s.buf.hot.finished) (hafter : o ∈ (s.resume pid orc).1.buf.hot.finished) :
    o ∈ s.buf.hot.scheduled ∧
    (s.resume pid orc).1.buf.hot.cur = s.buf.hot.cur + s.buf.sizeOf o ∧
    (s.resume pid orc).1.buf.hot.finished = s.buf.hot.finished ++ [o] ∧
    (s.resume pid orc).1.buf.hot.scheduled = s.buf.hot.scheduled.erase o ∧
    (s.resume pid orc).1.buf.hot.total = s.buf.hot.total ∧
    (s.resume pid orc).1.buf.hot.stored = s.buf.hot.stored ∧
    (s.resume pid orc).1.buf.cold = s.buf.cold ∧
    (s.resume pid orc).1.buf.size = s.buf.size := by
  rcases resume_buf_cases s pid orc with e | ⟨p, _, _, e⟩
  · rw [e] at hafter; exact absurd hafter hbefore
  · rw [e] at hafter ⊢
    rcases block_finished_cases s p orc with e1 | ⟨o', e1⟩
    · rw [e1] at hafter; exact absurd hafter hbefore
    · rw [e1] at hafter ⊢
      rcases remove_full s.buf o' with e2 | ⟨h1, h2, h3, h4, h5, h6, _, _, h9, h10, _⟩
      · rw [e2] at hafter; exact absurd hafter hbefore
      · have : o = o' := by
          rw [h3] at hafter
          rcases List.mem_append.mp hafter with h | h
          · exact absurd h hbefore
          · simpa using h
        subst this
        exact ⟨h1, h2, h3, h4, h5, h6, h9, h10⟩

end Sys
end Topsim
