/-
  LiveB11 — BatchProcessing: the declarations of Live11 that depend on the configuration hypotheses,
  for `LiveCfgB` / `NcCfgB` (`s0.alg = .batch …`).  Generated from Live11.lean by renaming (suffix `_B`);
  the algorithm-dependent ones are rewritten (see the comments).
-/
import TopsimProofs.Live11
import TopsimProofs.LiveB5

namespace Topsim
open KState Sys

theorem liveKernel_B {env : SimEnv} {s0 : Sys} (C : LiveCfgB env s0) (hh0 : s0.halted = false) :
    LiveKernel env s0 where
  run := fun n => live_simRun env s0 C.hw hh0 n (C.nr n)
  next := fun n pid p hp ha => live_next_resume env s0 C.hw C.nr n pid p hp ha
  div := fun n T => by
    obtain ⟨n', hle, h⟩ := live_time_div env s0 C.hw n T
    refine ⟨n', hle, ?_⟩
    rcases h with h | h
    · exact absurd (C.nr n') h
    · exact h
  minMono := fun n m T h hT => live_heap_min_mono env s0 C.hw n m h T hT
  pidIdx := fun n => live_pidIdx env s0 C.hw n
  persist := fun n m h => live_procs_prefix env s0 n m h
end Topsim
