/-
  ResOr2 — the reservation invariant `RI` (FinishRes4) under the block of an `allocate_tasks`
  process when the algorithm is a user algorithm (`alg = .oracle`) that keeps to `ResOrOk`; `RI`
  along every `ReachResv` run; no reservation is left when the simulation has finished.
-/
import TopsimProofs.ResOr1

namespace Topsim
namespace Sys

open Cluster

/-! ### plan tasks that are not FINISHED survive the first half of the iteration -/

theorem resOr_planTasks_map {s s' : Sys} (oid : Oid) (F : Plan → Plan) (hobs : ∀ pl, (F pl).obs = pl.obs)
    (hpl : s'.plans = s.plans.map (fun pl => if pl.obs = oid then F pl else pl)) (P : Tid → Prop)
    (hF : ∀ pl : Plan, ∀ t ∈ pl.tasks, P t → t ∈ (F pl).tasks) {o : Oid} {t : Tid}
    (ht : t ∈ planTasks s o) (hP : P t) : t ∈ planTasks s' o := by
  unfold planTasks at ht ⊢
  rw [plan?_map s s' oid F hobs hpl o]
  cases hpo : s.plan? o with
  | none => rw [hpo] at ht; simp at ht
  | some pl =>
    rw [hpo] at ht
    simp only [Option.map_some]
    split
    · exact hF pl t ht hP
    · exact ht

theorem resOr_planTasks_pruned (s : Sys) (now : Time) (pc : Nat) (oid : Oid) {o : Oid} {t : Tid}
    (ht : t ∈ planTasks s o) (hne : tstat s t ≠ .finished) :
    t ∈ planTasks ((atStart s now pc oid).updateCurrentPlan oid) o := by
  have h1 : t ∈ planTasks (atStart s now pc oid) o := by
    rcases atStart_plans s now pc oid with hpl | hpl
    · rw [planTasks_of_plans hpl]; exact ht
    · exact resOr_planTasks_map (s := s) oid (fun p => { p with ast := some (natNow now) }) (fun _ => rfl)
        hpl (fun _ => True) (fun _ _ h _ => h) ht trivial
  have hne1 : tstat (atStart s now pc oid) t ≠ .finished := by rw [atStart_tstat]; exact hne
  generalize atStart s now pc oid = a at h1 hne1
  have hpl := updateCurrentPlan_plans a oid
  cases hpo : a.plan? oid with
  | none =>
    rw [hpo] at hpl
    rw [planTasks_of_plans hpl]; exact h1
  | some pl0 =>
    rw [hpo] at hpl
    exact resOr_planTasks_map (s := a) oid
      (fun p => { p with tasks := p.tasks.filter (fun t => (a.taskView t).status ≠ .finished) })
      (fun _ => rfl) hpl (fun t => tstat a t ≠ .finished)
      (fun pl t ht hP => List.mem_filter.mpr ⟨ht, by simpa [tstat] using hP⟩) h1 hne1

/-! ### after the user algorithm has run -/

/-- after the oracle algorithm: its reservation calls and its proposals (the counterpart of
`RI.afterBatch`) -/
theorem resOr_afterOracle {s1 : Sys} (h : RI s1) {U : List Tid} (hinv : Cluster.Inv s1.cl U) {p : Proc}
    (hp : p ∈ s1.procs) (ha : p.alive = true) {oid : Oid} {sc pa : List (Tid × Mid)} {po : List Tid}
    (hk : p.k = .allocTasks oid sc pa po false) (plan : Plan) (hplan : s1.plan? oid = some plan)
    (orc : Oracle) (halg : s1.alg = .oracle)
    (hpre : ∀ op ∈ orc.pre, (∃ size o, op = .provBatch size o ∧ o ∈ s1.queue) ∨ ∃ o, op = .relBatch o)
    (hprop : ∀ pr ∈ orc.proposals, pr.1 ∈ planTasks s1 oid ∧ tstat s1 pr.1 = .unscheduled)
    (out : AlgOut) (hrun : s1.runAlgorithm orc plan sc po = .ok out) :
    RI (atS3 s1 out oid) ∧ (atS3 s1 out oid).cl.runOn = s1.cl.runOn ∧
    (out.status = .finished → plan.tasks = []) ∧
    (dictKeys out.schedule).Nodup ∧
    (∀ t ∈ dictKeys out.schedule, t ∈ planTasks s1 oid ∧ tstat s1 t = .unscheduled) ∧
    (dictKeys (atS3 s1 out oid).cl.idle).Nodup := by
  unfold runAlgorithm at hrun
  rw [halg] at hrun
  simp only at hrun
  injection hrun with hrun
  obtain ⟨hplm, hpobs⟩ := plan?_mem hplan
  obtain ⟨slnd, slk⟩ := h.sl p hp ha oid sc pa po hk
  -- the cluster after the reservation calls
  obtain ⟨hcl, hinv'⟩ := resOr_ops (Q := s1.queue) (c0 := s1.cl) orc.pre hpre s1.cl
    ⟨h.keyNE, rfl, h.keyQ⟩ hinv
  have e_cl : out.cl = orc.pre.foldl (fun c op => (c.applyOp op).1) s1.cl := by rw [← hrun]
  have e_sc : out.schedule = orc.proposals.foldl (fun d p => dictSet d p.1 p.2) sc := by rw [← hrun]
  have e_st : out.status = Alg.finishStatus plan plan.status := by rw [← hrun]
  rw [← e_cl] at hcl hinv'
  obtain ⟨l1, l2, l3⟩ := hcl
  have l4 := hinv'.keys
  obtain ⟨k1, k2⟩ := resOr_sched orc.proposals sc
  rw [← e_sc] at k1 k2
  have hfin : out.status = .finished → plan.tasks = [] := by
    intro hf
    rw [e_st] at hf
    unfold Alg.finishStatus at hf
    split at hf
    · rename_i h0; exact List.length_eq_zero_iff.mp h0
    · exact h.pf plan hplm hf
  have hsk : ∀ t ∈ dictKeys out.schedule, t ∈ planTasks s1 oid ∧ tstat s1 t = .unscheduled := by
    intro t ht
    rcases k1 t ht with h1 | ⟨pr, hpr, e⟩
    · exact slk t h1
    · rw [← e]; exact hprop pr hpr
  refine ⟨?_, by rw [atS3_cl]; exact l2, hfin, k2 slnd, hsk, by rw [atS3_cl]; exact l4⟩
  constructor
  · rw [atS3_queue]; exact h.qNodup
  · intro q hq hqa o sc' pa' po' hqk
    rw [atS3_procs] at hq
    obtain ⟨a1, a2⟩ := h.atsQ q hq hqa o sc' pa' po' hqk
    refine ⟨by rw [atS3_queue]; exact a1, ?_⟩
    rw [plan?_map s1 (atS3 s1 out oid) oid (fun p => { p with status := out.status }) (fun _ => rfl)
      (atS3_plans s1 out oid) o]
    cases hpo : s1.plan? o with
    | none => rw [hpo] at a2; simp at a2
    | some pl => rfl
  · rw [atS3_procs]; exact h.atsUniq
  · intro q hq hqa o sc' pa' po' hqk
    rw [atS3_procs] at hq
    obtain ⟨a1, a2⟩ := h.sl q hq hqa o sc' pa' po' hqk
    exact ⟨a1, fun t ht => ⟨by rw [atS3_planTasks]; exact (a2 t ht).1, by rw [atS3_tstat]; exact (a2 t ht).2⟩⟩
  · intro pl' hpl' t ht
    rw [atS3_plans] at hpl'
    obtain ⟨pl, hpl0, rfl⟩ := List.mem_map.mp hpl'
    have : ∃ c n, t = Tid.wf pl.obs c n := by
      apply h.pt pl hpl0 t
      split at ht <;> exact ht
    split <;> exact this
  · intro pl' hpl' hf
    rw [atS3_plans] at hpl'
    obtain ⟨pl, hpl0, rfl⟩ := List.mem_map.mp hpl'
    by_cases e : pl.obs = oid
    · simp only [e, if_true] at hf ⊢
      have : pl = plan := eq_of_map_nodup h.pn hpl0 hplm (e.trans hpobs.symm)
      rw [this]; exact hfin hf
    · simp only [e, if_false] at hf ⊢
      exact h.pf pl hpl0 hf
  · rw [atS3_plans, List.map_map]
    have : (fun pl : Plan => pl.obs) ∘ (fun pl => if pl.obs = oid then { pl with status := out.status } else pl)
        = fun pl => pl.obs := by
      funext pl; simp only [Function.comp]; split <;> rfl
    rw [this]; exact h.pn
  · intro q hq hqa t m preds o ret hqk
    rw [atS3_procs] at hq
    obtain ⟨a1, a2⟩ := h.st q hq hqa t m preds o ret hqk
    exact ⟨by rw [atS3_tstat]; exact a1, by rw [atS3_planTasks]; exact a2⟩
  · rw [atS3_cl, atS3_procs, l2]; exact h.rc
  · intro o ho
    rw [atS3_cl] at ho
    rw [atS3_queue]
    exact l3 o ho
  · rw [atS3_cl]; exact l1

/-! ### the block of an `allocate_tasks` process -/

attribute [local irreducible] atS3 atStart Sys.updateCurrentPlan processCurrentSchedule in
theorem resOr_ri_allocTasks {s : Sys} (hs : SInv s) (h : RI s) {p : Proc} (hp : p ∈ s.procs) (ha : p.alive = true)
    (orc : Oracle) {oid : Oid} {sc pa : List (Tid × Mid)} {po : List Tid} {fn : Bool}
    (hk : p.k = .allocTasks oid sc pa po fn) (halg : s.alg = .oracle)
    (hok : fn = false →
      (∀ op ∈ orc.pre, (∃ size o, op = .provBatch size o ∧ o ∈ s.queue) ∨ ∃ o, op = .relBatch o) ∧
      (∀ pr ∈ orc.proposals, pr.1 ∈ planTasks s oid ∧ tstat s pr.1 = .unscheduled)) :
    RI ((s.block p orc).1.updProc p.pid (fin (s.block p orc).2.1 (s.block p orc).2.2 p.wake)) := by
  have hpw := hs.pw
  obtain ⟨U, hU⟩ := hs.ci
  have hb : s.block p orc = s.allocTasksBlock p.wake orc p.pc oid sc pa po fn := by
    unfold block; simp only [hk]
  rw [hb]
  cases fn with
  | true =>
    rw [allocTasksBlock_fin]
    simp only
    -- a stopped process: nothing depends on it
    have hm := memSpec_updProc hpw hp [] (by simp) hpw (fin (.allocTasks oid sc pa po true) .done p.wake)
    refine h.step' hpw hp hm (by simp) rfl rfl ?_ ?_ ?_ ?_ ?_ ?_ ?_ ?_
    · intro q _ _ _ o sc1 pa1 po1 _ t _ hu; exact hu
    · intro o c n hf; exact Or.inl hf
    · intro q hq hqa o sc2 pa2 po2 hqk
      rcases hq with rfl | hq
      · simp at hqa
      · simp at hq
    · intro hqa; simp at hqa
    · intro q hq hqa t m preds o ret hqk
      rcases hq with rfl | hq
      · simp at hqa
      · simp at hq
    · exact rc_quiet h hpw hp hm rfl (by rw [hk]; simp [PK.tag])
    · exact h.keyQ
    · exact h.keyNE
  | false =>
    obtain ⟨hpreO, hprop⟩ := hok rfl
    have hpre : s.alg = .oracle → orc.preOk := by
      intro _ op hop
      rcases hpreO op hop with ⟨n, o, rfl, _⟩ | ⟨o, rfl⟩ <;> trivial
    have hpwX : PW (s.allocTasksBlock p.wake orc p.pc oid sc pa po false).1 :=
      (allocTasksBlock_pres _ _ _ hpre _ _ _ _ _ _).pw hpw
    rw [allocTasksBlock_eq] at hpwX ⊢
    obtain ⟨h1, e_procs, e_np, e_q, e_cl, e_alg, e_ts⟩ := h.pruned p.wake p.pc oid
    have hp1 : p ∈ ((atStart s p.wake p.pc oid).updateCurrentPlan oid).procs := by rw [e_procs]; exact hp
    have hpw1 : PW ((atStart s p.wake p.pc oid).updateCurrentPlan oid) :=
      ⟨by rw [e_procs]; exact hpw.nodup, by rw [e_procs, e_np]; exact hpw.lt⟩
    have hinv1 : Cluster.Inv ((atStart s p.wake p.pc oid).updateCurrentPlan oid).cl U := by rw [e_cl]; exact hU.inv
    have halg1 : ((atStart s p.wake p.pc oid).updateCurrentPlan oid).alg = .oracle := by rw [e_alg]; exact halg
    have hpre1 : ∀ op ∈ orc.pre, (∃ size o, op = .provBatch size o ∧
        o ∈ ((atStart s p.wake p.pc oid).updateCurrentPlan oid).queue) ∨ ∃ o, op = .relBatch o := by
      rw [e_q]; exact hpreO
    have hprop1 : ∀ pr ∈ orc.proposals,
        pr.1 ∈ planTasks ((atStart s p.wake p.pc oid).updateCurrentPlan oid) oid ∧
        tstat ((atStart s p.wake p.pc oid).updateCurrentPlan oid) pr.1 = .unscheduled := by
      intro pr hpr
      obtain ⟨g1, g2⟩ := hprop pr hpr
      exact ⟨resOr_planTasks_pruned s p.wake p.pc oid g1 (by rw [g2]; simp), by rw [e_ts]; exact g2⟩
    have hout := allocTasksIter_out (atStart s p.wake p.pc oid) p.wake orc oid sc pa po
    generalize (atStart s p.wake p.pc oid).allocTasksIter p.wake orc oid sc pa po = r at hout hpwX ⊢
    have hpw3 : ∀ out, PW (atS3 ((atStart s p.wake p.pc oid).updateCurrentPlan oid) out oid) := fun out =>
      ⟨by rw [atS3_procs]; exact hpw1.nodup, by rw [atS3_procs, atS3_nextPid]; exact hpw1.lt⟩
    cases hout with
    | noPlan _ =>
      refine h1.atsSimple hpw1 hp1 ha hk ?_ hpwX ?_ ?_ ?_ ?_ hinv1.keys _ _ rfl (fun hqa => by simp at hqa)
      · rfl
      · rfl
      · rfl
      · exact fun t => tstat_of_tasks rfl t
      · exact Or.inl rfl
    | algErr plan e _ _ =>
      refine h1.atsSimple hpw1 hp1 ha hk ?_ hpwX ?_ ?_ ?_ ?_ hinv1.keys _ _ rfl (fun hqa => by simp at hqa)
      · rfl
      · rfl
      · rfl
      · exact fun t => tstat_of_tasks rfl t
      · exact Or.inl rfl
    | finish plan out hplan hrun hemp hfin hrem hq =>
      obtain ⟨h3, _, g3, _, _, g6⟩ := resOr_afterOracle h1 hinv1 hp1 ha hk plan hplan orc halg1 hpre1 hprop1 out hrun
      have hempty : planTasks (atS3 ((atStart s p.wake p.pc oid).updateCurrentPlan oid) out oid) oid = [] := by
        rw [atS3_planTasks]; unfold planTasks; rw [hplan]; exact g3 hfin
      refine h3.atsFinish (hpw3 out) (by rw [atS3_procs]; exact hp1) ha hk ?_ hpwX ?_ ?_ ?_ ?_ g6
        hempty _ _ ⟨_, _, _, rfl⟩
      · rfl
      · rfl
      · rfl
      · exact fun t => tstat_of_tasks rfl t
      · rfl
    | finishBad plan out hplan hrun hemp hfin hrem hq =>
      obtain ⟨h3, _, _, _, _, g6⟩ := resOr_afterOracle h1 hinv1 hp1 ha hk plan hplan orc halg1 hpre1 hprop1 out hrun
      refine h3.atsSimple (hpw3 out) (by rw [atS3_procs]; exact hp1) ha hk ?_ hpwX ?_ ?_ ?_ ?_ g6 _ _ rfl
        (fun hqa => by simp at hqa)
      · rfl
      · rfl
      · rfl
      · exact fun t => tstat_of_tasks rfl t
      · exact Or.inr rfl
    | finishWait plan out hplan hrun hemp hfin hrem =>
      obtain ⟨h3, _, _, g4, g5, g6⟩ := resOr_afterOracle h1 hinv1 hp1 ha hk plan hplan orc halg1 hpre1 hprop1 out hrun
      refine h3.atsSimple (hpw3 out) (by rw [atS3_procs]; exact hp1) ha hk ?_ hpwX ?_ ?_ ?_ ?_ g6 _ _ rfl ?_
      · rfl
      · rfl
      · rfl
      · exact fun t => tstat_of_tasks rfl t
      · exact Or.inl rfl
      intro _ o sc2 pa2 po2 e
      simp only [PK.allocTasks.injEq] at e
      obtain ⟨rfl, rfl, _⟩ := e
      exact ⟨rfl, g4, fun t ht => ⟨by rw [atS3_planTasks]; exact (g5 t ht).1, by rw [atS3_tstat]; exact (g5 t ht).2⟩⟩
    | idle plan out hplan hrun hemp hnf =>
      obtain ⟨h3, _, _, g4, g5, g6⟩ := resOr_afterOracle h1 hinv1 hp1 ha hk plan hplan orc halg1 hpre1 hprop1 out hrun
      refine h3.atsSimple (hpw3 out) (by rw [atS3_procs]; exact hp1) ha hk ?_ hpwX ?_ ?_ ?_ ?_ g6 _ _ rfl ?_
      · rfl
      · rfl
      · rfl
      · exact fun t => tstat_of_tasks rfl t
      · exact Or.inl rfl
      intro _ o sc2 pa2 po2 e
      simp only [PK.allocTasks.injEq] at e
      obtain ⟨rfl, rfl, _⟩ := e
      exact ⟨rfl, g4, fun t ht => ⟨by rw [atS3_planTasks]; exact (g5 t ht).1, by rw [atS3_tstat]; exact (g5 t ht).2⟩⟩
    | alloc plan out y hplan hrun hemp hy =>
      obtain ⟨h3, _, _, g4, g5, _⟩ := resOr_afterOracle h1 hinv1 hp1 ha hk plan hplan orc halg1 hpre1 hprop1 out hrun
      exact h3.atsAlloc (hpw3 out) (by rw [atS3_procs]; exact hp1) ha hk p.wake out.schedule pa g4
        (fun t ht => ⟨by rw [atS3_planTasks]; exact (g5 t ht).1, by rw [atS3_tstat]; exact (g5 t ht).2⟩)
        hpwX out.pool y

end Sys
end Topsim
