/-
  Live15 — URGENT first.  Along every run of the simulator (`SimReach`, only `WFConfig`):

  * the heap entry of a live process that has not run its first block (`pc = 0`) is an
    `Initialize` event: URGENT (prio 0), at the least time of the heap;
  * the heap entry of a live process with `pc ≥ 1` is a timeout: NORMAL (prio 1);
  * among the URGENT entries the five loops of `Simulation.start()` (pids 0–4) come first, in
    creation order.

  Hence (`UrgInv.first`, `nc_urgent_first`): when a block starts and some live process still has
  `pc = 0`, the process that is resumed has `pc = 0` itself; a NORMAL block only ever starts in a
  state in which every live process has run its first block.
-/
import TopsimProofs.Live14

namespace Topsim

open KState Sys

namespace KState

theorem nco_pushInits_eid (ps : List Nat) (heap : List HEntry) (eid : Nat) (now : Time) (x : HEntry)
    (hx : x ∈ (pushInits heap eid now ps).1) :
    x ∈ heap ∨ (eid ≤ x.eid ∧ x.time = now ∧ x.prio = 0 ∧ x.pid ∈ ps) := by
  induction ps generalizing heap eid with
  | nil => exact Or.inl hx
  | cons p ps ih =>
    simp only [pushInits] at hx
    rcases ih _ _ hx with h | ⟨h0, h1, h2, h3⟩
    · rcases List.mem_append.mp h with h | h
      · exact Or.inl h
      · simp only [List.mem_singleton] at h
        subst h
        exact Or.inr ⟨Nat.le_refl _, rfl, rfl, List.mem_cons_self⟩
    · exact Or.inr ⟨by omega, h1, h2, List.mem_cons_of_mem _ h3⟩

end KState

/-- One kernel step, as seen by the order invariants: the popped entry `e` is least; either it is
the failure event of a dead process (the state only gets the flag, the heap only loses `e`), or one
block of the live process `p` of `e` runs, and every entry of the new heap is an old one, the
`Initialize` event of a new process (URGENT, at `e.time`, fresh insertion id, fresh pid), or the
timeout of `p` (NORMAL, not before `e.time`). -/
theorem nco_step_cases {env : SimEnv} {k k' : SimState} (h : IlHeapOk k)
    (hstep : k.step (simHandler env) = some k') :
    ∃ e, k.peek = some e ∧ e ∈ k.heap ∧ (∀ x ∈ k.heap, x.lt e = false) ∧
      ((k'.st = { k.st with halted := true } ∧ (∀ q, k.st.proc? e.pid = some q → q.alive = false) ∧
          ∀ x ∈ k'.heap, x ∈ k.heap.erase e) ∨
       (∃ p, k.st.proc? e.pid = some p ∧ p.alive = true ∧ e.time = p.wake ∧
          k'.st = (k.st.resume e.pid (env.oracle k.st)).1 ∧
          ∀ x ∈ k'.heap, x ∈ k.heap.erase e ∨
            (k.eid ≤ x.eid ∧ x.time = e.time ∧ x.prio = 0 ∧ k.st.nextPid ≤ x.pid) ∨
            (x.prio = 1 ∧ x.pid = e.pid ∧ e.time ≤ x.time))) := by
  cases hp : k.peek with
  | none => simp [KState.step, hp] at hstep
  | some e =>
    obtain ⟨he, hleast⟩ := peek_spec k e hp
    refine ⟨e, rfl, he, hleast, ?_⟩
    rw [step_eq (simHandler env) k e hp] at hstep
    have hdead : simHandler env k.st e.pid e.time = ({ k.st with halted := true }, [], none) →
        (k'.st = { k.st with halted := true } ∧ ∀ x ∈ k'.heap, x ∈ k.heap.erase e) := by
      intro this
      rw [this] at hstep
      simp only [pushInits] at hstep
      cases hstep
      exact ⟨rfl, fun x hx => hx⟩
    cases hpp : k.st.proc? e.pid with
    | none =>
      left
      have : simHandler env k.st e.pid e.time = ({ k.st with halted := true }, [], none) := by
        unfold simHandler; rw [hpp]
      exact ⟨(hdead this).1, fun q hq => (by cases hq), (hdead this).2⟩
    | some p =>
      cases ha : p.alive with
      | false =>
        left
        have : simHandler env k.st e.pid e.time = ({ k.st with halted := true }, [], none) := by
          unfold simHandler; rw [hpp]; simp [ha]
        exact ⟨(hdead this).1, fun q hq => (by cases hq; exact ha), (hdead this).2⟩
      | true =>
        right
        obtain ⟨hpm, hpid⟩ := proc?_some hpp
        have het : e.time = p.wake := h.time e he p hpm hpid ha
        obtain ⟨s1, s2, _⟩ := simHandler_live env k.st e.pid e.time p hpp ha
        have hinit : ∀ x ∈ (pushInits (k.heap.erase e) k.eid e.time
              (simHandler env k.st e.pid e.time).2.1).1,
            x ∈ k.heap.erase e ∨ (k.eid ≤ x.eid ∧ x.time = e.time ∧ x.prio = 0 ∧ k.st.nextPid ≤ x.pid) := by
          intro x hx
          rcases nco_pushInits_eid _ _ _ _ x hx with h1 | ⟨h0, h1, h2, h3⟩
          · exact Or.inl h1
          · right
            refine ⟨h0, h1, h2, ?_⟩
            rw [s2] at h3
            simp only [List.mem_map, List.mem_range] at h3
            obtain ⟨i, _, hi⟩ := h3
            omega
        refine ⟨p, rfl, ha, het, ?_⟩
        cases hy : (simHandler env k.st e.pid e.time).2.2 with
        | none =>
          simp only [hy] at hstep
          cases hstep
          refine ⟨s1, ?_⟩
          intro x hx
          rcases hinit x hx with h1 | h1
          · exact Or.inl h1
          · exact Or.inr (Or.inl h1)
        | some d =>
          have hd0 := simHandler_delay_nonneg env _ _ _ d hy
          simp only [hy] at hstep
          cases hstep
          refine ⟨s1, ?_⟩
          intro x hx
          rcases List.mem_append.mp hx with hx | hx
          · rcases hinit x hx with h1 | h1
            · exact Or.inl h1
            · exact Or.inr (Or.inl h1)
          · simp only [List.mem_singleton] at hx
            subst hx
            refine Or.inr (Or.inr ⟨rfl, rfl, ?_⟩)
            show e.time ≤ e.time + d
            grind

/-! ### the invariant -/

structure UrgInv (k : SimState) : Prop where
  /-- a live process before its first block waits URGENT at the least time of the heap; a live
  process past its first block waits NORMAL -/
  urg : ∀ x ∈ k.heap, ∀ p ∈ k.st.procs, p.pid = x.pid → p.alive = true →
    (p.pc = 0 → x.prio = 0 ∧ ∀ y ∈ k.heap, x.time ≤ y.time) ∧ (1 ≤ p.pc → x.prio = 1)
  /-- among the URGENT entries the five loops come first, in creation order -/
  ord : ∀ x ∈ k.heap, ∀ y ∈ k.heap, x.prio = 0 → y.prio = 0 → x.pid < 5 → x.pid < y.pid → x.eid < y.eid
  np : 5 ≤ k.st.nextPid

theorem UrgInv.collate {k : SimState} (h : UrgInv k) : UrgInv { k with st := k.st.collate } :=
  ⟨h.urg, h.ord, h.np⟩

theorem UrgInv.init (s0 : Sys) (hw : WFConfig s0) : UrgInv (SimState.start s0) := by
  obtain ⟨hprocs, hnp, _⟩ := hw.fresh
  obtain ⟨hh, _⟩ := SimState.start_heap s0
  have hst : (SimState.start s0).st = s0.start := rfl
  have hp : s0.start.procs =
      [{ pid := 0, k := .monitor, wake := 0 }, { pid := 1, k := .telescope, wake := 0 },
       { pid := 2, k := .clusterLoop, wake := 0 }, { pid := 3, k := .schedLoop, wake := 0 },
       { pid := 4, k := .bufferLoop, wake := 0 }] := by
    simp [start, spawn, hprocs, hnp]
  have hn : s0.start.nextPid = 5 := by simp [start, spawn, hnp]
  refine ⟨?_, ?_, ?_⟩
  · intro x hx p hp' hpid _
    have hall : ∀ y ∈ (SimState.start s0).heap, y.time = 0 ∧ y.prio = 0 := by
      intro y hy
      rw [hh] at hy
      simp only [List.mem_cons, List.not_mem_nil, or_false] at hy
      rcases hy with rfl | rfl | rfl | rfl | rfl <;> exact ⟨rfl, rfl⟩
    rw [hst, hp] at hp'
    simp only [List.mem_cons, List.not_mem_nil, or_false] at hp'
    refine ⟨fun _ => ⟨(hall x hx).2, fun y hy => ?_⟩, fun h1 => ?_⟩
    · rw [(hall x hx).1, (hall y hy).1]; exact Rat.le_refl
    · rcases hp' with rfl | rfl | rfl | rfl | rfl <;> simp at h1
  · intro x hx y hy _ _ _ hlt
    rw [hh] at hx hy
    simp only [List.mem_cons, List.not_mem_nil, or_false] at hx hy
    rcases hx with rfl | rfl | rfl | rfl | rfl <;> rcases hy with rfl | rfl | rfl | rfl | rfl <;>
      simp at hlt ⊢
  · rw [hst, hn]; exact Nat.le_refl _

theorem UrgInv.step (env : SimEnv) (k k' : SimState) (hs : SInv k.st) (h : IlHeapOk k)
    (inv : UrgInv k) (hstep : k.step (simHandler env) = some k') : UrgInv k' := by
  obtain ⟨e, hpk, he, hleast, hcase⟩ := nco_step_cases h hstep
  have hpw := hs.pw
  have hele : ∀ y ∈ k.heap, e.time ≤ y.time := by
    intro y hy
    have := hleast y hy
    rw [lt_false_iff] at this
    grind
  rcases hcase with ⟨hc, _, hheap⟩ | ⟨p, hpp, ha, het, hc, hheap⟩
  · -- a failure event
    refine ⟨?_, ?_, by rw [hc]; exact inv.np⟩
    · intro x hx q hq hpid hqa
      have hxk := List.mem_of_mem_erase (hheap x hx)
      have hq0 : q ∈ k.st.procs := by rw [hc] at hq; exact hq
      obtain ⟨i1, i2⟩ := inv.urg x hxk q hq0 hpid hqa
      exact ⟨fun h0 => ⟨(i1 h0).1, fun y hy => (i1 h0).2 y (List.mem_of_mem_erase (hheap y hy))⟩, i2⟩
    · intro x hx y hy
      exact inv.ord x (List.mem_of_mem_erase (hheap x hx)) y (List.mem_of_mem_erase (hheap y hy))
  · -- one block of the live process `p`
    obtain ⟨hpm, hpid⟩ := proc?_some hpp
    obtain ⟨m1, _, _⟩ := il_resume_procs_mem hpw hpp ha (env.oracle k.st)
    have hnotin : ∀ x ∈ k.heap.erase e, x.pid ≠ e.pid := by
      intro x hx hh
      have herase : (k.heap.erase e).map (·.pid) = (k.heap.map (·.pid)).erase e.pid :=
        map_erase_of_nodup (·.pid) k.heap e he h.uniq
      have hin : x.pid ∈ (k.heap.erase e).map (·.pid) := List.mem_map_of_mem hx
      rw [herase, hh] at hin
      exact ((List.Nodup.mem_erase_iff h.uniq).mp hin).1 rfl
    have hepid : e.pid < k.st.nextPid := h.lt e he
    -- every entry of the new heap is not before `e`
    have hge : ∀ y ∈ k'.heap, e.time ≤ y.time := by
      intro y hy
      rcases hheap y hy with h1 | ⟨_, h1, _, _⟩ | ⟨_, _, h1⟩
      · exact hele y (List.mem_of_mem_erase h1)
      · rw [h1]; exact Rat.le_refl
      · exact h1
    refine ⟨?_, ?_, ?_⟩
    · intro x hx q' hq' hqp hqa
      have hq'' : q' ∈ (k.st.resume e.pid (env.oracle k.st)).1.procs := by rw [← hc]; exact hq'
      rcases hheap x hx with h1 | ⟨_, h1, h2, h3⟩ | ⟨h1, h2, _⟩
      · -- an old entry
        have hxk := List.mem_of_mem_erase h1
        have hxne := hnotin x h1
        have hxlt := h.lt x hxk
        rcases m1 q' hq'' with rfl | ⟨hold, _⟩ | ⟨_, _, _, w4⟩
        · exact absurd (by simpa [hpid] using hqp.symm) hxne
        · obtain ⟨i1, i2⟩ := inv.urg x hxk q' hold hqp hqa
          refine ⟨fun h0 => ⟨(i1 h0).1, fun y hy => ?_⟩, i2⟩
          exact Rat.le_trans ((i1 h0).2 e he) (hge y hy)
        · omega
      · -- the initialisation of a new process
        rcases m1 q' hq'' with rfl | ⟨hold, _⟩ | ⟨_, _, w3, _⟩
        · simp only [fin_pid] at hqp; omega
        · have := hpw.lt q' hold; omega
        · refine ⟨fun _ => ⟨h2, fun y hy => ?_⟩, fun h0 => by omega⟩
          rw [h1]; exact hge y hy
      · -- the timeout of `p`
        rcases m1 q' hq'' with rfl | ⟨_, hne⟩ | ⟨_, _, _, w4⟩
        · exact ⟨fun h0 => by simp at h0, fun _ => h1⟩
        · exact absurd (hqp.trans h2) hne
        · omega
    · intro x hx y hy hx0 hy0 hx5 hlt
      rcases hheap x hx with h1 | ⟨_, _, _, h3⟩ | ⟨h1, _, _⟩
      · rcases hheap y hy with g1 | ⟨g0, _, _, _⟩ | ⟨g1, _, _⟩
        · exact inv.ord x (List.mem_of_mem_erase h1) y (List.mem_of_mem_erase g1) hx0 hy0 hx5 hlt
        · have := h.fresh x (List.mem_of_mem_erase h1); omega
        · omega
      · have := inv.np; omega
      · omega
    · rw [hc]
      exact Nat.le_trans inv.np (resume_np k.st e.pid _)

theorem SimReach.urg {env : SimEnv} {s0 : Sys} (hw : WFConfig s0) {k : SimState}
    (h : SimReach env s0 k) : UrgInv k := by
  induction h with
  | start => exact UrgInv.init s0 hw
  | step k k1 hr hs ih => exact ih.step env k k1 (hr.l3inv hw).sinv (hr.l3inv hw).heap hs
  | collate k _ ih => exact ih.collate

/-! ### reading at a block start -/

/-- the heap entry of a live process -/
theorem IlHeapOk.entry {k : SimState} (h : IlHeapOk k) {q : Proc} (hq : q ∈ k.st.procs)
    (hqa : q.alive = true) : ∃ x ∈ k.heap, x.pid = q.pid ∧ x.time = q.wake := h.live q hq hqa

/-- **URGENT first.**  If some live process has not run its first block, the process that is
resumed next has not either. -/
theorem UrgInv.first {k : SimState} (hu : UrgInv k) (h : IlHeapOk k) {e : HEntry}
    (hpk : k.peek = some e) {p : Proc} (hpp : k.st.proc? e.pid = some p) (ha : p.alive = true)
    {q : Proc} (hq : q ∈ k.st.procs) (hqa : q.alive = true) (hq0 : q.pc = 0) : p.pc = 0 := by
  obtain ⟨he, hleast⟩ := peek_spec k e hpk
  obtain ⟨hpm, hpid⟩ := proc?_some hpp
  obtain ⟨x, hx, hxp, _⟩ := h.live q hq hqa
  obtain ⟨hx0, hxt⟩ := (hu.urg x hx q hq hxp.symm hqa).1 hq0
  cases hpc : p.pc with
  | zero => rfl
  | succ n =>
    exfalso
    have he1 : e.prio = 1 := (hu.urg e he p hpm hpid ha).2 (by omega)
    have := hleast x hx
    rw [lt_false_iff] at this
    have := hxt e he
    grind

/-- when a process past its first block is resumed, every live process is past its first block -/
theorem UrgInv.normal {k : SimState} (hu : UrgInv k) (h : IlHeapOk k) {e : HEntry}
    (hpk : k.peek = some e) {p : Proc} (hpp : k.st.proc? e.pid = some p) (ha : p.alive = true)
    (hpc : 1 ≤ p.pc) : ∀ q ∈ k.st.procs, q.alive = true → 1 ≤ q.pc := by
  intro q hq hqa
  cases hq0 : q.pc with
  | zero => have := hu.first h hpk hpp ha hq hqa hq0; omega
  | succ n => omega

/-- a live `pc = 0` process of one of the five loops (pid < 5) is resumed before every other live
`pc = 0` process of larger pid -/
theorem UrgInv.loop_first {k : SimState} (hu : UrgInv k) (h : IlHeapOk k) {e : HEntry}
    (hpk : k.peek = some e) {p : Proc} (hpp : k.st.proc? e.pid = some p) (ha : p.alive = true)
    {q : Proc} (hq : q ∈ k.st.procs) (hqa : q.alive = true) (hq0 : q.pc = 0) (hq5 : q.pid < 5) :
    p.pid ≤ q.pid := by
  obtain ⟨he, hleast⟩ := peek_spec k e hpk
  obtain ⟨hpm, hpid⟩ := proc?_some hpp
  obtain ⟨x, hx, hxp, _⟩ := h.live q hq hqa
  obtain ⟨hx0, hxt⟩ := (hu.urg x hx q hq hxp.symm hqa).1 hq0
  have hp0 : p.pc = 0 := hu.first h hpk hpp ha hq hqa hq0
  obtain ⟨he0, het⟩ := (hu.urg e he p hpm hpid ha).1 hp0
  by_cases hlt : q.pid < p.pid
  · exfalso
    have h1 := hu.ord x hx e he hx0 he0 (by omega) (by omega)
    have := hleast x hx
    rw [lt_false_iff] at this
    have := hxt e he
    have := het x hx
    grind
  · omega

variable {env : SimEnv} {s0 : Sys}

/-- **URGENT first**, along the run. -/
theorem nc_urgent_first (hw : WFConfig s0) (n : Nat) {e : HEntry} {p : Proc}
    (hpk : (simAt env s0 n).peek = some e) (hpp : (simAt env s0 n).st.proc? e.pid = some p)
    (ha : p.alive = true) :
    (∀ q ∈ (simAt env s0 n).st.procs, q.alive = true → q.pc = 0 → p.pc = 0) ∧
    (1 ≤ p.pc → ∀ q ∈ (simAt env s0 n).st.procs, q.alive = true → 1 ≤ q.pc) := by
  have hr := simAt_reach env s0 n
  exact ⟨fun q hq hqa hq0 => (hr.urg hw).first (hr.l3inv hw).heap hpk hpp ha hq hqa hq0,
    fun hpc => (hr.urg hw).normal (hr.l3inv hw).heap hpk hpp ha hpc⟩

end Topsim
