/-
  BoundP6c — (plan-following algorithms; the counterpart of Bound6c, same proofs with the occupancy bound `boundP_tw_R`) timed liveness of the workflow-task workers (part 3): the invariant `BoundPTw` with
  deadline `B`, the exact shape of a block of a task body, and the clause of the invariant about the
  task bodies after one block.
-/
import TopsimProofs.BoundP6b

namespace Topsim

open KState Sys

/-! ### the invariant -/

/-- every live worker of a workflow task meets the deadline `B`:
  * a body before its wait is due `bound_tw_W + boundP_tw_R + 1` before `B`, a waiting body `boundP_tw_R + 1`
    before `B`, a working body 2 before `B`;
  * an allocation process before its first block is due `bound_tw_W + boundP_tw_R + 1` before `B`;
  * an allocation process that has begun is due at most one unit after its live body, and strictly
    before `f + 1 ≤ B` when the body has ended and recorded the finish `f`. -/
structure BoundPTw (env : SimEnv) (s0 s : Sys) (B : Time) : Prop where
  dw : ∀ d ∈ s.procs, d.alive = true → ∀ t m preds ph tot, d.k = .doWork t m preds ph tot →
    t.isIngest = false →
    (ph = 0 → d.wake + ((bound_tw_W s0 t : Nat) : Time) + ((boundP_tw_R env s0 t : Nat) : Time) + 1 ≤ B) ∧
    (ph = 1 → d.wake + ((boundP_tw_R env s0 t : Nat) : Time) + 1 ≤ B) ∧
    (ph = 2 → d.wake + 2 ≤ B)
  at0 : ∀ a ∈ s.procs, a.alive = true → ∀ t m preds obs ing ret, a.k = .allocTask t m preds obs ing ret →
    t.isIngest = false → a.pc = 0 →
    a.wake + ((bound_tw_W s0 t : Nat) : Time) + ((boundP_tw_R env s0 t : Nat) : Time) + 1 ≤ B
  at1 : ∀ a ∈ s.procs, a.alive = true → ∀ t m preds obs ing ret, a.k = .allocTask t m preds obs ing ret →
    t.isIngest = false → 1 ≤ a.pc → ∀ d ∈ s.procs, d.pid = ret →
    (d.alive = true → a.wake ≤ d.wake + 1) ∧
    (d.alive = false → ∃ r f, s.task? t = some r ∧ r.aft = some f ∧ a.wake < f + 1 ∧ f + 1 ≤ B)

theorem BoundPTw.mono {env : SimEnv} {s0 s : Sys} {B B' : Time} (h : BoundPTw env s0 s B) (hB : B ≤ B') : BoundPTw env s0 s B' := by
  constructor
  · intro d hd hda t m preds ph tot hk hti
    obtain ⟨h0, h1, h2⟩ := h.dw d hd hda t m preds ph tot hk hti
    exact ⟨fun e => Rat.le_trans (h0 e) hB, fun e => Rat.le_trans (h1 e) hB, fun e => Rat.le_trans (h2 e) hB⟩
  · intro a ha haa t m preds obs ing ret hk hti hpc
    exact Rat.le_trans (h.at0 a ha haa t m preds obs ing ret hk hti hpc) hB
  · intro a ha haa t m preds obs ing ret hk hti hpc d hd hdp
    obtain ⟨h1, h2⟩ := h.at1 a ha haa t m preds obs ing ret hk hti hpc d hd hdp
    refine ⟨h1, fun e => ?_⟩
    obtain ⟨r, f, g1, g2, g3, g4⟩ := h2 e
    exact ⟨r, f, g1, g2, g3, Rat.le_trans g4 hB⟩

/-- a live body is due 2 before the deadline, whatever its phase -/
theorem BoundPTw.dw_two {env : SimEnv} {s0 s : Sys} {B : Time} (h : BoundPTw env s0 s B) (X : BoundPTwCtx env s0 s)
    {d : Proc} (hd : d ∈ s.procs) (hda : d.alive = true) {t m preds ph tot}
    (hk : d.k = .doWork t m preds ph tot) (hti : t.isIngest = false) : d.wake + 2 ≤ B := by
  obtain ⟨h0, h1, h2⟩ := h.dw d hd hda t m preds ph tot hk hti
  have hph := X.span.phase d hd hda t m preds ph tot hk
  have hR : ((1 : Nat) : Time) ≤ ((boundP_tw_R env s0 t : Nat) : Time) := by exact_mod_cast boundP_tw_R_pos env s0 t
  have hW : (0 : Time) ≤ ((bound_tw_W s0 t : Nat) : Time) := Rat.natCast_nonneg
  have hph' : ph = 0 ∨ ph = 1 ∨ ph = 2 := by omega
  rcases hph' with e | e | e
  · have := h0 e; push_cast at hR; grind
  · have := h1 e; push_cast at hR; grind
  · exact h2 e

/-! ### the exact shape of a block of a task body -/

/-! ### what an allocation process creates -/

end Topsim
