/-
  LiveB6 — BatchProcessing: the declarations of Live6 that depend on the configuration hypotheses,
  for `LiveCfgB` / `NcCfgB` (`s0.alg = .batch …`).  Generated from Live6.lean by renaming (suffix `_B`);
  the algorithm-dependent ones are rewritten (see the comments).
-/
import TopsimProofs.Live6
import TopsimProofs.LiveB5

namespace Topsim
open KState Sys
section
variable {env : SimEnv} {s0 : Sys}

theorem live_reachOk_B (C : LiveCfgB env s0) (K : LiveKernel env s0) (n : Nat) :
    ReachOk s0 (simAt env s0 n).st :=
  simRun_reachOk C.hw (K.run n).1 (K.run n).2.1

theorem live_sinv_B (C : LiveCfgB env s0) (K : LiveKernel env s0) (n : Nat) : SInv (simAt env s0 n).st :=
  ((K.reach n).l3inv C.hw).sinv

/-- **One index of the run, in block form.**  The block of the live process `p` whose entry is the
least of the heap runs, it does not raise, and the next state is the state after the block with the
record of `p` advanced. -/
theorem live_blk_B (C : LiveCfgB env s0) (K : LiveKernel env s0) (n : Nat) :
    ∃ e p, (simAt env s0 n).peek = some e ∧ (simAt env s0 n).st.proc? e.pid = some p ∧
      p.alive = true ∧ e.time = p.wake ∧
      (∀ err, ((simAt env s0 n).st.block p (env.oracle (simAt env s0 n).st)).2.2 ≠ .raised err) ∧
      (simAt env s0 (n + 1)).st =
        ((simAt env s0 n).st.block p (env.oracle (simAt env s0 n).st)).1.updProc e.pid
          (fin ((simAt env s0 n).st.block p (env.oracle (simAt env s0 n).st)).2.1
            ((simAt env s0 n).st.block p (env.oracle (simAt env s0 n).st)).2.2 p.wake) := by
  obtain ⟨e, p, hpk, hpp, ha, het, _, _, hst⟩ := live_step_B C K n
  refine ⟨e, p, hpk, hpp, ha, het, ?_⟩
  have hcr := C.nr (n + 1)
  rw [hst] at hcr
  rw [hst]
  unfold Sys.resume at hcr ⊢
  simp only [hpp, ha, Bool.not_true, Bool.false_eq_true, if_false] at hcr ⊢
  generalize (simAt env s0 n).st.block p (env.oracle (simAt env s0 n).st) = r at hcr ⊢
  obtain ⟨s1, k, y⟩ := r
  cases y with
  | timeout d => exact ⟨fun err h => (by cases h), rfl⟩
  | done => exact ⟨fun err h => (by cases h), rfl⟩
  | raised err => exact absurd hcr (Sys.crash_crashed_ne _ _)

/-- a record other than the one of the process that runs is unchanged -/
theorem live_blk_other_B (C : LiveCfgB env s0) (K : LiveKernel env s0) {n : Nat} {e : HEntry}
    (hpk : (simAt env s0 n).peek = some e) {X : Nat} {q : Proc}
    (hq : (simAt env s0 n).st.proc? X = some q) (hne : X ≠ e.pid) :
    (simAt env s0 (n + 1)).st.proc? X = some q := by
  obtain ⟨e', p, hpk', _, _, _, _, hst⟩ := live_blk_B C K n
  rw [hpk] at hpk'; cases hpk'
  rw [hst]
  exact Sys.proc?_blk_other _ _ _ _ _ _ (fun _ => fin_pid _ _ _ _) hq hne

/-- the record of the process that runs is advanced -/
theorem live_blk_self_B (C : LiveCfgB env s0) (K : LiveKernel env s0) {n : Nat} {e : HEntry}
    (hpk : (simAt env s0 n).peek = some e) {p : Proc}
    (hpp : (simAt env s0 n).st.proc? e.pid = some p) :
    (simAt env s0 (n + 1)).st.proc? e.pid =
      some (fin ((simAt env s0 n).st.block p (env.oracle (simAt env s0 n).st)).2.1
        ((simAt env s0 n).st.block p (env.oracle (simAt env s0 n).st)).2.2 p.wake p) := by
  obtain ⟨e', p', hpk', hpp', _, _, _, hst⟩ := live_blk_B C K n
  rw [hpk] at hpk'; cases hpk'
  rw [hpp] at hpp'; cases hpp'
  rw [hst]
  exact Sys.proc?_blk_self _ _ _ _ _ (fun _ => fin_pid _ _ _ _) hpp

/-- the record of a dead process is never touched again -/
theorem live_dead_same_B (C : LiveCfgB env s0) (K : LiveKernel env s0) {n m pid : Nat} {p : Proc}
    (h : n ≤ m) (hp : (simAt env s0 n).st.proc? pid = some p) (hd : p.alive = false) :
    (simAt env s0 m).st.proc? pid = some p := by
  induction m with
  | zero =>
    have : n = 0 := by omega
    subst this; exact hp
  | succ m ih =>
    by_cases e : n = m + 1
    · subst e; exact hp
    · have ih' := ih (by omega)
      obtain ⟨e', p', hpk, hpp, ha, _, _, _⟩ := live_blk_B C K m
      apply live_blk_other_B C K hpk ih'
      intro hX
      rw [← hX, ih'] at hpp
      cases hpp
      rw [hd] at ha; cases ha

/-- **P1.** a dead process stays dead -/
theorem live_dead_mono_B (C : LiveCfgB env s0) (K : LiveKernel env s0) {n m pid : Nat} {p : Proc}
    (h : n ≤ m) (hp : (simAt env s0 n).st.proc? pid = some p) (hd : p.alive = false) :
    ∃ p', (simAt env s0 m).st.proc? pid = some p' ∧ p'.alive = false :=
  ⟨p, live_dead_same_B C K h hp hd, hd⟩

/-- the next block of a live process: it is resumed at some later index, with its record unchanged,
the block does not raise, and the record is advanced -/
theorem live_next_blk_B (C : LiveCfgB env s0) (K : LiveKernel env s0) {n pid : Nat} {p : Proc}
    (hp : (simAt env s0 n).st.proc? pid = some p) (ha : p.alive = true) :
    ∃ n', n ≤ n' ∧ (simAt env s0 n').st.proc? pid = some p ∧
      (∃ e, (simAt env s0 n').peek = some e ∧ e.pid = pid ∧ e.time = p.wake) ∧
      (∀ m, n ≤ m → m ≤ n' → (simAt env s0 m).st.proc? pid = some p) ∧
      (∀ err, ((simAt env s0 n').st.block p (env.oracle (simAt env s0 n').st)).2.2 ≠ .raised err) ∧
      (simAt env s0 (n' + 1)).st =
        ((simAt env s0 n').st.block p (env.oracle (simAt env s0 n').st)).1.updProc pid
          (fin ((simAt env s0 n').st.block p (env.oracle (simAt env s0 n').st)).2.1
            ((simAt env s0 n').st.block p (env.oracle (simAt env s0 n').st)).2.2 p.wake) ∧
      (simAt env s0 (n' + 1)).st.proc? pid =
        some (fin ((simAt env s0 n').st.block p (env.oracle (simAt env s0 n').st)).2.1
            ((simAt env s0 n').st.block p (env.oracle (simAt env s0 n').st)).2.2 p.wake p) := by
  obtain ⟨n', e, hle, hpk, hepid, het, hpp, hbetween⟩ := K.next n pid p hp ha
  obtain ⟨e', p', hpk', hpp', _, _, hnr, hst⟩ := live_blk_B C K n'
  rw [hpk] at hpk'; cases hpk'
  rw [hepid, hpp] at hpp'; cases hpp'
  rw [hepid] at hst
  refine ⟨n', hle, hpp, ⟨e, hpk, hepid, het⟩, hbetween, hnr, hst, ?_⟩
  rw [hst]
  exact Sys.proc?_blk_self _ _ _ _ _ (fun _ => fin_pid _ _ _ _) hpp

/-- the telescope's loop is alive, or every observation is FINISHED -/
theorem live_tel_inv_B (C : LiveCfgB env s0) (K : LiveKernel env s0) (n : Nat) :
    (∃ q ∈ (simAt env s0 n).st.procs, q.k = .telescope ∧ q.alive = true) ∨
    (∀ ob ∈ (simAt env s0 n).st.obs, ob.status = .finished) := by
  induction n with
  | zero =>
    left
    obtain ⟨hprocs, hnp, _⟩ := C.hw.fresh
    refine ⟨{ pid := 1, k := .telescope, wake := 0 }, ?_, rfl, rfl⟩
    show _ ∈ s0.start.procs
    simp [Sys.start, Sys.spawn, hprocs, hnp]
  | succ n ih =>
    rcases ih with ⟨q, hq, hqk, hqa⟩ | hall
    · obtain ⟨e, p, hpk, hpp, ha, _, hnr, hst⟩ := live_blk_B C K n
      have hpw := (live_sinv_B C K n).pw
      have hqq := hpw.proc?_of_mem hq
      by_cases hne : q.pid = e.pid
      · -- the telescope's own block
        rw [hne, hpp] at hqq; cases hqq
        have hb := Sys.block_telescope (s := (simAt env s0 n).st) (env.oracle (simAt env s0 n).st) hqk
        have hself := live_blk_self_B C K hpk hpp
        cases hy : ((simAt env s0 n).st.telescopeBlock q.wake).2 with
        | timeout d =>
          left
          refine ⟨_, (proc?_some hself).1, ?_, ?_⟩
          · rw [fin_k, hb]
          · rw [hb]; simp only [hy]; exact hqa
        | done =>
          right
          obtain ⟨h1, h2⟩ := Sys.telescopeBlock_done _ _ hy
          rw [hst, updProc_obs, hb]
          simp only
          rw [h2]; exact h1
        | raised err =>
          exfalso
          apply hnr err
          rw [hb]; exact hy
      · left
        have := live_blk_other_B C K hpk hqq hne
        exact ⟨q, (proc?_some this).1, hqk, hqa⟩
    · right
      intro ob hob
      have hnd := (live_sinv_B C K (n + 1)).eg.obsNodup
      have hnd0 := (live_sinv_B C K n).eg.obsNodup
      -- the record of this observation at index `n`
      have hkeep : (simAt env s0 (n + 1)).st.obs.map Obs.stat = (simAt env s0 n).st.obs.map Obs.stat := by
        rw [live_keep0_B C (n + 1), live_keep0_B C n]
      have hid : ob.id ∈ (simAt env s0 n).st.obs.map (·.id) := by
        have h1 : ob.stat ∈ (simAt env s0 (n + 1)).st.obs.map Obs.stat := List.mem_map_of_mem hob
        rw [hkeep] at h1
        obtain ⟨ob0, hob0, e0⟩ := List.mem_map.mp h1
        exact List.mem_map.mpr ⟨ob0, hob0, congrArg Prod.fst e0⟩
      obtain ⟨ob0, hob0, e0⟩ := List.mem_map.mp hid
      have h0 : (simAt env s0 n).st.obs? ob.id = some ob0 := by
        rw [← e0]; exact obs?_of_mem hnd0 hob0
      obtain ⟨ob', hob', hr, _⟩ := SimPath.status_mono C.hw (K.reach n)
        (simAt_path env s0 n (n + 1) (by omega)) h0
      have h1 : (simAt env s0 (n + 1)).st.obs? ob.id = some ob := obs?_of_mem hnd hob
      rw [h1] at hob'; cases hob'
      rw [hall ob0 hob0] at hr
      revert hr
      cases ob.status <;> simp [obsRank]

/-- **P4.** while an observation is not FINISHED the telescope's loop is alive -/
theorem live_telescope_alive_B (C : LiveCfgB env s0) (K : LiveKernel env s0) (n : Nat)
    (h : ∃ ob ∈ (simAt env s0 n).st.obs, ob.status ≠ .finished) :
    ∃ q ∈ (simAt env s0 n).st.procs, q.k = .telescope ∧ q.alive = true := by
  rcases live_tel_inv_B C K n with h1 | h1
  · exact h1
  · obtain ⟨ob, hob, hne⟩ := h
    exact absurd (h1 ob hob) hne

/-- **P4.** the scheduler's loop (pid 3) is alive -/
theorem live_schedLoop_alive_B (C : LiveCfgB env s0) (K : LiveKernel env s0) (n : Nat) :
    ∃ q, (simAt env s0 n).st.proc? 3 = some q ∧ q.k = .schedLoop ∧ q.alive = true := by
  induction n with
  | zero =>
    obtain ⟨hprocs, hnp, _⟩ := C.hw.fresh
    refine ⟨{ pid := 3, k := .schedLoop, wake := 0 }, ?_, rfl, rfl⟩
    show s0.start.proc? 3 = _
    simp [Sys.start, Sys.spawn, Sys.proc?, hprocs, hnp]
  | succ n ih =>
    obtain ⟨q, hq, hqk, hqa⟩ := ih
    obtain ⟨e, p, hpk, hpp, ha, _, hnr, hst⟩ := live_blk_B C K n
    by_cases hne : 3 = e.pid
    · rw [← hne, hq] at hpp; cases hpp
      have hb := Sys.block_schedLoop (s := (simAt env s0 n).st) (env.oracle (simAt env s0 n).st) hqk
      have hq' := hq
      rw [hne] at hq'
      have hself := live_blk_self_B C K hpk hq'
      rw [← hne] at hself
      refine ⟨_, hself, by rw [fin_k, hb], ?_⟩
      cases hy : ((simAt env s0 n).st.schedLoopBlock q.wake (env.oracle (simAt env s0 n).st)).2 with
      | timeout d => rw [hb]; simp only [hy]; exact hqa
      | done => exact absurd hy (Sys.schedLoopBlock_not_done _ _ _)
      | raised err => exact absurd (by rw [hb]; exact hy) (hnr err)
    · exact ⟨q, live_blk_other_B C K hpk hq hne, hqk, hqa⟩
end
end Topsim
