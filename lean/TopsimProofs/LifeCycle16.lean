/-
  LifeCycle16 — the telescope's bookkeeping: `telUse` is the sum of the array demands of the
  observations that are admitted and not FINISHED, and the telescope's status flag is set as long
  as there is one.
-/
import TopsimProofs.LifeCycle15

namespace Topsim
namespace Sys

/-- the demand an observation record contributes -/
def useC (adm : List Oid) (r : Obs) : Int :=
  if r.id ∈ adm ∧ r.status ≠ .finished then (r.demand : Int) else 0

/-- the sum over a list of records -/
def useL (adm : List Oid) : List Obs → Int
  | [] => 0
  | r :: rest => useC adm r + useL adm rest

theorem useC_nonneg (adm : List Oid) (r : Obs) : 0 ≤ useC adm r := by
  unfold useC; split <;> omega

theorem useL_nonneg (adm : List Oid) (l : List Obs) : 0 ≤ useL adm l := by
  induction l with
  | nil => simp [useL]
  | cons r rest ih => have := useC_nonneg adm r; simp only [useL]; omega

theorem useL_ge (adm : List Oid) (l : List Obs) {ob : Obs} (h : ob ∈ l) : useC adm ob ≤ useL adm l := by
  induction l with
  | nil => simp at h
  | cons r rest ih =>
    simp only [useL]
    rcases List.mem_cons.mp h with rfl | h
    · have := useL_nonneg adm rest; omega
    · have := ih h; have := useC_nonneg adm r; omega

/-- records mapped without changing what they contribute -/
theorem useL_map_congr (adm adm' : List Oid) (l : List Obs) (f : Obs → Obs)
    (h : ∀ r ∈ l, useC adm' (f r) = useC adm r) : useL adm' (l.map f) = useL adm l := by
  induction l with
  | nil => rfl
  | cons r rest ih =>
    simp only [List.map_cons, useL]
    rw [h r (by simp), ih (fun r' hr' => h r' (List.mem_cons_of_mem _ hr'))]

/-- one record updated, the others contributing the same -/
theorem useL_upd (adm adm' : List Oid) (l : List Obs) (hnd : (l.map (·.id)).Nodup) (oid : Oid) (f : Obs → Obs)
    {ob : Obs} (hob : ob ∈ l) (hid : ob.id = oid)
    (hoth : ∀ r ∈ l, r.id ≠ oid → useC adm' r = useC adm r) :
    useL adm' (l.map (fun r => if r.id = oid then f r else r)) = useL adm l - useC adm ob + useC adm' (f ob) := by
  induction l with
  | nil => simp at hob
  | cons r rest ih =>
    simp only [List.map_cons, List.nodup_cons] at hnd
    simp only [List.map_cons, useL]
    rcases List.mem_cons.mp hob with rfl | hob'
    · -- the head is the record; the tail has no record with this id
      have htail : useL adm' (rest.map (fun r => if r.id = oid then f r else r)) = useL adm rest := by
        apply useL_map_congr
        intro r hr
        have hne : r.id ≠ oid := fun e => hnd.1 (by rw [hid, ← e]; exact List.mem_map_of_mem hr)
        rw [if_neg hne]
        exact hoth r (List.mem_cons_of_mem _ hr) hne
      rw [htail, if_pos hid]; omega
    · have hne : r.id ≠ oid := fun e => hnd.1 (by rw [e, ← hid]; exact List.mem_map_of_mem hob')
      rw [if_neg hne, ih hnd.2 hob' (fun r' hr' => hoth r' (List.mem_cons_of_mem _ hr')),
        hoth r (by simp) hne]
      omega

/-! ### the invariant -/

structure TelAcct (s : Sys) : Prop where
  nodup : (s.obs.map (·.id)).Nodup
  use : s.telUse = useL s.admitted s.obs
  stat : ∀ ob ∈ s.obs, ob.id ∈ s.admitted → ob.status ≠ .finished → s.telStatus = true
  dem : ∀ ob ∈ s.obs, 1 ≤ ob.demand
  astAdm : ∀ ob ∈ s.obs, ob.ast ≠ none → ob.id ∈ s.admitted
  aiAdm : ∀ q ∈ s.procs, ∀ o tl, q.k = .allocIngest o tl → o ∈ s.admitted

theorem map_upd_ids (l : List Obs) (oid : Oid) (f : Obs → Obs) (hf : ∀ r, (f r).id = r.id) :
    (l.map (fun r => if r.id = oid then f r else r)).map (·.id) = l.map (·.id) := by
  rw [List.map_map]
  apply List.map_congr_left
  intro r _
  simp only [Function.comp]
  split
  · exact hf r
  · rfl

/-- one visit of the telescope's loop, given that an admitted observation is new in `admitted` -/
theorem TelAcct.telStep {n : Nat} {oid : Oid} {acc acc' : Sys × Option Err} {t : List Event}
    (h : TelAcct acc.1) (ht : TelStep n oid acc acc' t) (hnew : acc'.1.admitted.Nodup) : TelAcct acc'.1 := by
  cases ht with
  | quiet _ ha hobs hp _ hu hs _ =>
    exact ⟨by rw [hobs]; exact h.nodup, by rw [hu, ha, hobs]; exact h.use,
      by rw [hobs, ha, hs]; exact h.stat, by rw [hobs]; exact h.dem, by rw [hobs, ha]; exact h.astAdm,
      by rw [hp, ha]; exact h.aiAdm⟩
  | start ob _ _ _ hob hw _ ha hobs hp _ hu hs =>
    obtain ⟨hobm, hoid⟩ := obs_mem_of_obs? hob
    have hnot : oid ∉ acc.1.admitted := by
      rw [ha, List.nodup_append] at hnew
      intro hin
      exact hnew.2.2 oid hin oid (by simp) rfl
    have hobs' : acc'.1.obs = acc.1.obs.map (fun r => if r.id = oid then { r with ast := some n } else r) := hobs
    constructor
    · rw [hobs', map_upd_ids acc.1.obs oid (fun r => { r with ast := some n }) (fun _ => rfl)]; exact h.nodup
    · rw [hu, ha, hobs', useL_upd acc.1.admitted (acc.1.admitted ++ [oid]) acc.1.obs h.nodup oid
        (fun r => { r with ast := some n }) hobm hoid ?_, h.use]
      · have c1 : useC acc.1.admitted ob = 0 := by
          unfold useC; rw [if_neg]; rw [hoid]; exact fun hh => hnot hh.1
        have c2 : useC (acc.1.admitted ++ [oid]) { ob with ast := some n } = (ob.demand : Int) := by
          unfold useC; rw [if_pos]; exact ⟨by simp [hoid], by simp [hw]⟩
        rw [c1, c2]; omega
      · intro r _ hne
        unfold useC
        simp [hne]
    · intro ob' _ _ _; exact hs
    · intro ob' hob'
      rw [hobs'] at hob'
      obtain ⟨r, hr, rfl⟩ := List.mem_map.mp hob'
      split
      · exact h.dem r hr
      · exact h.dem r hr
    · intro ob' hob' hast
      rw [hobs'] at hob'
      obtain ⟨r, hr, rfl⟩ := List.mem_map.mp hob'
      rw [ha]
      by_cases e : r.id = oid
      · simp only [e, if_true]; simp
      · simp only [e, if_false] at hast ⊢
        exact List.mem_append_left _ (h.astAdm r hr hast)
    · intro q hq o tl hk
      rw [hp] at hq
      rw [ha]
      rcases List.mem_append.mp hq with hq | hq
      · exact List.mem_append_left _ (h.aiAdm q hq o tl hk)
      · simp at hq; subst hq
        simp only [PK.allocIngest.injEq] at hk
        rw [hk.1]; simp
  | finish ob a _ _ _ hob hst hast _ _ ha hobs hp _ hu hs =>
    obtain ⟨hobm, hoid⟩ := obs_mem_of_obs? hob
    have hin : oid ∈ acc.1.admitted := by
      rw [← hoid]; exact h.astAdm ob hobm (by rw [hast]; simp)
    have hobs' : acc'.1.obs = acc.1.obs.map (fun r => if r.id = oid then { r with status := .finished } else r) :=
      hobs
    have huse : acc'.1.telUse = useL acc'.1.admitted acc'.1.obs := by
      rw [hu, ha, hobs', useL_upd acc.1.admitted acc.1.admitted acc.1.obs h.nodup oid
        (fun r => { r with status := .finished }) hobm hoid (fun _ _ _ => rfl), h.use]
      have c1 : useC acc.1.admitted ob = (ob.demand : Int) := by
        unfold useC; rw [if_pos]; exact ⟨by rw [hoid]; exact hin, hst⟩
      have c2 : useC acc.1.admitted { ob with status := .finished } = 0 := by
        unfold useC; rw [if_neg]; simp
      rw [c1, c2]; omega
    constructor
    · rw [hobs', map_upd_ids acc.1.obs oid (fun r => { r with status := .finished }) (fun _ => rfl)]
      exact h.nodup
    · exact huse
    · intro ob' hob' hadm hnf
      have hge := useL_ge acc'.1.admitted acc'.1.obs hob'
      have hc : useC acc'.1.admitted ob' = (ob'.demand : Int) := by
        unfold useC; rw [if_pos]; exact ⟨hadm, hnf⟩
      have hd : 1 ≤ ob'.demand := by
        rw [hobs'] at hob'
        obtain ⟨r, hr, rfl⟩ := List.mem_map.mp hob'
        split <;> exact h.dem r hr
      have hne : acc.1.telUse - (ob.demand : Int) ≠ 0 := by
        rw [← hu, huse]; omega
      rw [hs, if_neg hne]
      -- the record was there, unfinished, before
      rw [hobs'] at hob'
      obtain ⟨r, hr, rfl⟩ := List.mem_map.mp hob'
      by_cases e : r.id = oid
      · simp [e] at hnf
      · simp only [e, if_false] at hadm hnf
        exact h.stat r hr (by rw [← ha]; exact hadm) hnf
    · intro ob' hob'
      rw [hobs'] at hob'
      obtain ⟨r, hr, rfl⟩ := List.mem_map.mp hob'
      split <;> exact h.dem r hr
    · intro ob' hob' hast'
      rw [hobs'] at hob'
      obtain ⟨r, hr, rfl⟩ := List.mem_map.mp hob'
      rw [ha]
      by_cases e : r.id = oid
      · simp only [e, if_true] at hast' ⊢
        exact e ▸ h.astAdm r hr hast'
      · simp only [e, if_false] at hast' ⊢
        exact h.astAdm r hr hast'
    · rw [hp, ha]; exact h.aiAdm

theorem telRun_admitted_prefix {n : Nat} {l : List Oid} {acc acc' : Sys × Option Err} {L : List Event}
    (h : TelRun n l acc acc' L) : acc.1.admitted <+: acc'.1.admitted := by
  induction h with
  | nil acc => exact List.prefix_refl _
  | cons oid l acc acc1 acc2 t L ht _ ih =>
    refine List.IsPrefix.trans ?_ ih
    cases ht with
    | quiet _ ha => rw [ha]; exact List.prefix_refl _
    | start ob _ _ _ _ _ _ ha => rw [ha]; exact List.prefix_append _ _
    | finish ob a _ _ _ _ _ _ _ _ ha => rw [ha]; exact List.prefix_refl _

theorem TelAcct.telRun {n : Nat} {l : List Oid} {acc acc' : Sys × Option Err} {L : List Event}
    (hrun : TelRun n l acc acc' L) (h : TelAcct acc.1) (hnd : acc'.1.admitted.Nodup) : TelAcct acc'.1 := by
  induction hrun with
  | nil acc => exact h
  | cons oid l acc acc1 acc2 t L ht hr ih =>
    have hpre := telRun_admitted_prefix hr
    have hnd1 : acc1.1.admitted.Nodup := by
      obtain ⟨t', ht'⟩ := hpre
      rw [← ht'] at hnd
      exact (List.nodup_append.mp hnd).1
    exact ih (h.telStep ht hnd1) hnd

/-! ### the supervisor's block, record list -/

theorem updObs_updObs (s : Sys) (oid : Oid) (f g : Obs → Obs) (hf : ∀ r, (f r).id = r.id) :
    ((s.updObs oid f).updObs oid g).obs = s.obs.map (fun r => if r.id = oid then g (f r) else r) := by
  simp only [Sys.updObs, List.map_map]
  apply List.map_congr_left
  intro r _
  simp only [Function.comp]
  by_cases e : r.id = oid
  · simp [e, hf r]
  · simp [e]

theorem allocIngestBlock_obsMap (s : Sys) (hnd : (s.obs.map (·.id)).Nodup) (now : Time) (pc : Nat)
    (oid : Oid) (tl : Int) :
    ∃ F : Obs → Obs, (s.allocIngestBlock now pc oid tl).1.obs = s.obs.map (fun r => if r.id = oid then F r else r) ∧
      ∀ r, (F r).id = r.id ∧ (F r).demand = r.demand ∧ (F r).duration = r.duration ∧
        ((F r).status = r.status ∨ (r.status = .waiting ∧ (F r).status = .running)) ∧
        ((F r).ast = r.ast ∨ (pc = 0 ∧ (F r).ast = some (natNow now))) := by
  have hid : ∀ l : List Obs, l = l.map (fun r => if r.id = oid then r else r) := by
    intro l; rw [List.map_congr_left (g := id)]; simp; intro r _; split <;> rfl
  unfold allocIngestBlock
  split
  · rename_i hpc
    simp only
    rcases allocIngestIter_obs (s.updObs oid (fun r => { r with ast := some (natNow now) })) now oid
      ((match s.obs? oid with | some o => (o.duration : Int) | none => 0) - 1) with h | ⟨_, _, _, h⟩
    · refine ⟨fun r => { r with ast := some (natNow now) }, h.trans rfl, ?_⟩
      intro r; exact ⟨rfl, rfl, rfl, Or.inl rfl, Or.inr ⟨hpc, rfl⟩⟩
    · rename_i w hw1 hw2
      refine ⟨fun r => if r.status = .waiting then { r with ast := some (natNow now), status := .running }
        else { r with ast := some (natNow now) }, ?_, ?_⟩
      · refine h.trans ((updObs_updObs s oid (fun r => { r with ast := some (natNow now) })
          (fun r => { r with status := .running }) (fun _ => rfl)).trans ?_)
        apply List.map_congr_left
        intro r hr
        by_cases e : r.id = oid
        · simp only [e, if_true]
          -- the record of `oid` is the WAITING one
          have hnd1 : ((s.updObs oid (fun r => { r with ast := some (natNow now) })).obs.map (·.id)).Nodup := by
            show ((s.obs.map (fun r => if r.id = oid then { r with ast := some (natNow now) } else r)).map (·.id)).Nodup
            rw [map_upd_ids s.obs oid (fun r => { r with ast := some (natNow now) }) (fun _ => rfl)]; exact hnd
          have hm1 : ({ r with ast := some (natNow now) } : Obs) ∈
              (s.updObs oid (fun r => { r with ast := some (natNow now) })).obs := by
            show _ ∈ s.obs.map (fun r => if r.id = oid then { r with ast := some (natNow now) } else r)
            exact List.mem_map.mpr ⟨r, hr, by simp [e]⟩
          have := obs_eq_of_id hnd1 hw1 hm1 e
          have hst : r.status = .waiting := by
            have h2 : ({ r with ast := some (natNow now) } : Obs).status = w.status := by rw [this]
            exact h2.trans hw2
          rw [if_pos hst]
        · simp [e]
      · intro r
        by_cases e : r.status = .waiting <;> simp [e, hpc]
  · rcases allocIngestIter_obs s now oid tl with h | ⟨ob, hob, hw, h⟩
    · exact ⟨id, by rw [h]; exact hid _, fun r => ⟨rfl, rfl, rfl, Or.inl rfl, Or.inl rfl⟩⟩
    · refine ⟨fun r => if r.status = .waiting then { r with status := .running } else r, ?_, ?_⟩
      · rw [h]
        simp only [Sys.updObs]
        apply List.map_congr_left
        intro r hr
        by_cases e : r.id = oid
        · simp only [e, if_true]
          have : r = ob := obs_eq_of_id hnd hob hr e
          rw [this, if_pos hw]
        · simp [e]
      · intro r
        by_cases e : r.status = .waiting <;> simp [e]

end Sys
end Topsim
