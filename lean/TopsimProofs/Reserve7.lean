/-
  Reserve7 — batch reservations, one step of a run of BatchProcessing: the block that creates a
  reservation (size within the configured bounds), and the block that releases it (the whole
  reservation, when the last task of the workflow has finished).
-/
import TopsimProofs.Reserve6

namespace Topsim
namespace Sys

open Cluster

/-- the initial buffer lists are empty -/
theorem bufList_of_hb0 {s0 : Sys} (hb0 : s0.buf.hot.stored = [] ∧ s0.buf.hot.scheduled = [] ∧
    s0.buf.hot.finished = [] ∧ s0.buf.cold.stored = []) : bufList s0.buf = [] := by
  obtain ⟨h1, h2, h3, h4⟩ := hb0
  simp [bufList, h1, h2, h3, h4]

/-! ### `_max_resource_provision` -/

theorem maxResourceProvision_bounds (c : Cluster) (parts : Nat) (split : Option (List (Oid × Nat × Nat)))
    (o : Oid) (n : Nat) (h : Alg.maxResourceProvision c parts split o = .ok n) :
    n ≤ c.available.length ∧ (split = none → n ≤ c.machines.length / parts) ∧
    (∀ sp, split = some sp → ∃ lo hi, dictGet sp o = some (lo, hi) ∧ n ≤ hi ∧
      (n = 0 ∨ lo ≤ c.available.length)) := by
  unfold Alg.maxResourceProvision at h
  cases split with
  | none =>
    simp only at h
    generalize c.machines.length / parts = M at h ⊢
    split at h
    · cases h
    · split at h
      · injection h with h; exact ⟨by omega, fun _ => by omega, fun sp e => by simp at e⟩
      · split at h
        · injection h with h; exact ⟨by omega, fun _ => by omega, fun sp e => by simp at e⟩
        · injection h with h; exact ⟨by omega, fun _ => by omega, fun sp e => by simp at e⟩
  | some sp =>
    simp only at h
    cases hg : dictGet sp o with
    | none => rw [hg] at h; cases h
    | some lh =>
      obtain ⟨lo, hi⟩ := lh
      rw [hg] at h
      simp only at h
      have hsp : ∀ sp', some sp = some sp' → ∃ lo' hi', dictGet sp' o = some (lo', hi') ∧ True := by
        intro sp' e; injection e with e; subst e; exact ⟨lo, hi, hg, trivial⟩
      split at h
      · cases h
      · split at h
        · injection h with h
          refine ⟨by omega, fun e => by simp at e, fun sp' e => ?_⟩
          injection e with e; subst e
          exact ⟨lo, hi, hg, by omega, Or.inl h.symm⟩
        · split at h
          · injection h with h
            refine ⟨by omega, fun e => by simp at e, fun sp' e => ?_⟩
            injection e with e; subst e
            exact ⟨lo, hi, hg, by omega, Or.inl h.symm⟩
          · injection h with h
            refine ⟨by omega, fun e => by simp at e, fun sp' e => ?_⟩
            injection e with e; subst e
            exact ⟨lo, hi, hg, by omega, Or.inr (by omega)⟩

/-! ### reservations only appear in a block of `allocate_tasks` that provisions -/

theorem allocBegin_hasRes_back (c : Cluster) (t : Tid) (m : Mid) (obs : Option Oid) (ing : Bool) (o : Oid)
    (h : HasRes (c.allocBegin t m obs ing).1 o) : HasRes c o := by
  cases hok : (c.allocBegin t m obs ing).2 with
  | some e => rw [allocBegin_err_unchanged c t m obs ing e hok] at h; exact h
  | none =>
    obtain ⟨l, hl⟩ := h
    rcases (allocBegin_spec c t m obs ing hok).2 with ⟨_, hi, _⟩ | ⟨_, _, hi, _⟩ | ⟨_, _, o1, l1, _, hg, _, hi, _⟩
    · exact ⟨l, by rw [← hi]; exact hl⟩
    · exact ⟨l, by rw [← hi]; exact hl⟩
    · rw [hi, dictGet_dictSet] at hl
      by_cases e : o1 = o
      · subst e; exact ⟨l1, hg⟩
      · rw [if_neg e] at hl; exact ⟨l, hl⟩

theorem allocEnd_hasRes_back (c : Cluster) (t : Tid) (m : Mid) (obs : Option Oid) (ing : Bool) (o : Oid)
    (h : HasRes (c.allocEnd t m obs ing).1 o) : HasRes c o := by
  obtain ⟨l, hl⟩ := h
  cases hok : (c.allocEnd t m obs ing).2 with
  | some e => exact ⟨l, by rw [← (allocEnd_err c t m obs ing e hok).1]; exact hl⟩
  | none =>
    rcases (allocEnd_spec c t m obs ing hok).2 with ⟨_, hi, _⟩ | ⟨_, o1, l1, _, hg, hi, _⟩ | ⟨_, _, hi, _⟩
    · exact ⟨l, by rw [← hi]; exact hl⟩
    · rw [hi, dictGet_dictSet] at hl
      by_cases e : o1 = o
      · subst e; exact ⟨l1, hg⟩
      · rw [if_neg e] at hl; exact ⟨l, hl⟩
    · exact ⟨l, by rw [← hi]; exact hl⟩

/-- the block that creates the reservation of `o`: it is a block of `allocate_tasks` of `o`; the
counter was below the number of partitions and goes up by one; the reservation is the first `n`
available machines, `n` what `_max_resource_provision` returned, at least one and at least the
configured minimum -/
theorem resume_new_reservation {s0 s : Sys} (hw : WFConfig s0) (hbuf : bufList s0.buf = [])
    {parts minPer : Nat} {split : Option (List (Oid × Nat × Nat))} (halg : s0.alg = .batch parts minPer split)
    (h : Reach s0 s) {pid : Nat} (hen : s.enabled pid) (orc : Oracle) (o : Oid)
    (hnot : ¬ HasRes s.cl o) (hyes : HasRes (s.resume pid orc).1.cl o) :
    (∃ p sc pa po, s.proc? pid = some p ∧ p.k = .allocTasks o sc pa po false) ∧
    s.cl.numProv < (parts : Int) ∧ (s.resume pid orc).1.cl.numProv = s.cl.numProv + 1 ∧
    ∃ n, 1 ≤ n ∧ minPer ≤ n ∧ n ≤ s.cl.available.length ∧
      Alg.maxResourceProvision s.cl parts split o = .ok n ∧
      (s.resume pid orc).1.cl.idleOf (some o) = s.cl.available.take n ∧
      (s.resume pid orc).1.cl.available = s.cl.available.drop n := by
  have hno : s0.alg ≠ .oracle := by rw [halg]; simp
  have hs := reach_inv s0 s hw (h.toOk hno)
  have hri := reach_ri s0 s hw hbuf halg h
  have halg' : s.alg = .batch parts minPer split := by rw [reach_alg h]; exact halg
  obtain ⟨U, hU⟩ := hs.ci
  obtain ⟨p, hp, ha, hmin⟩ := hen
  obtain ⟨hpm, hpid⟩ := proc?_some hp
  subst hpid
  rw [resume_cl_block hp ha orc] at hyes ⊢
  by_cases h2 : p.k.tag = "allocTask"
  · cases hk : p.k with
    | allocTask t m preds obs ing ret =>
      exfalso
      apply hnot
      have hb : s.block p orc = s.allocTaskBlock p.wake t m preds obs ing ret := by
        unfold block; simp only [hk]
      rw [hb] at hyes
      rcases allocTaskBlock_cl s p.wake t m preds obs ing ret with e | e | e | e <;> rw [e] at hyes
      · exact hyes
      · exact allocBegin_hasRes_back _ _ _ _ _ _ hyes
      · exact allocBegin_hasRes_back _ _ _ _ _ _ (allocEnd_hasRes_back _ _ _ _ _ _ hyes)
      · exact allocEnd_hasRes_back _ _ _ _ _ _ hyes
    | _ => rw [hk] at h2; simp [PK.tag] at h2
  · by_cases h4 : p.k.tag = "allocTasks"
    · cases hk : p.k with
      | allocTasks oid sc pa po fn =>
        obtain ⟨E, _, _, _, _, _, hstep, hfin, _⟩ := allocTasks_batch_facts hri halg' p orc hk
        rcases hstep with e1 | hrs
        · rw [(hfin e1).1] at hyes; exact absurd hyes hnot
        · have hfn : fn = false := by
            cases fn with
            | false => rfl
            | true =>
              rw [(hfin rfl).1] at hyes; exact absurd hyes hnot
          subst hfn
          by_cases hne : o = oid
          · subst hne
            obtain ⟨c1, h1, h2'⟩ := hrs
            have hback : HasRes c1 o := by
              rcases h2' with e | ⟨_, e | e⟩
              · rw [e] at hyes; exact hyes
              · rw [e] at hyes; exact hasRes_of_release hyes
              · rw [e] at hyes; exact hasRes_of_release (hasRes_of_release hyes)
            rcases h1 with e | ⟨hnp, hlt, n, hn1, hmn, hmax, hpb⟩
            · rw [e] at hback; exact absurd hback hnot
            · obtain ⟨hnav, _, _⟩ := maxResourceProvision_bounds s.cl parts split o n hmax
              obtain ⟨t1, t2, t3⟩ := provisionBatch_takes s.cl c1 n o hnp (Inv.avail_nodup hU.inv) hn1 hnav hpb
              -- the reservation is not released in the same block (it would be gone)
              have hX : (s.block p orc).1.cl = c1 := by
                rcases h2' with e | ⟨_, e | e⟩
                · exact e
                · exfalso
                  rw [e] at hyes
                  obtain ⟨l, hl⟩ := hback
                  have hlne : l ≠ [] := by
                    have := idleOf_of_get hl
                    rw [t1] at this
                    intro e0
                    rw [e0] at this
                    have hlen := congrArg List.length this
                    simp only [List.length_take, List.length_nil] at hlen
                    omega
                  have hk1 : (dictKeys c1.idle).Nodup := by
                    have := (provisionBatch_ok hU.inv n o).1.keys
                    rw [hpb] at this; exact this
                  obtain ⟨_, r2, _⟩ := releaseBatch_returns c1 o l hl hlne hk1
                  obtain ⟨l', hl'⟩ := hyes
                  unfold dictHas at r2
                  rw [hl'] at r2; simp at r2
                · exfalso
                  rw [e] at hyes
                  have hy2 := hasRes_of_release hyes
                  obtain ⟨l, hl⟩ := hback
                  have hlne : l ≠ [] := by
                    have := idleOf_of_get hl
                    rw [t1] at this
                    intro e0
                    rw [e0] at this
                    have hlen := congrArg List.length this
                    simp only [List.length_take, List.length_nil] at hlen
                    omega
                  have hk1 : (dictKeys c1.idle).Nodup := by
                    have := (provisionBatch_ok hU.inv n o).1.keys
                    rw [hpb] at this; exact this
                  obtain ⟨_, r2, _⟩ := releaseBatch_returns c1 o l hl hlne hk1
                  obtain ⟨l', hl'⟩ := hy2
                  unfold dictHas at r2
                  rw [hl'] at r2; simp at r2
              rw [hX]
              exact ⟨⟨p, sc, pa, po, hp, hk⟩, hlt, t3, n, hn1, hmn, hnav, hmax, t1, t2⟩
          · exfalso
            apply hnot
            obtain ⟨l, hl⟩ := hyes
            rw [(hrs.sameO o hne).1] at hl
            exact ⟨l, hl⟩
      | _ => rw [hk] at h4; simp [PK.tag] at h4
    · exfalso
      apply hnot
      obtain ⟨l, hl⟩ := hyes
      rw [(block_quiet_cl s p orc h2 h4 none).2.2] at hl
      exact ⟨l, hl⟩

/-! ### release -/

theorem pruned_planTasks (a : Sys) (oid : Oid) (t : Tid) (h : t ∈ planTasks (a.updateCurrentPlan oid) oid) :
    t ∈ planTasks a oid ∧ tstat a t ≠ .finished := by
  have hpl := updateCurrentPlan_plans a oid
  cases hpo : a.plan? oid with
  | none =>
    rw [hpo] at hpl
    rw [planTasks_of_plans hpl] at h
    unfold planTasks at h
    rw [hpo] at h; simp at h
  | some pl0 =>
    rw [hpo] at hpl
    have hp? := plan?_map a (a.updateCurrentPlan oid) oid
      (fun p => { p with tasks := p.tasks.filter (fun t => (a.taskView t).status ≠ .finished) })
      (fun _ => rfl) hpl oid
    unfold planTasks at h ⊢
    rw [hp?, hpo] at h
    rw [hpo]
    simp only [Option.map_some] at h
    have hobs := (plan?_mem hpo).2
    rw [if_pos hobs] at h
    simp only at h
    obtain ⟨h1, h2⟩ := List.mem_filter.mp h
    exact ⟨h1, by simpa [tstat] using h2⟩

theorem atStart_planTasks (s : Sys) (now : Time) (pc : Nat) (oid o : Oid) :
    planTasks (atStart s now pc oid) o = planTasks s o := by
  rcases atStart_plans s now pc oid with hpl | hpl
  · exact planTasks_of_plans hpl o
  · unfold planTasks
    rw [plan?_map s (atStart s now pc oid) oid (fun p => { p with ast := some (natNow now) }) (fun _ => rfl)
      hpl o]
    cases s.plan? o with
    | none => rfl
    | some pl => simp only [Option.map_some]; split <;> rfl

theorem resume_yield {s : Sys} {p : Proc} (hp : s.proc? p.pid = some p) (ha : p.alive = true) (orc : Oracle) :
    (s.resume p.pid orc).2 = (s.block p orc).2.2 := by
  unfold resume
  simp only [hp, ha, Bool.not_true, Bool.false_eq_true, if_false]
  generalize s.block p orc = r
  obtain ⟨s1, k, y⟩ := r
  cases y <;> rfl

/-- one iteration of `allocate_tasks` on a plan with no task left and an empty local schedule,
when the block does not raise: the reservation calls end with a release -/
theorem allocTasksIter_release {a : Sys} {parts minPer : Nat} {split : Option (List (Oid × Nat × Nat))}
    (halg : a.alg = .batch parts minPer split) (now : Time) (orc : Oracle) (oid : Oid)
    (pa : List (Tid × Mid)) (po : List Tid)
    (hplan : ((a.updateCurrentPlan oid).plan? oid).isSome = true)
    (hE : planTasks (a.updateCurrentPlan oid) oid = [])
    (hok : ∀ e, (a.allocTasksIter now orc oid [] pa po).2.2 ≠ .raised e) :
    ∃ c1, (c1 = a.cl ∨ ProvOK parts minPer split oid a.cl c1) ∧
      ((a.allocTasksIter now orc oid [] pa po).1.cl = c1.releaseBatch oid ∨
       (a.allocTasksIter now orc oid [] pa po).1.cl = (c1.releaseBatch oid).releaseBatch oid) := by
  have hc1 := updateCurrentPlan_core a oid
  have ha1 : (a.updateCurrentPlan oid).alg = .batch parts minPer split := by
    rw [updateCurrentPlan_alg]; exact halg
  have hout := allocTasksIter_out a now orc oid [] pa po
  generalize a.allocTasksIter now orc oid [] pa po = r at hout hok ⊢
  have h3 : ∀ plan out, (a.updateCurrentPlan oid).plan? oid = some plan →
      (a.updateCurrentPlan oid).runAlgorithm orc plan [] po = .ok out →
      out.status = .finished ∧ out.schedule = [] ∧
      ∃ c1, (c1 = a.cl ∨ ProvOK parts minPer split oid a.cl c1) ∧ out.cl = c1.releaseBatch oid := by
    intro plan out hplan' hrun
    rw [runAlgorithm_batch ha1] at hrun
    obtain ⟨_, hobs⟩ := plan?_mem hplan'
    have hpt : plan.tasks = [] := by
      have : planTasks (a.updateCurrentPlan oid) oid = plan.tasks := by unfold planTasks; rw [hplan']
      rw [← this]; exact hE
    obtain ⟨_, _, _, _, _, hsch⟩ := batchRun_cl _ _ _ _ _ _ _ _ _ hrun
    obtain ⟨c1, g1, g2, g3, _⟩ := batchRun_resStep _ _ _ _ _ _ _ _ _ hrun
    rw [hobs, hc1.cl] at g1
    rw [hobs] at g2
    refine ⟨?_, hsch hpt, c1, g1, ?_⟩
    · rw [g3]; unfold Alg.finishStatus; simp [hpt]
    · rcases g2 with ⟨hne, _⟩ | ⟨_, e⟩
      · exact absurd hpt hne
      · exact e
  cases hout with
  | noPlan hnp => rw [hnp] at hplan; simp at hplan
  | algErr _ e _ _ => exact absurd rfl (hok e)
  | finish plan out hplan' hrun _ _ _ _ =>
    obtain ⟨_, _, c1, g1, g2⟩ := h3 plan out hplan' hrun
    refine ⟨c1, g1, Or.inr ?_⟩
    show (atS3 (a.updateCurrentPlan oid) out oid).cl.releaseBatch oid = _
    rw [atS3_cl, g2]
  | finishBad plan out _ _ _ _ _ _ => exact absurd rfl (hok .value)
  | finishWait plan out hplan' hrun _ _ _ =>
    obtain ⟨_, _, c1, g1, g2⟩ := h3 plan out hplan' hrun
    refine ⟨c1, g1, Or.inl ?_⟩
    show (atS3 (a.updateCurrentPlan oid) out oid).cl = _
    rw [atS3_cl, g2]
  | idle plan out hplan' hrun _ hnf =>
    exact absurd (h3 plan out hplan' hrun).1 hnf
  | alloc plan out y hplan' hrun hemp _ =>
    have := (h3 plan out hplan' hrun).2.1
    rw [this] at hemp; simp at hemp

/-- the block of `allocate_tasks` of `o` that finds every remaining task of the plan FINISHED, and
does not raise: afterwards `o` holds no reservation, every machine that was idle in it is in the
available pool, and no task allocated for `o` was still polling (the reservation was whole) -/
theorem resume_release {s0 s : Sys} (hw : WFConfig s0) (hbuf : bufList s0.buf = [])
    {parts minPer : Nat} {split : Option (List (Oid × Nat × Nat))} (halg : s0.alg = .batch parts minPer split)
    (h : Reach s0 s) {pid : Nat} (hen : s.enabled pid) (orc : Oracle) (p : Proc) (hp : s.proc? pid = some p)
    {o : Oid} {sc pa : List (Tid × Mid)} {po : List Tid} (hk : p.k = .allocTasks o sc pa po false)
    (hdone : ∀ t ∈ planTasks s o, tstat s t = .finished)
    (hok : ∀ e, (s.resume pid orc).2 ≠ .raised e) :
    ¬ HasRes (s.resume pid orc).1.cl o ∧
    (∀ m ∈ s.cl.idleOf (some o), m ∈ (s.resume pid orc).1.cl.available) ∧
    (∀ e ∈ s.cl.runOn, e.ing = false → e.obs ≠ some o) := by
  have hno : s0.alg ≠ .oracle := by rw [halg]; simp
  have hs := reach_inv s0 s hw (h.toOk hno)
  have hri := reach_ri s0 s hw hbuf halg h
  have halg' : s.alg = .batch parts minPer split := by rw [reach_alg h]; exact halg
  obtain ⟨U, hU⟩ := hs.ci
  obtain ⟨p', hp', ha, hmin⟩ := hen
  rw [hp] at hp'
  injection hp' with e
  subst e
  obtain ⟨hpm, hpid⟩ := proc?_some hp
  subst hpid
  -- no task allocated for `o` is polling
  have hnoRun : ∀ e ∈ s.cl.runOn, e.ing = false → e.obs ≠ some o := by
    intro e he hi ho
    obtain ⟨q, hq, hqa, _, preds, ret, hqk⟩ := hri.rc e he
    rw [ho, hi] at hqk
    obtain ⟨g1, g2⟩ := hri.st q hq hqa _ _ _ _ _ hqk
    exact g1 (hdone _ g2)
  -- the local schedule is empty
  have hsc : sc = [] := by
    cases sc with
    | nil => rfl
    | cons x r =>
      exfalso
      obtain ⟨g1, g2⟩ := (hri.sl p hpm ha o _ pa po hk).2 x.1 (by simp)
      rw [hdone _ g1] at g2; simp at g2
  subst hsc
  obtain ⟨h1, e_procs, _, _, e_cl, _, e_ts⟩ := hri.pruned p.wake p.pc o
  have hplan : (((atStart s p.wake p.pc o).updateCurrentPlan o).plan? o).isSome = true :=
    (h1.atsQ p (by rw [e_procs]; exact hpm) ha o [] pa po hk).2
  have hE : planTasks ((atStart s p.wake p.pc o).updateCurrentPlan o) o = [] := by
    cases hx : planTasks ((atStart s p.wake p.pc o).updateCurrentPlan o) o with
    | nil => rfl
    | cons t r =>
      exfalso
      obtain ⟨g1, g2⟩ := pruned_planTasks (atStart s p.wake p.pc o) o t (by rw [hx]; simp)
      rw [atStart_planTasks] at g1
      rw [atStart_tstat] at g2
      exact g2 (hdone t g1)
  have hb : s.block p orc = (atStart s p.wake p.pc o).allocTasksIter p.wake orc o [] pa po := by
    unfold block; simp only [hk]
    exact allocTasksBlock_eq s p.wake orc p.pc o [] pa po
  rw [resume_yield hp ha orc, hb] at hok
  obtain ⟨c1, g1, g2⟩ := allocTasksIter_release (a := atStart s p.wake p.pc o)
    (by rw [atStart_alg]; exact halg') p.wake orc o pa po hplan hE hok
  rw [atStart_cl] at g1
  rw [resume_cl_block hp ha orc, hb]
  -- the cluster after the (possibly new) reservation: a reservation of `o` has an idle machine
  have hc1 : KeyNE c1 ∧ (dictKeys c1.idle).Nodup ∧ c1.runOn = s.cl.runOn ∧
      (∀ m ∈ s.cl.idleOf (some o), m ∈ c1.idleOf (some o) ∨ m ∈ c1.available) := by
    rcases g1 with e | ⟨hnp, _, n, _, _, _, hpb⟩
    · subst e; exact ⟨hri.keyNE, hU.inv.keys, rfl, fun m hm => Or.inl hm⟩
    · have hok1 : (s.cl.provisionBatch n o).2 = none := by rw [hpb]
      obtain ⟨a1, a2, _⟩ := provisionBatch_key s.cl n o hri.keyNE hok1
      have hk1 := (provisionBatch_ok hU.inv n o).1.keys
      rw [hpb] at a1 a2 hk1
      refine ⟨a1, hk1, a2, fun m hm => ?_⟩
      exfalso
      obtain ⟨l, hl, _⟩ := mem_idleOf_iff.mp hm
      unfold Cluster.isProvisioned dictHas at hnp
      rw [hl] at hnp; simp at hnp
  obtain ⟨k1, k2, k3, k4⟩ := hc1
  -- one release empties the reservation
  have hrel : ¬ HasRes (c1.releaseBatch o) o ∧
      ∀ m ∈ s.cl.idleOf (some o), m ∈ (c1.releaseBatch o).available := by
    cases hg : dictGet c1.idle o with
    | none =>
      rw [releaseBatch_none c1 o hg]
      refine ⟨fun ⟨l, hl⟩ => by rw [hg] at hl; exact absurd hl (by simp), fun m hm => ?_⟩
      rcases k4 m hm with h5 | h5
      · obtain ⟨l, hl, _⟩ := mem_idleOf_iff.mp h5
        rw [hg] at hl; exact absurd hl (by simp)
      · exact h5
    | some l =>
      have hlne : l ≠ [] := by
        rcases k1 o l hg with h5 | ⟨e, he, h6, h7⟩
        · exact h5
        · rw [k3] at he
          exact absurd h6 (hnoRun e he h7)
      obtain ⟨r1, r2, _⟩ := releaseBatch_returns c1 o l hg hlne k2
      refine ⟨fun ⟨l', hl'⟩ => ?_, fun m hm => ?_⟩
      · unfold dictHas at r2
        rw [hl'] at r2; simp at r2
      · rw [r1]
        rcases k4 m hm with h5 | h5
        · rw [idleOf_of_get hg] at h5; exact List.mem_append_right _ h5
        · exact List.mem_append_left _ h5
  refine ⟨?_, ?_, hnoRun⟩
  · rcases g2 with e | e
    · rw [e]; exact hrel.1
    · rw [e]; exact fun hh => hrel.1 (hasRes_of_release hh)
  · intro m hm
    rcases g2 with e | e
    · rw [e]; exact hrel.2 m hm
    · rw [e]
      have hnone : dictGet (c1.releaseBatch o).idle o = none := by
        cases hx : dictGet (c1.releaseBatch o).idle o with
        | none => rfl
        | some v => exact absurd ⟨v, hx⟩ hrel.1
      rw [releaseBatch_none _ o hnone]; exact hrel.2 m hm

end Sys
end Topsim
