/-
  LiveB1 — BatchProcessing, liveness: a gap of `Feasible` for a per-observation split.

  With `resource_split` given, `Feasible` asks `1 ≤ lo ≤ hi`, `lo ≤ len(cluster)` and
  `min_resources_per_workflow ≤ hi` of every observation, but NOT
  `min_resources_per_workflow ≤ len(cluster)`.  `_max_resource_provision` returns
  `min(available, hi) ≤ len(cluster)`, `_provision_resources` refuses a provision below
  `min_resources_per_workflow`: with `min_resources_per_workflow > len(cluster)` every request is
  refused, for ever, silently (the guard `min_resource_limit > len(cluster)` that raises RuntimeError
  looks at the split's minimum only).  Without a split `Feasible` has
  `max 1 minPer ≤ floor(machines / partitions)` and the gap does not exist.

  Configuration `lbHangW`: ONE machine, BatchProcessing with one partition,
  `min_resources_per_workflow = 2`, `resource_split = {0: (1, 5)}`; one observation (one array, one
  ingest machine, one timestep, rate 1, workflow = one node).  Well formed, feasible, H1, H2, H4.
  The observation is ingested at t = 0, planned at t = 1, and its `allocate_tasks` process asks for a
  reservation in every timestep from t = 1 on: `min(1, 5) = 1 < 2`, refused.  At t = 60 nothing has
  raised, the run is not at `is_finished()`, no reservation exists, the machine is available, the task
  is UNSCHEDULED, the observation is still in the scheduler's queue.

  Hence the extra hypothesis of `C05_terminates_batch_simpy` for a split:
  `minPer ≤ s0.machines.length`.
-/
import TopsimProofs.Live16
import TopsimProofs.Reserve8

namespace Topsim
namespace Sys

def lbHangObs : Obs :=
  { id := 0, est := 0, duration := 1, demand := 1, rate := 1, ingestDemand := 1,
    wf := ⟨[(0, 10, 0)], [], [0]⟩ }

def lbHangW : Sys :=
  { machines := [⟨0, 10, 2⟩], totalArrays := 1, maxIngest := 1, alg := .batch 1 2 (some [(0, 1, 5)]),
    cl := Cluster.init [0], buf := Buffer.init 1000 50 1000 50, obs := [lbHangObs] }

theorem lbHangW_wf : WFConfig lbHangW := by
  refine ⟨by decide, rfl, by decide, ?_, ⟨rfl, rfl, rfl, rfl, rfl, rfl, rfl, rfl, rfl, rfl, rfl, rfl, rfl,
    rfl, rfl, rfl, rfl⟩⟩
  intro o ho
  simp only [lbHangW, List.mem_cons, List.not_mem_nil, or_false] at ho
  subst ho
  exact ⟨rfl, rfl, by decide, by decide⟩

theorem lbHangW_feasible : Feasible lbHangW := by
  simp [Feasible, lbHangW, lbHangObs, Buffer.init, dictGet]
  exact ⟨1, 5, ⟨rfl, rfl⟩, by omega, by omega, by omega, by omega⟩

theorem lbHangW_h1 : NoTierCfg lbHangW := by
  unfold NoTierCfg
  decide

theorem lbHangW_h2 : OneAdmission lbHangW := by
  intro o1 h1 o2 h2 hne
  simp only [lbHangW, List.mem_cons, List.not_mem_nil, or_false] at h1 h2
  subst h1; subst h2
  exact absurd rfl hne

theorem lbHangW_topo : ∀ o ∈ lbHangW.obs, IsTopo o.wf := by
  intro o ho
  simp only [lbHangW, List.mem_cons, List.not_mem_nil, or_false] at ho
  subst ho
  exact ⟨by decide, by intro n; simp [lbHangObs], by decide⟩

/-- the run until every event before t = 60 -/
def lbHangK : SimState := witRun lbHangW 60 4000

set_option maxRecDepth 100000 in
unseal Rat.add in
theorem lbHangK_spec :
    lbHangK.st.crashed = none ∧ lbHangK.st.halted = false ∧ lbHangK.st.isFinished = false ∧
    lbHangK.st.cl.idle = [] ∧ lbHangK.st.cl.numProv = 0 ∧ lbHangK.st.cl.available = [0] ∧
    lbHangK.st.cl.occupied = [] ∧ lbHangK.st.cl.ingest = [] ∧ lbHangK.st.queue = [0] ∧
    lbHangK.st.tasks.map (fun r => (r.id, r.status)) =
      [(.ingest 0 0, .finished), (.wf 0 1 0, .unscheduled)] ∧
    lbHangK.st.obs.map (fun o => (o.id, o.ast, o.status)) = [(0, some 0, .finished)] ∧
    (lbHangK.peek.map (·.time)) = some 60 := by
  decide +kernel

theorem lbHangK_run : SimRun {} lbHangW lbHangK := witRun_simRun lbHangW 60 4000

end Sys
end Topsim
