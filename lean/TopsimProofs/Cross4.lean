/-
  Cross4 — `CrossCX` under a block of `allocate_tasks`, and along every run of a shipped
  algorithm that has not crashed.
-/
import TopsimProofs.Cross3

namespace Topsim
namespace Sys

open Cluster

/-- what the cluster reports finished has a body, and a record that has left UNSCHEDULED -/
theorem cross_body_of_fin {s : Sys} (hs : SInv s) (hwi : WI s) (hpr : PR s) {x : Tid} (hw : IsWf x)
    (hf : FinT s x) :
    (∃ d ∈ s.procs, ∃ m' c ph tot, d.k = .doWork x m' c ph tot) ∧ tstat s x ≠ .unscheduled := by
  obtain ⟨rq, h1, h2, _⟩ := hpr.finRec x hw hf
  have hst : rq.id ∈ s.starts := hwi.fs rq (List.mem_of_find?_eq_some h1) h2
  rw [task?_id h1] at hst
  obtain ⟨d, hd, m', c, ph, tot, hdk, _⟩ := hs.dg.startsDw x hst
  refine ⟨⟨d, hd, m', c, ph, tot, hdk⟩, ?_⟩
  rw [tstat_eq, h1]
  simp [h2]

/-- the task of a body has left UNSCHEDULED -/
theorem cross_dw_sched {s : Sys} (hs : SInv s) {d : Proc} (hd : d ∈ s.procs) {t m preds ph tot}
    (hk : d.k = .doWork t m preds ph tot) : tstat s t ≠ .unscheduled := by
  obtain ⟨U, hU⟩ := hs.ci
  have hu : t ∈ U := by
    rcases hs.dg.dwUsed d hd t m preds ph tot hk with h | h
    · exact hU.inv.usedRun t h
    · exact hU.inv.usedFin t h
  exact tstat_of_sched (hU.usedRec t hu)

/-- … and so has the task of an allocation process -/
theorem cross_at_sched {s : Sys} (hs : SInv s) {q : Proc} (hq : q ∈ s.procs) {t m preds obs ing ret}
    (hk : q.k = .allocTask t m preds obs ing ret) : tstat s t ≠ .unscheduled := by
  obtain ⟨U, hU⟩ := hs.ci
  exact tstat_of_sched (hU.hasRec q hq t m preds obs ing ret hk)

theorem cross_cx_allocTasks {s : Sys} (h : CrossCX s) (hpr : PR s) (hs : SInv s) (hst : ST s) (hwi : WI s)
    (hno : s.alg ≠ .oracle) {p : Proc} (hp : p ∈ s.procs) (ha : p.alive = true)
    (hmin : ∀ q ∈ s.procs, q.alive = true → p.wake ≤ q.wake)
    (orc : Oracle) {o sc pa po fn} (hk : p.k = .allocTasks o sc pa po fn)
    (hnr : ∀ e, (s.block p orc).2.2 ≠ .raised e) :
    CrossCX ((s.block p orc).1.updProc p.pid (fin (s.block p orc).2.1 (s.block p orc).2.2 p.wake)) := by
  have hb : s.block p orc = s.allocTasksBlock p.wake orc p.pc o sc pa po fn := by
    unfold block; simp only [hk]
  have hq := quietB_allocTasksBlock s hno p.wake orc p.pc o sc pa po fn
  obtain ⟨sc', pa', po', fn', g1, _, g3⟩ := allocTasksBlock_sum hst hno p.wake orc p.pc o sc pa po fn
  obtain ⟨sc2, pa2, po2, fn2, c1, cout⟩ := cross_allocTasksBlock_sum s p.wake orc p.pc o sc pa po fn
    (by rw [← hb]; exact hnr)
  rw [g1] at c1
  simp only [PK.allocTasks.injEq, true_and] at c1
  obtain ⟨e1, e2, e3, e4⟩ := c1
  subst e1 e2 e3 e4
  rw [← hb] at hq g1 g3 cout
  have htel : p.k = .telescope → ((natNow p.wake : Nat) : Time) = p.wake := by
    intro e; rw [hk] at e; exact absurd e (by simp)
  have hpc := resume_procs hs hp ha hmin orc htel
  have hold := fun {q : Proc} (hq : q ∈ s.procs) (hne : q.pid ≠ p.pid) =>
    cross_old_mem hs hp ha hmin orc (fin (s.block p orc).2.1 (s.block p orc).2.2 p.wake) hq hne
  have hself := cross_self_mem hs hp ha hmin orc (fin (s.block p orc).2.1 (s.block p orc).2.2 p.wake)
  have hnewm := fun {q : Proc} (hq : q ∈ (s.block p orc).1.procs) (hne : q.k.tag ≠ p.k.tag) =>
    cross_new_mem hs hp ha hmin orc (fin (s.block p orc).2.1 (s.block p orc).2.2 p.wake) hq hne
  have hptag : p.k.tag = "allocTasks" := by rw [hk]; rfl
  -- a process of another kind is not the one that runs
  have hnek : ∀ {q : Proc}, q ∈ s.procs → q.k.tag ≠ "allocTasks" → q.pid ≠ p.pid := by
    intro q hq hn e
    have : q = p := hs.pw.eq_of_pid hq hp e
    rw [this] at hn
    exact hn hptag
  have hT : TaskStepS s (s.block p orc).1 := hq.task.toS
  have hkeepDW : CrossKeepDW s ((s.block p orc).1.updProc p.pid (fin (s.block p orc).2.1 (s.block p orc).2.2 p.wake)) := by
    intro d hd x m c ph tot hdk
    exact ⟨d, hold hd (hnek hd (by rw [hdk]; simp [PK.tag])), ph, tot, hdk⟩
  -- the three kinds of process after the block
  have L1 : ∀ P' ∈ ((s.block p orc).1.updProc p.pid (fin (s.block p orc).2.1 (s.block p orc).2.2 p.wake)).procs,
      ∀ o1 sc1 A po1 fn1, P'.k = .allocTasks o1 sc1 A po1 fn1 →
        (o1 = o ∧ A = pa') ∨ (P' ∈ s.procs ∧ P'.pid ≠ p.pid) := by
    intro P' hP' o1 sc1 A po1 fn1 hPk
    rcases hpc P' hP' with rfl | ⟨h1, h2⟩ | ⟨h1, h2, _⟩
    · rw [fin_k, g1] at hPk
      simp only [PK.allocTasks.injEq] at hPk
      exact Or.inl ⟨hPk.1.symm, hPk.2.2.1.symm⟩
    · exact Or.inr ⟨h1, h2⟩
    · rcases cout.procs P' h1 with h3 | ⟨t, m, paq, r, k1, _⟩
      · exact absurd h3 h2
      · rw [k1] at hPk; exact absurd hPk (by simp)
  have L2 : ∀ q' ∈ ((s.block p orc).1.updProc p.pid (fin (s.block p orc).2.1 (s.block p orc).2.2 p.wake)).procs,
      ∀ x m' c ob ret, q'.k = .allocTask x m' c ob false ret →
        (q' ∈ s.procs ∧ q'.pid ≠ p.pid) ∨
        (q' ∈ (s.block p orc).1.procs ∧ ob = some o ∧ tstat s x = .unscheduled ∧ dictGet pa' x = some m' ∧
          ∃ paq r, c = crossPreds paq r.preds m' ∧ (s.block p orc).1.task? x = some r ∧
            (∀ y ∈ r.preds, dictHas paq y = true) ∧
            (∀ y, tstat s y ≠ .unscheduled → dictGet paq y = dictGet pa y)) := by
    intro q' hq' x m' c ob ret hqk
    rcases hpc q' hq' with rfl | ⟨h1, h2⟩ | ⟨h1, h2, _⟩
    · rw [fin_k, g1] at hqk; exact absurd hqk (by simp)
    · exact Or.inl ⟨h1, h2⟩
    · rcases cout.procs q' h1 with h3 | ⟨t, m, paq, r, k1, k2, k3, k4, k5, k6⟩
      · exact absurd h3 h2
      · rw [k1] at hqk
        simp only [PK.allocTask.injEq] at hqk
        obtain ⟨a1, a2, a3, a4, _⟩ := hqk
        subst a1 a2
        exact Or.inr ⟨h1, a4.symm, k2, k3, paq, r, a3.symm, k4, k5, k6⟩
  have L3 : ∀ d' ∈ ((s.block p orc).1.updProc p.pid (fin (s.block p orc).2.1 (s.block p orc).2.2 p.wake)).procs,
      ∀ x m' c ph tot, d'.k = .doWork x m' c ph tot → d' ∈ s.procs ∧ d'.pid ≠ p.pid := by
    intro d' hd' x m' c ph tot hdk
    rcases hpc d' hd' with rfl | ⟨h1, h2⟩ | ⟨h1, h2, _⟩
    · rw [fin_k, g1] at hdk; exact absurd hdk (by simp)
    · exact ⟨h1, h2⟩
    · rcases cout.procs d' h1 with h3 | ⟨t, m, paq, r, k1, _⟩
      · exact absurd h3 h2
      · rw [k1] at hdk; exact absurd hdk (by simp)
  -- the process that ran, with its new table
  have hselfk : (fin (s.block p orc).2.1 (s.block p orc).2.2 p.wake p).k = .allocTasks o sc' pa' po' fn' := by
    rw [fin_k, g1]
  -- a table of the old state, carried over
  have hcarry : ∀ P ∈ s.procs, ∀ o1 sc1 A po1 fn1, P.k = .allocTasks o1 sc1 A po1 fn1 → ∀ x mx,
      tstat s x ≠ .unscheduled → dictGet A x = some mx →
      ∃ P' ∈ ((s.block p orc).1.updProc p.pid (fin (s.block p orc).2.1 (s.block p orc).2.2 p.wake)).procs,
        ∃ sc2 A' po2 fn2, P'.k = .allocTasks o1 sc2 A' po2 fn2 ∧ dictGet A' x = some mx := by
    intro P hP o1 sc1 A po1 fn1 hPk x mx hx hg
    by_cases e : P.pid = p.pid
    · have : P = p := hs.pw.eq_of_pid hP hp e
      subst this
      rw [hk] at hPk
      simp only [PK.allocTasks.injEq] at hPk
      obtain ⟨a1, _, a3, _⟩ := hPk
      subst a1 a3
      exact ⟨_, hself, sc', pa', po', fn', hselfk, by rw [cout.keep x hx]; exact hg⟩
    · exact ⟨P, hold hP e, sc1, A, po1, fn1, hPk, hg⟩
  constructor
  · -- paWit
    intro P' hP' o1 sc1 A po1 fn1 hPk x mx hg
    rcases L1 P' hP' o1 sc1 A po1 fn1 hPk with ⟨_, rfl⟩ | ⟨h1, _⟩
    · rcases cout.wit x mx hg with h2 | ⟨q, hq', m', c, hqk⟩
      · obtain ⟨q, hq', m', c, ob, ret, hqk⟩ := h.paWit p hp o sc pa po fn hk x mx h2
        exact ⟨q, hold hq' (hnek hq' (by rw [hqk]; simp [PK.tag])), m', c, ob, ret, hqk⟩
      · exact ⟨q, hnewm hq' (by rw [hqk, hptag]; simp [PK.tag]), m', c, some o, 0, hqk⟩
    · obtain ⟨q, hq', m', c, ob, ret, hqk⟩ := h.paWit P' h1 o1 sc1 A po1 fn1 hPk x mx hg
      exact ⟨q, hold hq' (hnek hq' (by rw [hqk]; simp [PK.tag])), m', c, ob, ret, hqk⟩
  · -- paAT
    intro P' hP' o1 sc1 A po1 fn1 hPk q' hq' x m' c ob ret hqk mx hg
    rcases L2 q' hq' x m' c ob ret hqk with ⟨h1, _⟩ | ⟨_, _, hun, hpa', _⟩
    · have hx := cross_at_sched hs h1 hqk
      rcases L1 P' hP' o1 sc1 A po1 fn1 hPk with ⟨_, rfl⟩ | ⟨h3, _⟩
      · rw [cout.keep x hx] at hg
        exact h.paAT p hp o sc pa po fn hk q' h1 x m' c ob ret hqk mx hg
      · exact h.paAT P' h3 o1 sc1 A po1 fn1 hPk q' h1 x m' c ob ret hqk mx hg
    · rcases L1 P' hP' o1 sc1 A po1 fn1 hPk with ⟨_, rfl⟩ | ⟨h3, _⟩
      · rw [hpa'] at hg; injection hg with hg; exact hg.symm
      · obtain ⟨q, hq0, m0, c0, ob0, ret0, hqk0⟩ := h.paWit P' h3 o1 sc1 A po1 fn1 hPk x mx hg
        exact absurd hun (cross_at_sched hs hq0 hqk0)
  · -- paDW
    intro P' hP' o1 sc1 A po1 fn1 hPk d' hd' x m' c ph tot hdk hw mx hg
    obtain ⟨h1, _⟩ := L3 d' hd' x m' c ph tot hdk
    have hx := cross_dw_sched hs h1 hdk
    rcases L1 P' hP' o1 sc1 A po1 fn1 hPk with ⟨_, rfl⟩ | ⟨h3, _⟩
    · rw [cout.keep x hx] at hg
      exact h.paDW p hp o sc pa po fn hk d' h1 x m' c ph tot hdk hw mx hg
    · exact h.paDW P' h3 o1 sc1 A po1 fn1 hPk d' h1 x m' c ph tot hdk hw mx hg
  · -- atTab
    intro q' hq' x m' c ob ret hqk
    rcases L2 q' hq' x m' c ob ret hqk with ⟨h1, _⟩ | ⟨_, hob, _, hpa', _⟩
    · obtain ⟨o1, ho1, P, hP, sc1, A, po1, fn1, hPk, hg⟩ := h.atTab q' h1 x m' c ob ret hqk
      obtain ⟨P', hP', sc2, A', po2, fn2, hPk', hg'⟩ :=
        hcarry P hP o1 sc1 A po1 fn1 hPk x m' (cross_at_sched hs h1 hqk) hg
      exact ⟨o1, ho1, P', hP', sc2, A', po2, fn2, hPk', hg'⟩
    · exact ⟨o, hob, _, hself, sc', pa', po', fn', hselfk, hpa'⟩
  · -- dwTab
    intro d' hd' x m' c ph tot hdk hw
    obtain ⟨h1, _⟩ := L3 d' hd' x m' c ph tot hdk
    obtain ⟨P, hP, o1, sc1, A, po1, fn1, hPk, hg⟩ := h.dwTab d' h1 x m' c ph tot hdk hw
    obtain ⟨P', hP', sc2, A', po2, fn2, hPk', hg'⟩ :=
      hcarry P hP o1 sc1 A po1 fn1 hPk x m' (cross_dw_sched hs h1 hdk) hg
    exact ⟨P', hP', o1, sc2, A', po2, fn2, hPk', hg'⟩
  · -- atCross
    intro q' hq' t m cross ob ret hqk
    rcases L2 q' hq' t m cross ob ret hqk with ⟨h1, _⟩ | ⟨hqX, _, _, _, paq, r, hcr, hr, hdh, hpq⟩
    · exact (h.atCross q' h1 t m cross ob ret hqk).mono (hT.of_tasks_eq rfl) hkeepDW
    · -- the task is ready: its predecessors are workflow tasks reported finished
      have hrd : Rdy (s.block p orc).1 t := by
        rcases g3 q' hqX with h3 | ⟨t2, m2, cross2, e, ht, _⟩
        · -- an old process: its task had left UNSCHEDULED
          obtain ⟨r0, hr0, hq0⟩ := hpr.atRdy q' h3 t m cross ob ret hqk
          exact hq.rdy ⟨r0, hr0, hq0⟩
        · rw [hqk] at e
          simp only [PK.allocTask.injEq] at e
          obtain ⟨a1, _⟩ := e
          subst a1
          rcases ht with h4 | h4
          · exact hq.rdy (hpr.schedRdy p hp o sc pa po fn hk t h4)
          · exact h4.1
      obtain ⟨r0, hr0, hq0⟩ := hrd
      rw [hr] at hr0
      injection hr0 with e0
      subst e0
      subst hcr
      refine ⟨r, hr, fun x hx => ((crossPreds_iff paq r.preds m x).mp hx).1, ?_⟩
      intro x hx
      obtain ⟨hxw, hxf⟩ := hq0 x hx
      have hxf' : FinT s x := (finT_congr hq.fin x).mp hxf
      obtain ⟨⟨d, hd, m', c, ph, tot, hdk⟩, hxs⟩ := cross_body_of_fin hs hwi hpr hxw hxf'
      obtain ⟨mx, hmx⟩ := cross_dictHas_get (hdh x hx)
      have hmx' : dictGet pa x = some mx := by rw [← hpq x hxs]; exact hmx
      have hmm : mx = m' := h.paDW p hp o sc pa po fn hk d hd x m' c ph tot hdk hxw mx hmx'
      subst hmm
      have hdY := hold hd (hnek hd (by rw [hdk]; simp [PK.tag]))
      constructor
      · intro hc
        have := ((crossPreds_iff paq r.preds m x).mp hc).2
        rw [hmx] at this
        exact ⟨d, hdY, mx, c, ph, tot, hdk, fun e => this (by rw [e])⟩
      · intro hc
        have : dictGet paq x = some m := by
          by_cases e : dictGet paq x = some m
          · exact e
          · exact absurd ((crossPreds_iff paq r.preds m x).mpr ⟨hx, e⟩) hc
        rw [hmx] at this
        injection this with this
        exact ⟨d, hdY, mx, c, ph, tot, hdk, this⟩
  · -- dwCross
    intro d' hd' t m cross ph tot hdk hw
    obtain ⟨h1, _⟩ := L3 d' hd' t m cross ph tot hdk
    exact (h.dwCross d' h1 t m cross ph tot hdk hw).mono (hT.of_tasks_eq rfl) hkeepDW

/-! ### along a run -/

def CrossCXInv (s : Sys) : Prop := s.crashed = none → CrossCX s

theorem cross_start_cx (s0 : Sys) (hw : WFConfig s0) : CrossCX s0.start := by
  obtain ⟨hprocs, _⟩ := hw.fresh
  have hp : s0.start.procs = s0.procs ++
      [{ pid := s0.nextPid, k := .monitor, wake := 0 }, { pid := s0.nextPid + 1, k := .telescope, wake := 0 },
       { pid := s0.nextPid + 2, k := .clusterLoop, wake := 0 }, { pid := s0.nextPid + 3, k := .schedLoop, wake := 0 },
       { pid := s0.nextPid + 4, k := .bufferLoop, wake := 0 }] := by
    simp [start, spawn]
  rw [hprocs] at hp
  simp only [List.nil_append] at hp
  constructor
  · intro p hp' o sc pa po fn hk
    rw [hp] at hp'
    simp only [List.mem_cons, List.not_mem_nil, or_false] at hp'
    rcases hp' with rfl | rfl | rfl | rfl | rfl <;> simp at hk
  · intro p hp' o sc pa po fn hk
    rw [hp] at hp'
    simp only [List.mem_cons, List.not_mem_nil, or_false] at hp'
    rcases hp' with rfl | rfl | rfl | rfl | rfl <;> simp at hk
  · intro p hp' o sc pa po fn hk
    rw [hp] at hp'
    simp only [List.mem_cons, List.not_mem_nil, or_false] at hp'
    rcases hp' with rfl | rfl | rfl | rfl | rfl <;> simp at hk
  · intro p hp' x m' c ob ret hk
    rw [hp] at hp'
    simp only [List.mem_cons, List.not_mem_nil, or_false] at hp'
    rcases hp' with rfl | rfl | rfl | rfl | rfl <;> simp at hk
  · intro p hp' x m' c ph tot hk
    rw [hp] at hp'
    simp only [List.mem_cons, List.not_mem_nil, or_false] at hp'
    rcases hp' with rfl | rfl | rfl | rfl | rfl <;> simp at hk
  · intro p hp' x m' c ob ret hk
    rw [hp] at hp'
    simp only [List.mem_cons, List.not_mem_nil, or_false] at hp'
    rcases hp' with rfl | rfl | rfl | rfl | rfl <;> simp at hk
  · intro p hp' x m' c ph tot hk
    rw [hp] at hp'
    simp only [List.mem_cons, List.not_mem_nil, or_false] at hp'
    rcases hp' with rfl | rfl | rfl | rfl | rfl <;> simp at hk

theorem cross_cx_step {s : Sys} (hs : SInv s) (hwi : WInv s) (hst : STInv s) (hpr : PRInv s) (h : CrossCXInv s)
    (hno : s.alg ≠ .oracle) {pid : Nat} (hen : s.enabled pid) (orc : Oracle) :
    CrossCXInv (s.resume pid orc).1 := by
  intro hc
  obtain ⟨p, hp, ha, hmin⟩ := hen
  obtain ⟨hc0, hnr⟩ := resume_nocrash s pid orc p hp ha hc
  have hcx := h hc0
  have hprs := hpr hc0
  obtain ⟨hpm, hpid⟩ := proc?_some hp
  subst hpid
  refine CrossCX.core ?_ (resume_core s p.pid orc p hp ha)
  by_cases h2 : p.k.tag = "allocTask"
  · cases hk : p.k with
    | allocTask t m preds obs ing ret => exact cross_cx_allocTask hcx hs hpm ha hmin orc hk
    | _ => rw [hk] at h2; simp [PK.tag] at h2
  · by_cases h3 : p.k.tag = "doWork"
    · cases hk : p.k with
      | doWork t m preds ph tot => exact cross_cx_doWork hcx hs hpm ha hmin orc hk
      | _ => rw [hk] at h3; simp [PK.tag] at h3
    · by_cases h4 : p.k.tag = "allocTasks"
      · cases hk : p.k with
        | allocTasks o sc pa po fn =>
          exact cross_cx_allocTasks hcx hprs hs (hst hc0) (hwi hc0) hno hpm ha hmin orc hk hnr
        | _ => rw [hk] at h4; simp [PK.tag] at h4
      · exact cross_cx_harmless hcx hprs hs hno hpm ha hmin orc h2 h3 h4

theorem cross_reach_cx (s0 s : Sys) (hw : WFConfig s0) (hbuf : bufList s0.buf = []) (hno : s0.alg ≠ .oracle)
    (h : Reach s0 s) : CrossCXInv s := by
  induction h with
  | start => exact fun _ => cross_start_cx s0 hw
  | step s pid orc hr hen ih =>
    have hok := hr.toOk hno
    exact cross_cx_step (reach_inv s0 s hw hok) (reachOk_wi s0 s hw hbuf hok)
      (reach_st s0 s hw hbuf hno hr) (reach_pr s0 s hw hbuf hno hr) ih (by rw [reach_alg hr]; exact hno) hen orc

end Sys
end Topsim
