/-
  LifeCycle1 — the events EMITTED by one step and by a whole trajectory (C13 on
  trajectories).  `stepEvents s pid orc` is what the block of `pid` appends to the
  three pending lists (after the owner loop's own clearing); `ReachEv s0 s evs` is
  `Reach s0 s` together with the events emitted on the way, in order.
-/
import TopsimProofs.FinishStr3
import TopsimProofs.BlockLemmas

namespace Topsim
namespace Sys

/-! ### counting the events of one observation and one kind -/

/-- `e` is the event of kind `k` of observation `o` -/
def evIs (o : Oid) (k : EvKind) (e : Event) : Bool := decide (e.obs = o ∧ e.kind = k)

/-- how many events of kind `k` of observation `o` the list holds -/
def evCount (o : Oid) (k : EvKind) (l : List Event) : Nat := l.countP (evIs o k)

@[simp] theorem evCount_nil (o : Oid) (k : EvKind) : evCount o k [] = 0 := rfl

@[simp] theorem evCount_append (o : Oid) (k : EvKind) (l1 l2 : List Event) :
    evCount o k (l1 ++ l2) = evCount o k l1 + evCount o k l2 := by
  unfold evCount; exact List.countP_append

theorem evCount_cons (o : Oid) (k : EvKind) (e : Event) (l : List Event) :
    evCount o k (e :: l) = (if e.obs = o ∧ e.kind = k then 1 else 0) + evCount o k l := by
  unfold evCount
  rw [List.countP_cons]
  by_cases h : e.obs = o ∧ e.kind = k
  · simp [evIs, h]; omega
  · simp [evIs, h]

@[simp] theorem evCount_single (o : Oid) (k : EvKind) (n : Nat) (o' : Oid) (k' : EvKind) :
    evCount o k [⟨n, o', k'⟩] = if o' = o ∧ k' = k then 1 else 0 := by
  rw [evCount_cons]; simp

theorem evCount_eq_filter (o : Oid) (k : EvKind) (l : List Event) :
    evCount o k l = (l.filter (fun e => decide (e.obs = o ∧ e.kind = k))).length := by
  unfold evCount; rw [List.countP_eq_length_filter]; rfl

theorem evCount_pos_iff (o : Oid) (k : EvKind) (l : List Event) :
    0 < evCount o k l ↔ ∃ e ∈ l, e.obs = o ∧ e.kind = k := by
  unfold evCount
  rw [List.countP_pos_iff]
  simp [evIs]

theorem evCount_zero_of_kind (o : Oid) (k : EvKind) (l : List Event)
    (h : ∀ e ∈ l, e.kind ≠ k) : evCount o k l = 0 := by
  cases hc : evCount o k l with
  | zero => rfl
  | succ n =>
    obtain ⟨e, he, _, hk⟩ := (evCount_pos_iff o k l).mp (by omega)
    exact absurd hk (h e he)

/-- two events of the same observation and kind in a list that holds at most one are equal -/
theorem ev_unique {o : Oid} {k : EvKind} {l : List Event} (h : evCount o k l ≤ 1) {e1 e2 : Event}
    (h1 : e1 ∈ l) (h2 : e2 ∈ l) (a1 : e1.obs = o ∧ e1.kind = k) (a2 : e2.obs = o ∧ e2.kind = k) :
    e1 = e2 := by
  induction l with
  | nil => simp at h1
  | cons x r ih =>
    rw [evCount_cons] at h
    rcases List.mem_cons.mp h1 with rfl | h1' <;> rcases List.mem_cons.mp h2 with rfl | h2'
    · rfl
    · have : 0 < evCount o k r := (evCount_pos_iff o k r).mpr ⟨e2, h2', a2⟩
      simp only [a1, and_self, if_true] at h; omega
    · have : 0 < evCount o k r := (evCount_pos_iff o k r).mpr ⟨e1, h1', a1⟩
      simp only [a2, and_self, if_true] at h; omega
    · exact ih (by omega) h1' h2'

/-! ### what one block appends to the pending lists -/

/-- `b` is `a` with `t`, `c`, `u` appended to the telescope's, the scheduler's and the
buffer's pending list -/
structure Ev3 (a b : Sys) (t c u : List Event) : Prop where
  tel : b.telEvents = a.telEvents ++ t
  sch : b.schEvents = a.schEvents ++ c
  buf : b.bufEvents = a.bufEvents ++ u

theorem Ev3.refl (a : Sys) : Ev3 a a [] [] [] := ⟨by simp, by simp, by simp⟩

theorem Ev3.of_eq {a b : Sys} (h1 : b.telEvents = a.telEvents) (h2 : b.schEvents = a.schEvents)
    (h3 : b.bufEvents = a.bufEvents) : Ev3 a b [] [] [] := ⟨by simp [h1], by simp [h2], by simp [h3]⟩

theorem Ev3.trans {a b c : Sys} {t1 c1 u1 t2 c2 u2 : List Event} (h1 : Ev3 a b t1 c1 u1)
    (h2 : Ev3 b c t2 c2 u2) : Ev3 a c (t1 ++ t2) (c1 ++ c2) (u1 ++ u2) :=
  ⟨by rw [h2.tel, h1.tel, List.append_assoc], by rw [h2.sch, h1.sch, List.append_assoc],
   by rw [h2.buf, h1.buf, List.append_assoc]⟩

/-- appending nothing on the left -/
theorem Ev3.trans_nil {a b c : Sys} {t c' u : List Event} (h1 : Ev3 a b [] [] [])
    (h2 : Ev3 b c t c' u) : Ev3 a c t c' u := by
  simpa using h1.trans h2

theorem Ev3.nil_trans {a b c : Sys} {t c' u : List Event} (h1 : Ev3 a b t c' u)
    (h2 : Ev3 b c [] [] []) : Ev3 a c t c' u := by
  simpa using h1.trans h2

theorem Ev3.foldl {α} (f : Sys → α → Sys) (hf : ∀ s x, Ev3 s (f s x) [] [] []) (l : List α) (s : Sys) :
    Ev3 s (l.foldl f s) [] [] [] := by
  induction l generalizing s with
  | nil => exact Ev3.refl s
  | cons x r ih => exact (hf s x).trans_nil (ih _)

/-- closes `Ev3 s T [] [] []` when `T` is built from `s` by branches of structure updates and
helpers that leave the pending lists alone -/
macro "ev3_same" : tactic =>
  `(tactic| ((repeat' split) <;>
      first
        | exact Ev3.refl _
        | exact Ev3.of_eq rfl rfl rfl
        | (refine Ev3.of_eq ?_ ?_ ?_ <;> simp)))

/-- the events emitted by the block of process `p` run in state `s`: what is appended to the
three pending lists, counted from the state in which the block starts (`preClear`: the telescope
and the scheduler loop first drop their own list) -/
def blockEvents (s : Sys) (p : Proc) (orc : Oracle) : List Event :=
  (s.block p orc).1.telEvents.drop (s.preClear p.k).telEvents.length ++
  (s.block p orc).1.schEvents.drop (s.preClear p.k).schEvents.length ++
  (s.block p orc).1.bufEvents.drop (s.preClear p.k).bufEvents.length

/-- the events emitted by `resume s pid orc` -/
def stepEvents (s : Sys) (pid : Nat) (orc : Oracle) : List Event :=
  match s.proc? pid with
  | some p => if p.alive then blockEvents s p orc else []
  | none => []

theorem blockEvents_of_ev3 {s : Sys} {p : Proc} {orc : Oracle} {t c u : List Event}
    (h : Ev3 (s.preClear p.k) (s.block p orc).1 t c u) : blockEvents s p orc = t ++ c ++ u := by
  unfold blockEvents
  rw [h.tel, h.sch, h.buf, List.drop_left, List.drop_left, List.drop_left]

theorem stepEvents_alive {s : Sys} {pid : Nat} {p : Proc} (orc : Oracle) (hp : s.proc? pid = some p)
    (ha : p.alive = true) : s.stepEvents pid orc = blockEvents s p orc := by
  simp [stepEvents, hp, ha]

/-- the frame of a block gives its `Ev3` -/
theorem ev3_of_frame {n : Nat} {a b : Sys} (h : Frame n a b) :
    ∃ t c u, Ev3 a b t c u ∧ ∀ e ∈ t ++ c ++ u, e.time = n := by
  obtain ⟨t, ht, pt⟩ := h.tel
  obtain ⟨c, hc, pc⟩ := h.sch
  obtain ⟨u, hu, pu⟩ := h.buf
  refine ⟨t, c, u, ⟨ht, hc, hu⟩, ?_⟩
  intro e he
  simp only [List.mem_append] at he
  rcases he with (he | he) | he
  · exact pt e he
  · exact pc e he
  · exact pu e he

/-- what `stepEvents` is, for a block other than the monitor's: exactly the three suffixes that
`resume` appends to the pending lists (the telescope and the scheduler loop start from their own
list emptied), each event stamped with the time of the block; the log is untouched -/
theorem stepEvents_spec (s : Sys) (pid : Nat) (orc : Oracle) (p : Proc) (hp : s.proc? pid = some p)
    (ha : p.alive = true) (hk : p.k ≠ .monitor) :
    ∃ t c u, s.stepEvents pid orc = t ++ c ++ u ∧
      (s.resume pid orc).1.telEvents = (if p.k = .telescope then [] else s.telEvents) ++ t ∧
      (s.resume pid orc).1.schEvents = (if p.k = .schedLoop then [] else s.schEvents) ++ c ∧
      (s.resume pid orc).1.bufEvents = s.bufEvents ++ u ∧
      (s.resume pid orc).1.log = s.log ∧
      ∀ e ∈ s.stepEvents pid orc, e.time = natNow p.wake := by
  obtain ⟨_, h2, h3, h4, h5, _⟩ := resume_alive s pid orc p hp ha
  have hf := (frame_block s p orc hk).1
  obtain ⟨t, c, u, hev, hst⟩ := ev3_of_frame hf
  have hse : s.stepEvents pid orc = t ++ c ++ u := by
    rw [stepEvents_alive orc hp ha]; exact blockEvents_of_ev3 hev
  refine ⟨t, c, u, hse, ?_, ?_, ?_, ?_, ?_⟩
  · rw [h3, hev.tel, preClear_tel]
  · rw [h4, hev.sch, preClear_sch]
  · rw [h5, hev.buf, preClear_buf]
  · rw [h2, hf.log, preClear_log]
  · rw [hse]; exact hst

/-- the monitor's block emits nothing: it moves the three pending lists to the log -/
theorem stepEvents_monitor (s : Sys) (pid : Nat) (orc : Oracle) (p : Proc) (hp : s.proc? pid = some p)
    (ha : p.alive = true) (hk : p.k = .monitor) :
    s.stepEvents pid orc = [] ∧
      (s.resume pid orc).1.log = s.log ++ s.telEvents ++ s.schEvents ++ s.bufEvents ∧
      (s.resume pid orc).1.telEvents = [] ∧ (s.resume pid orc).1.schEvents = [] ∧
      (s.resume pid orc).1.bufEvents = [] := by
  obtain ⟨_, h2, h3, h4, h5, _⟩ := resume_monitor s pid orc p hp ha hk
  refine ⟨?_, h2, h3, h4, h5⟩
  rw [stepEvents_alive orc hp ha]
  unfold blockEvents
  simp [block, hk, monitorBlock, collate]

/-! ### trajectories with their emitted events -/

/-- `Reach s0 s`, with the list of the events emitted by the steps, in order -/
inductive ReachEv (s0 : Sys) : Sys → List Event → Prop
  | start : ReachEv s0 s0.start []
  | step (s : Sys) (evs : List Event) (pid : Nat) (orc : Oracle) :
      ReachEv s0 s evs → s.enabled pid → ReachEv s0 (s.resume pid orc).1 (evs ++ s.stepEvents pid orc)

theorem ReachEv.toReach {s0 s : Sys} {evs : List Event} (h : ReachEv s0 s evs) : Reach s0 s := by
  induction h with
  | start => exact Reach.start
  | step s evs pid orc _ hen ih => exact Reach.step s pid orc ih hen

/-- every trajectory has a trace -/
theorem Reach.toEv {s0 s : Sys} (h : Reach s0 s) : ∃ evs, ReachEv s0 s evs := by
  induction h with
  | start => exact ⟨[], ReachEv.start⟩
  | step s pid orc _ hen ih =>
    obtain ⟨evs, hev⟩ := ih
    exact ⟨_, ReachEv.step s evs pid orc hev hen⟩

/-- … with the oracle's own cluster calls restricted to batch reservations (`ReachOk`) -/
inductive ReachEvOk (s0 : Sys) : Sys → List Event → Prop
  | start : ReachEvOk s0 s0.start []
  | step (s : Sys) (evs : List Event) (pid : Nat) (orc : Oracle) :
      ReachEvOk s0 s evs → s.enabled pid → (s.alg = .oracle → orc.preOk) →
      ReachEvOk s0 (s.resume pid orc).1 (evs ++ s.stepEvents pid orc)

theorem ReachEvOk.toOk {s0 s : Sys} {evs : List Event} (h : ReachEvOk s0 s evs) : ReachOk s0 s := by
  induction h with
  | start => exact ReachOk.start
  | step s evs pid orc _ hen hpre ih => exact ReachOk.step s pid orc ih hen hpre

theorem ReachEvOk.toEv {s0 s : Sys} {evs : List Event} (h : ReachEvOk s0 s evs) : ReachEv s0 s evs := by
  induction h with
  | start => exact ReachEv.start
  | step s evs pid orc _ hen _ ih => exact ReachEv.step s evs pid orc ih hen

theorem ReachOk.toEvOk {s0 s : Sys} (h : ReachOk s0 s) : ∃ evs, ReachEvOk s0 s evs := by
  induction h with
  | start => exact ⟨[], ReachEvOk.start⟩
  | step s pid orc _ hen hpre ih =>
    obtain ⟨evs, hev⟩ := ih
    exact ⟨_, ReachEvOk.step s evs pid orc hev hen hpre⟩

/-- with a shipped algorithm the side condition is vacuous -/
theorem ReachEv.toEvOk {s0 s : Sys} {evs : List Event} (h : ReachEv s0 s evs) (hno : s0.alg ≠ .oracle) :
    ReachEvOk s0 s evs := by
  induction h with
  | start => exact ReachEvOk.start
  | step s evs pid orc hr hen ih =>
    exact ReachEvOk.step s evs pid orc ih hen
      (fun ho => absurd ((reach_alg hr.toReach).symm.trans ho) hno)

end Sys
end Topsim
