/-
  BoundB2 — C05, the numeric clause for BatchProcessing: timed liveness of the INGEST-side workers
  (`boundB_tl_ingest`).  Bound5 for `LiveCfgB`: the invariant `BoundTiS`, the blocks of the provisioning
  process and of the stream are those of Bound5 (they do not depend on the algorithm); the lemmas along
  the run are re-proved from `live_step_B`.
-/
import TopsimProofs.BoundB1

namespace Topsim

open KState Sys

section
variable {env : SimEnv} {s0 : Sys}

theorem boundB_ti_inv_zero (C : LiveCfgB env s0) : BoundTiS (simAt env s0 0).st := by
  have hst : (simAt env s0 0).st = s0.start := rfl
  have hp := start_procs s0 C.hw
  rw [hst]
  constructor
  · intro q hq t m preds obs ing ret hk
    rw [hp] at hq
    simp only [List.mem_cons, List.not_mem_nil, or_false] at hq
    rcases hq with rfl | rfl | rfl | rfl | rfl <;> simp at hk
  · intro q hq _ _ o d hk
    rw [hp] at hq
    simp only [List.mem_cons, List.not_mem_nil, or_false] at hq
    rcases hq with rfl | rfl | rfl | rfl | rfl <;> simp at hk
  · intro q hq _ _ o tl hk
    rw [hp] at hq
    simp only [List.mem_cons, List.not_mem_nil, or_false] at hq
    rcases hq with rfl | rfl | rfl | rfl | rfl <;> simp at hk
  · intro q hq _ _ o tl hk
    rw [hp] at hq
    simp only [List.mem_cons, List.not_mem_nil, or_false] at hq
    rcases hq with rfl | rfl | rfl | rfl | rfl <;> simp at hk

theorem boundB_ti_inv_step (C : LiveCfgB env s0) (K : LiveKernel env s0) (n : Nat)
    (h : BoundTiS (simAt env s0 n).st) : BoundTiS (simAt env s0 (n + 1)).st := by
  obtain ⟨e, p, hpk, hpp, ha, het, hen, _, hst⟩ := live_step_B C K n
  have hinv := (K.reach n).l3inv C.hw
  have hsinv := hinv.sinv
  have hti := hinv.ti
  have hil : ILC (simAt env s0 n).st.procs (simAt env s0 n).st.ilDemand (simAt env s0 n).st.cl.ilEntries
      (simAt env s0 n).st.provIngest (simAt env s0 n).st.maxIngest (simAt env s0 n).st.admitted := hinv.il
  clear hinv
  have hs' : SInv (simAt env s0 (n + 1)).st := live_sinv_B C K (n + 1)
  have hA := sim_otAst env s0 C.hw _ (K.reach n)
  obtain ⟨p', hp', _, hmin⟩ := hen
  rw [hpp] at hp'; cases hp'
  obtain ⟨hpm, hpid⟩ := proc?_some hpp
  rw [hst] at hs' ⊢
  generalize env.oracle (simAt env s0 n).st = orc at hs' ⊢
  generalize (simAt env s0 n).st = s at h hpp hsinv hti hil hA hmin hpm hs' ⊢
  have hpw := hsinv.pw
  obtain ⟨new, hm, hnew, hnewp⟩ := ot_step_table hsinv hpp ha hmin orc
  have hpersist : ∀ {o ob a}, s.obs? o = some ob → ob.ast = some a →
      ∃ ob', (s.resume e.pid orc).1.obs? o = some ob' ∧ ob'.ast = some a ∧ ob'.duration = ob.duration := by
    intro o ob a hob hast
    obtain ⟨ob', h1, h2, h3⟩ := ot_ast_persist hsinv hti hA hpp ha hmin orc hob hast
    exact ⟨ob', h1, h2, (ot_stat_fields h3).2.2.1⟩
  have htag := block_tag s hpw p orc
  constructor
  · -- atI
    intro q hq t m preds obs ing ret hk hi
    rcases (hm q).mp hq with rfl | ⟨hq0, _⟩ | hqn
    · simp only [fin_k] at hk
      obtain ⟨ret0, hk0⟩ := (nc_block_kind s hpw p orc).2.1 t m preds obs ing ret hk
      exact h.atI p hpm t m preds obs ing ret0 hk0 hi
    · exact h.atI q hq0 t m preds obs ing ret hk hi
    · obtain ⟨hqa, hqc, _, hnk⟩ := hnewp q hqn
      rw [hk] at hnk
      cases hkp : p.k with
      | provIngest o d =>
        rw [hkp] at hnk
        obtain ⟨t', m', e'⟩ := hnk
        injection e' with e1 e2 e3 e4 e5 e6
        exact ⟨e5, o, e4⟩
      | allocTasks o sc pa po fn =>
        rw [hkp] at hnk
        obtain ⟨t', m', c', e'⟩ := hnk
        injection e' with e1 e2 e3 e4 e5 e6
        subst e5
        obtain ⟨U, hU⟩ := hs'.ci
        have := (hU.newT q hq hqa t m preds obs ret hk hqc).2
        rw [hi] at this
        cases this
      | _ => rw [hkp] at hnk; simp [NewKind] at hnk
  · -- pi
    intro q hq hqa hqc o d hk
    rcases (hm q).mp hq with rfl | ⟨hq0, _⟩ | hqn
    · simp only [fin_k] at hk
      rw [hk] at htag
      cases hkp : p.k with
      | provIngest o' d' =>
        rw [block_provIngest orc hkp] at hk hqa ⊢
        obtain ⟨b1, b2⟩ := bound_ti_prov_block s p.wake p.pc o' d'
        rw [b1] at hk
        injection hk with e1 e2
        subst e1
        obtain ⟨_, dd, hy⟩ := fin_alive _ _ _ _ hqa
        obtain ⟨hpc, hdd⟩ := b2 dd hy
        subst hdd
        obtain ⟨ob, a, hob, hast, hw⟩ := hti.piW p hpm ha hpc o' d' hkp
        obtain ⟨ob', hob', hast', _⟩ := hpersist hob hast
        refine ⟨ob', a, hob', hast', ?_⟩
        rw [hy, il_fin_wake_timeout, hw]
        exact lcCast_succ a
      | _ => rw [hkp] at htag; simp [PK.tag] at htag
    · obtain ⟨ob, a, hob, hast, hw⟩ := h.pi q hq0 hqa hqc o d hk
      obtain ⟨ob', hob', hast', _⟩ := hpersist hob hast
      exact ⟨ob', a, hob', hast', hw⟩
    · have := (hnewp q hqn).2.1
      omega
  · -- is0
    intro q hq hqa hqc o tl hk
    rcases (hm q).mp hq with rfl | ⟨hq0, _⟩ | hqn
    · simp only [fin_pc] at hqc
      omega
    · obtain ⟨ob, a, hob, hast, hw⟩ := h.is0 q hq0 hqa hqc o tl hk
      obtain ⟨ob', hob', hast', _⟩ := hpersist hob hast
      exact ⟨ob', a, hob', hast', hw⟩
    · obtain ⟨_, _, hqw, hnk⟩ := hnewp q hqn
      rw [hk] at hnk
      cases hkp : p.k with
      | allocIngest o' tl' =>
        rw [hkp] at hnk hqw
        simp only [NewKind, reduceCtorEq, exists_false, false_or] at hnk
        injection hnk with e1 e2
        subst e1
        simp only [reduceCtorEq, if_false] at hqw
        rw [block_allocIngest orc hkp] at hnew
        rcases allocIngestBlock_procs s p.wake p.pc o tl' with hsame | ⟨ob, d, hob, hw1, _, _⟩
        · rw [hsame] at hnew
          rw [bound_ti_append_self hnew] at hqn
          cases hqn
        · have hadm : o ∈ s.admitted := hil.aiAdm p hpm o (by rw [hkp]; rfl)
          obtain ⟨ob2, hob2, hsup⟩ := hsinv.eg.adm o hadm
          rw [hob] at hob2; cases hob2
          obtain ⟨q2, hq2, _, hqc2, ⟨tl2, hqk2⟩, _⟩ := hsup hw1
          have hpq : p = q2 := hpw.eq_of_pid hpm hq2
            (hil.aiUniq p hpm q2 hq2 o (by rw [hkp]; rfl) (by rw [hqk2]; rfl))
          have hpc : p.pc = 0 := by rw [hpq]; exact hqc2
          obtain ⟨a, ob3, hwn, hob3, hast3, _⟩ := hti.aiNew p hpm o tl' hkp hpc
          obtain ⟨ob', hob', hast', _⟩ := hpersist hob3 hast3
          exact ⟨ob', a, hob', hast', by rw [hqw, hwn]⟩
      | _ => rw [hkp] at hnk; simp [NewKind] at hnk
  · -- is1
    intro q hq hqa hqc o tl hk
    rcases (hm q).mp hq with rfl | ⟨hq0, _⟩ | hqn
    · simp only [fin_k] at hk
      rw [hk] at htag
      cases hkp : p.k with
      | ingestStream o' tl' =>
        rw [block_ingestStream orc hkp] at hk hqa ⊢
        obtain ⟨_, dd, hy⟩ := fin_alive _ _ _ _ hqa
        obtain ⟨hdd, hcase⟩ := bound_ti_stream_block s p.wake p.pc o' tl' dd hy
        subst hdd
        rcases hcase with ⟨hpc, ob, hob, hpos, hk'⟩ | ⟨hpc, hpos, hk'⟩
        · rw [hk'] at hk
          injection hk with e1 e2
          subst e1
          obtain ⟨ob0, a, hob0, hast, hw⟩ := h.is0 p hpm ha hpc o' tl' hkp
          rw [hob] at hob0; cases hob0
          obtain ⟨ob', hob', hast', hdur⟩ := hpersist hob hast
          refine ⟨ob', a, 1, hob', hast', ?_, by omega, by rw [hdur]; omega⟩
          rw [hy, il_fin_wake_timeout, hw]
          exact lcCast_succ a
        · rw [hk'] at hk
          injection hk with e1 e2
          subst e1
          obtain ⟨ob, a, j, hob, hast, hw, h0, hle⟩ := h.is1 p hpm ha (by omega) o' tl' hkp
          obtain ⟨ob', hob', hast', hdur⟩ := hpersist hob hast
          refine ⟨ob', a, j + 1, hob', hast', ?_, by omega, by rw [hdur]; omega⟩
          rw [hy, il_fin_wake_timeout, hw]
          exact lcCast_succ (a + j)
      | _ => rw [hkp] at htag; simp [PK.tag] at htag
    · obtain ⟨ob, a, j, hob, hast, hw, h0, hle⟩ := h.is1 q hq0 hqa hqc o tl hk
      obtain ⟨ob', hob', hast', hdur⟩ := hpersist hob hast
      exact ⟨ob', a, j, hob', hast', hw, h0, by rw [hdur]; exact hle⟩
    · have := (hnewp q hqn).2.1
      omega

theorem boundB_ti_inv (C : LiveCfgB env s0) (K : LiveKernel env s0) (n : Nat) :
    BoundTiS (simAt env s0 n).st := by
  induction n with
  | zero => exact boundB_ti_inv_zero C
  | succ n ih => exact boundB_ti_inv_step C K n ih

theorem boundB_ti_obs0 (C : LiveCfgB env s0) (n : Nat) {ob : Obs} (hob : ob ∈ (simAt env s0 n).st.obs) :
    ∃ o0 ∈ s0.obs, o0.id = ob.id ∧ o0.duration = ob.duration := by
  have hk := live_keep0_B C n
  have hmem : ob.stat ∈ (simAt env s0 n).st.obs.map Obs.stat := List.mem_map_of_mem hob
  rw [hk] at hmem
  obtain ⟨o0, ho0, he⟩ := List.mem_map.mp hmem
  obtain ⟨h1, _, h3, _⟩ := ot_stat_fields he
  exact ⟨o0, ho0, h1, h3⟩

/-- every recorded start is pre-paid: `ast + duration + 1 ≤ latest + V` -/
theorem boundB_ti_ast (C : LiveCfgB env s0) (K : LiveKernel env s0) (n : Nat)
    (hprev : ∀ j, j < n → boundTau env s0 j ≤ boundLV env s0 j) :
    ∀ o ob a, (simAt env s0 n).st.obs? o = some ob → ob.ast = some a →
      (((a + ob.duration + 1 : Nat) : Nat) : Time) ≤ boundLV env s0 n := by
  induction n with
  | zero =>
    intro o ob a hob hast
    exfalso
    have hst : (simAt env s0 0).st = s0.start := rfl
    rw [hst] at hob
    have hm := (obs_mem_of_obs? hob).1
    rw [start_obs s0] at hm
    rw [(C.hw.obsWaiting ob hm).2.1] at hast
    cases hast
  | succ n ih =>
    intro o ob' a hob' hast'
    have ih' := ih (fun j hj => hprev j (by omega))
    obtain ⟨e, p, hpk, hpp, ha, het, hen, _, hst⟩ := live_step_B C K n
    have hinv := (K.reach n).l3inv C.hw
    have hA := sim_otAst env s0 C.hw _ (K.reach n)
    obtain ⟨p', hp', _, hmin⟩ := hen
    rw [hpp] at hp'; cases hp'
    obtain ⟨hpm, _⟩ := proc?_some hpp
    have hmono := boundB_lv_mono C K (Nat.le_succ n)
    have hob'' := hob'
    rw [hst] at hob''
    obtain ⟨ob, hob, hor⟩ := ot_step_ast hinv.ti hpp ha (env.oracle (simAt env s0 n).st) o ob' hob''
    have hdur : ob'.duration = ob.duration := by
      obtain ⟨ob0, hob0, hs⟩ := (ot_resume_keep _ _ _ p hpp ha).bwd hob''
      rw [hob] at hob0; cases hob0
      exact (ot_stat_fields hs).2.2.1
    cases hast : ob.ast with
    | some a0 =>
      obtain ⟨ob2, hob2, hast2, _⟩ := ot_ast_persist hinv.sinv hinv.ti hA hpp ha hmin
        (env.oracle (simAt env s0 n).st) hob hast
      rw [hob''] at hob2; cases hob2
      rw [hast'] at hast2; cases hast2
      rw [hdur]
      exact Rat.le_trans (ih' o ob a hob hast) hmono
    | none =>
      rcases hor with e1 | ⟨hk, _, e1⟩
      · rw [hast', hast] at e1; cases e1
      · obtain ⟨m, hwm⟩ := hinv.heap.telInt p hpm hk
        rw [hast', hwm, natNow_natCast] at e1
        cases e1
        have htau : boundTau env s0 n = ((a : Nat) : Time) := by rw [bound_wk_tau hpk, het, hwm]
        have hclock := hprev n (Nat.lt_succ_self n)
        rw [htau] at hclock
        obtain ⟨hom, hoid⟩ := obs_mem_of_obs? hob
        obtain ⟨o0, ho0, hid0, hd0⟩ := boundB_ti_obs0 C n hom
        have hno : ¬ Sys.PAst o0.id (simAt env s0 n).st := by
          rintro ⟨ob2, a2, hob2, hast2⟩
          rw [hid0, hoid, hob] at hob2; cases hob2
          rw [hast] at hast2; cases hast2
        have hyes : Sys.PAst o0.id (simAt env s0 (n + 1)).st :=
          ⟨ob', a, by rw [hid0, hoid]; exact hob', hast'⟩
        have hadd : boundV s0 (simAt env s0 n).st + (o0.duration + 1) ≤
            boundV s0 (simAt env s0 (n + 1)).st :=
          bound_v_add_ast (boundB_run_mono C K (Nat.le_succ n)) ho0 hno hyes
        unfold boundLV at hclock ⊢
        rw [hdur, ← hd0]
        have h1 : a ≤ boundLatest s0 + boundV s0 (simAt env s0 n).st := by exact_mod_cast hclock
        exact_mod_cast (by omega :
          a + o0.duration + 1 ≤ boundLatest s0 + boundV s0 (simAt env s0 (n + 1)).st)

/-- **Timed liveness of the ingest-side workers.**  If the clock was within `latest + V` at every
earlier index, every live ingest-side worker is due (and so ends) before `latest + V`. -/
theorem boundB_tl_ingest (C : LiveCfgB env s0) (K : LiveKernel env s0) (n : Nat)
    (hprev : ∀ j, j < n → boundTau env s0 j ≤ boundLV env s0 j) :
    ∀ q ∈ (simAt env s0 n).st.procs, q.alive = true → q.BoundIngestWorker →
      q.wake + 1 ≤ boundLV env s0 n := by
  intro q hq hqa hw
  have hinv := (K.reach n).l3inv C.hw
  have hB := boundB_ti_inv C K n
  have hacc := boundB_ti_ast C K n hprev
  have hsup := sim_supTl env s0 C.hw _ (K.reach n)
  have hti := hinv.ti
  have hsinv := hinv.sinv
  have hpw := hsinv.pw
  have hclose : ∀ {o : Oid} {ob : Obs} {a : Nat}, (simAt env s0 n).st.obs? o = some ob → ob.ast = some a →
      q.wake + 1 ≤ (((a + ob.duration + 1 : Nat) : Nat) : Time) → q.wake + 1 ≤ boundLV env s0 n :=
    fun hob hast hle => Rat.le_trans hle (hacc _ _ _ hob hast)
  have hdur : ∀ {o : Oid} {ob : Obs}, (simAt env s0 n).st.obs? o = some ob → 1 ≤ ob.duration :=
    fun hob => hti.durPos _ (obs_mem_of_obs? hob).1
  rcases hw with ht | ht | ht | ⟨t, m, preds, obs, ing, ret, hk, hi⟩ | ⟨t, m, preds, ph, tot, hk, hi⟩
  · -- the supervisor
    cases hk : q.k with
    | allocIngest o tl =>
      by_cases hpc : q.pc = 0
      · obtain ⟨a, ob, hwn, hob, hast, _⟩ := hti.aiNew q hq o tl hk hpc
        have := hdur hob
        exact hclose hob hast (bound_ti_le_step (by rw [hwn]; exact Rat.le_refl) (by omega))
      · obtain ⟨ob, a, j, hob, hast, hj, hwn, htl⟩ := hti.aiRun q hq hqa (by omega) o tl hk
        have h0 := hsup q hq hqa (by omega) o tl hk
        exact hclose hob hast (bound_ti_le_step (by rw [hwn]; exact Rat.le_refl) (by omega))
    | _ => rw [hk] at ht; simp [PK.tag] at ht
  · -- the provisioning process
    cases hk : q.k with
    | provIngest o d =>
      by_cases hpc : q.pc = 0
      · obtain ⟨ob, a, hob, hast, hwn⟩ := hti.piW q hq hqa hpc o d hk
        have := hdur hob
        exact hclose hob hast (bound_ti_le_step (by rw [hwn]; exact Rat.le_refl) (by omega))
      · obtain ⟨ob, a, hob, hast, hwn⟩ := hB.pi q hq hqa (by omega) o d hk
        have := hdur hob
        exact hclose hob hast (bound_ti_le_step (by rw [hwn]; exact Rat.le_refl) (by omega))
    | _ => rw [hk] at ht; simp [PK.tag] at ht
  · -- the stream
    cases hk : q.k with
    | ingestStream o tl =>
      by_cases hpc : q.pc = 0
      · obtain ⟨ob, a, hob, hast, hwn⟩ := hB.is0 q hq hqa hpc o tl hk
        have := hdur hob
        exact hclose hob hast (bound_ti_le_step (by rw [hwn]; exact Rat.le_refl) (by omega))
      · obtain ⟨ob, a, j, hob, hast, hwn, h0, hle⟩ := hB.is1 q hq hqa (by omega) o tl hk
        exact hclose hob hast (bound_ti_le_step (by rw [hwn]; exact Rat.le_refl) (by omega))
    | _ => rw [hk] at ht; simp [PK.tag] at ht
  · -- the allocation process of an ingest task
    obtain ⟨hing, o, hobs⟩ := hB.atI q hq t m preds obs ing ret hk hi
    subst hing hobs
    by_cases hpc : q.pc = 0
    · obtain ⟨_, _, ob, a, hob, hast, hwn⟩ := hti.atPend q hq hqa hpc t m preds o ret hk
      have := hdur hob
      exact hclose hob hast (bound_ti_le_step (by rw [hwn]; exact Rat.le_refl) (by omega))
    · obtain ⟨_, r, hr, _, hqw, ph, tot, _, _, ob, a, b, hob, hast, hrw, _, hbd, _⟩ :=
        hti.atRun q hq hqa (by omega) t m preds o ret hk
      have h1 : q.wake ≤ (((b + 1 : Nat) : Nat) : Time) := by
        rw [← lcCast_succ, ← hrw]; exact hqw
      exact hclose hob hast (bound_ti_le_step h1 (by omega))
  · -- the body of an ingest task
    obtain ⟨al, hal, hala, halpc, preds', obs, ing, halk⟩ := hsinv.dg.dwAlloc q hq hqa t m preds ph tot hk
    obtain ⟨hing, o, hobs⟩ := hB.atI al hal t m preds' obs ing q.pid halk hi
    subst hing hobs
    obtain ⟨_, r, hr, hrpid, _, ph', tot', _, _, ob, a, b, hob, hast, hrw, _, hbd, _⟩ :=
      hti.atRun al hal hala halpc t m preds' o q.pid halk
    have hrq : r = q := hpw.eq_of_pid hr hq hrpid
    subst hrq
    exact hclose hob hast (bound_ti_le_step (by rw [hrw]; exact Rat.le_refl) (by omega))

end

end Topsim
