/-
  LiveP8 — the declarations of Live8.lean that depend on the configuration structures, restated for
  the plan-following configurations (`LivePCfg`, `NcPCfg`, `L7PLib`); the proofs are those of Live8.lean.
-/
import TopsimProofs.LiveP7i

namespace Topsim

open KState Sys

section

variable {env : SimEnv} {s0 : Sys}

theorem l8_reachOk_P (C : LivePCfg env s0) (K : LiveKernel env s0) (n : Nat) :
    ReachOk s0 (simAt env s0 n).st :=
  simRun_reachOk C.hw (K.run n).1 (K.run n).2.1

theorem l8_reach_P (C : LivePCfg env s0) (K : LiveKernel env s0) (n : Nat) :
    Reach s0 (simAt env s0 n).st := (l8_reachOk_P C K n).toReach

theorem l8_sinv_P (C : LivePCfg env s0) (K : LiveKernel env s0) (n : Nat) : SInv (simAt env s0 n).st :=
  ((K.reach n).l3inv C.hw).sinv

theorem l8_bufList_P (C : LivePCfg env s0) : bufList s0.buf = [] := hb0_bufList C.hb0

theorem l8_noOracle_P (C : LivePCfg env s0) : s0.alg ≠ .oracle := C.alg.noOracle

theorem l8_alg_P (C : LivePCfg env s0) (K : LiveKernel env s0) (n : Nat) : PlanAlg (simAt env s0 n).st.alg := by
  rw [reach_alg (l8_reach_P C K n)]; exact C.alg

theorem l8_rate_P (C : LivePCfg env s0) : ∀ o ∈ s0.obs, 0 < o.rate :=
  fun o ho => (C.feas.1 o ho).2.2.2.2.2.2.2

/-- **One index of the run.**  The live, enabled process `p` whose heap entry is the least runs one
block, which does not raise; the next state is the state after `resume`. -/
theorem l8_step_P (C : LivePCfg env s0) (K : LiveKernel env s0) (n : Nat) :
    ∃ e p, (simAt env s0 n).peek = some e ∧ (simAt env s0 n).st.proc? e.pid = some p ∧
      p.alive = true ∧ e.time = p.wake ∧ (simAt env s0 n).st.enabled e.pid ∧
      (∀ err, ((simAt env s0 n).st.block p (env.oracle (simAt env s0 n).st)).2.2 ≠ .raised err) ∧
      (simAt env s0 (n + 1)).st =
        ((simAt env s0 n).st.resume e.pid (env.oracle (simAt env s0 n).st)).1 := by
  obtain ⟨e, p, hpk, hpp, ha, het, hen, _, hst⟩ := live_step_P C K n
  refine ⟨e, p, hpk, hpp, ha, het, hen, ?_, hst⟩
  have hcr := C.nr (n + 1)
  rw [hst] at hcr
  exact (resume_nocrash _ _ _ p hpp ha hcr).2

end

namespace Sys

end Sys

section

variable {env : SimEnv} {s0 : Sys}

/-- **J9.**  No tier-move process ever exists and the cold tier is never touched. -/
theorem live_noTier_P (C : LivePCfg env s0) (K : LiveKernel env s0) (n : Nat) :
    Sys.NoTier (simAt env s0 n).st ∧ (simAt env s0 n).st.buf.cold = s0.buf.cold := by
  induction n with
  | zero =>
    have hst : (simAt env s0 0).st = s0.start := rfl
    rw [hst]
    refine ⟨?_, by rw [start_buf]⟩
    intro q hq
    rw [start_procs s0 C.hw] at hq
    simp only [List.mem_cons, List.not_mem_nil, or_false] at hq
    rcases hq with rfl | rfl | rfl | rfl | rfl <;> simp [PK.tag]
  | succ n ih =>
    obtain ⟨e, p, _, _, _, _, hen, _, hst⟩ := l8_step_P C K n
    have hover := (live_not_over env s0 C.hw C.hb0 C.hfull (l8_rate_P C) C.h1 _ (K.run n).1 (C.nr n)).1
    have hcs : (simAt env s0 n).st.buf.cold.stored = [] := by rw [ih.2]; exact C.hb0.2.2.2
    obtain ⟨h1, h2⟩ := Sys.l8_noTier_step (l8_sinv_P C K n) hen (env.oracle (simAt env s0 n).st) ih.1 hover hcs
    rw [hst]
    exact ⟨h1, h2.trans ih.2⟩

end

end Topsim

