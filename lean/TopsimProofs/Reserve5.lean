/-
  Reserve5 — `RV` under `allocate_tasks` (BatchProcessing), and along every run.
-/
import TopsimProofs.Reserve4

namespace Topsim
namespace Sys

open Cluster

theorem rv_allocTasks {s : Sys} (h : RV s) (hs : SInv s) (hri : RI s) {parts minPer : Nat}
    {split : Option (List (Oid × Nat × Nat))} (halg : s.alg = .batch parts minPer split) {p : Proc}
    (hp : p ∈ s.procs) (ha : p.alive = true) (hmin : ∀ q ∈ s.procs, q.alive = true → p.wake ≤ q.wake)
    (orc : Oracle) {oid : Oid} {sc pa : List (Tid × Mid)} {po : List Tid} {fn : Bool}
    (hk : p.k = .allocTasks oid sc pa po fn) :
    RV ((s.block p orc).1.updProc p.pid (fin (s.block p orc).2.1 (s.block p orc).2.2 p.wake)) := by
  obtain ⟨E, sc', pa', po', fn', hk', hstep, hfin, hliveAT, hliveSc, hsc', hprocs⟩ :=
    allocTasks_batch_facts hri halg p orc hk
  cases hfn : fn with
  | true =>
    obtain ⟨e1, e2, e3⟩ := hfin hfn
    refine h.step hs hp ha hmin orc (fun o _ => KeepO.of_eq (by rw [e1]) (by rw [e1]) o)
      (fun e he _ => Or.inl (by rw [e1] at he; exact he)) ?_ (fun q hq hn => absurd (by rw [e2] at hq; exact hq) hn)
    intro o sc1 pa1 po1 e
    rw [hk', e3] at e
    simp at e
  | false =>
    subst hfn
    have hrs : ResStep parts minPer split oid E s.cl (s.block p orc).1.cl := by
      rcases hstep with e | e
      · simp at e
      · exact e
    -- while something of `oid` is alive the cluster is not touched
    have hsame : HasRes s.cl oid → ¬ E → (s.block p orc).1.cl = s.cl := fun h1 h2 => hrs.eq_of_used h1 h2
    have hresX : ∀ m, (Res s.cl m oid ∧ ¬ E) ∨ (¬ E ∧ m ∈ (s.block p orc).1.cl.idleOf (some oid)) →
        Res (s.block p orc).1.cl m oid := by
      intro m hm
      rcases hm with ⟨h1, h2⟩ | ⟨_, h2⟩
      · rw [hsame h1.has h2]; exact h1
      · exact res_of_idleOf h2
    refine h.step hs hp ha hmin orc ?_ (fun e he _ => Or.inl (by rw [hrs.runOn] at he; exact he)) ?_ ?_
    · intro o hu
      by_cases hne : o = oid
      · subst hne
        have : HasRes s.cl o ∧ ¬ E := by
          rcases hu with ⟨e, he, ho, hi⟩ | ⟨q, hq, hqa, _, hpc, t, m, preds, ret, hqk⟩ |
            ⟨q, hq, hqa, hne', sc1, pa1, po1, hqk, _⟩
          · obtain ⟨o', ho', hr⟩ := h.ro e he hi
            rw [ho] at ho'
            injection ho' with e1
            subst e1
            obtain ⟨q, hq, hqa, _, preds, ret, hqk⟩ := hri.rc e he
            rw [ho, hi] at hqk
            exact ⟨hr, hliveAT q hq hqa _ _ _ _ hqk⟩
          · obtain ⟨o', ho', hr⟩ := h.pend q hq hqa t m preds (some o) ret hqk hpc
            injection ho' with e1
            subst e1
            exact ⟨hr.has, hliveAT q hq hqa _ _ _ _ hqk⟩
          · exact absurd (hri.atsUniq q hq p hp hqa ha o _ _ _ _ _ _ hqk hk) hne'
        have hcl := hsame this.1 this.2
        exact KeepO.of_eq (by rw [hcl]) (by rw [hcl]) o
      · exact (hrs.sameO o hne).keep
    · intro o sc1 pa1 po1 e x hx
      rw [hk'] at e
      simp only [PK.allocTasks.injEq] at e
      obtain ⟨e1, e2, _⟩ := e
      subst e1 e2
      apply hresX x.2
      rcases hsc' x hx with h1 | h1
      · exact Or.inl ⟨h.sched p hp ha oid sc pa po hk x h1, hliveSc x h1 hp ha rfl⟩
      · exact Or.inr h1
    · intro q hq hn
      rcases hprocs q hq with h1 | ⟨t, m, cross, hqk, _, _, hm⟩
      · exact absurd h1 hn
      · refine Or.inr ⟨t, m, cross, oid, 0, hqk, hresX m ?_⟩
        rcases hm with h1 | h1
        · exact Or.inl ⟨h.sched p hp ha oid sc pa po hk (t, m) h1, hliveSc (t, m) h1 hp ha rfl⟩
        · exact Or.inr h1

/-! ### along a run -/

theorem rv_step {s : Sys} (h : RV s) (hs : SInv s) (hri : RI s) {parts minPer : Nat}
    {split : Option (List (Oid × Nat × Nat))} (halg : s.alg = .batch parts minPer split) {pid : Nat}
    (hen : s.enabled pid) (orc : Oracle) : RV (s.resume pid orc).1 := by
  obtain ⟨p, hp, ha, hmin⟩ := hen
  obtain ⟨hpm, hpid⟩ := proc?_some hp
  subst hpid
  refine RV.core ?_ (resume_core s p.pid orc p hp ha)
  by_cases h2 : p.k.tag = "allocTask"
  · cases hk : p.k with
    | allocTask t m preds obs ing ret => exact rv_allocTask h hs hpm ha hmin orc hk
    | _ => rw [hk] at h2; simp [PK.tag] at h2
  · by_cases h4 : p.k.tag = "allocTasks"
    · cases hk : p.k with
      | allocTasks o sc pa po fn => exact rv_allocTasks h hs hri halg hpm ha hmin orc hk
      | _ => rw [hk] at h4; simp [PK.tag] at h4
    · by_cases h3 : p.k.tag = "doWork"
      · cases hk : p.k with
        | doWork t m preds ph tot =>
          obtain ⟨_, hprocs, _, _⟩ := doWork_facts s p orc hk
          exact rv_quiet h hs hpm ha hmin orc h2 h4
            (fun q hq hn => absurd (by rw [hprocs] at hq; exact hq) hn)
        | _ => rw [hk] at h3; simp [PK.tag] at h3
      · exact rv_quiet h hs hpm ha hmin orc h2 h4
          (fun q hq hn => (block_new_harmless s p orc h2 h3 h4 q hq hn).rvNeutral)

theorem start_rv (s0 : Sys) (hw : WFConfig s0) : RV s0.start := by
  obtain ⟨hprocs, _⟩ := hw.fresh
  have hp : s0.start.procs = s0.procs ++
      [{ pid := s0.nextPid, k := .monitor, wake := 0 }, { pid := s0.nextPid + 1, k := .telescope, wake := 0 },
       { pid := s0.nextPid + 2, k := .clusterLoop, wake := 0 }, { pid := s0.nextPid + 3, k := .schedLoop, wake := 0 },
       { pid := s0.nextPid + 4, k := .bufferLoop, wake := 0 }] := by
    simp [start, spawn]
  have hcl : s0.start.cl = s0.cl := by simp [start, spawn]
  rw [hprocs] at hp
  simp only [List.nil_append] at hp
  constructor
  · rw [hcl, hw.clInit]; intro e he; simp [Cluster.init] at he
  · rw [hp]; intro q hq _ t m preds obs ret hk
    simp at hq; rcases hq with rfl | rfl | rfl | rfl | rfl <;> simp at hk
  · rw [hp]; intro q hq _ o sc pa po hk
    simp at hq; rcases hq with rfl | rfl | rfl | rfl | rfl <;> simp at hk

/-- `hbuf`: the initial buffer holds no observation (as for the reservation invariant `RI`) -/
theorem reach_rv (s0 s : Sys) (hw : WFConfig s0) (hbuf : bufList s0.buf = []) {parts minPer : Nat}
    {split : Option (List (Oid × Nat × Nat))} (halg : s0.alg = .batch parts minPer split)
    (h : Reach s0 s) : RV s := by
  have hno : s0.alg ≠ .oracle := by rw [halg]; simp
  induction h with
  | start => exact start_rv s0 hw
  | step s pid orc hr hen ih =>
    exact rv_step ih (reach_inv s0 s hw (hr.toOk hno)) (reach_ri s0 s hw hbuf halg hr)
      (by rw [reach_alg hr]; exact halg) hen orc

end Sys
end Topsim
