/-
  LiveB8 — BatchProcessing: the declarations of Live8 that depend on the configuration hypotheses,
  for `LiveCfgB` / `NcCfgB` (`s0.alg = .batch …`).  Generated from Live8.lean by renaming (suffix `_B`);
  the algorithm-dependent ones are rewritten (see the comments).
-/
import TopsimProofs.Live8
import TopsimProofs.LiveB5

namespace Topsim
open KState Sys
section
variable {env : SimEnv} {s0 : Sys}

theorem l8_reachOk_B (C : LiveCfgB env s0) (K : LiveKernel env s0) (n : Nat) :
    ReachOk s0 (simAt env s0 n).st :=
  simRun_reachOk C.hw (K.run n).1 (K.run n).2.1

theorem l8_reach_B (C : LiveCfgB env s0) (K : LiveKernel env s0) (n : Nat) :
    Reach s0 (simAt env s0 n).st := (l8_reachOk_B C K n).toReach

theorem l8_sinv_B (C : LiveCfgB env s0) (K : LiveKernel env s0) (n : Nat) : SInv (simAt env s0 n).st :=
  ((K.reach n).l3inv C.hw).sinv

theorem l8_bufList_B (C : LiveCfgB env s0) : bufList s0.buf = [] := hb0_bufList C.hb0

theorem l8_noOracle_B (C : LiveCfgB env s0) : s0.alg ≠ .oracle := C.alg.ne_oracle

theorem l8_alg_B (C : LiveCfgB env s0) (K : LiveKernel env s0) (n : Nat) : (simAt env s0 n).st.BatchAlg :=
  C.alg.of_alg (reach_alg (l8_reach_B C K n))

theorem l8_rate_B (C : LiveCfgB env s0) : ∀ o ∈ s0.obs, 0 < o.rate :=
  fun o ho => (C.feas.1 o ho).2.2.2.2.2.2.2

/-- **One index of the run.**  The live, enabled process `p` whose heap entry is the least runs one
block, which does not raise; the next state is the state after `resume`. -/
theorem l8_step_B (C : LiveCfgB env s0) (K : LiveKernel env s0) (n : Nat) :
    ∃ e p, (simAt env s0 n).peek = some e ∧ (simAt env s0 n).st.proc? e.pid = some p ∧
      p.alive = true ∧ e.time = p.wake ∧ (simAt env s0 n).st.enabled e.pid ∧
      (∀ err, ((simAt env s0 n).st.block p (env.oracle (simAt env s0 n).st)).2.2 ≠ .raised err) ∧
      (simAt env s0 (n + 1)).st =
        ((simAt env s0 n).st.resume e.pid (env.oracle (simAt env s0 n).st)).1 := by
  obtain ⟨e, p, hpk, hpp, ha, het, hen, _, hst⟩ := live_step_B C K n
  refine ⟨e, p, hpk, hpp, ha, het, hen, ?_, hst⟩
  have hcr := C.nr (n + 1)
  rw [hst] at hcr
  exact (resume_nocrash _ _ _ p hpp ha hcr).2
end
namespace Sys
end Sys
section
variable {env : SimEnv} {s0 : Sys}

/-- **J9.**  No tier-move process ever exists and the cold tier is never touched. -/
theorem live_noTier_B (C : LiveCfgB env s0) (K : LiveKernel env s0) (n : Nat) :
    Sys.NoTier (simAt env s0 n).st ∧ (simAt env s0 n).st.buf.cold = s0.buf.cold := by
  induction n with
  | zero =>
    have hst : (simAt env s0 0).st = s0.start := rfl
    rw [hst]
    refine ⟨?_, by rw [start_buf]⟩
    intro q hq
    rw [start_procs s0 C.hw] at hq
    simp only [List.mem_cons, List.not_mem_nil, or_false] at hq
    rcases hq with rfl | rfl | rfl | rfl | rfl <;> simp [PK.tag]
  | succ n ih =>
    obtain ⟨e, p, _, _, _, _, hen, _, hst⟩ := l8_step_B C K n
    have hover := (live_not_over env s0 C.hw C.hb0 C.hfull (l8_rate_B C) C.h1 _ (K.run n).1 (C.nr n)).1
    have hcs : (simAt env s0 n).st.buf.cold.stored = [] := by rw [ih.2]; exact C.hb0.2.2.2
    obtain ⟨h1, h2⟩ := Sys.l8_noTier_step (l8_sinv_B C K n) hen (env.oracle (simAt env s0 n).st) ih.1 hover hcs
    rw [hst]
    exact ⟨h1, h2.trans ih.2⟩
end
end Topsim
