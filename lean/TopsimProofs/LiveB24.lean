/-
  LiveB24 — BatchProcessing, the raise sites of the scheduler side (part 1): `allocate_task_to_cluster`
  accepts a machine that is idle in the reservation of the observation (`nc_allocBegin_task_B`);
  `_provision_resources` does not raise in a feasible configuration (`lb_provisionResources_ok`), hence
  neither does `BatchProcessing.run` (`lb_batchRun_ok`).
-/
import TopsimProofs.Live17b
import TopsimProofs.LiveB21
import TopsimProofs.Reserve7

namespace Topsim

open KState Sys

/-- the first block of a scheduler-side allocation process whose machine is idle in the reservation of
its observation: `allocBegin` accepts it -/
theorem Cluster.nc_allocBegin_task_B (c : Cluster) (t : Tid) (m : Mid) (obs : Option Oid) (ht : t ∉ c.running)
    (hm : m ∈ c.idleOf obs) : (c.allocBegin t m obs false).2 = none := by
  cases obs with
  | none => simp [Cluster.idleOf] at hm
  | some o =>
    obtain ⟨l, hg, hml⟩ := Sys.mem_idleOf_iff.mp hm
    unfold Cluster.allocBegin Cluster.setMachineOccupied
    by_cases hav : m ∈ c.available
    · simp [ht, hav]
    · simp [ht, hav, hm, hg, hml]

namespace Sys

open Cluster

/-- `_provision_resources` does not raise: the observation is in the split, its minimum does not exceed
the machine count, the number of partitions is positive, and `provision_batch_resources` finds the
machines it is asked for among the available ones -/
theorem lb_provisionResources_ok (cl : Cluster) {U : List Tid} (hinv : Cluster.Inv cl U) (parts minPer : Nat)
    (split : Option (List (Oid × Nat × Nat))) (o : Oid) (hparts : 0 < parts)
    (hsp : ∀ sp, split = some sp → ∃ lo hi, dictGet sp o = some (lo, hi) ∧ lo ≤ cl.machines.length) :
    ∃ r, Alg.provisionResources cl parts minPer split o = .ok r := by
  unfold Alg.provisionResources
  split
  · exact ⟨_, rfl⟩
  · split
    · -- `_max_resource_provision`
      have hmax : ∃ n, Alg.maxResourceProvision cl parts split o = .ok n := by
        unfold Alg.maxResourceProvision
        cases split with
        | none =>
          simp only
          rw [if_neg (by omega)]
          split
          · exact ⟨_, rfl⟩
          · split <;> exact ⟨_, rfl⟩
        | some sp =>
          obtain ⟨lo, hi, hg, hle⟩ := hsp sp rfl
          simp only [hg]
          rw [if_neg (by omega)]
          split
          · exact ⟨_, rfl⟩
          · split <;> exact ⟨_, rfl⟩
      obtain ⟨n, hn⟩ := hmax
      rw [hn]
      simp only
      split
      · exact ⟨_, rfl⟩
      · rename_i hge
        have hle := (maxResourceProvision_bounds cl parts split o n hn).1
        have hpb : (cl.provisionBatch n o).2 = none := by
          unfold Cluster.provisionBatch
          simp only
          have h1 : ¬ (n > cl.available.length ∧ cl.available.length > 0) := by omega
          rw [if_neg h1, if_neg (by omega)]
          have hsub : ∀ m ∈ cl.available.take n, m ∈ cl.available := fun m hm => List.mem_of_mem_take hm
          have hnd := (List.take_sublist n cl.available).nodup hinv.avail_nodup
          obtain ⟨i1, _, _⟩ := addIdleAll_ok hinv o _ hsub hnd
          generalize cl.addIdleAll o (cl.available.take n) = r at i1 ⊢
          obtain ⟨c1, e1⟩ := r
          simp only at i1
          subst i1
          rfl
        generalize cl.provisionBatch n o = r at hpb ⊢
        obtain ⟨c2, e2⟩ := r
        simp only at hpb
        subst hpb
        exact ⟨_, rfl⟩
    · exact ⟨_, rfl⟩

/-- `BatchProcessing.run` does not raise -/
theorem lb_batchRun_ok (cl : Cluster) {U : List Tid} (hinv : Cluster.Inv cl U) (plan : Plan)
    (view : Tid → TaskView) (parts minPer : Nat) (split : Option (List (Oid × Nat × Nat)))
    (sc : List (Tid × Mid)) (po : List Tid) (hparts : 0 < parts)
    (hsp : ∀ sp, split = some sp → ∃ lo hi, dictGet sp plan.obs = some (lo, hi) ∧ lo ≤ cl.machines.length) :
    ∃ out, Alg.batchRun cl plan view parts minPer split sc po = .ok out := by
  obtain ⟨r, hr⟩ := lb_provisionResources_ok cl hinv parts minPer split plan.obs hparts hsp
  unfold Alg.batchRun
  rw [hr]
  exact ⟨_, rfl⟩

end Sys

end Topsim
