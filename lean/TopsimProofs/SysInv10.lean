/-
  SysInv10 — step theorems: allocation process, `do_work`.
-/
import TopsimProofs.SysInv9

namespace Topsim
namespace Sys

open Cluster

theorem SInv.pres {a b : Sys} (h : SInv a) (hp : Pres a b) : SInv b := by
  obtain ⟨U, hU⟩ := h.ci
  exact ⟨hp.pw h.pw, ⟨U, hp.ci U h.pw hU⟩, hp.dg h.pw h.dg, hp.eg h.pw h.eg⟩

@[simp] theorem fin_alive_timeout (k d w q) : (fin k (.timeout d) w q).alive = q.alive := rfl
@[simp] theorem fin_alive_done (k w q) : (fin k .done w q).alive = false := rfl
@[simp] theorem fin_alive_raised (k e w q) : (fin k (.raised e) w q).alive = false := rfl

theorem EG.of_cl {s : Sys} (h : EG s) (cl' : Cluster) : EG { s with cl := cl' } :=
  h.frame rfl rfl (fun _ _ => Iff.rfl)

theorem step_allocTask {s : Sys} (h : SInv s) {pid : Nat} {p : Proc} (hp : s.proc? pid = some p)
    (ha : p.alive = true) {t m preds obs ing ret} (hk : p.k = .allocTask t m preds obs ing ret)
    (orc : Oracle) : SInv (s.resume pid orc).1 := by
  obtain ⟨hpm, hpid⟩ := proc?_some hp
  subst hpid
  have hcore := resume_core s p.pid orc p hp ha
  have hb : s.block p orc = s.allocTaskBlock p.wake t m preds obs ing ret := by
    unfold block; simp only [hk]
  rw [hb] at hcore
  refine SInv.core ?_ hcore
  obtain ⟨U, hU⟩ := h.ci
  have hpw := h.pw
  have hnAT : p.k.isTel = false ∧ p.k.isAI = false := by rw [hk]; exact ⟨rfl, rfl⟩
  rcases allocTaskBlock_cases s hpw p.wake t m preds obs ing ret with
    ⟨hnr, e, he, heq⟩ | ⟨hnr, hok, heq⟩ | ⟨hr, htr, heq⟩ | ⟨hr, htr, e, he, heq⟩ | ⟨hr, htr, hok, heq⟩
  · -- refused
    rw [heq]
    simp only
    have hun := allocBegin_err_unchanged s.cl t m obs ing e he
    rw [hun]
    have hpc0 := hU.pc_zero hpm ha hk hnr
    refine ⟨(⟨hpw.nodup, hpw.lt⟩ : PW { s with cl := s.cl }).updProc _ _ (by simp), ⟨U, ?_⟩, ?_, ?_⟩
    · exact hU.atKill hpw hpm hk _ (by simp) (by simp [hk]) (by simp)
    · exact h.dg.atStay hpw hpm hk _ (by simp) (by simp [hk]) (fun hpc => by omega)
    · exact (h.eg.of_cl s.cl).updProc_neutral ⟨hpw.nodup, hpw.lt⟩ hpm _ hnAT (by simp [PK.isTel, PK.isAI])
  · -- first block
    rw [heq]
    simp only
    have hgoodf : GoodT (fun r : TaskRec => { r with status := .scheduled }) :=
      fun r => ⟨rfl, fun h => by simp at h⟩
    have hpwT : PW (({ s with cl := (s.cl.allocBegin t m obs ing).1 }).updTask t
        (fun r => { r with status := .scheduled })) := ⟨hpw.nodup, hpw.lt⟩
    have hpwX : PW ((({ s with cl := (s.cl.allocBegin t m obs ing).1 }).updTask t
        (fun r => { r with status := .scheduled })).spawn (.doWork t m preds 0 0) p.wake).1 :=
      hpwT.spawn _ _
    refine ⟨hpwX.updProc _ _ (by simp), ?_, ?_, ?_⟩
    · -- CI: first the record update and the new body, then the cluster step
      let s2 : Sys := ((s.updTask t (fun r => { r with status := .scheduled })).spawn
        (.doWork t m preds 0 0) p.wake).1
      have hpwT2 : PW (s.updTask t (fun r => { r with status := .scheduled })) := ⟨hpw.nodup, hpw.lt⟩
      have hpw2 : PW s2 := hpwT2.spawn _ _
      have hci2 : CI s2 U :=
        hU.addProcs (ClQuiet.refl _) (TaskMono.updTask s t _ hgoodf) (fun _ h => h)
          [{ pid := s.nextPid, k := .doWork t m preds 0 0, wake := p.wake }] rfl (by simp [PK.isAT, PK.isPI])
      have hp2 : p ∈ s2.procs := by simp [s2, hpm]
      obtain ⟨U', hU'⟩ := hci2.atBegin hpw2 hp2 ha hk hnr hok
        (fin (.allocTask t m preds obs ing s.nextPid) (.timeout 1) p.wake) (by simp) s.nextPid (by simp) (by simp)
      exact ⟨U', hU'⟩
    · exact h.dg.atBegin hU hpw hpm ha hk hnr hok _ (by simp) (by simp) (by simp) (by simp [ha]) _ _
    · have : EG ((({ s with cl := (s.cl.allocBegin t m obs ing).1 }).updTask t
          (fun r => { r with status := .scheduled })).spawn (.doWork t m preds 0 0) p.wake).1 :=
        h.eg.addProcs rfl rfl [{ pid := s.nextPid, k := .doWork t m preds 0 0, wake := p.wake }] rfl
          (by simp [PK.isTel, PK.isAI])
      exact this.updProc_neutral hpwX (by simp [hpm]) _ hnAT (by simp [PK.isTel, PK.isAI])
  · -- polling
    rw [heq]
    simp only
    have hpc := hU.pc_pos hpm ha hk hr
    refine ⟨hpw.updProc _ _ (by simp), ⟨U, ?_⟩, ?_, ?_⟩
    · exact hU.atPoll hpw hpm ha hk hpc _ (by simp) (by simp [hk]) (by simp)
    · exact h.dg.atStay hpw hpm hk _ (by simp) (by simp [hk]) (fun _ => ⟨by simp [ha], by simp⟩)
    · exact h.eg.updProc_neutral hpw hpm _ hnAT (by simp [PK.isTel, PK.isAI])
  · -- completion refused: impossible
    exfalso
    have := (hU.atEnd hpw hpm ha hk hr (fin p.k .done p.wake) (by simp) (by simp) (by simp)).1
    rw [this] at he; exact absurd he (by simp)
  · -- completion
    rw [heq]
    simp only
    have hgoodf : GoodT (fun r : TaskRec => { r with status := .finished }) :=
      fun r => ⟨rfl, fun h => by simp at h⟩
    let Y : Sys := { s with cl := (s.cl.allocEnd t m obs ing).1 }.updProc p.pid
      (fin (.allocTask t m preds obs ing ret) .done p.wake)
    have hpwc : PW { s with cl := (s.cl.allocEnd t m obs ing).1 } := ⟨hpw.nodup, hpw.lt⟩
    have hY : SInv Y := by
      refine ⟨hpwc.updProc _ _ (by simp), ⟨U, ?_⟩, ?_, ?_⟩
      · exact (hU.atEnd hpw hpm ha hk hr _ (by simp) (by simp [hk]) (by simp)).2
      · exact h.dg.atEnd hpw hpm hk htr hok _ (by simp) (by simp [hk])
      · exact (h.eg.of_cl _).updProc_neutral hpwc hpm _ hnAT (by simp [PK.isTel, PK.isAI])
    exact hY.pres (Pres.updTask Y t _ hgoodf)

/-! ### `do_work` -/

/-- the three outcomes of a `do_work` block -/
def DwOut (s : Sys) (t : Tid) (m : Mid) (preds : List Tid) (ph tot : Nat) (X : Sys × PK × Yield) : Prop :=
  (ph < 2 ∧ ∃ ph' tot' y, X = (s, .doWork t m preds ph' tot', y)) ∨
  (ph < 2 ∧ ∃ f tot' d, GoodT f ∧ X
    = ({ (s.updTask t f) with starts := (s.updTask t f).starts ++ [t],
                               active := (s.updTask t f).active ++ [(m, t)] },
        .doWork t m preds 2 tot', .timeout d)) ∨
  (2 ≤ ph ∧ ∃ f, GoodT f ∧ X
    = ({ (s.updTask t f) with active := (s.updTask t f).active.erase (m, t) },
        .doWork t m preds 3 tot, .done))

theorem DwOut.stay {s : Sys} {t m preds ph tot} (hph : ph < 2) (ph' tot' : Nat) (y : Yield) :
    DwOut s t m preds ph tot (s, .doWork t m preds ph' tot', y) :=
  Or.inl ⟨hph, ph', tot', y, rfl⟩

theorem DwOut.start {s : Sys} {t m preds ph tot} (hph : ph < 2) (f : TaskRec → TaskRec) (tot' : Nat)
    (d : Time) (hf : GoodT f) :
    DwOut s t m preds ph tot ({ (s.updTask t f) with starts := (s.updTask t f).starts ++ [t], active := (s.updTask t f).active ++ [(m, t)] }, .doWork t m preds 2 tot', .timeout d) :=
  Or.inr (Or.inl ⟨hph, f, tot', d, hf, rfl⟩)

theorem DwOut.fin {s : Sys} {t m preds ph tot} (hph : 2 ≤ ph) (f : TaskRec → TaskRec) (hf : GoodT f) :
    DwOut s t m preds ph tot ({ (s.updTask t f) with active := (s.updTask t f).active.erase (m, t) },
        .doWork t m preds 3 tot, .done) :=
  Or.inr (Or.inr ⟨hph, f, hf, rfl⟩)

theorem doWorkBlock_out (s : Sys) (now : Time) (orc : Oracle) (t : Tid) (m : Mid) (preds : List Tid)
    (ph tot : Nat) : DwOut s t m preds ph tot (s.doWorkBlock now orc t m preds ph tot) := by
  unfold doWorkBlock
  by_cases h0 : ph = 0
  · simp only [h0, if_true]
    split
    · split
      · split
        · exact DwOut.stay (by omega) _ _ _
        · refine DwOut.start (by omega) _ _ _ ?_
          exact fun r => ⟨rfl, fun h => by simp at h⟩
      · exact DwOut.stay (by omega) _ _ _
    · split
      · exact DwOut.stay (by omega) _ _ _
      · exact DwOut.stay (by omega) _ _ _
  · simp only [h0, if_false]
    by_cases h1 : ph = 1
    · simp only [h1, if_true]
      split
      · split
        · exact DwOut.stay (by omega) _ _ _
        · refine DwOut.start (by omega) _ _ _ ?_
          exact fun r => ⟨rfl, fun h => by simp at h⟩
      · exact DwOut.stay (by omega) _ _ _
    · simp only [h1, if_false]
      refine DwOut.fin (by omega) _ ?_
      intro r
      refine ⟨?_, ?_⟩
      · simp only; split <;> rfl
      · simp only; split <;> exact fun h => h

end Sys
end Topsim
