/-
  Lemmas about `Sys.batchPlan` (BatchPlanning.generate_plan) and the plan's
  predecessor / successor queries, cited by TopsimProps/C14.lean.
-/
import TopsimModel.Procs

namespace Topsim

theorem plan_tasks (o : Obs) (clock : Nat) :
    (Sys.batchPlan o clock).1.map (·.id) = o.wf.topo.map (Tid.wf o.id clock) ∧
    (Sys.batchPlan o clock).2.tasks = o.wf.topo.map (Tid.wf o.id clock) := by
  simp [Sys.batchPlan, List.map_map, Function.comp_def]

theorem tid_wf_inj (o clock : Nat) (a b : Nat) (h : Tid.wf o clock a = Tid.wf o clock b) : a = b := by
  injection h

theorem plan_ids_nodup (o : Obs) (clock : Nat) (h : o.wf.topo.Nodup) :
    ((Sys.batchPlan o clock).1.map (·.id)).Nodup := by
  rw [(plan_tasks o clock).1]
  unfold List.Nodup at *
  rw [List.pairwise_map]
  exact h.imp (fun hne e => hne (tid_wf_inj _ _ _ _ e))

theorem plan_attrs (o : Obs) (clock n comp data : Nat) (hn : n ∈ o.wf.topo)
    (hattr : o.wf.nodes.find? (·.1 = n) = some (n, comp, data)) :
    ∃ r ∈ (Sys.batchPlan o clock).1, r.id = .wf o.id clock n ∧ r.flops = comp ∧ r.data = data ∧
      r.status = .unscheduled ∧ r.planned = none := by
  refine ⟨_, List.mem_map.mpr ⟨n, hn, rfl⟩, ?_⟩
  simp [hattr]

theorem plan_preds_io (o : Obs) (clock : Nat) (r : TaskRec) (n : Nat)
    (hr : r ∈ (Sys.batchPlan o clock).1) (hid : r.id = .wf o.id clock n) :
    r.preds = (o.wf.edges.filter (fun e => e.2.1 = n)).map (fun e => Tid.wf o.id clock e.1) ∧
    r.io = (o.wf.edges.filter (fun e => e.2.1 = n)).map (fun e => (Tid.wf o.id clock e.1, e.2.2)) := by
  obtain ⟨n', _, rfl⟩ := List.mem_map.mp hr
  have : n' = n := tid_wf_inj _ _ _ _ hid
  subst this
  exact ⟨rfl, rfl⟩

theorem idxOf_map_inj {α β} [DecidableEq α] [DecidableEq β] (f : α → β)
    (hf : ∀ a b, f a = f b → a = b) (l : List α) (a : α) :
    (l.map f).idxOf (f a) = l.idxOf a := by
  induction l with
  | nil => simp
  | cons x r ih =>
    by_cases h : x = a
    · subst h; simp
    · have h' : f x ≠ f a := fun e => h (hf _ _ e)
      have e1 : (f x == f a) = false := by simpa using h'
      have e2 : (x == a) = false := by simpa using h
      simp [List.idxOf_cons, e1, e2, ih]

theorem plan_topological (o : Obs) (clock : Nat) (_hnd : o.wf.topo.Nodup)
    (hfw : ∀ e ∈ o.wf.edges, o.wf.topo.idxOf e.1 < o.wf.topo.idxOf e.2.1) :
    let plan := (Sys.batchPlan o clock).2
    ∀ e ∈ plan.edges, plan.tasks.idxOf e.1 < plan.tasks.idxOf e.2 := by
  intro plan e he
  have ht : plan.tasks = o.wf.topo.map (Tid.wf o.id clock) := (plan_tasks o clock).2
  have hedges : plan.edges =
      o.wf.edges.map (fun e => (Tid.wf o.id clock e.1, Tid.wf o.id clock e.2.1)) := by
    simp [plan, Sys.batchPlan]
  rw [hedges] at he
  obtain ⟨e0, he0, rfl⟩ := List.mem_map.mp he
  rw [ht]
  simp only
  rw [idxOf_map_inj _ (tid_wf_inj _ _), idxOf_map_inj _ (tid_wf_inj _ _)]
  exact hfw e0 he0

theorem plan_queries (plan : Plan) (p t : Tid) : p ∈ plan.preds t ↔ t ∈ plan.succs p := by
  simp only [Plan.preds, Plan.succs, List.mem_map, List.mem_filter, decide_eq_true_eq]
  constructor
  · rintro ⟨⟨a, b⟩, ⟨hm, hb⟩, ha⟩
    simp only at hb ha
    subst hb ha
    exact ⟨(a, b), ⟨hm, rfl⟩, rfl⟩
  · rintro ⟨⟨a, b⟩, ⟨hm, ha⟩, hb⟩
    simp only at hb ha
    subst hb ha
    exact ⟨(a, b), ⟨hm, rfl⟩, rfl⟩

end Topsim
