/-
  FinishStr3 — conservation of the hot buffer when no tier move is ever made
  (`HC`), the stream invariant `SI` under the supervisor's and the stream's own
  blocks, and both along every run: in a finished run every observation has
  been removed from the hot buffer.
-/
import TopsimProofs.FinishStr2

namespace Topsim
namespace Sys

open Cluster

/-! ### conservation -/


def sumSz (b : Buffer) (L : List Oid) : Int := (L.map b.sizeOf).sum

/-- hot-buffer conservation (no tier move): the data of the observations not yet removed fits in
the used part of the hot buffer -/
def HC (s : Sys) : Prop :=
  ∀ L : List Oid, L.Nodup → (∀ x ∈ L, x ∉ s.buf.hot.finished) → sumSz s.buf L ≤ s.buf.hot.total - s.buf.hot.cur

theorem sum_upd (f g : Oid → Int) (oid : Oid) (r : Int) (hg : ∀ x, g x = if x = oid then f oid + r else f x)
    (L : List Oid) (hnd : L.Nodup) : (L.map g).sum = (L.map f).sum + (if oid ∈ L then r else 0) := by
  induction L with
  | nil => simp
  | cons a t ih =>
    obtain ⟨hat, hnt⟩ := List.nodup_cons.mp hnd
    simp only [List.map_cons, List.sum_cons, List.mem_cons]
    rw [ih hnt, hg a]
    by_cases e : a = oid
    · subst e
      simp only [if_true, true_or]
      rw [if_neg hat]; omega
    · have e' : ¬ oid = a := fun h => e h.symm
      simp only [e, e', if_false, false_or]
      omega

theorem HC.congr {s X : Sys} (h : HC s) (e : bq X.buf = bq s.buf) : HC X := by
  unfold bq at e
  simp only [Prod.mk.injEq] at e
  obtain ⟨e1, e2, e3, e4, _⟩ := e
  intro L hnd hL
  have : sumSz X.buf L = sumSz s.buf L := by
    unfold sumSz
    apply congrArg
    apply List.map_congr_left
    intro x _
    unfold Buffer.sizeOf; rw [e3]
  rw [this, e1, e2]
  exact h L hnd (by rw [← e4]; exact hL)

theorem HC.deposit {s X : Sys} (h : HC s) {oid : Oid} {ob : Obs} (hd : Dep s X oid ob) (hr : 0 ≤ ob.rate) : HC X := by
  obtain ⟨_, d1, d2, d3, d4⟩ := hd
  intro L hnd hL
  have := sum_upd s.buf.sizeOf X.buf.sizeOf oid ob.rate d4 L hnd
  unfold sumSz
  rw [this, d1, d2]
  have h0 := h L hnd (by rw [← d3]; exact hL)
  unfold sumSz at h0
  split <;> omega

theorem remove_cases (b : Buffer) (oid : Oid) :
    (b.remove oid).1 = b ∨
    (oid ∈ b.hot.scheduled ∧ (b.remove oid).1.hot.cur = b.hot.cur + b.sizeOf oid ∧
      (b.remove oid).1.hot.total = b.hot.total ∧ (b.remove oid).1.hot.finished = b.hot.finished ++ [oid] ∧
      (b.remove oid).1.size = b.size) := by
  unfold Buffer.remove
  split
  · rename_i h; exact Or.inr ⟨h, rfl, rfl, rfl, rfl⟩
  · exact Or.inl rfl

theorem HC.remove {s X : Sys} (h : HC s) (hb : BufI s) {oid : Oid} (hX : X.buf = (s.buf.remove oid).1) : HC X := by
  rcases remove_cases s.buf oid with e | ⟨hin, r1, r2, r3, r4⟩
  · exact h.congr (by rw [hX, e])
  · -- the observation was not yet among the removed ones
    have hnf : oid ∉ s.buf.hot.finished := by
      intro hf
      have h2 := hb.cnt oid
      have c1 := count_pos_of_mem hin
      have c2 := count_pos_of_mem hf
      unfold locCount bufList at h2
      simp only [List.count_append] at h2
      omega
    intro L hnd hL
    rw [hX, r3] at hL
    have hoL : oid ∉ L := fun hx => (hL oid hx) (by simp)
    have h0 := h (oid :: L) (List.nodup_cons.mpr ⟨hoL, hnd⟩) (by
      intro x hx
      rcases List.mem_cons.mp hx with rfl | hx
      · exact hnf
      · exact fun hf => hL x hx (List.mem_append_left _ hf))
    have e : sumSz X.buf L = sumSz s.buf L := by
      unfold sumSz
      apply congrArg
      apply List.map_congr_left
      intro x _
      unfold Buffer.sizeOf; rw [hX, r4]
    unfold sumSz at h0 e ⊢
    simp only [List.map_cons, List.sum_cons] at h0
    rw [e, hX, r1, r2]
    omega

theorem nextForProcessing_bq (b : Buffer) : bq b.nextForProcessing.1 = bq b := by
  unfold Buffer.nextForProcessing
  split <;> rfl



/-! ### the ingest supervisor -/

theorem allocIngestBlock_later (s : Sys) (now : Time) (pc : Nat) (oid : Oid) (tl : Int) (hpc : pc ≠ 0)
    (ob : Obs) (hob : s.obs? oid = some ob) (hst : ob.status ≠ .waiting) :
    (s.allocIngestBlock now pc oid tl).1.obs = s.obs ∧ (s.allocIngestBlock now pc oid tl).1.procs = s.procs ∧
    (s.allocIngestBlock now pc oid tl).1.nextPid = s.nextPid := by
  unfold allocIngestBlock
  simp only [hpc, if_false]
  unfold allocIngestIter
  simp only [hob]
  by_cases hfin : ob.status = .finished
  · simp only [hfin, if_true]; refine ⟨?_, ?_, ?_⟩ <;> first | rfl | trivial
  · simp only [hfin, if_false, hst]
    split <;> exact ⟨rfl, rfl, rfl⟩

theorem si_allocIngest {s : Sys} (hs : SInv s) (hfi : FI s) (hb : BufI s) (h : SI s) {p : Proc} (hp : p ∈ s.procs)
    {oid tl} (hk : p.k = .allocIngest oid tl) (orc : Oracle) :
    SI ((s.block p orc).1.updProc p.pid (fin (s.block p orc).2.1 (s.block p orc).2.2 p.wake)) := by
  have hpw := hs.pw
  have hbk : s.block p orc = s.allocIngestBlock p.wake p.pc oid tl := by
    unfold block; simp only [hk]
  have hbuf : (s.block p orc).1.buf = s.buf :=
    block_buf s p orc (by simp [hk, PK.tag]) (by simp [hk, PK.tag]) (by simp [hk, PK.tag]) (by simp [hk, PK.tag])
      (by simp [hk, PK.tag])
  by_cases hpc : p.pc = 0
  · obtain ⟨ob0, hob, hw, n, hwake⟩ := (hfi.ok p hp).aiWait _ _ hk hpc
    have hoid : ob0.id = oid := (obs_mem_of_obs? hob).2
    have hnat : natNow p.wake = n := by rw [hwake]; exact natNow_natCast n
    rw [hbk] at hbuf ⊢
    rw [hpc, allocIngestBlock_first s p.wake oid tl ob0 hob hw] at hbuf ⊢
    simp only at hbuf ⊢
    generalize hX : ((((s.updObs oid (fun r => { r with ast := some (natNow p.wake) })).spawn
            (.provIngest oid ob0.ingestDemand) p.wake).1.spawn (.ingestStream oid 0) p.wake).1.updObs oid
            (fun r => { r with status := .running })) = X at hbuf ⊢
    have hXprocs : X.procs = s.procs ++ [{ pid := s.nextPid, k := .provIngest oid ob0.ingestDemand, wake := p.wake },
        { pid := s.nextPid + 1, k := .ingestStream oid 0, wake := p.wake }] := by
      subst hX; simp
    have hpwX : PW X := by
      subst hX
      have h1 : PW (s.updObs oid (fun r => { r with ast := some (natNow p.wake) })) := ⟨hpw.nodup, hpw.lt⟩
      have h2 := (h1.spawn (.provIngest oid ob0.ingestDemand) p.wake).spawn (.ingestStream oid 0) p.wake
      exact ⟨h2.nodup, h2.lt⟩
    have hupd : ObsUpd s X oid (fun r => { r with ast := some (natNow p.wake), status := .running }) := by
      refine ⟨?_, fun _ => rfl⟩
      subst hX
      simp only [Sys.updObs, Sys.spawn, List.map_map]
      apply List.map_congr_left
      intro r _
      simp only [Function.comp]
      by_cases e : r.id = oid <;> simp [e]
    have hXoid : X.obs? oid = some { ob0 with ast := some (natNow p.wake), status := .running } := by
      rw [hupd.obs? oid, hob]; simp [hoid]
    have hm := memSpec_updProc hpw hp _ hXprocs hpwX
      (fin (.allocIngest oid ((ob0.duration : Int) - 1)) (.timeout 1) p.wake)
    -- no stream exists yet for this observation
    have hnoStr : ∀ q ∈ s.procs, ∀ tl', q.k ≠ .ingestStream oid tl' := by
      intro q hq tl' hqk
      obtain ⟨r, hr, hrs⟩ := hb.strObs q hq oid tl' hqk
      have h1 : s.obs.find? (fun r => decide (r.id = oid)) = some ob0 := hob
      rw [h1] at hr; injection hr with e
      subst e; exact hrs hw
    refine h.stepP hpw hp hm (by simp) ?_ ?_ ?_ ?_ ?_ ?_ ?_ ?_ ?_ ?_
    · intro o tl' e; simp at e
    · intro o tl' e; rw [hk] at e; simp at e
    · intro q hq o tl' e
      simp only [List.mem_cons, List.not_mem_nil, or_false] at hq
      rcases hq with rfl | rfl
      · simp at e
      · simp only [PK.ingestStream.injEq] at e
        obtain ⟨rfl, _⟩ := e
        exact ⟨rfl, rfl, _, natNow p.wake, hXoid, rfl, by rw [hnat]; exact hwake⟩
    · intro q hq o tl' hqk ob a h1 h2
      have hne : o ≠ oid := fun e => hnoStr q hq tl' (e ▸ hqk)
      exact ⟨ob, hupd.other hne h1, h2⟩
    · intro ob' hob' hst
      obtain ⟨ob, hobm, rfl⟩ := hupd.mem (show ob' ∈ X.obs from hob')
      by_cases e : ob.id = oid
      · right
        refine ⟨{ pid := s.nextPid + 1, k := .ingestStream oid 0, wake := p.wake }, by simp, 0, ?_⟩
        simp [e]
      · left
        simp only [e, if_false] at hst ⊢
        exact ⟨ob, hobm, rfl, hst⟩
    · intro ob' hob' hst
      obtain ⟨ob, hobm, rfl⟩ := hupd.mem (show ob' ∈ X.obs from hob')
      by_cases e : ob.id = oid
      · simp [e] at hst
      · left
        simp only [e, if_false] at hst ⊢
        exact ⟨ob, hobm, rfl, hst⟩
    · intro o tl' e; rw [hk] at e; simp at e
    · intro o ob h1
      refine ⟨_, (hupd.obs? o).trans (by rw [h1]; rfl), ?_⟩
      dsimp only
      split <;> rfl
    · intro o
      show s.buf.sizeOf o ≤ X.buf.sizeOf o
      rw [hbuf]; exact Int.le_refl _
    · intro ob' hob'
      obtain ⟨ob, hobm, rfl⟩ := hupd.mem (show ob' ∈ X.obs from hob')
      exact ⟨ob, hobm, by split <;> rfl⟩
  · obtain ⟨ob, hob, hst⟩ := (hfi.ok p hp).aiRun _ _ hk (by omega)
    obtain ⟨e1, e2, e3⟩ := allocIngestBlock_later s p.wake p.pc oid tl hpc ob hob hst
    exact si_quiet hs h hp orc (by rw [hbk]; exact e1) (by rw [hbuf]) (by simp [hk, PK.tag]) []
      (by rw [hbk]; simpa using e2) (by rw [hbk]; exact ⟨by rw [e2]; exact hpw.nodup, by rw [e2, e3]; exact hpw.lt⟩)
      (by simp)

/-! ### the stream itself -/

theorem si_ingestStream {s : Sys} (hs : SInv s) (hb : BufI s) (h : SI s) {p : Proc} (hp : p ∈ s.procs)
    {oid tl} (hk : p.k = .ingestStream oid tl) (orc : Oracle)
    (hnr : ∀ e, (s.block p orc).2.2 ≠ .raised e) :
    SI ((s.block p orc).1.updProc p.pid (fin (s.block p orc).2.1 (s.block p orc).2.2 p.wake)) := by
  have hpw := hs.pw
  have hbk : s.block p orc = s.ingestStreamBlock p.wake p.pc oid tl := by
    unfold block; simp only [hk]
  obtain ⟨tl', hk'⟩ := ingestStreamBlock_k s p.wake p.pc oid tl
  have hobs : (s.block p orc).1.obs = s.obs := block_obs s p orc (by simp [hk, PK.tag]) (by simp [hk, PK.tag])
  rw [hbk] at hnr hobs ⊢
  have hprocs : (s.ingestStreamBlock p.wake p.pc oid tl).1.procs = s.procs ++ [] := by
    simpa using ingestStreamBlock_procsq s p.wake p.pc oid tl
  have hpwX : PW (s.ingestStreamBlock p.wake p.pc oid tl).1 := (ingestStreamBlock_pres s p.wake p.pc oid tl).pw hpw
  have hm := memSpec_updProc hpw hp [] hprocs hpwX
    (fin (s.ingestStreamBlock p.wake p.pc oid tl).2.1 (s.ingestStreamBlock p.wake p.pc oid tl).2.2 p.wake)
  have hbq := ingestStreamBlock_bq s p.wake p.pc oid tl
  have hobs? : ∀ o, ((s.ingestStreamBlock p.wake p.pc oid tl).1.updProc p.pid
      (fin (s.ingestStreamBlock p.wake p.pc oid tl).2.1 (s.ingestStreamBlock p.wake p.pc oid tl).2.2 p.wake)).obs? o
      = s.obs? o := by
    intro o; unfold obs?; rw [updProc_obs, hobs]
  have hsize : ∀ o, s.buf.sizeOf o ≤ (s.ingestStreamBlock p.wake p.pc oid tl).1.buf.sizeOf o := by
    rcases hbq with ⟨e, _⟩ | ⟨ob, hob, _, _, _, _, _, hsz⟩
    · intro o
      have : (s.ingestStreamBlock p.wake p.pc oid tl).1.buf.size = s.buf.size := congrArg (·.2.2.1) e
      unfold Buffer.sizeOf; rw [this]; exact Int.le_refl _
    · intro o
      rw [hsz o]
      split
      · rename_i e; subst e
        have := h.rp ob (obs_mem_of_obs? hob).1; omega
      · exact Int.le_refl _
  refine h.stepP hpw hp hm (by simp) ?_ ?_ (by simp) ?_ ?_ ?_ ?_ ?_ hsize ?_
  · intro o tl0 e
    simp only [fin_k] at e
    rw [hk'] at e
    simp only [PK.ingestStream.injEq] at e
    obtain ⟨rfl, _⟩ := e
    exact ⟨tl, hk⟩
  · intro o tl0 e
    rw [hk] at e
    simp only [PK.ingestStream.injEq] at e
    obtain ⟨rfl, _⟩ := e
    exact ⟨tl', by simp only [fin_k]; exact hk'⟩
  · intro q _ o tl0 _ ob a h1 h2; exact ⟨ob, by rw [hobs?]; exact h1, h2⟩
  · intro ob' hob' hst
    left; exact ⟨ob', by rw [updProc_obs, hobs] at hob'; exact hob', rfl, hst⟩
  · intro ob' hob' hst
    left; exact ⟨ob', by rw [updProc_obs, hobs] at hob'; exact hob', rfl, hst⟩
  · intro o tl0 e hp0
    rw [hk] at e
    simp only [PK.ingestStream.injEq] at e
    obtain ⟨rfl, _⟩ := e
    obtain ⟨_, ob, a, hob, _, _⟩ := h.sw p hp oid tl hk hp0
    have hom := (obs_mem_of_obs? hob).1
    have hoid := (obs_mem_of_obs? hob).2
    -- the observation is RUNNING
    have hrun : ob.status = .running := by
      cases hst : ob.status with
      | running => rfl
      | waiting =>
        exfalso
        obtain ⟨r, hr, hrs⟩ := hb.strObs p hp oid tl hk
        have h1 : s.obs.find? (fun r => decide (r.id = oid)) = some ob := hob
        rw [h1] at hr; injection hr with e
        subst e; exact hrs hst
      | finished =>
        exfalso
        obtain ⟨q, hq, tlq, hqk, hqc⟩ := h.fs ob hom hst
        rw [hoid] at hqk
        have := hb.strUniq q hq p hp oid tlq tl hqk hk
        have : q = p := hpw.eq_of_pid hq hp this
        subst this; omega
    rcases hbq with ⟨_, hraise⟩ | ⟨ob', hob', _, _, _, _, _, hsz⟩
    · obtain ⟨e, he⟩ := hraise ob hob hrun
      exact absurd he (hnr e)
    · rw [hob] at hob'; injection hob' with e
      subst e
      refine ⟨ob, by rw [hobs?]; exact hob, ?_⟩
      show ob.rate ≤ (s.ingestStreamBlock p.wake p.pc oid tl).1.buf.sizeOf oid
      rw [hsz oid, if_pos rfl]
      have := h.sn oid; omega
  · intro o ob h1; exact ⟨ob, by rw [hobs?]; exact h1, rfl⟩
  · intro ob' hob'
    exact ⟨ob', by rw [updProc_obs, hobs] at hob'; exact hob', rfl⟩


/-! ### frames -/


theorem allocTasksBlock_bufCases (s : Sys) (now : Time) (orc : Oracle) (pc : Nat) (oid : Oid)
    (sc pa : List (Tid × Mid)) (po : List Tid) (fn : Bool) :
    (s.allocTasksBlock now orc pc oid sc pa po fn).1.buf = s.buf ∨
    (s.allocTasksBlock now orc pc oid sc pa po fn).1.buf = (s.buf.remove oid).1 := by
  cases fn with
  | true => rw [allocTasksBlock_fin]; exact Or.inl rfl
  | false =>
    rw [allocTasksBlock_eq]
    have ha : (atStart s now pc oid).buf = s.buf := atStart_buf s now pc oid
    generalize atStart s now pc oid = a at ha ⊢
    have h1 : (a.updateCurrentPlan oid).buf = s.buf := (updateCurrentPlan_buf a oid).trans ha
    have hout := allocTasksIter_out a now orc oid sc pa po
    generalize a.allocTasksIter now orc oid sc pa po = r at hout ⊢
    have h4 : ∀ out : AlgOut, (atS4 (atS3 (a.updateCurrentPlan oid) out oid) (natNow now) oid).buf = s.buf :=
      fun out => (atS3_buf _ out oid).trans h1
    cases hout with
    | noPlan _ => exact Or.inl h1
    | algErr _ _ _ _ => exact Or.inl h1
    | finish plan out _ _ _ _ _ _ =>
      right
      show ((atS4 (atS3 (a.updateCurrentPlan oid) out oid) (natNow now) oid).buf.remove oid).1 = _
      rw [h4 out]
    | finishBad plan out _ _ _ _ _ _ =>
      right
      show ((atS4 (atS3 (a.updateCurrentPlan oid) out oid) (natNow now) oid).buf.remove oid).1 = _
      rw [h4 out]
    | finishWait plan out _ _ _ _ _ =>
      right
      show ((atS4 (atS3 (a.updateCurrentPlan oid) out oid) (natNow now) oid).buf.remove oid).1 = _
      rw [h4 out]
    | idle plan out _ _ _ _ => exact Or.inl ((atS3_buf _ out oid).trans h1)
    | alloc plan out y _ _ _ _ =>
      exact Or.inl ((processCurrentSchedule_buf _ now oid _ _).trans ((atS3_buf _ out oid).trans h1))

/-- the processes of `s` are still there after the block, and pids stay distinct -/
theorem block_pre_str {s : Sys} (hpw : PW s) (heg : EG s) {p : Proc} (hp : p ∈ s.procs) (ha : p.alive = true)
    (hmin : ∀ q ∈ s.procs, q.alive = true → p.wake ≤ q.wake) (orc : Oracle) :
    s.procs <+: (s.block p orc).1.procs ∧ PW (s.block p orc).1 := by
  have ofE : PresE s (s.block p orc).1 → s.procs <+: (s.block p orc).1.procs ∧ PW (s.block p orc).1 :=
    fun h => ⟨h.pre, h.pw hpw⟩
  cases hk : p.k with
  | monitor =>
    have hb : s.block p orc = ((s.monitorBlock p.wake).1, p.k, (s.monitorBlock p.wake).2) := by
      unfold block; simp only [hk]
    exact ofE (by rw [hb]; exact (monitorBlock_pres _ _).toE)
  | telescope =>
    have hb : s.block p orc = ((s.telescopeBlock p.wake).1, .telescope, (s.telescopeBlock p.wake).2) := by
      unfold block; simp only [hk]
    obtain ⟨hc, _, _⟩ := telescope_key heg hp ha hmin hk
    rw [hb]; exact ⟨hc.pre, hc.pw hpw⟩
  | clusterLoop =>
    have hb : s.block p orc = ({ s with cl := s.cl.loopTick }, p.k, .timeout 1) := by
      unfold block; simp only [hk]
    exact ofE (by rw [hb]; exact (clusterLoop_pres _).toE)
  | schedLoop =>
    have hb : s.block p orc = ((s.schedLoopBlock p.wake orc).1, p.k, (s.schedLoopBlock p.wake orc).2) := by
      unfold block; simp only [hk]
    exact ofE (by rw [hb]; exact (schedLoopBlock_pres _ _ _).toE)
  | bufferLoop =>
    have hb : s.block p orc = ((s.bufferLoopBlock p.wake).1, p.k, (s.bufferLoopBlock p.wake).2) := by
      unfold block; simp only [hk]
    exact ofE (by rw [hb]; exact (bufferLoopBlock_pres _ _).toE)
  | allocIngest o tl =>
    have hb : s.block p orc = s.allocIngestBlock p.wake p.pc o tl := by
      unfold block; simp only [hk]
    exact ofE (by rw [hb]; exact (allocIngestBlock_E s p.wake p.pc o tl).1)
  | provIngest o d =>
    have hb : s.block p orc = s.provIngestBlock p.wake p.pc o d := by
      unfold block; simp only [hk]
    exact ofE (by rw [hb]; exact (provIngestBlock_presE s p.wake p.pc o d).1)
  | ingestStream o tl =>
    have hb : s.block p orc = s.ingestStreamBlock p.wake p.pc o tl := by
      unfold block; simp only [hk]
    exact ofE (by rw [hb]; exact (ingestStreamBlock_pres _ _ _ _ _).toE)
  | allocTask t m preds obs ing ret =>
    have hb : s.block p orc = s.allocTaskBlock p.wake t m preds obs ing ret := by
      unfold block; simp only [hk]
    exact ofE (by rw [hb]; exact (allocTaskBlock_presE s hpw p.wake t m preds obs ing ret).1)
  | doWork t m preds ph tot =>
    have hb : s.block p orc = s.doWorkBlock p.wake orc t m preds ph tot := by
      unfold block; simp only [hk]
    exact ofE (by rw [hb]; exact (doWorkBlock_presE s p.wake orc t m preds ph tot).1)
  | allocTasks o sc pa po fin =>
    have hb : s.block p orc = s.allocTasksBlock p.wake orc p.pc o sc pa po fin := by
      unfold block; simp only [hk]
    exact ofE (by rw [hb]; exact allocTasksBlock_presE _ _ _ _ _ _ _ _ _)
  | hot2cold cur =>
    have hb : s.block p orc = s.hot2coldBlock p.wake cur := by
      unfold block; simp only [hk]
    exact ofE (by rw [hb]; exact (hot2coldBlock_pres _ _ _).toE)
  | cold2hot cur =>
    have hb : s.block p orc = s.cold2hotBlock p.wake cur := by
      unfold block; simp only [hk]
    exact ofE (by rw [hb]; exact (cold2hotBlock_pres _ _ _).toE)

/-- no tier-move process was ever created -/
def NoTier (s : Sys) : Prop := ∀ p ∈ s.procs, p.k.tag ≠ "hot2cold" ∧ p.k.tag ≠ "cold2hot"

theorem noTier_back {s X : Sys} {p : Proc} (hp : p ∈ s.procs) (hpre : s.procs <+: X.procs) (hpwX : PW X)
    (k' : PK) (y : Yield) (w : Time) (htag : k'.tag = p.k.tag)
    (h : NoTier (X.updProc p.pid (fin k' y w))) : NoTier s := by
  intro q hq
  have hqX := hpre.subset hq
  have hpX := hpre.subset hp
  by_cases e : q.pid = p.pid
  · have : q = p := hpwX.eq_of_pid hqX hpX e
    subst this
    have := h (fin k' y w q) (mem_updProc.mpr ⟨q, hqX, by rw [if_pos rfl]⟩)
    simp only [fin_k] at this
    rw [htag] at this; exact this
  · exact h q (mem_updProc.mpr ⟨q, hqX, by rw [if_neg e]⟩)

theorem SI.congr {a b : Sys} (h : SI a) (hp : b.procs = a.procs) (ho : b.obs = a.obs) (hb : b.buf = a.buf) : SI b := by
  have ho? : ∀ o, b.obs? o = a.obs? o := fun o => by unfold obs?; rw [ho]
  constructor
  · rw [hp]; intro q hq o tl hqk hq0; rw [ho?]; exact h.sw q hq o tl hqk hq0
  · rw [hp, ho]; exact h.os
  · rw [hp, ho]; exact h.fs
  · rw [hp, hb]; intro q hq o tl hqk hq1; rw [ho?]; exact h.sz q hq o tl hqk hq1
  · rw [hb]; exact h.sn
  · rw [ho]; exact h.rp


/-! ### one step -/

/-- the invariant: as long as no block has raised and no tier move was made -/
def SHInv (s : Sys) : Prop := s.crashed = none → NoTier s → SI s ∧ HC s

theorem schedLoopBlock_bq (s : Sys) (now : Time) (orc : Oracle) : bq (s.schedLoopBlock now orc).1.buf = bq s.buf := by
  rcases schedLoopBlock_buf s now orc with ⟨hbuf, _⟩ | ⟨oid, o, recs, plan, _, _, _, hbuf, _⟩
  · rw [hbuf]
  · rw [hbuf]; exact nextForProcessing_bq s.buf

theorem sh_step {s : Sys} (hs : SInv s) (hf : FInv s) (hb : BufI s) (h : SHInv s) {pid : Nat}
    (hen : s.enabled pid) (orc : Oracle) (hpre : s.alg = .oracle → orc.preOk) : SHInv (s.resume pid orc).1 := by
  intro hc hnt'
  obtain ⟨p, hp, ha, hmin⟩ := hen
  obtain ⟨hc0, hnr⟩ := resume_nocrash s pid orc p hp ha hc
  have hfi := hf hc0
  obtain ⟨hpm, hpid⟩ := proc?_some hp
  subst hpid
  have hcore := resume_core s p.pid orc p hp ha
  have hpw := hs.pw
  obtain ⟨hprefix, hpwX⟩ := block_pre_str hpw hs.eg hpm ha hmin orc
  have htag := block_tag s hpw p orc
  have hntY : NoTier ((s.block p orc).1.updProc p.pid (fin (s.block p orc).2.1 (s.block p orc).2.2 p.wake)) := by
    intro q hq; exact hnt' q (by rw [hcore.procs]; exact hq)
  have hnt : NoTier s := noTier_back hpm hprefix hpwX _ _ _ htag hntY
  obtain ⟨hsi, hhc⟩ := h hc0 hnt
  suffices hY : SI ((s.block p orc).1.updProc p.pid (fin (s.block p orc).2.1 (s.block p orc).2.2 p.wake)) ∧
      HC (s.block p orc).1 by
    exact ⟨hY.1.congr hcore.procs hcore.obs (resume_buf s p.pid orc p hp ha),
      hY.2.congr (by rw [resume_buf s p.pid orc p hp ha])⟩
  -- blocks that touch neither observation records nor the buffer
  have quiet : p.k.tag ≠ "schedLoop" → p.k.tag ≠ "ingestStream" → p.k.tag ≠ "allocTasks" →
      p.k.tag ≠ "telescope" → p.k.tag ≠ "allocIngest" →
      ∀ new : List Proc, (s.block p orc).1.procs = s.procs ++ new → (∀ q ∈ new, q.k.tag ≠ "ingestStream") →
      SI ((s.block p orc).1.updProc p.pid (fin (s.block p orc).2.1 (s.block p orc).2.2 p.wake)) ∧
        HC (s.block p orc).1 := by
    intro h1 h2 h3 h4 h5 new hprocs hnew
    have hbuf := block_buf s p orc h1 h2 h3 (hnt p hpm).1 (hnt p hpm).2
    exact ⟨si_quiet hs hsi hpm orc (block_obs s p orc h4 h5) (by rw [hbuf]) h2 new hprocs hpwX hnew,
      hhc.congr (by rw [hbuf])⟩
  cases hk : p.k with
  | monitor =>
    have hb' : s.block p orc = ((s.monitorBlock p.wake).1, p.k, (s.monitorBlock p.wake).2) := by
      unfold block; simp only [hk]
    exact quiet (by simp [hk, PK.tag]) (by simp [hk, PK.tag]) (by simp [hk, PK.tag]) (by simp [hk, PK.tag])
      (by simp [hk, PK.tag]) [] (by rw [hb']; simpa using monitorBlock_procsq s p.wake) (by simp)
  | telescope =>
    have hbuf := block_buf s p orc (by simp [hk, PK.tag]) (by simp [hk, PK.tag]) (by simp [hk, PK.tag])
      (hnt p hpm).1 (hnt p hpm).2
    exact ⟨si_telescope hs hfi hb hsi hpm ha hmin hk orc, hhc.congr (by rw [hbuf])⟩
  | clusterLoop =>
    have hb' : s.block p orc = ({ s with cl := s.cl.loopTick }, p.k, .timeout 1) := by
      unfold block; simp only [hk]
    exact quiet (by simp [hk, PK.tag]) (by simp [hk, PK.tag]) (by simp [hk, PK.tag]) (by simp [hk, PK.tag])
      (by simp [hk, PK.tag]) [] (by rw [hb']; simp) (by simp)
  | schedLoop =>
    have hb' : s.block p orc = ((s.schedLoopBlock p.wake orc).1, p.k, (s.schedLoopBlock p.wake orc).2) := by
      unfold block; simp only [hk]
    have hbq : bq (s.block p orc).1.buf = bq s.buf := by rw [hb']; exact schedLoopBlock_bq s p.wake orc
    obtain ⟨new, hprocs, hnew⟩ := (schedLoopBlock_pres s p.wake orc).shape.newp
    exact ⟨si_quiet hs hsi hpm orc (block_obs s p orc (by simp [hk, PK.tag]) (by simp [hk, PK.tag]))
      (congrArg (·.2.2.1) hbq) (by simp [hk, PK.tag]) new (by rw [hb']; exact hprocs) hpwX
      (fun q hq => (hnew q hq).2.2.2.2.2.2.1), hhc.congr hbq⟩
  | bufferLoop =>
    have hb' : s.block p orc = ((s.bufferLoopBlock p.wake).1, p.k, (s.bufferLoopBlock p.wake).2) := by
      unfold block; simp only [hk]
    obtain ⟨new, hprocs, hnewk⟩ := bufferLoopBlock_newprocs s p.wake
    exact quiet (by simp [hk, PK.tag]) (by simp [hk, PK.tag]) (by simp [hk, PK.tag]) (by simp [hk, PK.tag])
      (by simp [hk, PK.tag]) new (by rw [hb']; exact hprocs)
      (fun q hq => by rcases hnewk q hq with e | e <;> rw [e] <;> decide)
  | allocIngest o tl =>
    have hbuf := block_buf s p orc (by simp [hk, PK.tag]) (by simp [hk, PK.tag]) (by simp [hk, PK.tag])
      (hnt p hpm).1 (hnt p hpm).2
    exact ⟨si_allocIngest hs hfi hb hsi hpm hk orc, hhc.congr (by rw [hbuf])⟩
  | provIngest o d =>
    have hb' : s.block p orc = s.provIngestBlock p.wake p.pc o d := by
      unfold block; simp only [hk]
    obtain ⟨_, _, _, new, hprocs, hnew⟩ := provIngestBlock_shape2 s p.wake p.pc o d
    exact quiet (by simp [hk, PK.tag]) (by simp [hk, PK.tag]) (by simp [hk, PK.tag]) (by simp [hk, PK.tag])
      (by simp [hk, PK.tag]) new (by rw [hb']; exact hprocs)
      (fun q hq => by obtain ⟨t, m, e, _⟩ := hnew q hq; rw [e]; simp [PK.tag])
  | ingestStream o tl =>
    have hb' : s.block p orc = s.ingestStreamBlock p.wake p.pc o tl := by
      unfold block; simp only [hk]
    refine ⟨si_ingestStream hs hb hsi hpm hk orc hnr, ?_⟩
    rw [hb']
    rcases ingestStreamBlock_bq s p.wake p.pc o tl with ⟨e, _⟩ | ⟨ob, hob, _, hd⟩
    · exact hhc.congr e
    · exact hhc.deposit hd (Int.le_of_lt (hsi.rp ob (obs_mem_of_obs? hob).1))
  | allocTask t m preds obs ing ret =>
    have hb' : s.block p orc = s.allocTaskBlock p.wake t m preds obs ing ret := by
      unfold block; simp only [hk]
    obtain ⟨new, hprocs, hnewk⟩ := allocTaskBlock_procs s hpw p.wake t m preds obs ing ret
    exact quiet (by simp [hk, PK.tag]) (by simp [hk, PK.tag]) (by simp [hk, PK.tag]) (by simp [hk, PK.tag])
      (by simp [hk, PK.tag]) new (by rw [hb']; exact hprocs) (fun q hq => by rw [hnewk q hq]; decide)
  | doWork t m preds ph tot =>
    have hb' : s.block p orc = s.doWorkBlock p.wake orc t m preds ph tot := by
      unfold block; simp only [hk]
    exact quiet (by simp [hk, PK.tag]) (by simp [hk, PK.tag]) (by simp [hk, PK.tag]) (by simp [hk, PK.tag])
      (by simp [hk, PK.tag]) [] (by rw [hb']; simpa using doWorkBlock_procs s p.wake orc t m preds ph tot) (by simp)
  | allocTasks o sc pa po fn =>
    have hb' : s.block p orc = s.allocTasksBlock p.wake orc p.pc o sc pa po fn := by
      unfold block; simp only [hk]
    obtain ⟨new, hprocs, hnew⟩ := (allocTasksBlock_pres s p.wake orc hpre p.pc o sc pa po fn).shape.newp
    have hobs := block_obs s p orc (by simp [hk, PK.tag]) (by simp [hk, PK.tag])
    have hcases := allocTasksBlock_bufCases s p.wake orc p.pc o sc pa po fn
    rw [← hb'] at hcases hprocs
    have hsize : (s.block p orc).1.buf.size = s.buf.size := by
      rcases hcases with e | e
      · rw [e]
      · rw [e]
        rcases remove_cases s.buf o with e' | ⟨_, _, _, _, e'⟩
        · rw [e']
        · exact e'
    refine ⟨si_quiet hs hsi hpm orc hobs hsize (by simp [hk, PK.tag]) new hprocs hpwX
      (fun q hq => (hnew q hq).2.2.2.2.2.2.1), ?_⟩
    rcases hcases with e | e
    · exact hhc.congr (by rw [e])
    · exact hhc.remove hb e
  | hot2cold cur => exact absurd (by rw [hk]; rfl) (hnt p hpm).1
  | cold2hot cur => exact absurd (by rw [hk]; rfl) (hnt p hpm).2

theorem start_sh (s0 : Sys) (hw : WFConfig s0) (hsz0 : s0.buf.size = [] ∧ s0.buf.hot.cur ≤ s0.buf.hot.total)
    (hrate : ∀ o ∈ s0.obs, 0 < o.rate) : SI s0.start ∧ HC s0.start := by
  obtain ⟨hprocs, _⟩ := hw.fresh
  have hp : s0.start.procs = s0.procs ++
      [{ pid := s0.nextPid, k := .monitor, wake := 0 }, { pid := s0.nextPid + 1, k := .telescope, wake := 0 },
       { pid := s0.nextPid + 2, k := .clusterLoop, wake := 0 }, { pid := s0.nextPid + 3, k := .schedLoop, wake := 0 },
       { pid := s0.nextPid + 4, k := .bufferLoop, wake := 0 }] := by
    simp [start, spawn]
  have ho : s0.start.obs = s0.obs := by simp [start, spawn]
  have hb : s0.start.buf = s0.buf := by simp [start, spawn]
  rw [hprocs] at hp
  simp only [List.nil_append] at hp
  have hno : ∀ q ∈ s0.start.procs, ∀ o tl, q.k ≠ .ingestStream o tl := by
    intro q hq o tl hqk
    rw [hp] at hq
    simp only [List.mem_cons, List.not_mem_nil, or_false] at hq
    rcases hq with rfl | rfl | rfl | rfl | rfl <;> simp at hqk
  have hsz : ∀ o, s0.start.buf.sizeOf o = 0 := by
    intro o; rw [hb]; unfold Buffer.sizeOf; rw [hsz0.1]; rfl
  refine ⟨⟨?_, ?_, ?_, ?_, ?_, ?_⟩, ?_⟩
  · intro q hq o tl hqk; exact absurd hqk (hno q hq o tl)
  · rw [ho]; intro ob hob hst; exact absurd (hw.obsWaiting ob hob).1 hst
  · rw [ho]; intro ob hob hst
    rw [(hw.obsWaiting ob hob).1] at hst; exact absurd hst (by simp)
  · intro q hq o tl hqk; exact absurd hqk (hno q hq o tl)
  · intro o; rw [hsz o]; exact Int.le_refl _
  · rw [ho]; exact hrate
  · intro L _ _
    have : sumSz s0.start.buf L = 0 := by
      unfold sumSz
      have hz : ∀ L : List Oid, (L.map s0.start.buf.sizeOf).sum = 0 := by
        intro L
        induction L with
        | nil => rfl
        | cons a t ih => rw [List.map_cons, List.sum_cons, hsz a, ih]; rfl
      exact hz L
    rw [this, hb]
    have := hsz0.2; omega

theorem reachOk_sh (s0 s : Sys) (hw : WFConfig s0) (hbuf : bufList s0.buf = [])
    (hsz0 : s0.buf.size = [] ∧ s0.buf.hot.cur ≤ s0.buf.hot.total) (hrate : ∀ o ∈ s0.obs, 0 < o.rate)
    (h : ReachOk s0 s) : SHInv s := by
  induction h with
  | start => exact fun _ _ => start_sh s0 hw hsz0 hrate
  | step s pid orc hr hen hpre ih =>
    exact sh_step (reach_inv s0 s hw hr) (reach_finv s0 s hw hr) (reachOk_bufi s0 s hw hbuf hr) ih hen orc hpre

/-- without tier move, a finished run that has not crashed has removed every observation from
the hot buffer -/
theorem finished_all_removed (s0 s : Sys) (hw : WFConfig s0) (hbuf : bufList s0.buf = [])
    (hsz0 : s0.buf.size = [] ∧ s0.buf.hot.cur ≤ s0.buf.hot.total) (hrate : ∀ o ∈ s0.obs, 0 < o.rate)
    (h : ReachOk s0 s) (hf : s.isFinished = true) (hc : s.crashed = none) (hnt : NoTier s) :
    ∀ ob ∈ s.obs, ob.id ∈ s.buf.hot.finished := by
  obtain ⟨hsi, hhc⟩ := reachOk_sh s0 s hw hbuf hsz0 hrate h hc hnt
  obtain ⟨hbe, _, _, ht⟩ := (sim_isFinished_iff s).mp hf
  obtain ⟨hcur, _⟩ := (buffer_isEmpty_iff s.buf).mp hbe
  obtain ⟨hfin, _, _⟩ := (telescope_isIdle_iff s).mp ht
  intro ob hob
  obtain ⟨q, hq, tl, hqk, hqc⟩ := hsi.fs ob hob (hfin ob hob)
  obtain ⟨ob1, hob1, hle⟩ := hsi.sz q hq _ tl hqk hqc
  have hpos := hsi.rp ob1 (obs_mem_of_obs? hob1).1
  by_cases hin : ob.id ∈ s.buf.hot.finished
  · exact hin
  · exfalso
    have := hhc [ob.id] (by simp) (by intro x hx; simp only [List.mem_singleton] at hx; rw [hx]; exact hin)
    unfold sumSz at this
    simp only [List.map_cons, List.map_nil, List.sum_cons, List.sum_nil] at this
    omega

end Sys
end Topsim
