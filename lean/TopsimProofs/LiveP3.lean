/-
  LiveP3 — `_process_current_schedule` on the proposals of a plan-following algorithm.

  The proposals of one `run()` (with no leftover schedule) name pairwise different machines of the
  available pool (`nc_planRun_machines_P`), so the `curr` / `is_occupied` test of the loop never
  skips a proposal: a run of the loop that does not raise hands EVERY proposal to an allocation
  process.  Hence (`pcs_clean_P`) the leftover schedule is empty again, and a record that is still
  UNSCHEDULED after the loop was not touched by it — in particular `update_allocation` (which
  turns `allocated_machine_id` into a Machine object, after which `get_machine_from_id` raises
  KeyError) is only ever applied to a record that leaves UNSCHEDULED in the same block.
-/
import TopsimProofs.LiveP17e

namespace Topsim

open Sys

namespace Sys

/-- the loop body on a key whose machine is neither in `curr` nor occupied: when it does not raise,
the task is handed to an allocation process -/
theorem processOne_noskip_P (now : Time) (oid : Oid) (st : PcsSt) (x : Tid) (m : Mid)
    (hm : dictGet st.schedule x = some m)
    (hnocc : ¬ (st.curr.contains m = true ∨ st.s.cl.isOccupied m = true))
    (herr : (processOne now oid st x).err = none) :
    ∃ s1 r cross, UA st.s x s1 ∧ st.s.task? x = some r ∧
      (processOne now oid st x).s = (s1.spawn (.allocTask x m cross (some oid) false 0) now).1.updTask x
        (fun r => { r with status := .scheduled }) ∧
      (processOne now oid st x).schedule = dictErase st.schedule x ∧
      (processOne now oid st x).curr = st.curr ++ [m] := by
  have he0 := l7_processOne_err now oid st x herr
  unfold processOne at herr ⊢
  simp only [he0, hm] at herr ⊢
  cases hr : st.s.task? x with
  | none => simp only [hr] at herr; cases herr
  | some r =>
    simp only [hr] at herr ⊢
    cases hmm : st.s.machine? m with
    | none => simp only [hmm] at herr; cases herr
    | some mm =>
      simp only [hmm] at herr ⊢
      by_cases hz : ((r.allocObj || r.planned != some m) = true ∧ (mm.cpu = 0 ∨ mm.bw = 0))
      · rw [if_pos hz] at herr; cases herr
      · rw [if_neg hz] at herr ⊢
        generalize hs1 : (if (r.allocObj || r.planned != some m) = true then
          st.s.updTask x (fun r => updateAllocation r mm) else st.s) = s1 at herr ⊢
        have hua : UA st.s x s1 := by
          subst hs1
          split
          · exact Or.inr ⟨mm, rfl⟩
          · exact Or.inl rfl
        have hcl : s1.cl = st.s.cl := by subst hs1; split <;> rfl
        have hno : ¬ (st.curr.contains m = true ∨ s1.cl.isOccupied m = true) := by
          rw [hcl]; exact hnocc
        rw [if_neg hno] at herr ⊢
        by_cases hmiss : (r.preds.any fun p => !dictHas (dictSet st.pairs x m) p) = true
        · rw [if_pos hmiss] at herr; cases herr
        · rw [if_neg hmiss] at herr ⊢
          by_cases hst : r.status ≠ TStatus.unscheduled
          · rw [if_pos hst] at herr; cases herr
          · rw [if_neg hst]
            exact ⟨s1, r, crossPreds (dictSet st.pairs x m) r.preds m, hua, rfl, rfl, rfl, rfl⟩

/-- what the loop has done to the keys `done` it has visited, when nothing has raised -/
structure PcsJ (a : Sys) (sched0 : List (Tid × Mid)) (oid : Oid) (done : List Tid) (st : PcsSt) : Prop where
  cl : st.s.cl = a.cl
  nd : (dictKeys st.schedule).Nodup
  curr : ∀ m ∈ st.curr, ∃ t ∈ done, dictGet sched0 t = some m
  rest : ∀ t, t ∉ done → dictGet st.schedule t = dictGet sched0 t ∧ st.s.task? t = a.task? t
  fin : ∀ t ∈ done, dictGet st.schedule t = none ∧ tstat st.s t = .scheduled
  procs : ∀ t ∈ done, ∀ m, dictGet sched0 t = some m →
    ∃ q ∈ st.s.procs, ∃ cross, q.k = .allocTask t m cross (some oid) false 0

theorem PcsJ.step {a : Sys} {sched0 : List (Tid × Mid)} {done : List Tid} {st : PcsSt} (now : Time) (oid : Oid)
    (hinj : ∀ t t' m, dictGet sched0 t = some m → dictGet sched0 t' = some m → t = t')
    (hocc : ∀ t m, dictGet sched0 t = some m → a.cl.isOccupied m = false)
    (hJ : st.err = none → PcsJ a sched0 oid done st) (x : Tid) (hx : x ∉ done)
    (hkey : ∃ m, dictGet sched0 x = some m) :
    (processOne now oid st x).err = none → PcsJ a sched0 oid (x :: done) (processOne now oid st x) := by
  intro herr
  have he0 := l7_processOne_err now oid st x herr
  have J := hJ he0
  obtain ⟨m, hm0⟩ := hkey
  have hm : dictGet st.schedule x = some m := by rw [(J.rest x hx).1]; exact hm0
  have hnocc : ¬ (st.curr.contains m = true ∨ st.s.cl.isOccupied m = true) := by
    rintro (h | h)
    · have hin : m ∈ st.curr := by simpa using h
      obtain ⟨t, ht, htm⟩ := J.curr m hin
      have := hinj t x m htm hm0
      subst this
      exact hx ht
    · rw [J.cl, hocc x m hm0] at h
      cases h
  obtain ⟨s1, r, cross, hua, hr, hs, hsc, hcu⟩ := processOne_noskip_P now oid st x m hm hnocc herr
  obtain ⟨f1, _, f3⟩ := nc_processOne_frame now oid st x
  refine ⟨?_, ?_, ?_, ?_, ?_, ?_⟩
  · rw [hs]
    show s1.cl = a.cl
    have : s1.cl = st.s.cl := by
      rcases hua with rfl | ⟨mm, rfl⟩ <;> rfl
    exact this.trans J.cl
  · rw [hsc]
    exact (dictKeys_dictErase_sublist st.schedule x).nodup J.nd
  · intro m' hm'
    rw [hcu] at hm'
    rcases List.mem_append.mp hm' with h1 | h1
    · obtain ⟨t, ht, htm⟩ := J.curr m' h1
      exact ⟨t, List.mem_cons_of_mem _ ht, htm⟩
    · simp only [List.mem_singleton] at h1
      subst h1
      exact ⟨x, List.mem_cons_self, hm0⟩
  · intro t ht
    have hne : t ≠ x := fun e => ht (by rw [e]; exact List.mem_cons_self)
    have htd : t ∉ done := fun h => ht (List.mem_cons_of_mem _ h)
    exact ⟨(f3 t hne).trans (J.rest t htd).1, (f1 t hne).trans (J.rest t htd).2⟩
  · intro t ht
    rcases List.mem_cons.mp ht with e | h1
    · subst e
      refine ⟨?_, ?_⟩
      · rw [hsc]
        exact _root_.Topsim.dictGet_dictErase_self st.schedule t J.nd
      · rw [hs, l7_spawn_tstat hua hr]
        simp
    · have hne : t ≠ x := fun e => hx (by rw [← e]; exact h1)
      refine ⟨(f3 t hne).trans (J.fin t h1).1, ?_⟩
      rw [tstat_eq, f1 t hne, ← tstat_eq]
      exact (J.fin t h1).2
  · intro t ht m' hm'
    rcases List.mem_cons.mp ht with e | h1
    · subst e
      rw [hm0] at hm'
      injection hm' with hm'
      subst hm'
      refine ⟨{ pid := s1.nextPid, k := .allocTask t m cross (some oid) false 0, wake := now }, ?_, cross, rfl⟩
      rw [hs]
      show _ ∈ s1.procs ++ [_]
      exact List.mem_append_right _ (List.mem_singleton.mpr rfl)
    · obtain ⟨q, hq, cr, hqk⟩ := J.procs t h1 m' hm'
      exact ⟨q, (processOne_pres now oid st x).pre.subset hq, cr, hqk⟩

theorem PcsJ.fold {a : Sys} {sched0 : List (Tid × Mid)} (now : Time) (oid : Oid)
    (hinj : ∀ t t' m, dictGet sched0 t = some m → dictGet sched0 t' = some m → t = t')
    (hocc : ∀ t m, dictGet sched0 t = some m → a.cl.isOccupied m = false) :
    ∀ (l : List Tid) (done : List Tid) (st : PcsSt), l.Nodup → (∀ x ∈ l, x ∉ done) →
      (∀ x ∈ l, ∃ m, dictGet sched0 x = some m) → (st.err = none → PcsJ a sched0 oid done st) →
      (l.foldl (processOne now oid) st).err = none →
      PcsJ a sched0 oid (l.reverse ++ done) (l.foldl (processOne now oid) st) := by
  intro l
  induction l with
  | nil => intro done st _ _ _ hJ herr; simpa using hJ herr
  | cons x r ih =>
    intro done st hnd hdis hkey hJ herr
    rw [List.nodup_cons] at hnd
    simp only [List.foldl_cons] at herr ⊢
    have := ih (x :: done) (processOne now oid st x) hnd.2
      (fun y hy hin => by
        rcases List.mem_cons.mp hin with e | h1
        · exact hnd.1 (e ▸ hy)
        · exact hdis y (List.mem_cons_of_mem _ hy) h1)
      (fun y hy => hkey y (List.mem_cons_of_mem _ hy))
      (PcsJ.step now oid hinj hocc hJ x (hdis x List.mem_cons_self) (hkey x List.mem_cons_self)) herr
    simpa [List.reverse_cons, List.append_assoc] using this

/-- **No proposal is left over.**  A run of `_process_current_schedule` that does not raise, on a
schedule with distinct keys whose machines are pairwise different and not occupied: the leftover
schedule is empty, and a record that is UNSCHEDULED afterwards is as it was before. -/
theorem pcs_clean_P (a : Sys) (now : Time) (oid : Oid) (sched0 pairs : List (Tid × Mid))
    (hnd : (dictKeys sched0).Nodup) (hmd : (sched0.map (·.2)).Nodup)
    (hocc : ∀ x ∈ sched0, a.cl.isOccupied x.2 = false)
    (herr : (processCurrentSchedule a now oid sched0 pairs).err = none) :
    (processCurrentSchedule a now oid sched0 pairs).schedule = [] ∧
    (∀ t, tstat (processCurrentSchedule a now oid sched0 pairs).s t = .unscheduled →
      (processCurrentSchedule a now oid sched0 pairs).s.task? t = a.task? t) ∧
    ∀ t m, dictGet sched0 t = some m → ∃ q ∈ (processCurrentSchedule a now oid sched0 pairs).s.procs,
      ∃ cross, q.k = .allocTask t m cross (some oid) false 0 := by
  have hinj : ∀ t t' m, dictGet sched0 t = some m → dictGet sched0 t' = some m → t = t' := by
    intro t t' m h1 h2
    have m1 := dictGet_some_mem h1
    have m2 := dictGet_some_mem h2
    -- two entries with the same machine are the same entry
    have key : ∀ (l : List (Tid × Mid)), (l.map (·.2)).Nodup → ∀ p ∈ l, ∀ q ∈ l, p.2 = q.2 → p = q := by
      intro l
      induction l with
      | nil => intro _ p hp; simp at hp
      | cons y r ih =>
        intro hn p hp q hq e
        simp only [List.map_cons, List.nodup_cons] at hn
        rcases List.mem_cons.mp hp with rfl | hp' <;> rcases List.mem_cons.mp hq with rfl | hq'
        · rfl
        · exact absurd (List.mem_map.mpr ⟨q, hq', e.symm⟩) hn.1
        · exact absurd (List.mem_map.mpr ⟨p, hp', e⟩) hn.1
        · exact ih hn.2 p hp' q hq' e
    have := key sched0 hmd (t, m) m1 (t', m) m2 rfl
    exact congrArg Prod.fst this
  have hocc' : ∀ t m, dictGet sched0 t = some m → a.cl.isOccupied m = false :=
    fun t m h => hocc (t, m) (dictGet_some_mem h)
  have hfold : ∀ l : List Tid, l.Nodup → (∀ x, x ∈ l ↔ x ∈ dictKeys sched0) →
      (l.foldl (processOne now oid) { s := a, schedule := sched0, pairs := pairs, curr := [] }).err = none →
      (l.foldl (processOne now oid) { s := a, schedule := sched0, pairs := pairs, curr := [] }).schedule = [] ∧
      (∀ t, tstat (l.foldl (processOne now oid) { s := a, schedule := sched0, pairs := pairs, curr := [] }).s t
          = .unscheduled →
        (l.foldl (processOne now oid) { s := a, schedule := sched0, pairs := pairs, curr := [] }).s.task? t
          = a.task? t) ∧
      ∀ t m, dictGet sched0 t = some m →
        ∃ q ∈ (l.foldl (processOne now oid) { s := a, schedule := sched0, pairs := pairs, curr := [] }).s.procs,
          ∃ cross, q.k = .allocTask t m cross (some oid) false 0 := by
    intro l hlnd hmem herr'
    have hJ0 : ({ s := a, schedule := sched0, pairs := pairs, curr := [] } : PcsSt).err = none →
        PcsJ a sched0 oid [] { s := a, schedule := sched0, pairs := pairs, curr := [] } :=
      fun _ => ⟨rfl, hnd, by simp, fun t _ => ⟨rfl, rfl⟩, by simp, by simp⟩
    have J := PcsJ.fold now oid hinj hocc' l [] _ hlnd (by simp)
      (fun x hx => by
        cases hd : dictGet sched0 x with
        | none => exact absurd ((hmem x).mp hx) ((dictGet_none_iff _ _).mp hd)
        | some m => exact ⟨m, rfl⟩) hJ0 herr'
    simp only [List.append_nil] at J
    generalize l.foldl (processOne now oid) { s := a, schedule := sched0, pairs := pairs, curr := [] } = stf at J
    have hdone : ∀ t, t ∈ l.reverse ↔ t ∈ dictKeys sched0 := fun t => by rw [List.mem_reverse]; exact hmem t
    constructor
    · -- every key of the final schedule would be a key of `sched0`, all of which are erased
      cases hsf : stf.schedule with
      | nil => rfl
      | cons y r =>
        exfalso
        obtain ⟨k, v⟩ := y
        have hk : k ∈ dictKeys stf.schedule := by rw [hsf]; simp [dictKeys]
        by_cases hin : k ∈ l.reverse
        · have := (J.fin k hin).1
          exact ((dictGet_none_iff _ _).mp this) hk
        · have := (J.rest k hin).1
          have hnone : dictGet sched0 k = none := (dictGet_none_iff _ _).mpr (fun h => hin ((hdone k).mpr h))
          rw [hnone] at this
          exact ((dictGet_none_iff _ _).mp this) hk
    refine ⟨?_, ?_⟩
    · intro t htu
      by_cases hin : t ∈ l.reverse
      · have := (J.fin t hin).2
        rw [htu] at this
        cases this
      · exact (J.rest t hin).2
    · intro t m hg
      have hk : t ∈ dictKeys sched0 := by
        apply Classical.byContradiction
        intro hn
        rw [(dictGet_none_iff _ _).mpr hn] at hg
        cases hg
      exact J.procs t ((hdone t).mpr hk) m hg
  unfold processCurrentSchedule at herr ⊢
  simp only at herr ⊢
  exact hfold _ ((List.mergeSort_perm _ _).nodup_iff.mpr hnd) (fun x => List.mem_mergeSort) herr

end Sys

end Topsim
