/-
  Fit3 — F14: the statements cited by TopsimProps/C08Traj.lean.

  * `ingestPromised_le_promF`: `ingestPromised` (summed over the live supervisors) is at most `promF`
    (summed over the observations of the configuration), hence `ingestPromised ≤ |available|` on every
    run of the simulator (`sim_promised_covered`);
  * `sim_tel_noPend`: when the kernel is about to resume the telescope, no ingest supervisor or
    provisioning process is before its first block, hence `ingestPromised = 0`
    (`sim_tel_nothing_promised`) and the ingest pool is covered by the reservation counter;
  * `sim_provIngest_no_raise`: the block of a provisioning process does not raise.
-/
import TopsimProofs.Fit2
import TopsimProofs.Live17b

namespace Topsim

open KState Sys

/-! ### sums over duplicate-free sublists -/

theorem fit_sum_erase {α} [DecidableEq α] (f : α → Nat) (m : List α) (a : α) (h : a ∈ m) :
    (m.map f).sum = f a + ((m.erase a).map f).sum := by
  induction m with
  | nil => simp at h
  | cons b m ih =>
    by_cases e : b = a
    · subst e
      simp
    · have hm : a ∈ m := by
        rcases List.mem_cons.mp h with h | h
        · exact absurd h.symm e
        · exact h
      rw [List.erase_cons_tail (by simpa using e)]
      simp only [List.map_cons, List.sum_cons]
      rw [ih hm]
      omega

theorem fit_sum_le_of_nodup_subset {α} [DecidableEq α] (f : α → Nat) (l m : List α) (hnd : l.Nodup)
    (hs : ∀ a ∈ l, a ∈ m) : (l.map f).sum ≤ (m.map f).sum := by
  induction l generalizing m with
  | nil => simp
  | cons a l ih =>
    rw [List.nodup_cons] at hnd
    have ha : a ∈ m := hs a (by simp)
    rw [fit_sum_erase f m a ha]
    simp only [List.map_cons, List.sum_cons]
    have := ih (m.erase a) hnd.2 (fun b hb => by
      have hne : b ≠ a := by rintro rfl; exact hnd.1 hb
      exact (List.mem_erase_of_ne hne).mpr (hs b (List.mem_cons_of_mem _ hb)))
    omega

theorem ilLiveAI_nodup (ps : List Proc) (hnd : (ps.map (·.pid)).Nodup)
    (hu : ∀ p ∈ ps, ∀ q ∈ ps, ∀ o, p.k.aiObs = some o → q.k.aiObs = some o → p.pid = q.pid) :
    (ilLiveAI ps).Nodup := by
  induction ps with
  | nil => simp [ilLiveAI]
  | cons p ps ih =>
    simp only [List.map_cons, List.nodup_cons] at hnd
    have ih' := ih hnd.2 (fun a ha b hb => hu a (List.mem_cons_of_mem _ ha) b (List.mem_cons_of_mem _ hb))
    cases hp : ilAiLive p with
    | none => rw [ilLiveAI_cons_none hp]; exact ih'
    | some o =>
      rw [ilLiveAI_cons_some hp, List.nodup_cons]
      refine ⟨?_, ih'⟩
      intro hmem
      obtain ⟨q, hq, _, hqk⟩ := mem_ilLiveAI.mp hmem
      have := hu p (by simp) q (List.mem_cons_of_mem _ hq) o (ilAiLive_some.mp hp).2 hqk
      exact hnd.1 (this ▸ List.mem_map_of_mem hq)

variable {env : SimEnv} {s0 : Sys}

/-- `ingestPromised` (over the live supervisors) is at most `promF` (over the observations) -/
theorem ingestPromised_le_promF (hw : WFConfig s0) {k : SimState} (h : SimReach env s0 k) :
    k.st.ingestPromised ≤ k.st.promF := by
  have hinv := h.l3inv hw
  have hil : ILC k.st.procs k.st.ilDemand k.st.cl.ilEntries k.st.provIngest k.st.maxIngest k.st.admitted :=
    hinv.il
  unfold ingestPromised ilPromised promF
  apply fit_sum_le_of_nodup_subset
  · exact ilLiveAI_nodup _ hinv.sinv.pw.nodup hil.aiUniq
  · intro o ho
    obtain ⟨p, hp, _, hk⟩ := mem_ilLiveAI.mp ho
    have hoadm := hil.aiAdm p hp o hk
    obtain ⟨ob, hob, _⟩ := hinv.sinv.eg.adm o hoadm
    obtain ⟨h1, h2⟩ := obs_mem_of_obs? hob
    unfold Sys.oids
    rw [← h2]; exact List.mem_map_of_mem h1

/-- **The machines promised are covered by the machines available**, in every state of every run
of the simulator (F14). -/
theorem sim_promised_covered (env : SimEnv) (s0 : Sys) (hw : WFConfig s0) (hb0 : s0.buf.hot.stored = [])
    (k : SimState) (h : SimReach env s0 k) : k.st.ingestPromised ≤ k.st.cl.available.length :=
  Nat.le_trans (ingestPromised_le_promF hw h) (sim_fit env s0 hw hb0 k h).fit

/-- when the kernel is about to resume the telescope, no ingest supervisor or provisioning process
is before its first block -/
theorem sim_tel_noPend (hw : WFConfig s0) (hb0 : s0.buf.hot.stored = []) {k : SimState}
    (hr : SimReach env s0 k) {e : HEntry} {p : Proc} (hpk : k.peek = some e)
    (hpp : k.st.proc? e.pid = some p) (ha : p.alive = true) (hk : p.k = .telescope) : ¬ Pend k.st := by
  have hinv := hr.l3inv hw
  have hpw := hinv.sinv.pw
  have hu := hr.urg hw
  have hl := hr.loopPids hw
  have hsi := hr.startInv hw hb0
  obtain ⟨hpm, hpid⟩ := proc?_some hpp
  rintro ⟨q, hq, hqa, hq0, hqn⟩
  by_cases hne : q.pid = e.pid
  · have : q = p := hpw.eq_of_pid hq hpm (hne.trans hpid.symm)
    subst this
    rw [hk] at hqn; exact hqn rfl
  · have hpc0 := hu.first hinv.heap hpk hpp ha hq hqa hq0
    have hn5 := hsi.tel0 p hpm ha hpc0 hk
    have hq5 : q.pid < 5 := by have := hpw.lt q hq; omega
    rw [hl.loop q hq hq5] at hqn
    apply hqn
    unfold nco_loopKind
    split <;> rfl

/-- **At the telescope's block nothing is promised** and the ingest pool is covered by the
reservation counter: the `promised` of the repaired test, `max 0 (provIngest − |ingest pool|)`, starts
the pass at `provIngest − |ingest pool| ≥ 0 = ingestPromised` -/
theorem sim_tel_nothing_promised (env : SimEnv) (s0 : Sys) (hw : WFConfig s0) (hb0 : s0.buf.hot.stored = [])
    (k : SimState) (hr : SimReach env s0 k) (e : HEntry) (hpk : k.peek = some e) (p : Proc)
    (hpp : k.st.proc? e.pid = some p) (ha : p.alive = true) (hk : p.k = .telescope) :
    k.st.ingestPromised = 0 ∧ (k.st.cl.ingest.length : Int) ≤ k.st.provIngest := by
  have hinv := hr.l3inv hw
  have hil : ILC k.st.procs k.st.ilDemand k.st.cl.ilEntries k.st.provIngest k.st.maxIngest k.st.admitted :=
    hinv.il
  have hno := sim_tel_noPend hw hb0 hr hpk hpp ha hk
  have h0 : k.st.ingestPromised = 0 := by
    have h1 := ingestPromised_le_promF hw hr
    rw [promF_zero_of_noPend hno] at h1
    omega
  refine ⟨h0, ?_⟩
  obtain ⟨U, hU⟩ := hinv.sinv.ci
  have hlen := il_ingest_length hU.inv
  have hacc := hil.accounting
  obtain ⟨hen, _⟩ := hinv.heap.enabled hinv.sinv.pw hpk hpp ha
  obtain ⟨p', hp', _, hmin⟩ := hen
  rw [hpp] at hp'; cases hp'
  have hst : k.st.ingestStale = 0 := hinv.ti.no_stale (proc?_some hpp).1 ha hk hmin
  unfold ingestStale at hst
  rw [hst] at hacc
  omega

/-- **The block of a provisioning process does not raise** (F14, no `OneAdmission` hypothesis). -/
theorem sim_provIngest_no_raise (env : SimEnv) (s0 : Sys) (hw : WFConfig s0) (hb0 : s0.buf.hot.stored = [])
    (k : SimState) (h : SimReach env s0 k) {p : Proc} (hpm : p ∈ k.st.procs) (ha : p.alive = true)
    {o : Oid} {d : Nat} (hk : p.k = .provIngest o d) (orc : Oracle) :
    (p.pc = 0 → d ≤ k.st.cl.available.length ∧ (k.st.cl.provisionIngest d o).2.1 = none) ∧
    ∀ err, (k.st.block p orc).2.2 ≠ .raised err := by
  obtain ⟨U, hU⟩ := (h.l3inv hw).sinv.ci
  have key : p.pc = 0 → d ≤ k.st.cl.available.length ∧ (k.st.cl.provisionIngest d o).2.1 = none := by
    intro hpc
    have hd := sim_provIngest_fits env s0 hw hb0 k h hpm ha hk hpc
    exact ⟨hd, Cluster.nc_provisionIngest_ok hU.inv d o hd⟩
  refine ⟨key, ?_⟩
  rw [block_provIngest orc hk]
  exact Sys.nc_provIngest_nr _ _ _ _ _ (fun hpc => (key hpc).2)

end Topsim
