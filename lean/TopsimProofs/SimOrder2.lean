/-
  SimOrder2 — on the deterministic simulator the `allocate_tasks` process of an
  observation is resumed, inside every instant, before the allocation processes
  it created: the runs of the simulator satisfy `pollAfterSched`
  (TopsimProofs/Preced14.lean), hence project to `ReachSchedFirst`.
-/
import TopsimProofs.SimOrder1
import TopsimProofs.Preced20
import TopsimProofs.LifeCycle19

namespace Topsim

open KState Sys

namespace Sys

/-! ### block-system facts: uniqueness and creators -/

/-- a scheduler-side allocation process of `o` has a creator: an `allocate_tasks` process of `o`
is in the table -/
def SoPC (s : Sys) : Prop :=
  ∀ d ∈ s.procs, ∀ t m cross o ret, d.k = .allocTask t m cross (some o) false ret →
    ∃ c ∈ s.procs, ∃ sc pa po fn, c.k = .allocTasks o sc pa po fn

theorem so_block_at (s : Sys) (hpw : PW s) (p : Proc) (orc : Oracle) {t m cross obs ing ret'}
    (h : (s.block p orc).2.1 = .allocTask t m cross obs ing ret') :
    ∃ ret, p.k = .allocTask t m cross obs ing ret := by
  have htag := block_tag s hpw p orc
  rw [h] at htag
  cases hk : p.k <;> rw [hk] at htag <;> simp [PK.tag] at htag
  rename_i t0 m0 pr0 ob0 ing0 ret0
  have hb : s.block p orc = s.allocTaskBlock p.wake t0 m0 pr0 ob0 ing0 ret0 := by
    unfold block; simp only [hk]
  rw [hb] at h
  rcases allocTaskBlock_cases s hpw p.wake t0 m0 pr0 ob0 ing0 ret0 with
    ⟨_, e, _, heq⟩ | ⟨_, _, heq⟩ | ⟨_, _, heq⟩ | ⟨_, _, e, _, heq⟩ | ⟨_, _, _, heq⟩ <;>
  · rw [heq] at h
    simp only [PK.allocTask.injEq] at h
    obtain ⟨rfl, rfl, rfl, rfl, rfl, _⟩ := h
    exact ⟨ret0, rfl⟩

/-- where the processes of the new table come from, with the kinds of the new ones -/
theorem so_resume_origin {s : Sys} (hi : EInv s) {pid : Nat} {p : Proc} (hp : s.proc? pid = some p)
    (ha : p.alive = true) (hmin : ∀ q ∈ s.procs, q.alive = true → p.wake ≤ q.wake) (orc : Oracle) :
    (∀ q' ∈ (s.resume pid orc).1.procs,
      q' = fin (s.block p orc).2.1 (s.block p orc).2.2 p.wake p ∨ (q' ∈ s.procs ∧ q'.pid ≠ pid) ∨
      (s.nextPid ≤ q'.pid ∧ NewKind p.k q'.k)) ∧
    fin (s.block p orc).2.1 (s.block p orc).2.2 p.wake p ∈ (s.resume pid orc).1.procs ∧
    (∀ q ∈ s.procs, q.pid ≠ pid → q ∈ (s.resume pid orc).1.procs) := by
  obtain ⟨hpm, hpid⟩ := proc?_some hp
  obtain ⟨new, hnew, hnk⟩ := block_newp s p orc
  have hm := resume_memSpec hi hp ha hmin orc hnew
  obtain ⟨m1, m2, m3⟩ := il_resume_procs_mem hi.pw hp ha orc
  refine ⟨?_, m2, m3⟩
  intro q' hq'
  rcases m1 q' hq' with hh | hh | ⟨_, _, _, w4⟩
  · exact Or.inl hh
  · exact Or.inr (Or.inl hh)
  · rcases (hm q').mp hq' with rfl | ⟨hq0, _⟩ | hqn
    · have := hi.pw.lt p hpm; simp at w4; omega
    · have := hi.pw.lt q' hq0; omega
    · exact Or.inr (Or.inr ⟨w4, (hnk q' hqn).2.2.2⟩)

theorem so_pc_step {s : Sys} (hi : EInv s) (h : SoPC s) {pid : Nat} (hen : s.enabled pid) (orc : Oracle) :
    SoPC (s.resume pid orc).1 := by
  obtain ⟨p, hp, ha, hmin⟩ := hen
  obtain ⟨hpm, hpid⟩ := proc?_some hp
  obtain ⟨m1, m2, m3⟩ := so_resume_origin hi hp ha hmin orc
  have hcls := (block_class s hi.pw p orc).2
  -- an `allocate_tasks` process of the old table is still there, possibly after its block
  have keep : ∀ c ∈ s.procs, ∀ o sc pa po fn, c.k = .allocTasks o sc pa po fn →
      ∃ c' ∈ (s.resume pid orc).1.procs, ∃ sc' pa' po' fn', c'.k = .allocTasks o sc' pa' po' fn' := by
    intro c hc o sc pa po fn hck
    by_cases e : c.pid = pid
    · have : c = p := hi.pw.eq_of_pid hc hpm (e.trans hpid.symm)
      subst this
      obtain ⟨sc', pa', po', fn', hk'⟩ := (hcls o).mpr ⟨sc, pa, po, fn, hck⟩
      exact ⟨_, m2, sc', pa', po', fn', by rw [fin_k]; exact hk'⟩
    · exact ⟨c, m3 c hc e, sc, pa, po, fn, hck⟩
  intro d' hd' t m cross o ret hdk
  rcases m1 d' hd' with rfl | ⟨hd0, _⟩ | ⟨_, hnk⟩
  · rw [fin_k] at hdk
    obtain ⟨ret0, hpk⟩ := so_block_at s hi.pw p orc hdk
    obtain ⟨c, hc, sc, pa, po, fn, hck⟩ := h p hpm t m cross o ret0 hpk
    exact keep c hc o sc pa po fn hck
  · obtain ⟨c, hc, sc, pa, po, fn, hck⟩ := h d' hd0 t m cross o ret hdk
    exact keep c hc o sc pa po fn hck
  · -- a new allocation process: its creator is the `allocate_tasks` process that ran
    rw [hdk] at hnk
    cases hpk : p.k <;> rw [hpk] at hnk <;> simp [NewKind] at hnk
    rename_i o1 sc pa po fn
    obtain ⟨sc', pa', po', fn', hk'⟩ := (hcls o1).mpr ⟨sc, pa, po, fn, hpk⟩
    obtain ⟨ho, _⟩ := hnk
    exact ⟨_, m2, sc', pa', po', fn', by rw [fin_k, ho]; exact hk'⟩

theorem reach_so_pc (s0 s : Sys) (hw : WFConfig s0) (h : Reach s0 s) : SoPC s := by
  induction h with
  | start =>
    intro d hd t m cross o ret hdk
    rw [start_procs s0 hw] at hd
    simp only [List.mem_cons, List.not_mem_nil, or_false] at hd
    rcases hd with rfl | rfl | rfl | rfl | rfl <;> simp at hdk
  | step s pid orc hr hen ih => exact so_pc_step (reach_einv s0 s hw hr) ih hen orc

end Sys

/-! ### the order invariant -/

/-- `d` is a scheduler-side allocation process of the observation of the `allocate_tasks`
process `c` -/
def SoSched (kc kd : PK) : Prop :=
  ∃ o sc pa po fn t m cross ret, kc = .allocTasks o sc pa po fn ∧ kd = .allocTask t m cross (some o) false ret

theorem soSched_dw (kc kd : PK) (h : SoSched kc kd) : kc.isDoWork = false ∧ kd.isDoWork = false := by
  obtain ⟨o, sc, pa, po, fn, t, m, cross, ret, rfl, rfl⟩ := h
  exact ⟨rfl, rfl⟩

theorem soSched_irr (k0 : PK) : ¬ SoSched k0 k0 := by
  rintro ⟨o, sc, pa, po, fn, t, m, cross, ret, h1, h2⟩
  rw [h1] at h2; cases h2

/-- the pairs after one kernel step -/
theorem soSched_pairs (env : SimEnv) {s0 : Sys} (hw : WFConfig s0) (hbuf : bufList s0.buf = [])
    {k k' : SimState} (hr : ReachOk s0 k.st) (h : IlHeapOk k)
    (hstep : k.step (simHandler env) = some k') :
    ∀ e, k.peek = some e → ∀ c' ∈ k'.st.procs, ∀ d' ∈ k'.st.procs, c'.alive = true →
      d'.alive = true → SoSched c'.k d'.k →
      (∃ c ∈ k.st.procs, ∃ d ∈ k.st.procs, c.alive = true ∧ d.alive = true ∧ c.pid = c'.pid ∧
        d.pid = d'.pid ∧ SoSched c.k d.k) ∨
      (c'.pid = e.pid ∧ k.st.nextPid ≤ d'.pid) := by
  have hs := reach_inv s0 k.st hw hr
  have hi := reach_einv s0 k.st hw hr.toReach
  have hpw := hs.pw
  obtain ⟨_, _, e, hpk0, hcase⟩ := il_l3_step env k k' hs h hstep
  intro e1 hpk c' hc' d' hd' hca hda hR
  have hee : e = e1 := by rw [hpk0] at hpk; exact Option.some.inj hpk
  subst hee
  rcases hcase with ⟨hc, _⟩ | ⟨hen, ⟨p, hpp, ha, _⟩, hc⟩
  · left
    have hc0 : c' ∈ k.st.procs := by rw [hc] at hc'; exact hc'
    have hd0 : d' ∈ k.st.procs := by rw [hc] at hd'; exact hd'
    exact ⟨c', hc0, d', hd0, hca, hda, rfl, rfl, hR⟩
  · obtain ⟨hpm, hpid⟩ := proc?_some hpp
    obtain ⟨p0, hp0, _, hmin⟩ := hen
    rw [hpp] at hp0; cases hp0
    have hr' : ReachOk s0 (k.st.resume e.pid (env.oracle k.st)).1 :=
      ReachOk.step k.st e.pid _ hr ⟨p, hpp, ha, hmin⟩ (fun _ => il_oracle_preOk env k.st)
    have hati' := reachOk_ati s0 _ hw hbuf hr'
    have hpc := reach_so_pc s0 k.st hw hr.toReach
    obtain ⟨m1, m2, m3⟩ := so_resume_origin hi hpp ha hmin (env.oracle k.st)
    have hcls := (block_class k.st hpw p (env.oracle k.st)).2
    rw [hc] at hc' hd'
    obtain ⟨o, sc, pa, po, fn, t, m, cross, ret, hck, hdk⟩ := hR
    -- the process that ran, after its block
    have hfinpid : (fin (k.st.block p (env.oracle k.st)).2.1 (k.st.block p (env.oracle k.st)).2.2 p.wake p).pid = e.pid := by
      simp [hpid]
    -- the allocation process `d'`
    rcases m1 d' hd' with hdp | ⟨hd0, hdne⟩ | ⟨hdge, hdnk⟩
    · -- it is the process that ran: the `allocate_tasks` process is an old one
      have hdk' := hdk
      rw [hdp, fin_k] at hdk'
      obtain ⟨ret0, hpk⟩ := so_block_at k.st hpw p (env.oracle k.st) hdk'
      rcases m1 c' hc' with hcp | ⟨hc0, hcne⟩ | ⟨hcge, hcnk⟩
      · rw [hcp, fin_k, hdk'] at hck; cases hck
      · left
        exact ⟨c', hc0, p, hpm, hca, ha, rfl, by rw [hdp]; simp [hpid], o, sc, pa, po, fn, t, m, cross, ret0, hck, hpk⟩
      · rw [hck, hpk] at hcnk; simp [NewKind] at hcnk
    · -- an old allocation process
      rcases m1 c' hc' with hcp | ⟨hc0, hcne⟩ | ⟨hcge, hcnk⟩
      · -- the `allocate_tasks` process has run
        left
        rw [hcp, fin_k] at hck
        obtain ⟨sc0, pa0, po0, fn0, hpk⟩ := (hcls o).mp ⟨sc, pa, po, fn, hck⟩
        exact ⟨p, hpm, d', hd0, ha, hda, by rw [hcp]; simp [hpid], rfl, o, sc0, pa0, po0, fn0, t, m, cross, ret, hpk, hdk⟩
      · left
        exact ⟨c', hc0, d', hd0, hca, hda, rfl, rfl, o, sc, pa, po, fn, t, m, cross, ret, hck, hdk⟩
      · -- a second `allocate_tasks` process for an observation that already has one: impossible
        exfalso
        obtain ⟨c0, hc0, sc0, pa0, po0, fn0, hc0k⟩ := hpc d' hd0 t m cross o ret hdk
        have hc0' : ∃ c1 ∈ (k.st.resume e.pid (env.oracle k.st)).1.procs, c1.pid = c0.pid ∧
            ∃ sc1 pa1 po1 fn1, c1.k = .allocTasks o sc1 pa1 po1 fn1 := by
          by_cases e' : c0.pid = e.pid
          · have : c0 = p := hpw.eq_of_pid hc0 hpm (e'.trans hpid.symm)
            subst this
            obtain ⟨sc', pa', po', fn', hk'⟩ := (hcls o).mpr ⟨sc0, pa0, po0, fn0, hc0k⟩
            exact ⟨_, m2, by simp, sc', pa', po', fn', by rw [fin_k]; exact hk'⟩
          · exact ⟨c0, m3 c0 hc0 e', rfl, sc0, pa0, po0, fn0, hc0k⟩
        obtain ⟨c1, hc1, hc1p, sc1, pa1, po1, fn1, hc1k⟩ := hc0'
        have := hati'.uniq c1 hc1 c' hc' o sc1 pa1 po1 fn1 sc pa po fn hc1k hck
        have := hpw.lt c0 hc0
        omega
    · -- a new allocation process: created by the `allocate_tasks` process of its observation
      right
      refine ⟨?_, hdge⟩
      rw [hdk] at hdnk
      cases hpk : p.k <;> rw [hpk] at hdnk <;> simp [NewKind] at hdnk
      rename_i o1 sc0 pa0 po0 fn0
      obtain ⟨ho, _⟩ := hdnk
      subst ho
      obtain ⟨sc', pa', po', fn', hk'⟩ := (hcls o).mpr ⟨sc0, pa0, po0, fn0, hpk⟩
      have := hati'.uniq c' hc' _ m2 o sc pa po fn sc' pa' po' fn' hck (by rw [fin_k]; exact hk')
      rw [this]; exact hfinpid

/-! ### the projection -/

/-- **The simulator's runs are `ReachSchedFirst` runs** (up to the `halted` flag): the block in
which an allocation process reports its task finished comes after the `allocate_tasks` block of
the task's observation at that instant. -/
theorem l3_refines_schedFirst (env : SimEnv) (s0 : Sys) (hw : WFConfig s0) (hbuf : bufList s0.buf = [])
    (k : SimState) (h : SimRun env s0 k) :
    SoPairInv SoSched k ∧
    ∃ s, ReachSchedFirst s0 s ∧ (k.st = s ∨ (k.st = { s with halted := true } ∧ k.st.halted = true)) := by
  induction h with
  | start =>
    refine ⟨?_, _, ReachSchedFirst.start, Or.inl rfl⟩
    intro c hc d _ _ _ hR
    obtain ⟨o, sc, pa, po, fn, _, _, _, _, hck, _⟩ := hR
    have : (SimState.start s0).st = s0.start := rfl
    rw [this, start_procs s0 hw] at hc
    simp only [List.mem_cons, List.not_mem_nil, or_false] at hc
    rcases hc with rfl | rfl | rfl | rfl | rfl <;> simp at hck
  | step k k1 hr hh hs ih =>
    obtain ⟨hinv, s, hrs, hks⟩ := ih
    rcases hks with hks | ⟨_, hks⟩
    · obtain ⟨hsi, hho⟩ := hr.toReach.inv hw
      have hrk : ReachOk s0 k.st := by rw [hks]; exact hrs.toOk
      have hinv1 := SoPairInv.step SoSched soSched_dw soSched_irr env k k1 hsi hho hinv hs
        (soSched_pairs env hw hbuf hrk hho hs)
      refine ⟨hinv1, ?_⟩
      obtain ⟨_, _, e, hpk, hc⟩ := il_l3_step env k k1 hsi hho hs
      rcases hc with ⟨hc, _⟩ | ⟨hen, ⟨p, hpp, ha, _⟩, hc⟩
      · exact ⟨s, hrs, Or.inr ⟨by rw [hc, hks], by rw [hc]⟩⟩
      · refine ⟨_, ReachSchedFirst.step s e.pid (env.oracle s) hrs (by rw [← hks]; exact hen)
          (fun _ => il_oracle_preOk env s) ?_, Or.inl (by rw [hc, hks])⟩
        -- the order condition
        rw [← hks]
        intro p' hp' t m cross o ret hpk' _ _ q hq hqa sc pa po fn hqk
        rw [hpp] at hp'; cases hp'
        have := hinv.popped hho hpk hq (proc?_some hpp).1 hqa ha
          ⟨o, sc, pa, po, fn, t, m, cross, ret, hqk, hpk'⟩ (proc?_some hpp).2.symm
        grind
    · rw [hks] at hh; exact absurd hh (by simp)

end Topsim
