/-
  BoundB7 — C05, the numeric clause for BatchProcessing: a non-trivial configuration that meets every
  hypothesis of `C05_bound_batch_simpy`, and its run evaluated.

  `boundB_wit`: three machines (flops / bandwidth (10, 5), (8, 4), (6, 2)); telescope of 2 arrays, at most
  2 ingest machines; buffers 1000 / 1000 at rate 50; BatchProcessing with 2 partitions,
  `min_resources_per_workflow = 1` and the per-observation split {0: (1, 2), 1: (1, 1), 2: (1, 1)};
  three observations listed NON-chronologically, two with equal starts, competing for the partitions:
    * 2: start 1, 2 timesteps, 2 arrays, rate 1, 2 ingest machines, workflow = one node (comp 7, data 3);
    * 0: start 0, 2 timesteps, 1 array, rate 3, 1 ingest machine, workflow = chain 0 → 1 → 2
         (comp 20, data 4 each, transfer 6 on each edge);
    * 1: start 0, 1 timestep, 1 array, rate 2, 1 ingest machine, workflow = fan-out 0 → 1, 0 → 2
         (comp 9, data 2 each, transfer 5 on each edge).
  Its run is at `is_finished()` after 154 kernel steps, clock 12; the serial bound is 67, the sharper
  number 47.  (With the split {…, 1: (2, 2), …} observation 1 waits for two free machines and the run ends
  at clock 25, still within 47.)
-/
import TopsimProofs.BoundB6

namespace Topsim
namespace Sys

def boundB_witObs2 : Obs :=
  { id := 2, est := 1, duration := 2, demand := 2, rate := 1, ingestDemand := 2,
    wf := ⟨[(0, 7, 3)], [], [0]⟩ }

def boundB_witObs0 : Obs :=
  { id := 0, est := 0, duration := 2, demand := 1, rate := 3, ingestDemand := 1,
    wf := ⟨[(0, 20, 4), (1, 20, 4), (2, 20, 4)], [(0, 1, 6), (1, 2, 6)], [0, 1, 2]⟩ }

def boundB_witObs1 : Obs :=
  { id := 1, est := 0, duration := 1, demand := 1, rate := 2, ingestDemand := 1,
    wf := ⟨[(0, 9, 2), (1, 9, 2), (2, 9, 2)], [(0, 1, 5), (0, 2, 5)], [0, 1, 2]⟩ }

def boundB_wit : Sys :=
  { machines := [⟨0, 10, 5⟩, ⟨1, 8, 4⟩, ⟨2, 6, 2⟩], totalArrays := 2, maxIngest := 2,
    alg := .batch 2 1 (some [(0, 1, 2), (1, 1, 1), (2, 1, 1)]),
    cl := Cluster.init [0, 1, 2], buf := Buffer.init 1000 50 1000 50,
    obs := [boundB_witObs2, boundB_witObs0, boundB_witObs1] }

theorem boundB_wit_wf : WFConfig boundB_wit := by
  refine ⟨by decide, rfl, by decide, ?_, ⟨rfl, rfl, rfl, rfl, rfl, rfl, rfl, rfl, rfl, rfl, rfl, rfl, rfl,
    rfl, rfl, rfl, rfl⟩⟩
  intro o ho
  simp only [boundB_wit, List.mem_cons, List.not_mem_nil, or_false] at ho
  rcases ho with rfl | rfl | rfl <;> exact ⟨rfl, rfl, by decide, by decide⟩

theorem boundB_wit_feasible : Feasible boundB_wit := by
  refine ⟨?_, ?_, by decide, ?_⟩
  · intro o ho
    simp only [boundB_wit, List.mem_cons, List.not_mem_nil, or_false] at ho
    rcases ho with rfl | rfl | rfl <;> decide
  · intro m hm
    simp only [boundB_wit, List.mem_cons, List.not_mem_nil, or_false] at hm
    rcases hm with rfl | rfl | rfl <;> decide
  · show 0 < 2 ∧ ∀ o ∈ boundB_wit.obs, ∃ lo hi,
      dictGet [(0, 1, 2), (1, 1, 1), (2, 1, 1)] o.id = some (lo, hi) ∧ 1 ≤ lo ∧ lo ≤ hi ∧
        lo ≤ boundB_wit.machines.length ∧ 1 ≤ hi
    refine ⟨by decide, ?_⟩
    intro o ho
    simp only [boundB_wit, List.mem_cons, List.not_mem_nil, or_false] at ho
    rcases ho with rfl | rfl | rfl
    · exact ⟨1, 1, rfl, by decide, by decide, by decide, by decide⟩
    · exact ⟨1, 2, rfl, by decide, by decide, by decide, by decide⟩
    · exact ⟨1, 1, rfl, by decide, by decide, by decide, by decide⟩

theorem boundB_wit_h1 : NoTierCfg boundB_wit := by
  unfold NoTierCfg
  decide

theorem boundB_wit_topo : ∀ o ∈ boundB_wit.obs, IsTopo o.wf := by
  intro o ho
  simp only [boundB_wit, List.mem_cons, List.not_mem_nil, or_false] at ho
  rcases ho with rfl | rfl | rfl
  · exact ⟨by decide, by intro n; simp [boundB_witObs2], by decide⟩
  · exact ⟨by decide, by intro n; simp [boundB_witObs0], by decide⟩
  · exact ⟨by decide, by intro n; simp [boundB_witObs1], by decide⟩

/-- the state after 154 kernel steps -/
def boundB_witK : SimState := ilSimSteps {} 154 (SimState.start boundB_wit)

set_option maxRecDepth 100000 in
unseal Rat.add in
theorem boundB_witK_spec :
    boundB_witK.st.isFinished = true ∧ boundB_witK.st.crashed = none ∧ boundB_witK.st.cl.idle = [] ∧
    (ilSimSteps {} 153 (SimState.start boundB_wit)).st.isFinished = false ∧
    ((ilSimSteps {} 153 (SimState.start boundB_wit)).peek.map (·.time)) = some 12 := by
  decide +kernel

theorem boundB_wit_numbers : Sys.serialBound boundB_wit = 67 ∧
    boundLatest boundB_wit + boundVTotal boundB_wit = 47 := by decide

end Sys
end Topsim
