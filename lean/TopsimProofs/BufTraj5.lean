/-
  BufTraj5 — the cold-tier accounting invariant `CA`: the used space of the cold
  tier is the data of the observations stored there plus, for every tier move in
  flight, the part of its observation that is on the cold side (`size - left`
  for a hot→cold move, `left` for a cold→hot move); the residual of a move in
  flight lies within the observation's size.  One generic step, and the tier-move
  blocks.
-/
import TopsimProofs.BufTraj4

namespace Topsim
namespace Sys

/-- the part of a move's observation that is in the cold tier -/
def coldTokK (b : Buffer) : PK → Int
  | .hot2cold (some (o, l)) => if 0 < l then b.sizeOf o - l else 0
  | .cold2hot (some (_, l)) => if 0 < l then l else 0
  | _ => 0

def coldTok (b : Buffer) (p : Proc) : Int := if p.alive then coldTokK b p.k else 0

def yCold (b : Buffer) (k : PK) (y : Yield) : Int :=
  match y with
  | .timeout _ => coldTokK b k
  | _ => 0

/-- the residual of a move in flight is within the observation's size (and is the whole size
when the move rate is not positive: such a move takes one step) -/
def LeftOk (b : Buffer) : PK → Prop
  | .hot2cold (some (o, l)) => 0 < l → l ≤ b.sizeOf o ∧ (b.moveRate ≤ 0 → l = b.sizeOf o)
  | .cold2hot (some (o, l)) => 0 < l → l ≤ b.sizeOf o ∧ (b.moveRate ≤ 0 → l = b.sizeOf o)
  | _ => True

structure CA (s : Sys) : Prop where
  acct : cs s.buf = (s.procs.map (coldTok s.buf)).sum
  left : ∀ p ∈ s.procs, p.alive = true → LeftOk s.buf p.k

theorem coldTok_fin (b : Buffer) (k : PK) (y : Yield) (w : Time) (q : Proc) (ha : q.alive = true) :
    coldTok b (fin k y w q) = yCold b k y := by
  unfold coldTok yCold fin
  cases y <;> simp [ha]

theorem coldTokK_of_tokK_nil (b : Buffer) {k : PK} (h : tokK k = []) : coldTokK b k = 0 ∧ LeftOk b k := by
  cases k with
  | hot2cold cur =>
    cases cur with
    | none => simp [coldTokK, LeftOk]
    | some ol =>
      obtain ⟨o, l⟩ := ol
      by_cases hl : 0 < l
      · simp [tokK, hl] at h
      · simp [coldTokK, LeftOk, hl]
  | cold2hot cur =>
    cases cur with
    | none => simp [coldTokK, LeftOk]
    | some ol =>
      obtain ⟨o, l⟩ := ol
      by_cases hl : 0 < l
      · simp [tokK, hl] at h
      · simp [coldTokK, LeftOk, hl]
  | _ => simp [coldTokK, LeftOk]

theorem coldTokK_of_tag (b : Buffer) {k : PK} (h1 : k.tag ≠ "hot2cold") (h2 : k.tag ≠ "cold2hot") :
    coldTokK b k = 0 ∧ LeftOk b k :=
  coldTokK_of_tokK_nil b (tokK_of_tag h1 h2)

theorem coldTok_of_tok_nil (b : Buffer) {q : Proc} (h : tok q = []) :
    coldTok b q = 0 ∧ (q.alive = true → LeftOk b q.k) := by
  unfold tok at h
  unfold coldTok
  by_cases ha : q.alive = true
  · simp only [ha, if_true] at h ⊢
    exact ⟨(coldTokK_of_tokK_nil b h).1, fun _ => (coldTokK_of_tokK_nil b h).2⟩
  · simp [ha]

/-- same sizes on the token, same move rate: same cold part, same bound -/
theorem tok_transport {b b' : Buffer} {k : PK} (hsz : ∀ x ∈ tokK k, b'.sizeOf x = b.sizeOf x)
    (hr : b'.moveRate = b.moveRate) : coldTokK b' k = coldTokK b k ∧ (LeftOk b k → LeftOk b' k) := by
  unfold tokK at hsz
  unfold coldTokK LeftOk
  split
  · rename_i o l
    by_cases hl : 0 < l
    · have := hsz o (by simp [hl])
      simp only [hl, if_true, this, hr, true_imp_iff]
      exact ⟨trivial, fun h => h⟩
    · simp [hl]
  · rename_i o l
    by_cases hl : 0 < l
    · have := hsz o (by simp [hl])
      simp only [hl, if_true, this, hr, true_imp_iff]
      exact ⟨trivial, fun h => h⟩
    · simp [hl]
  · exact ⟨rfl, fun h => h⟩

theorem sum_map_zero {α} (l : List α) (f : α → Int) (h : ∀ x ∈ l, f x = 0) : (l.map f).sum = 0 := by
  induction l with
  | nil => rfl
  | cons a t ih =>
    rw [List.map_cons, List.sum_cons, h a (by simp), ih (fun x hx => h x (by simp [hx]))]; rfl

theorem sum_map_upd {l : List Proc} (hnd : (l.map (·.pid)).Nodup) {p : Proc} (hp : p ∈ l)
    (g : Proc → Proc) (f : Proc → Int) :
    ((l.map (fun q => if q.pid = p.pid then g q else q)).map f).sum + f p = (l.map f).sum + f (g p) := by
  induction l with
  | nil => simp at hp
  | cons x r ih =>
    simp only [List.map_cons, List.nodup_cons] at hnd
    simp only [List.map_cons, List.sum_cons]
    rcases List.mem_cons.mp hp with rfl | hp'
    · have htail : r.map (fun q => if q.pid = p.pid then g q else q) = r := by
        rw [List.map_congr_left (g := id)]
        · simp
        · intro q hq
          have : q.pid ≠ p.pid := fun e => hnd.1 (e ▸ List.mem_map_of_mem hq)
          simp [this]
      rw [htail]
      simp only [if_true]
      omega
    · have hx : x.pid ≠ p.pid := fun e => hnd.1 (e ▸ List.mem_map_of_mem hp')
      simp only [hx, if_false]
      have := ih hnd.2 hp'
      omega

theorem procs_sum_updProc {s X : Sys} (new : List Proc) (hprocs : X.procs = s.procs ++ new) (hpwX : PW X)
    {p : Proc} (hp : p ∈ s.procs) (g : Proc → Proc) (f : Proc → Int) :
    ((X.updProc p.pid g).procs.map f).sum + f p = (s.procs.map f).sum + f (g p) + (new.map f).sum := by
  have hpX : p ∈ X.procs := by rw [hprocs]; exact List.mem_append_left _ hp
  have := sum_map_upd hpwX.nodup hpX g f
  simp only [Sys.updProc]
  rw [hprocs] at this ⊢
  simp only [List.map_append, List.sum_append] at this ⊢
  omega

theorem tokK_sub_toks {s : Sys} {q : Proc} (hq : q ∈ s.procs) (ha : q.alive = true) :
    ∀ x ∈ tokK q.k, x ∈ toks s := by
  intro x hx
  unfold toks
  exact List.mem_flatMap.mpr ⟨q, hq, by unfold tok; simp [ha, hx]⟩

/-- one step: the entry `p` runs a block and becomes `fin k' y p.wake p` -/
theorem CA.step {s X : Sys} (h : CA s) (hpw : PW s) (new : List Proc) (hprocs : X.procs = s.procs ++ new)
    (hpwX : PW X) {p : Proc} (hp : p ∈ s.procs) (ha : p.alive = true) (k' : PK) (y : Yield)
    (hnew : ∀ q ∈ new, tok q = [])
    (hsz : ∀ x ∈ toks s, X.buf.sizeOf x = s.buf.sizeOf x)
    (hrate : X.buf.moveRate = s.buf.moveRate)
    (hcs : cs X.buf + coldTokK s.buf p.k = cs s.buf + yCold X.buf k' y)
    (hleft : ∀ d, y = .timeout d → LeftOk X.buf k') :
    CA (X.updProc p.pid (fin k' y p.wake)) := by
  have old : ∀ q ∈ s.procs, coldTok X.buf q = coldTok s.buf q ∧
      (q.alive = true → LeftOk s.buf q.k → LeftOk X.buf q.k) := by
    intro q hq
    by_cases hqa : q.alive = true
    · have ht := tok_transport (b := s.buf) (b' := X.buf) (k := q.k)
        (fun x hx => hsz x (tokK_sub_toks hq hqa x hx)) hrate
      unfold coldTok
      simp only [hqa, if_true]
      exact ⟨ht.1, fun _ => ht.2⟩
    · unfold coldTok; simp [hqa]
  constructor
  · show cs X.buf = ((X.updProc p.pid (fin k' y p.wake)).procs.map (coldTok X.buf)).sum
    have hsum := procs_sum_updProc new hprocs hpwX hp (fin k' y p.wake) (coldTok X.buf)
    have h1 : coldTok X.buf p = coldTokK s.buf p.k := by
      rw [(old p hp).1]; unfold coldTok; simp [ha]
    have h2 := coldTok_fin X.buf k' y p.wake p ha
    have h3 : (new.map (coldTok X.buf)).sum = 0 :=
      sum_map_zero _ _ (fun q hq => (coldTok_of_tok_nil X.buf (hnew q hq)).1)
    have h4 : (s.procs.map (coldTok X.buf)).sum = (s.procs.map (coldTok s.buf)).sum := by
      apply congrArg
      exact List.map_congr_left (fun q hq => (old q hq).1)
    have h5 := h.acct
    rw [h1, h2, h3, h4] at hsum
    omega
  · intro q hq hqa
    show LeftOk X.buf q.k
    rcases (memSpec_updProc hpw hp new hprocs hpwX (fin k' y p.wake) q).mp hq with rfl | ⟨hq0, _⟩ | hqn
    · obtain ⟨_, d, hd⟩ := fin_alive _ _ _ _ hqa
      simp only [fin_k]
      exact hleft d hd
    · exact (old q hq0).2 hqa (h.left q hq0 hqa)
    · exact (coldTok_of_tok_nil X.buf (hnew q hqn)).2 hqa

/-- a block that is no tier move and leaves the cold tier and the sizes of the observations in
it (or moving) alone -/
theorem CA.frame {s X : Sys} (h : CA s) (hpw : PW s) (new : List Proc) (hprocs : X.procs = s.procs ++ new)
    (hpwX : PW X) {p : Proc} (hp : p ∈ s.procs) (ha : p.alive = true) (k' : PK) (y : Yield)
    (hnew : ∀ q ∈ new, tok q = [])
    (hcold : X.buf.cold = s.buf.cold)
    (hsz : ∀ x ∈ s.buf.cold.stored ++ toks s, X.buf.sizeOf x = s.buf.sizeOf x)
    (hrate : X.buf.moveRate = s.buf.moveRate)
    (h4 : p.k.tag ≠ "hot2cold") (h5 : p.k.tag ≠ "cold2hot") (hk' : k'.tag = p.k.tag) :
    CA (X.updProc p.pid (fin k' y p.wake)) := by
  have hk4 : k'.tag ≠ "hot2cold" := by rw [hk']; exact h4
  have hk5 : k'.tag ≠ "cold2hot" := by rw [hk']; exact h5
  refine h.step hpw new hprocs hpwX hp ha k' y hnew (fun x hx => hsz x (List.mem_append_right _ hx)) hrate ?_
    (fun _ _ => (coldTokK_of_tag X.buf hk4 hk5).2)
  have e1 : cs X.buf = cs s.buf := by
    unfold cs
    rw [hcold, sumSz_congr_mem s.buf.cold.stored (fun x hx => hsz x (List.mem_append_left _ hx))]
  have e2 : yCold X.buf k' y = 0 := by
    unfold yCold; split
    · exact (coldTokK_of_tag X.buf hk4 hk5).1
    · rfl
  rw [e1, e2, (coldTokK_of_tag s.buf h4 h5).1]

/-- the first block of a move: `begin` (buffer `b1`), then the first iteration (`it`) -/
theorem begin_wrap (s : Sys) (b1 : Buffer) (it : Sys × PK × Yield) (tb delta : Int)
    (hsz : b1.size = s.buf.size) (hmr : b1.moveRate = s.buf.moveRate)
    (hcs : cs b1 = cs s.buf + delta) (e2 : tb = delta)
    (h : (∃ e, it.2.2 = .raised e) ∨
      (cs it.1.buf + tb = cs b1 + yCold b1 it.2.1 it.2.2 ∧ ∀ d, it.2.2 = .timeout d → LeftOk b1 it.2.1)) :
    (∃ e, it.2.2 = .raised e) ∨
      (cs it.1.buf + 0 = cs s.buf + yCold s.buf it.2.1 it.2.2 ∧ ∀ d, it.2.2 = .timeout d → LeftOk s.buf it.2.1) := by
  rcases h with h | ⟨h1, h2⟩
  · exact Or.inl h
  · right
    have ht := fun k => tok_transport (b := b1) (b' := s.buf) (k := k)
      (fun x _ => (sizeOf_congr hsz x).symm) hmr.symm
    refine ⟨?_, fun d hd => (ht _).2 (h2 d hd)⟩
    have e1 : yCold s.buf it.2.1 it.2.2 = yCold b1 it.2.1 it.2.2 := by
      unfold yCold; split
      · exact (ht _).1
      · rfl
    rw [e1]; omega

/-! ### the tier-move blocks -/

theorem hot2coldIter_cs (s : Sys) (now : Time) (o : Oid) (l : Int)
    (hl : 0 < l → l ≤ s.buf.sizeOf o ∧ (s.buf.moveRate ≤ 0 → l = s.buf.sizeOf o)) :
    (∃ e, (s.hot2coldIter now o l).2.2 = .raised e) ∨
    (cs (s.hot2coldIter now o l).1.buf + (if 0 < l then s.buf.sizeOf o - l else 0)
        = cs s.buf + yCold s.buf (s.hot2coldIter now o l).2.1 (s.hot2coldIter now o l).2.2 ∧
      ∀ d, (s.hot2coldIter now o l).2.2 = .timeout d → LeftOk s.buf (s.hot2coldIter now o l).2.1) := by
  unfold hot2coldIter
  by_cases h0 : l ≤ 0
  · simp only [h0, if_true]
    right
    refine ⟨?_, fun d hd => by simp at hd⟩
    rw [if_neg (by omega)]
    show cs s.buf + 0 = cs s.buf + 0
    rfl
  · simp only [h0, if_false]
    have hpos : 0 < l := by omega
    obtain ⟨hl1, hl2⟩ := hl hpos
    cases hr : s.buf.hot2coldStep o l with
    | mk b1 res =>
      cases res with
      | error e => exact Or.inl ⟨e, rfl⟩
      | ok l' =>
        right
        have hok : (s.buf.hot2coldStep o l).2 = .ok l' := by rw [hr]
        obtain ⟨g1, g2⟩ := h2cStep_cs s.buf o l l' hpos hl1 hl2 hok
        rw [hr] at g1
        simp only at g1
        rw [if_pos hpos]
        refine ⟨g1, fun d _ => ?_⟩
        show LeftOk s.buf (.hot2cold (some (o, l')))
        unfold LeftOk
        intro hp'
        obtain ⟨a, b⟩ := g2 hp'
        exact ⟨a, fun hc => by omega⟩

theorem hot2coldBlock_cs (s : Sys) (now : Time) (cur : Option (Oid × Int)) (hl : LeftOk s.buf (.hot2cold cur)) :
    (∃ e, (s.hot2coldBlock now cur).2.2 = .raised e) ∨
    (cs (s.hot2coldBlock now cur).1.buf + coldTokK s.buf (.hot2cold cur)
        = cs s.buf + yCold s.buf (s.hot2coldBlock now cur).2.1 (s.hot2coldBlock now cur).2.2 ∧
      ∀ d, (s.hot2coldBlock now cur).2.2 = .timeout d → LeftOk s.buf (s.hot2coldBlock now cur).2.1) := by
  unfold hot2coldBlock
  split
  · rename_i o l
    exact hot2coldIter_cs s now o l hl
  · obtain ⟨c1, c2, c3, c4⟩ := h2cBegin_cold s.buf
    generalize s.buf.hot2coldBegin = r at c1 c2 c3 c4
    obtain ⟨b1, res⟩ := r
    simp only at c1 c2 c3 c4
    have hcs : cs b1 = cs s.buf := by
      unfold cs; rw [c1, sumSz_congr c2]
    have hmr : b1.moveRate = s.buf.moveRate := by
      unfold Buffer.moveRate; rw [c1, c3]
    match res with
    | .error e => exact Or.inl ⟨e, rfl⟩
    | .ok none =>
      right
      refine ⟨?_, fun d hd => by simp at hd⟩
      show cs b1 + 0 = cs s.buf + 0
      rw [hcs]
    | .ok (some (o, left)) =>
      have hleft : left = s.buf.sizeOf o := c4 o left rfl
      have hsz : b1.sizeOf o = s.buf.sizeOf o := sizeOf_congr c2 o
      have e2 : (if 0 < left then b1.sizeOf o - left else 0) = 0 := by
        split <;> omega
      have key := begin_wrap s b1
        ((({ s with buf := b1 }).addBuf ⟨natNow now, o, .transferStarted⟩).hot2coldIter now o left)
        (if 0 < left then b1.sizeOf o - left else 0) 0 c2 hmr (by omega) e2
        (hot2coldIter_cs (({ s with buf := b1 }).addBuf ⟨natNow now, o, .transferStarted⟩) now o left
          (fun _ => ⟨by show left ≤ b1.sizeOf o; omega, fun _ => by show left = b1.sizeOf o; omega⟩))
      rcases key with k1 | ⟨k1, k2⟩
      · exact Or.inl k1
      · exact Or.inr ⟨k1, k2⟩

theorem cold2hotIter_cs (s : Sys) (now : Time) (o : Oid) (l : Int)
    (hl : 0 < l → l ≤ s.buf.sizeOf o ∧ (s.buf.moveRate ≤ 0 → l = s.buf.sizeOf o)) :
    (∃ e, (s.cold2hotIter now o l).2.2 = .raised e) ∨
    (cs (s.cold2hotIter now o l).1.buf + (if 0 < l then l else 0)
        = cs s.buf + yCold s.buf (s.cold2hotIter now o l).2.1 (s.cold2hotIter now o l).2.2 ∧
      ∀ d, (s.cold2hotIter now o l).2.2 = .timeout d → LeftOk s.buf (s.cold2hotIter now o l).2.1) := by
  unfold cold2hotIter
  by_cases h0 : l ≤ 0
  · simp only [h0, if_true]
    right
    refine ⟨?_, fun d hd => by simp at hd⟩
    rw [if_neg (by omega)]
    show cs s.buf + 0 = cs s.buf + 0
    rfl
  · simp only [h0, if_false]
    have hpos : 0 < l := by omega
    obtain ⟨hl1, hl2⟩ := hl hpos
    cases hr : s.buf.cold2hotStep o l with
    | mk b1 res =>
      cases res with
      | error e => exact Or.inl ⟨e, rfl⟩
      | ok l' =>
        right
        have hok : (s.buf.cold2hotStep o l).2 = .ok l' := by rw [hr]
        obtain ⟨g1, g2⟩ := c2hStep_cs s.buf o l l' hpos hl1 hl2 hok
        rw [hr] at g1
        simp only at g1
        rw [if_pos hpos]
        refine ⟨g1, fun d _ => ?_⟩
        show LeftOk s.buf (.cold2hot (some (o, l')))
        unfold LeftOk
        intro hp'
        obtain ⟨a, b⟩ := g2 hp'
        exact ⟨a, fun hc => by omega⟩

theorem cold2hotBlock_cs (s : Sys) (now : Time) (cur : Option (Oid × Int)) (hl : LeftOk s.buf (.cold2hot cur))
    (hsn : ∀ o, 0 ≤ s.buf.sizeOf o) :
    (∃ e, (s.cold2hotBlock now cur).2.2 = .raised e) ∨
    (cs (s.cold2hotBlock now cur).1.buf + coldTokK s.buf (.cold2hot cur)
        = cs s.buf + yCold s.buf (s.cold2hotBlock now cur).2.1 (s.cold2hotBlock now cur).2.2 ∧
      ∀ d, (s.cold2hotBlock now cur).2.2 = .timeout d → LeftOk s.buf (s.cold2hotBlock now cur).2.1) := by
  unfold cold2hotBlock
  split
  · rename_i o l
    exact cold2hotIter_cs s now o l hl
  · obtain ⟨c2, c3, c3', c4, c5, c6⟩ := c2hBegin_cs s.buf
    generalize s.buf.cold2hotBegin = r at c2 c3 c3' c4 c5 c6
    obtain ⟨b1, res⟩ := r
    simp only at c2 c3 c3' c4 c5 c6
    have hmr : b1.moveRate = s.buf.moveRate := by
      unfold Buffer.moveRate; rw [c3, c3']
    match res with
    | .error e => exact Or.inl ⟨e, rfl⟩
    | .ok none =>
      right
      refine ⟨?_, fun d hd => by simp at hd⟩
      show cs b1 + 0 = cs s.buf + 0
      rw [c5 rfl]
    | .ok (some (o, left)) =>
      obtain ⟨hleft, hcs⟩ := c6 o left rfl
      have hsz : b1.sizeOf o = s.buf.sizeOf o := sizeOf_congr c2 o
      have hnn := hsn o
      have e2 : (if 0 < left then left else 0) = s.buf.sizeOf o := by
        split <;> omega
      have key := begin_wrap s b1
        ((({ s with buf := b1 }).addBuf ⟨natNow now, o, .transferStarted⟩).cold2hotIter now o left)
        (if 0 < left then left else 0) (s.buf.sizeOf o) c2 hmr hcs e2
        (cold2hotIter_cs (({ s with buf := b1 }).addBuf ⟨natNow now, o, .transferStarted⟩) now o left
          (fun _ => ⟨by show left ≤ b1.sizeOf o; omega, fun _ => by show left = b1.sizeOf o; omega⟩))
      rcases key with k1 | ⟨k1, k2⟩
      · exact Or.inl k1
      · exact Or.inr ⟨k1, k2⟩

end Sys
end Topsim
