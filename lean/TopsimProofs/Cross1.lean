/-
  Cross1 — `_process_current_schedule` and the table of allocations (`pairs`) that
  `allocate_tasks` keeps: which entries a loop run changes, and from which table the
  cross-machine list of every new allocation process is computed.
-/
import TopsimProofs.Preced20

namespace Topsim
namespace Sys

/-! ### association lists -/

theorem cross_dictGet_nil (x : Tid) : dictGet ([] : List (Tid × Mid)) x = none := rfl

theorem cross_dictHas_get {d : List (Tid × Mid)} {x : Tid} (h : dictHas d x = true) :
    ∃ v, dictGet d x = some v := by
  unfold dictHas at h
  cases hd : dictGet d x with
  | none => rw [hd] at h; simp at h
  | some v => exact ⟨v, rfl⟩

/-! ### one pass of the loop body, with the table -/

theorem cross_processOne_err {now : Time} {oid : Oid} {st : PcsSt} {e : Err} (h : st.err = some e) (t : Tid) :
    processOne now oid st t = st := by
  unfold processOne
  rw [h]

theorem cross_fold_err {now : Time} {oid : Oid} (l : List Tid) {st : PcsSt} {e : Err} (h : st.err = some e) :
    l.foldl (processOne now oid) st = st := by
  induction l with
  | nil => rfl
  | cons x r ih => rw [List.foldl_cons, cross_processOne_err h x]; exact ih

/-- the loop body: it fails, or it leaves the table alone and creates nothing, or it enters
`t ↦ m`, creates the allocation process of `t` on `m` with the cross-machine list computed from
the table so extended, and marks the record SCHEDULED -/
theorem cross_processOne_cases (now : Time) (oid : Oid) (st : PcsSt) (t : Tid) :
    (∃ e, (processOne now oid st t).err = some e) ∨
    (∃ s1, UA st.s t s1 ∧ (processOne now oid st t).s = s1 ∧
      (processOne now oid st t).pairs = st.pairs) ∨
    (∃ s1 m r, UA st.s t s1 ∧ st.s.task? t = some r ∧ r.status = .unscheduled ∧
      (r.preds.any fun p => !dictHas (dictSet st.pairs t m) p) = false ∧
      (processOne now oid st t).s = (s1.spawn (.allocTask t m (crossPreds (dictSet st.pairs t m) r.preds m)
        (some oid) false 0) now).1.updTask t (fun r => { r with status := .scheduled }) ∧
      (processOne now oid st t).pairs = dictSet st.pairs t m) := by
  cases hok : st.err with
  | some e => exact Or.inl ⟨e, by rw [cross_processOne_err hok]; exact hok⟩
  | none =>
    unfold processOne
    rw [hok]
    simp only
    cases hm : dictGet st.schedule t with
    | none => exact Or.inl ⟨_, rfl⟩
    | some m =>
      cases hr : st.s.task? t with
      | none => exact Or.inl ⟨_, rfl⟩
      | some r =>
        simp only []
        cases hmm : st.s.machine? m with
        | none => exact Or.inl ⟨_, rfl⟩
        | some mm =>
          simp only []
          by_cases hz : ((r.allocObj || r.planned != some m) = true ∧ (mm.cpu = 0 ∨ mm.bw = 0))
          · rw [if_pos hz]; exact Or.inl ⟨_, rfl⟩
          · simp only [hz, if_false]
            generalize hs1 : (if (r.allocObj || r.planned != some m) = true then
              st.s.updTask t (fun r => updateAllocation r mm) else st.s) = s1
            have hua : UA st.s t s1 := by
              subst hs1; split
              · exact Or.inr ⟨mm, rfl⟩
              · exact Or.inl rfl
            by_cases hocc : (st.curr.contains m = true ∨ s1.cl.isOccupied m = true)
            · rw [if_pos hocc]; exact Or.inr (Or.inl ⟨s1, hua, rfl, rfl⟩)
            · rw [if_neg hocc]
              by_cases hmiss : (r.preds.any fun p => !dictHas (dictSet st.pairs t m) p) = true
              · rw [if_pos hmiss]; exact Or.inl ⟨_, rfl⟩
              · rw [if_neg hmiss]
                by_cases hst : r.status ≠ TStatus.unscheduled
                · rw [if_pos hst]; exact Or.inl ⟨_, rfl⟩
                · rw [if_neg hst]
                  exact Or.inr (Or.inr ⟨s1, m, r, hua, rfl, by simpa using hst, by simpa using hmiss, rfl, rfl⟩)

/-! ### the whole loop -/

/-- what `_process_current_schedule` has done so far to the table `pa0`, from state `a` -/
structure CrossPcs (a : Sys) (pa0 : List (Tid × Mid)) (oid : Oid) (st : PcsSt) : Prop where
  /-- the entry of a task that had left UNSCHEDULED is untouched -/
  keep : ∀ x, tstat a x ≠ .unscheduled → dictGet st.pairs x = dictGet pa0 x
  back : ∀ x, tstat st.s x = .unscheduled → tstat a x = .unscheduled
  /-- a new entry belongs to a new allocation process -/
  wit : ∀ x mx, dictGet st.pairs x = some mx → dictGet pa0 x = some mx ∨
    ∃ q ∈ st.s.procs, ∃ m' c, q.k = .allocTask x m' c (some oid) false 0
  /-- the new processes: allocation of a task that was UNSCHEDULED, on the machine the table now
  records for it, with the cross-machine list read off a table that agrees with `pa0` on every
  task that had left UNSCHEDULED -/
  procs : ∀ q ∈ st.s.procs, q ∈ a.procs ∨ ∃ t m paq r,
    q.k = .allocTask t m (crossPreds paq r.preds m) (some oid) false 0 ∧
    tstat a t = .unscheduled ∧ tstat st.s t ≠ .unscheduled ∧ dictGet st.pairs t = some m ∧
    st.s.task? t = some r ∧ (∀ x ∈ r.preds, dictHas paq x = true) ∧
    (∀ x, tstat a x ≠ .unscheduled → dictGet paq x = dictGet pa0 x)

theorem CrossPcs.step {a : Sys} {pa0 : List (Tid × Mid)} {oid : Oid} {st : PcsSt} (h : CrossPcs a pa0 oid st)
    (now : Time) (t : Tid) (hne : (processOne now oid st t).err = none) :
    CrossPcs a pa0 oid (processOne now oid st t) := by
  have hq := quietB_processOne now oid st t
  -- records of already created processes keep their predecessor lists
  have hold : ∀ (P : List (Tid × Mid)) (hP : ∀ t0 m0, tstat st.s t0 ≠ .unscheduled → dictGet st.pairs t0 = some m0 →
        dictGet P t0 = some m0)
      (hS : ∀ t0, tstat st.s t0 ≠ .unscheduled → tstat (processOne now oid st t).s t0 ≠ .unscheduled),
      ∀ q ∈ st.s.procs, q ∈ a.procs ∨ ∃ t1 m1 paq r,
        q.k = .allocTask t1 m1 (crossPreds paq r.preds m1) (some oid) false 0 ∧
        tstat a t1 = .unscheduled ∧ tstat (processOne now oid st t).s t1 ≠ .unscheduled ∧ dictGet P t1 = some m1 ∧
        (processOne now oid st t).s.task? t1 = some r ∧ (∀ x ∈ r.preds, dictHas paq x = true) ∧
        (∀ x, tstat a x ≠ .unscheduled → dictGet paq x = dictGet pa0 x) := by
    intro P hP hS q hq'
    rcases h.procs q hq' with h1 | ⟨t0, m0, paq, r, g1, g2, g3, g4, g5, g6, g7⟩
    · exact Or.inl h1
    · obtain ⟨r', hr', hk'⟩ := hq.task.fwd t0 r g5
      refine Or.inr ⟨t0, m0, paq, r', ?_, g2, hS t0 g3, hP t0 m0 g3 g4, hr', ?_, g7⟩
      · rw [hk'.shape.preds]; exact g1
      · rw [hk'.shape.preds]; exact g6
  rcases cross_processOne_cases now oid st t with ⟨e, he⟩ | ⟨s1, hua, hs, hpa⟩ |
      ⟨s1, m, r, hua, hr, hst, hmiss, hs, hpa⟩
  · rw [he] at hne; exact absurd hne (by simp)
  · have hts : ∀ x, tstat (processOne now oid st t).s x = tstat st.s x := fun x => by rw [hs, hua.tstat]
    refine ⟨?_, ?_, ?_, ?_⟩
    · intro x hx; rw [hpa]; exact h.keep x hx
    · intro x hx; rw [hts] at hx; exact h.back x hx
    · intro x mx hx
      rw [hpa] at hx
      rcases h.wit x mx hx with h1 | ⟨q, hq', m', c, hk⟩
      · exact Or.inl h1
      · exact Or.inr ⟨q, by rw [hs, hua.procs.1]; exact hq', m', c, hk⟩
    · intro q hq'
      rw [hs, hua.procs.1] at hq'
      rw [hpa]
      exact hold st.pairs (fun _ _ _ h => h) (fun t0 h0 => by rw [hts]; exact h0) q hq'
  · have hts : tstat st.s t = .unscheduled := by rw [tstat_eq, hr]; exact hst
    have hta : tstat a t = .unscheduled := h.back t hts
    obtain ⟨r1, hr1⟩ := hua.task? hr
    have hstat' : ∀ t', tstat (processOne now oid st t).s t' = if t' = t then .scheduled else tstat st.s t' := by
      intro t'
      rw [hs]
      by_cases e : t' = t
      · subst e
        rw [if_pos rfl]
        exact tstat_updTask_set _ _ (fun r : TaskRec => { r with status := .scheduled }) (fun _ => rfl) .scheduled
          (fun _ => rfl) (r := r1) hr1
      · rw [if_neg e, tstat_updTask_ne _ (fun r : TaskRec => { r with status := .scheduled }) (fun _ => rfl) e]
        exact (tstat_of_tasks rfl t').trans (hua.tstat t')
    have hprocs : (processOne now oid st t).s.procs = st.s.procs ++
        [({ pid := s1.nextPid, wake := now,
            k := .allocTask t m (crossPreds (dictSet st.pairs t m) r.preds m) (some oid) false 0 } : Proc)] := by
      rw [hs]
      show s1.procs ++ _ = _
      rw [hua.procs.1]
    have hkeep' : ∀ x, tstat a x ≠ .unscheduled → dictGet (dictSet st.pairs t m) x = dictGet pa0 x := by
      intro x hx
      have hne' : t ≠ x := fun e => hx (e ▸ hta)
      rw [dictGet_dictSet_ne _ _ hne']
      exact h.keep x hx
    refine ⟨?_, ?_, ?_, ?_⟩
    · intro x hx; rw [hpa]; exact hkeep' x hx
    · intro x hx
      rw [hstat'] at hx
      by_cases e : x = t
      · rw [e]; exact hta
      · rw [if_neg e] at hx; exact h.back x hx
    · intro x mx hx
      rw [hpa] at hx
      by_cases e : t = x
      · subst e
        exact Or.inr ⟨_, by rw [hprocs]; exact List.mem_append_right _ (List.mem_singleton.mpr rfl), m, _, rfl⟩
      · rw [dictGet_dictSet_ne _ _ e] at hx
        rcases h.wit x mx hx with h1 | ⟨q, hq', m', c, hk⟩
        · exact Or.inl h1
        · exact Or.inr ⟨q, by rw [hprocs]; exact List.mem_append_left _ hq', m', c, hk⟩
    · intro q hq'
      rw [hprocs] at hq'
      rw [hpa]
      rcases List.mem_append.mp hq' with h1 | h1
      · refine hold (dictSet st.pairs t m) ?_ ?_ q h1
        · intro t0 m0 h0 hg
          have hne' : t ≠ t0 := fun e => h0 (e ▸ hts)
          rw [dictGet_dictSet_ne _ _ hne']; exact hg
        · intro t0 h0
          rw [hstat']
          split
          · simp
          · exact h0
      · simp only [List.mem_singleton] at h1
        subst h1
        obtain ⟨r', hr', hk'⟩ := hq.task.fwd t r hr
        refine Or.inr ⟨t, m, dictSet st.pairs t m, r', ?_, hta, ?_, dictGet_dictSet_self _ _ _, hr', ?_, hkeep'⟩
        · rw [hk'.shape.preds]
        · rw [hstat', if_pos rfl]; simp
        · intro x hx
          rw [hk'.shape.preds] at hx
          have := List.any_eq_false.mp hmiss x hx
          simpa using this

theorem CrossPcs.fold {a : Sys} {pa0 : List (Tid × Mid)} {oid : Oid} (now : Time) (l : List Tid) :
    ∀ {st : PcsSt}, CrossPcs a pa0 oid st → (l.foldl (processOne now oid) st).err = none →
      CrossPcs a pa0 oid (l.foldl (processOne now oid) st) := by
  induction l with
  | nil => intro st h _; exact h
  | cons x r ih =>
    intro st h hne
    rw [List.foldl_cons] at hne ⊢
    have h1 : (processOne now oid st x).err = none := by
      cases he : (processOne now oid st x).err with
      | none => rfl
      | some e => rw [cross_fold_err r he, he] at hne; exact absurd hne (by simp)
    exact ih (h.step now x h1) hne

theorem cross_processCurrentSchedule (a : Sys) (now : Time) (oid : Oid) (sched0 pairs : List (Tid × Mid))
    (hne : (processCurrentSchedule a now oid sched0 pairs).err = none) :
    CrossPcs a pairs oid (processCurrentSchedule a now oid sched0 pairs) := by
  unfold processCurrentSchedule at hne ⊢
  simp only at hne ⊢
  apply CrossPcs.fold now _ _ hne
  exact ⟨fun _ _ => rfl, fun _ h => h, fun _ _ h => Or.inl h, fun q hq => Or.inl hq⟩

end Sys
end Topsim
