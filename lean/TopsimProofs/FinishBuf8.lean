/-
  FinishBuf8 — `BufI` under the scheduler loop, `allocate_tasks` and the ingest
  supervisor; `BufI` along every run of a shipped algorithm.
-/
import TopsimProofs.FinishBuf7

namespace Topsim
namespace Sys

/-! ### buffer / plans relation of the scheduler-side steps -/

structure BufRel (a b : Sys) : Prop where
  cnt : ∀ x, (bufList b.buf).count x = (bufList a.buf).count x
  loc : ∀ x, x ∈ a.buf.hot.scheduled ++ a.buf.hot.finished → x ∈ b.buf.hot.scheduled ++ b.buf.hot.finished
  plans : ∀ pl ∈ b.plans, ∃ pl0 ∈ a.plans, pl0.obs = pl.obs

theorem BufRel.refl (a : Sys) : BufRel a a := ⟨fun _ => rfl, fun _ h => h, fun pl h => ⟨pl, h, rfl⟩⟩

theorem BufRel.trans {a b c : Sys} (h1 : BufRel a b) (h2 : BufRel b c) : BufRel a c :=
  ⟨fun x => (h2.cnt x).trans (h1.cnt x), fun x h => h2.loc x (h1.loc x h),
   fun pl h => by
     obtain ⟨p1, hp1, e1⟩ := h2.plans pl h
     obtain ⟨p0, hp0, e0⟩ := h1.plans p1 hp1
     exact ⟨p0, hp0, e0.trans e1⟩⟩

theorem BufRel.of_eq {a b : Sys} (hb : b.buf = a.buf) (hp : b.plans = a.plans) : BufRel a b :=
  ⟨fun _ => by rw [hb], fun _ h => by rw [hb]; exact h, fun pl h => ⟨pl, by rw [← hp]; exact h, rfl⟩⟩

theorem BufRel.updPlan (a : Sys) (o : Oid) (f : Plan → Plan) (hf : ∀ p, (f p).obs = p.obs) :
    BufRel a (a.updPlan o f) := by
  refine ⟨fun _ => rfl, fun _ h => h, ?_⟩
  intro pl hpl
  simp only [Sys.updPlan, List.mem_map] at hpl
  obtain ⟨p0, hp0, rfl⟩ := hpl
  refine ⟨p0, hp0, ?_⟩
  split
  · exact (hf p0).symm
  · rfl

theorem updateCurrentPlan_plans (s : Sys) (oid : Oid) :
    (s.updateCurrentPlan oid).plans = match s.plan? oid with
      | none => s.plans
      | some _ => (s.updPlan oid (fun p =>
          { p with tasks := p.tasks.filter (fun t => (s.taskView t).status ≠ .finished) })).plans := by
  cases hpl : s.plan? oid with
  | none => simp only [updateCurrentPlan, hpl]
  | some pl =>
    simp only [updateCurrentPlan, hpl]
    show List.map _ (List.foldl _ s _).plans = List.map _ s.plans
    rw [foldl_plans]
    intro s x
    split
    · split <;> rfl
    · rfl

theorem BufRel.updateCurrentPlan (s : Sys) (oid : Oid) : BufRel s (s.updateCurrentPlan oid) := by
  refine ⟨fun _ => by rw [updateCurrentPlan_buf], fun _ h => by rw [updateCurrentPlan_buf]; exact h, ?_⟩
  rw [updateCurrentPlan_plans]
  split
  · exact fun pl h => ⟨pl, h, rfl⟩
  · refine (BufRel.updPlan s oid _ ?_).plans
    intro _; rfl

theorem BufRel.atStart (s : Sys) (now : Time) (pc : Nat) (oid : Oid) : BufRel s (atStart s now pc oid) := by
  refine ⟨fun _ => by rw [atStart_buf], fun _ h => by rw [atStart_buf]; exact h, ?_⟩
  rcases atStart_plans s now pc oid with h | h <;> rw [h]
  · exact fun pl h => ⟨pl, h, rfl⟩
  · refine (BufRel.updPlan s oid _ ?_).plans
    intro _; rfl

theorem BufRel.atS3 (s1 : Sys) (out : AlgOut) (oid : Oid) : BufRel s1 (atS3 s1 out oid) := by
  refine ⟨fun _ => by rw [atS3_buf], fun _ h => by rw [atS3_buf]; exact h, ?_⟩
  rw [atS3_plans]
  intro pl hpl
  obtain ⟨p0, hp0, rfl⟩ := List.mem_map.mp hpl
  refine ⟨p0, hp0, ?_⟩
  split <;> rfl

theorem BufRel.remove {a b : Sys} (o : Oid) (hb : b.buf = (a.buf.remove o).1) (hp : b.plans = a.plans) :
    BufRel a b := by
  obtain ⟨h1, h2⟩ := bufList_remove a.buf o
  exact ⟨fun x => by rw [hb]; exact h1 x, fun x h => by rw [hb]; exact h2 x h,
    fun pl h => ⟨pl, by rw [← hp]; exact h, rfl⟩⟩

theorem allocTasksIter_bufRel (s : Sys) (now : Time) (orc : Oracle) (oid : Oid)
    (schedule pairs : List (Tid × Mid)) (pool : List Tid) :
    BufRel s (s.allocTasksIter now orc oid schedule pairs pool).1 := by
  have h1 := BufRel.updateCurrentPlan s oid
  have hout := allocTasksIter_out s now orc oid schedule pairs pool
  generalize s.allocTasksIter now orc oid schedule pairs pool = r at hout ⊢
  cases hout with
  | noPlan _ => exact h1
  | algErr _ _ _ _ => exact h1
  | finish plan out _ _ _ _ _ _ =>
    exact h1.trans ((BufRel.atS3 _ out oid).trans (BufRel.remove oid rfl rfl))
  | finishBad plan out _ _ _ _ _ _ =>
    exact h1.trans ((BufRel.atS3 _ out oid).trans (BufRel.remove oid rfl rfl))
  | finishWait plan out _ _ _ _ _ =>
    exact h1.trans ((BufRel.atS3 _ out oid).trans (BufRel.remove oid rfl rfl))
  | idle plan out _ _ _ _ => exact h1.trans (BufRel.atS3 _ out oid)
  | alloc plan out y _ _ _ _ =>
    exact h1.trans ((BufRel.atS3 _ out oid).trans
      (BufRel.of_eq (processCurrentSchedule_buf _ _ _ _ _) (processCurrentSchedule_plans _ _ _ _ _)))

theorem bufi_of_rel {s : Sys} (hs : SInv s) (h : BufI s) {p : Proc} (hp : p ∈ s.procs)
    (ha : p.alive = true) (X : Sys) (k' : PK) (y : Yield) (hrel : BufRel s X) (hsh : Shape s X)
    (hpwX : PW X) (h4 : p.k.tag ≠ "hot2cold") (h5 : p.k.tag ≠ "cold2hot") (h2 : p.k.tag ≠ "ingestStream")
    (hk' : k'.tag = p.k.tag) : BufI (X.updProc p.pid (fin k' y p.wake)) := by
  obtain ⟨new, hprocs, hnew⟩ := hnew_of_shape hsh
  refine h.step_count hs.pw new hprocs hpwX hp ha _ _ hnew ?_ ?_ (ObsMonoS.of_eq hsh.obs) ?_
  · intro o tl e
    rw [e] at hk'
    exact absurd hk'.symm h2
  · intro x
    rw [hrel.cnt x, yTok_of_tag _ (by rw [hk']; exact h4) (by rw [hk']; exact h5), tokK_of_tag h4 h5]
    exact Nat.le_refl _
  · intro pl hpl
    obtain ⟨pl0, hpl0, e⟩ := hrel.plans pl hpl
    rw [← e]
    exact hrel.loc _ (h.planLoc pl0 hpl0)

/-! ### the scheduler loop -/

theorem schedLoopBlock_bufRel {s : Sys} (h : BufI s) (now : Time) (orc : Oracle) :
    (∀ x, (bufList (s.schedLoopBlock now orc).1.buf).count x = (bufList s.buf).count x) ∧
    (∀ pl ∈ (s.schedLoopBlock now orc).1.plans,
      pl.obs ∈ (s.schedLoopBlock now orc).1.buf.hot.scheduled ++ (s.schedLoopBlock now orc).1.buf.hot.finished) := by
  rcases schedLoopBlock_buf s now orc with ⟨hb, hp, _, _, _⟩ | ⟨oid, o, recs, plan, hnx, hob, hrp, hb, hp, _, _⟩
  · rw [hb, hp]; exact ⟨fun _ => rfl, h.planLoc⟩
  · obtain ⟨g1, _, g3, g4⟩ := bufList_next s.buf oid hnx
    rw [hb, hp]
    refine ⟨g1, ?_⟩
    rw [g3, g4]
    intro pl hpl
    rcases List.mem_append.mp hpl with hpl | hpl
    · have := h.planLoc pl (List.mem_filter.mp hpl).1
      simp only [List.mem_append, List.mem_singleton] at this ⊢
      rcases this with h' | h'
      · exact Or.inl (Or.inl h')
      · exact Or.inr h'
    · simp only [List.mem_singleton] at hpl
      rw [hpl]
      have hoid : o.id = oid := (obs_mem_of_obs? hob).2
      have : plan.obs = oid := by
        have h2 : plan = (if s.staticPlan = true then staticPlanOf o (natNow now) orc.plan
            else batchPlan o (natNow now)).2 := by rw [← hrp]
        rw [h2]
        split
        · exact hoid
        · exact hoid
      rw [this]; simp

/-! ### the ingest supervisor creating a stream -/

theorem BufI.addStream {s X : Sys} (h : BufI s) (hpw : PW s) (oid : Oid) (d : Nat) (now : Time)
    (hbuf : X.buf = s.buf) (hplans : X.plans = s.plans) (hobs : ObsMonoS s.obs X.obs)
    (hprocs : X.procs = s.procs ++ [{ pid := s.nextPid, k := .provIngest oid d, wake := now },
      { pid := s.nextPid + 1, k := .ingestStream oid 0, wake := now }])
    (hnb : ¬ Begun s.obs oid) (hb : Begun X.obs oid) (hpwX : PW X) {p : Proc} (hp : p ∈ s.procs)
    (_ha : p.alive = true) (k' : PK) (y : Yield) (tlp : Int) (hpk : p.k = .allocIngest oid tlp)
    (hk' : k'.tag = "allocIngest") : BufI (X.updProc p.pid (fin k' y p.wake)) := by
  have hm := memSpec_updProc hpw hp _ hprocs hpwX (fin k' y p.wake)
  have hloc : ∀ o, locCount (X.updProc p.pid (fin k' y p.wake)) o = locCount s o := by
    intro o
    have ht := toks_updProc _ hprocs hpwX hp (fin k' y p.wake) o
    have h1 : tok p = [] := tok_of_tag (by rw [hpk]; simp [PK.tag]) (by rw [hpk]; simp [PK.tag])
    have h2 : tok (fin k' y p.wake p) = [] := by
      apply tok_of_tag <;> (simp only [fin_k]; rw [hk']; simp)
    rw [h1, h2] at ht
    unfold locCount
    show (bufList X.buf).count o + _ = _
    rw [hbuf]
    simp [tok, tokK] at ht
    omega
  -- the streams of the new table
  have hstr : ∀ q ∈ (X.updProc p.pid (fin k' y p.wake)).procs, ∀ o tl, q.k = .ingestStream o tl →
      (q ∈ s.procs) ∨ (o = oid ∧ q.pid = s.nextPid + 1) := by
    intro q hq o tl hqk
    rcases (hm q).mp hq with rfl | ⟨hq0, _⟩ | hqn
    · simp only [fin_k] at hqk; rw [hqk] at hk'; simp [PK.tag] at hk'
    · exact Or.inl hq0
    · simp only [List.mem_cons, List.not_mem_nil, or_false] at hqn
      rcases hqn with rfl | rfl
      · simp at hqk
      · simp only [PK.ingestStream.injEq] at hqk
        exact Or.inr ⟨hqk.1.symm, rfl⟩
  constructor
  · intro o; rw [hloc]; exact h.cnt o
  · intro q hq hqa o tl hqk
    rw [hloc]
    rcases hstr q hq o tl hqk with hq0 | ⟨rfl, _⟩
    · exact h.strFree q hq0 hqa o tl hqk
    · cases hc : locCount s o with
      | zero => rfl
      | succ n => exact absurd (h.locObs o (by omega)) hnb
  · intro q1 hq1 q2 hq2 o tl tl' hk1 hk2
    rcases hstr q1 hq1 o tl hk1 with h1 | ⟨rfl, e1⟩ <;> rcases hstr q2 hq2 o tl' hk2 with h2 | ⟨e, e2⟩
    · exact h.strUniq q1 h1 q2 h2 o tl tl' hk1 hk2
    · subst e; exact absurd (h.strObs q1 h1 _ tl hk1) hnb
    · exact absurd (h.strObs q2 h2 _ tl' hk2) hnb
    · rw [e1, e2]
  · intro q hq o tl hqk
    rcases hstr q hq o tl hqk with hq0 | ⟨rfl, _⟩
    · exact hobs o (h.strObs q hq0 o tl hqk)
    · exact hb
  · intro o hpos
    rw [hloc] at hpos
    exact hobs o (h.locObs o hpos)
  · show ∀ pl ∈ X.plans, pl.obs ∈ X.buf.hot.scheduled ++ X.buf.hot.finished
    rw [hplans, hbuf]; exact h.planLoc

end Sys
end Topsim
