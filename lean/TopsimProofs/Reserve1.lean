/-
  Reserve1 — counting batch reservations: the number of keys of the idle map and the counter
  `num_provisioned_obs` under every cluster operation of a run, and along every run of
  BatchProcessing.
-/
import TopsimProofs.Preced20

namespace Topsim
namespace Sys

open Cluster

/-! ### association lists: lengths -/

theorem dictSet_length_of_get {κ α} [DecidableEq κ] (d : List (κ × α)) (k : κ) (v v' : α)
    (h : dictGet d k = some v) : (dictSet d k v').length = d.length := by
  induction d with
  | nil => simp [dictGet] at h
  | cons p r ih =>
    obtain ⟨k0, v0⟩ := p
    by_cases hk : k0 = k
    · simp [dictSet, hk]
    · simp only [dictGet, hk, if_false] at h
      simp [dictSet, hk, ih h]

theorem dictErase_length_of_get {κ α} [DecidableEq κ] (d : List (κ × α)) (k : κ) (v : α)
    (h : dictGet d k = some v) : (dictErase d k).length + 1 = d.length := by
  induction d with
  | nil => simp [dictGet] at h
  | cons p r ih =>
    obtain ⟨k0, v0⟩ := p
    by_cases hk : k0 = k
    · simp [dictErase, hk]
    · simp only [dictGet, hk, if_false] at h
      simp [dictErase, hk, ih h]

theorem dictHas_dictSet_self {κ α} [DecidableEq κ] (d : List (κ × α)) (k : κ) (v : α) :
    dictHas (dictSet d k v) k = true := by
  unfold dictHas; rw [dictGet_dictSet]; simp

theorem dictHas_iff_get {κ α} [DecidableEq κ] (d : List (κ × α)) (k : κ) :
    dictHas d k = true ↔ ∃ v, dictGet d k = some v := by
  unfold dictHas
  cases dictGet d k <;> simp

/-! ### the pair (number of reservation keys, counter) under the cluster operations -/

/-- what the count statements read of a cluster -/
def resPair (c : Cluster) : Nat × Int := (c.idle.length, c.numProv)

theorem moveToIngest_numProv (c : Cluster) (obs : Oid) (pairs : List (Mid × Tid)) :
    (moveToIngest c obs pairs).1.numProv = c.numProv := by
  induction pairs generalizing c with
  | nil => rfl
  | cons p rest ih =>
    obtain ⟨m, t⟩ := p
    unfold moveToIngest
    simp only
    split
    · exact ih _
    · rfl

theorem provisionIngest_resPair (c : Cluster) (d : Nat) (o : Oid) :
    resPair (c.provisionIngest d o).1 = resPair c := by
  unfold provisionIngest
  split
  · rfl
  · simp only
    unfold resPair
    rw [moveToIngest_idle, moveToIngest_numProv]

theorem setMachineOccupied_resPair (c : Cluster) (m : Mid) (obs : Option Oid) :
    resPair (c.setMachineOccupied m obs).1 = resPair c := by
  unfold setMachineOccupied
  split
  · rfl
  · split
    · rfl
    · split
      · rfl
      · rename_i o l hl
        split
        · unfold resPair
          simp only
          rw [dictSet_length_of_get _ _ _ _ hl]
        · rfl

theorem setMachineAvailable_resPair (c : Cluster) (m : Mid) (obs : Option Oid) :
    resPair (c.setMachineAvailable m obs).1 = resPair c := by
  unfold setMachineAvailable
  split
  · split
    · rfl
    · simp only
      split
      · rename_i o l hl
        unfold resPair
        simp only
        rw [dictSet_length_of_get _ _ _ _ hl]
      · rfl
  · rfl

theorem allocBegin_resPair (c : Cluster) (t : Tid) (m : Mid) (obs : Option Oid) (ing : Bool) :
    resPair (c.allocBegin t m obs ing).1 = resPair c := by
  unfold allocBegin
  by_cases ht : t ∈ c.running
  · simp only [ht, if_true]
  · simp only [ht, if_false]
    cases ing with
    | true => simp only [if_true]; split <;> rfl
    | false =>
      simp only [Bool.false_eq_true, if_false]
      split
      · rfl
      · have hs := setMachineOccupied_resPair c m obs
        generalize c.setMachineOccupied m obs = r at hs
        obtain ⟨c1, e1⟩ := r
        cases e1 <;> exact hs

theorem allocEnd_resPair (c : Cluster) (t : Tid) (m : Mid) (obs : Option Oid) (ing : Bool) :
    resPair (c.allocEnd t m obs ing).1 = resPair c := by
  unfold allocEnd
  by_cases ht : t ∈ c.running
  · simp only [ht, if_true]
    cases ing with
    | true => simp only [if_true]; split <;> rfl
    | false =>
      simp only [Bool.false_eq_true, if_false]
      generalize hc1 : ({ c with running := c.running.erase t, uRunning := c.uRunning - 1,
                                 finished := dictSet c.finished t true,
                                 uFinished := c.uFinished + 1 } : Cluster) = c1
      have h1 : resPair c1 = resPair c := by subst hc1; rfl
      have hs := setMachineAvailable_resPair c1 m obs
      generalize c1.setMachineAvailable m obs = r at hs
      obtain ⟨c2, e2⟩ := r
      cases e2 <;> exact hs.trans h1
  · simp only [ht, if_false]

/-- `release_batch_resources`: nothing, or one key and one count less -/
theorem releaseBatch_resPair (c : Cluster) (o : Oid) :
    resPair (c.releaseBatch o) = resPair c ∨
    ((c.releaseBatch o).idle.length + 1 = c.idle.length ∧ (c.releaseBatch o).numProv = c.numProv - 1) := by
  unfold releaseBatch
  cases hg : dictGet c.idle o with
  | none => exact Or.inl rfl
  | some l =>
    simp only
    by_cases hl : l = []
    · simp only [hl, ne_eq, not_true_eq_false, if_false]; exact Or.inl rfl
    · simp only [ne_eq, hl, not_false_eq_true, if_true]
      exact Or.inr ⟨dictErase_length_of_get _ _ _ hg, trivial⟩

/-- a predicate on (keys, counter) that survives "one key and one count less" is preserved by
every cluster operation the processes perform themselves -/
theorem resPair_closed (Q : Nat → Int → Prop) (hdec : ∀ n i, Q (n + 1) i → Q n (i - 1)) :
    ClClosed (fun c => Q c.idle.length c.numProv) := by
  have cong : ∀ c c' : Cluster, resPair c' = resPair c → Q c.idle.length c.numProv →
      Q c'.idle.length c'.numProv := by
    intro c c' e h
    have e1 : c'.idle.length = c.idle.length := congrArg Prod.fst e
    have e2 : c'.numProv = c.numProv := congrArg Prod.snd e
    rw [e1, e2]; exact h
  constructor
  · intro c h; exact cong c _ (by unfold loopTick; split <;> rfl) h
  · intro c h; exact h
  · intro c d o h; exact cong c _ (provisionIngest_resPair c d o) h
  · intro c t m obs ing h; exact cong c _ (allocBegin_resPair c t m obs ing) h
  · intro c t m obs ing h; exact cong c _ (allocEnd_resPair c t m obs ing) h
  · intro c o h
    rcases releaseBatch_resPair c o with e | ⟨e1, e2⟩
    · exact cong c _ e h
    · rw [e2]; apply hdec; rw [e1]; exact h

/-! ### `provision_batch_resources` -/

theorem addIdleResource_count (c : Cluster) (o : Oid) (m : Mid) (hok : (c.addIdleResource o m).2 = none) :
    (c.addIdleResource o m).1.numProv = c.numProv ∧
    dictHas (c.addIdleResource o m).1.idle o = true ∧
    (c.addIdleResource o m).1.idle.length = if dictHas c.idle o = true then c.idle.length else c.idle.length + 1 := by
  unfold addIdleResource at hok ⊢
  by_cases ho : dictHas c.idle o = true
  · simp only [ho, if_true] at hok ⊢
    by_cases hm : m ∈ c.available
    · simp only [hm, if_true]
      obtain ⟨v, hv⟩ := (dictHas_iff_get _ _).mp ho
      exact ⟨trivial, dictHas_dictSet_self _ _ _, dictSet_length_of_get _ _ _ _ hv⟩
    · simp [hm] at hok
  · simp only [ho, Bool.false_eq_true, if_false] at hok ⊢
    by_cases hm : m ∈ c.available
    · simp only [hm, if_true]
      refine ⟨trivial, dictHas_dictSet_self _ _ _, ?_⟩
      have hg : dictGet (c.idle ++ [(o, ([] : List Mid))]) o = some [] := by
        rw [dictGet_append_new]
        have : dictGet c.idle o = none := by
          unfold dictHas at ho
          cases h : dictGet c.idle o with
          | none => rfl
          | some v => rw [h] at ho; simp at ho
        rw [this]; simp
      rw [dictSet_length_of_get _ _ _ _ hg]
      simp
    · simp [hm] at hok

theorem addIdleAll_count (c : Cluster) (o : Oid) (ms : List Mid) (hok : (c.addIdleAll o ms).2 = none) :
    (c.addIdleAll o ms).1.numProv = c.numProv ∧
    (c.addIdleAll o ms).1.idle.length =
      if dictHas c.idle o = true ∨ ms = [] then c.idle.length else c.idle.length + 1 := by
  induction ms generalizing c with
  | nil => simp [addIdleAll]
  | cons m rest ih =>
    unfold addIdleAll at hok ⊢
    have h1 := addIdleResource_count c o m
    generalize c.addIdleResource o m = r at h1 hok
    obtain ⟨c1, e1⟩ := r
    cases e1 with
    | some e => simp at hok
    | none =>
      simp only at hok ⊢
      obtain ⟨g1, g2, g3⟩ := h1 rfl
      obtain ⟨i1, i2⟩ := ih c1 hok
      refine ⟨i1.trans g1, ?_⟩
      rw [i2]
      simp only [g2, true_or, if_true]
      rw [g3]
      by_cases ho : dictHas c.idle o = true
      · simp [ho]
      · simp [ho]

/-- a successful `provision_batch_resources(size, o)`: the counter goes up by one; the idle map
gains at most one key, and exactly one when `o` had none and `size ≥ 1` -/
theorem provisionBatch_count (c c' : Cluster) (n : Nat) (o : Oid) (h : c.provisionBatch n o = (c', none)) :
    c'.numProv = c.numProv + 1 ∧ c.idle.length ≤ c'.idle.length ∧ c'.idle.length ≤ c.idle.length + 1 ∧
    (dictHas c.idle o = false → 1 ≤ n → c'.idle.length = c.idle.length + 1) := by
  unfold provisionBatch at h
  simp only at h
  generalize hs' : (if n > c.available.length ∧ c.available.length > 0 then c.available.length else n) = s' at h
  by_cases hs : s' > c.available.length
  · simp [hs] at h
  · simp only [hs, if_false] at h
    have h1 := addIdleAll_count c o (c.available.take s')
    generalize c.addIdleAll o (c.available.take s') = r at h1 h
    obtain ⟨c1, e1⟩ := r
    cases e1 with
    | some e => simp at h
    | none =>
      simp only [Prod.mk.injEq, and_true] at h
      subst h
      obtain ⟨g1, g2⟩ := h1 rfl
      simp only
      refine ⟨by rw [g1], ?_, ?_, ?_⟩
      · rw [g2]; split <;> omega
      · rw [g2]; split <;> omega
      · intro hno hn
        rw [g2]
        have hs1 : 1 ≤ s' := by
          rw [← hs']
          split
          · rename_i hh; omega
          · exact hn
        have hne : c.available.take s' ≠ [] := by
          intro e
          have := congrArg List.length e
          simp only [List.length_take, List.length_nil] at this
          omega
        simp [hno, hne]

/-- `_provision_resources`: nothing changes, or `provision_batch_resources(n, o)` succeeded for an
observation without reservation, with fewer than `parts` counted, and `n` at least one and at least
the minimum -/
theorem provisionResources_cases (cl cl1 : Cluster) (parts minPer : Nat)
    (split : Option (List (Oid × Nat × Nat))) (o : Oid) (b : Bool)
    (h : Alg.provisionResources cl parts minPer split o = .ok (cl1, b)) :
    cl1 = cl ∨ (cl.isProvisioned o = false ∧ cl.numProv < (parts : Int) ∧ b = true ∧
      ∃ n, 1 ≤ n ∧ minPer ≤ n ∧ Alg.maxResourceProvision cl parts split o = .ok n ∧
        cl.provisionBatch n o = (cl1, none)) := by
  unfold Alg.provisionResources at h
  split at h
  · injection h with h; injection h with e _; exact Or.inl e.symm
  · rename_i hnp
    split at h
    · rename_i hlt
      split at h
      · exact absurd h (by simp)
      · rename_i n hmax
        split at h
        · injection h with h; injection h with e _; exact Or.inl e.symm
        · rename_i hge
          generalize hpb : cl.provisionBatch n o = r at h
          obtain ⟨c2, e2⟩ := r
          cases e2 with
          | some e => exact absurd h (by simp)
          | none =>
            simp only at h
            injection h with h; injection h with e e'
            subst e
            exact Or.inr ⟨by simpa using hnp, hlt, e'.symm, n, by omega, by omega, hmax, hpb⟩
    · injection h with h; injection h with e _; exact Or.inl e.symm

/-! ### along a run of BatchProcessing -/

/-- the algorithm is BatchProcessing with these parameters -/
def IsBatch (parts minPer : Nat) (split : Option (List (Oid × Nat × Nat))) (a : AlgKind) : Prop :=
  match a with
  | .batch p m sp => p = parts ∧ m = minPer ∧ sp = split
  | _ => False

theorem isBatch_of_eq {parts minPer : Nat} {split : Option (List (Oid × Nat × Nat))} {a : AlgKind}
    (h : a = .batch parts minPer split) : IsBatch parts minPer split a := by
  subst h; exact ⟨rfl, rfl, rfl⟩

theorem batchRun_count (Q : Nat → Int → Prop) (hdec : ∀ n i, Q (n + 1) i → Q n (i - 1))
    (parts minPer : Nat)
    (hinc : ∀ c c' : Cluster, ∀ o n, c.isProvisioned o = false → c.numProv < (parts : Int) → 1 ≤ n →
      c.provisionBatch n o = (c', none) → Q c.idle.length c.numProv → Q c'.idle.length c'.numProv)
    (split : Option (List (Oid × Nat × Nat))) :
    AlgClosed (fun c => Q c.idle.length c.numProv) (IsBatch parts minPer split) := by
  intro s1 orc plan sched pool out ha h hrun
  unfold runAlgorithm at hrun
  split at hrun
  · rename_i p m sp hb
    rw [hb] at ha
    obtain ⟨rfl, rfl, rfl⟩ := ha
    unfold Alg.batchRun at hrun
    split at hrun
    · exact absurd hrun (by simp)
    · rename_i cl1 prov hpr
      injection hrun with hrun
      subst hrun
      simp only
      have h1 : Q cl1.idle.length cl1.numProv := by
        rcases provisionResources_cases _ _ _ _ _ _ _ hpr with rfl | ⟨a1, a2, _, n, a3, _, _, a4⟩
        · exact h
        · exact hinc _ _ _ n a1 a2 a3 a4 h
      split
      · exact (resPair_closed Q hdec).release _ _ h1
      · exact h1
  all_goals (rename_i hb; rw [hb] at ha; exact absurd ha (by simp [IsBatch]))

/-- along every run of BatchProcessing: the idle map has at most as many keys as the counter
counts, and the counter never exceeds the configured number of partitions -/
theorem reach_res_count {s0 s : Sys} (hw : WFConfig s0) {parts minPer : Nat}
    {split : Option (List (Oid × Nat × Nat))} (halg : s0.alg = .batch parts minPer split)
    (h : Reach s0 s) : (s.cl.idle.length : Int) ≤ s.cl.numProv ∧ s.cl.numProv ≤ (parts : Int) := by
  have hcl := resPair_closed (fun n i => (n : Int) ≤ i ∧ i ≤ (parts : Int))
    (by intro n i h; constructor <;> omega)
  have hal := batchRun_count (fun n i => (n : Int) ≤ i ∧ i ≤ (parts : Int))
    (by intro n i h; constructor <;> omega) parts minPer
    (by
      intro c c' o n _ hlt _ hpb hq
      obtain ⟨g1, _, g3, _⟩ := provisionBatch_count c c' n o hpb
      constructor <;> omega) split
  exact reach_clP hcl hal h (isBatch_of_eq halg) (by rw [hw.clInit]; simp [Cluster.init])

/-- … and the two agree (a reservation is never made for fewer than one machine) -/
theorem reach_res_count_eq {s0 s : Sys} (hw : WFConfig s0) {parts minPer : Nat}
    {split : Option (List (Oid × Nat × Nat))} (halg : s0.alg = .batch parts minPer split)
    (h : Reach s0 s) : (s.cl.idle.length : Int) = s.cl.numProv := by
  have hcl := resPair_closed (fun n i => (n : Int) = i) (by intro n i h; omega)
  have hal := batchRun_count (fun n i => (n : Int) = i) (by intro n i h; omega) parts minPer
    (by
      intro c c' o n hno _ hn hpb hq
      obtain ⟨g1, _, _, g4⟩ := provisionBatch_count c c' n o hpb
      have := g4 hno hn
      omega) split
  exact reach_clP hcl hal h (isBatch_of_eq halg) (by rw [hw.clInit]; simp [Cluster.init])

end Sys
end Topsim
