/-
  LiveP22 — DynamicSchedulingFromPlan, block level and along the run: a ready task whose planned
  machine is in the available pool is handed to an allocation process on that machine in that block
  of `allocate_tasks` — or another UNSCHEDULED task of the same plan that is planned on the same
  machine (one that comes before it in the planned-start order) is.
-/
import TopsimProofs.LiveP21

namespace Topsim

open Sys

theorem mem_dictKeys_of_mem_P {κ α} {d : List (κ × α)} {x : κ × α} (h : x ∈ d) : x.1 ∈ dictKeys d :=
  List.mem_map.mpr ⟨x, h, rfl⟩

theorem dictGet_of_mem_nodup_P {κ α} [DecidableEq κ] {d : List (κ × α)} {k : κ} {v : α}
    (hnd : (dictKeys d).Nodup) (h : (k, v) ∈ d) : dictGet d k = some v := by
  induction d with
  | nil => simp at h
  | cons p r ih =>
    obtain ⟨k', v'⟩ := p
    simp only [dictKeys_cons, List.nodup_cons] at hnd
    rcases List.mem_cons.mp h with e | e
    · injection e with e1 e2
      subst e1 e2
      simp [dictGet]
    · have hne : k' ≠ k := by
        intro e'
        apply hnd.1
        rw [e']
        exact mem_dictKeys_of_mem_P (x := (k, v)) e
      simp only [dictGet, hne, if_false]
      exact ih hnd.2 e

namespace Sys

attribute [local irreducible] atS3 atStart Sys.updateCurrentPlan processCurrentSchedule in
/-- one block of the `allocate_tasks` process of `o` under DynamicSchedulingFromPlan that does not
raise: `T` an UNSCHEDULED task of the plan of `o`, every predecessor FINISHED and reported finished,
planned on `m`, `m` in the available pool — after the block there is an allocation process on `m` for
a task of `o` that was UNSCHEDULED and planned on `m` before the block -/
theorem l7_dynamic_started_P {s0 s s' : Sys} {p : Proc} {orc : Oracle} (L : L7PLib s0 s)
    (hd : s.alg = .dynamic) (P : L7Pool s) (M : NcM s) (h : L7Step s s' p orc)
    {o : Oid} {sc pa : List (Tid × Mid)} {po : List Tid} (hk : p.k = .allocTasks o sc pa po false)
    {T : Tid} (hT : T ∈ planTasks s o) (hu : tstat s T = .unscheduled)
    (hpreds : ∀ pl, s.plan? o = some pl → ∀ u ∈ pl.preds T, tstat s u = .finished ∧ FinT s u)
    {m : Mid} (hon : OnPlan s T m) (hmm : (s.machine? m).isSome = true) (hav : m ∈ s.cl.available) :
    ∃ q ∈ s'.procs, ∃ t' cross, q.k = .allocTask t' m cross (some o) false 0 ∧
      tstat s t' = .unscheduled ∧ OnPlan s t' m := by
  have hpm := h.mem
  have hs := L.sinv
  obtain ⟨U, hU⟩ := hs.ci
  have hsc : sc = [] := M.scNil p hpm o sc pa po false hk
  subst hsc
  obtain ⟨pl0, hpl0m, hobs0⟩ := L.ati.plan p hpm o [] pa po false hk
  have hpl0 : s.plan? o = some pl0 := by rw [← hobs0]; exact l7_plan?_of_mem L.wi.pn hpl0m
  have hT0 : T ∈ pl0.tasks := by unfold planTasks at hT; rw [hpl0] at hT; exact hT
  obtain ⟨pl1, hpl1, e1, _, e3, _⟩ := l7_s1_plan s p.wake p.pc o hpl0
  have hT1 : T ∈ pl1.tasks := (e3 T).mpr ⟨hT0, by rw [hu]; simp⟩
  have hts1 : ∀ t, tstat ((atStart s p.wake p.pc o).updateCurrentPlan o) t = tstat s t := fun t =>
    (updateCurrentPlan_tstat _ o t).trans (atStart_tstat s p.wake p.pc o t)
  have halg1e : ((atStart s p.wake p.pc o).updateCurrentPlan o).alg = s.alg := by
    rw [updateCurrentPlan_alg, atStart_alg]
  have halg1 : PlanAlg ((atStart s p.wake p.pc o).updateCurrentPlan o).alg := by rw [halg1e]; exact L.alg
  have hcl1 : ((atStart s p.wake p.pc o).updateCurrentPlan o).cl = s.cl :=
    (updateCurrentPlan_core _ o).cl.trans (atStart_cl s p.wake p.pc o)
  have hp1 : ((atStart s p.wake p.pc o).updateCurrentPlan o).procs = s.procs :=
    (updateCurrentPlan_core _ o).procs.trans (atStart_procs s p.wake p.pc o)
  have hm1 : ((atStart s p.wake p.pc o).updateCurrentPlan o).machines = s.machines :=
    (updateCurrentPlan_machs _ o).trans (atStart_machs _ _ _ _)
  have hK01 : PlanKeep s ((atStart s p.wake p.pc o).updateCurrentPlan o) :=
    (planKeep_atStart s p.wake p.pc o).trans (PlanKeep.of_eq (updateCurrentPlan_core _ o).tasks)
  -- `T` is in the pool
  have hseed : T ∈ Alg.seedPool pl1 po := by
    have fromP : ((∃ u ∈ pl0.preds T, tstat s u ≠ .unscheduled ∨ u ∈ dictKeys ([] : List (Tid × Mid))) ∨
        (pl0.preds T = [] ∧ po ≠ [])) → T ∈ Alg.seedPool pl1 po := by
      intro hc
      rcases P p hpm h.ha o [] pa po hk pl0 hpl0 T hT0 hu hc with h1 | h1
      · exact l7_mem_seedPool_of_mem pl1 h1
      · simp [dictKeys] at h1
    by_cases hr : pl0.preds T = []
    · by_cases hpo : po = []
      · rw [hpo]
        exact l7_mem_seedPool_root pl1 hT1 (by rw [l7_preds_congr e1]; exact hr)
      · exact fromP (Or.inr ⟨hr, hpo⟩)
    · obtain ⟨u, hu'⟩ := List.exists_mem_of_ne_nil _ hr
      have hf := (hpreds pl0 hpl0 u hu').1
      exact fromP (Or.inl ⟨u, hu', Or.inl (by rw [hf]; simp)⟩)
  -- what `run()` proposes
  have key : ∀ out, ((atStart s p.wake p.pc o).updateCurrentPlan o).runAlgorithm orc pl1 [] po = .ok out →
      ∃ x ∈ out.schedule, x.2 = m ∧ (((atStart s p.wake p.pc o).updateCurrentPlan o).taskView x.1).machine = .ok m := by
    intro out hrun
    unfold runAlgorithm at hrun
    rw [halg1e, hd] at hrun
    refine l7_dynamic_machine_used_P _ pl1 _ po out T m hT1 hseed ?_ ?_ ?_ (by rw [hcl1]; exact hav) hrun
    · show tstat ((atStart s p.wake p.pc o).updateCurrentPlan o) T = _
      rw [hts1]; exact hu
    · unfold Alg.predsFinished
      rw [List.all_eq_true]
      intro u hu'
      rw [hcl1]
      rw [l7_preds_congr e1] at hu'
      exact (finT_iff s u).mp (hpreds pl0 hpl0 u hu').2
    · exact taskView_machine_of_onPlan_P (hon.keep hK01) (by rw [machine?_congr hm1]; exact hmm)
  have hnr := h.nr
  rw [block_allocTasks orc hk, allocTasksBlock_eq] at hnr
  obtain ⟨new, hnewe, _⟩ := block_newp s p orc
  have hmem := h.memSpec hs hnewe
  rw [block_allocTasks orc hk, allocTasksBlock_eq] at hnewe
  have herr : ∀ plan out, ((atStart s p.wake p.pc o).updateCurrentPlan o).plan? o = some plan →
      ((atStart s p.wake p.pc o).updateCurrentPlan o).runAlgorithm orc plan [] po = .ok out →
      out.schedule.isEmpty = false →
      (processCurrentSchedule (atS3 ((atStart s p.wake p.pc o).updateCurrentPlan o) out o) p.wake o
        out.schedule pa).err = none :=
    fun plan out h1 h2 h3 => l7_iter_alloc_err (atStart s p.wake p.pc o) p.wake orc o [] pa po plan out h1 h2 h3 hnr
  have hout := allocTasksIter_out (atStart s p.wake p.pc o) p.wake orc o [] pa po
  generalize (atStart s p.wake p.pc o).allocTasksIter p.wake orc o [] pa po = r at hout hnr hnewe
  have hemptyAbs : ∀ plan out, ((atStart s p.wake p.pc o).updateCurrentPlan o).plan? o = some plan →
      ((atStart s p.wake p.pc o).updateCurrentPlan o).runAlgorithm orc plan [] po = .ok out →
      out.schedule.isEmpty = true → False := by
    intro plan out hplan hrun hemp
    rw [hpl1] at hplan
    injection hplan with hplan
    subst hplan
    obtain ⟨x, hx, _⟩ := key out hrun
    have : out.schedule = [] := by simpa using hemp
    rw [this] at hx
    simp at hx
  cases hout with
  | noPlan _ => exact absurd rfl (hnr _)
  | algErr plan e _ _ => exact absurd rfl (hnr _)
  | finishBad plan out _ _ _ _ _ _ => exact absurd rfl (hnr _)
  | finish plan out hplan hrun hemp _ _ _ => exact (hemptyAbs plan out hplan hrun hemp).elim
  | finishWait plan out hplan hrun hemp _ _ => exact (hemptyAbs plan out hplan hrun hemp).elim
  | idle plan out hplan hrun hemp _ => exact (hemptyAbs plan out hplan hrun hemp).elim
  | alloc plan out y hplan hrun hemp _ =>
    rw [hpl1] at hplan
    injection hplan with hplan
    subst hplan
    obtain ⟨x, hx, hxm, hxv⟩ := key out hrun
    have hinv1 : Cluster.Inv ((atStart s p.wake p.pc o).updateCurrentPlan o).cl U := by rw [hcl1]; exact hU.inv
    obtain ⟨hav1, hav2⟩ := avail_facts_P hinv1
    obtain ⟨hmd, hmav⟩ := nc_planRun_machines_P _ orc pl1 po out halg1 hav1 hrun
    obtain ⟨hkeys, hnd⟩ := runAlgorithm_sched _ orc pl1 [] po out halg1.noOracle hrun
    have hnd' : (dictKeys out.schedule).Nodup := hnd (by simp [dictKeys])
    have hcl3 : (atS3 ((atStart s p.wake p.pc o).updateCurrentPlan o) out o).cl =
        ((atStart s p.wake p.pc o).updateCurrentPlan o).cl := by
      rw [atS3_cl]; exact l7_planRun_cl_P _ orc pl1 [] po out halg1 hrun
    obtain ⟨_, _, c3⟩ := pcs_clean_P (atS3 ((atStart s p.wake p.pc o).updateCurrentPlan o) out o) p.wake o
      out.schedule pa hnd' hmd (fun y hy => by rw [hcl3]; exact hav2 y.2 (hmav y hy))
      (herr pl1 out hpl1 hrun hemp)
    have hget : dictGet out.schedule x.1 = some m := by
      apply dictGet_of_mem_nodup_P hnd'
      rw [← hxm]
      exact hx
    obtain ⟨q, hq, cross, hqk⟩ := c3 x.1 m hget
    -- the task was UNSCHEDULED, planned on `m`
    have hxk : x.1 ∈ dictKeys out.schedule := mem_dictKeys_of_mem_P hx
    have hxu : tstat s x.1 = .unscheduled := by
      rcases hkeys x.1 hxk with h1 | ⟨_, h2⟩
      · simp [dictKeys] at h1
      · rw [hts1] at h2; exact h2
    have hxp0 : x.1 ∈ pl0.tasks := by
      rcases hkeys x.1 hxk with h1 | ⟨h2, _⟩
      · simp [dictKeys] at h1
      · exact ((e3 x.1).mp h2).1
    have hxon : OnPlan s x.1 m := by
      obtain ⟨r, hr⟩ := L.st.planRecs pl0 hpl0m x.1 hxp0
      obtain ⟨r', hr', hp', ho'⟩ := hK01 x.1 r hr
      obtain ⟨⟨r1, hr1, hp1', ho1⟩, _⟩ := taskView_machine_ok hxv
      rw [hr'] at hr1
      injection hr1 with hr1
      subst hr1
      exact ⟨r, hr, hp'.symm.trans hp1', ho'.symm.trans ho1⟩
    -- the process is new
    have hqn : q ∈ new := by
      have hq' : q ∈ s.procs ++ new := by rw [← hnewe]; exact hq
      rcases List.mem_append.mp hq' with h1 | h1
      · exfalso
        obtain ⟨r0, hr0, hst0⟩ := hU.hasRec q h1 x.1 m cross (some o) false 0 hqk
        have : s.task? x.1 = some r0 := hr0
        rw [tstat_eq, this] at hxu
        exact hst0 hxu
      · exact h1
    exact ⟨q, (hmem q).mpr (Or.inr (Or.inr hqn)), x.1, cross, hqk, hxu, hxon⟩

end Sys

end Topsim
