/-
  Live2 — the run of the simulator as a sequence of kernel states, and the vocabulary of the
  liveness development.

  * `simAt env s0 n`: the state after `n` kernel steps from `SimState.start s0` (it stays where it
    is when the heap is empty; `simAt_eq_ilSimSteps` ties it to `ilSimSteps`).
  * `NoRaise env s0`: no block of the run raises (`crashed = none` at every index).
  * `TimeDiv env s0`: the clock passes every bound, unless a block raises (proved in Live4).
-/
import TopsimProofs.Live1
import TopsimProps.C08Sim

namespace Topsim

open KState Sys

/-- the state after `n` kernel steps -/
def simAt (env : SimEnv) (s0 : Sys) : Nat → SimState
  | 0 => SimState.start s0
  | n + 1 =>
    match (simAt env s0 n).step (simHandler env) with
    | some k1 => k1
    | none => simAt env s0 n

theorem ilSimSteps_succ (env : SimEnv) (n : Nat) (k : SimState) :
    ilSimSteps env (n + 1) k =
      match (ilSimSteps env n k).step (simHandler env) with
      | some k1 => k1
      | none => ilSimSteps env n k := by
  induction n generalizing k with
  | zero =>
    simp only [ilSimSteps]
    cases k.step (simHandler env) <;> rfl
  | succ n ih =>
    cases hs : k.step (simHandler env) with
    | none =>
      have h1 : ∀ m, ilSimSteps env (m + 1) k = k := by
        intro m; simp only [ilSimSteps, hs]
      rw [h1 (n + 1), h1 n, hs]
    | some k1 =>
      have h1 : ∀ m, ilSimSteps env (m + 1) k = ilSimSteps env m k1 := by
        intro m; simp only [ilSimSteps, hs]
      rw [h1 (n + 1), h1 n]
      exact ih k1

theorem simAt_eq_ilSimSteps (env : SimEnv) (s0 : Sys) (n : Nat) :
    simAt env s0 n = ilSimSteps env n (SimState.start s0) := by
  induction n with
  | zero => rfl
  | succ n ih =>
    rw [ilSimSteps_succ, ← ih]
    rfl

theorem simAt_reach (env : SimEnv) (s0 : Sys) (n : Nat) : SimReach env s0 (simAt env s0 n) := by
  rw [simAt_eq_ilSimSteps]
  exact SimReach.start.steps n

theorem simAt_succ_of_step {env : SimEnv} {s0 : Sys} {n : Nat} {k1 : SimState}
    (h : (simAt env s0 n).step (simHandler env) = some k1) : simAt env s0 (n + 1) = k1 := by
  show (match (simAt env s0 n).step (simHandler env) with
    | some k1 => k1
    | none => simAt env s0 n) = k1
  rw [h]

theorem simAt_path (env : SimEnv) (s0 : Sys) (n m : Nat) (h : n ≤ m) :
    SimPath env (simAt env s0 n) (simAt env s0 m) := by
  induction m with
  | zero =>
    have : n = 0 := by omega
    subst this
    exact SimPath.refl _
  | succ m ih =>
    by_cases e : n = m + 1
    · subst e; exact SimPath.refl _
    · have ih' := ih (by omega)
      cases hs : (simAt env s0 m).step (simHandler env) with
      | none =>
        have : simAt env s0 (m + 1) = simAt env s0 m := by
          show (match (simAt env s0 m).step (simHandler env) with
            | some k1 => k1
            | none => simAt env s0 m) = _
          rw [hs]
        rw [this]; exact ih'
      | some k1 =>
        rw [simAt_succ_of_step hs]
        exact SimPath.step _ _ _ ih' hs

/-- no block of the run raises -/
def NoRaise (env : SimEnv) (s0 : Sys) : Prop := ∀ n, (simAt env s0 n).st.crashed = none

/-- the clock passes every bound, unless a block raises -/
def TimeDiv (env : SimEnv) (s0 : Sys) : Prop :=
  ∀ (n T : Nat), ∃ n', n ≤ n' ∧
    ((simAt env s0 n').st.crashed ≠ none ∨ ∀ x ∈ (simAt env s0 n').heap, ((T : Nat) : Time) ≤ x.time)

end Topsim
