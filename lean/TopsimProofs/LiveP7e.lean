/-
  LiveP7e — the declarations of Live7e.lean that depend on the configuration structures, restated for
  the plan-following configurations (`LivePCfg`, `NcPCfg`, `L7PLib`); the proofs are those of Live7e.lean.
  The pool invariant is kept for DynamicSchedulingFromPlan only (GreedySchedulingFromPlan has no pool).
-/
import TopsimProofs.LiveP7d

namespace Topsim

open Sys

namespace Sys

/-- the plan of an observation that has an `allocate_tasks` process, before and after a step -/
theorem l7_plan_fwd_P {s0 s s' : Sys} {p : Proc} {orc : Oracle} (L : L7PLib s0 s) (L' : L7PLib s0 s')
    (h : L7Step s s' p orc) {q : Proc} (hq : q ∈ s.procs) {o : Oid} {sc pa : List (Tid × Mid)}
    {po : List Tid} {fn : Bool} (hk : q.k = .allocTasks o sc pa po fn) :
    ∃ pl pl', pl ∈ s.plans ∧ s.plan? o = some pl ∧ s'.plan? o = some pl' ∧ pl.obs = o ∧
      pl'.edges = pl.edges ∧ ∀ t ∈ pl'.tasks, t ∈ pl.tasks := by
  obtain ⟨pl, hplm, hpo⟩ := L.ati.plan q hq o sc pa po fn hk
  obtain ⟨pl', hpl'm, hpr, _⟩ := resume_plan_fwd L.bufi p.pid orc pl hplm
  rw [← h.res] at hpl'm
  refine ⟨pl, pl', hplm, ?_, ?_, hpo, hpr.edges, fun t ht => hpr.sub.subset ht⟩
  · rw [← hpo]; exact l7_plan?_of_mem L.wi.pn hplm
  · rw [← hpo, ← hpr.obs]; exact l7_plan?_of_mem L'.wi.pn hpl'm

theorem l7_pool_step_P {s0 s s' : Sys} {p : Proc} {orc : Oracle} (L : L7PLib s0 s) (L' : L7PLib s0 s')
    (h : L7Step s s' p orc) (hd : s.alg = .dynamic) (P : L7Pool s) : L7Pool s' := by
  have hpm := h.mem
  have hs := L.sinv
  obtain ⟨new, hnewe, hnewp⟩ := block_newp s p orc
  have hm := h.memSpec hs hnewe
  intro q hq hqa o sc' pa' po' hqk pl' hpl' t ht hu hc
  rcases (hm q).mp hq with rfl | ⟨hq0, hne⟩ | hqn
  · -- the process that ran
    simp only [fin_k] at hqk
    obtain ⟨sc, pa, po, fn, hk⟩ := ((block_class s hs.pw p orc).2 o).mp ⟨sc', pa', po', false, hqk⟩
    have hfn : fn = false := by
      cases fn with
      | false => rfl
      | true =>
        exfalso
        obtain ⟨d, hd⟩ := (fin_alive _ _ _ _ hqa).2
        rw [block_allocTasks orc hk, allocTasksBlock_fin] at hd
        cases hd
    subst hfn
    obtain ⟨pl0, _, hpl0m, hpl0, _, hobs0, _, _⟩ := l7_plan_fwd_P L L' h hpm hk
    obtain ⟨plan, out, removed, added, e1, e3, q1, q2, q3, q4, q5, hpo, hXpl, H1, H2, H3⟩ :=
      l7_ats_own_P L.su L.alg hd hpm h.ha orc hk h.nr hpl0 hqk
    have hpl'' : s'.plan? o = some { plan with status := out.status } := by
      rw [plan?_of_plans h.plans]; exact hXpl
    rw [hpl''] at hpl'
    injection hpl' with hpl'
    subst hpl' hpo
    have hpreds : ∀ x, plan.preds x = pl0.preds x := l7_preds_congr e1
    refine l7_pool_core plan sc sc' po out removed added (tstat s) (tstat s') pl0.tasks q1 q2 q3 q4 q5
      (fun x => by rw [h.tstat]; exact H1 x) (fun x hx => by rw [h.tstat]; exact H2 x hx) H3
      (fun x hx => ((e3 x).mp hx).1) ?_ t ht hu hc
    intro x hx hux hcx
    refine P p hpm h.ha o sc pa po hk pl0 hpl0 x hx hux ?_
    rcases hcx with ⟨u, hup, hu1⟩ | ⟨hr, hp1⟩
    · exact Or.inl ⟨u, by rw [← hpreds]; exact hup, hu1⟩
    · exact Or.inr ⟨by rw [← hpreds]; exact hr, hp1⟩
  · -- another old process
    obtain ⟨pl0, pl1, hpl0m, hpl0, hpl1, hobs0, hedges, hsub⟩ := l7_plan_fwd_P L L' h hq0 hqk
    rw [hpl1] at hpl'
    injection hpl' with hpl'
    subst hpl'
    have ht0 := hsub t ht
    have hpreds : ∀ x, pl1.preds x = pl0.preds x := l7_preds_congr hedges
    have hwt : IsWf t := by
      obtain ⟨c, n, e⟩ := L.wi.pt pl0 hpl0m t ht0
      exact ⟨_, c, n, e⟩
    have hu0 : tstat s t = .unscheduled := by
      rcases l7_tstat_step_P L h hnewe hwt with e | ⟨_, e⟩ | ⟨_, e, _⟩
      · rw [← e]; exact hu
      · exact absurd hu e
      · rw [hu] at e; cases e
    refine P q hq0 hqa o sc' pa' po' hqk pl0 hpl0 t ht0 hu0 ?_
    rcases hc with ⟨u, hup, hu1⟩ | ⟨hr, hp1⟩
    · rw [hpreds] at hup
      refine Or.inl ⟨u, hup, ?_⟩
      rcases hu1 with hu1 | hu1
      · left
        obtain ⟨c, a, b, e⟩ := L.st.edgeWf pl0 hpl0m _ (planPreds_mem hup)
        injection e with eu _
        rw [hobs0] at eu
        rcases l7_tstat_step_P L h hnewe (t := u) ⟨_, _, _, eu⟩ with e | ⟨e, _⟩ | ⟨_, _, o2, sc2, pa2, po2, fn2, hk2, q2, hq2, _, m2, cross2, hq2k⟩
        · rw [← e]; exact hu1
        · exact e
        · exfalso
          have hq2' : q2 ∈ s'.procs := (hm q2).mpr (Or.inr (Or.inr hq2))
          obtain ⟨o3, c3, n3, eo, eu3⟩ := L'.px.atObs q2 hq2' u m2 cross2 (some o2) 0 hq2k
          injection eo with eo
          subst eo
          rw [eu] at eu3
          injection eu3 with eo2 _ _
          subst eo2
          exact hne (L.ati.uniq q hq0 p hpm o _ _ _ _ _ _ _ _ hqk hk2)
      · exact Or.inr hu1
    · exact Or.inr ⟨by rw [← hpreds]; exact hr, hp1⟩
  · -- a process created by this block: the scheduler loop's, for a freshly planned observation
    exfalso
    obtain ⟨_, _, _, hnk⟩ := hnewp q hqn
    rw [hqk] at hnk
    have hk : p.k = .schedLoop := by
      cases hk : p.k <;> rw [hk] at hnk <;> simp [NewKind] at hnk
    rw [hk] at hnk
    obtain ⟨_, e⟩ := hnk
    simp only [PK.allocTasks.injEq] at e
    obtain ⟨_, hsc, _, hpo, _⟩ := e
    subst hsc hpo
    rcases hc with ⟨u, hup, hu1 | hu1⟩ | ⟨_, hp1⟩
    · rw [block_schedLoop orc hk] at hnewe
      have hX : s'.tasks = (s.schedLoopBlock p.wake orc).1.tasks ∧ s'.plans = (s.schedLoopBlock p.wake orc).1.plans := by
        rw [h.tasks, h.plans, block_schedLoop orc hk]; exact ⟨rfl, rfl⟩
      rcases schedLoopBlock_buf s p.wake orc with ⟨_, _, _, _, hprocs⟩ |
        ⟨oid, ob, recs, plan, hnx, hob, hrp, _, hplans, htasks, hcase⟩
      · have : new = [] := List.append_cancel_left (hnewe.symm.trans (hprocs.trans (List.append_nil _).symm))
        rw [this] at hqn; simp at hqn
      · rcases hcase with ⟨_, _, hprocs⟩ | ⟨_, _, hprocs⟩
        · have : new = [] := List.append_cancel_left (hnewe.symm.trans (hprocs.trans (List.append_nil _).symm))
          rw [this] at hqn; simp at hqn
        · have hnewq : new = [{ pid := s.nextPid, k := .allocTasks oid [] [] [] false, wake := p.wake }] :=
            List.append_cancel_left (hnewe.symm.trans hprocs)
          rw [hnewq] at hqn
          simp only [List.mem_singleton] at hqn
          subst hqn
          simp only [PK.allocTasks.injEq, and_true] at hqk
          obtain ⟨hqk, _⟩ := hqk
          subst hqk
          obtain ⟨_, _, hold⟩ := l7_next_fresh L.wi L.bufi hnx
          have hoid : ob.id = oid := (obs_mem_of_obs? hob).2
          obtain ⟨a1, a2, _⟩ := planOf_attrs ob (natNow p.wake) s.staticPlan orc.plan recs plan hrp
          obtain ⟨_, _, _, g4⟩ := planOf_facts ob (natNow p.wake) s.staticPlan orc.plan recs plan hrp
          -- the plan of `oid` after the step is the new plan
          have hplm : plan ∈ s'.plans := by rw [hX.2, hplans]; simp
          have hpl'' : s'.plan? oid = some plan := by
            have := l7_plan?_of_mem L'.wi.pn hplm
            rw [a1, hoid] at this
            exact this
          rw [hpl''] at hpl'
          injection hpl' with hpl'
          subst hpl'
          -- its predecessors have no record before the step
          have he := planPreds_mem hup
          rw [a2] at he
          obtain ⟨x, _, ex⟩ := List.mem_map.mp he
          injection ex with eu _
          rw [hoid] at eu
          apply hu1
          rw [tstat_of_tasks hX.1, tstat_append_unsched s _ recs htasks (fun r hr => (g4 r hr).1), tstat_eq]
          cases hr : s.task? u with
          | none => rfl
          | some r =>
            exfalso
            exact hold r (List.mem_of_find?_eq_some hr) _ _ ((task?_id hr).trans eu.symm)
    · simp [dictKeys] at hu1
    · exact hp1 rfl

section

variable {env : SimEnv} {s0 : Sys}

/-- the pool invariant at every index of the run -/
theorem live_l7pool_P (C : LivePCfg env s0) (K : LiveKernel env s0) (hd : s0.alg = .dynamic) (n : Nat) : L7Pool (simAt env s0 n).st := by
  induction n with
  | zero => exact l7_pool_start s0 C.hw
  | succ n ih =>
    obtain ⟨e, p, _, _, _, hstep⟩ := l7_step_P C K n
    exact l7_pool_step_P (l7_lib_P C K n) (l7_lib_P C K (n + 1)) hstep
      ((reach_alg (l7_lib_P C K n).ok.toReach).trans hd) ih

end

end Sys

end Topsim

