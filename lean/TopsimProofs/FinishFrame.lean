/-
  FinishFrame — which blocks leave `queue`, `plans`, `buf`, `tasks` alone
  (generated from the pattern of SysInv16).
-/
import TopsimProofs.FinishInv9

namespace Topsim

namespace Sys

/-! ### `queue` -/

theorem foldl_queue {α} (f : Sys → α → Sys) (hf : ∀ s x, (f s x).queue = s.queue) (l : List α) (s : Sys) :
    (l.foldl f s).queue = s.queue := by
  induction l generalizing s with
  | nil => rfl
  | cons x r ih => exact (ih _).trans (hf s x)

theorem monitorBlock_queue (s : Sys) (now : Time) : (s.monitorBlock now).1.queue = s.queue := rfl

theorem checkIngestCapacity_queue (s : Sys) (o : Obs) (s' : Sys) (b : Bool)
    (h : s.checkIngestCapacity o = .ok (s', b)) : s'.queue = s.queue := by
  unfold checkIngestCapacity at h
  split at h
  · exact absurd h (by simp)
  · split at h
    · split at h
      · injection h with h; injection h with h1 _
        subst h1
        split <;> rfl
      · injection h with h; injection h with h1 _; subst h1; rfl
    · injection h with h; injection h with h1 _; subst h1; rfl

theorem telescopeVisit_queue (n : Nat) (acc : Sys × Option Err) (oid : Oid) :
    (telescopeVisit n acc oid).1.queue = acc.1.queue := by
  obtain ⟨s1, err⟩ := acc
  unfold telescopeVisit
  cases err with
  | some e => rfl
  | none =>
    simp only
    split
    · rfl
    · rename_i o _
      split
      · cases hc : s1.checkIngestCapacity o with
        | error e => rfl
        | ok r =>
          obtain ⟨s', b⟩ := r
          have := checkIngestCapacity_queue s1 o s' b hc
          cases b with
          | false => exact this
          | true => simp only; exact this
      · split <;> rfl

theorem foldl_queue' {α β} (f : Sys × β → α → Sys × β) (hf : ∀ acc x, (f acc x).1.queue = acc.1.queue)
    (l : List α) (acc : Sys × β) : (l.foldl f acc).1.queue = acc.1.queue := by
  induction l generalizing acc with
  | nil => rfl
  | cons x r ih => exact (ih _).trans (hf acc x)

theorem telescopeBlock_queue (s : Sys) (now : Time) : (s.telescopeBlock now).1.queue = s.queue := by
  unfold telescopeBlock
  split
  · rfl
  · simp only
    have := foldl_queue' (telescopeVisit (natNow now)) (telescopeVisit_queue (natNow now))
      (s.obs.map (·.id))
      ({ s with telEvents := [], telDelayed := if s.schedDelayed = true ∧ (!s.telDelayed) = true then true else s.telDelayed }, none)
    generalize (List.foldl (telescopeVisit (natNow now)) ({ s with telEvents := [], telDelayed := if s.schedDelayed = true ∧ (!s.telDelayed) = true then true else s.telDelayed }, none) (s.obs.map (·.id))) = r at this ⊢
    obtain ⟨s1, e1⟩ := r
    cases e1 <;> exact this

theorem bufferLoopBlock_queue (s : Sys) (now : Time) : (s.bufferLoopBlock now).1.queue = s.queue := by
  unfold bufferLoopBlock
  split
  · rfl
  · simp only; split <;> split <;> rfl

theorem allocIngestIter_queue (s : Sys) (now : Time) (oid : Oid) (tl : Int) :
    (s.allocIngestIter now oid tl).1.queue = s.queue := by
  unfold allocIngestIter; simp only; mach_split

theorem allocIngestBlock_queue (s : Sys) (now : Time) (pc : Nat) (oid : Oid) (tl : Int) :
    (s.allocIngestBlock now pc oid tl).1.queue = s.queue := by
  unfold allocIngestBlock
  split
  · exact allocIngestIter_queue _ _ _ _
  · exact allocIngestIter_queue _ _ _ _

theorem provIngestBlock_queue (s : Sys) (now : Time) (pc : Nat) (oid : Oid) (d : Nat) :
    (s.provIngestBlock now pc oid d).1.queue = s.queue := by
  unfold provIngestBlock
  split
  · simp only
    split
    · rfl
    · refine Eq.trans (foldl_queue _ ?_ _ _) rfl
      intro s x; rfl
  · rfl

theorem ingestStreamIter_queue (s : Sys) (now : Time) (oid : Oid) (tl : Int) :
    (s.ingestStreamIter now oid tl).1.queue = s.queue := by
  unfold ingestStreamIter; mach_split

theorem ingestStreamBlock_queue (s : Sys) (now : Time) (pc : Nat) (oid : Oid) (tl : Int) :
    (s.ingestStreamBlock now pc oid tl).1.queue = s.queue := by
  unfold ingestStreamBlock
  split
  · split
    · rfl
    · split
      · rfl
      · exact ingestStreamIter_queue _ _ _ _
  · exact ingestStreamIter_queue _ _ _ _

theorem allocTaskBlock_queue (s : Sys) (now : Time) (t : Tid) (m : Mid) (preds : List Tid)
    (obs : Option Oid) (ing : Bool) (ret : Nat) :
    (s.allocTaskBlock now t m preds obs ing ret).1.queue = s.queue := by
  unfold allocTaskBlock; simp only; mach_split

theorem doWorkBlock_queue (s : Sys) (now : Time) (orc : Oracle) (t : Tid) (m : Mid) (preds : List Tid)
    (ph tot : Nat) : (s.doWorkBlock now orc t m preds ph tot).1.queue = s.queue := by
  rcases doWorkBlock_out s now orc t m preds ph tot with
    ⟨_, _, _, _, heq⟩ | ⟨_, _, _, _, _, heq⟩ | ⟨_, _, _, heq⟩ <;> rw [heq] <;> rfl

theorem hot2coldIter_queue (s : Sys) (now : Time) (o : Oid) (left : Int) :
    (s.hot2coldIter now o left).1.queue = s.queue := by
  unfold hot2coldIter; mach_split

theorem hot2coldBlock_queue (s : Sys) (now : Time) (cur : Option (Oid × Int)) :
    (s.hot2coldBlock now cur).1.queue = s.queue := by
  unfold hot2coldBlock
  split
  · exact hot2coldIter_queue _ _ _ _
  · split
    · rfl
    · rfl
    · rw [hot2coldIter_queue]; rfl

theorem cold2hotIter_queue (s : Sys) (now : Time) (o : Oid) (left : Int) :
    (s.cold2hotIter now o left).1.queue = s.queue := by
  unfold cold2hotIter; mach_split

theorem cold2hotBlock_queue (s : Sys) (now : Time) (cur : Option (Oid × Int)) :
    (s.cold2hotBlock now cur).1.queue = s.queue := by
  unfold cold2hotBlock
  split
  · exact cold2hotIter_queue _ _ _ _
  · split
    · rfl
    · rfl
    · rw [cold2hotIter_queue]; rfl

theorem block_queue (s : Sys) (p : Proc) (orc : Oracle)
    (h_schedLoop : p.k.tag ≠ "schedLoop")
    (h_allocTasks : p.k.tag ≠ "allocTasks") :
    (s.block p orc).1.queue = s.queue := by
  unfold block
  split
  · exact monitorBlock_queue _ _
  · exact telescopeBlock_queue _ _
  · rfl
  · rename_i hk; rw [hk] at h_schedLoop; exact absurd rfl h_schedLoop
  · exact bufferLoopBlock_queue _ _
  · exact allocIngestBlock_queue _ _ _ _ _
  · exact provIngestBlock_queue _ _ _ _ _
  · exact ingestStreamBlock_queue _ _ _ _ _
  · exact allocTaskBlock_queue _ _ _ _ _ _ _ _
  · exact doWorkBlock_queue _ _ _ _ _ _ _ _
  · rename_i hk; rw [hk] at h_allocTasks; exact absurd rfl h_allocTasks
  · exact hot2coldBlock_queue _ _ _
  · exact cold2hotBlock_queue _ _ _

/-! ### `plans` -/

theorem foldl_plans {α} (f : Sys → α → Sys) (hf : ∀ s x, (f s x).plans = s.plans) (l : List α) (s : Sys) :
    (l.foldl f s).plans = s.plans := by
  induction l generalizing s with
  | nil => rfl
  | cons x r ih => exact (ih _).trans (hf s x)

theorem monitorBlock_plans (s : Sys) (now : Time) : (s.monitorBlock now).1.plans = s.plans := rfl

theorem checkIngestCapacity_plans (s : Sys) (o : Obs) (s' : Sys) (b : Bool)
    (h : s.checkIngestCapacity o = .ok (s', b)) : s'.plans = s.plans := by
  unfold checkIngestCapacity at h
  split at h
  · exact absurd h (by simp)
  · split at h
    · split at h
      · injection h with h; injection h with h1 _
        subst h1
        split <;> rfl
      · injection h with h; injection h with h1 _; subst h1; rfl
    · injection h with h; injection h with h1 _; subst h1; rfl

theorem telescopeVisit_plans (n : Nat) (acc : Sys × Option Err) (oid : Oid) :
    (telescopeVisit n acc oid).1.plans = acc.1.plans := by
  obtain ⟨s1, err⟩ := acc
  unfold telescopeVisit
  cases err with
  | some e => rfl
  | none =>
    simp only
    split
    · rfl
    · rename_i o _
      split
      · cases hc : s1.checkIngestCapacity o with
        | error e => rfl
        | ok r =>
          obtain ⟨s', b⟩ := r
          have := checkIngestCapacity_plans s1 o s' b hc
          cases b with
          | false => exact this
          | true => simp only; exact this
      · split <;> rfl

theorem foldl_plans' {α β} (f : Sys × β → α → Sys × β) (hf : ∀ acc x, (f acc x).1.plans = acc.1.plans)
    (l : List α) (acc : Sys × β) : (l.foldl f acc).1.plans = acc.1.plans := by
  induction l generalizing acc with
  | nil => rfl
  | cons x r ih => exact (ih _).trans (hf acc x)

theorem telescopeBlock_plans (s : Sys) (now : Time) : (s.telescopeBlock now).1.plans = s.plans := by
  unfold telescopeBlock
  split
  · rfl
  · simp only
    have := foldl_plans' (telescopeVisit (natNow now)) (telescopeVisit_plans (natNow now))
      (s.obs.map (·.id))
      ({ s with telEvents := [], telDelayed := if s.schedDelayed = true ∧ (!s.telDelayed) = true then true else s.telDelayed }, none)
    generalize (List.foldl (telescopeVisit (natNow now)) ({ s with telEvents := [], telDelayed := if s.schedDelayed = true ∧ (!s.telDelayed) = true then true else s.telDelayed }, none) (s.obs.map (·.id))) = r at this ⊢
    obtain ⟨s1, e1⟩ := r
    cases e1 <;> exact this

theorem bufferLoopBlock_plans (s : Sys) (now : Time) : (s.bufferLoopBlock now).1.plans = s.plans := by
  unfold bufferLoopBlock
  split
  · rfl
  · simp only; split <;> split <;> rfl

theorem allocIngestIter_plans (s : Sys) (now : Time) (oid : Oid) (tl : Int) :
    (s.allocIngestIter now oid tl).1.plans = s.plans := by
  unfold allocIngestIter; simp only; mach_split

theorem allocIngestBlock_plans (s : Sys) (now : Time) (pc : Nat) (oid : Oid) (tl : Int) :
    (s.allocIngestBlock now pc oid tl).1.plans = s.plans := by
  unfold allocIngestBlock
  split
  · exact allocIngestIter_plans _ _ _ _
  · exact allocIngestIter_plans _ _ _ _

theorem provIngestBlock_plans (s : Sys) (now : Time) (pc : Nat) (oid : Oid) (d : Nat) :
    (s.provIngestBlock now pc oid d).1.plans = s.plans := by
  unfold provIngestBlock
  split
  · simp only
    split
    · rfl
    · refine Eq.trans (foldl_plans _ ?_ _ _) rfl
      intro s x; rfl
  · rfl

theorem ingestStreamIter_plans (s : Sys) (now : Time) (oid : Oid) (tl : Int) :
    (s.ingestStreamIter now oid tl).1.plans = s.plans := by
  unfold ingestStreamIter; mach_split

theorem ingestStreamBlock_plans (s : Sys) (now : Time) (pc : Nat) (oid : Oid) (tl : Int) :
    (s.ingestStreamBlock now pc oid tl).1.plans = s.plans := by
  unfold ingestStreamBlock
  split
  · split
    · rfl
    · split
      · rfl
      · exact ingestStreamIter_plans _ _ _ _
  · exact ingestStreamIter_plans _ _ _ _

theorem allocTaskBlock_plans (s : Sys) (now : Time) (t : Tid) (m : Mid) (preds : List Tid)
    (obs : Option Oid) (ing : Bool) (ret : Nat) :
    (s.allocTaskBlock now t m preds obs ing ret).1.plans = s.plans := by
  unfold allocTaskBlock; simp only; mach_split

theorem doWorkBlock_plans (s : Sys) (now : Time) (orc : Oracle) (t : Tid) (m : Mid) (preds : List Tid)
    (ph tot : Nat) : (s.doWorkBlock now orc t m preds ph tot).1.plans = s.plans := by
  rcases doWorkBlock_out s now orc t m preds ph tot with
    ⟨_, _, _, _, heq⟩ | ⟨_, _, _, _, _, heq⟩ | ⟨_, _, _, heq⟩ <;> rw [heq] <;> rfl

theorem hot2coldIter_plans (s : Sys) (now : Time) (o : Oid) (left : Int) :
    (s.hot2coldIter now o left).1.plans = s.plans := by
  unfold hot2coldIter; mach_split

theorem hot2coldBlock_plans (s : Sys) (now : Time) (cur : Option (Oid × Int)) :
    (s.hot2coldBlock now cur).1.plans = s.plans := by
  unfold hot2coldBlock
  split
  · exact hot2coldIter_plans _ _ _ _
  · split
    · rfl
    · rfl
    · rw [hot2coldIter_plans]; rfl

theorem cold2hotIter_plans (s : Sys) (now : Time) (o : Oid) (left : Int) :
    (s.cold2hotIter now o left).1.plans = s.plans := by
  unfold cold2hotIter; mach_split

theorem cold2hotBlock_plans (s : Sys) (now : Time) (cur : Option (Oid × Int)) :
    (s.cold2hotBlock now cur).1.plans = s.plans := by
  unfold cold2hotBlock
  split
  · exact cold2hotIter_plans _ _ _ _
  · split
    · rfl
    · rfl
    · rw [cold2hotIter_plans]; rfl

theorem block_plans (s : Sys) (p : Proc) (orc : Oracle)
    (h_schedLoop : p.k.tag ≠ "schedLoop")
    (h_allocTasks : p.k.tag ≠ "allocTasks") :
    (s.block p orc).1.plans = s.plans := by
  unfold block
  split
  · exact monitorBlock_plans _ _
  · exact telescopeBlock_plans _ _
  · rfl
  · rename_i hk; rw [hk] at h_schedLoop; exact absurd rfl h_schedLoop
  · exact bufferLoopBlock_plans _ _
  · exact allocIngestBlock_plans _ _ _ _ _
  · exact provIngestBlock_plans _ _ _ _ _
  · exact ingestStreamBlock_plans _ _ _ _ _
  · exact allocTaskBlock_plans _ _ _ _ _ _ _ _
  · exact doWorkBlock_plans _ _ _ _ _ _ _ _
  · rename_i hk; rw [hk] at h_allocTasks; exact absurd rfl h_allocTasks
  · exact hot2coldBlock_plans _ _ _
  · exact cold2hotBlock_plans _ _ _

/-! ### `buf` -/

theorem foldl_buf {α} (f : Sys → α → Sys) (hf : ∀ s x, (f s x).buf = s.buf) (l : List α) (s : Sys) :
    (l.foldl f s).buf = s.buf := by
  induction l generalizing s with
  | nil => rfl
  | cons x r ih => exact (ih _).trans (hf s x)

theorem monitorBlock_buf (s : Sys) (now : Time) : (s.monitorBlock now).1.buf = s.buf := rfl

theorem checkIngestCapacity_buf (s : Sys) (o : Obs) (s' : Sys) (b : Bool)
    (h : s.checkIngestCapacity o = .ok (s', b)) : s'.buf = s.buf := by
  unfold checkIngestCapacity at h
  split at h
  · exact absurd h (by simp)
  · split at h
    · split at h
      · injection h with h; injection h with h1 _
        subst h1
        split <;> rfl
      · injection h with h; injection h with h1 _; subst h1; rfl
    · injection h with h; injection h with h1 _; subst h1; rfl

theorem telescopeVisit_buf (n : Nat) (acc : Sys × Option Err) (oid : Oid) :
    (telescopeVisit n acc oid).1.buf = acc.1.buf := by
  obtain ⟨s1, err⟩ := acc
  unfold telescopeVisit
  cases err with
  | some e => rfl
  | none =>
    simp only
    split
    · rfl
    · rename_i o _
      split
      · cases hc : s1.checkIngestCapacity o with
        | error e => rfl
        | ok r =>
          obtain ⟨s', b⟩ := r
          have := checkIngestCapacity_buf s1 o s' b hc
          cases b with
          | false => exact this
          | true => simp only; exact this
      · split <;> rfl

theorem foldl_buf' {α β} (f : Sys × β → α → Sys × β) (hf : ∀ acc x, (f acc x).1.buf = acc.1.buf)
    (l : List α) (acc : Sys × β) : (l.foldl f acc).1.buf = acc.1.buf := by
  induction l generalizing acc with
  | nil => rfl
  | cons x r ih => exact (ih _).trans (hf acc x)

theorem telescopeBlock_buf (s : Sys) (now : Time) : (s.telescopeBlock now).1.buf = s.buf := by
  unfold telescopeBlock
  split
  · rfl
  · simp only
    have := foldl_buf' (telescopeVisit (natNow now)) (telescopeVisit_buf (natNow now))
      (s.obs.map (·.id))
      ({ s with telEvents := [], telDelayed := if s.schedDelayed = true ∧ (!s.telDelayed) = true then true else s.telDelayed }, none)
    generalize (List.foldl (telescopeVisit (natNow now)) ({ s with telEvents := [], telDelayed := if s.schedDelayed = true ∧ (!s.telDelayed) = true then true else s.telDelayed }, none) (s.obs.map (·.id))) = r at this ⊢
    obtain ⟨s1, e1⟩ := r
    cases e1 <;> exact this

theorem bufferLoopBlock_buf (s : Sys) (now : Time) : (s.bufferLoopBlock now).1.buf = s.buf := by
  unfold bufferLoopBlock
  split
  · rfl
  · simp only; split <;> split <;> rfl

theorem allocIngestIter_buf (s : Sys) (now : Time) (oid : Oid) (tl : Int) :
    (s.allocIngestIter now oid tl).1.buf = s.buf := by
  unfold allocIngestIter; simp only; mach_split

theorem allocIngestBlock_buf (s : Sys) (now : Time) (pc : Nat) (oid : Oid) (tl : Int) :
    (s.allocIngestBlock now pc oid tl).1.buf = s.buf := by
  unfold allocIngestBlock
  split
  · exact allocIngestIter_buf _ _ _ _
  · exact allocIngestIter_buf _ _ _ _

theorem provIngestBlock_buf (s : Sys) (now : Time) (pc : Nat) (oid : Oid) (d : Nat) :
    (s.provIngestBlock now pc oid d).1.buf = s.buf := by
  unfold provIngestBlock
  split
  · simp only
    split
    · rfl
    · refine Eq.trans (foldl_buf _ ?_ _ _) rfl
      intro s x; rfl
  · rfl

theorem allocTaskBlock_buf (s : Sys) (now : Time) (t : Tid) (m : Mid) (preds : List Tid)
    (obs : Option Oid) (ing : Bool) (ret : Nat) :
    (s.allocTaskBlock now t m preds obs ing ret).1.buf = s.buf := by
  unfold allocTaskBlock; simp only; mach_split

theorem doWorkBlock_buf (s : Sys) (now : Time) (orc : Oracle) (t : Tid) (m : Mid) (preds : List Tid)
    (ph tot : Nat) : (s.doWorkBlock now orc t m preds ph tot).1.buf = s.buf := by
  rcases doWorkBlock_out s now orc t m preds ph tot with
    ⟨_, _, _, _, heq⟩ | ⟨_, _, _, _, _, heq⟩ | ⟨_, _, _, heq⟩ <;> rw [heq] <;> rfl

theorem block_buf (s : Sys) (p : Proc) (orc : Oracle)
    (h_schedLoop : p.k.tag ≠ "schedLoop")
    (h_ingestStream : p.k.tag ≠ "ingestStream")
    (h_allocTasks : p.k.tag ≠ "allocTasks")
    (h_hot2cold : p.k.tag ≠ "hot2cold")
    (h_cold2hot : p.k.tag ≠ "cold2hot") :
    (s.block p orc).1.buf = s.buf := by
  unfold block
  split
  · exact monitorBlock_buf _ _
  · exact telescopeBlock_buf _ _
  · rfl
  · rename_i hk; rw [hk] at h_schedLoop; exact absurd rfl h_schedLoop
  · exact bufferLoopBlock_buf _ _
  · exact allocIngestBlock_buf _ _ _ _ _
  · exact provIngestBlock_buf _ _ _ _ _
  · rename_i hk; rw [hk] at h_ingestStream; exact absurd rfl h_ingestStream
  · exact allocTaskBlock_buf _ _ _ _ _ _ _ _
  · exact doWorkBlock_buf _ _ _ _ _ _ _ _
  · rename_i hk; rw [hk] at h_allocTasks; exact absurd rfl h_allocTasks
  · rename_i hk; rw [hk] at h_hot2cold; exact absurd rfl h_hot2cold
  · rename_i hk; rw [hk] at h_cold2hot; exact absurd rfl h_cold2hot

/-! ### `tasks` -/

theorem foldl_tasks {α} (f : Sys → α → Sys) (hf : ∀ s x, (f s x).tasks = s.tasks) (l : List α) (s : Sys) :
    (l.foldl f s).tasks = s.tasks := by
  induction l generalizing s with
  | nil => rfl
  | cons x r ih => exact (ih _).trans (hf s x)

theorem monitorBlock_tasks (s : Sys) (now : Time) : (s.monitorBlock now).1.tasks = s.tasks := rfl

theorem checkIngestCapacity_tasks (s : Sys) (o : Obs) (s' : Sys) (b : Bool)
    (h : s.checkIngestCapacity o = .ok (s', b)) : s'.tasks = s.tasks := by
  unfold checkIngestCapacity at h
  split at h
  · exact absurd h (by simp)
  · split at h
    · split at h
      · injection h with h; injection h with h1 _
        subst h1
        split <;> rfl
      · injection h with h; injection h with h1 _; subst h1; rfl
    · injection h with h; injection h with h1 _; subst h1; rfl

theorem telescopeVisit_tasks (n : Nat) (acc : Sys × Option Err) (oid : Oid) :
    (telescopeVisit n acc oid).1.tasks = acc.1.tasks := by
  obtain ⟨s1, err⟩ := acc
  unfold telescopeVisit
  cases err with
  | some e => rfl
  | none =>
    simp only
    split
    · rfl
    · rename_i o _
      split
      · cases hc : s1.checkIngestCapacity o with
        | error e => rfl
        | ok r =>
          obtain ⟨s', b⟩ := r
          have := checkIngestCapacity_tasks s1 o s' b hc
          cases b with
          | false => exact this
          | true => simp only; exact this
      · split <;> rfl

theorem foldl_tasks' {α β} (f : Sys × β → α → Sys × β) (hf : ∀ acc x, (f acc x).1.tasks = acc.1.tasks)
    (l : List α) (acc : Sys × β) : (l.foldl f acc).1.tasks = acc.1.tasks := by
  induction l generalizing acc with
  | nil => rfl
  | cons x r ih => exact (ih _).trans (hf acc x)

theorem telescopeBlock_tasks (s : Sys) (now : Time) : (s.telescopeBlock now).1.tasks = s.tasks := by
  unfold telescopeBlock
  split
  · rfl
  · simp only
    have := foldl_tasks' (telescopeVisit (natNow now)) (telescopeVisit_tasks (natNow now))
      (s.obs.map (·.id))
      ({ s with telEvents := [], telDelayed := if s.schedDelayed = true ∧ (!s.telDelayed) = true then true else s.telDelayed }, none)
    generalize (List.foldl (telescopeVisit (natNow now)) ({ s with telEvents := [], telDelayed := if s.schedDelayed = true ∧ (!s.telDelayed) = true then true else s.telDelayed }, none) (s.obs.map (·.id))) = r at this ⊢
    obtain ⟨s1, e1⟩ := r
    cases e1 <;> exact this

theorem bufferLoopBlock_tasks (s : Sys) (now : Time) : (s.bufferLoopBlock now).1.tasks = s.tasks := by
  unfold bufferLoopBlock
  split
  · rfl
  · simp only; split <;> split <;> rfl

theorem allocIngestIter_tasks (s : Sys) (now : Time) (oid : Oid) (tl : Int) :
    (s.allocIngestIter now oid tl).1.tasks = s.tasks := by
  unfold allocIngestIter; simp only; mach_split

theorem allocIngestBlock_tasks (s : Sys) (now : Time) (pc : Nat) (oid : Oid) (tl : Int) :
    (s.allocIngestBlock now pc oid tl).1.tasks = s.tasks := by
  unfold allocIngestBlock
  split
  · exact allocIngestIter_tasks _ _ _ _
  · exact allocIngestIter_tasks _ _ _ _

theorem ingestStreamIter_tasks (s : Sys) (now : Time) (oid : Oid) (tl : Int) :
    (s.ingestStreamIter now oid tl).1.tasks = s.tasks := by
  unfold ingestStreamIter; mach_split

theorem ingestStreamBlock_tasks (s : Sys) (now : Time) (pc : Nat) (oid : Oid) (tl : Int) :
    (s.ingestStreamBlock now pc oid tl).1.tasks = s.tasks := by
  unfold ingestStreamBlock
  split
  · split
    · rfl
    · split
      · rfl
      · exact ingestStreamIter_tasks _ _ _ _
  · exact ingestStreamIter_tasks _ _ _ _

theorem hot2coldIter_tasks (s : Sys) (now : Time) (o : Oid) (left : Int) :
    (s.hot2coldIter now o left).1.tasks = s.tasks := by
  unfold hot2coldIter; mach_split

theorem hot2coldBlock_tasks (s : Sys) (now : Time) (cur : Option (Oid × Int)) :
    (s.hot2coldBlock now cur).1.tasks = s.tasks := by
  unfold hot2coldBlock
  split
  · exact hot2coldIter_tasks _ _ _ _
  · split
    · rfl
    · rfl
    · rw [hot2coldIter_tasks]; rfl

theorem cold2hotIter_tasks (s : Sys) (now : Time) (o : Oid) (left : Int) :
    (s.cold2hotIter now o left).1.tasks = s.tasks := by
  unfold cold2hotIter; mach_split

theorem cold2hotBlock_tasks (s : Sys) (now : Time) (cur : Option (Oid × Int)) :
    (s.cold2hotBlock now cur).1.tasks = s.tasks := by
  unfold cold2hotBlock
  split
  · exact cold2hotIter_tasks _ _ _ _
  · split
    · rfl
    · rfl
    · rw [cold2hotIter_tasks]; rfl

theorem block_tasks (s : Sys) (p : Proc) (orc : Oracle)
    (h_schedLoop : p.k.tag ≠ "schedLoop")
    (h_provIngest : p.k.tag ≠ "provIngest")
    (h_allocTask : p.k.tag ≠ "allocTask")
    (h_doWork : p.k.tag ≠ "doWork")
    (h_allocTasks : p.k.tag ≠ "allocTasks") :
    (s.block p orc).1.tasks = s.tasks := by
  unfold block
  split
  · exact monitorBlock_tasks _ _
  · exact telescopeBlock_tasks _ _
  · rfl
  · rename_i hk; rw [hk] at h_schedLoop; exact absurd rfl h_schedLoop
  · exact bufferLoopBlock_tasks _ _
  · exact allocIngestBlock_tasks _ _ _ _ _
  · rename_i hk; rw [hk] at h_provIngest; exact absurd rfl h_provIngest
  · exact ingestStreamBlock_tasks _ _ _ _ _
  · rename_i hk; rw [hk] at h_allocTask; exact absurd rfl h_allocTask
  · rename_i hk; rw [hk] at h_doWork; exact absurd rfl h_doWork
  · rename_i hk; rw [hk] at h_allocTasks; exact absurd rfl h_allocTasks
  · exact hot2coldBlock_tasks _ _ _
  · exact cold2hotBlock_tasks _ _ _

end Sys
end Topsim
