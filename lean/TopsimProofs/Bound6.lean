/-
  Bound6 — C05, the numeric clause: timed liveness of the workflow-task workers (part 1):
  the arithmetic.  The bounds `bound_tw_W` / `bound_tw_R` of a task id (transfer wait and occupancy of
  its node, from the configuration), the slowest machine, the transfer wait of a body whose
  predecessors have finished, and the occupancy of a body without a delay model.
-/
import TopsimProofs.Bound3
import TopsimProofs.Bound2

namespace Topsim

open KState Sys

/-! ### folds -/

theorem bound_tw_foldl_min_le (l : List Nat) (a : Nat) :
    l.foldl min a ≤ a ∧ ∀ x ∈ l, l.foldl min a ≤ x := by
  induction l generalizing a with
  | nil => exact ⟨Nat.le_refl _, fun x hx => by simp at hx⟩
  | cons b l ih =>
    simp only [List.foldl_cons]
    obtain ⟨h1, h2⟩ := ih (min a b)
    refine ⟨Nat.le_trans h1 (Nat.min_le_left _ _), ?_⟩
    intro x hx
    rcases List.mem_cons.mp hx with rfl | hx
    · exact Nat.le_trans h1 (Nat.min_le_right _ _)
    · exact h2 x hx

theorem bound_tw_foldl_min_mem (l : List Nat) (a : Nat) :
    l.foldl min a = a ∨ l.foldl min a ∈ l := by
  induction l generalizing a with
  | nil => exact Or.inl rfl
  | cons b l ih =>
    simp only [List.foldl_cons]
    rcases ih (min a b) with h | h
    · rw [h]
      rcases Nat.le_total a b with hab | hab
      · left; exact Nat.min_eq_left hab
      · right; rw [Nat.min_eq_right hab]; exact List.mem_cons_self
    · right; exact List.mem_cons_of_mem _ h

theorem bound_tw_foldl_max_ge (l : List Nat) (a : Nat) :
    a ≤ l.foldl max a ∧ ∀ x ∈ l, x ≤ l.foldl max a := by
  induction l generalizing a with
  | nil => exact ⟨Nat.le_refl _, fun x hx => by simp at hx⟩
  | cons b l ih =>
    simp only [List.foldl_cons]
    obtain ⟨h1, h2⟩ := ih (max a b)
    refine ⟨Nat.le_trans (Nat.le_max_left _ _) h1, ?_⟩
    intro x hx
    rcases List.mem_cons.mp hx with rfl | hx
    · exact Nat.le_trans (Nat.le_max_right _ _) h1
    · exact h2 x hx

/-! ### the slowest machine -/

theorem bound_tw_slowCpu_le (s0 : Sys) {mm : Machine} (h : mm ∈ s0.machines) :
    boundSlowCpu s0 ≤ mm.cpu :=
  (bound_tw_foldl_min_le _ _).2 mm.cpu (List.mem_map_of_mem h)

theorem bound_tw_slowBw_le (s0 : Sys) {mm : Machine} (h : mm ∈ s0.machines) :
    boundSlowBw s0 ≤ mm.bw :=
  (bound_tw_foldl_min_le _ _).2 mm.bw (List.mem_map_of_mem h)

theorem bound_tw_headD_mem {l : List Machine} (h : l ≠ []) : l.headD default ∈ l := by
  cases l with
  | nil => exact absurd rfl h
  | cons a l => exact List.mem_cons_self

theorem bound_tw_slowCpu_pos (s0 : Sys) (hf : ∀ m ∈ s0.machines, 0 < m.cpu ∧ 0 < m.bw)
    (hne : s0.machines ≠ []) : 0 < boundSlowCpu s0 := by
  unfold boundSlowCpu
  rcases bound_tw_foldl_min_mem (s0.machines.map (·.cpu)) (s0.machines.headD default).cpu with h | h
  · rw [h]; exact (hf _ (bound_tw_headD_mem hne)).1
  · obtain ⟨m, hm, e⟩ := List.mem_map.mp h
    rw [← e]; exact (hf m hm).1

theorem bound_tw_slowBw_pos (s0 : Sys) (hf : ∀ m ∈ s0.machines, 0 < m.cpu ∧ 0 < m.bw)
    (hne : s0.machines ≠ []) : 0 < boundSlowBw s0 := by
  unfold boundSlowBw
  rcases bound_tw_foldl_min_mem (s0.machines.map (·.bw)) (s0.machines.headD default).bw with h | h
  · rw [h]; exact (hf _ (bound_tw_headD_mem hne)).2
  · obtain ⟨m, hm, e⟩ := List.mem_map.mp h
    rw [← e]; exact (hf m hm).2

/-! ### `ceilDiv` -/

theorem bound_tw_le_ceilDiv_mul (a b : Nat) (hb : 0 < b) : a ≤ Sys.ceilDiv a b * b := by
  unfold Sys.ceilDiv
  have h := Nat.lt_mul_div_succ (a + b - 1) hb
  rw [Nat.mul_add, Nat.mul_one] at h
  rw [Nat.mul_comm]
  omega

/-- a volume `v ≤ M` moved at bandwidth `bw ≥ sb > 0` takes at most `⌈M / sb⌉` -/
theorem bound_tw_div_le_ceil {v M bw sb : Nat} (hv : v ≤ M) (hsb : 0 < sb) (hbw : sb ≤ bw) :
    (v : Rat) / (bw : Rat) ≤ ((Sys.ceilDiv M sb : Nat) : Rat) := by
  have hbw0 : (0 : Rat) < (bw : Rat) := by
    have : 0 < bw := Nat.lt_of_lt_of_le hsb hbw
    exact_mod_cast this
  apply Rat.not_lt.mp
  intro hlt
  have h2 := (Rat.lt_div_iff hbw0).mp hlt
  have h3 : v ≤ Sys.ceilDiv M sb * bw :=
    Nat.le_trans hv (Nat.le_trans (bound_tw_le_ceilDiv_mul M sb hsb) (Nat.mul_le_mul_left _ hbw))
  have h4 : (v : Rat) ≤ ((Sys.ceilDiv M sb : Nat) : Rat) * (bw : Rat) := by exact_mod_cast h3
  exact absurd h2 (Rat.not_lt.mpr h4)

/-! ### the transfer wait -/

/-- the wait is at most `W` when every arrival is: the predecessor finished by `now` and its
volume takes at most `W` -/
theorem bound_tw_waitForTransfer_le (now : Time) (bw : Nat) (xs : List (Time × Nat)) (W : Time)
    (hW : 0 ≤ W) (h : ∀ x ∈ xs, x.1 ≤ now ∧ (x.2 : Rat) / (bw : Rat) ≤ W) :
    waitForTransfer now bw xs ≤ W := by
  unfold waitForTransfer
  have key : ∀ (l : List (Time × Nat)) (acc : Time), acc ≤ W →
      (∀ x ∈ l, x.1 ≤ now ∧ (x.2 : Rat) / (bw : Rat) ≤ W) →
      l.foldl (fun mx (p : Time × Nat) =>
        let arrive := p.1 + (p.2 : Rat) / (bw : Rat) - now
        if arrive > mx then arrive else mx) acc ≤ W := by
    intro l
    induction l with
    | nil => intro acc ha _; exact ha
    | cons x l ih =>
      intro acc ha hx
      simp only [List.foldl_cons]
      apply ih
      · obtain ⟨h1, h2⟩ := hx x List.mem_cons_self
        split
        · grind
        · exact ha
      · exact fun y hy => hx y (List.mem_cons_of_mem _ hy)
  exact key xs 0 hW h

/-! ### the occupancy -/

/-- the occupancy `bodyWait dur + 1` of a body of nominal duration `dur ≤ R`, `1 ≤ R` -/
theorem bound_tw_bodyWait_le {dur R : Nat} (h : dur ≤ R) (h1 : 1 ≤ R) : bodyWait dur + 1 ≤ R := by
  unfold bodyWait
  split <;> omega

/-- the runtime on a machine is at most the runtime on the slowest -/
theorem bound_tw_runtime_le {flops data cpu bw sc sb : Nat} (hsc : 0 < sc) (hsb : 0 < sb)
    (hc : sc ≤ cpu) (hb : sb ≤ bw) :
    max (flops / cpu) (data / bw) ≤ max (flops / sc) (data / sb) := by
  have h1 : flops / cpu ≤ flops / sc := Nat.div_le_div_left hc hsc
  have h2 : data / bw ≤ data / sb := Nat.div_le_div_left hb hsb
  omega

/-- the nominal duration of a record on a machine: at most the runtime of its work on the slowest
machine when it carries work, its planned duration otherwise -/
theorem bound_tw_nominal_le {flops data cpu bw planned sc sb dur : Nat} (hsc : 0 < sc) (hsb : 0 < sb)
    (hc : sc ≤ cpu) (hb : sb ≤ bw) (h0 : flops = 0 → data = 0 → planned = 0)
    (h : nominalDuration flops data cpu bw planned = .ok dur) :
    dur ≤ max (flops / sc) (data / sb) := by
  unfold nominalDuration at h
  split at h
  · unfold calculateRuntime at h
    split at h
    · cases h
    · injection h with h
      rw [← h]
      exact bound_tw_runtime_le hsc hsb hc hb
  · rename_i hw
    injection h with h
    have : planned = 0 := h0 (by omega) (by omega)
    rw [← h, this]
    exact Nat.zero_le _

/-! ### the bounds of a task id -/

/-- the transfer-wait bound of a workflow task: `boundWait` of its node -/
def bound_tw_W (s0 : Sys) (t : Tid) : Nat :=
  match t with
  | .wf o _ node =>
    match s0.obs? o with
    | some ob => boundWait s0 ob node
    | none => 0
  | _ => 0

/-- the occupancy bound of a workflow task: `boundRt` of its node -/
def bound_tw_R (s0 : Sys) (t : Tid) : Nat :=
  match t with
  | .wf o _ node =>
    match s0.obs? o with
    | some ob => boundRt s0 ob node
    | none => 1
  | _ => 1

theorem bound_tw_R_pos (s0 : Sys) (t : Tid) : 1 ≤ bound_tw_R s0 t := by
  unfold bound_tw_R
  split
  · split
    · unfold boundRt; omega
    · exact Nat.le_refl _
  · exact Nat.le_refl _

theorem bound_tw_W_wf {s0 : Sys} {ob : Obs} (h : s0.obs? ob.id = some ob) (c node : Nat) :
    bound_tw_W s0 (.wf ob.id c node) = boundWait s0 ob node := by
  simp only [bound_tw_W, h]

theorem bound_tw_R_wf {s0 : Sys} {ob : Obs} (h : s0.obs? ob.id = some ob) (c node : Nat) :
    bound_tw_R s0 (.wf ob.id c node) = boundRt s0 ob node := by
  simp only [bound_tw_R, h]

end Topsim
