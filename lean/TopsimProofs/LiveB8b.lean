/-
  LiveB8b — BatchProcessing: the declarations of Live8b that depend on the configuration hypotheses,
  for `LiveCfgB` / `NcCfgB` (`s0.alg = .batch …`).  Generated from Live8b.lean by renaming (suffix `_B`);
  the algorithm-dependent ones are rewritten (see the comments).
-/
import TopsimProofs.Live8b
import TopsimProofs.LiveB5
import TopsimProofs.LiveB8

namespace Topsim
open KState Sys
namespace Sys
end Sys
section
variable {env : SimEnv} {s0 : Sys}

theorem l8_oracle_preOk_B (C : LiveCfgB env s0) (K : LiveKernel env s0) (n : Nat) (orc : Oracle) :
    (simAt env s0 n).st.alg = .oracle → orc.preOk := by
  intro h; exact absurd h (l8_alg_B C K n).ne_oracle

/-- along the run, every polling entry of the cluster belongs to a live allocation process -/
theorem live_rc_B (C : LiveCfgB env s0) (K : LiveKernel env s0) (n : Nat) : Sys.l8RC (simAt env s0 n).st := by
  induction n with
  | zero => exact Sys.l8_rc_start s0 C.hw
  | succ n ih =>
    obtain ⟨e, p, _, hpp, _, _, hen, hnr, hst⟩ := l8_step_B C K n
    rw [hst]
    refine Sys.l8_rc_step (l8_sinv_B C K n) ih hen _ (l8_oracle_preOk_B C K n _) ?_
    intro p' hp' err
    rw [hpp] at hp'; cases hp'
    exact hnr err

/-- no live allocation process: the cluster is free -/
theorem live_cluster_free_B (C : LiveCfgB env s0) (K : LiveKernel env s0) (n : Nat)
    (hq : ∀ q ∈ (simAt env s0 n).st.procs, q.alive = true → q.k.tag ≠ "allocTask") :
    (simAt env s0 n).st.cl.occupied = [] ∧ (simAt env s0 n).st.cl.ingest = [] ∧
    (simAt env s0 n).st.cl.running = [] ∧
    (simAt env s0 n).st.cl.available.length + (simAt env s0 n).st.cl.idleAll.length = s0.machines.length := by
  obtain ⟨U, hU⟩ := (l8_sinv_B C K n).ci
  have hinv := hU.inv
  have hti := ((K.reach n).l3inv C.hw).ti
  have hrun : (simAt env s0 n).st.cl.runOn = [] := by
    apply List.eq_nil_iff_forall_not_mem.mpr
    intro e he
    obtain ⟨q, hq', hqa, _, preds, ret, hqk⟩ := live_rc_B C K n e he
    exact hq q hq' hqa (by rw [hqk]; rfl)
  have hpend : (simAt env s0 n).st.cl.pending = [] := by
    apply List.eq_nil_iff_forall_not_mem.mpr
    intro e he
    obtain ⟨o, _, q, hq', hqa, _, preds, ret, hqk⟩ := hti.entPend e he
    exact hq q hq' hqa (by rw [hqk]; rfl)
  have hocc : (simAt env s0 n).st.cl.occupied = [] := by
    apply List.eq_nil_iff_forall_not_mem.mpr
    intro m hm
    have := hinv.occ m
    unfold Cluster.runMachines at this
    rw [hrun] at this
    have hpos := List.count_pos_iff.mpr hm
    simp at this
    omega
  have hing : (simAt env s0 n).st.cl.ingest = [] := by
    apply List.eq_nil_iff_forall_not_mem.mpr
    intro m hm
    have := hinv.ingm m
    unfold Cluster.runMachines at this
    rw [hrun, hpend] at this
    have hpos := List.count_pos_iff.mpr hm
    simp at this
    omega
  refine ⟨hocc, hing, ?_, ?_⟩
  · rw [← hinv.runOnTasks, hrun]; rfl
  · have := hinv.perm.length_eq
    rw [hocc, hing] at this
    simp only [List.append_nil, List.length_append] at this
    rw [this, sim_machines env s0 C.hw _ (K.reach n), List.length_map]
end
end Topsim
