/-
  FinishBuf2 — the shape of the process table after each block, and the buffer
  lists after the buffer operations.
-/
import TopsimProofs.FinishBuf1

namespace Topsim
namespace Sys

theorem tok_of_none {q : Proc} (h1 : ∀ c, q.k = .hot2cold c → c = none)
    (h2 : ∀ c, q.k = .cold2hot c → c = none) : tok q = [] := by
  unfold tok tokK
  split
  · split
    · rename_i hk; exact absurd (h1 _ hk) (by simp)
    · rename_i hk; exact absurd (h2 _ hk) (by simp)
    · rfl
  · rfl

/-- the new entries of a block: none carries a token; an ingest stream is created only by the
ingest supervisor -/
def NewOk (p : Proc) (new : List Proc) : Prop :=
  ∀ q ∈ new, tok q = [] ∧ (q.k.tag = "ingestStream" → p.k.tag = "allocIngest")

theorem newOk_of_shape {s X : Sys} (p : Proc) (h : Shape s X) :
    ∃ new, X.procs = s.procs ++ new ∧ NewOk p new := by
  obtain ⟨new, hp, hn⟩ := h.newp
  refine ⟨new, hp, fun q hq => ?_⟩
  obtain ⟨_, _, _, _, _, _, h7, h8, h9⟩ := hn q hq
  exact ⟨tok_of_none h8 h9, fun e => absurd e h7⟩

theorem telescopeVisit_procs (n : Nat) (acc : Sys × Option Err) (oid : Oid) :
    ∃ new, (telescopeVisit n acc oid).1.procs = acc.1.procs ++ new ∧ ∀ q ∈ new, q.k.tag = "allocIngest" := by
  obtain ⟨s1, err⟩ := acc
  unfold telescopeVisit
  cases err with
  | some e => exact ⟨[], by simp, by simp⟩
  | none =>
    simp only
    split
    · exact ⟨[], by simp, by simp⟩
    · rename_i o _
      split
      · cases hc : s1.checkIngestCapacity o with
        | error e => exact ⟨[], by simp, by simp⟩
        | ok r =>
          obtain ⟨s', b⟩ := r
          have hcore := checkIngestCapacity_core s1 o s' b hc
          cases b with
          | false => exact ⟨[], by simp [hcore.procs], by simp⟩
          | true =>
            simp only
            refine ⟨[{ pid := s'.nextPid, k := .allocIngest oid 0, wake := (n : Time) }], ?_, by simp [PK.tag]⟩
            show s'.procs ++ _ = _
            rw [hcore.procs]
            rfl
      · split
        · exact ⟨[], by simp; rfl, by simp⟩
        · exact ⟨[], by simp, by simp⟩

theorem telescopeBlock_procs (s : Sys) (now : Time) :
    ∃ new, (s.telescopeBlock now).1.procs = s.procs ++ new ∧ ∀ q ∈ new, q.k.tag = "allocIngest" := by
  unfold telescopeBlock
  split
  · exact ⟨[], by simp, by simp⟩
  · simp only
    have : ∀ (l : List Oid) (acc : Sys × Option Err),
        ∃ new, (l.foldl (telescopeVisit (natNow now)) acc).1.procs = acc.1.procs ++ new ∧
          ∀ q ∈ new, q.k.tag = "allocIngest" := by
      intro l
      induction l with
      | nil => intro acc; exact ⟨[], by simp, by simp⟩
      | cons x r ih =>
        intro acc
        obtain ⟨n1, e1, f1⟩ := telescopeVisit_procs (natNow now) acc x
        obtain ⟨n2, e2, f2⟩ := ih (telescopeVisit (natNow now) acc x)
        refine ⟨n1 ++ n2, by simp only [List.foldl_cons]; rw [e2, e1, List.append_assoc], ?_⟩
        intro q hq
        rcases List.mem_append.mp hq with hq | hq
        · exact f1 q hq
        · exact f2 q hq
    have h2 := this (s.obs.map (·.id))
      ({ s with telEvents := [], telDelayed := if s.schedDelayed = true ∧ (!s.telDelayed) = true then true else s.telDelayed }, none)
    generalize (List.foldl (telescopeVisit (natNow now)) ({ s with telEvents := [], telDelayed := if s.schedDelayed = true ∧ (!s.telDelayed) = true then true else s.telDelayed }, none) (s.obs.map (·.id))) = r at h2 ⊢
    obtain ⟨s1, e1⟩ := r
    cases e1 <;> exact h2

/-- the supervisor's block: either it creates the provisioner and the stream of a WAITING
observation (then RUNNING), or it creates nothing -/
theorem allocIngestBlock_procs (s : Sys) (now : Time) (pc : Nat) (oid : Oid) (tl : Int) :
    (s.allocIngestBlock now pc oid tl).1.procs = s.procs ∨
    (∃ ob d, s.obs? oid = some ob ∧ ob.status = .waiting ∧
      (s.allocIngestBlock now pc oid tl).1.procs = s.procs ++
        [{ pid := s.nextPid, k := .provIngest oid d, wake := now },
         { pid := s.nextPid + 1, k := .ingestStream oid 0, wake := now }] ∧
      Begun (s.allocIngestBlock now pc oid tl).1.obs oid) := by
  have hi : ∀ s1 : Sys, ∀ tl1, s1.procs = s.procs → s1.nextPid = s.nextPid →
      (∀ ob, s1.obs? oid = some ob → ∃ ob0, s.obs? oid = some ob0 ∧ ob0.status = ob.status) →
      (s1.allocIngestIter now oid tl1).1.procs = s.procs ∨
      (∃ ob d, s.obs? oid = some ob ∧ ob.status = .waiting ∧
        (s1.allocIngestIter now oid tl1).1.procs = s.procs ++
          [{ pid := s.nextPid, k := .provIngest oid d, wake := now },
           { pid := s.nextPid + 1, k := .ingestStream oid 0, wake := now }] ∧
        Begun (s1.allocIngestIter now oid tl1).1.obs oid) := by
    intro s1 tl1 hp hn hob
    unfold allocIngestIter
    simp only
    cases h1 : s1.obs? oid with
    | none => exact Or.inl hp
    | some o =>
      simp only
      by_cases hfin : o.status = .finished
      · simp only [hfin, if_true]; exact Or.inl hp
      · simp only [hfin, if_false]
        by_cases hw : o.status = .waiting
        · simp only [hw, if_true]
          right
          obtain ⟨ob0, hob0, hst0⟩ := hob o h1
          refine ⟨ob0, o.ingestDemand, hob0, hst0.trans hw, ?_, ?_⟩
          · simp [hp, hn]
          · have hoid : o.id = oid := (obs_mem_of_obs? h1).2
            refine ⟨{ o with status := .running }, ?_, by simp⟩
            have := obs?_updObs ((s1.spawn (.provIngest oid o.ingestDemand) now).1.spawn (.ingestStream oid 0) now).1
              oid oid (fun r => { r with status := .running }) (fun _ => rfl)
            unfold Sys.obs? at this h1
            rw [this]
            show Option.map _ (List.find? _ s1.obs) = _
            rw [h1]; simp [hoid]
        · simp only [hw, if_false]
          split
          · exact Or.inl hp
          · exact Or.inl hp
  unfold allocIngestBlock
  split
  · dsimp only
    apply hi (s.updObs oid (fun r => { r with ast := some (natNow now) })) _ rfl rfl
    intro ob hob
    rw [obs?_updObs s oid oid (fun r => { r with ast := some (natNow now) }) (fun _ => rfl)] at hob
    cases h0 : s.obs? oid with
    | none => rw [h0] at hob; simp at hob
    | some ob0 =>
      rw [h0] at hob
      simp only [Option.map_some, Option.some.injEq] at hob
      refine ⟨ob0, rfl, ?_⟩
      rw [← hob]; split <;> rfl
  · exact hi s tl rfl rfl (fun ob hob => ⟨ob, hob, rfl⟩)

/-! ### the buffer lists after the buffer operations -/

theorem count_dropLast_getLast {l : List Oid} {o : Oid} (h : l.getLast? = some o) (x : Oid) :
    l.dropLast.count x + (if x = o then 1 else 0) = l.count x := by
  have : l = l.dropLast ++ [o] := by
    cases l with
    | nil => simp at h
    | cons a r =>
      have hne : (a :: r) ≠ [] := by simp
      rw [List.getLast?_eq_some_getLast hne] at h
      injection h with h
      rw [← h]
      exact (List.dropLast_concat_getLast hne).symm
  conv => rhs; rw [this]
  rw [count_append_singleton]

theorem count_single (a b : Oid) : [a].count b = if b = a then 1 else 0 := by
  simpa using count_append_singleton [] a b

theorem bufList_next (b : Buffer) (o : Oid) (h : b.nextForProcessing.2 = some o) :
    (∀ x, (bufList b.nextForProcessing.1).count x = (bufList b).count x) ∧ o ∈ b.hot.stored ∧
    b.nextForProcessing.1.hot.scheduled = b.hot.scheduled ++ [o] ∧
    b.nextForProcessing.1.hot.finished = b.hot.finished := by
  unfold Buffer.nextForProcessing at h ⊢
  cases hl : b.hot.stored.getLast? with
  | none => simp [hl] at h
  | some o' =>
    simp only [hl] at h ⊢
    injection h with h
    subst h
    refine ⟨?_, List.mem_of_getLast? hl, rfl, trivial⟩
    intro x
    have := count_dropLast_getLast hl x
    simp only [bufList, List.count_append, count_single]
    omega

theorem bufList_next_none (b : Buffer) (h : b.nextForProcessing.2 = none) : b.nextForProcessing.1 = b := by
  unfold Buffer.nextForProcessing at h ⊢
  cases hl : b.hot.stored.getLast? with
  | none => rfl
  | some o' => simp [hl] at h

theorem bufList_remove (b : Buffer) (o : Oid) :
    (∀ x, (bufList (b.remove o).1).count x = (bufList b).count x) ∧
    (∀ x, x ∈ b.hot.scheduled ++ b.hot.finished → x ∈ (b.remove o).1.hot.scheduled ++ (b.remove o).1.hot.finished) := by
  unfold Buffer.remove
  by_cases h : o ∈ b.hot.scheduled
  · simp only [h, if_true]
    refine ⟨?_, ?_⟩
    · intro x
      have := count_erase_of_mem b.hot.scheduled o x h
      have h2 := count_pos_of_mem h
      simp only [bufList, List.count_append, count_single]
      by_cases e : x = o
      · subst e; simp only [if_true] at this ⊢; omega
      · simp only [e, if_false] at this ⊢; omega
    · intro x hx
      simp only [List.mem_append, List.mem_singleton] at hx ⊢
      by_cases e : x = o
      · exact Or.inr (Or.inr e)
      · rcases hx with hx | hx
        · exact Or.inl ((List.mem_erase_of_ne e).mpr hx)
        · exact Or.inr (Or.inl hx)
  · simp only [h, if_false]
    refine ⟨?_, ?_⟩ <;> intros <;> first | rfl | trivial | assumption

theorem bufList_deposit (b : Buffer) (o : Oid) (r : Int) : bufList (b.deposit o r).1 = bufList b := by
  unfold Buffer.deposit; split <;> rfl

theorem bufList_store (b : Buffer) (o : Oid) (n : Nat) (x : Oid) :
    (bufList (b.store o n)).count x = (bufList b).count x + if x = o then 1 else 0 := by
  simp only [Buffer.store, bufList, List.count_append, count_single]
  omega

end Sys
end Topsim
