/-
  BoundE4 — C05, the numeric clause under a delay model for the plan-following algorithms: the
  record-level facts.
  * `Sys.BoundETwDur`: a record of a workflow task WITHOUT work has a planned duration that IS the
    `eft - est` of a row of the static plan naming its node (BoundP6b's `BoundPTwDur` only bounds it by
    the largest such number: not enough under a non-monotone delay table), along the run;
  * `boundEP_tw_R`: the delayed occupancy bound of a task id;
  * `boundEP_tw_occ_le`: whatever the number `k` of bodies started before, the body of a workflow task
    occupies its machine for at most `boundEP_tw_R` of its task.
-/
import TopsimProofs.BoundE3

namespace Topsim

open KState Sys

/-- a record of a workflow task that carries no work has the planned duration `eft - est` of a row of
the static plan that names its node -/
def Sys.BoundETwDur (env : SimEnv) (s : Sys) : Prop :=
  ∀ t r, s.task? t = some r → r.flops = 0 → r.data = 0 →
    ∀ (ob : Obs) (c node : Nat), t = .wf ob.id c node →
      ∃ x ∈ env.rowsOf ob.id, x.1 = node ∧ r.duration = x.2.2.2 - x.2.2.1

/-- one `resume` of a live process of the simulator keeps `BoundETwDur` (static planning) -/
theorem boundE_tw_dur_step {env : SimEnv} {s : Sys} (hpw : PW s) (hstat : s.staticPlan = true)
    (h : s.BoundETwDur env)
    {pid : Nat} {p : Proc} (hp : s.proc? pid = some p) (ha : p.alive = true) :
    (s.resume pid (env.oracle s)).1.BoundETwDur env := by
  generalize horc : env.oracle s = orc
  have htk : (s.resume pid orc).1.tasks = (s.block p orc).1.tasks := (il_resume_fields s pid orc p hp ha).2.2
  have hq : ∀ t, (s.resume pid orc).1.task? t = (s.block p orc).1.task? t := fun t => by
    unfold Sys.task?; rw [htk]
  intro t r' hr' h0 h0' ob c node htid
  rw [hq] at hr'
  by_cases h3 : p.k.tag = "doWork"
  · cases hk : p.k with
    | doWork t1 m preds ph tot =>
      rw [block_doWork orc hk] at hr'
      have hsh := doWorkBlock_shape2 s p.wake orc t1 m preds ph tot
      generalize s.doWorkBlock p.wake orc t1 m preds ph tot = X at hsh hr'
      cases hsh with
      | raised ph' e _ => exact h t r' hr' h0 h0' ob c node htid
      | wait w => exact h t r' hr' h0 h0' ob c node htid
      | start r mm dur hr hmm hdur =>
        have hr2 : (s.updTask t1 (dwStartF p.wake dur)).task? t = some r' := hr'
        rw [task?_updTask s t1 t (dwStartF p.wake dur) (fun _ => rfl)] at hr2
        cases hr0 : s.task? t with
        | none => rw [hr0] at hr2; simp at hr2
        | some r0 =>
          rw [hr0] at hr2
          simp only [Option.map_some, Option.some.injEq] at hr2
          by_cases e : r0.id = t1
          · rw [if_pos e] at hr2
            have et : t = t1 := (task?_id hr0).symm.trans e
            subst et
            rw [hr] at hr0
            cases hr0
            rw [← hr2] at h0 h0' ⊢
            have f0 : r.flops = 0 := h0
            have d0 : r.data = 0 := h0'
            show ∃ x ∈ env.rowsOf ob.id, x.1 = node ∧ dur = x.2.2.2 - x.2.2.1
            unfold nominalDuration at hdur
            rw [f0, d0] at hdur
            simp only [Nat.lt_irrefl, or_self, if_false] at hdur
            injection hdur with hdur
            rw [← hdur]
            exact h t r hr f0 d0 ob c node htid
          · rw [if_neg e] at hr2
            rw [← hr2] at h0 h0' ⊢
            exact h t r0 hr0 h0 h0' ob c node htid
      | finish hph =>
        have hr2 : (s.updTask t1 (dwEndF p.wake tot)).task? t = some r' := hr'
        rw [task?_updTask s t1 t (dwEndF p.wake tot) (fun r => (dwEndF_spec p.wake tot r).1)] at hr2
        cases hr0 : s.task? t with
        | none => rw [hr0] at hr2; simp at hr2
        | some r0 =>
          rw [hr0] at hr2
          simp only [Option.map_some, Option.some.injEq] at hr2
          by_cases e : r0.id = t1
          · rw [if_pos e] at hr2
            obtain ⟨w1, w2, w3⟩ := dwEndF_work p.wake tot r0
            rw [← hr2] at h0 h0' ⊢
            rw [w3]
            exact h t r0 hr0 (w1 ▸ h0) (w2 ▸ h0') ob c node htid
          · rw [if_neg e] at hr2
            rw [← hr2] at h0 h0' ⊢
            exact h t r0 hr0 h0 h0' ob c node htid
    | _ => rw [hk] at h3; simp [PK.tag] at h3
  · have hS := block_spanStep s hpw p orc h3
    rcases hS.bwd hr' with ⟨r, hr, hk⟩ | ⟨hn, _⟩
    · rw [hk.dur (hk.flops ▸ h0) (hk.data ▸ h0')]
      exact h t r hr (hk.flops ▸ h0) (hk.data ▸ h0') ob c node htid
    · -- a new record
      rw [← hq] at hr'
      rcases resume_shape s hpw pid orc with ⟨_, hM⟩ | ⟨_, p1, o, d, recs, _, _, _, _, ht, _, hid⟩ |
          ⟨p1, _, _, _, oid, o, recs, plan, hnx, hob, hrp, ht, _⟩
      · rw [bound_tw_task?_none_of_ids hM.ids hn] at hr'
        exact absurd hr' (by simp)
      · rw [task?_append s _ recs ht t, hn] at hr'
        obtain ⟨i, _, e⟩ := hid r' (List.mem_of_find?_eq_some hr')
        have e2 : r'.id = t := by simpa using List.find?_some hr'
        rw [← e2, e] at htid
        cases htid
      · rw [task?_append s _ recs ht t, hn] at hr'
        rw [hstat] at hrp
        simp only [if_true] at hrp
        have hrecs : recs = (Sys.staticPlanOf o (natNow p1.wake) orc.plan).1 := congrArg Prod.fst hrp
        have hmem := List.mem_of_find?_eq_some hr'
        rw [hrecs] at hmem
        obtain ⟨x, hx, hxid, hxd⟩ := boundP_tw_staticPlan_dur o _ _ r' hmem
        have e2 : r'.id = t := by simpa using List.find?_some hr'
        rw [hxid, htid] at e2
        injection e2 with e3 e4 e5
        have hoid : o.id = oid := (obs_mem_of_obs? hob).2
        have hrows : orc.plan = env.rowsOf ob.id := by
          rw [← horc, env.oracle_plan s hnx, ← e3, hoid]
        rw [hxd]
        refine ⟨x, ?_, by simpa using e5, rfl⟩
        rw [← hrows]
        exact hx

section
variable {env : SimEnv} {s0 : Sys}

theorem boundE_tw_dur (C : LivePCfg env s0) (K : LiveKernel env s0) (n : Nat) :
    (simAt env s0 n).st.BoundETwDur env := by
  induction n with
  | zero =>
    intro t r hr
    obtain ⟨_, _, htasks, _⟩ := C.hw.fresh
    have ht : (simAt env s0 0).st.tasks = [] := by
      show s0.start.tasks = []
      rw [← htasks]; simp [Sys.start, Sys.spawn]
    unfold Sys.task? at hr
    rw [ht] at hr
    simp at hr
  | succ n ih =>
    obtain ⟨e, p, _, hpp, ha, _, _, _, hst⟩ := live_step_P C K n
    rw [hst]
    exact boundE_tw_dur_step (live_sinv_P C K n).pw
      ((Sys.reach_stat (boundP_tw_reach C K n)).trans C.stat) ih hpp ha

end

/-- the occupancy bound of a workflow task under the environment and the static plans:
`boundEP_Rt` of its node -/
def boundEP_tw_R (env : SimEnv) (s0 : Sys) (t : Tid) : Nat :=
  match t with
  | .wf o _ node =>
    match s0.obs? o with
    | some ob => boundEP_Rt env s0 ob node
    | none => 1
  | _ => 1

theorem boundEP_Rt_pos (env : SimEnv) (s0 : Sys) (o : Obs) (node : Nat) : 1 ≤ boundEP_Rt env s0 o node := by
  unfold boundEP_Rt
  split
  · omega
  · unfold boundDRt boundDOcc; omega

theorem boundEP_tw_R_pos (env : SimEnv) (s0 : Sys) (t : Tid) : 1 ≤ boundEP_tw_R env s0 t := by
  unfold boundEP_tw_R
  split
  · split
    · exact boundEP_Rt_pos _ _ _ _
    · exact Nat.le_refl _
  · exact Nat.le_refl _

theorem boundEP_tw_R_wf {env : SimEnv} {s0 : Sys} {ob : Obs} (h : s0.obs? ob.id = some ob) (c node : Nat) :
    boundEP_tw_R env s0 (.wf ob.id c node) = boundEP_Rt env s0 ob node := by
  simp only [boundEP_tw_R, h]

/-- **The occupancy of a delayed body under a static plan**: whatever the number `k` of bodies started
before, the body of a workflow task occupies its machine for at most `boundEP_tw_R` of its task -/
theorem boundEP_tw_occ_le {env : SimEnv} {s0 s : Sys} (X : BoundPTwCtx env s0 s) (hE : s.BoundETwDur env)
    {t : Tid} {m : Mid}
    {r : TaskRec} {mm : Machine} {dur : Nat} (hr : s.task? t = some r) (hmm : s.machine? m = some mm)
    (hti : t.isIngest = false)
    (hd : nominalDuration r.flops r.data mm.cpu mm.bw r.duration = .ok dur) (k : Nat) :
    bodyWait (env.bodyTotal t k dur) + 1 ≤ boundEP_tw_R env s0 t := by
  have h1 := boundD_tot_le env hti k dur
  obtain ⟨ob, hob, c, node, et, hobs, hn⟩ := X.node hr hti
  subst et
  have hmem := X.machine hmm
  rw [boundEP_tw_R_wf hobs]
  apply bound_tw_bodyWait_le _ (boundEP_Rt_pos _ _ _ _)
  refine Nat.le_trans h1 ?_
  unfold boundEP_Rt boundAttrs
  rw [← hn.flops, ← hn.data]
  by_cases hz : r.flops = 0 ∧ r.data = 0
  · rw [if_pos hz]
    obtain ⟨x, hx, hxn, hxd⟩ := hE _ r hr hz.1 hz.2 ob c node rfl
    have hdur : dur = x.2.2.2 - x.2.2.1 := by
      unfold nominalDuration at hd
      rw [hz.1, hz.2] at hd
      simp only [Nat.lt_irrefl, or_self, if_false] at hd
      injection hd with hd
      rw [← hd, hxd]
    rw [hdur]
    have : env.boundDTot (x.2.2.2 - x.2.2.1) ≤ boundE_planTot env ob node := by
      unfold boundE_planTot
      refine (bound_tw_foldl_max_ge _ 0).2 _
        (List.mem_map_of_mem (f := fun (x : Nat × Mid × Nat × Nat) => env.boundDTot (x.2.2.2 - x.2.2.1)) ?_)
      exact List.mem_filter.mpr ⟨hx, by simpa using hxn⟩
    omega
  · rw [if_neg hz]
    have hw : r.flops > 0 ∨ r.data > 0 := by omega
    have h2 : dur = max (r.flops / mm.cpu) (r.data / mm.bw) := by
      unfold nominalDuration at hd
      rw [if_pos hw] at hd
      unfold calculateRuntime at hd
      split at hd
      · cases hd
      · injection hd with hd
        exact hd.symm
    have h3 := boundD_tot_le_occ env s0 hmem r.flops r.data
    rw [← h2] at h3
    unfold boundDRt boundAttrs
    rw [← hn.flops, ← hn.data]
    exact h3

end Topsim
