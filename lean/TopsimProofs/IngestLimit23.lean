/-
  IngestLimit23 — concrete runs of the deterministic simulator on the
  configuration `c08W0` (IngestLimit9): after 15 kernel steps two machines
  ingest (the limit); after 24 steps the supervisor of A has ended while A's
  allocation process still holds its machine — later in the same instant it
  gives it back, before the telescope's next block.
-/
import TopsimProofs.IngestLimit22

namespace Topsim

open KState Sys

/-- `n` kernel steps -/
def ilSimSteps (env : SimEnv) : Nat → SimState → SimState
  | 0, k => k
  | n + 1, k =>
    match k.step (simHandler env) with
    | some k1 => ilSimSteps env n k1
    | none => k

theorem SimReach.steps {env : SimEnv} {s0 : Sys} (n : Nat) {k : SimState} (h : SimReach env s0 k) :
    SimReach env s0 (ilSimSteps env n k) := by
  induction n generalizing k with
  | zero => exact h
  | succ n ih =>
    unfold ilSimSteps
    split
    · rename_i k1 hs; exact ih (SimReach.step k k1 h hs)
    · exact h

unseal Rat.add in
theorem c08Sim15 :
    (ilSimSteps {} 15 (SimState.start c08W0)).st.cl.ingest = [0, 1] ∧
    (ilSimSteps {} 15 (SimState.start c08W0)).st.maxIngest = 2 := by decide

unseal Rat.add in
theorem c08Sim24 :
    (ilSimSteps {} 24 (SimState.start c08W0)).st.cl.ingest = [0, 1] ∧
    (ilSimSteps {} 24 (SimState.start c08W0)).st.ingestStale = 1 ∧
    (ilSimSteps {} 24 (SimState.start c08W0)).st.provIngest = 1 ∧
    (ilSimSteps {} 25 (SimState.start c08W0)).st.cl.ingest = [1] ∧
    (ilSimSteps {} 25 (SimState.start c08W0)).st.ingestStale = 0 := by decide

end Topsim
