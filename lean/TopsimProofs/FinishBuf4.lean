/-
  FinishBuf4 — the kind a block returns; buffer, plans and process table after
  the scheduler loop and `allocate_tasks`.
-/
import TopsimProofs.FinishBuf3

namespace Topsim
namespace Sys

syntax "tag_split" : tactic
macro_rules
  | `(tactic| tag_split) =>
    `(tactic| first
      | rfl
      | (split <;> tag_split))

theorem ingestStreamBlock_tag (s : Sys) (now : Time) (pc : Nat) (oid : Oid) (tl : Int) :
    ∃ tl', (s.ingestStreamBlock now pc oid tl).2.1 = .ingestStream oid tl' := by
  have hi : ∀ s : Sys, ∀ tl, ∃ tl', (s.ingestStreamIter now oid tl).2.1 = .ingestStream oid tl' := by
    intro s tl; unfold ingestStreamIter
    split
    · exact ⟨_, rfl⟩
    · split
      · split
        · exact ⟨_, rfl⟩
        · split <;> exact ⟨_, rfl⟩
      · exact ⟨_, rfl⟩
  unfold ingestStreamBlock
  split
  · split
    · exact ⟨_, rfl⟩
    · split
      · exact ⟨_, rfl⟩
      · exact hi _ _
  · exact hi _ _

syntax "ats_tag" : tactic
macro_rules
  | `(tactic| ats_tag) =>
    `(tactic| first
      | exact ⟨_, _, _, _, rfl⟩
      | (split <;> ats_tag))

theorem hot2coldBlock_tag (s : Sys) (now : Time) (cur : Option (Oid × Int)) :
    (s.hot2coldBlock now cur).2.1.tag = "hot2cold" := by
  have hi : ∀ s : Sys, ∀ o left, (s.hot2coldIter now o left).2.1.tag = "hot2cold" := by
    intro s o left; unfold hot2coldIter; tag_split
  unfold hot2coldBlock
  split
  · exact hi _ _ _
  · split
    · rfl
    · rfl
    · exact hi _ _ _

theorem cold2hotBlock_tag (s : Sys) (now : Time) (cur : Option (Oid × Int)) :
    (s.cold2hotBlock now cur).2.1.tag = "cold2hot" := by
  have hi : ∀ s : Sys, ∀ o left, (s.cold2hotIter now o left).2.1.tag = "cold2hot" := by
    intro s o left; unfold cold2hotIter; tag_split
  unfold cold2hotBlock
  split
  · exact hi _ _ _
  · split
    · rfl
    · rfl
    · exact hi _ _ _

theorem allocTasksBlock_tag (s : Sys) (now : Time) (orc : Oracle) (pc : Nat) (oid : Oid)
    (schedule pairs : List (Tid × Mid)) (pool : List Tid) (fin : Bool) :
    ∃ sc pa po f, (s.allocTasksBlock now orc pc oid schedule pairs pool fin).2.1 = .allocTasks oid sc pa po f := by
  have hi : ∀ s : Sys, ∃ sc pa po f, (s.allocTasksIter now orc oid schedule pairs pool).2.1 = .allocTasks oid sc pa po f := by
    intro s
    unfold allocTasksIter
    simp only
    ats_tag
  unfold allocTasksBlock
  split
  · exact ⟨_, _, _, _, rfl⟩
  · split
    · exact hi _
    · exact hi _

/-- every block returns a kind with the constructor of the process that ran -/
theorem block_tag (s : Sys) (hpw : PW s) (p : Proc) (orc : Oracle) : (s.block p orc).2.1.tag = p.k.tag := by
  unfold block
  split
  · rename_i hk; rw [hk]
  · rename_i hk; rw [hk]
  · rename_i hk; rw [hk]
  · rename_i hk; rw [hk]
  · rename_i hk; rw [hk]
  · rename_i o tl hk
    obtain ⟨_, ⟨tl', h⟩, _⟩ := allocIngestBlock_E s p.wake p.pc o tl
    rw [h, hk]; rfl
  · rename_i o d hk
    rw [(provIngestBlock_presE s p.wake p.pc o d).2, hk]
  · rename_i o tl hk
    obtain ⟨tl', h⟩ := ingestStreamBlock_tag s p.wake p.pc o tl
    rw [h, hk]; rfl
  · rename_i t m preds obs ing ret hk
    obtain ⟨_, ret', h⟩ := allocTaskBlock_presE s hpw p.wake t m preds obs ing ret
    rw [h, hk]; rfl
  · rename_i t m preds ph tot hk
    obtain ⟨_, ph', tot', h⟩ := doWorkBlock_presE s p.wake orc t m preds ph tot
    rw [h, hk]; rfl
  · rename_i o sc pa po f hk
    obtain ⟨sc', pa', po', f', h⟩ := allocTasksBlock_tag s p.wake orc p.pc o sc pa po f
    rw [h, hk]; rfl
  · rename_i cur hk
    rw [hot2coldBlock_tag, hk]; rfl
  · rename_i cur hk
    rw [cold2hotBlock_tag, hk]; rfl

theorem provIngestBlock_procs (s : Sys) (now : Time) (pc : Nat) (oid : Oid) (d : Nat) :
    ∃ new, (s.provIngestBlock now pc oid d).1.procs = s.procs ++ new ∧ ∀ q ∈ new, q.k.tag = "allocTask" := by
  unfold provIngestBlock
  split
  · simp only
    split
    · exact ⟨[], by simp, by simp⟩
    · rename_i cl1 pairs _
      obtain ⟨new, g1, g2, _⟩ := foldSpawn_spec2
        (fun x : Mid × Tid => PK.allocTask x.2 x.1 [] (some oid) true 0) now pairs
        { s with cl := cl1, tasks := s.tasks ++ pairs.map (fun x => ({ id := x.2, duration := (match s.obs? oid with | some o => o.duration | none => 0), status := TStatus.scheduled } : TaskRec)) }
      refine ⟨new, g1, ?_⟩
      intro q hq
      obtain ⟨_, _, x, _, hk⟩ := g2 q hq
      rw [hk]; rfl
  · exact ⟨[], by simp, by simp⟩

theorem allocTaskBlock_procs (s : Sys) (hpw : PW s) (now : Time) (t : Tid) (m : Mid) (preds : List Tid)
    (obs : Option Oid) (ing : Bool) (ret : Nat) :
    ∃ new, (s.allocTaskBlock now t m preds obs ing ret).1.procs = s.procs ++ new ∧
      ∀ q ∈ new, q.k.tag = "doWork" := by
  rcases allocTaskBlock_cases s hpw now t m preds obs ing ret with
    ⟨_, e, _, heq⟩ | ⟨_, _, heq⟩ | ⟨_, _, heq⟩ | ⟨_, _, e, _, heq⟩ | ⟨_, _, _, heq⟩ <;> rw [heq]
  · exact ⟨[], by simp, by simp⟩
  · exact ⟨[{ pid := s.nextPid, k := .doWork t m preds 0 0, wake := now }], rfl, by simp [PK.tag]⟩
  · exact ⟨[], by simp, by simp⟩
  · exact ⟨[], by simp, by simp⟩
  · exact ⟨[], by simp, by simp⟩

/-! ### the scheduler loop -/

/-- what the scheduler loop does to the buffer lists and the plans -/
theorem schedLoopBlock_buf (s : Sys) (now : Time) (orc : Oracle) :
    ((s.schedLoopBlock now orc).1.buf = s.buf ∧ (s.schedLoopBlock now orc).1.plans = s.plans ∧
      (s.schedLoopBlock now orc).1.tasks = s.tasks ∧ (s.schedLoopBlock now orc).1.queue = s.queue ∧
      (s.schedLoopBlock now orc).1.procs = s.procs) ∨
    (∃ oid o recs plan, s.buf.nextForProcessing.2 = some oid ∧ s.obs? oid = some o ∧
      (recs, plan) = (if s.staticPlan then staticPlanOf o (natNow now) orc.plan else batchPlan o (natNow now)) ∧
      (s.schedLoopBlock now orc).1.buf = s.buf.nextForProcessing.1 ∧
      (s.schedLoopBlock now orc).1.plans = (s.plans.filter (·.obs ≠ oid)) ++ [plan] ∧
      (s.schedLoopBlock now orc).1.tasks = s.tasks ++ recs ∧
      ((oid ∈ s.queue ∧ (s.schedLoopBlock now orc).1.queue = s.queue ∧
          (s.schedLoopBlock now orc).1.procs = s.procs) ∨
       (oid ∉ s.queue ∧ (s.schedLoopBlock now orc).1.queue = s.queue ++ [oid] ∧
          (s.schedLoopBlock now orc).1.procs = s.procs ++
            [{ pid := s.nextPid, k := .allocTasks oid [] [] [] false, wake := now }]))) := by
  unfold schedLoopBlock
  simp only
  split
  · have hnone := bufList_next_none s.buf
    generalize hnx : s.buf.nextForProcessing = r at hnone
    obtain ⟨b1, res⟩ := r
    cases res with
    | none => exact Or.inl ⟨rfl, rfl, rfl, rfl, rfl⟩
    | some oid =>
      simp only
      cases hob : s.obs? oid with
      | none =>
        left
        have : ({ s with schEvents := [] } : Sys).obs? oid = none := hob
        simp only [this]
        exact ⟨trivial, trivial, trivial, trivial, trivial⟩
      | some o =>
        right
        have : ({ s with schEvents := [] } : Sys).obs? oid = some o := hob
        simp only [this]
        generalize hrp : (if s.staticPlan = true then staticPlanOf o (natNow now) orc.plan
          else batchPlan o (natNow now)) = rp
        obtain ⟨recs, plan⟩ := rp
        simp only
        refine ⟨oid, o, recs, plan, rfl, hob, hrp.symm, ?_⟩
        by_cases hq : oid ∈ s.queue
        · simp only [hq, if_true]
          refine ⟨?_, ?_, ?_, Or.inl ⟨?_, ?_, ?_⟩⟩ <;> first | rfl | trivial
        · simp only [hq, if_false]
          refine ⟨?_, ?_, ?_, Or.inr ⟨?_, ?_, ?_⟩⟩ <;> first | rfl | trivial | exact not_false
  · exact Or.inl ⟨rfl, rfl, rfl, rfl, rfl⟩

theorem batchPlan_obs (o : Obs) (c : Nat) : (batchPlan o c).2.obs = o.id := rfl
theorem staticPlanOf_obs (o : Obs) (c : Nat) (rows) : (staticPlanOf o c rows).2.obs = o.id := rfl

end Sys
end Topsim
