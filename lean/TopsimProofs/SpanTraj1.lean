/-
  SpanTraj1 — what the blocks of every process other than a task body do to the
  task records, as far as the recorded span goes: the two stamps, the work
  (`flops`, `data`) and, for a record without work, the planned duration are never
  rewritten.  No restriction on the algorithm or on the oracle.
-/
import TopsimProofs.Preced20
import TopsimProofs.LifeCycle6
import TopsimProofs.IngestLimit23

namespace Topsim
namespace Sys

/-! ### the relation between a record and its later self -/

/-- identity, graph data, both stamps and the work are kept; a record without work keeps its
planned duration -/
structure TSpan (r r' : TaskRec) : Prop where
  shape : TShape r r'
  ast : r'.ast = r.ast
  aft : r'.aft = r.aft
  flops : r'.flops = r.flops
  data : r'.data = r.data
  dur : r.flops = 0 → r.data = 0 → r'.duration = r.duration

theorem TSpan.refl (r : TaskRec) : TSpan r r := ⟨TShape.refl r, rfl, rfl, rfl, rfl, fun _ _ => rfl⟩

theorem TSpan.trans {a b c : TaskRec} (h1 : TSpan a b) (h2 : TSpan b c) : TSpan a c :=
  ⟨h1.shape.trans h2.shape, h2.ast.trans h1.ast, h2.aft.trans h1.aft, h2.flops.trans h1.flops,
   h2.data.trans h1.data, fun h0 h0' =>
     (h2.dur (h1.flops.trans h0) (h1.data.trans h0')).trans (h1.dur h0 h0')⟩

theorem fresh_span {a b : TaskRec} (h : Fresh a) (k : TSpan a b) : Fresh b :=
  ⟨k.ast.trans h.ast, k.aft.trans h.aft, by rw [k.shape.preds]; exact h.preds⟩

abbrev SpanStep := TaskStepR TSpan

theorem SpanStep.refl (s : Sys) : SpanStep s s := TaskStepR.refl TSpan.refl s
theorem SpanStep.of_eq {s X : Sys} (h : X.tasks = s.tasks) : SpanStep s X := TaskStepR.of_eq TSpan.refl h
theorem SpanStep.trans {a b c : Sys} (h1 : SpanStep a b) (h2 : SpanStep b c) : SpanStep a c :=
  TaskStepR.trans (R := TSpan) (fun _ _ _ h1 h2 => TSpan.trans h1 h2) (fun _ _ h k => fresh_span h k) h1 h2

theorem SpanStep.foldl {α} (f : Sys → α → Sys) (hf : ∀ s a, SpanStep s (f s a)) (l : List α) (s : Sys) :
    SpanStep s (l.foldl f s) := by
  induction l generalizing s with
  | nil => exact SpanStep.refl s
  | cons a r ih => exact (hf s a).trans (ih _)

theorem SpanStep.updTask (s : Sys) (t0 : Tid) (f : TaskRec → TaskRec) (hR : ∀ r, TSpan r (f r)) :
    SpanStep s (s.updTask t0 f) :=
  TaskStepR.updTask TSpan.refl s t0 f (fun r => (hR r).shape.id) (fun r _ => hR r)

theorem span_updateAllocation (r : TaskRec) (mm : Machine) : TSpan r (updateAllocation r mm) := by
  unfold updateAllocation
  simp only
  split
  · rename_i hgt
    refine ⟨⟨rfl, rfl, rfl⟩, rfl, rfl, rfl, rfl, fun h0 h0' => ?_⟩
    exfalso
    rw [h0, h0'] at hgt
    simp at hgt
  · exact ⟨⟨rfl, rfl, rfl⟩, rfl, rfl, rfl, rfl, fun _ _ => rfl⟩

/-! ### the blocks that write to the table of records -/

theorem schedLoop_spanStep (s : Sys) (now : Time) (orc : Oracle) :
    SpanStep s (s.schedLoopBlock now orc).1 := by
  rcases schedLoopBlock_buf s now orc with ⟨_, _, htasks, _, _⟩ |
    ⟨oid, o, recs, plan, _, _, hrp, _, _, htasks, _⟩
  · exact SpanStep.of_eq htasks
  · obtain ⟨_, _, _, g4⟩ := planOf_shape o (natNow now) s.staticPlan orc.plan recs plan hrp
    refine TaskStepR.append TSpan.refl s _ recs htasks ?_
    intro r hr
    obtain ⟨n, _, p', _, a1, a2, _⟩ := g4 r hr
    refine ⟨a1, a2, ?_⟩
    intro q hq
    rw [p'] at hq
    obtain ⟨x, _, rfl⟩ := List.mem_map.mp hq
    exact ⟨_, _, _, rfl⟩

theorem provIngest_spanStep (s : Sys) (now : Time) (pc : Nat) (oid : Oid) (d : Nat) :
    SpanStep s (s.provIngestBlock now pc oid d).1 := by
  unfold provIngestBlock
  split
  · simp only
    generalize hr : s.cl.provisionIngest d oid = r
    obtain ⟨cl1, e1, pairs⟩ := r
    cases e1 with
    | some e => exact SpanStep.of_eq rfl
    | none =>
      simp only
      generalize hrecs : List.map (fun x : Mid × Tid => ({ id := x.2, duration := (match s.obs? oid with | some o => o.duration | none => 0), status := TStatus.scheduled } : TaskRec)) pairs = recs
      have hrec : ∀ r ∈ recs, Fresh r := by
        intro r hr'
        rw [← hrecs] at hr'
        obtain ⟨x, hx, rfl⟩ := List.mem_map.mp hr'
        exact ⟨rfl, rfl, by simp⟩
      generalize hs1 : ({ s with cl := cl1, tasks := s.tasks ++ recs } : Sys) = s1
      have e3 : s1.tasks = s.tasks ++ recs := by subst hs1; rfl
      have h1 : SpanStep s s1 := TaskStepR.append TSpan.refl s s1 recs e3 hrec
      refine h1.trans ?_
      apply SpanStep.foldl
      intro s2 x
      exact SpanStep.of_eq rfl
  · exact SpanStep.refl s

theorem allocTask_spanStep (s : Sys) (hpw : PW s) (now : Time) (t : Tid) (m : Mid) (preds : List Tid)
    (obs : Option Oid) (ing : Bool) (ret : Nat) :
    SpanStep s (s.allocTaskBlock now t m preds obs ing ret).1 := by
  rcases allocTaskBlock_cases s hpw now t m preds obs ing ret with
    ⟨_, e, _, h⟩ | ⟨_, _, h⟩ | ⟨_, _, h⟩ | ⟨_, _, e, _, h⟩ | ⟨_, _, _, h⟩
  · rw [h]; exact SpanStep.of_eq rfl
  · rw [h]
    exact (SpanStep.updTask s t (fun r => { r with status := .scheduled })
      (fun r => ⟨⟨rfl, rfl, rfl⟩, rfl, rfl, rfl, rfl, fun _ _ => rfl⟩)).of_tasks_eq rfl
  · rw [h]; exact SpanStep.refl s
  · rw [h]; exact SpanStep.of_eq rfl
  · rw [h]
    exact (SpanStep.updTask s t (fun r => { r with status := .finished })
      (fun r => ⟨⟨rfl, rfl, rfl⟩, rfl, rfl, rfl, rfl, fun _ _ => rfl⟩)).of_tasks_eq rfl

/-! ### `allocate_tasks` -/

theorem span_atStart (s : Sys) (now : Time) (pc : Nat) (oid : Oid) : SpanStep s (atStart s now pc oid) := by
  unfold atStart
  split
  · have h1 : SpanStep s (s.updPlan oid (fun p => { p with ast := some (natNow now) })) := SpanStep.of_eq rfl
    refine h1.trans ?_
    have h2 : ∀ S : Sys, ∀ l : List Tid, SpanStep S (l.foldl
        (fun (s : Sys) t => s.updTask t (fun r => { r with offset := natNow now })) S) := by
      intro S l
      apply SpanStep.foldl
      intro s1 t
      exact SpanStep.updTask s1 t _ (fun r => ⟨⟨rfl, rfl, rfl⟩, rfl, rfl, rfl, rfl, fun _ _ => rfl⟩)
    exact (h2 _ _).trans (SpanStep.of_eq rfl)
  · exact SpanStep.refl s

theorem span_processOne (now : Time) (oid : Oid) (st : PcsSt) (t : Tid) :
    SpanStep st.s (processOne now oid st t).s := by
  have hua : ∀ s1, UA st.s t s1 → SpanStep st.s s1 := by
    intro s1 h
    rcases h with rfl | ⟨mm, rfl⟩
    · exact SpanStep.refl _
    · exact SpanStep.updTask st.s t _ (fun r => span_updateAllocation r mm)
  rcases processOne_cases now oid st t with ⟨s1, h1, hs, _⟩ | ⟨s1, m, r, cross, h1, _, _, _, hs, _⟩
  · rw [hs]; exact hua s1 h1
  · rw [hs]
    refine (hua s1 h1).trans ?_
    have h2 : SpanStep s1 (s1.spawn (.allocTask t m cross (some oid) false 0) now).1 := SpanStep.of_eq rfl
    exact h2.trans (SpanStep.updTask _ t _ (fun r => ⟨⟨rfl, rfl, rfl⟩, rfl, rfl, rfl, rfl, fun _ _ => rfl⟩))

theorem span_processCurrentSchedule (a : Sys) (now : Time) (oid : Oid) (sched pairs : List (Tid × Mid)) :
    SpanStep a (processCurrentSchedule a now oid sched pairs).s := by
  unfold processCurrentSchedule
  simp only
  generalize ((dictKeys sched).mergeSort _) = l
  have : ∀ (l : List Tid) (st : PcsSt), SpanStep st.s (l.foldl (processOne now oid) st).s := by
    intro l
    induction l with
    | nil => intro st; exact SpanStep.refl _
    | cons x r ih => intro st; exact (span_processOne now oid st x).trans (ih _)
  exact this l { s := a, schedule := sched, pairs := pairs, curr := [] }

theorem span_allocTasksIter (a : Sys) (now : Time) (orc : Oracle) (oid : Oid)
    (sc pa : List (Tid × Mid)) (po : List Tid) : SpanStep a (a.allocTasksIter now orc oid sc pa po).1 := by
  have h1 : SpanStep a (a.updateCurrentPlan oid) := SpanStep.of_eq (updateCurrentPlan_core a oid).tasks
  have h3 : ∀ out, SpanStep a (atS3 (a.updateCurrentPlan oid) out oid) := fun out =>
    h1.trans (SpanStep.of_eq (atS3_tasks _ out oid))
  have hout := allocTasksIter_out a now orc oid sc pa po
  generalize a.allocTasksIter now orc oid sc pa po = r at hout ⊢
  cases hout with
  | noPlan _ => exact h1
  | algErr _ _ _ _ => exact h1
  | finish plan out _ _ _ _ _ _ => exact (h3 out).trans (SpanStep.of_eq rfl)
  | finishBad plan out _ _ _ _ _ _ => exact (h3 out).trans (SpanStep.of_eq rfl)
  | finishWait plan out _ _ _ _ _ => exact (h3 out).trans (SpanStep.of_eq rfl)
  | idle plan out _ _ _ _ => exact h3 out
  | alloc plan out y _ _ _ _ => exact (h3 out).trans (span_processCurrentSchedule _ now oid _ _)

theorem span_allocTasksBlock (s : Sys) (now : Time) (orc : Oracle) (pc : Nat)
    (oid : Oid) (sc pa : List (Tid × Mid)) (po : List Tid) (fn : Bool) :
    SpanStep s (s.allocTasksBlock now orc pc oid sc pa po fn).1 := by
  cases fn with
  | true => rw [allocTasksBlock_fin]; exact SpanStep.refl s
  | false =>
    rw [allocTasksBlock_eq]
    exact (span_atStart s now pc oid).trans (span_allocTasksIter _ now orc oid sc pa po)

/-! ### every block but the task body's -/

theorem block_spanStep (s : Sys) (hpw : PW s) (p : Proc) (orc : Oracle) (h3 : p.k.tag ≠ "doWork") :
    SpanStep s (s.block p orc).1 := by
  cases hk : p.k with
  | schedLoop =>
    rw [block_schedLoop orc hk]; exact schedLoop_spanStep _ _ _
  | provIngest o d =>
    rw [block_provIngest orc hk]; exact provIngest_spanStep _ _ _ _ _
  | allocTask t m preds obs ing ret =>
    rw [block_allocTask orc hk]; exact allocTask_spanStep s hpw _ _ _ _ _ _ _
  | doWork t m preds ph tot => rw [hk] at h3; exact absurd rfl h3
  | allocTasks o sc pa po fn =>
    rw [block_allocTasks orc hk]; exact span_allocTasksBlock _ _ _ _ _ _ _ _ _
  | _ =>
    exact SpanStep.of_eq (block_tasks s p orc (by rw [hk]; simp [PK.tag]) (by rw [hk]; simp [PK.tag])
      (by rw [hk]; simp [PK.tag]) (by rw [hk]; simp [PK.tag]) (by rw [hk]; simp [PK.tag]))

end Sys
end Topsim
