/-
  Live4 — time diverges along every run of the simulator (no Zeno behaviour, the kernel never gets
  stuck inside an instant), and every live process is eventually resumed.

  The measure is a multiset of naturals, one per live process due before the horizon `T`:
  `5 * (remaining instants) + rank of the kind` for the unit-step kinds (a block creates processes of
  strictly smaller rank only: `NewKind`), `3 - phase` for a task body (at most three blocks, with
  arbitrary non-negative waits).  One block of a process due before `T` replaces its element by
  finitely many smaller ones: the multiset decreases in the Dershowitz–Manna order, which is
  well-founded (Mathlib).  No bound on the number of processes a block creates is needed.
-/
import TopsimProofs.Live3
import TopsimProofs.Preced15
import Mathlib.Data.Multiset.DershowitzManna

namespace Topsim

open KState Sys

/-! ### remaining instants -/

/-- the number of whole instants from `t` up to the horizon `T` -/
def liveDT (T : Nat) (t : Time) : Nat := ((T : Int) - t.floor).toNat

theorem liveDT_pos {T : Nat} {t : Time} (h : t < ((T : Nat) : Time)) : 1 ≤ liveDT T t := by
  have h1 : t.floor < (T : Int) := Rat.floor_lt_iff.mpr (by rw [Rat.intCast_natCast]; exact h)
  unfold liveDT; omega

theorem liveDT_succ {T : Nat} {t : Time} (h : t < ((T : Nat) : Time)) : liveDT T (t + 1) < liveDT T t := by
  have h1 : t.floor < (T : Int) := Rat.floor_lt_iff.mpr (by rw [Rat.intCast_natCast]; exact h)
  unfold liveDT
  rw [Rat.floor_add_one]
  omega

/-! ### the weight of a process -/

def liveTagRank (t : String) : Nat :=
  if t = "telescope" then 4
  else if t = "allocIngest" then 3
  else if t = "provIngest" then 2
  else if t = "allocTask" then 1
  else if t = "schedLoop" then 3
  else if t = "allocTasks" then 2
  else if t = "bufferLoop" then 1
  else 0

def PK.livePhase : PK → Nat
  | .doWork _ _ _ ph _ => ph
  | _ => 0

/-- the weight of a live process of kind `k` due at `w` -/
def liveKval (T : Nat) (k : PK) (w : Time) : Nat :=
  if k.isDoWork = true then 3 - k.livePhase else 5 * liveDT T w + liveTagRank k.tag

theorem live_isDoWork_tag {k : PK} : k.isDoWork = true ↔ k.tag = "doWork" := by
  cases k <;> simp [PK.isDoWork, PK.tag]

/-- a block creates processes of smaller weight only -/
theorem liveKval_new {T : Nat} {k k' : PK} {w : Time} (h : NewKind k k') (hw : w < ((T : Nat) : Time)) :
    liveKval T k' w < liveKval T k w := by
  have hd := liveDT_pos hw
  cases k <;> simp only [NewKind] at h
  · obtain ⟨o, rfl⟩ := h
    simp [liveKval, PK.isDoWork, PK.tag, liveTagRank]
  · obtain ⟨o, rfl⟩ := h
    simp [liveKval, PK.isDoWork, PK.tag, liveTagRank]
  · rcases h with rfl | rfl <;> simp [liveKval, PK.isDoWork, PK.tag, liveTagRank]
  · rcases h with ⟨d, rfl⟩ | rfl <;> simp [liveKval, PK.isDoWork, PK.tag, liveTagRank]
  · obtain ⟨t, m, rfl⟩ := h
    simp [liveKval, PK.isDoWork, PK.tag, liveTagRank]
  · subst h
    simp [liveKval, PK.isDoWork, PK.tag, liveTagRank, PK.livePhase]
    omega
  · obtain ⟨t, m, c, rfl⟩ := h
    simp [liveKval, PK.isDoWork, PK.tag, liveTagRank]

/-- the process that ran weighs less afterwards -/
theorem liveKval_block {T : Nat} {s : Sys} (hpw : PW s) (p : Proc) (orc : Oracle) (d : Time)
    (hy : (s.block p orc).2.2 = .timeout d) (hlt : p.wake < ((T : Nat) : Time)) :
    liveKval T (s.block p orc).2.1 (p.wake + d) < liveKval T p.k p.wake := by
  cases hk : p.k.isDoWork with
  | false =>
    have hu := block_unit s p orc hk
    rw [hy] at hu
    simp only [Yield.unit] at hu
    subst hu
    have htag := block_tag s hpw p orc
    have hk' : (s.block p orc).2.1.isDoWork = false := by
      cases h : (s.block p orc).2.1.isDoWork with
      | false => rfl
      | true =>
        have := live_isDoWork_tag.mp h
        rw [htag] at this
        rw [live_isDoWork_tag.mpr this] at hk; cases hk
    unfold liveKval
    rw [hk, hk', htag]
    simp only [Bool.false_eq_true, if_false]
    have := liveDT_succ hlt
    omega
  | true =>
    cases hpk : p.k with
    | doWork t m preds ph tot =>
      rw [block_doWork orc hpk] at hy ⊢
      have hs := doWorkBlock_shape s p.wake orc t m preds ph tot
      generalize s.doWorkBlock p.wake orc t m preds ph tot = X at hy hs
      cases hs with
      | raised _ _ => simp at hy
      | wait w h0 _ _ =>
        subst h0
        simp [liveKval, PK.isDoWork, PK.livePhase]
      | start r mm dur tot' hph _ _ =>
        simp only [liveKval, PK.isDoWork, PK.livePhase, if_true]
        omega
      | finish _ => simp at hy
    | _ => rw [hpk] at hk; simp [PK.isDoWork] at hk

/-- the element of a process in the measure: live processes due before `T` count -/
def livePel (T : Nat) (p : Proc) : Option Nat :=
  if p.alive = true ∧ p.wake < ((T : Nat) : Time) then some (liveKval T p.k p.wake) else none

/-- the measure -/
def liveMu (T : Nat) (s : Sys) : Multiset Nat := ((s.procs.filterMap (livePel T) : List Nat) : Multiset Nat)

/-! ### list bookkeeping -/

theorem live_split {l : List Proc} (hn : (l.map (·.pid)).Nodup) {p : Proc} (hp : p ∈ l) :
    ∃ l1 l2, l = l1 ++ p :: l2 ∧ (∀ q ∈ l1, q.pid ≠ p.pid) ∧ (∀ q ∈ l2, q.pid ≠ p.pid) := by
  obtain ⟨l1, l2, rfl⟩ := List.append_of_mem hp
  refine ⟨l1, l2, rfl, ?_, ?_⟩
  · intro q hq e
    rw [List.map_append, List.map_cons, List.nodup_append] at hn
    exact hn.2.2 q.pid (List.mem_map_of_mem hq) p.pid List.mem_cons_self e
  · intro q hq e
    rw [List.map_append, List.map_cons, List.nodup_append] at hn
    have := (List.nodup_cons.mp hn.2.1).1
    exact this (e ▸ List.mem_map_of_mem hq)

theorem live_map_upd_id (l : List Proc) (pid : Nat) (f : Proc → Proc) (h : ∀ q ∈ l, q.pid ≠ pid) :
    l.map (fun q => if q.pid = pid then f q else q) = l := by
  have : ∀ q ∈ l, (fun q => if q.pid = pid then f q else q) q = id q := by
    intro q hq
    simp [h q hq]
  rw [List.map_congr_left this, List.map_id]

/-! ### one block decreases the measure -/

theorem liveMu_resume_lt {T : Nat} {s : Sys} {pid : Nat} {p : Proc} (orc : Oracle) (hpw : PW s)
    (hpw' : PW (s.resume pid orc).1) (hp : s.proc? pid = some p) (ha : p.alive = true)
    (hlt : p.wake < ((T : Nat) : Time))
    (hst : (if p.k = .telescope then ((natNow p.wake : Nat) : Time) else p.wake) = p.wake) :
    Multiset.IsDershowitzMannaLT (liveMu T (s.resume pid orc).1) (liveMu T s) := by
  obtain ⟨hpm, hpid⟩ := proc?_some hp
  obtain ⟨new, hnew, hprop⟩ := block_newp s p orc
  rw [hst] at hprop
  obtain ⟨e1, _, _⟩ := il_resume_procs_eq s pid orc p hp ha
  obtain ⟨l1, l2, hl, hl1, hl2⟩ := live_split hpw.nodup hpm
  rw [hpid] at hl1 hl2
  -- the new processes have other pids
  have hnd : ((s.block p orc).1.procs.map (·.pid)).Nodup := by
    have := hpw'.nodup
    rw [e1, live_updProc_map_pid _ _ _ (fun q => fin_pid _ _ _ q)] at this
    exact this
  have hn3 : ∀ q ∈ new, q.pid ≠ pid := by
    intro q hq e
    rw [hnew, List.map_append, List.nodup_append] at hnd
    exact hnd.2.2 p.pid (List.mem_map_of_mem hpm) q.pid (List.mem_map_of_mem hq) (by rw [hpid, e])
  -- the table after the block
  have hprocs' : (s.resume pid orc).1.procs =
      l1 ++ fin (s.block p orc).2.1 (s.block p orc).2.2 p.wake p :: (l2 ++ new) := by
    rw [e1]
    show (s.block p orc).1.procs.map _ = _
    rw [hnew, hl]
    simp only [List.map_append, List.map_cons, List.append_assoc, List.cons_append]
    rw [live_map_upd_id l1 pid _ hl1, live_map_upd_id l2 pid _ hl2, live_map_upd_id new pid _ hn3,
      if_pos hpid]
  have hpel : livePel T p = some (liveKval T p.k p.wake) := by
    unfold livePel; rw [if_pos ⟨ha, hlt⟩]
  -- the three parts
  refine ⟨((l1.filterMap (livePel T) ++ l2.filterMap (livePel T) : List Nat) : Multiset Nat),
    (((livePel T (fin (s.block p orc).2.1 (s.block p orc).2.2 p.wake p)).toList ++ new.filterMap (livePel T) :
      List Nat) : Multiset Nat),
    (([liveKval T p.k p.wake] : List Nat) : Multiset Nat), ?_, ?_, ?_, ?_⟩
  · simp
  · unfold liveMu
    rw [hprocs', Multiset.coe_add]
    apply Multiset.coe_eq_coe.mpr
    rw [List.filterMap_append, List.filterMap_cons, List.filterMap_append]
    rw [List.append_assoc]
    apply (List.perm_append_left_iff _).mpr
    refine List.Perm.trans ?_ (List.perm_append_comm_assoc _ _ _)
    cases livePel T (fin (s.block p orc).2.1 (s.block p orc).2.2 p.wake p) <;> simp
  · unfold liveMu
    rw [hl, Multiset.coe_add]
    apply Multiset.coe_eq_coe.mpr
    rw [List.filterMap_append, List.filterMap_cons, hpel]
    simp only
    exact List.perm_middle.trans (List.perm_append_singleton _ _).symm
  · intro y hy
    refine ⟨liveKval T p.k p.wake, by simp, ?_⟩
    rw [Multiset.mem_coe, List.mem_append] at hy
    rcases hy with hy | hy
    · -- the process that ran
      rw [Option.mem_toList] at hy
      unfold livePel at hy
      split at hy
      · rename_i hcond
        obtain ⟨_, d, hd⟩ := (il_fin_alive_iff _ _ _ _).mp hcond.1
        simp only [Option.some.injEq] at hy
        rw [← hy, fin_k]
        have hwk : (fin (s.block p orc).2.1 (s.block p orc).2.2 p.wake p).wake = p.wake + d := by
          rw [hd]; rfl
        rw [hwk]
        exact liveKval_block hpw p orc d hd hlt
      · simp at hy
    · -- a new process
      obtain ⟨q, hq, hqy⟩ := List.mem_filterMap.mp hy
      obtain ⟨_, _, hqw, hqk⟩ := hprop q hq
      unfold livePel at hqy
      split at hqy
      · simp only [Option.some.injEq] at hqy
        rw [← hqy, hqw]
        exact liveKval_new hqk hlt
      · cases hqy

/-! ### (A) time diverges -/

theorem live_peek_le {k : SimState} {e : HEntry} (hpk : k.peek = some e) :
    ∀ x ∈ k.heap, e.time ≤ x.time := by
  intro x hx
  have := (peek_spec k e hpk).2 x hx
  rw [lt_false_iff] at this
  have h1 : ¬ x.time < e.time := fun h => this (Or.inl h)
  exact Rat.not_lt.mp h1

/-- **(A)** the clock passes every bound, unless a block raises -/
theorem live_time_div (env : SimEnv) (s0 : Sys) (hw : Sys.WFConfig s0) : TimeDiv env s0 := by
  intro n T
  suffices H : ∀ M : Multiset Nat, ∀ n, liveMu T (simAt env s0 n).st = M →
      ∃ n', n ≤ n' ∧ ((simAt env s0 n').st.crashed ≠ none ∨
        ∀ x ∈ (simAt env s0 n').heap, ((T : Nat) : Time) ≤ x.time) from H _ n rfl
  intro M
  induction M using (Multiset.wellFounded_isDershowitzMannaLT (α := Nat)).induction with
  | _ M ih =>
    intro n hM
    by_cases hc : (simAt env s0 n).st.crashed = none
    swap
    · exact ⟨n, Nat.le_refl _, Or.inl hc⟩
    by_cases hall : ∀ x ∈ (simAt env s0 n).heap, ((T : Nat) : Time) ≤ x.time
    · exact ⟨n, Nat.le_refl _, Or.inr hall⟩
    have hreach := simAt_reach env s0 n
    obtain ⟨k1, hs⟩ := live_step_exists hw hreach
    obtain ⟨e, p, hpk, hpp, ha, het, _, hst⟩ := live_step_resume hw hreach hc hs
    have hinv := hreach.l3inv hw
    have hlt : p.wake < ((T : Nat) : Time) := by
      rw [← het]
      apply Rat.not_le.mp
      intro hle
      exact hall (fun x hx => Rat.le_trans hle (live_peek_le hpk x hx))
    have hspawn : (if p.k = .telescope then ((natNow p.wake : Nat) : Time) else p.wake) = p.wake := by
      split
      · rename_i hk
        obtain ⟨m, hm⟩ := hinv.heap.telInt p (proc?_some hpp).1 hk
        rw [hm, il_natNow_natCast]
      · rfl
    have hpw' : PW ((simAt env s0 n).st.resume e.pid (env.oracle (simAt env s0 n).st)).1 := by
      rw [← hst]
      exact ((SimReach.step _ _ hreach hs).l3inv hw).sinv.pw
    have hdec := liveMu_resume_lt (T := T) (env.oracle (simAt env s0 n).st) hinv.sinv.pw hpw' hpp ha hlt hspawn
    rw [← hst, ← simAt_succ_of_step hs, hM] at hdec
    obtain ⟨n', hn', hres⟩ := ih _ hdec (n + 1) rfl
    exact ⟨n', by omega, hres⟩

/-! ### (C) every live process is eventually resumed -/

/-- **(C)** every live process is eventually resumed, and its record is untouched until then -/
theorem live_next_resume (env : SimEnv) (s0 : Sys) (hw : Sys.WFConfig s0) (hnr : NoRaise env s0)
    (n pid : Nat) (p : Proc) (hp : (simAt env s0 n).st.proc? pid = some p) (ha : p.alive = true) :
    ∃ n' e, n ≤ n' ∧ (simAt env s0 n').peek = some e ∧ e.pid = pid ∧ e.time = p.wake ∧
      (simAt env s0 n').st.proc? pid = some p ∧
      ∀ m, n ≤ m → m ≤ n' → (simAt env s0 m).st.proc? pid = some p := by
  by_contra hcon
  -- the record stays as it is for ever
  have hall : ∀ m, n ≤ m → ∀ j, n ≤ j → j ≤ m → (simAt env s0 j).st.proc? pid = some p := by
    intro m hm
    induction m with
    | zero =>
      intro j hj1 hj2
      have : j = n := by omega
      subst this; exact hp
    | succ m ih =>
      by_cases e : n = m + 1
      · intro j hj1 hj2
        have : j = n := by omega
        subst this; exact hp
      · have ih' := ih (by omega)
        intro j hj1 hj2
        by_cases ej : j = m + 1
        swap
        · exact ih' j hj1 (by omega)
        subst ej
        have hQ := ih' m (by omega) (Nat.le_refl _)
        have hreach := simAt_reach env s0 m
        obtain ⟨k1, hs⟩ := live_step_exists hw hreach
        obtain ⟨ev, p', hpk, hpp, _, het, _, hst⟩ := live_step_resume hw hreach (hnr m) hs
        rw [simAt_succ_of_step hs, hst]
        by_cases hev : ev.pid = pid
        · exfalso
          apply hcon
          rw [hev, hQ] at hpp
          cases hpp
          exact ⟨m, ev, by omega, hpk, hev, het, hQ, ih'⟩
        · rcases resume_proc? (simAt env s0 m).st ev.pid (env.oracle (simAt env s0 m).st) pid p hQ with h | ⟨h, _⟩
          · exact h
          · exact absurd h.symm hev
  -- a horizon beyond the wake time of `p`
  have hT : p.wake < (((p.wake.floor + 1).toNat : Nat) : Time) := by
    have h1 := Rat.lt_floor_add_one p.wake
    have h2 : (((p.wake.floor + 1 : Int)) : Rat) ≤ (((p.wake.floor + 1).toNat : Nat) : Rat) := by
      rw [← Rat.intCast_natCast]
      apply Rat.intCast_le_intCast.mpr
      omega
    apply Rat.not_le.mp
    intro h3
    exact Rat.not_le.mpr h1 (Rat.le_trans h2 h3)
  obtain ⟨n', hn', hres⟩ := live_time_div env s0 hw n (p.wake.floor + 1).toNat
  rcases hres with hres | hres
  · exact hres (hnr n')
  · have hQ := hall n' hn' n' hn' (Nat.le_refl _)
    have hinv := (simAt_reach env s0 n').l3inv hw
    obtain ⟨x, hx, _, hxt⟩ := hinv.heap.live p (proc?_some hQ).1 ha
    have := hres x hx
    rw [hxt] at this
    exact absurd hT (Rat.not_lt.mpr this)

end Topsim
