/-
  BoundB5 — C05, the numeric clause for BatchProcessing: idle states (no worker process alive), part 2.
    * `boundB_idle_enabled`: an idle state that is not at `is_finished()` has an enabled poller
      (`Sys.BoundBEn`): if a reservation exists its holder is in the scheduler's queue, so in
      `hot.scheduled`, so its `allocate_tasks` process is running; if none exists the case analysis is
      that of the queue algorithm (Bound7b);
    * `boundB_enabled_fires`: the block of an enabled poller in an idle state, due at or after the
      latest planned start, makes a stage happen.  For an `allocate_tasks` process the third outcome of
      `LivePartsB.ats_progress` ("`_provision_resources` returns False") is excluded: the observation
      holds a reservation (`_provision_resources` returns True at once), or no reservation exists — then
      every machine is available, the counter is 0 and a feasible configuration's request is granted
      (`lb_provision_possible`);
    * `boundB_enabled_persists`: a block of another process in an idle state in which no stage happens
      leaves an enabled poller enabled — such a block leaves the reservations as they are.
-/
import TopsimProofs.BoundB4

namespace Topsim

open KState Sys

section
variable {env : SimEnv} {s0 : Sys}

/-- an observation in `hot.scheduled` is not in `hot.finished` -/
theorem boundB_sched_not_fin (C : LiveCfgB env s0) (K : LiveKernel env s0) (n : Nat) {o : Oid}
    (hsch : o ∈ (simAt env s0 n).st.buf.hot.scheduled) : o ∉ (simAt env s0 n).st.buf.hot.finished := by
  intro hf
  have hcnt := (live_bufi_B C K n).cnt o
  unfold locCount bufList at hcnt
  have c1 : 0 < (simAt env s0 n).st.buf.hot.scheduled.count o := List.count_pos_iff.mpr hsch
  have c2 : 0 < (simAt env s0 n).st.buf.hot.finished.count o := List.count_pos_iff.mpr hf
  simp only [List.count_append] at hcnt
  omega

/-- **An idle state that is not at `is_finished()` has an enabled poller**, BatchProcessing. -/
theorem boundB_idle_enabled (C : LiveCfgB env s0) (K : LiveKernel env s0) (n : Nat)
    (hq : (simAt env s0 n).st.NoWorker) (hnf : (simAt env s0 n).st.isFinished = false) :
    ∃ p ∈ (simAt env s0 n).st.procs, (simAt env s0 n).st.BoundBEn p := by
  have Pt := liveParts_B C K
  have hfin := boundB_id_fin C K n hq
  cases hI : (simAt env s0 n).st.cl.idle with
  | cons x rest =>
    -- a reservation exists: its holder's `allocate_tasks` process is running
    obtain ⟨o, l⟩ := x
    have hkey : o ∈ dictKeys (simAt env s0 n).st.cl.idle := by rw [hI]; simp [dictKeys]
    have hsch := Pt.queue_sched n (Pt.idle_queue n o hkey)
    obtain ⟨q, hqm, hqa, sc, pa, po, hqk⟩ := Pt.sched_has_proc n hsch
    have hprov : (simAt env s0 n).st.cl.isProvisioned o = true := by
      unfold Cluster.isProvisioned dictHas
      rw [hI]
      simp [dictGet]
    exact ⟨q, hqm, hqa, Or.inr (Or.inr ⟨o, sc, pa, po, hqk, boundB_sched_not_fin C K n hsch, Or.inr hprov⟩)⟩
  | nil =>
    by_cases hA : ∃ ob ∈ (simAt env s0 n).st.obs, ob.ast = none
    · -- (A) some observation has not been admitted: the telescope is alive
      obtain ⟨obA, hobA, hastA⟩ := hA
      obtain ⟨hobA?, _⟩ := live_obs?_mem_B C K n hobA
      have hw := (sim_otAst env s0 C.hw _ (K.reach n)).wait obA.id obA hobA? hastA
      obtain ⟨q, hqm, hqk, hqa⟩ := Pt.tel_alive n ⟨obA, hobA, by rw [hw]; simp⟩
      exact ⟨q, hqm, hqa, Or.inl ⟨hqk, ⟨obA, hobA, hastA⟩, hI⟩⟩
    · have hall : ∀ ob ∈ (simAt env s0 n).st.obs, ob.status = .finished :=
        fun ob hob => hfin ob hob (fun h => hA ⟨ob, hob, h⟩)
      by_cases hB1 : ∃ ob ∈ (simAt env s0 n).st.obs, ¬ Sys.PQ ob.id (simAt env s0 n).st
      · -- (B1) some observation has not been handed over: it is stored, the scheduler loop is alive
        obtain ⟨obB, hobB, hnq⟩ := hB1
        have hstored : obB.id ∈ (simAt env s0 n).st.buf.hot.stored := by
          rcases Pt.finished_stored n hobB (hall obB hobB) (fun q' hq' hqa' tl hk' =>
            (hq q' hq' hqa').2.2.1 (by rw [hk']; rfl)) with h | h
          · exact h
          · exact absurd h hnq
        obtain ⟨q, hq?, hqk, hqa⟩ := Pt.sched_alive n
        exact ⟨q, (proc?_some hq?).1, hqa, Or.inr (Or.inl ⟨hqk, List.ne_nil_of_mem hstored⟩)⟩
      · by_cases hB2 : ∃ ob ∈ (simAt env s0 n).st.obs, ¬ Sys.PRm ob.id (simAt env s0 n).st
        · -- (B2) some observation has not been removed: its `allocate_tasks` process is alive
          obtain ⟨obB, hobB, hnr⟩ := hB2
          have hpq : Sys.PQ obB.id (simAt env s0 n).st :=
            Classical.byContradiction (fun h => hB1 ⟨obB, hobB, h⟩)
          have hsch : obB.id ∈ (simAt env s0 n).st.buf.hot.scheduled := by
            rcases hpq with h | h
            · exact h
            · exact absurd h hnr
          obtain ⟨q, hqm, hqa, sc, pa, po, hqk⟩ := Pt.sched_has_proc n hsch
          exact ⟨q, hqm, hqa, Or.inr (Or.inr ⟨obB.id, sc, pa, po, hqk, hnr, Or.inl hI⟩)⟩
        · -- (B3) everything removed: the run is at `is_finished()`
          exfalso
          have hrm : ∀ ob ∈ (simAt env s0 n).st.obs, ob.id ∈ (simAt env s0 n).st.buf.hot.finished := by
            intro ob hob
            exact Classical.byContradiction (fun h => hB2 ⟨ob, hob, h⟩)
          have hqueue : (simAt env s0 n).st.queue = [] := by
            cases hqe : (simAt env s0 n).st.queue with
            | nil => rfl
            | cons o rest =>
              exfalso
              have hoq : o ∈ (simAt env s0 n).st.queue := by rw [hqe]; simp
              have hsch := Pt.queue_sched n hoq
              have hid := live_buf_ids_B C K n (Or.inr (Or.inl hsch))
              obtain ⟨ob, hob, hido, _⟩ := live_obs_rec_B C K n hid
              have hf := hrm ob hob
              rw [hido] at hf
              exact boundB_sched_not_fin C K n hsch hf
          have := Pt.finished n hq (fun ob hob => ⟨hall ob hob, hrm ob hob⟩) hqueue
          rw [hnf] at this
          cases this

/-- in an idle state the block of a running `allocate_tasks` process whose observation holds a
reservation, or when no reservation exists, removes its observation or starts a task -/
theorem boundB_ats_fires (C : LiveCfgB env s0) (K : LiveKernel env s0) (n : Nat)
    {e : HEntry} {p : Proc}
    (hpk : (simAt env s0 n).peek = some e) (hpp : (simAt env s0 n).st.proc? e.pid = some p)
    (ha : p.alive = true) (hq : (simAt env s0 n).st.NoWorker)
    {o : Oid} {sc pa : List (Tid × Mid)} {po : List Tid} (hk : p.k = .allocTasks o sc pa po false)
    (hres : (simAt env s0 n).st.cl.idle = [] ∨ (simAt env s0 n).st.cl.isProvisioned o = true) :
    o ∈ (simAt env s0 (n + 1)).st.buf.hot.finished ∨
    (∃ ob ∈ s0.obs, ob.id = o ∧ ∃ node ∈ ob.wf.topo,
      ¬ Sys.PAT o node (simAt env s0 n).st ∧ Sys.PAT o node (simAt env s0 (n + 1)).st) := by
  have Pt := liveParts_B C K
  have hfin := boundB_id_fin C K n hq
  obtain ⟨f1, f2, _, f4, _⟩ := Pt.free n hq hfin
  obtain ⟨parts, minPer, split, halg⟩ := C.alg
  obtain ⟨hparts, hfnone, hfsome⟩ := Sys.lb_feasible_batch C.feas halg C.minOk
  have hq' : ∀ q' ∈ (simAt env s0 n).st.procs, q'.alive = true →
      q'.k.tag ≠ "allocTask" ∧ q'.k.tag ≠ "doWork" :=
    fun q' hq1 hq2 => ⟨(hq q' hq1 hq2).2.2.2.1, (hq q' hq1 hq2).2.2.2.2⟩
  have hsch := Pt.ats_sched n p (proc?_some hpp).1 ha o sc pa po hk
  have hnr := boundB_sched_not_fin C K n hsch
  rcases Pt.ats_progress n hpk hpp ha hk hnr ⟨f1, f2⟩ hq' halg with h | h | ⟨h3, _⟩
  · exact Or.inl h
  · exact Or.inr h
  · exfalso
    rcases hres with hI | hprov
    · have hid := live_buf_ids_B C K n (Or.inr (Or.inl hsch))
      obtain ⟨o0, ho0, hido0⟩ := List.mem_map.mp hid
      have hav : (simAt env s0 n).st.cl.available.length = s0.machines.length := by
        have : (simAt env s0 n).st.cl.idleAll = [] := by unfold Cluster.idleAll; rw [hI]; rfl
        rw [this] at f4
        simpa using f4
      have hM : (simAt env s0 n).st.cl.machines.length = s0.machines.length := by
        rw [sim_machines env s0 C.hw _ (K.reach n), List.length_map]
      have hnp : (simAt env s0 n).st.cl.numProv = 0 := by
        have := Pt.numProv n
        rw [hI] at this
        simp at this
        omega
      refine Sys.lb_provision_possible _ parts minPer split o s0.machines.length hI hnp hav hM hparts
        hfnone ?_ h3
      intro sp e'
      have := hfsome sp e' o0 ho0
      rw [hido0] at this
      exact this
    · unfold Alg.provisionResources at h3
      rw [if_pos hprov] at h3
      injection h3 with h3
      injection h3 with _ h4
      cases h4

/-- **The block of an enabled poller in an idle state, after the latest planned start, makes a
stage happen**, BatchProcessing. -/
theorem boundB_enabled_fires (C : LiveCfgB env s0) (K : LiveKernel env s0) (n : Nat)
    {e : HEntry} {p : Proc}
    (hpk : (simAt env s0 n).peek = some e) (hpp : (simAt env s0 n).st.proc? e.pid = some p)
    (hen : (simAt env s0 n).st.BoundBEn p) (hq : (simAt env s0 n).st.NoWorker)
    (hdue : ((boundLatest s0 : Nat) : Time) ≤ p.wake) :
    boundV s0 (simAt env s0 n).st < boundV s0 (simAt env s0 (n + 1)).st := by
  have Pt := liveParts_B C K
  have hfin := boundB_id_fin C K n hq
  have hmono : BoundMono s0 (simAt env s0 n).st (simAt env s0 (n + 1)).st :=
    boundB_run_mono C K (Nat.le_succ n)
  obtain ⟨ha, hdis⟩ := hen
  rcases hdis with ⟨hk, hex, hI⟩ | ⟨hk, hst⟩ | ⟨o, sc, pa, po, hk, hnr, hres⟩
  · -- the telescope admits an observation
    have hdue' : ∀ ob ∈ (simAt env s0 n).st.obs, ob.ast = none → ((ob.est : Nat) : Time) ≤ p.wake := by
      intro ob hob _
      have hm : ob.stat ∈ s0.obs.map Obs.stat := by
        rw [← live_keep0_B C n]; exact List.mem_map_of_mem hob
      obtain ⟨o0, ho0, hst⟩ := List.mem_map.mp hm
      have hest : ob.est = o0.est := ((Sys.ot_stat_fields hst).2.1).symm
      have hle : ob.est ≤ boundLatest s0 := by rw [hest]; exact bound_id_le_latest ho0
      have : ((ob.est : Nat) : Time) ≤ ((boundLatest s0 : Nat) : Time) := by exact_mod_cast hle
      exact Rat.le_trans this hdue
    obtain ⟨o', ob0, ob1, a, h0, h0n, h1, h1a⟩ := Pt.admits n hpk hpp ha hk hq hfin hex hdue' hI
    have hid' := live_obs?_ids_B C n h0
    obtain ⟨obc, hobc, hidc⟩ := List.mem_map.mp hid'
    have hidc' : obc.id = o' := hidc
    have hflip : Sys.PAst obc.id (simAt env s0 (n + 1)).st := by
      rw [hidc']; exact ⟨ob1, a, h1, h1a⟩
    have hbefore : ¬ Sys.PAst obc.id (simAt env s0 n).st := by
      rw [hidc']
      rintro ⟨ob2, a2, h2, h3⟩
      rw [h0] at h2
      cases h2
      rw [h0n] at h3
      cases h3
    have := bound_v_add_ast hmono hobc hbefore hflip
    omega
  · -- the scheduler loop hands an observation over
    obtain ⟨o', ho', h1, h2⟩ := Pt.schedLoop_pops n hpk hpp ha hk hst
    have hid' := live_buf_ids_B C K n (Or.inl ho')
    obtain ⟨obc, hobc, hidc⟩ := List.mem_map.mp hid'
    have hidc' : obc.id = o' := hidc
    have := bound_v_add_q hmono hobc (by rw [hidc']; exact h1) (by rw [hidc']; exact h2)
    omega
  · -- the `allocate_tasks` process removes its observation or starts a task
    rcases boundB_ats_fires C K n hpk hpp ha hq hk hres with h | ⟨ob, hob, hid, node, hnode, h1, h2⟩
    · have hid' := live_buf_ids_B C K (n + 1) (Or.inr (Or.inr h))
      obtain ⟨obc, hobc, hidc⟩ := List.mem_map.mp hid'
      have hidc' : obc.id = o := hidc
      have hb : ¬ Sys.PRm obc.id (simAt env s0 n).st := by rw [hidc']; exact hnr
      have hy : Sys.PRm obc.id (simAt env s0 (n + 1)).st := by rw [hidc']; exact h
      have := bound_v_add_rm hmono hobc hb hy
      omega
    · have := bound_v_add_at hmono hob hnode (by rw [hid]; exact h1) (by rw [hid]; exact h2)
      have := boundWAT_pos s0 ob node
      omega

/-- **In an idle state, a block in which no stage happens leaves the reservations as they are.** -/
theorem boundB_idle_keep (C : LiveCfgB env s0) (K : LiveKernel env s0) (n : Nat)
    (hq : (simAt env s0 n).st.NoWorker)
    (hV : boundV s0 (simAt env s0 (n + 1)).st = boundV s0 (simAt env s0 n).st) :
    (simAt env s0 (n + 1)).st.cl.idle = (simAt env s0 n).st.cl.idle := by
  have Pt := liveParts_B C K
  have hfin := boundB_id_fin C K n hq
  have hnf := bound_v_eq_noflip (boundB_run_mono C K (Nat.le_succ n)) hV
  obtain ⟨e, p, hpk, hpp, ha, _⟩ := live_step_B C K n
  by_cases hk : ∃ o sc pa po, p.k = .allocTasks o sc pa po false
  · obtain ⟨o, sc, pa, po, hk⟩ := hk
    obtain ⟨f1, f2, _, _, _⟩ := Pt.free n hq hfin
    obtain ⟨parts, minPer, split, halg⟩ := C.alg
    have hq' : ∀ q' ∈ (simAt env s0 n).st.procs, q'.alive = true →
        q'.k.tag ≠ "allocTask" ∧ q'.k.tag ≠ "doWork" :=
      fun q' hq1 hq2 => ⟨(hq q' hq1 hq2).2.2.2.1, (hq q' hq1 hq2).2.2.2.2⟩
    have hsch := Pt.ats_sched n p (proc?_some hpp).1 ha o sc pa po hk
    have hnr := boundB_sched_not_fin C K n hsch
    rcases Pt.ats_progress n hpk hpp ha hk hnr ⟨f1, f2⟩ hq' halg with
      h | ⟨ob, hob, hid, node, hnode, h1, h2⟩ | ⟨_, h3⟩
    · exfalso
      have hid' := live_buf_ids_B C K (n + 1) (Or.inr (Or.inr h))
      obtain ⟨obc, hobc, hidc⟩ := List.mem_map.mp hid'
      have hidc' : obc.id = o := hidc
      have := (hnf obc hobc).2.2.1 (by rw [hidc']; exact h)
      rw [hidc'] at this
      exact hnr this
    · exfalso
      have := (hnf ob hob).2.2.2 node hnode (by rw [hid]; exact h2)
      rw [hid] at this
      exact h1 this
    · rw [h3]
  · exact Pt.idle_keep n hpk hpp ha hq (fun o sc pa po h => hk ⟨o, sc, pa, po, h⟩)

/-- **A block of another process in an idle state in which no stage happens leaves an enabled poller
enabled**, BatchProcessing. -/
theorem boundB_enabled_persists (C : LiveCfgB env s0) (K : LiveKernel env s0) (n : Nat)
    {e : HEntry} {p : Proc}
    (hpk : (simAt env s0 n).peek = some e) (hp : p ∈ (simAt env s0 n).st.procs) (hne : p.pid ≠ e.pid)
    (hen : (simAt env s0 n).st.BoundBEn p) (hq : (simAt env s0 n).st.NoWorker)
    (hV : boundV s0 (simAt env s0 (n + 1)).st = boundV s0 (simAt env s0 n).st) :
    p ∈ (simAt env s0 (n + 1)).st.procs ∧ (simAt env s0 (n + 1)).st.BoundBEn p := by
  obtain ⟨e', p', hpk', hpp, ha, _, _, _, hst⟩ := live_step_B C K n
  have hee : e' = e := by rw [hpk] at hpk'; exact (Option.some.inj hpk').symm
  subst hee
  have hpw := (live_sinv_B C K n).pw
  obtain ⟨_, _, m3⟩ := il_resume_procs_mem hpw hpp ha (env.oracle (simAt env s0 n).st)
  have hmem : p ∈ (simAt env s0 (n + 1)).st.procs := by rw [hst]; exact m3 p hp hne
  have hnf := bound_v_eq_noflip (boundB_run_mono C K (Nat.le_succ n)) hV
  have hkeep := boundB_idle_keep C K n hq hV
  refine ⟨hmem, hen.1, ?_⟩
  rcases hen.2 with ⟨hk, ⟨ob, hob, hast⟩, hI⟩ | ⟨hk, hsto⟩ | ⟨o, sc, pa, po, hk, hfin, hres⟩
  · -- the telescope: an observation without a recorded start
    left
    obtain ⟨hobs, hid⟩ := live_obs?_mem_B C K n hob
    obtain ⟨ob', hob', _, hobs'⟩ := live_obs_rec_B C K (n + 1) hid
    refine ⟨hk, ⟨ob', hob', ?_⟩, by rw [hkeep]; exact hI⟩
    cases hast' : ob'.ast with
    | none => rfl
    | some a =>
      exfalso
      obtain ⟨o0, ho0, hid0⟩ := bound_ep_obs_of_id hid
      have h1 : Sys.PAst o0.id (simAt env s0 (n + 1)).st := by
        rw [hid0]; exact ⟨ob', a, hobs', hast'⟩
      obtain ⟨ob2, a2, hobs2, hast2⟩ := (hnf o0 ho0).1 h1
      rw [hid0, hobs] at hobs2
      have : ob = ob2 := Option.some.inj hobs2
      subst this
      rw [hast] at hast2
      cases hast2
  · -- the scheduling loop: a stored observation
    right; left
    refine ⟨hk, ?_⟩
    obtain ⟨o, ho⟩ := List.exists_mem_of_ne_nil _ hsto
    have hid := live_buf_ids_B C K n (Or.inl ho)
    obtain ⟨o0, ho0, hid0⟩ := bound_ep_obs_of_id hid
    have hnq : ¬ Sys.PQ o (simAt env s0 n).st := by
      intro hq
      have hcnt := (live_bufi_B C K n).cnt o
      unfold locCount bufList at hcnt
      simp only [List.count_append] at hcnt
      have c1 := List.count_pos_iff.mpr ho
      rcases hq with hq | hq
      · have c2 := List.count_pos_iff.mpr hq
        omega
      · have c2 := List.count_pos_iff.mpr hq
        omega
    have hnq' : ¬ Sys.PQ o (simAt env s0 (n + 1)).st := by
      intro hq
      apply hnq
      have := (hnf o0 ho0).2.1 (by rw [hid0]; exact hq)
      rw [hid0] at this
      exact this
    rcases boundB_ep_stored_step C K n ho with h | h | h
    · exact List.ne_nil_of_mem h
    · exact absurd (Or.inl h) hnq'
    · exact absurd (Or.inr h) hnq'
  · -- the allocation loop of an observation that has not been removed
    right; right
    refine ⟨o, sc, pa, po, hk, ?_, by unfold Cluster.isProvisioned at hres ⊢; rw [hkeep]; exact hres⟩
    intro hfin'
    have hid := live_buf_ids_B C K (n + 1) (Or.inr (Or.inr hfin'))
    obtain ⟨o0, ho0, hid0⟩ := bound_ep_obs_of_id hid
    have := (hnf o0 ho0).2.2.1 (by rw [hid0]; exact hfin')
    rw [hid0] at this
    exact hfin this

end

end Topsim
