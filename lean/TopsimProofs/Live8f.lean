/-
  Live8f — the scheduler loop's block along a live run: with something stored it pops the last
  stored observation into `scheduled` (E1, `live_schedLoop_pops`); it creates a process only in
  that branch (SF1, `live_schedLoop_spawn_flips`); the buffer loop never creates a process
  (SF3, `live_bufferLoop_no_spawn`).
-/
import TopsimProofs.Live8e

namespace Topsim

open KState Sys

namespace Sys

/-- the scheduler loop's block: nothing is created, or the last stored observation is popped -/
theorem l8_schedLoop_out (s : Sys) (now : Time) (orc : Oracle) :
    ((s.schedLoopBlock now orc).1.nextPid = s.nextPid ∧
      (s.buf.hasReady = true → ∀ o, s.buf.hot.stored.getLast? = some o →
        ∃ e, (s.schedLoopBlock now orc).2 = .raised e)) ∨
    (∃ o ob, s.buf.hasReady = true ∧ s.buf.hot.stored.getLast? = some o ∧ s.obs? o = some ob ∧
      (s.schedLoopBlock now orc).1.buf = s.buf.nextForProcessing.1) := by
  unfold schedLoopBlock
  simp only
  by_cases hr : s.buf.hasReady = true
  · rw [if_pos hr]
    cases hl : s.buf.hot.stored.getLast? with
    | none =>
      left
      have : s.buf.nextForProcessing = (s.buf, none) := by unfold Buffer.nextForProcessing; rw [hl]
      rw [this]
      exact ⟨rfl, fun _ o ho => by cases ho⟩
    | some o =>
      have hn : s.buf.nextForProcessing = (s.buf.nextForProcessing.1, some o) := by
        unfold Buffer.nextForProcessing; rw [hl]
      rw [hn]
      simp only
      cases hob : s.obs? o with
      | none =>
        left
        have e1 : ({ s with schEvents := [] } : Sys).obs? o = none := hob
        rw [e1]
        exact ⟨rfl, fun _ o' ho' => ⟨.other, rfl⟩⟩
      | some ob =>
        right
        have e1 : ({ s with schEvents := [] } : Sys).obs? o = some ob := hob
        rw [e1]
        refine ⟨o, ob, hr, rfl, hob, ?_⟩
        simp only
        split <;> rfl
  · left
    rw [if_neg hr]
    exact ⟨rfl, fun h => absurd h hr⟩

theorem l8_hasReady {b : Buffer} (hover : b.overThreshold = false) (hst : b.hot.stored ≠ []) :
    b.hasReady = true := by
  unfold Buffer.hasReady
  rw [hover]
  have : b.hot.stored.length > 0 := List.length_pos_iff.mpr hst
  simp [this]

/-- popping the last stored observation: it was stored, not yet handed over, and is handed over after -/
theorem l8_pop_flips {s : Sys} (hb : BufI s) {o : Oid} (hl : s.buf.hot.stored.getLast? = some o)
    {X : Sys} (hX : X.buf = s.buf.nextForProcessing.1) :
    o ∈ s.buf.hot.stored ∧ ¬ PQ o s ∧ PQ o X := by
  obtain ⟨ys, hys⟩ := List.getLast?_eq_some_iff.mp hl
  have hmem : o ∈ s.buf.hot.stored := by rw [hys]; simp
  refine ⟨hmem, ?_, ?_⟩
  · have hc := hb.cnt o
    unfold locCount bufList at hc
    simp only [List.count_append] at hc
    have c1 := List.count_pos_iff.mpr hmem
    rintro (h | h)
    · have c2 := List.count_pos_iff.mpr h; omega
    · have c2 := List.count_pos_iff.mpr h; omega
  · left
    rw [hX]
    unfold Buffer.nextForProcessing
    rw [hl]
    simp

end Sys

section
variable {env : SimEnv} {s0 : Sys}

theorem l8_bufi (C : LiveCfg env s0) (K : LiveKernel env s0) (n : Nat) : BufI (simAt env s0 n).st :=
  reachOk_bufi s0 _ C.hw (l8_bufList C) (l8_reachOk C K n)

theorem l8_over (C : LiveCfg env s0) (K : LiveKernel env s0) (n : Nat) :
    (simAt env s0 n).st.buf.overThreshold = false :=
  (live_not_over env s0 C.hw C.hb0 C.hfull (l8_rate C) C.h1 _ (K.run n).1 (C.nr n)).1

/-- **E1.**  With something stored, the scheduler loop's block pops the last stored observation
into `scheduled`. -/
theorem live_schedLoop_pops (C : LiveCfg env s0) (K : LiveKernel env s0) (n : Nat) {e : HEntry} {p : Proc}
    (hpk : (simAt env s0 n).peek = some e) (hpp : (simAt env s0 n).st.proc? e.pid = some p)
    (ha : p.alive = true) (hk : p.k = .schedLoop) (hst : (simAt env s0 n).st.buf.hot.stored ≠ []) :
    ∃ o ∈ (simAt env s0 n).st.buf.hot.stored, ¬ Sys.PQ o (simAt env s0 n).st ∧
      Sys.PQ o (simAt env s0 (n + 1)).st := by
  obtain ⟨e', p', hpk', hpp', _, _, _, hnr, hstep⟩ := l8_step C K n
  rw [hpk] at hpk'; cases hpk'
  rw [hpp] at hpp'; cases hpp'
  have hbuf : (simAt env s0 (n + 1)).st.buf
      = ((simAt env s0 n).st.schedLoopBlock p.wake (env.oracle (simAt env s0 n).st)).1.buf := by
    rw [hstep, resume_buf _ _ _ p hpp ha, block_schedLoop _ hk]
  have hready := Sys.l8_hasReady (l8_over C K n) hst
  obtain ⟨o, hl⟩ : ∃ o, (simAt env s0 n).st.buf.hot.stored.getLast? = some o := by
    cases h : (simAt env s0 n).st.buf.hot.stored.getLast? with
    | none => exact absurd (List.getLast?_eq_none_iff.mp h) hst
    | some o => exact ⟨o, rfl⟩
  rcases Sys.l8_schedLoop_out (simAt env s0 n).st p.wake (env.oracle (simAt env s0 n).st) with
    ⟨_, h2⟩ | ⟨o', ob, _, hl', _, hX⟩
  · obtain ⟨err, herr⟩ := h2 hready o hl
    exact absurd (by rw [block_schedLoop _ hk]; exact herr) (hnr err)
  · rw [hl] at hl'; cases hl'
    obtain ⟨h1, h2, h3⟩ := Sys.l8_pop_flips (l8_bufi C K n) hl (hbuf.trans hX)
    exact ⟨o, h1, h2, h3⟩

/-- **SF1.**  The scheduler loop creates a process only in the branch that pops the last stored
observation into `scheduled`. -/
theorem live_schedLoop_spawn_flips (C : LiveCfg env s0) (K : LiveKernel env s0) (n : Nat) {e : HEntry}
    {p : Proc} (hpk : (simAt env s0 n).peek = some e) (hpp : (simAt env s0 n).st.proc? e.pid = some p)
    (ha : p.alive = true) (hk : p.k = .schedLoop)
    (hsp : (simAt env s0 n).st.nextPid < (simAt env s0 (n + 1)).st.nextPid) :
    ∃ o, (∃ ob, (simAt env s0 n).st.obs? o = some ob) ∧ ¬ Sys.PQ o (simAt env s0 n).st ∧
      Sys.PQ o (simAt env s0 (n + 1)).st := by
  obtain ⟨e', p', hpk', hpp', _, _, _, hnr, hstep⟩ := l8_step C K n
  rw [hpk] at hpk'; cases hpk'
  rw [hpp] at hpp'; cases hpp'
  have hcore := resume_core (simAt env s0 n).st e.pid (env.oracle (simAt env s0 n).st) p hpp ha
  have hbuf : (simAt env s0 (n + 1)).st.buf
      = ((simAt env s0 n).st.schedLoopBlock p.wake (env.oracle (simAt env s0 n).st)).1.buf := by
    rw [hstep, resume_buf _ _ _ p hpp ha, block_schedLoop _ hk]
  have hnp : (simAt env s0 (n + 1)).st.nextPid
      = ((simAt env s0 n).st.schedLoopBlock p.wake (env.oracle (simAt env s0 n).st)).1.nextPid := by
    rw [hstep, hcore.nextPid, updProc_nextPid, block_schedLoop _ hk]
  rcases Sys.l8_schedLoop_out (simAt env s0 n).st p.wake (env.oracle (simAt env s0 n).st) with
    ⟨h1, _⟩ | ⟨o, ob, _, hl, hob, hX⟩
  · rw [hnp, h1] at hsp; omega
  · obtain ⟨_, h2, h3⟩ := Sys.l8_pop_flips (l8_bufi C K n) hl (hbuf.trans hX)
    exact ⟨o, ⟨ob, hob⟩, h2, h3⟩

/-- **SF3.**  The buffer loop never creates a process. -/
theorem live_bufferLoop_no_spawn (C : LiveCfg env s0) (K : LiveKernel env s0) (n : Nat) {e : HEntry}
    {p : Proc} (hpk : (simAt env s0 n).peek = some e) (hpp : (simAt env s0 n).st.proc? e.pid = some p)
    (ha : p.alive = true) (hk : p.k = .bufferLoop) :
    (simAt env s0 (n + 1)).st.nextPid = (simAt env s0 n).st.nextPid := by
  obtain ⟨e', p', hpk', hpp', _, _, _, _, hstep⟩ := l8_step C K n
  rw [hpk] at hpk'; cases hpk'
  rw [hpp] at hpp'; cases hpp'
  have hcore := resume_core (simAt env s0 n).st e.pid (env.oracle (simAt env s0 n).st) p hpp ha
  have hcs : (simAt env s0 n).st.buf.cold.stored = [] := by
    rw [(live_noTier C K n).2]; exact C.hb0.2.2.2
  rw [hstep, hcore.nextPid, updProc_nextPid, block_bufferLoop _ hk,
    Sys.l8_bufferLoop_quiet _ p.wake (l8_over C K n) hcs]

end

end Topsim
