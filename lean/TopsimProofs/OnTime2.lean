/-
  OnTime2 — the recorded start time along the runs of the simulator: never
  before the planned start, never changed once set, set while the observation
  is WAITING, and strictly behind the telescope's next block (`OtAst`).
-/
import TopsimProofs.OnTime1

namespace Topsim

open KState Sys

namespace Sys

/-- the process table after an enabled step, in one statement -/
theorem ot_step_table {s : Sys} (hs : SInv s) {pid : Nat} {p : Proc} (hp : s.proc? pid = some p)
    (ha : p.alive = true) (hmin : ∀ q ∈ s.procs, q.alive = true → p.wake ≤ q.wake) (orc : Oracle) :
    ∃ new, MemSpec s (s.resume pid orc).1 p (fin (s.block p orc).2.1 (s.block p orc).2.2 p.wake p) new ∧
      (s.block p orc).1.procs = s.procs ++ new ∧
      ∀ q ∈ new, q.alive = true ∧ q.pc = 0 ∧
        q.wake = (if p.k = .telescope then ((natNow p.wake : Nat) : Time) else p.wake) ∧ NewKind p.k q.k := by
  obtain ⟨new, hnew, hnewp⟩ := block_newp s p orc
  exact ⟨new, resume_memSpec ⟨hs.pw, hs.eg⟩ hp ha hmin orc hnew, hnew, hnewp⟩

/-- no block creates a telescope -/
theorem ot_new_not_tel {k k' : PK} (h : NewKind k k') : k' ≠ .telescope := by
  intro e
  subst e
  cases k <;> simp [NewKind] at h

/-- the kind after the block is the telescope's only for the telescope -/
theorem ot_block_tel {s : Sys} (hpw : PW s) (p : Proc) (orc : Oracle)
    (h : (s.block p orc).2.1 = .telescope) : p.k = .telescope := by
  have htag := block_tag s hpw p orc
  rw [h] at htag
  cases hpk : p.k <;> rw [hpk] at htag <;> simp [PK.tag] at htag

/-- an observation started in a run was due -/
theorem telRun_startedEst {n : Nat} {l : List Oid} {acc acc' : Sys × Option Err} {L : List Event}
    (h : TelRun n l acc acc' L) (o : Oid) (hm : (⟨n, o, .telStarted⟩ : Event) ∈ L) :
    ∃ ob, acc.1.obs? o = some ob ∧ ob.est ≤ n ∧ ob.status = .waiting := by
  induction h with
  | nil acc => simp at hm
  | cons oid l acc acc1 acc2 t L ht hrun ih =>
    rcases List.mem_append.mp hm with hm | hm
    · cases ht with
      | quiet => simp at hm
      | finish => simp at hm
      | start ob _ _ _ hob hw hest =>
        simp at hm; subst hm
        exact ⟨ob, hob, hest, hw⟩
    · obtain ⟨ob1, hob1, hest1, hw1⟩ := ih hm
      obtain ⟨ob, hob, _, _, s1⟩ := telStep_tobs ht o ob1 hob1
      obtain ⟨ob0, hob0, hst⟩ := (telStep_keep ht).bwd hob1
      rw [hob] at hob0; cases hob0
      refine ⟨ob, hob, by rw [← (ot_stat_fields hst).2.1]; exact hest1, ?_⟩
      rcases s1 with e | ⟨e, _⟩
      · rw [← e]; exact hw1
      · rw [hw1] at e; cases e

/-- … and is in `admitted` after the run -/
theorem telRun_startedAdm {n : Nat} {l : List Oid} {acc acc' : Sys × Option Err} {L : List Event}
    (h : TelRun n l acc acc' L) (o : Oid) (hm : (⟨n, o, .telStarted⟩ : Event) ∈ L) :
    o ∈ acc'.1.admitted := by
  have h1 : 1 ≤ evCount o .telStarted L := (evCount_pos_iff _ _ _).mpr ⟨_, hm, rfl, rfl⟩
  have h2 := telRun_started h o
  exact List.count_pos_iff.mp (by omega)

/-! ### the invariant -/

structure OtAst (s : Sys) : Prop where
  /-- never early -/
  early : ∀ o ob a, s.obs? o = some ob → ob.ast = some a → ob.est ≤ a
  adm : ∀ o ob, s.obs? o = some ob → ob.ast ≠ none → o ∈ s.admitted
  /-- an observation without a recorded start is WAITING -/
  wait : ∀ o ob, s.obs? o = some ob → ob.ast = none → ob.status = .waiting
  /-- the recorded start is strictly behind the telescope's next block (or the telescope ended in
  that very block) -/
  tel : ∀ o ob a, s.obs? o = some ob → ob.ast = some a → ∀ t ∈ s.procs, t.k = .telescope →
    ((a : Nat) : Time) < t.wake ∨ (((a : Nat) : Time) = t.wake ∧ t.alive = false)

theorem otAst_start (s0 : Sys) (hw : WFConfig s0) : OtAst s0.start := by
  have hnone : ∀ o ob, s0.start.obs? o = some ob → ob.ast = none ∧ ob.status = .waiting := by
    intro o ob hob
    have hm := (obs_mem_of_obs? hob).1
    rw [start_obs s0] at hm
    exact ⟨(hw.obsWaiting ob hm).2.1, (hw.obsWaiting ob hm).1⟩
  constructor
  · intro o ob a hob hast; rw [(hnone o ob hob).1] at hast; cases hast
  · intro o ob hob hast; exact absurd (hnone o ob hob).1 hast
  · intro o ob hob _; exact (hnone o ob hob).2
  · intro o ob a hob hast; rw [(hnone o ob hob).1] at hast; cases hast

theorem ot_cast_lt_succ {a m : Nat} (h : ((a : Nat) : Time) < ((m : Nat) : Time)) :
    ((a : Nat) : Time) < ((m : Nat) : Time) + 1 := by
  have h1 : a < m := by exact_mod_cast h
  have h2 : a < m + 1 := by omega
  rw [lcCast_succ]
  exact_mod_cast h2

theorem ot_cast_lt_self_succ (m : Nat) : ((m : Nat) : Time) < ((m : Nat) : Time) + 1 := by
  rw [lcCast_succ]
  have : m < m + 1 := by omega
  exact_mod_cast this

/-- one block of an enabled process keeps `OtAst` -/
theorem otAst_step {s : Sys} (hs : SInv s) (hti : ILTI s) (h : OtAst s) {pid : Nat} {p : Proc}
    (hp : s.proc? pid = some p) (ha : p.alive = true)
    (hmin : ∀ q ∈ s.procs, q.alive = true → p.wake ≤ q.wake)
    (hint : p.k = .telescope → ∃ m : Nat, p.wake = ((m : Nat) : Time)) (orc : Oracle) :
    OtAst (s.resume pid orc).1 := by
  obtain ⟨hpm, hpid⟩ := proc?_some hp
  obtain ⟨new, hm, hnew, hnewp⟩ := ot_step_table hs hp ha hmin orc
  have hkeep := ot_resume_keep s pid orc p hp ha
  have hobsEq : (s.resume pid orc).1.obs = (s.block p orc).1.obs := (il_resume_fields s pid orc p hp ha).1
  have hrts := resume_telSame s pid orc p hp ha
  have hest : ∀ o ob ob', s.obs? o = some ob → (s.resume pid orc).1.obs? o = some ob' → ob'.est = ob.est := by
    intro o ob ob' hob hob'
    obtain ⟨ob0, hob0, hst⟩ := hkeep.bwd hob'
    rw [hob] at hob0; cases hob0
    exact (ot_stat_fields hst).2.1
  by_cases hk : p.k = .telescope
  · -- the telescope's block
    obtain ⟨m, hwm⟩ := hint hk
    have hnat : natNow p.wake = m := by rw [hwm]; exact natNow_natCast m
    have hbk : (s.block p orc).2.1 = .telescope := by rw [block_telescope orc hk]
    -- the telescopes of the new table
    have htelNew : ∀ t ∈ (s.resume pid orc).1.procs, t.k = .telescope →
        t = fin (s.block p orc).2.1 (s.block p orc).2.2 p.wake p := by
      intro t ht htk
      rcases (hm t).mp ht with rfl | ⟨ht0, hne⟩ | htn
      · rfl
      · exact absurd ((hs.eg.telUniq t ht0 p hpm htk hk).trans hpid) (by rw [hpid] at hne; exact hne)
      · exact absurd htk (ot_new_not_tel (hnewp t htn).2.2.2)
    rcases blockEvents_telescope (s := s) orc hk with ⟨_, hb, hy, _⟩ | ⟨s0', e0, g1, g2, _, _, _, _, _, hrun, hy⟩
    · -- every observation FINISHED: the loop ends
      have hobs : (s.resume pid orc).1.obs = s.obs := by rw [hobsEq, hb]
      have hadm : (s.resume pid orc).1.admitted = s.admitted := by rw [hrts.admitted, hb]
      constructor
      · intro o ob a hob; rw [obs?_congr hobs] at hob; exact h.early o ob a hob
      · intro o ob hob; rw [obs?_congr hobs] at hob; rw [hadm]; exact h.adm o ob hob
      · intro o ob hob; rw [obs?_congr hobs] at hob; exact h.wait o ob hob
      · intro o ob a hob hast t ht htk
        rw [obs?_congr hobs] at hob
        rw [htelNew t ht htk, hy]
        left
        show ((a : Nat) : Time) < p.wake
        rcases h.tel o ob a hob hast p hpm hk with h1 | ⟨_, h1⟩
        · exact h1
        · rw [ha] at h1; cases h1
    · -- a run of visits
      rw [hnat] at hrun
      have htobs := telRun_tobs hrun
      have hpre := telRun_admitted_prefix hrun
      have hadmSub : ∀ o, o ∈ s.admitted → o ∈ (s.resume pid orc).1.admitted := by
        intro o ho
        rw [hrts.admitted]
        exact hpre.subset (by rw [g1]; exact ho)
      -- the record after against the record before
      have hrec : ∀ o ob', (s.resume pid orc).1.obs? o = some ob' → ∃ ob, s.obs? o = some ob ∧
          (ob'.ast = ob.ast ∨ (ob'.ast = some m ∧ (⟨m, o, .telStarted⟩ : Event) ∈ blockEvents s p orc)) ∧
          (ob'.status = ob.status ∨ (ob'.status = .finished ∧ ob'.ast ≠ none)) := by
        intro o ob' hob'
        rw [obs?_congr hobsEq] at hob'
        obtain ⟨ob, hob, d, a1, s1⟩ := htobs o ob' hob'
        rw [obs?_congr g2] at hob
        refine ⟨ob, hob, a1, ?_⟩
        rcases s1 with e | ⟨e, f⟩
        · exact Or.inl e
        · right
          refine ⟨e, ?_⟩
          rcases a1 with e1 | ⟨e1, _⟩
          · rcases f with ⟨a0, ha0, _⟩ | ⟨_, f2⟩
            · rw [e1, ha0]; simp
            · have := hti.durPos ob (obs_mem_of_obs? hob).1
              omega
          · rw [e1]; simp
      constructor
      · intro o ob' a hob' hast
        obtain ⟨ob, hob, a1, _⟩ := hrec o ob' hob'
        rw [hest o ob ob' hob hob']
        rcases a1 with e | ⟨e, hmem⟩
        · exact h.early o ob a hob (by rw [← e]; exact hast)
        · rw [e] at hast; cases hast
          obtain ⟨ob1, hob1, hle, _⟩ := telRun_startedEst hrun o hmem
          rw [obs?_congr g2, hob] at hob1; cases hob1
          exact hle
      · intro o ob' hob' hast
        obtain ⟨ob, hob, a1, _⟩ := hrec o ob' hob'
        rcases a1 with e | ⟨_, hmem⟩
        · exact hadmSub o (h.adm o ob hob (by rw [← e]; exact hast))
        · rw [hrts.admitted]; exact telRun_startedAdm hrun o hmem
      · intro o ob' hob' hast
        obtain ⟨ob, hob, a1, s1⟩ := hrec o ob' hob'
        rcases a1 with e | ⟨e, _⟩
        · rcases s1 with e2 | ⟨_, e2⟩
          · rw [e2]; exact h.wait o ob hob (by rw [← e]; exact hast)
          · exact absurd hast e2
        · rw [e] at hast; cases hast
      · intro o ob' a hob' hast t ht htk
        obtain ⟨ob, hob, a1, _⟩ := hrec o ob' hob'
        rw [htelNew t ht htk]
        -- the start time against the time of this block
        have hle : ((a : Nat) : Time) < ((m : Nat) : Time) ∨ a = m := by
          rcases a1 with e | ⟨e, _⟩
          · rcases h.tel o ob a hob (by rw [← e]; exact hast) p hpm hk with h1 | ⟨_, h1⟩
            · left; rw [← hwm]; exact h1
            · rw [ha] at h1; cases h1
          · rw [e] at hast; cases hast; exact Or.inr rfl
        rcases hy with ⟨hy, _⟩ | ⟨x, hy, _⟩
        · rw [hy, fin_timeout]
          left
          show ((a : Nat) : Time) < p.wake + 1
          rw [hwm]
          rcases hle with h1 | rfl
          · exact ot_cast_lt_succ h1
          · exact ot_cast_lt_self_succ _
        · rw [hy]
          rcases hle with h1 | rfl
          · left; show ((a : Nat) : Time) < p.wake; rw [hwm]; exact h1
          · right; exact ⟨hwm.symm, rfl⟩
  · -- any other block
    have hadm : (s.resume pid orc).1.admitted = s.admitted := by
      rw [hrts.admitted, (block_telSame s p orc hk).admitted]
    have hrecs := step_recs s pid orc p hp ha
    -- the start time does not change
    have hrec : ∀ o ob', (s.resume pid orc).1.obs? o = some ob' → ∃ ob, s.obs? o = some ob ∧
        ob'.ast = ob.ast ∧ (ob'.status = ob.status ∨ ob.ast ≠ none) := by
      intro o ob' hob'
      obtain ⟨ob, hob, _, a1, s1⟩ := hrecs o ob' hob'
      have hast : ob'.ast = ob.ast := by
        rcases a1 with e | ⟨e, _⟩ | ⟨tl, hpk, hpc, e⟩
        · exact e
        · exact absurd e hk
        · obtain ⟨n, ob2, hwn, hob2, hast2, _⟩ := hti.aiNew p hpm o tl hpk hpc
          rw [hob] at hob2; cases hob2
          rw [e, hast2, hwn, natNow_natCast]
      refine ⟨ob, hob, hast, ?_⟩
      rcases s1 with e | ⟨e, _⟩ | ⟨tl, hpk, _, _⟩
      · exact Or.inl e
      · exact absurd e hk
      · right
        by_cases hpc : p.pc = 0
        · obtain ⟨n, ob2, _, hob2, hast2, _⟩ := hti.aiNew p hpm o tl hpk hpc
          rw [hob] at hob2; cases hob2
          rw [hast2]; simp
        · obtain ⟨ob2, a, j, hob2, hast2, _⟩ := hti.aiRun p hpm ha (by omega) o tl hpk
          rw [hob] at hob2; cases hob2
          rw [hast2]; simp
    have hold : ∀ t ∈ (s.resume pid orc).1.procs, t.k = .telescope → t ∈ s.procs := by
      intro t ht htk
      rcases (hm t).mp ht with rfl | ⟨ht0, _⟩ | htn
      · simp only [fin_k] at htk; exact absurd (ot_block_tel hs.pw p orc htk) hk
      · exact ht0
      · exact absurd htk (ot_new_not_tel (hnewp t htn).2.2.2)
    constructor
    · intro o ob' a hob' hast
      obtain ⟨ob, hob, e, _⟩ := hrec o ob' hob'
      rw [hest o ob ob' hob hob']
      exact h.early o ob a hob (by rw [← e]; exact hast)
    · intro o ob' hob' hast
      obtain ⟨ob, hob, e, _⟩ := hrec o ob' hob'
      rw [hadm]; exact h.adm o ob hob (by rw [← e]; exact hast)
    · intro o ob' hob' hast
      obtain ⟨ob, hob, e, s1⟩ := hrec o ob' hob'
      rcases s1 with e2 | e2
      · rw [e2]; exact h.wait o ob hob (by rw [← e]; exact hast)
      · rw [e] at hast; exact absurd hast e2
    · intro o ob' a hob' hast t ht htk
      obtain ⟨ob, hob, e, _⟩ := hrec o ob' hob'
      exact h.tel o ob a hob (by rw [← e]; exact hast) t (hold t ht htk) htk

/-- the recorded start time across one block: unchanged, or set by the telescope's block (to the
time of the block) for an observation that was WAITING -/
theorem ot_step_ast {s : Sys} (hti : ILTI s) {pid : Nat} {p : Proc}
    (hp : s.proc? pid = some p) (ha : p.alive = true) (orc : Oracle) :
    ∀ o ob', (s.resume pid orc).1.obs? o = some ob' → ∃ ob, s.obs? o = some ob ∧
      (ob'.ast = ob.ast ∨ (p.k = .telescope ∧ ob.status = .waiting ∧ ob'.ast = some (natNow p.wake))) := by
  obtain ⟨hpm, hpid⟩ := proc?_some hp
  have hobsEq : (s.resume pid orc).1.obs = (s.block p orc).1.obs := (il_resume_fields s pid orc p hp ha).1
  intro o ob' hob'
  by_cases hk : p.k = .telescope
  · rw [obs?_congr hobsEq] at hob'
    rcases blockEvents_telescope (s := s) orc hk with ⟨_, hb, _⟩ | ⟨s0', e0, _, g2, _, _, _, _, _, hrun, _⟩
    · rw [hb] at hob'; exact ⟨ob', hob', Or.inl rfl⟩
    · obtain ⟨ob, hob, _, a1, _⟩ := telRun_tobs hrun o ob' hob'
      have hob2 := hob
      rw [obs?_congr g2] at hob2
      refine ⟨ob, hob2, ?_⟩
      rcases a1 with e | ⟨e, hmem⟩
      · exact Or.inl e
      · obtain ⟨ob1, hob1, _, hw1⟩ := telRun_startedEst hrun o hmem
        rw [hob] at hob1; cases hob1
        exact Or.inr ⟨hk, hw1, e⟩
  · obtain ⟨ob, hob, _, a1, _⟩ := step_recs s pid orc p hp ha o ob' hob'
    refine ⟨ob, hob, Or.inl ?_⟩
    rcases a1 with e | ⟨e, _⟩ | ⟨tl, hpk, hpc, e⟩
    · exact e
    · exact absurd e hk
    · obtain ⟨n, ob2, hwn, hob2, hast2, _⟩ := hti.aiNew p hpm o tl hpk hpc
      rw [hob] at hob2; cases hob2
      rw [e, hast2, hwn, natNow_natCast]

/-- a recorded start time is never changed by a block of an enabled process -/
theorem ot_ast_persist {s : Sys} (hs : SInv s) (hti : ILTI s) (h : OtAst s) {pid : Nat} {p : Proc}
    (hp : s.proc? pid = some p) (ha : p.alive = true)
    (hmin : ∀ q ∈ s.procs, q.alive = true → p.wake ≤ q.wake) (orc : Oracle)
    {o : Oid} {ob : Obs} {a : Nat} (hob : s.obs? o = some ob) (hast : ob.ast = some a) :
    ∃ ob', (s.resume pid orc).1.obs? o = some ob' ∧ ob'.ast = some a ∧ ob'.stat = ob.stat := by
  obtain ⟨hpm, _⟩ := proc?_some hp
  obtain ⟨ob', hob', hst⟩ := (ot_resume_keep s pid orc p hp ha).fwd hob
  refine ⟨ob', hob', ?_, hst⟩
  obtain ⟨ob0, hob0, hor⟩ := ot_step_ast hti hp ha orc o ob' hob'
  rw [hob] at hob0; cases hob0
  rcases hor with e | ⟨hk, hw, _⟩
  · rw [e]; exact hast
  · exfalso
    have hadm := h.adm o ob hob (by rw [hast]; simp)
    obtain ⟨ob2, hob2, hsup⟩ := hs.eg.adm o hadm
    rw [hob] at hob2; cases hob2
    obtain ⟨q, hq, hqa, _, _, hlt⟩ := hsup hw
    have h1 := hlt p hpm hk ha
    have h2 := hmin q hq hqa
    exact absurd h1 (Rat.not_lt.mpr h2)

end Sys

/-- `OtAst` holds in every state of every run of the simulator -/
theorem sim_otAst (env : SimEnv) (s0 : Sys) (hw : WFConfig s0) (k : SimState) (h : SimReach env s0 k) :
    OtAst k.st := by
  refine SimReach.sys_induct hw OtAst (otAst_start s0 hw) (fun s hs => ⟨hs.early, hs.adm, hs.wait, hs.tel⟩)
    (fun s hs => ⟨hs.early, hs.adm, hs.wait, hs.tel⟩) ?_ k h
  intro k hr ih pid p hp ha hen
  have hinv := hr.l3inv hw
  obtain ⟨p', hp', _, hmin⟩ := hen
  rw [hp] at hp'; cases hp'
  exact otAst_step hinv.sinv hinv.ti ih hp ha hmin (fun hk => hinv.heap.telInt p (proc?_some hp).1 hk) _

/-- a recorded start time stays what it is for the rest of the run -/
theorem SimPath.ast_persist {env : SimEnv} {s0 : Sys} (hw : WFConfig s0) {k k' : SimState}
    (h : SimReach env s0 k) (hp : SimPath env k k') {o : Oid} {ob : Obs} {a : Nat}
    (hob : k.st.obs? o = some ob) (hast : ob.ast = some a) :
    ∃ ob', k'.st.obs? o = some ob' ∧ ob'.ast = some a ∧ ob'.stat = ob.stat := by
  induction hp with
  | refl => exact ⟨ob, hob, hast, rfl⟩
  | step k1 k2 hp1 hs ih =>
    obtain ⟨ob1, hob1, hast1, hst1⟩ := ih
    have hr1 := h.path hp1
    obtain ⟨e, _, hc⟩ := ot_step_cases hw hr1 hs
    rcases hc with ⟨hc, _⟩ | ⟨p, hpp, ha, _, hen, hc⟩
    · rw [hc]; exact ⟨ob1, hob1, hast1, hst1⟩
    · have hinv := hr1.l3inv hw
      obtain ⟨p', hp', _, hmin⟩ := hen
      rw [hpp] at hp'; cases hp'
      obtain ⟨ob2, hob2, hast2, hst2⟩ := ot_ast_persist hinv.sinv hinv.ti (sim_otAst env s0 hw k1 hr1) hpp ha hmin
        (env.oracle k1.st) hob1 hast1
      rw [hc]
      exact ⟨ob2, hob2, hast2, hst2.trans hst1⟩
  | collate k1 _ ih => exact ih

end Topsim
