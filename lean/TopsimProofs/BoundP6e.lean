/-
  BoundP6e — (plan-following algorithms; the counterpart of Bound6e, same proofs with the occupancy bound `boundP_tw_R`) timed liveness of the workflow-task workers (part 5): the clause of `BoundPTw` about the
  allocation processes that have begun, after one block.
-/
import TopsimProofs.BoundP6d

namespace Topsim

open KState Sys

section
variable {env : SimEnv} {s0 s s' : Sys} {p : Proc} {new : List Proc}

/-- the allocation process that ran -/
theorem boundP_tw_step_at1_self (S : BoundPTwStep env s0 s s' p new) {B : Time} (h : BoundPTw env s0 s B)
    {a : Proc} (hae : a = fin (s.block p (env.oracle s)).2.1 (s.block p (env.oracle s)).2.2 p.wake p)
    (haa : a.alive = true) {t m preds obs ing ret} (hk : a.k = .allocTask t m preds obs ing ret)
    (hti : t.isIngest = false) {d : Proc} (hd : d ∈ s'.procs) (hdp : d.pid = ret) :
    (d.alive = true → a.wake ≤ d.wake + 1) ∧
    (d.alive = false → ∃ r f, s'.task? t = some r ∧ r.aft = some f ∧ a.wake < f + 1 ∧ f + 1 ≤ B) := by
  have hpm := S.step.mem
  have hpa := S.step.ha
  have hpw := S.X.sinv.pw
  have hpw' := S.X'.sinv.pw
  obtain ⟨U, hU⟩ := S.X.sinv.ci
  have hak : (s.block p (env.oracle s)).2.1 = .allocTask t m preds obs ing ret := by
    rw [← hk, hae, fin_k]
  have htag : p.k.tag = "allocTask" := by
    rw [← block_tag s hpw p (env.oracle s), hak]; rfl
  obtain ⟨t1, m1, preds1, obs1, ing1, ret1, hpk⟩ := bound_tw_tag_allocTask htag
  have hb := block_allocTask (s := s) (p := p) (env.oracle s) hpk
  rcases allocTaskBlock_cases' s hpw p.wake t1 m1 preds1 obs1 ing1 ret1 with
    ⟨_, e, _, heq⟩ | ⟨hnr, _, heq⟩ | ⟨hrun, hf, heq⟩ | ⟨_, _, e, _, heq⟩ | ⟨_, _, _, heq⟩
  · exact absurd (by rw [hb, heq]) (S.step.nr e)
  · -- the first block: the body is created
    have hbe := hb.trans heq
    rw [hbe] at hak
    cases hak
    have hnw : new = [{ pid := s.nextPid, k := .doWork t m preds 0 0, wake := p.wake }] :=
      List.append_cancel_left (S.hnew.symm.trans (by rw [hbe]; rfl))
    have hbm : ({ pid := s.nextPid, k := .doWork t m preds 0 0, wake := p.wake } : Proc) ∈ s'.procs :=
      (S.mem _).mpr (Or.inr (Or.inr (by rw [hnw]; simp)))
    have hdb : d = { pid := s.nextPid, k := .doWork t m preds 0 0, wake := p.wake } :=
      hpw'.eq_of_pid hd hbm hdp
    have haw : a.wake = p.wake + 1 := by rw [hae, hbe]; rfl
    subst hdb
    refine ⟨fun _ => ?_, fun e => absurd e (by simp)⟩
    rw [haw]
    exact Rat.le_refl
  · -- a poll that goes on
    have hbe := hb.trans heq
    rw [hbe] at hak
    cases hak
    have hpc1 := hU.pc_pos hpm hpa hpk hrun
    obtain ⟨d0, hd0, hd0p, m', preds', ph0, tot0, hd0k⟩ := (S.X.fi.ok p hpm).atRet _ _ _ _ _ _ hpk hpc1
    have hne : d0.pid ≠ p.pid := by
      intro e
      have := hpw.eq_of_pid hd0 hpm e
      subst this
      rw [hpk] at hd0k
      cases hd0k
    have hd0' : d0 ∈ s'.procs := (S.mem d0).mpr (Or.inr (Or.inl ⟨hd0, hne⟩))
    have hdd0 : d = d0 := hpw'.eq_of_pid hd hd0' (hdp.trans hd0p.symm)
    subst hdd0
    obtain ⟨g1, g2⟩ := h.at1 p hpm hpa _ _ _ _ _ _ hpk hti hpc1 d hd0 hd0p
    have haw : a.wake = p.wake + 1 := by rw [hae, hbe]; rfl
    rw [haw]
    refine ⟨fun hda => ?_, fun hdd => ?_⟩
    · have := S.step.hmin d hd0 hda
      grind
    · obtain ⟨r, f, hr, hf', hlt, hle⟩ := g2 hdd
      have htrig : s.procTriggered ret = true := by
        unfold Sys.procTriggered
        rw [← hd0p, hpw.proc?_of_mem hd0]
        simp [hdd]
      rw [htrig, Bool.true_and] at hf
      obtain ⟨rec, f2, hrec, hf2, hlt2⟩ := aftReached_eq_false hf
      rw [hr] at hrec
      cases hrec
      rw [hf'] at hf2
      cases hf2
      refine ⟨r, f, ?_, hf', by grind, hle⟩
      rw [S.task?_eq, hbe]
      exact hr
  · exact absurd (by rw [hb, heq]) (S.step.nr e)
  · rw [hae, hb, heq] at haa
    exact absurd haa (by simp [fin])

/-- another allocation process -/
theorem boundP_tw_step_at1_old (S : BoundPTwStep env s0 s s' p new) {B : Time} (h : BoundPTw env s0 s B)
    {a : Proc} (hold : a ∈ s.procs) (haa : a.alive = true) {t m preds obs ing ret}
    (hk : a.k = .allocTask t m preds obs ing ret) (hti : t.isIngest = false) (hpc : 1 ≤ a.pc)
    {d : Proc} (hd : d ∈ s'.procs) (hdp : d.pid = ret) :
    (d.alive = true → a.wake ≤ d.wake + 1) ∧
    (d.alive = false → ∃ r f, s'.task? t = some r ∧ r.aft = some f ∧ a.wake < f + 1 ∧ f + 1 ≤ B) := by
  have hpm := S.step.mem
  have hpa := S.step.ha
  have hpw := S.X.sinv.pw
  have hpw' := S.X'.sinv.pw
  obtain ⟨U, hU⟩ := S.X.sinv.ci
  obtain ⟨d0, hd0, hd0p, m', preds', ph0, tot0, hd0k⟩ := (S.X.fi.ok a hold).atRet _ _ _ _ _ _ hk hpc
  obtain ⟨g1, g2⟩ := h.at1 a hold haa _ _ _ _ _ _ hk hti hpc d0 hd0 hd0p
  by_cases e : d0.pid = p.pid
  · -- the body of the task ran
    have := hpw.eq_of_pid hd0 hpm e
    subst this
    have hpm' : fin (s.block d0 (env.oracle s)).2.1 (s.block d0 (env.oracle s)).2.2 d0.wake d0 ∈ s'.procs :=
      (S.mem _).mpr (Or.inl rfl)
    have hde : d = fin (s.block d0 (env.oracle s)).2.1 (s.block d0 (env.oracle s)).2.2 d0.wake d0 :=
      hpw'.eq_of_pid hd hpm' (by rw [fin_pid]; exact hdp.trans hd0p.symm)
    have hb := block_doWork (s := s) (p := d0) (env.oracle s) hd0k
    have hsh := Sys.bound_tw_dwShape s d0.wake (env.oracle s) t m' preds' ph0 tot0
    have hnr := S.step.nr
    have htq := S.task?_eq t
    have ha1 := g1 hpa
    rw [hde]
    rw [hb] at hnr htq ⊢
    generalize s.doWorkBlock d0.wake (env.oracle s) t m' preds' ph0 tot0 = Y at hsh hnr htq ⊢
    cases hsh with
    | raised ph' err => exact absurd rfl (hnr err)
    | wait w _ _ hw =>
      refine ⟨fun _ => ?_, fun e => ?_⟩
      · show a.wake ≤ d0.wake + w + 1
        have := Sys.transferWait_nonneg _ _ _ _ _ _ hw
        grind
      · have : d0.alive = false := e
        rw [hpa] at this
        exact absurd this (by simp)
    | start r mm dur _ _ _ _ =>
      refine ⟨fun _ => ?_, fun e => ?_⟩
      · show a.wake ≤ d0.wake + ((bodyWait _ : Nat) : Rat) + 1
        have : (0 : Rat) ≤ ((bodyWait ((env.oracle s).bodyTotal t
          (s.starts.filter (fun x => !x.isIngest)).length dur) : Nat) : Rat) := Rat.natCast_nonneg
        grind
      · have : d0.alive = false := e
        rw [hpa] at this
        exact absurd this (by simp)
    | finish hph =>
      refine ⟨fun e => absurd e (by simp [fin]), fun _ => ?_⟩
      obtain ⟨r, hr, _⟩ := hU.hasRec a hold _ _ _ _ _ _ hk
      have hr' : s.task? t = some r := hr
      have hph2 : ph0 = 2 := by
        have := S.X.span.phase d0 hpm hpa t m' preds' ph0 tot0 hd0k
        omega
      have hB := (h.dw d0 hpm hpa _ _ _ _ _ hd0k hti).2.2 hph2
      refine ⟨dwEndF d0.wake tot0 r, d0.wake + 1, ?_, (dwEndF_spec d0.wake tot0 r).2.2.2.2.2, ?_, ?_⟩
      · rw [htq]
        exact task?_updTask_eq s (dwEndF d0.wake tot0) (fun r => (dwEndF_spec d0.wake tot0 r).1) hr'
      · grind
      · grind
  · -- the body did not run
    have hd0' : d0 ∈ s'.procs := (S.mem d0).mpr (Or.inr (Or.inl ⟨hd0, e⟩))
    have hdd0 : d = d0 := hpw'.eq_of_pid hd hd0' (hdp.trans hd0p.symm)
    subst hdd0
    refine ⟨g1, fun hdd => ?_⟩
    obtain ⟨r, f, hr, hf, hlt, hle⟩ := g2 hdd
    obtain ⟨r', hr', haft⟩ := S.aft d hd0 hdd _ _ _ _ _ hd0k r hr
    exact ⟨r', f, hr', by rw [haft]; exact hf, hlt, hle⟩

theorem boundP_tw_step_at1 (S : BoundPTwStep env s0 s s' p new) {B : Time} (h : BoundPTw env s0 s B) :
    ∀ a ∈ s'.procs, a.alive = true → ∀ t m preds obs ing ret, a.k = .allocTask t m preds obs ing ret →
    t.isIngest = false → 1 ≤ a.pc → ∀ d ∈ s'.procs, d.pid = ret →
    (d.alive = true → a.wake ≤ d.wake + 1) ∧
    (d.alive = false → ∃ r f, s'.task? t = some r ∧ r.aft = some f ∧ a.wake < f + 1 ∧ f + 1 ≤ B) := by
  intro a ha haa t m preds obs ing ret hk hti hpc d hd hdp
  rcases (S.mem a).mp ha with hae | ⟨hold, _⟩ | hnw
  · exact boundP_tw_step_at1_self S h hae haa hk hti hd hdp
  · exact boundP_tw_step_at1_old S h hold haa hk hti hpc hd hdp
  · obtain ⟨_, hpc0, _⟩ := S.hnp a hnw
    omega

/-- **One block keeps the invariant**, at a deadline the new allocation processes meet. -/
theorem boundP_tw_step (S : BoundPTwStep env s0 s s' p new) {B : Time} (h : BoundPTw env s0 s B)
    (hats : ∀ o sc pa po fn, p.k = .allocTasks o sc pa po fn → ∀ q ∈ new, ∀ t m preds obs ing ret,
      q.k = .allocTask t m preds obs ing ret → t.isIngest = false →
      q.wake + ((bound_tw_W s0 t : Nat) : Time) + ((boundP_tw_R env s0 t : Nat) : Time) + 1 ≤ B) :
    BoundPTw env s0 s' B :=
  ⟨boundP_tw_step_dw S h, boundP_tw_step_at0 S h hats, boundP_tw_step_at1 S h⟩

end

end Topsim
