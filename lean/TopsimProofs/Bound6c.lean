/-
  Bound6c — timed liveness of the workflow-task workers (part 3): the invariant `BoundTw` with
  deadline `B`, the exact shape of a block of a task body, and the clause of the invariant about the
  task bodies after one block.
-/
import TopsimProofs.Bound6b

namespace Topsim

open KState Sys

/-! ### the invariant -/

/-- every live worker of a workflow task meets the deadline `B`:
  * a body before its wait is due `bound_tw_W + bound_tw_R + 1` before `B`, a waiting body `bound_tw_R + 1`
    before `B`, a working body 2 before `B`;
  * an allocation process before its first block is due `bound_tw_W + bound_tw_R + 1` before `B`;
  * an allocation process that has begun is due at most one unit after its live body, and strictly
    before `f + 1 ≤ B` when the body has ended and recorded the finish `f`. -/
structure BoundTw (s0 s : Sys) (B : Time) : Prop where
  dw : ∀ d ∈ s.procs, d.alive = true → ∀ t m preds ph tot, d.k = .doWork t m preds ph tot →
    t.isIngest = false →
    (ph = 0 → d.wake + ((bound_tw_W s0 t : Nat) : Time) + ((bound_tw_R s0 t : Nat) : Time) + 1 ≤ B) ∧
    (ph = 1 → d.wake + ((bound_tw_R s0 t : Nat) : Time) + 1 ≤ B) ∧
    (ph = 2 → d.wake + 2 ≤ B)
  at0 : ∀ a ∈ s.procs, a.alive = true → ∀ t m preds obs ing ret, a.k = .allocTask t m preds obs ing ret →
    t.isIngest = false → a.pc = 0 →
    a.wake + ((bound_tw_W s0 t : Nat) : Time) + ((bound_tw_R s0 t : Nat) : Time) + 1 ≤ B
  at1 : ∀ a ∈ s.procs, a.alive = true → ∀ t m preds obs ing ret, a.k = .allocTask t m preds obs ing ret →
    t.isIngest = false → 1 ≤ a.pc → ∀ d ∈ s.procs, d.pid = ret →
    (d.alive = true → a.wake ≤ d.wake + 1) ∧
    (d.alive = false → ∃ r f, s.task? t = some r ∧ r.aft = some f ∧ a.wake < f + 1 ∧ f + 1 ≤ B)

theorem BoundTw.mono {s0 s : Sys} {B B' : Time} (h : BoundTw s0 s B) (hB : B ≤ B') : BoundTw s0 s B' := by
  constructor
  · intro d hd hda t m preds ph tot hk hti
    obtain ⟨h0, h1, h2⟩ := h.dw d hd hda t m preds ph tot hk hti
    exact ⟨fun e => Rat.le_trans (h0 e) hB, fun e => Rat.le_trans (h1 e) hB, fun e => Rat.le_trans (h2 e) hB⟩
  · intro a ha haa t m preds obs ing ret hk hti hpc
    exact Rat.le_trans (h.at0 a ha haa t m preds obs ing ret hk hti hpc) hB
  · intro a ha haa t m preds obs ing ret hk hti hpc d hd hdp
    obtain ⟨h1, h2⟩ := h.at1 a ha haa t m preds obs ing ret hk hti hpc d hd hdp
    refine ⟨h1, fun e => ?_⟩
    obtain ⟨r, f, g1, g2, g3, g4⟩ := h2 e
    exact ⟨r, f, g1, g2, g3, Rat.le_trans g4 hB⟩

/-- a live body is due 2 before the deadline, whatever its phase -/
theorem BoundTw.dw_two {env : SimEnv} {s0 s : Sys} {B : Time} (h : BoundTw s0 s B) (X : BoundTwCtx env s0 s)
    {d : Proc} (hd : d ∈ s.procs) (hda : d.alive = true) {t m preds ph tot}
    (hk : d.k = .doWork t m preds ph tot) (hti : t.isIngest = false) : d.wake + 2 ≤ B := by
  obtain ⟨h0, h1, h2⟩ := h.dw d hd hda t m preds ph tot hk hti
  have hph := X.span.phase d hd hda t m preds ph tot hk
  have hR : ((1 : Nat) : Time) ≤ ((bound_tw_R s0 t : Nat) : Time) := by exact_mod_cast bound_tw_R_pos s0 t
  have hW : (0 : Time) ≤ ((bound_tw_W s0 t : Nat) : Time) := Rat.natCast_nonneg
  have hph' : ph = 0 ∨ ph = 1 ∨ ph = 2 := by omega
  rcases hph' with e | e | e
  · have := h0 e; push_cast at hR; grind
  · have := h1 e; push_cast at hR; grind
  · exact h2 e

/-! ### the exact shape of a block of a task body -/

inductive Sys.BoundTwDw (s : Sys) (now : Time) (orc : Oracle) (t : Tid) (m : Mid) (preds : List Tid)
    (ph tot : Nat) : Sys × PK × Yield → Prop
  | raised (ph' : Nat) (e : Err) : BoundTwDw s now orc t m preds ph tot (s, .doWork t m preds ph' tot, .raised e)
  | wait (w : Time) : ph = 0 → preds ≠ [] → s.transferWait now t m preds = .ok w →
      BoundTwDw s now orc t m preds ph tot (s, .doWork t m preds 1 tot, .timeout w)
  | start (r : TaskRec) (mm : Machine) (dur : Nat) : (ph = 1 ∨ (ph = 0 ∧ preds = [])) →
      s.task? t = some r → s.machine? m = some mm →
      nominalDuration r.flops r.data mm.cpu mm.bw r.duration = .ok dur →
      BoundTwDw s now orc t m preds ph tot
        ({ (s.updTask t (dwStartF now dur)) with starts := s.starts ++ [t], active := s.active ++ [(m, t)] },
          .doWork t m preds 2 (orc.bodyTotal t (s.starts.filter (fun x => !x.isIngest)).length dur),
          .timeout ((bodyWait (orc.bodyTotal t (s.starts.filter (fun x => !x.isIngest)).length dur) : Nat) : Rat))
  | finish : 2 ≤ ph →
      BoundTwDw s now orc t m preds ph tot
        ({ (s.updTask t (dwEndF now tot)) with active := s.active.erase (m, t) },
          .doWork t m preds 3 tot, .done)

theorem Sys.bound_tw_dwShape (s : Sys) (now : Time) (orc : Oracle) (t : Tid) (m : Mid) (preds : List Tid)
    (ph tot : Nat) : s.BoundTwDw now orc t m preds ph tot (s.doWorkBlock now orc t m preds ph tot) := by
  have hstart : (ph = 1 ∨ (ph = 0 ∧ preds = [])) →
      s.BoundTwDw now orc t m preds ph tot
        (match s.task? t, s.machine? m with
          | some r, some mm =>
            match nominalDuration r.flops r.data mm.cpu mm.bw r.duration with
            | .error e => (s, .doWork t m preds 2 tot, .raised e)
            | .ok dur =>
              let tot := match orc.total with
                | some t => t
                | none =>
                  if t.isIngest then dur
                  else match dictGet orc.delayTable dur with
                  | some t => t
                  | none =>
                    if orc.delayScript.isEmpty then dur
                    else dur + orc.delayScript.getD
                      ((s.starts.filter (fun x => !x.isIngest)).length % orc.delayScript.length) 0
              let s1 := s.updTask t (fun r => { r with status := .running, ast := some now, duration := dur })
              let s2 := { s1 with starts := s1.starts ++ [t], active := s1.active ++ [(m, t)] }
              (s2, .doWork t m preds 2 tot, .timeout (bodyWait tot : Nat))
          | _, _ => (s, .doWork t m preds 2 tot, .raised .other)) := by
    intro hph
    cases hr : s.task? t with
    | none => exact BoundTwDw.raised _ _
    | some r =>
      cases hmm : s.machine? m with
      | none => exact BoundTwDw.raised _ _
      | some mm =>
        simp only
        cases hd : nominalDuration r.flops r.data mm.cpu mm.bw r.duration with
        | error e => exact BoundTwDw.raised _ _
        | ok dur => exact BoundTwDw.start r mm dur hph hr hmm hd
  unfold Sys.doWorkBlock
  by_cases h0 : ph = 0
  · subst h0
    simp only [if_true]
    by_cases hp : preds.isEmpty = true
    · simp only [hp, if_true]
      have : preds = [] := by simpa using hp
      exact hstart (Or.inr ⟨rfl, this⟩)
    · simp only [hp]
      have hne : preds ≠ [] := by
        intro e; rw [e] at hp; simp at hp
      cases hw : s.transferWait now t m preds with
      | error e => exact BoundTwDw.raised _ _
      | ok w => exact BoundTwDw.wait w rfl hne hw
  · simp only [h0, if_false]
    by_cases h1 : ph = 1
    · subst h1
      simp only [if_true]
      exact hstart (Or.inl rfl)
    · simp only [h1, if_false]
      exact BoundTwDw.finish (by omega)

/-! ### what an allocation process creates -/

/-- a process created by a block of an allocation process: the block is the first one (the task is
not yet running), the new process is the body, with the next process id, and the allocation process
goes on, waiting for it -/
theorem Sys.bound_tw_at_spawn (s : Sys) (hpw : PW s) (now : Time) (t : Tid) (m : Mid) (preds : List Tid)
    (obs : Option Oid) (ing : Bool) (ret : Nat) {new : List Proc}
    (hnew : (s.allocTaskBlock now t m preds obs ing ret).1.procs = s.procs ++ new) {q : Proc} (hq : q ∈ new) :
    t ∉ s.cl.running ∧ q = { pid := s.nextPid, k := .doWork t m preds 0 0, wake := now } ∧
      (s.allocTaskBlock now t m preds obs ing ret).2.1 = .allocTask t m preds obs ing s.nextPid ∧
      (s.allocTaskBlock now t m preds obs ing ret).2.2 = .timeout 1 := by
  have hnil : (s.allocTaskBlock now t m preds obs ing ret).1.procs = s.procs → False := by
    intro h1
    have : new = [] := List.append_cancel_left (hnew.symm.trans (h1.trans (List.append_nil _).symm))
    rw [this] at hq; simp at hq
  rcases allocTaskBlock_cases s hpw now t m preds obs ing ret with
    ⟨_, e, _, heq⟩ | ⟨hnr, _, heq⟩ | ⟨_, _, heq⟩ | ⟨_, _, e, _, heq⟩ | ⟨_, _, _, heq⟩
  · exact absurd (by rw [heq]) hnil
  · rw [heq] at hnew ⊢
    have h1 : (((({ s with cl := (s.cl.allocBegin t m obs ing).1 }).updTask t
        (fun r => { r with status := .scheduled })).spawn (.doWork t m preds 0 0) now).1).procs =
        s.procs ++ [{ pid := s.nextPid, k := .doWork t m preds 0 0, wake := now }] := rfl
    have : new = [{ pid := s.nextPid, k := .doWork t m preds 0 0, wake := now }] :=
      List.append_cancel_left (hnew.symm.trans h1)
    rw [this] at hq
    exact ⟨hnr, by simpa using hq, rfl, rfl⟩
  · exact absurd (by rw [heq]) hnil
  · exact absurd (by rw [heq]) hnil
  · exact absurd (by rw [heq]; rfl) hnil

/-- a new process that is a task body was created by the first block of the allocation process of
its task -/
theorem bound_tw_new_dw {p q : Proc} (h : Sys.NewKind p.k q.k) {t m preds ph tot}
    (hk : q.k = .doWork t m preds ph tot) :
    ph = 0 ∧ ∃ obs ing ret, p.k = .allocTask t m preds obs ing ret := by
  cases hp : p.k with
  | allocTask t1 m1 preds1 obs ing ret =>
    rw [hp] at h
    simp only [Sys.NewKind] at h
    rw [hk] at h
    injection h with e1 e2 e3 e4 e5
    subst e1 e2 e3 e4
    exact ⟨rfl, obs, ing, ret, rfl⟩
  | telescope => rw [hp] at h; obtain ⟨o, e⟩ := h; rw [hk] at e; cases e
  | schedLoop => rw [hp] at h; obtain ⟨o, e⟩ := h; rw [hk] at e; cases e
  | bufferLoop => rw [hp] at h; rcases h with e | e <;> (rw [hk] at e; cases e)
  | allocIngest o tl => rw [hp] at h; rcases h with ⟨d, e⟩ | e <;> (rw [hk] at e; cases e)
  | provIngest o d => rw [hp] at h; obtain ⟨t', m', e⟩ := h; rw [hk] at e; cases e
  | allocTasks o sc pa po fn => rw [hp] at h; obtain ⟨t', m', c', e⟩ := h; rw [hk] at e; cases e
  | monitor => rw [hp] at h; exact absurd h (by simp [Sys.NewKind])
  | clusterLoop => rw [hp] at h; exact absurd h (by simp [Sys.NewKind])
  | ingestStream o tl => rw [hp] at h; exact absurd h (by simp [Sys.NewKind])
  | doWork t1 m1 p1 ph1 tot1 => rw [hp] at h; exact absurd h (by simp [Sys.NewKind])
  | hot2cold cur => rw [hp] at h; exact absurd h (by simp [Sys.NewKind])
  | cold2hot cur => rw [hp] at h; exact absurd h (by simp [Sys.NewKind])

/-- a new process that is an allocation process was created by the provisioner (for an ingest task)
or by `allocate_tasks` -/
theorem bound_tw_new_at {p q : Proc} (h : Sys.NewKind p.k q.k) {t m preds obs ing ret}
    (hk : q.k = .allocTask t m preds obs ing ret) :
    (ing = true ∧ ∃ o d, p.k = .provIngest o d) ∨
    (ing = false ∧ ∃ o sc pa po fn, p.k = .allocTasks o sc pa po fn) := by
  cases hp : p.k with
  | provIngest o d =>
    rw [hp] at h
    obtain ⟨t', m', e⟩ := h
    rw [hk] at e
    injection e with _ _ _ _ e5 _
    exact Or.inl ⟨e5, o, d, rfl⟩
  | allocTasks o sc pa po fn =>
    rw [hp] at h
    obtain ⟨t', m', c', e⟩ := h
    rw [hk] at e
    injection e with _ _ _ _ e5 _
    exact Or.inr ⟨e5, o, sc, pa, po, fn, rfl⟩
  | telescope => rw [hp] at h; obtain ⟨o, e⟩ := h; rw [hk] at e; cases e
  | schedLoop => rw [hp] at h; obtain ⟨o, e⟩ := h; rw [hk] at e; cases e
  | bufferLoop => rw [hp] at h; rcases h with e | e <;> (rw [hk] at e; cases e)
  | allocIngest o tl => rw [hp] at h; rcases h with ⟨d, e⟩ | e <;> (rw [hk] at e; cases e)
  | allocTask t1 m1 preds1 obs1 ing1 ret1 =>
    rw [hp] at h; simp only [Sys.NewKind] at h; rw [hk] at h; cases h
  | monitor => rw [hp] at h; exact absurd h (by simp [Sys.NewKind])
  | clusterLoop => rw [hp] at h; exact absurd h (by simp [Sys.NewKind])
  | ingestStream o tl => rw [hp] at h; exact absurd h (by simp [Sys.NewKind])
  | doWork t1 m1 p1 ph1 tot1 => rw [hp] at h; exact absurd h (by simp [Sys.NewKind])
  | hot2cold cur => rw [hp] at h; exact absurd h (by simp [Sys.NewKind])
  | cold2hot cur => rw [hp] at h; exact absurd h (by simp [Sys.NewKind])

end Topsim
