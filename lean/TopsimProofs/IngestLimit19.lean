/-
  IngestLimit19 — the three shapes of a supervisor's block (first block,
  count-down, last block) and the ingest timing invariant across each.
-/
import TopsimProofs.IngestLimit18

namespace Topsim
namespace Sys

open Cluster

theorem il_allocIngestBlock_first {s : Sys} (hnd : (s.obs.map (·.id)).Nodup) {p : Proc} {o : Oid} {tl : Int}
    {ob : Obs} {n : Nat} (hpc : p.pc = 0) (hob : s.obs? o = some ob) (hast : ob.ast = some n)
    (hw : p.wake = (n : Time)) (hst : ob.status = .waiting) :
    s.allocIngestBlock p.wake p.pc o tl =
      ((((s.spawn (.provIngest o ob.ingestDemand) p.wake).1.spawn (.ingestStream o 0) p.wake).1.updObs o
          (fun r => { r with status := .running })),
        .allocIngest o ((ob.duration : Int) - 1), .timeout 1) := by
  unfold allocIngestBlock
  simp only [hpc, if_true]
  rw [hw, il_natNow_natCast, il_updObs_ast_same hnd hob hast]
  unfold allocIngestIter
  simp [hob, hst]

theorem il_allocIngestBlock_later {s : Sys} {p : Proc} {o : Oid} {tl : Int} {ob : Obs} (hpc : p.pc ≠ 0)
    (hob : s.obs? o = some ob) (hst : ob.status ≠ .waiting) :
    (ob.status ≠ .finished → tl > 0 →
      s.allocIngestBlock p.wake p.pc o tl = (s, .allocIngest o (tl - 1), .timeout 1)) ∧
    (ob.status = .finished ∨ ¬ tl > 0 →
      s.allocIngestBlock p.wake p.pc o tl =
        ({ s with provIngest := s.provIngest - (ob.ingestDemand : Int), cl := s.cl.cleanUpIngest },
          .allocIngest o tl, .done)) := by
  unfold allocIngestBlock
  simp only [hpc, if_false]
  unfold allocIngestIter
  simp only [hob]
  constructor
  · intro h1 h2
    simp [h1, hst, h2]
  · intro h1
    by_cases hf : ob.status = .finished
    · simp [hf]
    · rcases h1 with h1 | h1
      · exact absurd h1 hf
      · simp [hf, hst, h1]

theorem il_cast_succ (a j : Nat) : ((a + j : Nat) : Time) + 1 = ((a + (j + 1) : Nat) : Time) := by
  rw [← Nat.add_assoc, Rat.natCast_add (a + j) 1]
  rfl

theorem ilti_step_allocIngest {s : Sys} (hs : SInv s) (h : ILTI s) (hil : ILInv s) {pid : Nat} {p : Proc}
    (hp : s.proc? pid = some p) (ha : p.alive = true)
    (hmin : ∀ q ∈ s.procs, q.alive = true → p.wake ≤ q.wake) (orc : Oracle)
    {o : Oid} {tl : Int} (hk : p.k = .allocIngest o tl)
    (hpol : ∀ t ∈ s.procs, t.k = .telescope → t.alive = true → p.wake + 1 ≤ t.wake) :
    ILTI (s.resume pid orc).1 := by
  obtain ⟨hpm, hpid⟩ := proc?_some hp
  subst hpid
  have hpw := hs.pw
  have hilc : ILC s.procs s.ilDemand s.cl.ilEntries s.provIngest s.maxIngest s.admitted := hil
  have hb : s.block p orc = s.allocIngestBlock p.wake p.pc o tl := by
    unfold block; simp only [hk]
  obtain ⟨f1, f2, f3⟩ := il_resume_fields s p.pid orc p hp ha
  have hpai : p.k.aiObs = some o := by rw [hk]; rfl
  have hothers : ∀ q ∈ s.procs, q.pid ≠ p.pid → q.k.aiObs ≠ some o := by
    intro q hq hne e
    exact hne (hilc.aiUniq q hq p hpm o e hpai)
  by_cases hpc : p.pc = 0
  · -- the first block
    obtain ⟨n, ob, hw, hob, hast, hst⟩ := h.aiNew p hpm o tl hk hpc
    have hst := hst ha
    have hblk := il_allocIngestBlock_first hs.eg.obsNodup (tl := tl) hpc hob hast hw hst
    rw [hblk] at hb
    have hD := h.durPos ob (il_obs?_mem hob).1
    let qPI : Proc := { pid := s.nextPid, k := .provIngest o ob.ingestDemand, wake := p.wake }
    let qIS : Proc := { pid := s.nextPid + 1, k := .ingestStream o 0, wake := p.wake }
    have hnew : (s.block p orc).1.procs = s.procs ++ [qPI, qIS] := by
      rw [hb]; simp [spawn, updObs, qPI, qIS]
    obtain ⟨m1, m2, m3, m4⟩ := il_resume_procs_new hpw hp ha orc hnew (by
      intro q hq
      simp only [List.mem_cons, List.not_mem_nil, or_false] at hq
      rcases hq with rfl | rfl <;> simp [qPI, qIS])
    have hbk : (s.block p orc).2.1 = .allocIngest o ((ob.duration : Int) - 1) := by rw [hb]
    have hby : (s.block p orc).2.2 = .timeout 1 := by rw [hb]
    rw [hb] at f1 f2 f3
    have hobs' : ∀ o', (s.resume p.pid orc).1.obs? o' =
        (s.obs? o').map (fun r => if r.id = o then { r with status := .running } else r) := by
      intro o'
      have : (s.resume p.pid orc).1.obs = (s.updObs o (fun r => { r with status := .running })).obs := f1
      rw [il_obs?_congr' this]
      exact obs?_updObs s o o' _ (fun _ => rfl)
    apply h.aiStep hs hil hpw hpm hpai (p' := fin (s.block p orc).2.1 (s.block p orc).2.2 p.wake p)
      (new := [qPI, qIS]) (by simp) m2 ⟨_, by rw [fin_k, hbk]⟩ (by simp) hothers
    · -- start time and duration are kept
      constructor
      · intro ob' hob'
        rw [f1] at hob'
        simp only [Sys.updObs, List.mem_map] at hob'
        obtain ⟨r, hr, rfl⟩ := hob'
        exact ⟨r, hr, by split <;> rfl⟩
      · intro o' ob' hob'
        rw [hobs' o', hob']
        exact ⟨_, rfl, fun _ => by simp only; split <;> rfl, by simp only; split <;> rfl⟩
    · intro o' hne
      rw [hobs' o']
      cases hx : s.obs? o' with
      | none => rfl
      | some r =>
        have := (il_obs?_mem hx).2
        simp [this, hne]
    · rw [f2]; rfl
    · rw [f2]; rfl
    · rw [f3]; rfl
    · exact m1
    · exact m3
    · intro q hq
      simp only [List.mem_cons, List.not_mem_nil, or_false] at hq
      rcases hq with rfl | rfl <;> simp [qPI, qIS, PK.aiObs, PK.ilAtTel]
    · intro q hq o' d' hqk
      simp only [List.mem_cons, List.not_mem_nil, or_false] at hq
      rcases hq with rfl | rfl
      · simp only [qPI, PK.provIngest.injEq] at hqk
        obtain ⟨rfl, _⟩ := hqk
        refine ⟨_, n, by rw [hobs' o, hob]; rfl, ?_, hw⟩
        have := (il_obs?_mem hob).2
        simp [this, hast]
      · simp [qIS] at hqk
    · -- the supervisor after its first block
      intro _ tl' hk'
      rw [fin_k, hbk] at hk'
      injection hk' with _ e2
      refine ⟨_, n, 1, by rw [hobs' o, hob]; rfl, ?_, Nat.le_refl _, ?_, ?_⟩
      · have := (il_obs?_mem hob).2
        simp [this, hast]
      · rw [hby, il_fin_wake_timeout, hw]
        exact il_cast_succ n 0
      · have := (il_obs?_mem hob).2
        simp only [this, if_true]
        omega
    · intro _ ob' a' hob' hfin
      rw [hobs' o, hob] at hob'
      have := (il_obs?_mem hob).2
      simp only [Option.map_some, this, if_true, Option.some.injEq] at hob'
      rw [← hob'] at hfin
      simp at hfin
    · intro hdead
      rw [hby] at hdead
      rw [fin_alive_timeout, ha] at hdead
      exact absurd hdead (by simp)
  · -- a later block
    obtain ⟨ob, a, j, hob, hast, hj, hw, htl⟩ := h.aiRun p hpm ha (by omega) o tl hk
    have hD := h.durPos ob (il_obs?_mem hob).1
    have hst : ob.status ≠ .waiting := by
      intro hwt
      obtain ⟨ob', hob', hw'⟩ := hs.eg.adm o (hilc.aiAdm p hpm o hpai)
      rw [hob] at hob'
      cases hob'
      obtain ⟨w, hw1, _, hwc, ⟨tlw, hwk⟩, _⟩ := hw' hwt
      have := hilc.aiUniq w hw1 p hpm o (by rw [hwk]; rfl) hpai
      have : w = p := hpw.eq_of_pid hw1 hpm this
      rw [this] at hwc
      exact hpc hwc
    obtain ⟨hT, hE⟩ := il_allocIngestBlock_later (p := p) (tl := tl) hpc hob hst
    have hnewnil : ∀ (X : Sys × PK × Yield), s.block p orc = X → X.1.procs = s.procs →
        (s.block p orc).1.procs = s.procs ++ [] := by
      intro X hX hpr; rw [hX, hpr]; simp
    by_cases hcont : ob.status ≠ .finished ∧ tl > 0
    · -- the count-down
      have hblk := hT hcont.1 hcont.2
      rw [hblk] at hb
      obtain ⟨m1, m2, m3, _⟩ := il_resume_procs_new hpw hp ha orc (new := []) (hnewnil _ hb rfl) (by simp)
      have hbk : (s.block p orc).2.1 = .allocIngest o (tl - 1) := by rw [hb]
      have hby : (s.block p orc).2.2 = .timeout 1 := by rw [hb]
      rw [hb] at f1 f2 f3
      have ho : ∀ o', (s.resume p.pid orc).1.obs? o' = s.obs? o' := il_obs?_congr' f1
      apply h.aiStep hs hil hpw hpm hpai (p' := fin (s.block p orc).2.1 (s.block p orc).2.2 p.wake p)
        (new := []) (by simp) m2 ⟨_, by rw [fin_k, hbk]⟩ (by simp) hothers (IlObsKeep.of_eq f1)
        (fun o' _ => ho o') (by rw [f2]) (by rw [f2]) f3 m1 m3 (by simp) (by simp)
      · intro _ tl' hk'
        rw [fin_k, hbk] at hk'
        injection hk' with _ e2
        refine ⟨ob, a, j + 1, by rw [ho]; exact hob, hast, by omega, ?_, by omega⟩
        rw [hby, il_fin_wake_timeout, hw]
        exact il_cast_succ a j
      · intro _ ob' a' hob' hfin hast'
        rw [ho, hob] at hob'
        cases hob'
        exact absurd hfin hcont.1
      · intro hdead
        rw [hby, fin_alive_timeout, ha] at hdead
        exact absurd hdead (by simp)
    · -- the last block
      have hcond : ob.status = .finished ∨ ¬ tl > 0 := by
        by_cases hf : ob.status = .finished
        · exact Or.inl hf
        · right; intro ht; exact hcont ⟨hf, ht⟩
      have hblk := hE hcond
      rw [hblk] at hb
      obtain ⟨m1, m2, m3, _⟩ := il_resume_procs_new hpw hp ha orc (new := []) (hnewnil _ hb rfl) (by simp)
      have hbk : (s.block p orc).2.1 = .allocIngest o tl := by rw [hb]
      have hby : (s.block p orc).2.2 = .done := by rw [hb]
      rw [hb] at f1 f2 f3
      have ho : ∀ o', (s.resume p.pid orc).1.obs? o' = s.obs? o' := il_obs?_congr' f1
      -- the supervisor ends at `ast + duration` at the earliest
      have hDj : ob.duration ≤ j := by
        rcases hcond with hf | ht
        · have := h.aiFin p hpm ha o tl hk ob a hob hf hast
          rw [hw] at this
          have := Rat.natCast_le_natCast.mp this
          omega
        · omega
      apply h.aiStep hs hil hpw hpm hpai (p' := fin (s.block p orc).2.1 (s.block p orc).2.2 p.wake p)
        (new := []) (by simp) m2 ⟨_, by rw [fin_k, hbk]⟩ (by simp) hothers (IlObsKeep.of_eq f1)
        (fun o' _ => ho o') (by rw [f2]; rfl) (by rw [f2]; rfl) f3 m1 m3 (by simp) (by simp)
      · intro hal; rw [hby] at hal; exact absurd hal (by simp)
      · intro hal; rw [hby] at hal; exact absurd hal (by simp)
      · -- the allocation processes of `o` that still hold a machine
        intro _ e he heo
        rcases mem_ilEntries.mp he with hpd | ⟨hro, hi⟩
        · -- before its first block: it would be due before the supervisor
          exfalso
          obtain ⟨o1, ho1, q, hq, hqa, hqc, preds, ret, hqk⟩ := h.entPend e hpd
          rw [heo] at ho1; injection ho1 with ho1; subst ho1
          obtain ⟨_, _, ob', a', hob', hast', hqw⟩ := h.atPend q hq hqa hqc _ _ _ _ _ hqk
          rw [hob] at hob'; cases hob'
          rw [hast] at hast'; cases hast'
          have := hmin q hq hqa
          rw [hw, hqw] at this
          have := Rat.natCast_le_natCast.mp this
          omega
        · obtain ⟨o1, ho1, q, hq, hqa, hqc, preds, ret, hqk⟩ := h.entRun e hro hi
          rw [heo] at ho1; injection ho1 with ho1; subst ho1
          obtain ⟨_, r, hr, hrp, hqw, ph, tot, hrk, hph, ob', a', b, hob', hast', hrw, _, hbd⟩ :=
            h.atRun q hq hqa hqc _ _ _ _ _ hqk
          rw [hob] at hob'; cases hob'
          rw [hast] at hast'; cases hast'
          -- the task body has ended
          have hrdead : r.alive = false := by
            cases hra : r.alive with
            | false => rfl
            | true =>
              exfalso
              have := hmin r hr hra
              rw [hw, hrw] at this
              have := Rat.natCast_le_natCast.mp this
              omega
          have hqne : q.pid ≠ p.pid := by
            intro e'
            have : q = p := hpw.eq_of_pid hq hpm e'
            rw [this, hk] at hqk; exact absurd hqk (by simp)
          refine ⟨q, hq, hqne, hqa, hqc, ⟨preds, ret, hqk, ?_⟩, ?_⟩
          · intro r' hr' hrp'
            have : r' = r := hpw.eq_of_pid hr' hr (hrp'.trans hrp.symm)
            rw [this]
            refine ⟨hrdead, ?_⟩
            -- F13: the finish the body recorded (its last block + 1) is reached when the process polls
            have h1 := hmin q hq hqa
            have h2 : ((b + 1 : Nat) : Time) ≤ ((a + j : Nat) : Time) :=
              Rat.natCast_le_natCast.mpr (by omega)
            rw [Rat.natCast_add b 1] at h2
            have h3 : ((1 : Nat) : Time) = 1 := rfl
            rw [h3] at h2
            rw [hw] at h1
            rw [hrw]
            grind
          · intro t ht htk hta
            have h1 := hpol t ht htk hta
            have h2 : ((b + 1 : Nat) : Time) ≤ ((a + j : Nat) : Time) :=
              Rat.natCast_le_natCast.mpr (by omega)
            rw [Rat.natCast_add b 1] at h2
            rw [hrw] at hqw
            rw [hw] at h1
            have h3 : ((1 : Nat) : Time) = 1 := rfl
            rw [h3] at h2
            grind

end Sys
end Topsim
