/-
  PlanTraj2 — what one block does to the plans: a block other than the scheduler
  loop's planning block maps the plan table through a function that keeps every
  plan's observation, edge list and estimate, and only drops from its task list
  tasks whose record is FINISHED (`PlanMap`).
-/
import TopsimProofs.PlanTraj1

namespace Topsim
namespace Sys

/-- `pl'` is `pl` after a block: same observation, same edges, same estimate; the task list is a
sublist, and `fin` holds of every task that was dropped -/
structure PRel (fin : Tid → Prop) (pl pl' : Plan) : Prop where
  obs : pl'.obs = pl.obs
  edges : pl'.edges = pl.edges
  est : pl'.est = pl.est
  sub : pl'.tasks.Sublist pl.tasks
  dropped : ∀ t ∈ pl.tasks, t ∉ pl'.tasks → fin t

theorem PRel.refl (fin : Tid → Prop) (pl : Plan) : PRel fin pl pl :=
  ⟨rfl, rfl, rfl, List.Sublist.refl _, fun _ h hn => absurd h hn⟩

theorem PRel.trans {fin : Tid → Prop} {a b c : Plan} (h1 : PRel fin a b) (h2 : PRel fin b c) : PRel fin a c := by
  refine ⟨h2.obs.trans h1.obs, h2.edges.trans h1.edges, h2.est.trans h1.est, h2.sub.trans h1.sub, ?_⟩
  intro t ht hn
  by_cases hb : t ∈ b.tasks
  · exact h2.dropped t hb hn
  · exact h1.dropped t ht hb

/-- the plan table is mapped through a function in relation `PRel fin`: no plan is added, dropped
or moved -/
def PlanMap (fin : Tid → Prop) (s X : Sys) : Prop :=
  ∃ F : Plan → Plan, X.plans = s.plans.map F ∧ ∀ pl, PRel fin pl (F pl)

theorem PlanMap.refl (fin : Tid → Prop) (s : Sys) : PlanMap fin s s := ⟨id, by simp, fun pl => PRel.refl fin pl⟩
theorem PlanMap.of_eq {fin : Tid → Prop} {s X : Sys} (h : X.plans = s.plans) : PlanMap fin s X :=
  ⟨id, by simp [h], fun pl => PRel.refl fin pl⟩
theorem PlanMap.trans {fin : Tid → Prop} {a b c : Sys} (h1 : PlanMap fin a b) (h2 : PlanMap fin b c) :
    PlanMap fin a c := by
  obtain ⟨F1, e1, t1⟩ := h1
  obtain ⟨F2, e2, t2⟩ := h2
  exact ⟨F2 ∘ F1, by rw [e2, e1, List.map_map], fun pl => (t1 pl).trans (t2 (F1 pl))⟩

theorem PlanMap.updPlan (fin : Tid → Prop) (s : Sys) (oid : Oid) (F : Plan → Plan) (hF : ∀ pl, PRel fin pl (F pl)) :
    PlanMap fin s (s.updPlan oid F) :=
  ⟨fun pl => if pl.obs = oid then F pl else pl, rfl, fun pl => by
    show PRel fin pl (if pl.obs = oid then F pl else pl)
    split
    · exact hF pl
    · exact PRel.refl fin pl⟩

theorem PlanMap.of_plans_eq {fin : Tid → Prop} {s X Y : Sys} (h : PlanMap fin s X) (e : Y.plans = X.plans) :
    PlanMap fin s Y := h.trans (PlanMap.of_eq e)

/-- every plan of the new table stands for an old one -/
theorem PlanMap.back {fin : Tid → Prop} {s X : Sys} (h : PlanMap fin s X) {pl' : Plan} (hp : pl' ∈ X.plans) :
    ∃ pl ∈ s.plans, PRel fin pl pl' := by
  obtain ⟨F, e, t⟩ := h
  rw [e] at hp
  obtain ⟨pl, hpl, rfl⟩ := List.mem_map.mp hp
  exact ⟨pl, hpl, t pl⟩

/-- every old plan is still there -/
theorem PlanMap.fwd {fin : Tid → Prop} {s X : Sys} (h : PlanMap fin s X) {pl : Plan} (hp : pl ∈ s.plans) :
    ∃ pl' ∈ X.plans, PRel fin pl pl' := by
  obtain ⟨F, e, t⟩ := h
  exact ⟨F pl, by rw [e]; exact List.mem_map_of_mem hp, t pl⟩

/-! ### `allocate_tasks` -/

theorem planMap_atStart (fin : Tid → Prop) (s : Sys) (now : Time) (pc : Nat) (oid : Oid) :
    PlanMap fin s (atStart s now pc oid) := by
  rcases atStart_plans s now pc oid with h | h
  · exact PlanMap.of_eq h
  · exact (PlanMap.updPlan fin s oid (fun p => { p with ast := some (natNow now) })
      (fun pl => ⟨rfl, rfl, rfl, List.Sublist.refl _, fun _ h hn => absurd h hn⟩)).of_plans_eq h

theorem planMap_updateCurrentPlan (a : Sys) (oid : Oid) :
    PlanMap (fun t => tstat a t = .finished) a (a.updateCurrentPlan oid) := by
  have hpl := updateCurrentPlan_plans a oid
  split at hpl
  · exact PlanMap.of_eq hpl
  · refine (PlanMap.updPlan _ a oid
      (fun p => { p with tasks := p.tasks.filter (fun t => (a.taskView t).status ≠ .finished) }) ?_).of_plans_eq hpl
    intro pl
    refine ⟨rfl, rfl, rfl, List.filter_sublist, ?_⟩
    intro t ht hn
    by_cases hf : tstat a t = .finished
    · exact hf
    · exact absurd (List.mem_filter.mpr ⟨ht, by simpa [tstat] using hf⟩) hn

theorem planMap_atS3 (fin : Tid → Prop) (s1 : Sys) (out : AlgOut) (oid : Oid) : PlanMap fin s1 (atS3 s1 out oid) := by
  refine ⟨fun p => if p.obs = oid then { p with status := out.status } else p, atS3_plans s1 out oid, ?_⟩
  intro pl
  show PRel fin pl (if pl.obs = oid then { pl with status := out.status } else pl)
  split
  · exact ⟨rfl, rfl, rfl, List.Sublist.refl _, fun _ h hn => absurd h hn⟩
  · exact PRel.refl fin pl

theorem planMap_allocTasksIter (a : Sys) (now : Time) (orc : Oracle) (oid : Oid)
    (sc pa : List (Tid × Mid)) (po : List Tid) :
    PlanMap (fun t => tstat a t = .finished) a (a.allocTasksIter now orc oid sc pa po).1 := by
  have h1 := planMap_updateCurrentPlan a oid
  have h3 : ∀ out, PlanMap (fun t => tstat a t = .finished) a (atS3 (a.updateCurrentPlan oid) out oid) :=
    fun out => h1.trans (planMap_atS3 _ _ out oid)
  have hout := allocTasksIter_out a now orc oid sc pa po
  generalize a.allocTasksIter now orc oid sc pa po = r at hout ⊢
  cases hout with
  | noPlan _ => exact h1
  | algErr _ _ _ _ => exact h1
  | finish plan out _ _ _ _ _ _ => exact (h3 out).of_plans_eq rfl
  | finishBad plan out _ _ _ _ _ _ => exact (h3 out).of_plans_eq rfl
  | finishWait plan out _ _ _ _ _ => exact (h3 out).of_plans_eq rfl
  | idle plan out _ _ _ _ => exact h3 out
  | alloc plan out y _ _ _ _ =>
    exact (h3 out).of_plans_eq (processCurrentSchedule_plans _ _ _ _ _)

theorem planMap_allocTasksBlock (s : Sys) (now : Time) (orc : Oracle) (pc : Nat)
    (oid : Oid) (sc pa : List (Tid × Mid)) (po : List Tid) (fn : Bool) :
    PlanMap (fun t => tstat s t = .finished) s (s.allocTasksBlock now orc pc oid sc pa po fn).1 := by
  cases fn with
  | true => rw [allocTasksBlock_fin]; exact PlanMap.refl _ s
  | false =>
    rw [allocTasksBlock_eq]
    refine (planMap_atStart _ s now pc oid).trans ?_
    have h := planMap_allocTasksIter (atStart s now pc oid) now orc oid sc pa po
    have e : (fun t => tstat (atStart s now pc oid) t = TStatus.finished) = (fun t => tstat s t = TStatus.finished) := by
      funext t; rw [atStart_tstat]
    rw [e] at h
    exact h

/-! ### every block -/

/-- what a block does to the plan table: it maps it through a function that keeps observation,
edges and estimate of every plan and drops from its task list only tasks whose record is FINISHED
(before the block); or it is the scheduler loop planning observation `oid`, which drops the plans
of `oid` (none, when each observation is planned once) and appends the new plan -/
theorem block_plansShape (s : Sys) (p : Proc) (orc : Oracle) :
    PlanMap (fun t => tstat s t = .finished) s (s.block p orc).1 ∨
    (p.k = .schedLoop ∧ ∃ oid o recs plan, s.buf.nextForProcessing.2 = some oid ∧ s.obs? oid = some o ∧
      (recs, plan) = (if s.staticPlan then staticPlanOf o (natNow p.wake) orc.plan
        else batchPlan o (natNow p.wake)) ∧
      (s.block p orc).1.tasks = s.tasks ++ recs ∧
      (s.block p orc).1.plans = s.plans.filter (·.obs ≠ oid) ++ [plan]) := by
  by_cases h1 : p.k.tag = "schedLoop"
  · have hk : p.k = .schedLoop := by cases hk : p.k <;> rw [hk] at h1 <;> simp [PK.tag] at h1 <;> rfl
    rw [block_schedLoop orc hk]
    rcases schedLoopBlock_buf s p.wake orc with ⟨_, hpl, _, _, _⟩ | ⟨oid, o, recs, plan, hnx, hob, hrp, _, hpl, ht, _⟩
    · exact Or.inl (PlanMap.of_eq hpl)
    · exact Or.inr ⟨hk, oid, o, recs, plan, hnx, hob, hrp, ht, hpl⟩
  · left
    by_cases h2 : p.k.tag = "allocTasks"
    · cases hk : p.k <;> rw [hk] at h2 <;> simp [PK.tag] at h2
      rw [block_allocTasks orc hk]
      exact planMap_allocTasksBlock _ _ _ _ _ _ _ _ _
    · exact PlanMap.of_eq (block_plans s p orc h1 h2)

theorem resume_plansShape (s : Sys) (pid : Nat) (orc : Oracle) :
    PlanMap (fun t => tstat s t = .finished) s (s.resume pid orc).1 ∨
    (∃ p, s.proc? pid = some p ∧ p.alive = true ∧ p.k = .schedLoop ∧
      ∃ oid o recs plan, s.buf.nextForProcessing.2 = some oid ∧ s.obs? oid = some o ∧
      (recs, plan) = (if s.staticPlan then staticPlanOf o (natNow p.wake) orc.plan
        else batchPlan o (natNow p.wake)) ∧
      (s.resume pid orc).1.tasks = s.tasks ++ recs ∧
      (s.resume pid orc).1.plans = s.plans.filter (·.obs ≠ oid) ++ [plan]) := by
  cases hp : s.proc? pid with
  | none => rw [resume_none s pid orc hp]; exact Or.inl (PlanMap.refl _ s)
  | some p =>
    cases ha : p.alive with
    | false => rw [resume_dead s pid orc p hp ha]; exact Or.inl (PlanMap.refl _ s)
    | true =>
      have hpl := resume_plans s pid orc p hp ha
      have htk := (resume_core s pid orc p hp ha).tasks
      rcases block_plansShape s p orc with h | ⟨hk, oid, o, recs, plan, g1, g2, g3, g4, g5⟩
      · exact Or.inl (h.of_plans_eq hpl)
      · refine Or.inr ⟨p, rfl, ha, hk, oid, o, recs, plan, g1, g2, g3, ?_, by rw [hpl]; exact g5⟩
        rw [htk]; exact g4

end Sys
end Topsim
