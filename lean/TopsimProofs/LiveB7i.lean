/-
  LiveB7i — BatchProcessing: the declarations of Live7i that depend on the configuration hypotheses,
  for `LiveCfgB` / `NcCfgB` (`s0.alg = .batch …`).  Generated from Live7i.lean by renaming (suffix `_B`);
  the algorithm-dependent ones are rewritten (see the comments).
-/
import TopsimProofs.Live7i
import TopsimProofs.LiveB5
import TopsimProofs.LiveB7
import TopsimProofs.LiveB7c
import TopsimProofs.LiveB7d
import TopsimProofs.LiveB7e
import TopsimProofs.LiveB7g
import TopsimProofs.LiveB7h

namespace Topsim
open KState Sys
namespace Sys

theorem l7q_step_B {s0 s s' : Sys} {p : Proc} {orc : Oracle} (L : L7LibB s0 s) (h : L7Step s s' p orc)
    (Q : L7Q s) : L7Q s' := by
  have hpm := h.mem
  have hs := L.sinv
  obtain ⟨new, hnewe, hnewp⟩ := block_newp s p orc
  have hm := h.memSpec hs hnewe
  -- a witness other than the process that ran is still there
  have keep : ∀ o, (∀ sc pa po, p.k ≠ .allocTasks o sc pa po false) →
      (∃ q ∈ s.procs, q.alive = true ∧ ∃ sc pa po, q.k = .allocTasks o sc pa po false) →
      ∃ q ∈ s'.procs, q.alive = true ∧ ∃ sc pa po, q.k = .allocTasks o sc pa po false := by
    rintro o hne ⟨q, hq, hqa, sc, pa, po, hqk⟩
    refine ⟨q, (hm q).mpr (Or.inr (Or.inl ⟨hq, ?_⟩)), hqa, sc, pa, po, hqk⟩
    intro e
    have : q = p := hs.pw.eq_of_pid hq hpm e
    subst this
    exact hne sc pa po hqk
  by_cases h1 : p.k.tag = "schedLoop"
  · have hk : p.k = .schedLoop := by cases hk : p.k <;> rw [hk] at h1 <;> simp [PK.tag] at h1 <;> rfl
    have hne : ∀ o sc pa po, p.k ≠ .allocTasks o sc pa po false := by
      intro o sc pa po e; rw [hk] at e; cases e
    have hq' : s'.queue = (s.schedLoopBlock p.wake orc).1.queue := by rw [h.queue, block_schedLoop orc hk]
    have hb' : s'.buf = (s.schedLoopBlock p.wake orc).1.buf := by rw [h.buf, block_schedLoop orc hk]
    rw [block_schedLoop orc hk] at hnewe
    rcases schedLoopBlock_buf s p.wake orc with ⟨hbuf, _, _, hqueue, _⟩ |
      ⟨oid, ob, recs, plan, hnx, _, _, hbuf, _, _, hcase⟩
    · rw [hqueue] at hq'
      rw [hbuf] at hb'
      exact ⟨by rw [hq']; exact Q.qNodup, by rw [hq', hb']; exact Q.qSched,
        by rw [hb']; exact fun o ho => keep o (hne o) (Q.schedP o ho)⟩
    · obtain ⟨_, hst, g3, _⟩ := bufList_next s.buf oid hnx
      rw [hbuf] at hb'
      rcases hcase with ⟨hin, _, _⟩ | ⟨hnin, hqueue, hprocs⟩
      · exact (l7_stored_not_sched L.bufi hst (Q.qSched oid hin)).elim
      · rw [hqueue] at hq'
        have hnewq : new = [{ pid := s.nextPid, k := .allocTasks oid [] [] [] false, wake := p.wake }] :=
          List.append_cancel_left (hnewe.symm.trans hprocs)
        refine ⟨?_, ?_, ?_⟩
        · rw [hq', List.nodup_append]
          refine ⟨Q.qNodup, by simp, ?_⟩
          intro a ha b hb
          simp only [List.mem_singleton] at hb
          subst hb
          exact fun e => hnin (e ▸ ha)
        · rw [hq', hb', g3]
          intro o ho
          rcases List.mem_append.mp ho with h2 | h2
          · exact List.mem_append_left _ (Q.qSched o h2)
          · exact List.mem_append_right _ h2
        · rw [hb', g3]
          intro o ho
          rcases List.mem_append.mp ho with h2 | h2
          · exact keep o (hne o) (Q.schedP o h2)
          · simp only [List.mem_singleton] at h2
            subst h2
            exact ⟨{ pid := s.nextPid, k := .allocTasks o [] [] [] false, wake := p.wake },
              (hm _).mpr (Or.inr (Or.inr (by rw [hnewq]; simp))), rfl, [], [], [], rfl⟩
  · by_cases h2 : p.k.tag = "allocTasks"
    · cases hk : p.k <;> rw [hk] at h2 <;> simp [PK.tag] at h2
      rename_i o0 sc pa po fn
      rcases blockEvents_allocTasks (s := s) orc hk with ⟨hfn, _, hblk⟩ | ⟨hfn, c, u, hat, _⟩
      · -- a stopped process
        subst hfn
        have hq' : s'.queue = s.queue := by rw [h.queue, hblk]
        have hb' : s'.buf = s.buf := by rw [h.buf, hblk]
        have hne : ∀ o sc1 pa1 po1, p.k ≠ .allocTasks o sc1 pa1 po1 false := by
          intro o sc1 pa1 po1 e; rw [hk] at e; cases e
        exact ⟨by rw [hq']; exact Q.qNodup, by rw [hq', hb']; exact Q.qSched,
          by rw [hb']; exact fun o ho => keep o (hne o) (Q.schedP o ho)⟩
      · subst hfn
        have hin := L.ati.sched p hpm h.ha o0 sc pa po hk
        have hsb : (atStart s p.wake p.pc o0).buf = s.buf := atStart_buf _ _ _ _
        have hsq : (atStart s p.wake p.pc o0).queue = s.queue := atStart_queue _ _ _ _
        have hnr := h.nr
        have hq' := h.queue
        have hb' := h.buf
        have hp' : fin (s.block p orc).2.1 (s.block p orc).2.2 p.wake p ∈ s'.procs := (hm _).mpr (Or.inl rfl)
        -- the other observations keep their witnesses
        have hother : ∀ o, o ≠ o0 → ∀ sc1 pa1 po1, p.k ≠ .allocTasks o sc1 pa1 po1 false := by
          intro o hne sc1 pa1 po1 e
          rw [hk] at e
          injection e with e1
          exact hne e1.symm
        have hnd : (s.block p orc).2.2 ≠ .done := by
          rw [block_allocTasks orc hk, allocTasksBlock_eq]
          exact l7_iter_not_done _ _ _ _ _ _ _
        generalize s.block p orc = r at hat hnr hq' hb' hp' hnd
        cases hat with
        | quiet X k y sc1 pa1 po1 _ hbX hqX hkX =>
          simp only at hq' hb' hp' hnr hnd
          rw [hqX, hsq] at hq'
          rw [hbX, hsb] at hb'
          refine ⟨by rw [hq']; exact Q.qNodup, by rw [hq', hb']; exact Q.qSched, ?_⟩
          rw [hb']
          intro o ho
          by_cases e : o = o0
          · subst e
            refine ⟨_, hp', ?_, sc1, pa1, po1, by rw [fin_k]; exact hkX⟩
            cases y with
            | timeout d => exact h.ha
            | done => exact absurd rfl hnd
            | raised e => exact absurd rfl (hnr e)
          · exact keep o (hother o e) (Q.schedP o ho)
        | finish X sc1 pa1 po1 _ _ hbX _ hqX =>
          simp only at hq' hb'
          rw [hqX, hsq] at hq'
          rw [hbX, hsb] at hb'
          have hrem : (s.buf.remove o0).1.hot.scheduled = s.buf.hot.scheduled.erase o0 := by
            unfold Buffer.remove; simp [hin]
          refine ⟨by rw [hq']; exact Q.qNodup.erase _, ?_, ?_⟩
          · rw [hq', hb', hrem]
            intro o ho
            have hne : o ≠ o0 := fun e => by
              subst e
              exact (List.Nodup.mem_erase_iff Q.qNodup).mp ho |>.1 rfl
            exact (List.mem_erase_of_ne hne).mpr (Q.qSched o (List.mem_of_mem_erase ho))
          · rw [hb', hrem]
            intro o ho
            have hne : o ≠ o0 := by
              intro e
              subst e
              have h1 := count_pos_of_mem ho
              rw [List.count_erase_self] at h1
              have := l7_sched_count L.bufi o
              omega
            exact keep o (hother o hne) (Q.schedP o (List.mem_of_mem_erase ho))
        | finishBad X sc1 pa1 po1 e _ _ _ _ _ => exact absurd rfl (hnr e)
        | finishWait X sc1 pa1 po1 _ hnin _ _ =>
          rw [hsb] at hnin
          exact absurd hin hnin
    · have hq' : s'.queue = s.queue := by rw [h.queue, block_queue s p orc h1 h2]
      have hb' : s'.buf.hot.scheduled = s.buf.hot.scheduled := by rw [h.buf, l7_block_sched_other s p orc h1 h2]
      have hne : ∀ o sc1 pa1 po1, p.k ≠ .allocTasks o sc1 pa1 po1 false := by
        intro o sc1 pa1 po1 e; rw [e] at h2; exact h2 rfl
      exact ⟨by rw [hq']; exact Q.qNodup, by rw [hq', hb']; exact Q.qSched,
        by rw [hb']; exact fun o ho => keep o (hne o) (Q.schedP o ho)⟩
end Sys
section
variable {env : SimEnv} {s0 : Sys}

/-- `L7Q` at every index of the run -/
theorem live_l7q_B (C : LiveCfgB env s0) (K : LiveKernel env s0) (n : Nat) : Sys.L7Q (simAt env s0 n).st := by
  induction n with
  | zero => exact Sys.l7q_start s0 C.hw C.hb0.2.1
  | succ n ih =>
    obtain ⟨e, p, _, _, _, hstep⟩ := l7_step_B C K n
    exact Sys.l7q_step_B (l7_lib_B C K n) hstep ih

/-- **J4.**  An observation in the hot buffer's `scheduled` list has a live `allocate_tasks`
process that has not finished. -/
theorem live_sched_has_proc_B (C : LiveCfgB env s0) (K : LiveKernel env s0) (n : Nat) {o : Oid}
    (ho : o ∈ (simAt env s0 n).st.buf.hot.scheduled) :
    ∃ q ∈ (simAt env s0 n).st.procs, q.alive = true ∧ ∃ sc pa po, q.k = .allocTasks o sc pa po false :=
  (live_l7q_B C K n).schedP o ho

/-- **J7.**  A queued observation is in the hot buffer's `scheduled` list. -/
theorem live_queue_sched_B (C : LiveCfgB env s0) (K : LiveKernel env s0) (n : Nat) {o : Oid}
    (ho : o ∈ (simAt env s0 n).st.queue) : o ∈ (simAt env s0 n).st.buf.hot.scheduled :=
  (live_l7q_B C K n).qSched o ho

/-- the scheduler's queue never holds an observation twice -/
theorem live_queue_nodup_B (C : LiveCfgB env s0) (K : LiveKernel env s0) (n : Nat) :
    (simAt env s0 n).st.queue.Nodup :=
  (live_l7q_B C K n).qNodup
end
end Topsim
