/-
  OnTime1 — tools for statements along the runs of the deterministic simulator:
  `SimPath` (a later state of the same run), the case analysis of one kernel
  step, an induction principle for predicates of the system state, and the
  static attributes of the observation records.
-/
import TopsimProofs.IngestLimit23
import TopsimProofs.LifeCycle19

namespace Topsim

open KState Sys

/-! ### later states of a run -/

/-- `k'` is reached from `k` by kernel steps and pause hand-overs -/
inductive SimPath (env : SimEnv) : SimState → SimState → Prop
  | refl (k : SimState) : SimPath env k k
  | step (k k1 k2 : SimState) : SimPath env k k1 → k1.step (simHandler env) = some k2 → SimPath env k k2
  | collate (k k1 : SimState) : SimPath env k k1 → SimPath env k { k1 with st := k1.st.collate }

theorem SimPath.trans {env : SimEnv} {a b c : SimState} (h1 : SimPath env a b) (h2 : SimPath env b c) :
    SimPath env a c := by
  induction h2 with
  | refl => exact h1
  | step k1 k2 _ hs ih => exact SimPath.step _ k1 k2 ih hs
  | collate k1 _ ih => exact SimPath.collate _ k1 ih

theorem SimReach.path {env : SimEnv} {s0 : Sys} {k k' : SimState} (h : SimReach env s0 k)
    (hp : SimPath env k k') : SimReach env s0 k' := by
  induction hp with
  | refl => exact h
  | step k1 k2 _ hs ih => exact SimReach.step k1 k2 ih hs
  | collate k1 _ ih => exact SimReach.collate k1 ih

theorem SimReach.toPath {env : SimEnv} {s0 : Sys} {k : SimState} (h : SimReach env s0 k) :
    SimPath env (SimState.start s0) k := by
  induction h with
  | start => exact SimPath.refl _
  | step k k1 _ hs ih => exact SimPath.step _ k k1 ih hs
  | collate k _ ih => exact SimPath.collate _ k ih

/-! ### one kernel step -/

/-- One kernel step of a run: either the popped event is the failure event of a process that
raised (the state only gets the `halted` flag), or it is one block of the live process `p`, due
at the time of the event and at no later time than any live process, with the simulator's oracle. -/
theorem ot_step_cases {env : SimEnv} {s0 : Sys} (hw : WFConfig s0) {k k1 : SimState}
    (h : SimReach env s0 k) (hs : k.step (simHandler env) = some k1) :
    ∃ e, k.peek = some e ∧
      ((k1.st = { k.st with halted := true } ∧ ∀ q, k.st.proc? e.pid = some q → q.alive = false) ∨
       (∃ p, k.st.proc? e.pid = some p ∧ p.alive = true ∧ e.time = p.wake ∧ k.st.enabled e.pid ∧
         k1.st = (k.st.resume e.pid (env.oracle k.st)).1)) := by
  have hinv := h.l3inv hw
  obtain ⟨_, _, e, hpk, hc⟩ := il_l3_step env k k1 hinv.sinv hinv.heap hs
  refine ⟨e, hpk, ?_⟩
  rcases hc with hc | ⟨hen, ⟨p, hp, ha, het⟩, hc⟩
  · exact Or.inl hc
  · exact Or.inr ⟨p, hp, ha, het, hen, hc⟩

/-- induction over the runs of the simulator for a predicate of the system state -/
theorem SimReach.sys_induct {env : SimEnv} {s0 : Sys} (hw : WFConfig s0) (P : Sys → Prop)
    (h0 : P s0.start) (hhalt : ∀ s, P s → P { s with halted := true }) (hcol : ∀ s, P s → P s.collate)
    (hstep : ∀ k, SimReach env s0 k → P k.st → ∀ pid p, k.st.proc? pid = some p → p.alive = true →
      k.st.enabled pid → P (k.st.resume pid (env.oracle k.st)).1) :
    ∀ k, SimReach env s0 k → P k.st := by
  intro k h
  induction h with
  | start => exact h0
  | step k k1 hr hs ih =>
    obtain ⟨e, _, hc⟩ := ot_step_cases hw hr hs
    rcases hc with ⟨hc, _⟩ | ⟨p, hp, ha, _, hen, hc⟩
    · rw [hc]; exact hhalt _ ih
    · rw [hc]; exact hstep k hr ih e.pid p hp ha hen
  | collate k _ ih => exact hcol _ ih

/-! ### the static attributes of the observation records -/

/-- what the configuration says of an observation; no block changes it -/
def Obs.stat (o : Obs) : Oid × Nat × Nat × Nat × Int × Nat :=
  (o.id, o.est, o.duration, o.demand, o.rate, o.ingestDemand)

namespace Sys

/-- the records of `s'` are those of `s`, in the same order, up to status and start time -/
def ObsKeep (s s' : Sys) : Prop := s'.obs.map Obs.stat = s.obs.map Obs.stat

theorem ObsKeep.refl (s : Sys) : ObsKeep s s := rfl

theorem ObsKeep.trans {a b c : Sys} (h1 : ObsKeep a b) (h2 : ObsKeep b c) : ObsKeep a c :=
  Eq.trans h2 h1

theorem ObsKeep.of_eq {a b : Sys} (h : b.obs = a.obs) : ObsKeep a b := by
  unfold ObsKeep; rw [h]

theorem ObsKeep.of_updObs {a b : Sys} {oid : Oid} {f : Obs → Obs} (h : b.obs = (a.updObs oid f).obs)
    (hf : ∀ r, (f r).stat = r.stat) : ObsKeep a b := by
  unfold ObsKeep
  rw [h]
  simp only [Sys.updObs, List.map_map]
  apply List.map_congr_left
  intro r _
  simp only [Function.comp]
  split
  · exact hf r
  · rfl

theorem ot_find_stat (l l' : List Obs) (h : l'.map Obs.stat = l.map Obs.stat) (o : Oid) (ob : Obs)
    (hf : l.find? (fun r => decide (r.id = o)) = some ob) :
    ∃ ob', l'.find? (fun r => decide (r.id = o)) = some ob' ∧ ob'.stat = ob.stat := by
  induction l generalizing l' with
  | nil => simp at hf
  | cons x l ih =>
    cases l' with
    | nil => simp at h
    | cons y l' =>
      simp only [List.map_cons, List.cons.injEq] at h
      obtain ⟨h1, h2⟩ := h
      have hid : y.id = x.id := congrArg Prod.fst h1
      rw [List.find?_cons] at hf ⊢
      by_cases hx : x.id = o
      · simp only [hx, decide_true] at hf
        cases hf
        simp only [hid, hx, decide_true]
        exact ⟨y, rfl, h1⟩
      · simp only [hx, decide_false] at hf
        simp only [hid, hx, decide_false]
        exact ih l' h2 hf

/-- the record of `oid` after, given its record before: same static attributes -/
theorem ObsKeep.fwd {s s' : Sys} (h : ObsKeep s s') {oid : Oid} {ob : Obs} (hob : s.obs? oid = some ob) :
    ∃ ob', s'.obs? oid = some ob' ∧ ob'.stat = ob.stat :=
  ot_find_stat s.obs s'.obs h oid ob hob

theorem ObsKeep.bwd {s s' : Sys} (h : ObsKeep s s') {oid : Oid} {ob' : Obs} (hob : s'.obs? oid = some ob') :
    ∃ ob, s.obs? oid = some ob ∧ ob'.stat = ob.stat := by
  obtain ⟨ob, h1, h2⟩ := ot_find_stat s'.obs s.obs h.symm oid ob' hob
  exact ⟨ob, h1, h2.symm⟩

theorem ot_stat_fields {o o' : Obs} (h : o'.stat = o.stat) :
    o'.id = o.id ∧ o'.est = o.est ∧ o'.duration = o.duration ∧ o'.demand = o.demand ∧ o'.rate = o.rate ∧
      o'.ingestDemand = o.ingestDemand := by
  unfold Obs.stat at h
  simp only [Prod.mk.injEq] at h
  exact h

theorem telStep_keep {n : Nat} {oid : Oid} {acc acc' : Sys × Option Err} {t : List Event}
    (h : TelStep n oid acc acc' t) : ObsKeep acc.1 acc'.1 := by
  cases h with
  | quiet _ _ hobs => exact ObsKeep.of_eq hobs
  | start ob _ _ _ _ _ _ _ hobs => exact ObsKeep.of_updObs hobs (fun _ => rfl)
  | finish ob a _ _ _ _ _ _ _ _ _ hobs => exact ObsKeep.of_updObs hobs (fun _ => rfl)

theorem telRun_keep {n : Nat} {l : List Oid} {acc acc' : Sys × Option Err} {L : List Event}
    (h : TelRun n l acc acc' L) : ObsKeep acc.1 acc'.1 := by
  induction h with
  | nil acc => exact ObsKeep.refl _
  | cons oid l acc acc1 acc2 t L ht _ ih => exact (telStep_keep ht).trans ih

theorem allocIngestIter_keep (s : Sys) (now : Time) (oid : Oid) (tl : Int) :
    ObsKeep s (s.allocIngestIter now oid tl).1 := by
  rcases allocIngestIter_obs s now oid tl with h | ⟨_, _, _, h⟩
  · exact ObsKeep.of_eq h
  · exact ObsKeep.of_updObs h (fun _ => rfl)

theorem allocIngestBlock_keep (s : Sys) (now : Time) (pc : Nat) (oid : Oid) (tl : Int) :
    ObsKeep s (s.allocIngestBlock now pc oid tl).1 := by
  unfold allocIngestBlock
  split
  · exact (ObsKeep.of_updObs (a := s) (f := fun r => { r with ast := some (natNow now) }) rfl
      (fun _ => rfl)).trans (allocIngestIter_keep _ _ _ _)
  · exact allocIngestIter_keep _ _ _ _

/-- one block keeps the static attributes of every observation record -/
theorem ot_resume_keep (s : Sys) (pid : Nat) (orc : Oracle) (p : Proc) (hp : s.proc? pid = some p)
    (ha : p.alive = true) : ObsKeep s (s.resume pid orc).1 := by
  have hobsEq : (s.resume pid orc).1.obs = (s.block p orc).1.obs := (il_resume_fields s pid orc p hp ha).1
  refine ObsKeep.trans ?_ (ObsKeep.of_eq hobsEq)
  by_cases hk : p.k = .telescope
  · rcases blockEvents_telescope (s := s) orc hk with ⟨_, hb, _⟩ | ⟨s0, e0, _, g2, _, _, _, _, _, hrun, _⟩
    · rw [hb]; exact ObsKeep.of_eq rfl
    · exact (ObsKeep.of_eq g2 : ObsKeep s s0).trans (telRun_keep hrun)
  · by_cases hk2 : ∃ oid tl, p.k = .allocIngest oid tl
    · obtain ⟨oid, tl, hk2⟩ := hk2
      rw [block_allocIngest orc hk2]
      exact allocIngestBlock_keep _ _ _ _ _
    · have h1 : p.k.tag ≠ "telescope" := by
        intro e; apply hk; cases hpk : p.k <;> rw [hpk] at e <;> simp [PK.tag] at e <;> rfl
      have h2 : p.k.tag ≠ "allocIngest" := by
        intro e; apply hk2; cases hpk : p.k <;> rw [hpk] at e <;> simp [PK.tag] at e
        exact ⟨_, _, rfl⟩
      exact ObsKeep.of_eq (block_obs s p orc h1 h2)

end Sys

/-- the static attributes of an observation record are the same all along a run -/
theorem SimPath.keep {env : SimEnv} {s0 : Sys} (hw : WFConfig s0) {k k' : SimState}
    (h : SimReach env s0 k) (hp : SimPath env k k') : Sys.ObsKeep k.st k'.st := by
  induction hp with
  | refl => exact Sys.ObsKeep.refl _
  | step k1 k2 hp1 hs ih =>
    refine ih.trans ?_
    obtain ⟨e, _, hc⟩ := ot_step_cases hw (h.path hp1) hs
    rcases hc with ⟨hc, _⟩ | ⟨p, hpp, ha, _, _, hc⟩
    · rw [hc]; exact Sys.ObsKeep.of_eq rfl
    · rw [hc]; exact Sys.ot_resume_keep _ _ _ p hpp ha
  | collate k1 _ ih => exact ih.trans (Sys.ObsKeep.of_eq rfl)

end Topsim
