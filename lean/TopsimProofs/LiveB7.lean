/-
  LiveB7 — BatchProcessing: the declarations of Live7 that depend on the configuration hypotheses,
  for `LiveCfgB` / `NcCfgB` (`s0.alg = .batch …`).  Generated from Live7.lean by renaming (suffix `_B`);
  the algorithm-dependent ones are rewritten (see the comments).
-/
import TopsimProofs.Live7
import TopsimProofs.LiveB5

namespace Topsim
open KState Sys

/-- the library invariants of a state of a run that has not raised (BatchProcessing, batch planning) -/
structure L7LibB (s0 s : Sys) : Prop where
  ok : ReachOk s0 s
  nc : s.crashed = none
  sinv : SInv s
  wi : WI s
  gi : GI s0 s
  st : ST s
  pr : PR s
  px : PX s
  su : SU s
  ati : LcATI s
  bufi : BufI s
  alg : s.BatchAlg
  stat : s.staticPlan = false
section
variable {env : SimEnv} {s0 : Sys}

theorem l7_lib_B (C : LiveCfgB env s0) (K : LiveKernel env s0) (n : Nat) : L7LibB s0 (simAt env s0 n).st := by
  have hok : ReachOk s0 (simAt env s0 n).st := simRun_reachOk C.hw (K.run n).1 (K.run n).2.1
  have hbuf : bufList s0.buf = [] := hb0_bufList C.hb0
  have hno : s0.alg ≠ .oracle := C.alg.ne_oracle
  have hnc := C.nr n
  exact {
    ok := hok
    nc := hnc
    sinv := reach_inv s0 _ C.hw hok
    wi := reachOk_wi s0 _ C.hw hbuf hok hnc
    gi := reach_gi s0 _ C.hw hok.toReach
    st := reach_st s0 _ C.hw hbuf hno hok.toReach hnc
    pr := reach_pr s0 _ C.hw hbuf hno hok.toReach hnc
    px := reach_px s0 _ C.hw hbuf hno hok.toReach hnc
    su := reachOk_su s0 _ C.hw hbuf hno hok hnc
    ati := reachOk_ati s0 _ C.hw hbuf hok
    bufi := reachOk_bufi s0 _ C.hw hbuf hok
    alg := C.alg.of_alg (reach_alg hok.toReach)
    stat := (reach_stat hok.toReach).trans C.stat }

theorem l7_step_B (C : LiveCfgB env s0) (K : LiveKernel env s0) (n : Nat) :
    ∃ e p, (simAt env s0 n).peek = some e ∧ (simAt env s0 n).st.proc? e.pid = some p ∧ e.pid = p.pid ∧
      L7Step (simAt env s0 n).st (simAt env s0 (n + 1)).st p (env.oracle (simAt env s0 n).st) := by
  obtain ⟨e, p, hpk, hpp, ha, _, hen, _, hst⟩ := live_step_B C K n
  have hpid : p.pid = e.pid := (proc?_some hpp).2
  obtain ⟨p2, hp2, _, hmin⟩ := hen
  rw [hpp] at hp2
  injection hp2 with hp2
  subst hp2
  refine ⟨e, p, hpk, hpp, hpid.symm, ?_⟩
  have hcr := C.nr (n + 1)
  rw [hst] at hcr
  have hst' := hst
  unfold Sys.resume at hcr hst
  simp only [hpp, ha, Bool.not_true, Bool.false_eq_true, if_false] at hcr hst
  refine ⟨by rw [hpid]; exact hpp, ha, hmin, ?_, ?_, by rw [hpid]; exact hst'⟩
  · intro err herr
    generalize (simAt env s0 n).st.block p (env.oracle (simAt env s0 n).st) = r at hcr herr
    obtain ⟨s1, k, y⟩ := r
    simp only at herr
    subst herr
    exact absurd hcr (l7_crash_ne _ _)
  · rw [hst, hpid]
    generalize (simAt env s0 n).st.block p (env.oracle (simAt env s0 n).st) = r at hcr
    obtain ⟨s1, k, y⟩ := r
    cases y with
    | timeout d => rfl
    | done => rfl
    | raised err => exact absurd hcr (l7_crash_ne _ _)
end
end Topsim
