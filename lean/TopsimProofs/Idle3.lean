/-
  Idle3 — the timed reading of C19 along the runs of the simulator (SimPy's order; every state of every
  run, pauses and states after an exception included).  "The clock" is the time of the heap entry the
  kernel is about to pop (`k.peek = some e`, a live process: a block start), or — the `post` forms — the
  time of the entry the kernel has just popped (the block that has just run; SimPy's `env.now` until the
  next pop).
-/
import TopsimProofs.Idle2

namespace Topsim

open KState Sys

/-- `IdleTel` holds in every state of every run of the simulator -/
theorem idle_sim_tel (env : SimEnv) (s0 : Sys) (hw : WFConfig s0) (k : SimState) (h : SimReach env s0 k) :
    IdleTel k.st := by
  refine SimReach.sys_induct hw IdleTel (idleTel_start s0 hw) (fun s hs => hs.congr rfl rfl rfl)
    (fun s hs => hs.congr rfl rfl rfl) ?_ k h
  intro k hr ih pid p hp ha hen
  have hinv := hr.l3inv hw
  obtain ⟨p', hp', _, hmin⟩ := hen
  rw [hp] at hp'; cases hp'
  exact idleTel_step ⟨hinv.sinv.pw, hinv.sinv.eg⟩ (IdleDisc.of_ilti hinv.ti hinv.heap.telInt) ih hp ha hmin _

/-- the time of a block start is the wake time of the process about to run -/
theorem idle_peek_time {env : SimEnv} {s0 : Sys} (hw : WFConfig s0) {k : SimState} (h : SimReach env s0 k)
    {e : HEntry} {p : Proc} (hpk : k.peek = some e) (hpp : k.st.proc? e.pid = some p)
    (ha : p.alive = true) : e.time = p.wake := by
  obtain ⟨he, _⟩ := peek_spec k e hpk
  obtain ⟨hpm, hpid⟩ := proc?_some hpp
  exact (h.l3inv hw).heap.time e he p hpm hpid ha

/-- what a kernel step at a block start is -/
theorem idle_step_block {env : SimEnv} {s0 : Sys} (hw : WFConfig s0) {k k1 : SimState}
    (h : SimReach env s0 k) (hs : k.step (simHandler env) = some k1) {e : HEntry} {p : Proc}
    (hpk : k.peek = some e) (hpp : k.st.proc? e.pid = some p) (ha : p.alive = true) :
    e.time = p.wake ∧ (∀ q ∈ k.st.procs, q.alive = true → p.wake ≤ q.wake) ∧
      k1.st = (k.st.resume e.pid (env.oracle k.st)).1 := by
  obtain ⟨e', hpk', hc⟩ := ot_step_cases hw h hs
  rw [hpk] at hpk'; cases hpk'
  rcases hc with ⟨_, hdead⟩ | ⟨p', hpp', _, het, hen, hc⟩
  · have := hdead p hpp
    rw [ha] at this; cases this
  · rw [hpp] at hpp'; cases hpp'
    obtain ⟨p'', hp'', _, hmin⟩ := hen
    rw [hpp] at hp''; cases hp''
    exact ⟨het, hmin, hc⟩

/-! ### the cluster -/

/-- at a block start: `is_idle()` ⇒ every recorded interval has ended at or before the time of the block -/
theorem idle_sim_cluster_pre (env : SimEnv) (s0 : Sys) (hw : WFConfig s0) (k : SimState)
    (h : SimReach env s0 k) {e : HEntry} {p : Proc} (hpk : k.peek = some e)
    (hpp : k.st.proc? e.pid = some p) (ha : p.alive = true) (hidle : k.st.cl.isIdle = true) :
    ∀ t r a, k.st.task? t = some r → r.ast = some a → ∃ f, r.aft = some f ∧ a + 1 ≤ f ∧ f ≤ e.time := by
  intro t r a hr hast
  obtain ⟨f, hf, hlt, hnow⟩ := idle_cluster_pre (h.l3inv hw).sinv (sim_spanInv env s0 hw k h)
    (sim_ivInv env s0 hw k h) hidle t r a hr hast
  refine ⟨f, hf, hlt, ?_⟩
  rw [idle_peek_time hw h hpk hpp ha]
  exact hnow p (proc?_some hpp).1 ha

/-- after the block that has just run at time `e.time`: `is_idle()` ⇒ every recorded interval has
ended at or before `e.time` -/
theorem idle_sim_cluster_post (env : SimEnv) (s0 : Sys) (hw : WFConfig s0) {k k1 : SimState}
    (h : SimReach env s0 k) (hs : k.step (simHandler env) = some k1) {e : HEntry} {p : Proc}
    (hpk : k.peek = some e) (hpp : k.st.proc? e.pid = some p) (ha : p.alive = true)
    (hidle : k1.st.cl.isIdle = true) :
    ∀ t r a, k1.st.task? t = some r → r.ast = some a → ∃ f, r.aft = some f ∧ a + 1 ≤ f ∧ f ≤ e.time := by
  have h1 : SimReach env s0 k1 := SimReach.step k k1 h hs
  obtain ⟨het, hmin, hc⟩ := idle_step_block hw h hs hpk hpp ha
  intro t r a hr hast
  obtain ⟨f, hf, hlt, _⟩ := idle_cluster_pre (h1.l3inv hw).sinv (sim_spanInv env s0 hw k1 h1)
    (sim_ivInv env s0 hw k1 h1) hidle t r a hr hast
  refine ⟨f, hf, hlt, ?_⟩
  have hs1 := (h1.l3inv hw).sinv
  have hrun := idle_running_nil hidle
  rw [hc] at hs1 hr hrun
  rw [het]
  exact idle_rel_post (h.l3inv hw).sinv (sim_ivInv env s0 hw k h) hpp ha hmin (env.oracle k.st)
    (fun _ => il_oracle_preOk env k.st) hs1 t r f hr hf (by rw [hrun]; simp)

/-! ### the telescope -/

/-- at a block start: a FINISHED observation has a recorded start and its window has ended at or
before the time of the block -/
theorem idle_sim_tel_pre (env : SimEnv) (s0 : Sys) (hw : WFConfig s0) (k : SimState)
    (h : SimReach env s0 k) {e : HEntry} {p : Proc} (hpk : k.peek = some e)
    (hpp : k.st.proc? e.pid = some p) (ha : p.alive = true) :
    ∀ o ob, k.st.obs? o = some ob → ob.status = .finished →
      ∃ a, ob.ast = some a ∧ (((a + ob.duration : Nat) : Nat) : Time) ≤ e.time := by
  intro o ob hob hfin
  have hI := idle_sim_tel env s0 hw k h
  cases hast : ob.ast with
  | none => exact absurd hast (hI.finAst o ob hob hfin)
  | some a =>
    refine ⟨a, rfl, ?_⟩
    rw [idle_peek_time hw h hpk hpp ha]
    exact hI.fin o ob a hob hfin hast p (proc?_some hpp).1 ha

/-- after the block that has just run at time `e.time` -/
theorem idle_sim_tel_post (env : SimEnv) (s0 : Sys) (hw : WFConfig s0) {k k1 : SimState}
    (h : SimReach env s0 k) (hs : k.step (simHandler env) = some k1) {e : HEntry} {p : Proc}
    (hpk : k.peek = some e) (hpp : k.st.proc? e.pid = some p) (ha : p.alive = true) :
    ∀ o ob, k1.st.obs? o = some ob → ob.status = .finished →
      ∃ a, ob.ast = some a ∧ (((a + ob.duration : Nat) : Nat) : Time) ≤ e.time := by
  have h1 : SimReach env s0 k1 := SimReach.step k k1 h hs
  obtain ⟨het, hmin, hc⟩ := idle_step_block hw h hs hpk hpp ha
  intro o ob hob hfin
  have hI1 := idle_sim_tel env s0 hw k1 h1
  have hinv := h.l3inv hw
  cases hast : ob.ast with
  | none => exact absurd hast (hI1.finAst o ob hob hfin)
  | some a =>
    refine ⟨a, rfl, ?_⟩
    rw [hc] at hob
    rw [het]
    exact idle_tel_post ⟨hinv.sinv.pw, hinv.sinv.eg⟩ (IdleDisc.of_ilti hinv.ti hinv.heap.telInt)
      (idle_sim_tel env s0 hw k h) hpp ha hmin (env.oracle k.st) o ob a hob hfin hast

end Topsim
