/-
  LiveB13 — BatchProcessing: the declarations of Live13 that depend on the configuration hypotheses,
  for `LiveCfgB` / `NcCfgB` (`s0.alg = .batch …`).  Generated from Live13.lean by renaming (suffix `_B`);
  the algorithm-dependent ones are rewritten (see the comments).
-/
import TopsimProofs.Live13
import TopsimProofs.LiveB5
import TopsimProofs.LiveB6
import TopsimProofs.LiveB6b
import TopsimProofs.LiveB6c
import TopsimProofs.LiveB6d
import TopsimProofs.LiveB9
import TopsimProofs.LiveB10
import TopsimProofs.LiveB12
import TopsimProofs.LiveB4

namespace Topsim
open KState Sys
section
variable {env : SimEnv} {s0 : Sys}

/-- the record of an observation of the configuration, at any index -/
theorem live_obs_rec_B (C : LiveCfgB env s0) (K : LiveKernel env s0) (n : Nat) {o : Oid}
    (ho : o ∈ s0.obs.map (·.id)) :
    ∃ ob, ob ∈ (simAt env s0 n).st.obs ∧ ob.id = o ∧ (simAt env s0 n).st.obs? o = some ob := by
  rw [← live_ids_B C n] at ho
  obtain ⟨ob, hob, hid⟩ := List.mem_map.mp ho
  refine ⟨ob, hob, hid, ?_⟩
  rw [← hid]
  exact obs?_of_mem (live_sinv_B C K n).eg.obsNodup hob

theorem live_obs?_mem_B (C : LiveCfgB env s0) (K : LiveKernel env s0) (n : Nat) {ob : Obs}
    (hob : ob ∈ (simAt env s0 n).st.obs) :
    (simAt env s0 n).st.obs? ob.id = some ob ∧ ob.id ∈ s0.obs.map (·.id) := by
  have h := obs?_of_mem (live_sinv_B C K n).eg.obsNodup hob
  exact ⟨h, live_obs?_ids_B C n h⟩

theorem live_bufi_B (C : LiveCfgB env s0) (K : LiveKernel env s0) (n : Nat) : BufI (simAt env s0 n).st :=
  reachOk_bufi s0 _ C.hw (hb0_bufList C.hb0) (live_reachOk_B C K n)

/-- an observation in one of the hot buffer's lists is an observation of the configuration -/
theorem live_buf_ids_B (C : LiveCfgB env s0) (K : LiveKernel env s0) (n : Nat) {o : Oid}
    (h : o ∈ (simAt env s0 n).st.buf.hot.stored ∨ o ∈ (simAt env s0 n).st.buf.hot.scheduled ∨
      o ∈ (simAt env s0 n).st.buf.hot.finished) : o ∈ s0.obs.map (·.id) := by
  have hb := live_bufi_B C K n
  have hpos : 0 < locCount (simAt env s0 n).st o := by
    unfold locCount bufList
    have : 0 < (((simAt env s0 n).st.buf.hot.stored ++ (simAt env s0 n).st.buf.hot.scheduled ++
        (simAt env s0 n).st.buf.hot.finished ++ (simAt env s0 n).st.buf.cold.stored).count o) := by
      apply List.count_pos_iff.mpr
      simp only [List.mem_append]
      rcases h with h | h | h
      · exact Or.inl (Or.inl (Or.inl h))
      · exact Or.inl (Or.inl (Or.inr h))
      · exact Or.inl (Or.inr h)
    omega
  obtain ⟨ob, hob, _⟩ := hb.locObs o hpos
  exact live_obs?_ids_B C n (ob := ob) hob

/-- **The quiescent regime of a run of BatchProcessing that never raises.**  From some index `N` on: all
the monotone predicates are constant, no worker process is alive, every admitted observation is FINISHED,
NO RESERVATION EXISTS and NO `allocate_tasks` PROCESS IS RUNNING — every wait for a reservation has ended.

There no block of a running `allocate_tasks` process touches the cluster (`hats`: the two other outcomes
of `ats_progress` flip a constant predicate), so the reservations are constant (`hidleC`); if one
existed, its holder's `allocate_tasks` block would find it (`_provision_resources` returns True for a
provisioned observation) and make progress: no reservation exists (`hidle`).  Then every machine is
available and the counter of reservations is 0, a feasible configuration cannot have
`_provision_resources` return False (`lb_provision_possible`): no `allocate_tasks` process is running. -/
theorem live_batch_regime_B (C : LiveCfgB env s0) (K : LiveKernel env s0) (Pt : LivePartsB env s0) :
    ∃ N, LiveStab env s0 N ∧ (∀ n, N ≤ n → (simAt env s0 n).st.NoWorker) ∧
      (∀ n, N ≤ n → ∀ ob ∈ (simAt env s0 n).st.obs, ob.ast ≠ none → ob.status = .finished) ∧
      (∀ n, N ≤ n → (simAt env s0 n).st.cl.idle = []) ∧
      (∀ n, N ≤ n → ∀ q ∈ (simAt env s0 n).st.procs, q.alive = true →
        ∀ o sc pa po, q.k ≠ .allocTasks o sc pa po false) := by
  obtain ⟨parts, minPer, split, halg⟩ := C.alg
  obtain ⟨hparts, hfnone, hfsome⟩ := Sys.lb_feasible_batch C.feas halg C.minOk
  obtain ⟨N, hs, hq⟩ := live_quiescent_B C K Pt
  -- every admitted observation is FINISHED
  have hfin : ∀ n, N ≤ n → ∀ ob ∈ (simAt env s0 n).st.obs, ob.ast ≠ none → ob.status = .finished := by
    intro n hn ob hob hast
    obtain ⟨hob?, hid⟩ := live_obs?_mem_B C K n hob
    cases ha : ob.ast with
    | none => exact absurd ha hast
    | some a =>
      obtain ⟨n', hle, ob', hob', hf'⟩ := Pt.obs_finishes hob? ha
      have h1 : Sys.PFin ob.id (simAt env s0 n').st := ⟨ob', hob', hf'⟩
      have h2 : Sys.PFin ob.id (simAt env s0 n).st :=
        ((hs.fin ob.id hid).eq (by omega : N ≤ n') hn).mp h1
      obtain ⟨ob2, hob2, hf2⟩ := h2
      rw [hob?] at hob2
      cases hob2
      exact hf2
  have hq' : ∀ n, N ≤ n → ∀ q' ∈ (simAt env s0 n).st.procs, q'.alive = true →
      q'.k.tag ≠ "allocTask" ∧ q'.k.tag ≠ "doWork" :=
    fun n hn q' hq1 hq2 => ⟨(hq n hn q' hq1 hq2).2.2.2.1, (hq n hn q' hq1 hq2).2.2.2.2⟩
  -- no block of a running `allocate_tasks` process makes progress: no reservation can be made, the
  -- cluster is left alone
  have hats : ∀ n, N ≤ n → ∀ {e : HEntry} {p : Proc}, (simAt env s0 n).peek = some e →
      (simAt env s0 n).st.proc? e.pid = some p → p.alive = true →
      ∀ {o : Oid} {sc pa : List (Tid × Mid)} {po : List Tid}, p.k = .allocTasks o sc pa po false →
      Alg.provisionResources (simAt env s0 n).st.cl parts minPer split o = .ok ((simAt env s0 n).st.cl, false) ∧
        (simAt env s0 (n + 1)).st.cl = (simAt env s0 n).st.cl := by
    intro n hn e p hpk hpp ha o sc pa po hk
    have hsch := Pt.ats_sched n p (proc?_some hpp).1 ha o sc pa po hk
    have hid := live_buf_ids_B C K n (Or.inr (Or.inl hsch))
    have hnr5 : o ∉ (simAt env s0 n).st.buf.hot.finished := by
      intro hf
      have hcnt := (live_bufi_B C K n).cnt o
      unfold locCount bufList at hcnt
      have c1 : 0 < (simAt env s0 n).st.buf.hot.scheduled.count o := List.count_pos_iff.mpr hsch
      have c2 : 0 < (simAt env s0 n).st.buf.hot.finished.count o := List.count_pos_iff.mpr hf
      simp only [List.count_append] at hcnt
      omega
    obtain ⟨f1, f2, _⟩ := Pt.free n (hq n hn) (hfin n hn)
    rcases Pt.ats_progress n hpk hpp ha hk hnr5 ⟨f1, f2⟩ (hq' n hn) halg with h |
      ⟨ob, hob, hido, node, hnode, h1, h2⟩ | h3
    · exact absurd (((hs.rm o hid).eq hn (by omega : N ≤ n + 1)).mpr h) hnr5
    · have hpr := mem_livePairs hob hnode
      rw [hido] at hpr
      exact absurd (((hs.atn (o, node) hpr).eq hn (by omega : N ≤ n + 1)).mpr h2) h1
    · exact h3
  -- the reservations are constant
  have hidleS : ∀ n, N ≤ n → (simAt env s0 (n + 1)).st.cl.idle = (simAt env s0 n).st.cl.idle := by
    intro n hn
    obtain ⟨e, p, hpk, hpp, ha, _⟩ := live_step_B C K n
    by_cases hk : ∃ o sc pa po, p.k = .allocTasks o sc pa po false
    · obtain ⟨o, sc, pa, po, hk⟩ := hk
      rw [(hats n hn hpk hpp ha hk).2]
    · exact Pt.idle_keep n hpk hpp ha (hq n hn) (fun o sc pa po h => hk ⟨o, sc, pa, po, h⟩)
  have hidleC : ∀ n, N ≤ n → (simAt env s0 n).st.cl.idle = (simAt env s0 N).st.cl.idle := by
    intro n hn
    induction n with
    | zero =>
      have : N = 0 := by omega
      subst this; rfl
    | succ n ih =>
      by_cases e0 : N = n + 1
      · subst e0; rfl
      · rw [hidleS n (by omega), ih (by omega)]
  -- no reservation exists
  have hidle : ∀ n, N ≤ n → (simAt env s0 n).st.cl.idle = [] := by
    suffices h0 : (simAt env s0 N).st.cl.idle = [] from fun n hn => (hidleC n hn).trans h0
    cases hI : (simAt env s0 N).st.cl.idle with
    | nil => rfl
    | cons x rest =>
      exfalso
      obtain ⟨o, l⟩ := x
      have hkey : o ∈ dictKeys (simAt env s0 N).st.cl.idle := by rw [hI]; simp [dictKeys]
      have hsch := Pt.queue_sched N (Pt.idle_queue N o hkey)
      obtain ⟨q, hqm, hqa, sc, pa, po, hqk⟩ := Pt.sched_has_proc N hsch
      have hq? := (live_sinv_B C K N).pw.proc?_of_mem hqm
      obtain ⟨n5, e, hle5, hpk, hepid, _, hpp, _⟩ := K.next N q.pid q hq? hqa
      rw [← hepid] at hpp
      obtain ⟨h3, _⟩ := hats n5 hle5 hpk hpp hqa hqk
      have hI5 : (simAt env s0 n5).st.cl.idle = (o, l) :: rest := (hidleC n5 hle5).trans hI
      have hprov : (simAt env s0 n5).st.cl.isProvisioned o = true := by
        unfold Cluster.isProvisioned dictHas
        rw [hI5]
        simp [dictGet]
      unfold Alg.provisionResources at h3
      rw [if_pos hprov] at h3
      injection h3 with h3
      injection h3 with _ h4
      cases h4
  refine ⟨N, hs, hq, hfin, hidle, ?_⟩
  intro n hn q hqm hqa o sc pa po hqk
  have hq? := (live_sinv_B C K n).pw.proc?_of_mem hqm
  obtain ⟨n5, e, hle5, hpk, hepid, _, hpp, _⟩ := K.next n q.pid q hq? hqa
  have hN5 : N ≤ n5 := by omega
  rw [← hepid] at hpp
  obtain ⟨h3, _⟩ := hats n5 hN5 hpk hpp hqa hqk
  -- … but with no reservation in existence a reservation can be made
  have hsch := Pt.ats_sched n5 q (proc?_some hpp).1 hqa o sc pa po hqk
  have hid := live_buf_ids_B C K n5 (Or.inr (Or.inl hsch))
  obtain ⟨o0, ho0, hido0⟩ := List.mem_map.mp hid
  obtain ⟨_, _, _, f4, _⟩ := Pt.free n5 (hq n5 hN5) (hfin n5 hN5)
  have hI5 := hidle n5 hN5
  have hav : (simAt env s0 n5).st.cl.available.length = s0.machines.length := by
    have : (simAt env s0 n5).st.cl.idleAll = [] := by unfold Cluster.idleAll; rw [hI5]; rfl
    rw [this] at f4
    simpa using f4
  have hM : (simAt env s0 n5).st.cl.machines.length = s0.machines.length := by
    rw [sim_machines env s0 C.hw _ (K.reach n5), List.length_map]
  have hnp : (simAt env s0 n5).st.cl.numProv = 0 := by
    have := Pt.numProv n5
    rw [hI5] at this
    simp at this
    omega
  refine Sys.lb_provision_possible _ parts minPer split o s0.machines.length hI5 hnp hav hM hparts
    hfnone ?_ h3
  intro sp e'
  have := hfsome sp e' o0 ho0
  rw [hido0] at this
  exact this

/-- **A run of BatchProcessing that never raises reaches `is_finished()`.**  By contradiction, in the
quiescent regime (`live_batch_regime_B`): if some observation is not admitted, a late block of the
telescope admits one (no reservation exists, every machine is available); otherwise if some observation
has not been handed to the scheduler, a block of the scheduler loop hands one over; otherwise if some
observation has not been removed, its `allocate_tasks` process is running — but none is; otherwise the
run is at `is_finished()`. -/
theorem live_terminates_B (C : LiveCfgB env s0) (K : LiveKernel env s0) (Pt : LivePartsB env s0) :
    ∃ n, (simAt env s0 n).st.isFinished = true := by
  apply Classical.byContradiction
  intro hno
  have hnf : ∀ n, (simAt env s0 n).st.isFinished = false := by
    intro n
    cases h : (simAt env s0 n).st.isFinished with
    | false => rfl
    | true => exact absurd ⟨n, h⟩ hno
  obtain ⟨N, hs, hq, hfin, hidle, hnoats⟩ := live_batch_regime_B C K Pt
  by_cases hA : ∃ ob ∈ (simAt env s0 N).st.obs, ob.ast = none
  · -- (A) some observation has not been admitted: the telescope admits one
    obtain ⟨obA, hobA, hastA⟩ := hA
    obtain ⟨hobA?, hidA⟩ := live_obs?_mem_B C K N hobA
    have hnA : ¬ Sys.PAst obA.id (simAt env s0 N).st := by
      rintro ⟨ob2, a, h2, h3⟩
      rw [hobA?] at h2
      cases h2
      rw [hastA] at h3
      cases h3
    -- at every later index it still has no recorded start
    have hun : ∀ n, N ≤ n → ∃ ob, ob ∈ (simAt env s0 n).st.obs ∧ ob.ast = none ∧ ob.status = .waiting := by
      intro n hn
      obtain ⟨ob, hob, hid, hob?⟩ := live_obs_rec_B C K n hidA
      have hnone : ob.ast = none := by
        cases ha : ob.ast with
        | none => rfl
        | some a =>
          exact absurd (((hs.ast obA.id hidA).eq hn (Nat.le_refl N)).mp ⟨ob, a, hob?, ha⟩) hnA
      exact ⟨ob, hob, hnone, (sim_otAst env s0 C.hw _ (K.reach n)).wait obA.id ob hob? hnone⟩
    obtain ⟨E, hE⟩ := list_est_bound s0.obs
    obtain ⟨n4, hle4, hheap4⟩ := K.div N E
    obtain ⟨ob4, hob4, _, hw4⟩ := hun n4 hle4
    obtain ⟨q, hqm, hqk, hqa⟩ := Pt.tel_alive n4 ⟨ob4, hob4, by rw [hw4]; simp⟩
    have hq? := (live_sinv_B C K n4).pw.proc?_of_mem hqm
    obtain ⟨n5, e, hle5, hpk, hepid, hetime, hpp, _⟩ := K.next n4 q.pid q hq? hqa
    have hN5 : N ≤ n5 := by omega
    have hge : ((E : Nat) : Time) ≤ q.wake := by
      rw [← hetime]
      exact K.minMono n4 n5 _ hle5 hheap4 e (peek_spec _ e hpk).1
    rw [← hepid] at hpp
    obtain ⟨ob5, hob5, hast5, _⟩ := hun n5 hN5
    have hdue : ∀ ob ∈ (simAt env s0 n5).st.obs, ob.ast = none → ((ob.est : Nat) : Time) ≤ q.wake := by
      intro ob hob _
      have hm : ob.stat ∈ s0.obs.map Obs.stat := by
        rw [← live_keep0_B C n5]; exact List.mem_map_of_mem hob
      obtain ⟨o0, ho0, hst⟩ := List.mem_map.mp hm
      have hest : ob.est = o0.est := ((Sys.ot_stat_fields hst).2.1).symm
      have hle : ob.est ≤ E := by rw [hest]; exact hE o0 ho0
      have : ((ob.est : Nat) : Time) ≤ ((E : Nat) : Time) := by exact_mod_cast hle
      exact Rat.le_trans this hge
    obtain ⟨o', ob0, ob1, a, h0, h0n, h1, h1a⟩ :=
      Pt.admits n5 hpk hpp hqa hqk (hq n5 hN5) (hfin n5 hN5) ⟨ob5, hob5, hast5⟩ hdue (hidle n5 hN5)
    have hid' := live_obs?_ids_B C n5 h0
    have hflip : Sys.PAst o' (simAt env s0 (n5 + 1)).st := ⟨ob1, a, h1, h1a⟩
    have hbefore : ¬ Sys.PAst o' (simAt env s0 n5).st := by
      rintro ⟨ob2, a2, h2, h3⟩
      rw [h0] at h2
      cases h2
      rw [h0n] at h3
      cases h3
    exact hbefore (((hs.ast o' hid').eq hN5 (by omega : N ≤ n5 + 1)).mpr hflip)
  · -- every observation is admitted, hence FINISHED, from `N` on
    have hall : ∀ n, N ≤ n → ∀ ob ∈ (simAt env s0 n).st.obs, ob.status = .finished := by
      intro n hn ob hob
      obtain ⟨hob?, hid⟩ := live_obs?_mem_B C K n hob
      apply hfin n hn ob hob
      obtain ⟨obN, hobN, _, hobN?⟩ := live_obs_rec_B C K N hid
      have hastN : obN.ast ≠ none := fun h => hA ⟨obN, hobN, h⟩
      cases haN : obN.ast with
      | none => exact absurd haN hastN
      | some a =>
        obtain ⟨ob2, a2, h2, h3⟩ := ((hs.ast ob.id hid).eq hn (Nat.le_refl N)).mpr ⟨obN, a, hobN?, haN⟩
        rw [hob?] at h2
        cases h2
        rw [h3]; simp
    by_cases hB1 : ∃ ob ∈ (simAt env s0 N).st.obs, ¬ Sys.PQ ob.id (simAt env s0 N).st
    · -- (B1) some observation has not been handed to the scheduler
      obtain ⟨obB, hobB, hnq⟩ := hB1
      obtain ⟨_, hidB⟩ := live_obs?_mem_B C K N hobB
      obtain ⟨q, hq?, hqk, hqa⟩ := Pt.sched_alive N
      obtain ⟨n5, e, hle5, hpk, hepid, _, hpp, _⟩ := K.next N 3 q hq? hqa
      rw [← hepid] at hpp
      obtain ⟨ob5, hob5, hid5, _⟩ := live_obs_rec_B C K n5 hidB
      have hnq5 : ¬ Sys.PQ ob5.id (simAt env s0 n5).st := by
        rw [hid5]
        exact fun h => hnq (((hs.q obB.id hidB).eq hle5 (Nat.le_refl N)).mp h)
      have hstored : ob5.id ∈ (simAt env s0 n5).st.buf.hot.stored := by
        rcases Pt.finished_stored n5 hob5 (hall n5 hle5 ob5 hob5) (fun q' hq1 hqa' tl hk' =>
          (hq n5 hle5 q' hq1 hqa').2.2.1 (by rw [hk']; rfl)) with h | h
        · exact h
        · exact absurd h hnq5
      obtain ⟨o', ho', h1, h2⟩ := Pt.schedLoop_pops n5 hpk hpp hqa hqk (List.ne_nil_of_mem hstored)
      have hid' := live_buf_ids_B C K n5 (Or.inl ho')
      exact h1 (((hs.q o' hid').eq hle5 (by omega : N ≤ n5 + 1)).mpr h2)
    · by_cases hB2 : ∃ ob ∈ (simAt env s0 N).st.obs, ¬ Sys.PRm ob.id (simAt env s0 N).st
      · -- (B2) some observation has not been removed: its `allocate_tasks` process is running
        obtain ⟨obB, hobB, hnr⟩ := hB2
        obtain ⟨_, hidB⟩ := live_obs?_mem_B C K N hobB
        have hpq : Sys.PQ obB.id (simAt env s0 N).st := by
          cases Classical.em (Sys.PQ obB.id (simAt env s0 N).st) with
          | inl h => exact h
          | inr h => exact absurd ⟨obB, hobB, h⟩ hB1
        have hsch : obB.id ∈ (simAt env s0 N).st.buf.hot.scheduled := by
          rcases hpq with h | h
          · exact h
          · exact absurd h hnr
        obtain ⟨q, hqm, hqa, sc, pa, po, hqk⟩ := Pt.sched_has_proc N hsch
        exact hnoats N (Nat.le_refl N) q hqm hqa _ sc pa po hqk
      · -- (B3) everything removed: the run is at `is_finished()`
        have hrm : ∀ ob ∈ (simAt env s0 N).st.obs, ob.id ∈ (simAt env s0 N).st.buf.hot.finished := by
          intro ob hob
          cases Classical.em (Sys.PRm ob.id (simAt env s0 N).st) with
          | inl h => exact h
          | inr h => exact absurd ⟨ob, hob, h⟩ hB2
        have hqueue : (simAt env s0 N).st.queue = [] := by
          cases hqe : (simAt env s0 N).st.queue with
          | nil => rfl
          | cons o rest =>
            exfalso
            have hoq : o ∈ (simAt env s0 N).st.queue := by rw [hqe]; simp
            have hsch := Pt.queue_sched N hoq
            have hid := live_buf_ids_B C K N (Or.inr (Or.inl hsch))
            obtain ⟨ob, hob, hido, _⟩ := live_obs_rec_B C K N hid
            have hf := hrm ob hob
            rw [hido] at hf
            have hcnt := (live_bufi_B C K N).cnt o
            unfold locCount bufList at hcnt
            have c1 : 0 < (simAt env s0 N).st.buf.hot.scheduled.count o := List.count_pos_iff.mpr hsch
            have c2 : 0 < (simAt env s0 N).st.buf.hot.finished.count o := List.count_pos_iff.mpr hf
            simp only [List.count_append] at hcnt
            omega
        have := Pt.finished N (hq N (Nat.le_refl N))
          (fun ob hob => ⟨hall N (Nat.le_refl N) ob hob, hrm ob hob⟩) hqueue
        rw [hnf N] at this
        cases this
end
end Topsim
