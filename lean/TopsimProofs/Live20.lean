/-
  Live20 — no block raises under H1 and H2 (`NcCfg`), and hence the run reaches `is_finished()`
  with nothing raised: the assembly of Live15 (order facts), Live17 (the raise sites) and Live19.
-/
import TopsimProofs.Fit2
import TopsimProofs.Live17g
import TopsimProofs.Live15b2
import TopsimProofs.Live15c2
import TopsimProofs.Live19

namespace Topsim

open KState Sys

section
variable {env : SimEnv} {s0 : Sys}

theorem ncOrder (N : NcCfg env s0) : NcOrder env s0 where
  -- F14: from the accounting invariant `sim_fit` (Fit2), no `OneAdmission` hypothesis
  prov := fun n _ _ _ _ hpp ha _ _ hk hpc =>
    sim_provIngest_fits env s0 N.hw N.hb0.1 _ (simAt_reach env s0 n) (proc?_some hpp).1 ha hk hpc
  alloc := fun n hc _ _ hpk hpp ha _ _ _ _ _ hk hpc => nc_allocTask_avail N n hc hpk hpp ha hk hpc

/-- **No block raises** (queue algorithm; H1: no tiering; H2: one admission per telescope block). -/
theorem live_noRaise (N : NcCfg env s0) : NoRaise env s0 := nc_noRaise N (ncOrder N)

/-- **Termination**: after some number of kernel steps the run is at `is_finished()` and no block
has raised. -/
theorem live_terminates_cfg (N : NcCfg env s0) :
    ∃ n, (ilSimSteps env n (SimState.start s0)).st.isFinished = true ∧
      (ilSimSteps env n (SimState.start s0)).st.crashed = none ∧
      SimRun env s0 (ilSimSteps env n (SimState.start s0)) := by
  obtain ⟨n, h1, h2, h3⟩ := live_terminates_noRaise (N.toLive (live_noRaise N)) N.hh0
  refine ⟨n, ?_⟩
  rw [← simAt_eq_ilSimSteps]
  exact ⟨h1, h2, h3⟩

end

end Topsim
