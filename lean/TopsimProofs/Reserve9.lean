/-
  Reserve9 — the size of a reservation (idle machines plus machines occupied by tasks allocated for
  the observation) never changes while the reservation exists, and is within the configured bounds.
-/
import TopsimProofs.Reserve7

namespace Topsim
namespace Sys

open Cluster

/-- the polling entries of tasks allocated for `o` (not for ingest) -/
def resRun (c : Cluster) (o : Oid) : Nat :=
  (c.runOn.filter (fun e => decide (e.obs = some o) && !e.ing)).length

/-- the size of the reservation of `o`: its idle machines plus the machines its tasks occupy -/
def resSize (c : Cluster) (o : Oid) : Nat := (c.idleOf (some o)).length + resRun c o

/-- the configured upper bound: `floor(machines / partitions)`, or the per-observation maximum -/
def resBound (parts : Nat) (split : Option (List (Oid × Nat × Nat))) (machines : Nat) (o : Oid) : Nat :=
  match split with
  | none => machines / parts
  | some sp =>
    match dictGet sp o with
    | some (_, hi) => hi
    | none => 0

theorem resSize_congr {c c' : Cluster} {o : Oid} (hi : dictGet c'.idle o = dictGet c.idle o)
    (hr : c'.runOn = c.runOn) : resSize c' o = resSize c o := by
  unfold resSize resRun Cluster.idleOf
  simp only
  rw [hi, hr]

theorem resRun_append (c : Cluster) (l : List RunEntry) (x : RunEntry) (o : Oid) (hr : c.runOn = l ++ [x]) :
    resRun c o = (l.filter (fun e => decide (e.obs = some o) && !e.ing)).length +
      (if (decide (x.obs = some o) && !x.ing) = true then 1 else 0) := by
  unfold resRun
  rw [hr, List.filter_append, List.length_append]
  by_cases hp : (decide (x.obs = some o) && !x.ing) = true <;> simp [hp]

/-- the cluster after a block of an allocation process -/
theorem allocTask_cl_cases (s : Sys) (hpw : PW s) (p : Proc) (orc : Oracle) {t m preds obs ing ret}
    (hk : p.k = .allocTask t m preds obs ing ret) :
    (s.block p orc).1.cl = s.cl ∨
    (t ∉ s.cl.running ∧ (s.cl.allocBegin t m obs ing).2 = none ∧
      (s.block p orc).1.cl = (s.cl.allocBegin t m obs ing).1) ∨
    (t ∈ s.cl.running ∧ (s.block p orc).1.cl = (s.cl.allocEnd t m obs ing).1) := by
  have hb : s.block p orc = s.allocTaskBlock p.wake t m preds obs ing ret := by
    unfold block; simp only [hk]
  rw [hb]
  rcases allocTaskBlock_cases s hpw p.wake t m preds obs ing ret with
    ⟨_, e, he, heq⟩ | ⟨hnr, hok, heq⟩ | ⟨_, _, heq⟩ | ⟨hr, _, e, _, heq⟩ | ⟨hr, _, _, heq⟩ <;> rw [heq]
  · exact Or.inl (allocBegin_err_unchanged s.cl t m obs ing e he)
  · exact Or.inr (Or.inl ⟨hnr, hok, rfl⟩)
  · exact Or.inl rfl
  · exact Or.inr (Or.inr ⟨hr, rfl⟩)
  · exact Or.inr (Or.inr ⟨hr, rfl⟩)

/-- a release that leaves the reservation of `o` in place leaves the idle map as it was -/
theorem releaseBatch_idle_of_hasRes (c : Cluster) (o : Oid) (hk : (dictKeys c.idle).Nodup)
    (h : HasRes (c.releaseBatch o) o) : (c.releaseBatch o).idle = c.idle := by
  cases hg : dictGet c.idle o with
  | none => rw [releaseBatch_none c o hg]
  | some l =>
    by_cases hl : l = []
    · unfold releaseBatch; simp [hg, hl]
    · exfalso
      obtain ⟨_, r2, _⟩ := releaseBatch_returns c o l hg hl hk
      obtain ⟨l', hl'⟩ := h
      unfold dictHas at r2
      rw [hl'] at r2; simp at r2

theorem dictKeys_nodup_release (c : Cluster) (o : Oid) (hk : (dictKeys c.idle).Nodup) :
    (dictKeys (c.releaseBatch o).idle).Nodup :=
  (dictKeys_dictErase_sublist_or c o).nodup hk

/-- one step of a run: while `o` holds a reservation, its size does not change -/
theorem resume_resSize {s0 s : Sys} (hw : WFConfig s0) (hbuf : bufList s0.buf = []) {parts minPer : Nat}
    {split : Option (List (Oid × Nat × Nat))} (halg : s0.alg = .batch parts minPer split) (h : Reach s0 s)
    {pid : Nat} (hen : s.enabled pid) (orc : Oracle) (o : Oid) (h1 : HasRes s.cl o)
    (h2 : HasRes (s.resume pid orc).1.cl o) : resSize (s.resume pid orc).1.cl o = resSize s.cl o := by
  have hno : s0.alg ≠ .oracle := by rw [halg]; simp
  have hs := reach_inv s0 s hw (h.toOk hno)
  have hri := reach_ri s0 s hw hbuf halg h
  have hrv := reach_rv s0 s hw hbuf halg h
  have halg' : s.alg = .batch parts minPer split := by rw [reach_alg h]; exact halg
  obtain ⟨U, hU⟩ := hs.ci
  obtain ⟨p, hp, ha, hmin⟩ := hen
  obtain ⟨hpm, hpid⟩ := proc?_some hp
  subst hpid
  rw [resume_cl_block hp ha orc] at h2 ⊢
  obtain ⟨l, hg⟩ := h1
  by_cases h2t : p.k.tag = "allocTask"
  · cases hk : p.k with
    | allocTask t m preds obs ing ret =>
      rcases allocTask_cl_cases s hs.pw p orc hk with e | ⟨hnr, hok, e⟩ | ⟨hr, e⟩ <;> rw [e]
      · -- the first block
        obtain ⟨hrun, hcase⟩ := allocBegin_spec s.cl t m obs ing hok
        unfold resSize
        rw [resRun_append _ _ _ o hrun]
        rcases hcase with ⟨hing, hi, _⟩ | ⟨hing, hav, _⟩ | ⟨hing, _, o1, l1, hobs, hg1, hml1, hi, _⟩
        · have : (s.cl.allocBegin t m obs ing).1.idleOf (some o) = s.cl.idleOf (some o) := by
            unfold Cluster.idleOf; rw [hi]
          rw [this]
          simp only [hing, Bool.not_true, Bool.and_false, Bool.false_eq_true, if_false, Nat.add_zero]
          rfl
        · exfalso
          subst hing
          have hpc0 := hU.pc_zero hpm ha hk hnr
          obtain ⟨o', _, hr'⟩ := hrv.pend p hpm ha t m preds obs ret hk hpc0
          exact hr'.not_available hU.inv hav
        · by_cases e1 : o1 = o
          · subst e1
            rw [hg] at hg1
            injection hg1 with hg1
            subst hg1
            have h3 : (s.cl.allocBegin t m obs ing).1.idleOf (some o1) = l.erase m :=
              idleOf_of_get (by rw [hi, dictGet_dictSet, if_pos rfl])
            rw [h3, idleOf_of_get hg, List.length_erase_of_mem hml1]
            have hlen : 0 < l.length := List.length_pos_of_mem hml1
            simp only [hobs, hing, decide_true, Bool.not_false, Bool.and_self, if_true]
            show l.length - 1 + (resRun s.cl o1 + 1) = l.length + resRun s.cl o1
            omega
          · have h3 : (s.cl.allocBegin t m obs ing).1.idleOf (some o) = s.cl.idleOf (some o) := by
              unfold Cluster.idleOf
              simp only
              rw [hi, dictGet_dictSet, if_neg e1]
            rw [h3]
            have hne : ¬ (obs = some o) := by
              rw [hobs]; intro e2; injection e2 with e2; exact e1 e2
            simp only [hne, decide_false, Bool.false_and, Bool.false_eq_true, if_false, Nat.add_zero]
            rfl
      · -- the last block
        cases hok : (s.cl.allocEnd t m obs ing).2 with
        | some e' =>
          obtain ⟨g1, g2, _⟩ := allocEnd_err s.cl t m obs ing e' hok
          exact resSize_congr (by rw [g1]) g2
        | none =>
          obtain ⟨hrun, hcase⟩ := allocEnd_spec s.cl t m obs ing hok
          have hpc := hU.pc_pos hpm ha hk hr
          have hx := hU.runOn p hpm ha t m preds obs ing ret hk hpc
          have hcnt := length_filter_erase (fun e => decide (e.obs = some o) && !e.ing) s.cl.runOn _ hx
          unfold resSize resRun
          rw [hrun]
          rcases hcase with ⟨hing, hi, _⟩ | ⟨hing, o1, l1, hobs, hg1, hi, _⟩ | ⟨hing, hnone, hi, _⟩
          · subst hing
            have : (s.cl.allocEnd t m obs true).1.idleOf (some o) = s.cl.idleOf (some o) := by
              unfold Cluster.idleOf; rw [hi]
            rw [this]
            simp only [Bool.not_true, Bool.and_false, Bool.false_eq_true, if_false, Nat.add_zero] at hcnt
            rw [hcnt]
          · subst hing
            subst hobs
            by_cases e1 : o1 = o
            · subst e1
              rw [hg] at hg1
              injection hg1 with hg1
              subst hg1
              have h3 : (s.cl.allocEnd t m (some o1) false).1.idleOf (some o1) = l ++ [m] :=
                idleOf_of_get (by rw [hi, dictGet_dictSet, if_pos rfl])
              rw [h3, idleOf_of_get hg]
              simp only [decide_true, Bool.not_false, Bool.and_self, if_true] at hcnt
              simp only [List.length_append, List.length_singleton]
              omega
            · have h3 : (s.cl.allocEnd t m (some o1) false).1.idleOf (some o) = s.cl.idleOf (some o) := by
                unfold Cluster.idleOf
                simp only
                rw [hi, dictGet_dictSet, if_neg e1]
              rw [h3]
              have hne : ¬ (some o1 = some o) := by
                intro e2; injection e2 with e2; exact e1 e2
              simp only [hne, decide_false, Bool.false_and, Bool.false_eq_true, if_false, Nat.add_zero] at hcnt
              rw [hcnt]
          · subst hing
            have : (s.cl.allocEnd t m obs false).1.idleOf (some o) = s.cl.idleOf (some o) := by
              unfold Cluster.idleOf; rw [hi]
            rw [this]
            have hne : ¬ (obs = some o) := by
              intro e2
              rw [hnone o e2] at hg; exact absurd hg (by simp)
            simp only [hne, decide_false, Bool.false_and, Bool.false_eq_true, if_false, Nat.add_zero] at hcnt
            rw [hcnt]
    | _ => rw [hk] at h2t; simp [PK.tag] at h2t
  · by_cases h4 : p.k.tag = "allocTasks"
    · cases hk : p.k with
      | allocTasks oid sc pa po fn =>
        obtain ⟨E, _, _, _, _, _, hstep, hfin, _⟩ := allocTasks_batch_facts hri halg' p orc hk
        rcases hstep with e1 | hrs
        · rw [(hfin e1).1]
        · by_cases hne : o = oid
          · subst hne
            have hrun := hrs.runOn
            obtain ⟨c1, g1, g2⟩ := hrs
            have e1 : c1 = s.cl := by
              rcases g1 with e | ⟨hnp, _⟩
              · exact e
              · unfold Cluster.isProvisioned dictHas at hnp
                rw [hg] at hnp; simp at hnp
            subst e1
            have hidle : (s.block p orc).1.cl.idle = s.cl.idle := by
              rcases g2 with e | ⟨_, e | e⟩
              · rw [e]
              · rw [e] at h2 ⊢; exact releaseBatch_idle_of_hasRes _ _ hU.inv.keys h2
              · rw [e] at h2 ⊢
                have h3 := hasRes_of_release h2
                have h4' := releaseBatch_idle_of_hasRes _ _ hU.inv.keys h3
                rw [releaseBatch_idle_of_hasRes _ _ (dictKeys_nodup_release _ _ hU.inv.keys) h2, h4']
            exact resSize_congr (by rw [hidle]) hrun
          · exact resSize_congr (hrs.sameO o hne).1 (hrs.sameO o hne).2
      | _ => rw [hk] at h4; simp [PK.tag] at h4
    · obtain ⟨_, g2, g3⟩ := block_quiet_cl s p orc h2t h4 none
      exact resSize_congr (by rw [g3]) g2

/-- along a run: the size of every reservation is at least one machine, at least the configured
minimum, and at most the configured bound -/
theorem reach_resSize {s0 s : Sys} (hw : WFConfig s0) (hbuf : bufList s0.buf = []) {parts minPer : Nat}
    {split : Option (List (Oid × Nat × Nat))} (halg : s0.alg = .batch parts minPer split) (h : Reach s0 s) :
    ∀ o, HasRes s.cl o → 1 ≤ resSize s.cl o ∧ minPer ≤ resSize s.cl o ∧
      resSize s.cl o ≤ resBound parts split s0.machines.length o := by
  induction h with
  | start =>
    intro o ⟨l, hl⟩
    have : s0.start.cl = s0.cl := by simp [start, spawn]
    rw [this, hw.clInit] at hl
    simp [Cluster.init, dictGet] at hl
  | step s pid orc hr hen ih =>
    intro o hyes
    by_cases hbefore : HasRes s.cl o
    · rw [resume_resSize hw hbuf halg hr hen orc o hbefore hyes]
      exact ih o hbefore
    · obtain ⟨_, _, _, n, hn1, hmn, hnav, hmax, t1, _⟩ :=
        resume_new_reservation hw hbuf halg hr hen orc o hbefore hyes
      have hrv := reach_rv s0 s hw hbuf halg hr
      -- no task allocated for `o` is polling
      have hrun0 : resRun (s.resume pid orc).1.cl o = 0 := by
        unfold resRun
        rw [List.length_eq_zero_iff, List.filter_eq_nil_iff]
        intro e he hp
        simp only [Bool.and_eq_true, decide_eq_true_eq, Bool.not_eq_true'] at hp
        obtain ⟨ho, hi⟩ := hp
        by_cases hold : e ∈ s.cl.runOn
        · obtain ⟨o', ho', hr'⟩ := hrv.ro e hold hi
          rw [ho] at ho'
          injection ho' with e1
          rw [← e1] at hr'
          exact hbefore hr'
        · obtain ⟨o', _, _, ho', _, hm, _⟩ := resume_new_runOn hw hbuf halg hr hen orc e he hold hi
          rw [ho] at ho'
          injection ho' with e1
          rw [← e1] at hm
          obtain ⟨l, hl, _⟩ := mem_idleOf_iff.mp hm
          exact hbefore ⟨l, hl⟩
      have hsz : resSize (s.resume pid orc).1.cl o = n := by
        unfold resSize
        rw [hrun0, t1, List.length_take]
        omega
      rw [hsz]
      refine ⟨hn1, hmn, ?_⟩
      obtain ⟨_, b2, b3⟩ := maxResourceProvision_bounds s.cl parts split o n hmax
      unfold resBound
      cases split with
      | none =>
        have := b2 rfl
        rw [reach_machines hw hr, List.length_map] at this
        exact this
      | some sp =>
        obtain ⟨lo, hi, c1, c2, _⟩ := b3 sp rfl
        simp only [c1]
        exact c2

end Sys
end Topsim
