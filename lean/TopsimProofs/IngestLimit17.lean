/-
  IngestLimit17 — the ingest timing invariant: the clauses about allocation
  processes under steps that leave those processes alone (`ILTI.tail`,
  `ILTI.staleKeep`), and the blocks of the provisioning process
  (`provision_ingest_resources`), which creates them.
-/
import TopsimProofs.IngestLimit16

namespace Topsim

/-- ingest allocation processes and the telescope -/
def PK.ilAtTel : PK → Bool
  | .telescope => true
  | .allocTask _ _ _ _ ing _ => ing
  | _ => false

/-- ingest allocation processes -/
def PK.ilAtIng : PK → Bool
  | .allocTask _ _ _ _ ing _ => ing
  | _ => false

namespace Sys

open Cluster

/-- start time and duration of the observation records are kept -/
def IlObsKeep (s s' : Sys) : Prop :=
  (∀ ob' ∈ s'.obs, ∃ ob ∈ s.obs, ob'.duration = ob.duration) ∧
  ∀ o ob, s.obs? o = some ob →
    ∃ ob', s'.obs? o = some ob' ∧ (o ∈ s.admitted → ob'.ast = ob.ast) ∧ ob'.duration = ob.duration

theorem IlObsKeep.of_eq {s s' : Sys} (h : s'.obs = s.obs) : IlObsKeep s s' :=
  ⟨fun ob hob => ⟨ob, h ▸ hob, rfl⟩,
    fun o ob hob => ⟨ob, by rw [il_obs?_congr' h]; exact hob, fun _ => rfl, rfl⟩⟩

/-- the observation of an ingest allocation process has been admitted -/
theorem il_at_admitted {s : Sys} (hs : SInv s) (hil : ILInv s) {q : Proc} (hq : q ∈ s.procs)
    (hqa : q.alive = true) {t : Tid} {m : Mid} {preds : List Tid} {o : Oid} {ret : Nat}
    (hqk : q.k = .allocTask t m preds (some o) true ret) : o ∈ s.admitted := by
  obtain ⟨U, hU⟩ := hs.ci
  have hilc : ILC s.procs s.ilDemand s.cl.ilEntries s.provIngest s.maxIngest s.admitted := hil
  by_cases hpc : q.pc = 0
  · exact hilc.entAdm _ (mem_ilEntries.mpr (Or.inl (hU.pend q hq hqa t m preds (some o) ret hqk hpc))) o rfl
  · exact hilc.entAdm _ (mem_ilEntries.mpr (Or.inr ⟨hU.runOn q hq hqa t m preds (some o) true ret hqk (by omega), rfl⟩)) o rfl

/-- the clauses about task records and allocation processes, when allocation processes, task
bodies and the ghost lists are left alone -/
theorem ILTI.tail {s s' : Sys} (h : ILTI s) (hs : SInv s) (hil : ILInv s) (hok : IlObsKeep s s')
    (hpend : s'.cl.pending = s.cl.pending) (hrunOn : s'.cl.runOn = s.cl.runOn)
    (htasks : IlTaskK s.tasks s'.tasks)
    (hold : ∀ q ∈ s.procs, (q.k.ilAtIng = true ∨ q.k.isDoWork = true) → q ∈ s'.procs)
    (hnewAT : ∀ q' ∈ s'.procs, ∀ t m preds obs ret, q'.k = .allocTask t m preds obs true ret → q' ∈ s.procs) :
    (∀ ob ∈ s'.obs, 1 ≤ ob.duration) ∧
    (∀ r ∈ s'.tasks, ∀ o i, r.id = .ingest o i →
      r.flops = 0 ∧ r.data = 0 ∧ ∃ ob, s'.obs? o = some ob ∧ r.duration = ob.duration) ∧
    (∀ q ∈ s'.procs, q.alive = true → q.pc = 0 → ∀ t m preds o ret,
      q.k = .allocTask t m preds (some o) true ret →
      preds = [] ∧ (∃ i, t = .ingest o i) ∧
        ∃ ob a, s'.obs? o = some ob ∧ ob.ast = some a ∧ q.wake = ((a : Nat) : Time)) ∧
    (∀ q ∈ s'.procs, q.alive = true → 1 ≤ q.pc → ∀ t m preds o ret,
      q.k = .allocTask t m preds (some o) true ret →
      (∃ i, t = .ingest o i) ∧ ∃ r ∈ s'.procs, r.pid = ret ∧ q.wake ≤ r.wake + 1 ∧
        ∃ ph tot, r.k = .doWork t m [] ph tot ∧ (r.alive = true → ph = 0 ∨ 2 ≤ ph) ∧
          ∃ ob a b, s'.obs? o = some ob ∧ ob.ast = some a ∧ r.wake = ((b : Nat) : Time) ∧
            (r.alive = true → ph = 0 → b = a) ∧ b + 1 ≤ a + ob.duration ∧ ∃ c : Nat, q.wake = (c : Time)) ∧
    (∀ e ∈ s'.cl.pending, ∃ o, e.obs = some o ∧ ∃ q ∈ s'.procs, q.alive = true ∧ q.pc = 0 ∧
      ∃ preds ret, q.k = .allocTask e.task e.mach preds (some o) true ret) ∧
    (∀ e ∈ s'.cl.runOn, e.ing = true → ∃ o, e.obs = some o ∧ ∃ q ∈ s'.procs, q.alive = true ∧
      1 ≤ q.pc ∧ ∃ preds ret, q.k = .allocTask e.task e.mach preds (some o) true ret) ∧
    (∀ rec ∈ s'.tasks, rec.id.isIngest = true → ∀ f, rec.aft = some f →
      ∃ d ∈ s'.procs, d.alive = false ∧ f = d.wake + 1 ∧ ∃ m preds ph tot, d.k = .doWork rec.id m preds ph tot) := by
  obtain ⟨hk1, hk2⟩ := hok
  refine ⟨?_, ?_, ?_, ?_, ?_, ?_, ?_⟩
  · intro ob' hob'
    obtain ⟨ob, hob, e⟩ := hk1 ob' hob'
    rw [e]; exact h.durPos ob hob
  · intro r' hr' o i hid
    obtain ⟨r, hr, e1, e2, e3, e4, _⟩ := htasks r' hr' (by rw [hid]; rfl)
    obtain ⟨k1, k2, ob, hob, k3⟩ := h.taskR r hr o i (e1 ▸ hid)
    obtain ⟨ob', hob', _, hd⟩ := hk2 o ob hob
    exact ⟨e2.trans k1, e3.trans k2, ob', hob', by rw [hd, e4 k1 k2, k3]⟩
  · intro q hq hqa hqc t m preds o ret hqk
    have hqo := hnewAT q hq _ _ _ _ _ hqk
    obtain ⟨h1, h2, ob, a, h3, h4, h5⟩ := h.atPend q hqo hqa hqc t m preds o ret hqk
    obtain ⟨ob', hob', ha', _⟩ := hk2 o ob h3
    exact ⟨h1, h2, ob', a, hob', by rw [ha' (il_at_admitted hs hil hqo hqa hqk)]; exact h4, h5⟩
  · intro q hq hqa hqc t m preds o ret hqk
    have hqo := hnewAT q hq _ _ _ _ _ hqk
    obtain ⟨h1, r, hr, hrp, hw, ph, tot, hrk, hph, ob, a, b, hob, hast, rest1, rest2, rest3, rest4⟩ :=
      h.atRun q hqo hqa hqc t m preds o ret hqk
    obtain ⟨ob', hob', ha', hd'⟩ := hk2 o ob hob
    exact ⟨h1, r, hold r hr (Or.inr (by rw [hrk]; rfl)), hrp, hw, ph, tot, hrk, hph, ob', a, b, hob',
      by rw [ha' (il_at_admitted hs hil hqo hqa hqk)]; exact hast, rest1, rest2, by rw [hd']; exact rest3, rest4⟩
  · intro e he
    rw [hpend] at he
    obtain ⟨o, h1, q, hq, h2, h3, preds, ret, hqk⟩ := h.entPend e he
    exact ⟨o, h1, q, hold q hq (Or.inl (by rw [hqk]; rfl)), h2, h3, preds, ret, hqk⟩
  · intro e he hi
    rw [hrunOn] at he
    obtain ⟨o, h1, q, hq, h2, h3, preds, ret, hqk⟩ := h.entRun e he hi
    exact ⟨o, h1, q, hold q hq (Or.inl (by rw [hqk]; rfl)), h2, h3, preds, ret, hqk⟩
  · intro r' hr' hi f hf
    obtain ⟨r, hr, e1, _, _, _, e5⟩ := htasks r' hr' hi
    obtain ⟨d, hd, hda, hfd, m, preds, ph, tot, hdk⟩ := h.aftI r hr (e1 ▸ hi) f (e5 ▸ hf)
    exact ⟨d, hold d hd (Or.inr (by rw [hdk]; rfl)), hda, hfd, m, preds, ph, tot, by rw [e1]; exact hdk⟩

/-- the clause about stale allocation processes, for the entries whose supervisor was dead
before: the witnesses are still there, their task bodies still dead, the telescope not earlier -/
theorem ILTI.staleKeep {s s' : Sys} (h : ILTI s) (_hpw : PW s) {e : RunEntry} (he : e ∈ s.cl.ilEntries) {o : Oid}
    (heo : e.obs = some o) (hno : o ∉ ilLiveAI s.procs)
    (hold : ∀ q ∈ s.procs, (q.k.ilAtIng = true ∨ q.k.isDoWork = true) → q ∈ s'.procs)
    (hdwpid : ∀ r' ∈ s'.procs, r' ∈ s.procs ∨ ∀ r ∈ s.procs, r.k.isDoWork = true → r.pid ≠ r'.pid)
    (htel : ∀ t' ∈ s'.procs, t'.k = .telescope → t'.alive = true →
      ∃ t ∈ s.procs, t.k = .telescope ∧ t.alive = true ∧ t.wake ≤ t'.wake) :
    ∃ q ∈ s'.procs, q.alive = true ∧ 1 ≤ q.pc ∧
      (∃ preds ret, q.k = .allocTask e.task e.mach preds (some o) true ret ∧
        ∀ r ∈ s'.procs, r.pid = ret → r.alive = false ∧ r.wake + 1 ≤ q.wake) ∧
      ∀ t ∈ s'.procs, t.k = .telescope → t.alive = true → q.wake < t.wake := by
  obtain ⟨q, hq, hqa, hqc, ⟨preds, ret, hqk, hdead⟩, hlt⟩ := h.stale e he o heo hno
  refine ⟨q, hold q hq (Or.inl (by rw [hqk]; rfl)), hqa, hqc, ⟨preds, ret, hqk, ?_⟩, ?_⟩
  · intro r' hr' hrp
    rcases hdwpid r' hr' with hh | hh
    · exact hdead r' hh hrp
    · exfalso
      obtain ⟨_, r, hr, hrpid, _, ph, tot, hrk, _⟩ := h.atRun q hq hqa hqc _ _ _ _ _ hqk
      exact hh r hr (by rw [hrk]; rfl) (hrpid.trans hrp.symm)
  · intro t' ht' htk hta
    obtain ⟨t, ht, htk0, hta0, hle⟩ := htel t' ht' htk hta
    have := hlt t ht htk0 hta0
    grind

/-! ### the provisioning process -/

theorem il_foldSpawn_has {α} (K : α → PK) (now : Time) (l : List α) (s1 : Sys) :
    ∀ x ∈ l, ∃ q ∈ (l.foldl (fun s p => (s.spawn (K p) now).1) s1).procs,
      q.k = K x ∧ q.wake = now ∧ q.alive = true ∧ q.pc = 0 := by
  induction l generalizing s1 with
  | nil => intro x hx; cases hx
  | cons y r ih =>
    intro x hx
    simp only [List.foldl_cons]
    rcases List.mem_cons.mp hx with rfl | hx
    · obtain ⟨⟨new, h1, _⟩, _⟩ := foldSpawn_spec K now r (s1.spawn (K x) now).1
      refine ⟨{ pid := s1.nextPid, k := K x, wake := now }, ?_, rfl, rfl, rfl, rfl⟩
      rw [h1]; simp
    · exact ih _ x hx

theorem il_foldSpawn_kind {α} (K : α → PK) (now : Time) (l : List α) (s1 : Sys) :
    ∀ q ∈ (l.foldl (fun s p => (s.spawn (K p) now).1) s1).procs, q ∈ s1.procs ∨ ∃ x ∈ l, q.k = K x := by
  obtain ⟨⟨new, g1, g2⟩, _⟩ := foldSpawn_spec K now l s1
  intro q hq
  rw [g1] at hq
  rcases List.mem_append.mp hq with hh | hh
  · exact Or.inl hh
  · exact Or.inr (g2 q hh)

theorem ilti_step_provIngest {s : Sys} (hs : SInv s) (h : ILTI s) (hil : ILInv s) {pid : Nat} {p : Proc}
    (hp : s.proc? pid = some p) (ha : p.alive = true) (orc : Oracle) {o : Oid} {d : Nat}
    (hk : p.k = .provIngest o d) : ILTI (s.resume pid orc).1 := by
  obtain ⟨hpm, hpid⟩ := proc?_some hp
  have hpw := hs.pw
  obtain ⟨U, hU⟩ := hs.ci
  have hb : s.block p orc = s.provIngestBlock p.wake p.pc o d := by
    unfold block; simp only [hk]
  obtain ⟨f1, f2, f3⟩ := il_resume_fields s pid orc p hp ha
  obtain ⟨r1, _, _⟩ := il_resume_procs_eq s pid orc p hp ha
  obtain ⟨mm1, mm2, mm3⟩ := il_resume_procs_mem hpw hp ha orc
  have hobsB : (s.block p orc).1.obs = s.obs := by
    rw [hb]; unfold provIngestBlock
    split
    · simp only
      split
      · rfl
      · obtain ⟨_, _, _, _, g6, _⟩ := foldSpawn_spec (fun x : Mid × Tid => PK.allocTask x.2 x.1 [] (some o) true 0)
          p.wake _ ({ s with cl := _, tasks := _ } : Sys)
        exact g6
    · rfl
  have hobs : (s.resume pid orc).1.obs = s.obs := f1.trans hobsB
  have ho : ∀ o', (s.resume pid orc).1.obs? o' = s.obs? o' := il_obs?_congr' hobs
  have hkb : (s.block p orc).2.1 = .provIngest o d := by
    rw [hb]; exact (provIngestBlock_presE s p.wake p.pc o d).2
  have hp'k : (fin (s.block p orc).2.1 (s.block p orc).2.2 p.wake p).k = .provIngest o d := by
    rw [fin_k, hkb]
  -- every process other than `p` is an old one or a new allocation process
  have hne_of : ∀ q ∈ s.procs, q.k ≠ p.k → q.pid ≠ pid := by
    intro q hq hne e
    have : q = p := hpw.eq_of_pid hq hpm (e.trans hpid.symm)
    exact hne (by rw [this])
  have hold : ∀ q ∈ s.procs, (q.k.ilAtIng = true ∨ q.k.isDoWork = true) → q ∈ (s.resume pid orc).1.procs := by
    intro q hq hrel
    apply mm3 q hq (hne_of q hq ?_)
    intro e; rw [e, hk] at hrel; simp [PK.ilAtIng, PK.isDoWork] at hrel
  -- the new processes are ingest allocation processes of `o`, due now
  have hnewAT : ∀ q' ∈ (s.resume pid orc).1.procs, q' ∉ s.procs →
      q' ≠ fin (s.block p orc).2.1 (s.block p orc).2.2 p.wake p →
      q'.wake = p.wake ∧ q'.alive = true ∧ q'.pc = 0 ∧ s.nextPid ≤ q'.pid ∧
      ∃ x ∈ (s.cl.provisionIngest d o).2.2, q'.k = .allocTask x.2 x.1 [] (some o) true 0 := by
    intro q' hq' hnold hnp
    rcases mm1 q' hq' with rfl | ⟨hh, _⟩ | ⟨w1, w2, w3, w4⟩
    · exact absurd rfl hnp
    · exact absurd hh hnold
    · have hst : ilSpawnTime p = p.wake := by unfold ilSpawnTime; rw [hk]
      refine ⟨by rw [w1, hst], w2, w3, w4, ?_⟩
      -- its kind
      rw [r1] at hq'
      obtain ⟨q0, hq0, rfl⟩ := mem_updProc.mp hq'
      have hne : q0.pid ≠ pid := by
        intro e
        rw [if_pos e] at w4 hnp
        simp at w4
        have := hpw.lt p hpm
        omega
      rw [if_neg hne] at hnold w4 ⊢
      rw [hb] at hq0
      unfold provIngestBlock at hq0
      split at hq0
      · simp only at hq0
        split at hq0
        · exact absurd hq0 hnold
        · rename_i cl1 pairs heq
          rcases il_foldSpawn_kind (fun x : Mid × Tid => PK.allocTask x.2 x.1 [] (some o) true 0)
            p.wake pairs _ q0 hq0 with hh | ⟨x, hx, hxk⟩
          · exact absurd hh hnold
          · refine ⟨x, ?_, hxk⟩
            rw [heq]; exact hx
      · exact absurd hq0 hnold
  have hPI0 : ∀ q' ∈ (s.resume pid orc).1.procs, q'.alive = true → q'.pc = 0 → ∀ o' d', q'.k = .provIngest o' d' → q' ∈ s.procs := by
    intro q' hq' _ hqc o' d' hqk
    rcases mm1 q' hq' with rfl | ⟨hh, _⟩ | _
    · simp at hqc
    · exact hh
    · by_cases hin : q' ∈ s.procs
      · exact hin
      · exfalso
        by_cases hnp : q' = fin (s.block p orc).2.1 (s.block p orc).2.2 p.wake p
        · rw [hnp] at hqc; simp at hqc
        · obtain ⟨_, _, _, _, x, _, hxk⟩ := hnewAT q' hq' hin hnp
          rw [hxk] at hqk; exact absurd hqk (by simp)
  have hAI : ∀ q' ∈ (s.resume pid orc).1.procs, ∀ o' tl, q'.k = .allocIngest o' tl → q' ∈ s.procs := by
    intro q' hq' o' tl hqk
    by_cases hin : q' ∈ s.procs
    · exact hin
    · exfalso
      by_cases hnp : q' = fin (s.block p orc).2.1 (s.block p orc).2.2 p.wake p
      · rw [hnp, hp'k] at hqk; exact absurd hqk (by simp)
      · obtain ⟨_, _, _, _, x, _, hxk⟩ := hnewAT q' hq' hin hnp
        rw [hxk] at hqk; exact absurd hqk (by simp)
  have hAIold : ∀ q ∈ s.procs, q.k.aiObs ≠ none → q ∈ (s.resume pid orc).1.procs := by
    intro q hq hqk
    apply mm3 q hq (hne_of q hq ?_)
    intro e; rw [e, hk] at hqk; simp [PK.aiObs] at hqk
  have hlive : ∀ o', o' ∈ ilLiveAI s.procs → o' ∈ ilLiveAI (s.resume pid orc).1.procs := by
    intro o' hin
    obtain ⟨q, hq, hqa, hqk⟩ := mem_ilLiveAI.mp hin
    exact mem_ilLiveAI.mpr ⟨q, hAIold q hq (by rw [hqk]; simp), hqa, hqk⟩
  have hdwpid : ∀ r' ∈ (s.resume pid orc).1.procs, r' ∈ s.procs ∨ ∀ r ∈ s.procs, r.k.isDoWork = true → r.pid ≠ r'.pid := by
    intro r' hr'
    rcases mm1 r' hr' with rfl | ⟨hh, _⟩ | ⟨_, _, _, w4⟩
    · right
      intro r hr hrk e
      have : r = p := hpw.eq_of_pid hr hpm (by simpa [hpid] using e)
      rw [this, hk] at hrk; simp [PK.isDoWork] at hrk
    · exact Or.inl hh
    · right
      intro r hr _ e
      have := hpw.lt r hr
      omega
  have htel : ∀ t' ∈ (s.resume pid orc).1.procs, t'.k = .telescope → t'.alive = true →
      ∃ t ∈ s.procs, t.k = .telescope ∧ t.alive = true ∧ t.wake ≤ t'.wake := by
    intro t' ht' htk hta
    by_cases hin : t' ∈ s.procs
    · exact ⟨t', hin, htk, hta, Rat.le_refl⟩
    · exfalso
      by_cases hnp : t' = fin (s.block p orc).2.1 (s.block p orc).2.2 p.wake p
      · rw [hnp, hp'k] at htk; exact absurd htk (by simp)
      · obtain ⟨_, _, _, _, x, _, hxk⟩ := hnewAT t' ht' hin hnp
        rw [hxk] at htk; exact absurd htk (by simp)
  -- the state after the block: the ghost lists, the task records
  by_cases hstay : (s.block p orc).1.cl = s.cl ∧ (s.block p orc).1.tasks = s.tasks ∧ (s.block p orc).1.procs = s.procs
  · -- the process had run already, or the provisioning was refused
    obtain ⟨hcl, htk, hpr⟩ := hstay
    have hallold : ∀ q' ∈ (s.resume pid orc).1.procs, q' ∈ s.procs ∨ q' = fin (s.block p orc).2.1 (s.block p orc).2.2 p.wake p := by
      intro q' hq'
      rw [r1] at hq'
      obtain ⟨q0, hq0, rfl⟩ := mem_updProc.mp hq'
      rw [hpr] at hq0
      by_cases e : q0.pid = pid
      · right
        have : q0 = p := hpw.eq_of_pid hq0 hpm (e.trans hpid.symm)
        rw [if_pos e, this]
      · left; rw [if_neg e]; exact hq0
    obtain ⟨t1, t2, t3, t4, t5, t6, t7⟩ := h.tail hs hil (IlObsKeep.of_eq hobs) (by rw [f2, hcl]) (by rw [f2, hcl])
      (by rw [f3, htk]; exact IlTaskK.refl _) hold
      (by
        intro q' hq' t m preds obs ret hqk
        rcases hallold q' hq' with hh | hh
        · exact hh
        · rw [hh, hp'k] at hqk; exact absurd hqk (by simp))
    obtain ⟨b1, b2, b3, b4, b4', b5⟩ := h.base hobs (by rw [f3, htk]; exact IlTaskK.refl _)
      (fun q' hq' o' tl hqk _ => hAI q' hq' o' tl hqk) (fun q' hq' _ o' tl hqk => hAI q' hq' o' tl hqk) hPI0
    refine ⟨t1, t2, b3, b4, b4', b5, t3, t4, t7, t5, t6, ?_⟩
    intro e he o' heo hno
    have he' : e ∈ s.cl.ilEntries := by rw [f2, hcl] at he; exact he
    exact h.staleKeep hpw he' heo (fun hin => hno (hlive o' hin)) hold hdwpid htel
  · -- the machines arrive: the first block, provisioning accepted
    have hpc : p.pc = 0 := by
      apply Decidable.byContradiction
      intro hpc
      apply hstay
      rw [hb]; unfold provIngestBlock
      simp only [hpc, if_false]
      refine ⟨?_, ?_, ?_⟩ <;> first | rfl | trivial
    have hok : (s.cl.provisionIngest d o).2.1 = none := by
      cases hc : (s.cl.provisionIngest d o).2.1 with
      | none => rfl
      | some err =>
        exfalso
        apply hstay
        have href := provisionIngest_refused hU.inv d o err hc
        rw [hb]; unfold provIngestBlock
        simp only [hpc, if_true]
        generalize hr : s.cl.provisionIngest d o = r at hc href
        obtain ⟨cl1, e1, pairs⟩ := r
        simp only at hc href
        subst hc
        simp only
        refine ⟨href, ?_, ?_⟩ <;> first | rfl | trivial
    have hfresh : ∀ i, Tid.ingest o i ∉ U := by
      intro i hi
      obtain ⟨q, hq, d', hqk, hqc⟩ := hU.provOnce o i hi
      have e' := hU.provUniq q hq p hpm o d' d hqk hk
      have : q = p := hpw.eq_of_pid hq hpm e'
      subst this
      omega
    obtain ⟨_, g1, g2, _, _, _, gids⟩ := provisionIngest_sharp hU.inv d o hfresh hok
    -- the block's state
    have hblk : (s.block p orc).1.cl = (s.cl.provisionIngest d o).1 ∧
        (s.block p orc).1.tasks = s.tasks ++ (s.cl.provisionIngest d o).2.2.map (fun x : Mid × Tid =>
          ({ id := x.2, duration := (match s.obs? o with | some o => o.duration | none => 0),
             status := .scheduled } : TaskRec)) ∧
        ∀ x ∈ (s.cl.provisionIngest d o).2.2, ∃ q ∈ (s.block p orc).1.procs,
          q.k = .allocTask x.2 x.1 [] (some o) true 0 ∧ q.wake = p.wake ∧ q.alive = true ∧ q.pc = 0 := by
      rw [hb]; unfold provIngestBlock
      simp only [hpc, if_true]
      generalize hr : s.cl.provisionIngest d o = r at hok
      obtain ⟨cl1, e1, pairs⟩ := r
      simp only at hok
      subst hok
      simp only
      obtain ⟨_, _, g4, g5, _⟩ := foldSpawn_spec (fun x : Mid × Tid => PK.allocTask x.2 x.1 [] (some o) true 0)
        p.wake pairs ({ s with cl := cl1, tasks := s.tasks ++ List.map (fun x : Mid × Tid =>
          ({ id := x.2, duration := (match s.obs? o with | some o => o.duration | none => 0),
             status := .scheduled } : TaskRec)) pairs } : Sys)
      exact ⟨g4, g5, il_foldSpawn_has _ p.wake pairs _⟩
    obtain ⟨hcl, htk, hspawn⟩ := hblk
    -- the supervisor of `o` is alive; the process is due at the observation's start
    have hilc : ILC s.procs s.ilDemand s.cl.ilEntries s.provIngest s.maxIngest s.admitted := hil
    obtain ⟨_, w, hwm, hwa, _, hwk, _⟩ := hilc.piLive p hpm ha hpc o d hk
    have holive : o ∈ ilLiveAI (s.resume pid orc).1.procs := hlive o (mem_ilLiveAI.mpr ⟨w, hwm, hwa, hwk⟩)
    obtain ⟨ob, a, hob, hast, hwake⟩ := h.piW p hpm ha hpc o d hk
    -- the new processes, in the table after `resume`
    have hspawn' : ∀ x ∈ (s.cl.provisionIngest d o).2.2, ∃ q ∈ (s.resume pid orc).1.procs,
        q.k = .allocTask x.2 x.1 [] (some o) true 0 ∧ q.wake = p.wake ∧ q.alive = true ∧ q.pc = 0 := by
      intro x hx
      obtain ⟨q, hq, hqk, hqw, hqa, hqc⟩ := hspawn x hx
      refine ⟨q, ?_, hqk, hqw, hqa, hqc⟩
      rw [r1]
      refine mem_updProc.mpr ⟨q, hq, ?_⟩
      rw [if_neg]
      intro e
      have hnw := (block_ilnw s p orc).2 q hq
      rcases hnw with hold' | ⟨_, _, _, w4⟩
      · have : q = p := hpw.eq_of_pid hold' hpm (e.trans hpid.symm)
        rw [this, hk] at hqk; exact absurd hqk (by simp)
      · have := hpw.lt p hpm; omega
    have hATold : ∀ q' ∈ (s.resume pid orc).1.procs, ∀ t m preds obs ret,
        q'.k = .allocTask t m preds obs true ret → q' ∈ s.procs ∨
        (q'.wake = p.wake ∧ q'.alive = true ∧ q'.pc = 0 ∧ ∃ x ∈ (s.cl.provisionIngest d o).2.2,
          q'.k = .allocTask x.2 x.1 [] (some o) true 0) := by
      intro q' hq' t m preds obs ret hqk
      by_cases hin : q' ∈ s.procs
      · exact Or.inl hin
      · right
        have hnp : q' ≠ fin (s.block p orc).2.1 (s.block p orc).2.2 p.wake p := by
          intro e; rw [e, hp'k] at hqk; exact absurd hqk (by simp)
        obtain ⟨w1, w2, w3, _, x, hx, hxk⟩ := hnewAT q' hq' hin hnp
        exact ⟨w1, w2, w3, x, hx, hxk⟩
    have hpend' : (s.resume pid orc).1.cl.pending = s.cl.pending ++
        (s.cl.provisionIngest d o).2.2.map (fun x => (⟨x.2, x.1, some o, true⟩ : RunEntry)) := by
      rw [f2, hcl]; exact g1
    have hrunOn' : (s.resume pid orc).1.cl.runOn = s.cl.runOn := by rw [f2, hcl]; exact g2
    refine ⟨by rw [hobs]; exact h.durPos, ?_, ?_, ?_, ?_, ?_, ?_, ?_, ?_, ?_, ?_, ?_⟩
    · -- task records: the new ones carry no work and are planned for the duration
      intro r' hr' o' i' hid
      rw [f3, htk] at hr'
      rcases List.mem_append.mp hr' with hh | hh
      · obtain ⟨k1, k2, ob', hob', k3⟩ := h.taskR r' hh o' i' hid
        exact ⟨k1, k2, ob', by rw [ho]; exact hob', k3⟩
      · obtain ⟨x, hx, rfl⟩ := List.mem_map.mp hh
        obtain ⟨i0, hi0⟩ := gids x hx
        simp only at hid
        rw [hi0] at hid
        injection hid with e1 _
        subst e1
        refine ⟨rfl, rfl, ob, by rw [ho]; exact hob, ?_⟩
        simp only [hob]
    · intro q hq o' tl hqk hqc
      obtain ⟨n, ob', h1, h2, h3⟩ := h.aiNew q (hAI q hq o' tl hqk) o' tl hqk hqc
      exact ⟨n, ob', h1, by rw [ho]; exact h2, h3⟩
    · intro q hq hqa hqc o' tl hqk
      obtain ⟨ob', a', j, h1, r⟩ := h.aiRun q (hAI q hq o' tl hqk) hqa hqc o' tl hqk
      exact ⟨ob', a', j, by rw [ho]; exact h1, r⟩
    · intro q hq hqa o' tl hqk ob' a' hob'
      rw [ho] at hob'
      exact h.aiFin q (hAI q hq o' tl hqk) hqa o' tl hqk ob' a' hob'
    · intro q hq hqa hqc o' d' hqk
      obtain ⟨ob', a', h1, r⟩ := h.piW q (hPI0 q hq hqa hqc o' d' hqk) hqa hqc o' d' hqk
      exact ⟨ob', a', by rw [ho]; exact h1, r⟩
    · -- allocation processes before their first block: the old ones, and the new ones
      intro q hq hqa hqc t m preds o' ret hqk
      rcases hATold q hq t m preds (some o') ret hqk with hh | ⟨w1, _, _, x, hx, hxk⟩
      · obtain ⟨h1, h2, ob', a', h3, r⟩ := h.atPend q hh hqa hqc t m preds o' ret hqk
        exact ⟨h1, h2, ob', a', by rw [ho]; exact h3, r⟩
      · rw [hxk] at hqk
        injection hqk with e1 e2 e3 e4 e5 e6
        injection e4 with e4
        subst e1 e2 e3 e4 e6
        obtain ⟨i0, hi0⟩ := gids x hx
        exact ⟨rfl, ⟨i0, hi0⟩, ob, a, by rw [ho]; exact hob, hast, by rw [w1]; exact hwake⟩
    · intro q hq hqa hqc t m preds o' ret hqk
      rcases hATold q hq t m preds (some o') ret hqk with hh | ⟨_, _, w3, _⟩
      · obtain ⟨h1, r, hr, hrp, hw, ph, tot, hrk, hph, ob', a', b, hob', rest⟩ :=
          h.atRun q hh hqa hqc t m preds o' ret hqk
        exact ⟨h1, r, hold r hr (Or.inr (by rw [hrk]; rfl)), hrp, hw, ph, tot, hrk, hph, ob', a', b,
          by rw [ho]; exact hob', rest⟩
      · omega
    · -- F13: recorded finishes: the new records carry none
      intro r' hr' hi f hf
      rw [f3, htk] at hr'
      rcases List.mem_append.mp hr' with hh | hh
      · obtain ⟨d', hd', hda, hfd, m', preds', ph', tot', hdk⟩ := h.aftI r' hh hi f hf
        exact ⟨d', hold d' hd' (Or.inr (by rw [hdk]; rfl)), hda, hfd, m', preds', ph', tot', hdk⟩
      · obtain ⟨x, _, rfl⟩ := List.mem_map.mp hh
        simp at hf
    · -- the ghost list of processes before their first block
      intro e he
      rw [hpend'] at he
      rcases List.mem_append.mp he with hh | hh
      · obtain ⟨o', h1, q, hq, h2, h3, preds, ret, hqk⟩ := h.entPend e hh
        exact ⟨o', h1, q, hold q hq (Or.inl (by rw [hqk]; rfl)), h2, h3, preds, ret, hqk⟩
      · obtain ⟨x, hx, rfl⟩ := List.mem_map.mp hh
        obtain ⟨q, hq, hqk, _, hqa, hqc⟩ := hspawn' x hx
        exact ⟨o, rfl, q, hq, hqa, hqc, [], 0, hqk⟩
    · intro e he hi
      rw [hrunOn'] at he
      obtain ⟨o', h1, q, hq, h2, h3, preds, ret, hqk⟩ := h.entRun e he hi
      exact ⟨o', h1, q, hold q hq (Or.inl (by rw [hqk]; rfl)), h2, h3, preds, ret, hqk⟩
    · -- nothing new is stale: the supervisor of `o` is alive
      intro e he o' heo hno
      have hcases : e ∈ s.cl.ilEntries ∨ e.obs = some o := by
        rcases mem_ilEntries.mp he with hpd | ⟨hro, hi⟩
        · rw [hpend'] at hpd
          rcases List.mem_append.mp hpd with hh | hh
          · exact Or.inl (mem_ilEntries.mpr (Or.inl hh))
          · obtain ⟨x, _, rfl⟩ := List.mem_map.mp hh
            exact Or.inr rfl
        · rw [hrunOn'] at hro
          exact Or.inl (mem_ilEntries.mpr (Or.inr ⟨hro, hi⟩))
      rcases hcases with hh | hh
      · exact h.staleKeep hpw hh heo (fun hin => hno (hlive o' hin)) hold hdwpid htel
      · rw [hh] at heo
        injection heo with heo
        subst heo
        exact absurd holive hno

end Sys
end Topsim
