/-
  BoundP6f — (plan-following algorithms; the counterpart of Bound6f) timed liveness of the workflow-task workers (part 6): along the run.
  * a process created by a block of `allocate_tasks` is the allocation process of a node that had
    none before (`boundP_tw_spawn_named`, the named form of `l7_spawn_flips`), so the deadline
    `latest + V` grows by the weight of the node in that block;
  * the invariant `BoundPTw` at every index, with deadline `boundLV`;
  * `boundP_tl_wf`.
-/
import TopsimProofs.BoundP6e

namespace Topsim

open KState Sys

namespace Sys

/-- **A process created by a block of `allocate_tasks`** is the allocation process of a node of the
workflow of its observation; no allocation process carried that node before.  (`l7_spawn_flips_P`,
naming the process.) -/
theorem boundP_tw_spawn_named {s0 s s' : Sys} {p : Proc} {orc : Oracle} (L : L7PLib s0 s) (L' : L7PLib s0 s')
    (A' : L7A s') (PI' : PlanI s0 s') (h : L7Step s s' p orc)
    {o : Oid} {sc pa : List (Tid × Mid)} {po : List Tid} {fn : Bool} (hk : p.k = .allocTasks o sc pa po fn)
    {new : List Proc} (hnew : (s.block p orc).1.procs = s.procs ++ new) {q : Proc} (hq : q ∈ new) :
    ∃ ob ∈ s0.obs, ob.id = o ∧ ∃ node ∈ ob.wf.topo, ¬ PAT o node s ∧
      ∃ c m preds, q.k = .allocTask (.wf o c node) m preds (some o) false 0 := by
  have hpm := h.mem
  have hs := L.sinv
  obtain ⟨U, hU⟩ := hs.ci
  have hno : s.alg ≠ .oracle := L.alg.noOracle
  have hm := h.memSpec hs hnew
  have hq' : q ∈ s'.procs := (hm q).mpr (Or.inr (Or.inr hq))
  obtain ⟨t, m, cross, hqk, hu0, hu1⟩ := l7_ats_new L.su hno hpm h.ha orc hk hnew q hq
  rw [← h.tstat] at hu1
  obtain ⟨o3, c, n, eo, et⟩ := L'.px.atObs q hq' t m cross (some o) 0 hqk
  injection eo with eo
  subst eo
  obtain ⟨r, hr, hrs⟩ := l7_rec_of_ne_unsched (s := s') (t := t) (by rw [hu1]; simp)
  have hrst : r.status = .scheduled := by
    have := hu1; rw [tstat_eq, hr] at this; exact this
  have hrm : r ∈ s'.tasks := List.mem_of_find?_eq_some hr
  have hrid : r.id = t := task?_id hr
  have hpt := L'.wi.pc r hrm o c n (hrid.trans et) (by rw [hrst]; simp)
  unfold planTasks at hpt
  cases hpl : s'.plan? o with
  | none => rw [hpl] at hpt; simp at hpt
  | some pl' =>
    rw [hpl, hrid] at hpt
    obtain ⟨hplm, hplo⟩ := plan?_mem hpl
    obtain ⟨ob, hob, c0, g1, _, g3, _⟩ := PI' pl' hplm
    have hoid : ob.id = o := g1.symm.trans hplo
    obtain ⟨node, hnode, enode'⟩ := g3 t hpt
    have enode := enode'.symm
    rw [et, hoid] at enode
    injection enode with _ ec en
    subst ec en
    have hns : ¬ PSch o node s := by
      rintro ⟨c', r', hr', hst'⟩
      obtain ⟨c2, r2, hr2, _⟩ := l7_psch_step_P L h ⟨c', r', hr', hst'⟩
      have hc' : c' = c0 := by
        obtain ⟨new0, hnewe0, _⟩ := block_newp s p orc
        have h0 : tstat s (.wf o c' node) ≠ .unscheduled := by rw [tstat_eq, hr']; exact hst'
        have h1 : tstat s' (.wf o c' node) ≠ .unscheduled := by
          rcases l7_tstat_step_P L h hnewe0 (t := .wf o c' node) ⟨_, _, _, rfl⟩ with e | ⟨_, e⟩ | ⟨e, _⟩
          · rw [e]; exact h0
          · exact e
          · exact absurd e h0
        obtain ⟨r3, hr3, _⟩ := l7_rec_of_ne_unsched h1
        exact (A'.clk r hrm r3 (List.mem_of_find?_eq_some hr3) o c0 node c' node (hrid.trans et) (task?_id hr3)).symm
      subst hc'
      rw [et, tstat_eq, hr'] at hu0
      exact hst' hu0
    refine ⟨ob, hob, hoid, node, hnode, ?_, c0, m, cross, by rw [← et]; exact hqk⟩
    rintro ⟨q0, hq0, c', m', preds', obs', ing', ret', hk0⟩
    obtain ⟨r0, hr0, hst0⟩ := hU.hasRec q0 hq0 _ m' preds' obs' ing' ret' hk0
    exact hns ⟨c', r0, hr0, hst0⟩

end Sys

section
variable {env : SimEnv} {s0 : Sys}

/-- the setting of the step at index `n` -/
theorem boundP_tw_step_at (C : LivePCfg env s0) (K : LiveKernel env s0) (hd1 : env.delayTable = [])
    (hd2 : env.delayScript = []) (n : Nat) :
    ∃ e p new, (simAt env s0 n).peek = some e ∧ (simAt env s0 n).st.proc? e.pid = some p ∧
      e.time = p.wake ∧
      BoundPTwStep env s0 (simAt env s0 n).st (simAt env s0 (n + 1)).st p new := by
  obtain ⟨e, p, hpk, hpp, hpid, hstep⟩ := l7_step_P C K n
  obtain ⟨e', p', hpk', hpp', _, het, _⟩ := live_step_P C K n
  rw [hpk] at hpk'
  cases hpk'
  rw [hpp] at hpp'
  cases hpp'
  obtain ⟨new, hnew, hnp⟩ := Sys.block_newp (simAt env s0 n).st p (env.oracle (simAt env s0 n).st)
  refine ⟨e, p, new, hpk, hpp, het, ?_⟩
  exact
    { X := boundP_tw_ctx C K n
      X' := boundP_tw_ctx C K (n + 1)
      step := hstep
      hnew := hnew
      hnp := hnp
      hd1 := hd1
      hd2 := hd2
      aft := by
        intro d hd hdd t m preds ph tot hdk r hr
        exact live_aft_stable_P C K ((live_sinv_P C K n).pw.proc?_of_mem hd) hdk hdd hr (n + 1) (Nat.le_succ n) }

/-- an allocation process created at index `n` meets the deadline of index `n + 1` -/
theorem boundP_tw_new_at_le (C : LivePCfg env s0) (K : LiveKernel env s0) (n : Nat) {e : HEntry} {p : Proc}
    {new : List Proc} (hpk : (simAt env s0 n).peek = some e)
    (het : e.time = p.wake)
    (S : BoundPTwStep env s0 (simAt env s0 n).st (simAt env s0 (n + 1)).st p new)
    (hT : boundTau env s0 n ≤ boundP_LV env s0 n)
    {o sc pa po fn} (hk : p.k = .allocTasks o sc pa po fn) {q : Proc} (hq : q ∈ new)
    {t m preds obs ing ret} (hqk : q.k = .allocTask t m preds obs ing ret) :
    q.wake + ((bound_tw_W s0 t : Nat) : Time) + ((boundP_tw_R env s0 t : Nat) : Time) + 1 ≤ boundP_LV env s0 (n + 1) := by
  obtain ⟨ob, hob, hoid, node, hnode, hn, c, m', preds', hqk'⟩ :=
    Sys.boundP_tw_spawn_named (l7_lib_P C K n) (l7_lib_P C K (n + 1)) (live_l7a_P C K (n + 1)) (live_planI_P C K (n + 1)) S.step hk
      S.hnew hq
  rw [hqk'] at hqk
  cases hqk
  subst hoid
  have hy : Sys.PAT ob.id node (simAt env s0 (n + 1)).st :=
    ⟨q, (S.mem q).mpr (Or.inr (Or.inr hq)), c, m, preds, some ob.id, false, 0, hqk'⟩
  have hV := boundP_v_add_at (env := env) (boundP_run_mono C K (show n ≤ n + 1 by omega)) hob hnode hn hy
  have hobs := obs?_of_mem C.hw.obsNodup hob
  rw [bound_tw_W_wf hobs, boundP_tw_R_wf hobs]
  obtain ⟨_, _, hwk, _⟩ := S.hnp q hq
  rw [hk] at hwk
  simp only [reduceCtorEq, if_false] at hwk
  have htau : boundTau env s0 n = p.wake := by rw [bound_wk_tau hpk, het]
  rw [hwk, ← htau]
  unfold boundP_LV at hT ⊢
  unfold boundP_WAT at hV
  have h3 : ((boundLatest s0 + boundP_V env s0 (simAt env s0 n).st +
      (boundP_Rt env s0 ob node + boundWait s0 ob node + 1) : Nat) : Rat) ≤
      ((boundLatest s0 + boundP_V env s0 (simAt env s0 (n + 1)).st : Nat) : Rat) := by
    exact_mod_cast (by omega : boundLatest s0 + boundP_V env s0 (simAt env s0 n).st +
      (boundP_Rt env s0 ob node + boundWait s0 ob node + 1) ≤ boundLatest s0 + boundP_V env s0 (simAt env s0 (n + 1)).st)
  push_cast at h3 hT ⊢
  grind

/-- no worker in the initial state -/
theorem boundP_tw_zero (C : LivePCfg env s0) (B : Time) : BoundPTw env s0 (simAt env s0 0).st B := by
  obtain ⟨hprocs, hnp, _⟩ := C.hw.fresh
  have hst : (simAt env s0 0).st = s0.start := rfl
  have hp : s0.start.procs =
      [{ pid := 0, k := .monitor, wake := 0 }, { pid := 1, k := .telescope, wake := 0 },
       { pid := 2, k := .clusterLoop, wake := 0 }, { pid := 3, k := .schedLoop, wake := 0 },
       { pid := 4, k := .bufferLoop, wake := 0 }] := by
    simp [Sys.start, Sys.spawn, hprocs, hnp]
  rw [hst]
  constructor
  · intro d hd _ t m preds ph tot hk
    rw [hp] at hd
    simp only [List.mem_cons, List.not_mem_nil, or_false] at hd
    rcases hd with rfl | rfl | rfl | rfl | rfl <;> simp at hk
  · intro d hd _ t m preds obs ing ret hk
    rw [hp] at hd
    simp only [List.mem_cons, List.not_mem_nil, or_false] at hd
    rcases hd with rfl | rfl | rfl | rfl | rfl <;> simp at hk
  · intro d hd _ t m preds obs ing ret hk
    rw [hp] at hd
    simp only [List.mem_cons, List.not_mem_nil, or_false] at hd
    rcases hd with rfl | rfl | rfl | rfl | rfl <;> simp at hk

/-- the invariant at every index, with the deadline `latest + V` of that index -/
theorem boundP_tw_inv (C : LivePCfg env s0) (K : LiveKernel env s0) (hd1 : env.delayTable = [])
    (hd2 : env.delayScript = []) (n : Nat)
    (hprev : ∀ j, j < n → boundTau env s0 j ≤ boundP_LV env s0 j) :
    BoundPTw env s0 (simAt env s0 n).st (boundP_LV env s0 n) := by
  induction n with
  | zero => exact boundP_tw_zero C _
  | succ n ih =>
    have h0 := (ih (fun j hj => hprev j (by omega))).mono (boundP_lv_mono C K (Nat.le_succ n))
    obtain ⟨e, p, new, hpk, hpp, het, S⟩ := boundP_tw_step_at C K hd1 hd2 n
    refine boundP_tw_step S h0 ?_
    intro o sc pa po fn hk q hq t m preds obs ing ret hqk _
    exact boundP_tw_new_at_le C K n hpk het S (hprev n (Nat.lt_succ_self n)) hk hq hqk

/-- **Timed liveness of the workers of the workflow tasks.**  With no delay model, if the clock was
within `latest + V` at every earlier index, every live allocation process / body of a task that is
not an ingest task is due, and so ends, before `latest + V`. -/
theorem boundP_tl_wf {env : SimEnv} {s0 : Sys} (C : LivePCfg env s0) (K : LiveKernel env s0)
    (hd1 : env.delayTable = []) (hd2 : env.delayScript = []) (n : Nat)
    (hprev : ∀ j, j < n → boundTau env s0 j ≤ boundP_LV env s0 j) :
    ∀ q ∈ (simAt env s0 n).st.procs, q.alive = true → q.BoundWfWorker →
      q.wake + 1 ≤ boundP_LV env s0 n := by
  have h := boundP_tw_inv C K hd1 hd2 n hprev
  have X := boundP_tw_ctx C K n
  intro q hq hqa hw
  rcases hw with ⟨t, m, preds, obs, ing, ret, hk, hti⟩ | ⟨t, m, preds, ph, tot, hk, hti⟩
  · -- an allocation process
    have hR : (0 : Time) ≤ ((boundP_tw_R env s0 t : Nat) : Time) := Rat.natCast_nonneg
    have hW : (0 : Time) ≤ ((bound_tw_W s0 t : Nat) : Time) := Rat.natCast_nonneg
    by_cases hpc : q.pc = 0
    · have := h.at0 q hq hqa t m preds obs ing ret hk hti hpc
      grind
    · have hpc1 : 1 ≤ q.pc := by omega
      obtain ⟨d, hd, hdp, m', preds', ph, tot, hdk⟩ := (X.fi.ok q hq).atRet _ _ _ _ _ _ hk hpc1
      obtain ⟨g1, g2⟩ := h.at1 q hq hqa t m preds obs ing ret hk hti hpc1 d hd hdp
      cases hda : d.alive with
      | true =>
        have h1 := g1 hda
        have h2 := h.dw_two X hd hda hdk hti
        grind
      | false =>
        obtain ⟨r, f, _, _, hlt, hle⟩ := g2 hda
        obtain ⟨mq, hmq, _⟩ := boundP_wk_Q_all C K n q hq hqa (by rw [hk]; simp [PK.tag])
        rw [hmq] at hlt ⊢
        unfold boundP_LV at hle ⊢
        have h3 : ((mq : Nat) : Rat) < ((boundLatest s0 + boundP_V env s0 (simAt env s0 n).st : Nat) : Rat) := by
          grind
        have h4 : mq < boundLatest s0 + boundP_V env s0 (simAt env s0 n).st := by exact_mod_cast h3
        have h5 : mq + 1 ≤ boundLatest s0 + boundP_V env s0 (simAt env s0 n).st := h4
        exact_mod_cast h5
  · -- a body
    have := h.dw_two X hq hqa hk hti
    grind

end

end Topsim
