/-
  Bound4 — C05, the numeric clause: the arithmetic of the weights.
    * `bound_v_le_total`      : the weight of the stages that have happened is at most the total weight
    * `bound_total_le_serial` : latest planned start + total weight ≤ the serial bound
-/
import TopsimProofs.Bound1

namespace Topsim

open KState Sys

theorem bound_ar_sum_map_le {α : Type _} (f g : α → Nat) :
    ∀ (l : List α), (∀ x ∈ l, f x ≤ g x) → (l.map f).sum ≤ (l.map g).sum
  | [], _ => by simp
  | a :: l, h => by
    have h1 := h a (List.mem_cons_self ..)
    have h2 := bound_ar_sum_map_le f g l (fun x hx => h x (List.mem_cons_of_mem _ hx))
    simp only [List.map_cons, List.sum_cons]
    omega

theorem bound_ar_foldl_add (l : List Nat) : ∀ a, l.foldl (· + ·) a = a + l.sum := by
  induction l with
  | nil => intro a; simp
  | cons x l ih => intro a; simp only [List.foldl_cons, List.sum_cons, ih]; omega

theorem bound_ar_foldl_sum (l : List Nat) : l.foldl (· + ·) 0 = l.sum := by
  rw [bound_ar_foldl_add]; simp

theorem bound_ar_ite_le (p : Prop) [Decidable p] (w : Nat) : (if p then w else 0) ≤ w := by
  split <;> omega

open Classical in
theorem bound_v_le_total (s0 s : Sys) : boundV s0 s ≤ boundVTotal s0 := by
  unfold boundV boundVTotal
  apply bound_ar_sum_map_le
  intro o _
  have h : (o.wf.topo.map (fun node => if Sys.PAT o.id node s then boundWAT s0 o node else 0)).sum ≤
      (o.wf.topo.map (fun node => boundWAT s0 o node)).sum := by
    apply bound_ar_sum_map_le
    intro n _
    exact bound_ar_ite_le _ _
  have h1 := bound_ar_ite_le (Sys.PAst o.id s) (o.duration + 1)
  have h2 := bound_ar_ite_le (Sys.PQ o.id s) 1
  have h3 := bound_ar_ite_le (Sys.PRm o.id s) 1
  omega

theorem bound_ar_sum_erase (f : Nat → Nat) :
    ∀ (t : List Nat) (x : Nat), x ∈ t → (t.map f).sum = f x + ((t.erase x).map f).sum
  | [], x, h => by simp at h
  | y :: t, x, h => by
    by_cases hxy : y = x
    · subst hxy; simp
    · have hx : x ∈ t := by
        rcases List.mem_cons.1 h with h | h
        · exact absurd h.symm hxy
        · exact h
      have ih := bound_ar_sum_erase f t x hx
      have he : (y :: t).erase x = y :: t.erase x := by
        simp [hxy]
      rw [he]
      simp only [List.map_cons, List.sum_cons, ih]; omega

theorem bound_ar_topo_sum (g : Nat × Nat × Nat → Nat) :
    ∀ (nodes : List (Nat × Nat × Nat)) (t : List Nat), t.Nodup → (∀ x ∈ t, x ∈ nodes.map (·.1)) →
      (t.map (fun node => g ((nodes.find? (·.1 = node)).getD (node, 0, 0)))).sum ≤ (nodes.map g).sum
  | [], t, _, hsub => by
    cases t with
    | nil => simp
    | cons x t => exact absurd (hsub x (List.mem_cons_self ..)) (by simp)
  | a :: rest, t, hnd, hsub => by
    have key : ∀ t' : List Nat, t'.Nodup → (∀ x ∈ t', x ∈ t ∧ x ≠ a.1) →
        (t'.map (fun node => g (((a :: rest).find? (·.1 = node)).getD (node, 0, 0)))).sum ≤
          (rest.map g).sum := by
      intro t' hnd' h'
      have e : t'.map (fun node => g (((a :: rest).find? (·.1 = node)).getD (node, 0, 0))) =
          t'.map (fun node => g ((rest.find? (·.1 = node)).getD (node, 0, 0))) := by
        apply List.map_congr_left
        intro x hx
        have hne := (h' x hx).2
        rw [List.find?_cons_of_neg]
        simpa using fun h => hne h.symm
      rw [e]
      apply bound_ar_topo_sum g rest t' hnd'
      intro x hx
      have h1 := hsub x (h' x hx).1
      have hne := (h' x hx).2
      simp only [List.map_cons, List.mem_cons] at h1
      rcases h1 with h1 | h1
      · exact absurd h1 hne
      · exact h1
    by_cases ha : a.1 ∈ t
    · rw [bound_ar_sum_erase _ t a.1 ha]
      have h2 := key (t.erase a.1) (hnd.erase _)
        (fun x hx => ⟨List.mem_of_mem_erase hx, (hnd.mem_erase_iff.1 hx).1⟩)
      have h3 : ((a :: rest).find? (·.1 = a.1)).getD (a.1, 0, 0) = a := by
        rw [List.find?_cons_of_pos] <;> simp
      simp only [List.map_cons, List.sum_cons, h3]
      omega
    · have h2 := key t hnd (fun x hx => ⟨hx, fun h => ha (h ▸ hx)⟩)
      simp only [List.map_cons, List.sum_cons]
      omega

theorem bound_ar_attrs_fst (o : Obs) (node : Nat) : (boundAttrs o node).1 = node := by
  unfold boundAttrs
  cases h : o.wf.nodes.find? (·.1 = node) with
  | none => simp
  | some n =>
    have := List.find?_some h
    simpa using this

theorem bound_total_le_serial (s0 : Sys) (htopo : ∀ o ∈ s0.obs, IsTopo o.wf) :
    boundLatest s0 + boundVTotal s0 ≤ Sys.serialBound s0 := by
  unfold Sys.serialBound boundVTotal
  simp only [bound_ar_foldl_sum]
  show boundLatest s0 + _ ≤ boundLatest s0 + _
  apply Nat.add_le_add_left
  apply bound_ar_sum_map_le
  intro o ho
  have ht := htopo o ho
  have h1 : (o.wf.topo.map (fun node => boundWAT s0 o node)).sum ≤
      (o.wf.topo.map (fun node => (fun n : Nat × Nat × Nat =>
        max 1 (max (n.2.1 / boundSlowCpu s0) (n.2.2 / boundSlowBw s0)) +
        Sys.ceilDiv (((o.wf.edges.filter (fun e => e.2.1 = n.1)).map (·.2.2)).foldl max 0)
          (boundSlowBw s0) + 3)
        ((o.wf.nodes.find? (·.1 = node)).getD (node, 0, 0)))).sum := by
    apply bound_ar_sum_map_le
    intro node _
    have hf := bound_ar_attrs_fst o node
    unfold boundAttrs at hf
    beta_reduce
    rw [hf]
    unfold boundWAT boundRt boundWait boundAttrs
    omega
  have h2 := bound_ar_topo_sum (fun n : Nat × Nat × Nat =>
        max 1 (max (n.2.1 / boundSlowCpu s0) (n.2.2 / boundSlowBw s0)) +
        Sys.ceilDiv (((o.wf.edges.filter (fun e => e.2.1 = n.1)).map (·.2.2)).foldl max 0)
          (boundSlowBw s0) + 3) o.wf.nodes o.wf.topo ht.nodup (fun x hx => (ht.nodes x).1 hx)
  have h3 := Nat.le_trans h1 h2
  beta_reduce at h3
  unfold boundSlowCpu boundSlowBw at h3
  omega

end Topsim
