/-
  Frame facts about the blocks of `TopsimModel.Procs`, part 1: what the small
  helpers (`updProc`, `updTask`, `updObs`, `updPlan`, `spawn`, `crash`,
  `addTel/addSch/addBuf`) do to the fields the block-level properties talk about,
  and the `Frame` relation between the state before and after a block.
-/
import TopsimModel.Reach
import TopsimProofs.ClusterSteps

namespace Topsim
namespace Sys

/-! ### projections of the helpers -/

section proj
variable (s : Sys)

@[simp] theorem updProc_rows (pid f) : (s.updProc pid f).rows = s.rows := rfl
@[simp] theorem updProc_log (pid f) : (s.updProc pid f).log = s.log := rfl
@[simp] theorem updProc_tel (pid f) : (s.updProc pid f).telEvents = s.telEvents := rfl
@[simp] theorem updProc_sch (pid f) : (s.updProc pid f).schEvents = s.schEvents := rfl
@[simp] theorem updProc_buf (pid f) : (s.updProc pid f).bufEvents = s.bufEvents := rfl
@[simp] theorem updProc_obs (pid f) : (s.updProc pid f).obs = s.obs := rfl
@[simp] theorem updProc_procs (pid f) :
    (s.updProc pid f).procs = s.procs.map (fun p => if p.pid = pid then f p else p) := rfl

@[simp] theorem updTask_rows (t f) : (s.updTask t f).rows = s.rows := rfl
@[simp] theorem updTask_log (t f) : (s.updTask t f).log = s.log := rfl
@[simp] theorem updTask_tel (t f) : (s.updTask t f).telEvents = s.telEvents := rfl
@[simp] theorem updTask_sch (t f) : (s.updTask t f).schEvents = s.schEvents := rfl
@[simp] theorem updTask_buf (t f) : (s.updTask t f).bufEvents = s.bufEvents := rfl
@[simp] theorem updTask_obs (t f) : (s.updTask t f).obs = s.obs := rfl
@[simp] theorem updTask_procs (t f) : (s.updTask t f).procs = s.procs := rfl

@[simp] theorem updPlan_rows (t f) : (s.updPlan t f).rows = s.rows := rfl
@[simp] theorem updPlan_log (t f) : (s.updPlan t f).log = s.log := rfl
@[simp] theorem updPlan_tel (t f) : (s.updPlan t f).telEvents = s.telEvents := rfl
@[simp] theorem updPlan_sch (t f) : (s.updPlan t f).schEvents = s.schEvents := rfl
@[simp] theorem updPlan_buf (t f) : (s.updPlan t f).bufEvents = s.bufEvents := rfl
@[simp] theorem updPlan_obs (t f) : (s.updPlan t f).obs = s.obs := rfl
@[simp] theorem updPlan_procs (t f) : (s.updPlan t f).procs = s.procs := rfl

@[simp] theorem updObs_rows (t f) : (s.updObs t f).rows = s.rows := rfl
@[simp] theorem updObs_log (t f) : (s.updObs t f).log = s.log := rfl
@[simp] theorem updObs_tel (t f) : (s.updObs t f).telEvents = s.telEvents := rfl
@[simp] theorem updObs_sch (t f) : (s.updObs t f).schEvents = s.schEvents := rfl
@[simp] theorem updObs_buf (t f) : (s.updObs t f).bufEvents = s.bufEvents := rfl
@[simp] theorem updObs_procs (t f) : (s.updObs t f).procs = s.procs := rfl
@[simp] theorem updObs_admitted (t f) : (s.updObs t f).admitted = s.admitted := rfl
@[simp] theorem updObs_telUse (t f) : (s.updObs t f).telUse = s.telUse := rfl
@[simp] theorem updObs_totalArrays (t f) : (s.updObs t f).totalArrays = s.totalArrays := rfl
@[simp] theorem updObs_provIngest (t f) : (s.updObs t f).provIngest = s.provIngest := rfl
@[simp] theorem updObs_telStatus (t f) : (s.updObs t f).telStatus = s.telStatus := rfl

@[simp] theorem spawn_rows (k now) : (s.spawn k now).1.rows = s.rows := rfl
@[simp] theorem spawn_log (k now) : (s.spawn k now).1.log = s.log := rfl
@[simp] theorem spawn_tel (k now) : (s.spawn k now).1.telEvents = s.telEvents := rfl
@[simp] theorem spawn_sch (k now) : (s.spawn k now).1.schEvents = s.schEvents := rfl
@[simp] theorem spawn_buf (k now) : (s.spawn k now).1.bufEvents = s.bufEvents := rfl
@[simp] theorem spawn_obs (k now) : (s.spawn k now).1.obs = s.obs := rfl
@[simp] theorem spawn_procs (k now) :
    (s.spawn k now).1.procs = s.procs ++ [{ pid := s.nextPid, k := k, wake := now }] := rfl
@[simp] theorem spawn_admitted (k now) : (s.spawn k now).1.admitted = s.admitted := rfl
@[simp] theorem spawn_telUse (k now) : (s.spawn k now).1.telUse = s.telUse := rfl
@[simp] theorem spawn_totalArrays (k now) : (s.spawn k now).1.totalArrays = s.totalArrays := rfl
@[simp] theorem spawn_provIngest (k now) : (s.spawn k now).1.provIngest = s.provIngest := rfl

@[simp] theorem addTel_rows (e) : (s.addTel e).rows = s.rows := rfl
@[simp] theorem addTel_log (e) : (s.addTel e).log = s.log := rfl
@[simp] theorem addTel_tel (e) : (s.addTel e).telEvents = s.telEvents ++ [e] := rfl
@[simp] theorem addTel_sch (e) : (s.addTel e).schEvents = s.schEvents := rfl
@[simp] theorem addTel_buf (e) : (s.addTel e).bufEvents = s.bufEvents := rfl
@[simp] theorem addTel_obs (e) : (s.addTel e).obs = s.obs := rfl
@[simp] theorem addTel_procs (e) : (s.addTel e).procs = s.procs := rfl
@[simp] theorem addTel_admitted (e) : (s.addTel e).admitted = s.admitted := rfl
@[simp] theorem addTel_telUse (e) : (s.addTel e).telUse = s.telUse := rfl
@[simp] theorem addTel_totalArrays (e) : (s.addTel e).totalArrays = s.totalArrays := rfl
@[simp] theorem addTel_provIngest (e) : (s.addTel e).provIngest = s.provIngest := rfl

@[simp] theorem addSch_rows (e) : (s.addSch e).rows = s.rows := rfl
@[simp] theorem addSch_log (e) : (s.addSch e).log = s.log := rfl
@[simp] theorem addSch_tel (e) : (s.addSch e).telEvents = s.telEvents := rfl
@[simp] theorem addSch_sch (e) : (s.addSch e).schEvents = s.schEvents ++ [e] := rfl
@[simp] theorem addSch_buf (e) : (s.addSch e).bufEvents = s.bufEvents := rfl
@[simp] theorem addSch_obs (e) : (s.addSch e).obs = s.obs := rfl
@[simp] theorem addSch_procs (e) : (s.addSch e).procs = s.procs := rfl

@[simp] theorem addBuf_rows (e) : (s.addBuf e).rows = s.rows := rfl
@[simp] theorem addBuf_log (e) : (s.addBuf e).log = s.log := rfl
@[simp] theorem addBuf_tel (e) : (s.addBuf e).telEvents = s.telEvents := rfl
@[simp] theorem addBuf_sch (e) : (s.addBuf e).schEvents = s.schEvents := rfl
@[simp] theorem addBuf_buf (e) : (s.addBuf e).bufEvents = s.bufEvents ++ [e] := rfl
@[simp] theorem addBuf_obs (e) : (s.addBuf e).obs = s.obs := rfl
@[simp] theorem addBuf_procs (e) : (s.addBuf e).procs = s.procs := rfl

theorem crash_eq (e) : s.crash e = s ∨ s.crash e = { s with crashed := some e } := by
  unfold crash; split <;> simp

@[simp] theorem crash_rows (e) : (s.crash e).rows = s.rows := by
  rcases s.crash_eq e with h | h <;> rw [h]
@[simp] theorem crash_log (e) : (s.crash e).log = s.log := by
  rcases s.crash_eq e with h | h <;> rw [h]
@[simp] theorem crash_tel (e) : (s.crash e).telEvents = s.telEvents := by
  rcases s.crash_eq e with h | h <;> rw [h]
@[simp] theorem crash_sch (e) : (s.crash e).schEvents = s.schEvents := by
  rcases s.crash_eq e with h | h <;> rw [h]
@[simp] theorem crash_buf (e) : (s.crash e).bufEvents = s.bufEvents := by
  rcases s.crash_eq e with h | h <;> rw [h]
@[simp] theorem crash_obs (e) : (s.crash e).obs = s.obs := by
  rcases s.crash_eq e with h | h <;> rw [h]
@[simp] theorem crash_procs (e) : (s.crash e).procs = s.procs := by
  rcases s.crash_eq e with h | h <;> rw [h]

end proj

theorem obs?_congr {s s' : Sys} (h : s'.obs = s.obs) (oid : Oid) : s'.obs? oid = s.obs? oid := by
  simp [obs?, h]

theorem proc?_congr {s s' : Sys} (h : s'.procs = s.procs) (pid : Nat) :
    s'.proc? pid = s.proc? pid := by
  simp [proc?, h]

/-- `updObs` with an id-preserving update, seen through `obs?` -/
theorem updObs_obs? (s : Sys) (o : Oid) (f : Obs → Obs) (hf : ∀ r, (f r).id = r.id) (o' : Oid) :
    (s.updObs o f).obs? o' = if o' = o then (s.obs? o').map f else s.obs? o' := by
  unfold updObs obs?
  simp only
  induction s.obs with
  | nil => simp
  | cons r rest ih =>
    simp only [List.map_cons, List.find?_cons]
    by_cases hr : r.id = o
    · simp only [hr, if_true, hf r]
      by_cases ho : o = o'
      · subst ho; simp
      · have ho' : ¬ o' = o := fun e => ho e.symm
        simp only [ho, ho', decide_false, if_false] at ih ⊢
        exact ih
    · simp only [hr, if_false]
      by_cases hro : r.id = o'
      · have ho' : ¬ o' = o := fun e => hr (hro.trans e)
        simp [hro, ho']
      · simp only [hro, decide_false]
        exact ih

/-- `updProc` with a pid-preserving update, seen through `proc?` -/
theorem updProc_proc? (s : Sys) (pid : Nat) (f : Proc → Proc) (hf : ∀ r, (f r).pid = r.pid)
    (pid' : Nat) :
    (s.updProc pid f).proc? pid' = if pid' = pid then (s.proc? pid').map f else s.proc? pid' := by
  unfold updProc proc?
  simp only
  induction s.procs with
  | nil => simp
  | cons r rest ih =>
    simp only [List.map_cons, List.find?_cons]
    by_cases hr : r.pid = pid
    · simp only [hr, if_true, hf r]
      by_cases ho : pid = pid'
      · subst ho; simp
      · have ho' : ¬ pid' = pid := fun e => ho e.symm
        simp only [ho, ho', decide_false, if_false] at ih ⊢
        exact ih
    · simp only [hr, if_false]
      by_cases hro : r.pid = pid'
      · have ho' : ¬ pid' = pid := fun e => hr (hro.trans e)
        simp [hro, ho']
      · simp only [hro, decide_false]
        exact ih

/-! ### the order on observation records -/

def obsRank : RunStatus → Nat
  | .waiting => 0 | .running => 1 | .finished => 2

/-- the status moved forward (or stayed), the static attributes are the same -/
def ObsLe (o o' : Obs) : Prop :=
  obsRank o.status ≤ obsRank o'.status ∧ o'.duration = o.duration ∧ o'.est = o.est ∧
    o'.demand = o.demand

theorem ObsLe.refl (o : Obs) : ObsLe o o := ⟨Nat.le_refl _, rfl, rfl, rfl⟩

theorem ObsLe.trans {a b c : Obs} (h1 : ObsLe a b) (h2 : ObsLe b c) : ObsLe a c :=
  ⟨Nat.le_trans h1.1 h2.1, h2.2.1.trans h1.2.1, h2.2.2.1.trans h1.2.2.1, h2.2.2.2.trans h1.2.2.2⟩

/-- every observation record is still there, possibly further on -/
def ObsMono (s s' : Sys) : Prop :=
  ∀ oid o, s.obs? oid = some o → ∃ o', s'.obs? oid = some o' ∧ ObsLe o o'

theorem ObsMono.refl (s : Sys) : ObsMono s s := fun _ o h => ⟨o, h, ObsLe.refl o⟩

theorem ObsMono.of_eq {s s' : Sys} (h : s'.obs = s.obs) : ObsMono s s' := by
  intro oid o ho
  exact ⟨o, by rw [obs?_congr h]; exact ho, ObsLe.refl o⟩

theorem ObsMono.trans {a b c : Sys} (h1 : ObsMono a b) (h2 : ObsMono b c) : ObsMono a c := by
  intro oid o ho
  obtain ⟨o1, ho1, l1⟩ := h1 oid o ho
  obtain ⟨o2, ho2, l2⟩ := h2 oid o1 ho1
  exact ⟨o2, ho2, l1.trans l2⟩

theorem ObsMono.updObs (s : Sys) (o : Oid) (f : Obs → Obs) (hid : ∀ r, (f r).id = r.id)
    (hle : ∀ r, s.obs? o = some r → ObsLe r (f r)) : ObsMono s (s.updObs o f) := by
  intro oid r hr
  rw [updObs_obs? s o f hid]
  by_cases h : oid = o
  · subst h
    simp only [if_true, hr, Option.map_some]
    exact ⟨f r, rfl, hle r hr⟩
  · simp only [h, if_false]
    exact ⟨r, hr, ObsLe.refl r⟩

/-! ### the frame of a block -/

/-- what every block other than the monitor's guarantees about the monitor's
outputs, the pending event lists, the observation records and the process table
(`n` is the time of the block) -/
structure Frame (n : Nat) (s s' : Sys) : Prop where
  rows : s'.rows = s.rows
  log : s'.log = s.log
  tel : ∃ l, s'.telEvents = s.telEvents ++ l ∧ ∀ e ∈ l, e.time = n
  sch : ∃ l, s'.schEvents = s.schEvents ++ l ∧ ∀ e ∈ l, e.time = n
  buf : ∃ l, s'.bufEvents = s.bufEvents ++ l ∧ ∀ e ∈ l, e.time = n
  obs : ObsMono s s'
  procs : ∃ l, s'.procs = s.procs ++ l ∧ ∀ q ∈ l, q.k ≠ .monitor

theorem Frame.refl (n : Nat) (s : Sys) : Frame n s s :=
  ⟨rfl, rfl, ⟨[], by simp⟩, ⟨[], by simp⟩, ⟨[], by simp⟩, ObsMono.refl s, ⟨[], by simp⟩⟩

theorem ext_trans {α} {P : α → Prop} {a b c : List α}
    (h1 : ∃ l, b = a ++ l ∧ ∀ e ∈ l, P e) (h2 : ∃ l, c = b ++ l ∧ ∀ e ∈ l, P e) :
    ∃ l, c = a ++ l ∧ ∀ e ∈ l, P e := by
  obtain ⟨l1, e1, p1⟩ := h1
  obtain ⟨l2, e2, p2⟩ := h2
  refine ⟨l1 ++ l2, by rw [e2, e1, List.append_assoc], ?_⟩
  intro e he
  rcases List.mem_append.mp he with he | he
  · exact p1 e he
  · exact p2 e he

theorem Frame.trans {n : Nat} {a b c : Sys} (h1 : Frame n a b) (h2 : Frame n b c) : Frame n a c :=
  ⟨h2.rows.trans h1.rows, h2.log.trans h1.log, ext_trans h1.tel h2.tel, ext_trans h1.sch h2.sch,
    ext_trans h1.buf h2.buf, h1.obs.trans h2.obs, ext_trans h1.procs h2.procs⟩

/-- introduction rule when the observation list is untouched -/
theorem Frame.of_obs_eq {n : Nat} {s s' : Sys} (rows : s'.rows = s.rows) (log : s'.log = s.log)
    (tel : ∃ l, s'.telEvents = s.telEvents ++ l ∧ ∀ e ∈ l, e.time = n)
    (sch : ∃ l, s'.schEvents = s.schEvents ++ l ∧ ∀ e ∈ l, e.time = n)
    (buf : ∃ l, s'.bufEvents = s.bufEvents ++ l ∧ ∀ e ∈ l, e.time = n)
    (obs : s'.obs = s.obs)
    (procs : ∃ l, s'.procs = s.procs ++ l ∧ ∀ q ∈ l, q.k ≠ .monitor) : Frame n s s' :=
  ⟨rows, log, tel, sch, buf, ObsMono.of_eq obs, procs⟩

/-- introduction rule when nothing the frame talks about is touched -/
theorem Frame.of_eq {n : Nat} {s s' : Sys} (rows : s'.rows = s.rows) (log : s'.log = s.log)
    (tel : s'.telEvents = s.telEvents) (sch : s'.schEvents = s.schEvents)
    (buf : s'.bufEvents = s.bufEvents) (obs : s'.obs = s.obs) (procs : s'.procs = s.procs) :
    Frame n s s' :=
  ⟨rows, log, ⟨[], by simp [tel]⟩, ⟨[], by simp [sch]⟩, ⟨[], by simp [buf]⟩, ObsMono.of_eq obs,
    ⟨[], by simp [procs]⟩⟩

theorem Frame.foldl {n : Nat} {α} (f : Sys → α → Sys) (hf : ∀ s a, Frame n s (f s a))
    (l : List α) (s : Sys) : Frame n s (l.foldl f s) := by
  induction l generalizing s with
  | nil => exact Frame.refl n s
  | cons a rest ih => exact (hf s a).trans (ih (f s a))

/-- closes a goal `Frame n s T` where `T` is built from `s` by the helpers and
structure updates that leave the observation list alone -/
macro "frame_simp" : tactic =>
  `(tactic| (refine Frame.of_obs_eq ?_ ?_ ?_ ?_ ?_ ?_ ?_ <;> simp))

theorem frame_updTask (n : Nat) (s : Sys) (t f) : Frame n s (s.updTask t f) := by frame_simp
theorem frame_updPlan (n : Nat) (s : Sys) (t f) : Frame n s (s.updPlan t f) := by frame_simp
theorem frame_spawn (n : Nat) (s : Sys) (k now) (hk : k ≠ .monitor) :
    Frame n s (s.spawn k now).1 := by
  refine Frame.of_obs_eq ?_ ?_ ?_ ?_ ?_ ?_ ?_ <;> simp [hk]
theorem frame_addTel (n : Nat) (s : Sys) (e : Event) (he : e.time = n) : Frame n s (s.addTel e) := by
  refine Frame.of_obs_eq ?_ ?_ ?_ ?_ ?_ ?_ ?_ <;> simp [he]
theorem frame_addSch (n : Nat) (s : Sys) (e : Event) (he : e.time = n) : Frame n s (s.addSch e) := by
  refine Frame.of_obs_eq ?_ ?_ ?_ ?_ ?_ ?_ ?_ <;> simp [he]
theorem frame_addBuf (n : Nat) (s : Sys) (e : Event) (he : e.time = n) : Frame n s (s.addBuf e) := by
  refine Frame.of_obs_eq ?_ ?_ ?_ ?_ ?_ ?_ ?_ <;> simp [he]

end Sys
end Topsim
