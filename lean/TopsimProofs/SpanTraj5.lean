/-
  SpanTraj5 — a run of the block system in which an oracle hands a task body a
  total duration below the runtime (`ReachOk` puts no condition on `orc.total`):
  the recorded span is then shorter than `max 1 runtime`.
-/
import TopsimProofs.SpanTraj4

namespace Topsim
namespace Sys

/-- run the blocks of the listed processes, in order, each with its own oracle -/
def precRunO : List (Nat × Oracle) → Sys → Sys
  | [], s => s
  | (pid, orc) :: r, s => precRunO r (s.resume pid orc).1

def precEnabledAllO : List (Nat × Oracle) → Sys → Bool
  | [], _ => true
  | (pid, orc) :: r, s => precEnabledB s pid && precEnabledAllO r (s.resume pid orc).1

theorem prec_reach_runO {s0 : Sys} (l : List (Nat × Oracle)) (s : Sys) (h : Reach s0 s)
    (hen : precEnabledAllO l s = true) : Reach s0 (precRunO l s) := by
  induction l generalizing s with
  | nil => exact h
  | cons x r ih =>
    obtain ⟨pid, orc⟩ := x
    simp only [precEnabledAllO, Bool.and_eq_true] at hen
    exact ih _ (Reach.step s pid orc h (precEnabledB_sound hen.1)) hen.2

/-- `precSchedPid` up to the block in which the body of `precA` (process 12) starts; that block
gets an oracle with `total := some 0`; then the body's last block (due in the same instant) -/
def precSchedShort : List (Nat × Oracle) :=
  ([0, 1, 2, 3, 4, 5, 6, 7, 8, 9, 9,
    0, 1, 2, 3, 4, 5, 6, 8, 10, 11].map (fun pid => (pid, ({} : Oracle)))) ++
  [(12, ({ total := some 0 } : Oracle)), (12, ({} : Oracle))]

theorem precSchedShort_enabled : precEnabledAllO precSchedShort precW0.start = true := by decide +kernel

theorem precSchedShort_reach : Reach precW0 (precRunO precSchedShort precW0.start) :=
  prec_reach_runO precSchedShort _ Reach.start precSchedShort_enabled

/-- `precA`: 2 units of work on the only machine (cpu 1, bandwidth 1), runtime 2; recorded start 1,
recorded finish 2 -/
theorem precSchedShort_final :
    let s := precRunO precSchedShort precW0.start
    s.crashed = none ∧ s.machines = [⟨0, 1, 1⟩] ∧
    (s.task? precA).map (fun r => (r.flops, r.data, r.ast, r.aft)) = some (2, 0, some 1, some 2) := by
  decide +kernel

/-- creation order; the block in which the body of the ingest task (process 9) starts gets an
oracle with `total := some 3`; the body ends at t = 2, one timestep after its observation's
supervisor -/
def precSchedIngest : List (Nat × Oracle) :=
  ([0, 1, 2, 3, 4, 5, 6, 7, 8].map (fun pid => (pid, ({} : Oracle)))) ++
  [(9, ({ total := some 3 } : Oracle))] ++
  ([0, 1, 2, 3, 4, 5, 6, 8, 10,
    0, 1, 2, 3, 4, 8, 9].map (fun pid => (pid, ({} : Oracle))))

theorem precSchedIngest_enabled : precEnabledAllO precSchedIngest precW0.start = true := by decide +kernel

theorem precSchedIngest_reach : Reach precW0 (precRunO precSchedIngest precW0.start) :=
  prec_reach_runO precSchedIngest _ Reach.start precSchedIngest_enabled

/-- the ingest task of the observation (duration 1): recorded start 0, recorded finish 3 -/
theorem precSchedIngest_final :
    let s := precRunO precSchedIngest precW0.start
    s.crashed = none ∧ (s.obs? 0).map (·.duration) = some 1 ∧
    (s.task? (.ingest 0 0)).map (fun r => (r.ast, r.aft)) = some (some 0, some 3) := by
  decide +kernel

end Sys
end Topsim
