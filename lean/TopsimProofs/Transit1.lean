/-
  Transit1 — data in transit between the buffer tiers.

  `inTransitToCold s`: what the live `move_hot_to_cold` processes have still to deliver
  (their residual `left`); `inTransitToHot s` likewise for `move_cold_to_hot`.
  `LiveH2C s` / `LiveC2H s`: the number of live tier-move processes of each kind.

  `TransitOneCold s`: at most one `move_hot_to_cold` process is alive and, while one is, no
  `move_cold_to_hot` process is (both kinds write the cold tier's transfer slot).
  `TransitReach Q s0 s`: `ReachOk` along which every state satisfies `Q`.

  Main lemma of this file: along `TransitReach TransitOneCold` the cold tier's transfer slot holds
  the observation of the move in flight (`transit_slotCold_reach`).
-/
import TopsimProofs.BufTraj7

namespace Topsim

def PK.transitH2C : PK → Bool | .hot2cold _ => true | _ => false
def PK.transitC2H : PK → Bool | .cold2hot _ => true | _ => false

theorem transit_h2c_tag {k : PK} : k.transitH2C = true ↔ k.tag = "hot2cold" := by
  cases k <;> simp [PK.transitH2C, PK.tag]

theorem transit_c2h_tag {k : PK} : k.transitC2H = true ↔ k.tag = "cold2hot" := by
  cases k <;> simp [PK.transitC2H, PK.tag]

theorem transit_h2c_cur {k : PK} (h : k.transitH2C = true) : ∃ cur, k = .hot2cold cur := by
  cases k <;> simp [PK.transitH2C] at h
  exact ⟨_, rfl⟩

theorem transit_c2h_cur {k : PK} (h : k.transitC2H = true) : ∃ cur, k = .cold2hot cur := by
  cases k <;> simp [PK.transitC2H] at h
  exact ⟨_, rfl⟩

namespace Sys

/-! ### definitions -/

def transitLiveH2C (p : Proc) : Bool := p.alive && p.k.transitH2C
def transitLiveC2H (p : Proc) : Bool := p.alive && p.k.transitC2H

/-- live `move_hot_to_cold` processes -/
def LiveH2C (s : Sys) : Nat := (s.procs.filter transitLiveH2C).length
/-- live `move_cold_to_hot` processes -/
def LiveC2H (s : Sys) : Nat := (s.procs.filter transitLiveC2H).length

/-- what a hot→cold move has still to deliver: its residual -/
def transitLeftK : PK → Int
  | .hot2cold (some (_, l)) => if 0 < l then l else 0
  | _ => 0

def transitLeft (p : Proc) : Int := if p.alive then transitLeftK p.k else 0

/-- data on its way to the cold tier: the sum, over the live `move_hot_to_cold` processes, of the
size of the observation they move minus what they have delivered -/
def inTransitToCold (s : Sys) : Int := (s.procs.map transitLeft).sum

def transitBackK : PK → Int
  | .cold2hot (some (_, l)) => if 0 < l then l else 0
  | _ => 0

def transitBack (p : Proc) : Int := if p.alive then transitBackK p.k else 0

/-- data on its way to the hot tier -/
def inTransitToHot (s : Sys) : Int := (s.procs.map transitBack).sum

/-- at most one hot→cold move, and no cold→hot move beside it -/
def TransitOneCold (s : Sys) : Prop := LiveH2C s ≤ 1 ∧ (0 < LiveH2C s → LiveC2H s = 0)

/-- at most one cold→hot move, and no hot→cold move beside it -/
def TransitOneHot (s : Sys) : Prop := LiveC2H s ≤ 1 ∧ (0 < LiveC2H s → LiveH2C s = 0)

/-- the cold tier's transfer slot holds the observation of every hot→cold move in flight -/
def TransitSlotCold (s : Sys) : Prop :=
  ∀ p ∈ s.procs, p.alive = true → ∀ o l, p.k = .hot2cold (some (o, l)) → 0 < l →
    s.buf.cold.transfer = some o

/-- the hot tier's transfer slot holds the observation of every cold→hot move in flight -/
def TransitSlotHot (s : Sys) : Prop :=
  ∀ p ∈ s.procs, p.alive = true → ∀ o l, p.k = .cold2hot (some (o, l)) → 0 < l →
    s.buf.hot.transfer = some o

/-- `ReachOk` along which every state satisfies `Q` -/
inductive TransitReach (Q : Sys → Prop) (s0 : Sys) : Sys → Prop
  | start : Q s0.start → TransitReach Q s0 s0.start
  | step (s : Sys) (pid : Nat) (orc : Oracle) :
      TransitReach Q s0 s → s.enabled pid → (s.alg = .oracle → orc.preOk) → Q (s.resume pid orc).1 →
      TransitReach Q s0 (s.resume pid orc).1

theorem TransitReach.toOk {Q : Sys → Prop} {s0 s : Sys} (h : TransitReach Q s0 s) : ReachOk s0 s := by
  induction h with
  | start _ => exact ReachOk.start
  | step s pid orc _ hen hpre _ ih => exact ReachOk.step s pid orc ih hen hpre

theorem TransitReach.holds {Q : Sys → Prop} {s0 s : Sys} (h : TransitReach Q s0 s) : Q s := by
  cases h with
  | start h => exact h
  | step s pid orc _ _ _ h => exact h

theorem TransitReach.mono {Q Q' : Sys → Prop} (hQ : ∀ s, Q s → Q' s) {s0 s : Sys}
    (h : TransitReach Q s0 s) : TransitReach Q' s0 s := by
  induction h with
  | start h => exact TransitReach.start (hQ _ h)
  | step s pid orc _ hen hpre h ih => exact TransitReach.step s pid orc ih hen hpre (hQ _ h)

/-! ### lists: a sum with at most one term -/

theorem transit_sum_none {α} (l : List α) (f : α → Int) (h : ∀ b ∈ l, f b = 0) : (l.map f).sum = 0 :=
  sum_map_zero l f h

theorem transit_sum_unique {α} (l : List α) (g : α → Bool) (f : α → Int)
    (hz : ∀ b ∈ l, g b = false → f b = 0) (h : (l.filter g).length ≤ 1) (a : α) (ha : a ∈ l)
    (hg : g a = true) : (l.map f).sum = f a := by
  induction l with
  | nil => simp at ha
  | cons x t ih =>
    rw [List.map_cons, List.sum_cons]
    by_cases hx : g x = true
    · rw [List.filter_cons_of_pos hx, List.length_cons] at h
      have hnil : t.filter g = [] := List.eq_nil_of_length_eq_zero (by omega)
      have hall : ∀ b ∈ t, g b = false := by
        intro b hb
        have := List.filter_eq_nil_iff.mp hnil b hb
        simpa using this
      have hsum : (t.map f).sum = 0 :=
        sum_map_zero t f (fun b hb => hz b (List.mem_cons_of_mem _ hb) (hall b hb))
      rcases List.mem_cons.mp ha with rfl | ha'
      · omega
      · have := hall a ha'
        rw [hg] at this; cases this
    · have hx' : g x = false := by simpa using hx
      rw [List.filter_cons_of_neg hx] at h
      have h0 : f x = 0 := hz x (by simp) hx'
      rcases List.mem_cons.mp ha with rfl | ha'
      · rw [hg] at hx'; cases hx'
      · rw [h0, ih (fun b hb => hz b (List.mem_cons_of_mem _ hb)) h ha']
        omega

theorem transit_filter_unique {α} (l : List α) (g : α → Bool) (h : (l.filter g).length ≤ 1) {a b : α}
    (ha : a ∈ l) (hb : b ∈ l) (hga : g a = true) (hgb : g b = true) : a = b := by
  have ha' : a ∈ l.filter g := List.mem_filter.mpr ⟨ha, hga⟩
  have hb' : b ∈ l.filter g := List.mem_filter.mpr ⟨hb, hgb⟩
  generalize l.filter g = m at h ha' hb'
  match m, h, ha', hb' with
  | [], _, ha', _ => simp at ha'
  | [x], _, ha', hb' =>
    simp only [List.mem_cons, List.not_mem_nil, or_false] at ha' hb'
    rw [ha', hb']
  | _ :: _ :: _, h, _, _ => simp at h

theorem transit_filter_pos {α} (l : List α) (g : α → Bool) {a : α} (ha : a ∈ l) (hg : g a = true) :
    0 < (l.filter g).length :=
  List.length_pos_of_mem (List.mem_filter.mpr ⟨ha, hg⟩)

theorem transit_filter_zero {α} (l : List α) (g : α → Bool) (h : (l.filter g).length = 0) {a : α}
    (ha : a ∈ l) : g a = false := by
  have hnil : l.filter g = [] := List.eq_nil_of_length_eq_zero h
  have := List.filter_eq_nil_iff.mp hnil a ha
  simpa using this

/-! ### the cold tier's slot after a block of `move_hot_to_cold` -/

theorem transit_h2cStep_slot (b b1 : Buffer) (o : Oid) (l l' : Int)
    (h : b.hot2coldStep o l = (b1, .ok l')) (hl : 0 < l') : b1.cold.transfer = some o := by
  simp only [Buffer.hot2coldStep] at h
  generalize Buffer.recvAmount b.moveRate l (b.sizeOf o) = ra at h
  generalize Buffer.sendAmount b.moveRate l (b.sizeOf o) = sa at h
  obtain ⟨take, check⟩ := ra
  obtain ⟨give, left'⟩ := sa
  simp only at h
  by_cases he : check ≠ left'
  · rw [if_pos he] at h
    cases h
  · rw [if_neg he] at h
    have he' : check = left' := by
      by_cases e : check = left'
      · exact e
      · exact absurd e he
    injection h with h1 h2
    injection h2 with h2
    subst h2
    have hc : ¬ check = 0 := by omega
    rw [← h1]
    simp [hc]

theorem transit_h2cIter_slot (s : Sys) (now : Time) (o : Oid) (l : Int) (d : Time)
    (hy : (s.hot2coldIter now o l).2.2 = .timeout d) :
    ∃ l', (s.hot2coldIter now o l).2.1 = .hot2cold (some (o, l')) ∧
      (0 < l' → (s.hot2coldIter now o l).1.buf.cold.transfer = some o) := by
  unfold hot2coldIter at hy ⊢
  by_cases h0 : l ≤ 0
  · simp only [h0, if_true] at hy
    cases hy
  · simp only [h0, if_false] at hy ⊢
    cases hr : s.buf.hot2coldStep o l with
    | mk b1 res =>
      rw [hr] at hy
      cases res with
      | error e => simp at hy
      | ok l' =>
        simp only
        exact ⟨l', rfl, fun hl => transit_h2cStep_slot s.buf b1 o l l' hr hl⟩

theorem transit_h2cBlock_slot (s : Sys) (now : Time) (cur : Option (Oid × Int)) (d : Time)
    (hy : (s.hot2coldBlock now cur).2.2 = .timeout d) :
    ∃ o l', (s.hot2coldBlock now cur).2.1 = .hot2cold (some (o, l')) ∧
      (0 < l' → (s.hot2coldBlock now cur).1.buf.cold.transfer = some o) := by
  unfold hot2coldBlock at hy ⊢
  cases cur with
  | some ol =>
    obtain ⟨o, l⟩ := ol
    exact ⟨o, transit_h2cIter_slot s now o l d hy⟩
  | none =>
    simp only at hy ⊢
    cases hb : s.buf.hot2coldBegin with
    | mk b1 res =>
      rw [hb] at hy
      match res, hy with
      | .error e, hy => cases hy
      | .ok none, hy => cases hy
      | .ok (some (o, l)), hy => exact ⟨o, transit_h2cIter_slot _ now o l d hy⟩

/-! ### blocks that are no tier move leave the cold tier alone -/

theorem transit_block_cold (s : Sys) (p : Proc) (orc : Oracle) (h4 : p.k.tag ≠ "hot2cold")
    (h5 : p.k.tag ≠ "cold2hot") : (s.block p orc).1.buf.cold = s.buf.cold := by
  have quiet : p.k.tag ≠ "schedLoop" → p.k.tag ≠ "ingestStream" → p.k.tag ≠ "allocTasks" →
      (s.block p orc).1.buf.cold = s.buf.cold :=
    fun h1 h2 h3 => by rw [block_buf s p orc h1 h2 h3 h4 h5]
  cases hk : p.k with
  | monitor => exact quiet (by simp [hk, PK.tag]) (by simp [hk, PK.tag]) (by simp [hk, PK.tag])
  | telescope => exact quiet (by simp [hk, PK.tag]) (by simp [hk, PK.tag]) (by simp [hk, PK.tag])
  | clusterLoop => exact quiet (by simp [hk, PK.tag]) (by simp [hk, PK.tag]) (by simp [hk, PK.tag])
  | bufferLoop => exact quiet (by simp [hk, PK.tag]) (by simp [hk, PK.tag]) (by simp [hk, PK.tag])
  | allocIngest o tl => exact quiet (by simp [hk, PK.tag]) (by simp [hk, PK.tag]) (by simp [hk, PK.tag])
  | provIngest o d => exact quiet (by simp [hk, PK.tag]) (by simp [hk, PK.tag]) (by simp [hk, PK.tag])
  | allocTask t m preds obs ing ret =>
    exact quiet (by simp [hk, PK.tag]) (by simp [hk, PK.tag]) (by simp [hk, PK.tag])
  | doWork t m preds ph tot => exact quiet (by simp [hk, PK.tag]) (by simp [hk, PK.tag]) (by simp [hk, PK.tag])
  | schedLoop =>
    have hb' : s.block p orc = ((s.schedLoopBlock p.wake orc).1, p.k, (s.schedLoopBlock p.wake orc).2) := by
      unfold block; simp only [hk]
    rw [hb']
    exact congrArg (·.2.2.2.2) (schedLoopBlock_bq s p.wake orc)
  | ingestStream o tl =>
    have hb' : s.block p orc = s.ingestStreamBlock p.wake p.pc o tl := by
      unfold block; simp only [hk]
    rw [hb']
    rcases ingestStreamBlock_bq s p.wake p.pc o tl with ⟨e, _⟩ | ⟨ob, _, _, d0, _⟩
    · exact congrArg (·.2.2.2.2) e
    · exact d0
  | allocTasks o sc pa po fn =>
    have hb' : s.block p orc = s.allocTasksBlock p.wake orc p.pc o sc pa po fn := by
      unfold block; simp only [hk]
    rw [hb']
    rcases allocTasksBlock_bufCases s p.wake orc p.pc o sc pa po fn with e | e
    · rw [e]
    · rw [e]
      rcases remove_full s.buf o with e' | ⟨_, _, _, _, _, _, _, _, h9, _⟩
      · rw [e']
      · exact h9
  | hot2cold cur => exact absurd (by rw [hk]; rfl) h4
  | cold2hot cur => exact absurd (by rw [hk]; rfl) h5

/-! ### the slot invariant, one step -/

theorem transit_tok_ne {q : Proc} (hqa : q.alive = true) {o : Oid} {l : Int}
    (hk : q.k = .hot2cold (some (o, l))) (hl : 0 < l) : tok q ≠ [] := by
  simp [tok, hqa, hk, tokK, hl]

theorem transit_tok_ne' {q : Proc} (hqa : q.alive = true) {o : Oid} {l : Int}
    (hk : q.k = .cold2hot (some (o, l))) (hl : 0 < l) : tok q ≠ [] := by
  simp [tok, hqa, hk, tokK, hl]

theorem transit_slotCold_step {s : Sys} (hs : SInv s) (hq : TransitOneCold s) (h : TransitSlotCold s)
    {pid : Nat} (hen : s.enabled pid) (orc : Oracle) (hpre : s.alg = .oracle → orc.preOk) :
    TransitSlotCold (s.resume pid orc).1 := by
  obtain ⟨p, hp, ha, hmin⟩ := hen
  obtain ⟨hpm, hpid⟩ := proc?_some hp
  subst hpid
  have hcore := resume_core s p.pid orc p hp ha
  have hpw := hs.pw
  obtain ⟨new, hprocs, hpwX, hnew2⟩ := block_new hs hpm ha hmin orc hpre
  have hbuf := resume_buf s p.pid orc p hp ha
  have hmem := memSpec_updProc hpw hpm new hprocs hpwX (fin (s.block p orc).2.1 (s.block p orc).2.2 p.wake)
  have htag := block_tag s hpw p orc
  intro q hq' hqa o l hk hl
  rw [hbuf]
  rw [hcore.procs] at hq'
  rcases (hmem q).mp hq' with rfl | ⟨hq0, hne⟩ | hqn
  · -- the process that ran
    obtain ⟨_, d, hd⟩ := fin_alive _ _ _ _ hqa
    rw [fin_k] at hk
    by_cases hpt : p.k.tag = "hot2cold"
    · obtain ⟨cur, hcur⟩ := transit_h2c_cur (transit_h2c_tag.mpr hpt)
      have hb' : s.block p orc = s.hot2coldBlock p.wake cur := by
        unfold block; simp only [hcur]
      rw [hb'] at hk hd ⊢
      obtain ⟨o', l', hk', hslot⟩ := transit_h2cBlock_slot s p.wake cur d hd
      rw [hk] at hk'
      injection hk' with hk'
      injection hk' with hk'
      injection hk' with e1 e2
      subst e1; subst e2
      exact hslot hl
    · exfalso
      apply hpt
      rw [← htag, hk]; rfl
  · -- another process, unchanged
    by_cases hpt : p.k.tag = "hot2cold"
    · exfalso
      have hp1 : transitLiveH2C p = true := by
        unfold transitLiveH2C; rw [ha, transit_h2c_tag.mpr hpt]; rfl
      have hq1 : transitLiveH2C q = true := by
        unfold transitLiveH2C; rw [hqa, hk]; rfl
      exact hne (congrArg Proc.pid (transit_filter_unique s.procs transitLiveH2C hq.1 hq0 hpm hq1 hp1))
    · by_cases hpc : p.k.tag = "cold2hot"
      · exfalso
        have hq1 : transitLiveH2C q = true := by
          unfold transitLiveH2C; rw [hqa, hk]; rfl
        have h0 := hq.2 (transit_filter_pos s.procs transitLiveH2C hq0 hq1)
        have := transit_filter_zero s.procs transitLiveC2H h0 hpm
        unfold transitLiveC2H at this
        rw [ha, transit_c2h_tag.mpr hpc] at this
        cases this
      · rw [transit_block_cold s p orc hpt hpc]
        exact h q hq0 hqa o l hk hl
  · -- a new process carries nothing
    exact absurd (hnew2 q hqn).1 (transit_tok_ne hqa hk hl)

theorem transit_start_procs (s0 : Sys) (hw : WFConfig s0) : ∀ q ∈ s0.start.procs, tok q = [] := by
  obtain ⟨hprocs, _⟩ := hw.fresh
  have hp : s0.start.procs = s0.procs ++
      [{ pid := s0.nextPid, k := .monitor, wake := 0 }, { pid := s0.nextPid + 1, k := .telescope, wake := 0 },
       { pid := s0.nextPid + 2, k := .clusterLoop, wake := 0 }, { pid := s0.nextPid + 3, k := .schedLoop, wake := 0 },
       { pid := s0.nextPid + 4, k := .bufferLoop, wake := 0 }] := by
    simp [start, spawn]
  rw [hprocs] at hp
  simp only [List.nil_append] at hp
  intro q hq
  rw [hp] at hq
  simp only [List.mem_cons, List.not_mem_nil, or_false] at hq
  rcases hq with rfl | rfl | rfl | rfl | rfl <;> simp [tok, tokK]

/-- along every run with at most one hot→cold move at a time (and no cold→hot move beside it),
the cold tier's transfer slot holds the observation of the move in flight -/
theorem transit_slotCold_reach (s0 s : Sys) (hw : WFConfig s0) (h : TransitReach TransitOneCold s0 s) :
    TransitSlotCold s := by
  induction h with
  | start _ =>
    intro q hq hqa o l hk hl
    exact absurd (transit_start_procs s0 hw q hq) (transit_tok_ne hqa hk hl)
  | step s pid orc hr hen hpre _ ih =>
    exact transit_slotCold_step (reach_inv s0 s hw hr.toOk) hr.holds ih hen orc hpre

end Sys
end Topsim
