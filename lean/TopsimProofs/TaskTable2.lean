/-
  TaskTable2 — where task records come from (`RecI`): a workflow task record
  belongs to an observation that has a plan, an ingest task record to an
  observation whose ingest provisioner has run, no other kind of record exists,
  and every started task has a record.  Along every `ReachOk` run, crashed or not.
-/
import TopsimProofs.PlanTraj4

namespace Topsim
namespace Sys

/-! ### what one step does to `starts` -/

theorem resume_startsShape {s : Sys} (pid : Nat) (orc : Oracle) (hpre : s.alg = .oracle → orc.preOk) :
    (s.resume pid orc).1.starts = s.starts ∨
    ∃ t r, (s.resume pid orc).1.starts = s.starts ++ [t] ∧ s.task? t = some r := by
  cases hp : s.proc? pid with
  | none => rw [resume_none s pid orc hp]; exact Or.inl rfl
  | some p =>
    cases ha : p.alive with
    | false => rw [resume_dead s pid orc p hp ha]; exact Or.inl rfl
    | true =>
      have hc : (s.resume pid orc).1.starts = (s.block p orc).1.starts := (resume_core s pid orc p hp ha).starts
      rw [hc]
      cases hk : p.k with
      | schedLoop =>
        rw [block_schedLoop orc hk]; exact Or.inl (schedLoopBlock_pres s p.wake orc).shape.starts
      | allocTasks o sc pa po fn =>
        rw [block_allocTasks orc hk]
        exact Or.inl (allocTasksBlock_pres s p.wake orc hpre p.pc o sc pa po fn).shape.starts
      | doWork t m preds ph tot =>
        rw [block_doWork orc hk]
        have hsh := doWorkBlock_shape s p.wake orc t m preds ph tot
        generalize s.doWorkBlock p.wake orc t m preds ph tot = X at hsh
        cases hsh with
        | raised _ _ => exact Or.inl rfl
        | wait _ _ _ _ => exact Or.inl rfl
        | start r mm dur tot' _ hr _ => exact Or.inr ⟨t, r, rfl, hr⟩
        | finish _ => exact Or.inl rfl
      | _ =>
        exact Or.inl (block_starts s p orc (by simp [hk, PK.tag]) (by simp [hk, PK.tag]) (by simp [hk, PK.tag]))

/-! ### ingest provisioners that have run stay in the process table -/

theorem resume_provKeep {s : Sys} (hs : SInv s) {pid : Nat} (hen : s.enabled pid) (orc : Oracle) :
    (∀ q ∈ s.procs, ∀ o d, q.k = .provIngest o d → 1 ≤ q.pc →
      ∃ q' ∈ (s.resume pid orc).1.procs, q'.k = .provIngest o d ∧ 1 ≤ q'.pc) ∧
    (∀ p o d, s.proc? pid = some p → p.k = .provIngest o d →
      ∃ q' ∈ (s.resume pid orc).1.procs, q'.k = .provIngest o d ∧ 1 ≤ q'.pc) := by
  obtain ⟨p, hp, ha, hmin⟩ := hen
  obtain ⟨hpm, hpid⟩ := proc?_some hp
  subst hpid
  have hc : (s.resume p.pid orc).1.procs =
      ((s.block p orc).1.updProc p.pid (fin (s.block p orc).2.1 (s.block p orc).2.2 p.wake)).procs :=
    (resume_core s p.pid orc p hp ha).procs
  obtain ⟨hpre, hpwX⟩ := block_pre_str hs.pw hs.eg hpm ha hmin orc
  have hpX : p ∈ (s.block p orc).1.procs := hpre.subset hpm
  have hself : ∀ o d, p.k = .provIngest o d →
      ∃ q' ∈ (s.resume p.pid orc).1.procs, q'.k = .provIngest o d ∧ 1 ≤ q'.pc := by
    intro o d hk
    refine ⟨fin (s.block p orc).2.1 (s.block p orc).2.2 p.wake p, ?_, ?_, ?_⟩
    · rw [hc]; exact (mem_updProc_iff hpwX hpX _ _).mpr (Or.inl rfl)
    · rw [fin_k, block_provIngest orc hk]; exact (provIngestBlock_presE s p.wake p.pc o d).2
    · rw [fin_pc]; omega
  constructor
  · intro q hq o d hk hpc
    by_cases e : q.pid = p.pid
    · have : q = p := hs.pw.eq_of_pid hq hpm e
      subst this
      exact hself o d hk
    · exact ⟨q, by rw [hc]; exact (mem_updProc_iff hpwX hpX _ _).mpr (Or.inr ⟨hpre.subset hq, e⟩), hk, hpc⟩
  · intro p' o d hp' hk
    rw [hp] at hp'
    injection hp' with hp'
    subst hp'
    exact hself o d hk

/-! ### the invariant -/

structure RecI (s : Sys) : Prop where
  /-- a workflow task record belongs to an observation that has a plan -/
  wfPlan : ∀ r ∈ s.tasks, ∀ o c n, r.id = Tid.wf o c n → ∃ pl ∈ s.plans, pl.obs = o
  /-- an ingest task record belongs to an observation whose provisioner has run, and its index is
  below the provisioner's demand -/
  ingProv : ∀ r ∈ s.tasks, ∀ o i, r.id = Tid.ingest o i →
    ∃ p ∈ s.procs, ∃ d, p.k = .provIngest o d ∧ 1 ≤ p.pc ∧ i < d
  /-- no hand-made task -/
  noRaw : ∀ r ∈ s.tasks, ∀ n, r.id ≠ Tid.raw n
  /-- every started task has a record -/
  startsRec : ∀ t ∈ s.starts, ∃ r ∈ s.tasks, r.id = t

theorem reci_start (s0 : Sys) (hw : WFConfig s0) : RecI s0.start := by
  obtain ⟨_, _, htasks, _, _, hstarts, _⟩ := hw.fresh
  have ht : s0.start.tasks = [] := by rw [← htasks]; simp [start, spawn]
  have hs : s0.start.starts = [] := by rw [← hstarts]; simp [start, spawn]
  constructor
  · rw [ht]; intro r h; simp at h
  · rw [ht]; intro r h; simp at h
  · rw [ht]; intro r h; simp at h
  · rw [hs]; intro t h; simp at h

theorem reci_step {s : Sys} (hs : SInv s) (h : RecI s) {pid : Nat} (hen : s.enabled pid) (orc : Oracle)
    (hpre : s.alg = .oracle → orc.preOk) : RecI (s.resume pid orc).1 := by
  obtain ⟨hkeep, hself⟩ := resume_provKeep hs hen orc
  have hfwdP : ∀ pl ∈ s.plans, ∃ pl' ∈ (s.resume pid orc).1.plans, pl'.obs = pl.obs := by
    obtain ⟨p, hp, ha, _⟩ := hen
    exact resume_plansFwd s pid orc p hp ha
  -- every old record has an image with the same id; every new record is an image or appended
  have key : ∃ recs : List TaskRec,
      (∀ r' ∈ (s.resume pid orc).1.tasks, (∃ r ∈ s.tasks, r'.id = r.id) ∨ r' ∈ recs) ∧
      (∀ r ∈ s.tasks, ∃ r' ∈ (s.resume pid orc).1.tasks, r'.id = r.id) ∧
      (∀ r ∈ recs, (∃ o i, r.id = Tid.ingest o i ∧ ∃ q' ∈ (s.resume pid orc).1.procs, ∃ d,
          q'.k = .provIngest o d ∧ 1 ≤ q'.pc ∧ i < d) ∨
        (∃ o c n, r.id = Tid.wf o c n ∧ ∃ pl ∈ (s.resume pid orc).1.plans, pl.obs = o)) := by
    rcases resume_shape s hs.pw pid orc with ⟨_, hM⟩ | ⟨_, p, o, d, recs, hp, _, hk, _, ht, _, hid⟩ |
        ⟨p, _, _, _, oid, o, recs, plan, _, hob, hrp, ht, hpl⟩
    · refine ⟨[], ?_, ?_, by simp⟩
      · intro r' hr'
        obtain ⟨r, hr, k⟩ := hM.back hr'
        exact Or.inl ⟨r, hr, k.id⟩
      · intro r hr
        obtain ⟨r', hr', k⟩ := hM.fwd hr
        exact ⟨r', hr', k.id⟩
    · refine ⟨recs, ?_, ?_, ?_⟩
      · intro r' hr'
        rw [ht] at hr'
        rcases List.mem_append.mp hr' with h1 | h1
        · exact Or.inl ⟨r', h1, rfl⟩
        · exact Or.inr h1
      · intro r hr; exact ⟨r, by rw [ht]; exact List.mem_append_left _ hr, rfl⟩
      · intro r hr
        obtain ⟨i, hi, e⟩ := hid r hr
        obtain ⟨q', hq', hqk, hqpc⟩ := hself p o d hp hk
        exact Or.inl ⟨o, i, e, q', hq', d, hqk, hqpc, hi⟩
    · refine ⟨recs, ?_, ?_, ?_⟩
      · intro r' hr'
        rw [ht] at hr'
        rcases List.mem_append.mp hr' with h1 | h1
        · exact Or.inl ⟨r', h1, rfl⟩
        · exact Or.inr h1
      · intro r hr; exact ⟨r, by rw [ht]; exact List.mem_append_left _ hr, rfl⟩
      · intro r hr
        obtain ⟨a1, _, _, _, _, a6⟩ := planOf_attrs o (natNow p.wake) s.staticPlan orc.plan recs plan hrp
        obtain ⟨n, e, _⟩ := a6 r hr
        exact Or.inr ⟨o.id, natNow p.wake, n, e, plan, by rw [hpl]; simp, a1⟩
  obtain ⟨recs, hback, hfwd, hnew⟩ := key
  constructor
  · intro r' hr' o c n e
    rcases hback r' hr' with ⟨r, hr, e'⟩ | h1
    · obtain ⟨pl, hpl, ho⟩ := h.wfPlan r hr o c n (e'.symm.trans e)
      obtain ⟨pl', hpl', ho'⟩ := hfwdP pl hpl
      exact ⟨pl', hpl', ho'.trans ho⟩
    · rcases hnew r' h1 with ⟨o', i, e', _⟩ | ⟨o', c', n', e', pl, hpl, ho⟩
      · rw [e'] at e; cases e
      · rw [e'] at e
        injection e with e1 _ _
        subst e1
        exact ⟨pl, hpl, ho⟩
  · intro r' hr' o i e
    rcases hback r' hr' with ⟨r, hr, e'⟩ | h1
    · obtain ⟨q, hq, d, hqk, hqpc, hi⟩ := h.ingProv r hr o i (e'.symm.trans e)
      obtain ⟨q', hq', hqk', hqpc'⟩ := hkeep q hq o d hqk hqpc
      exact ⟨q', hq', d, hqk', hqpc', hi⟩
    · rcases hnew r' h1 with ⟨o', i', e', q', hq', d, hqk, hqpc, hi⟩ | ⟨o', c', n', e', _⟩
      · rw [e'] at e
        injection e with e1 e2
        subst e1 e2
        exact ⟨q', hq', d, hqk, hqpc, hi⟩
      · rw [e'] at e; cases e
  · intro r' hr' n e
    rcases hback r' hr' with ⟨r, hr, e'⟩ | h1
    · exact h.noRaw r hr n (e'.symm.trans e)
    · rcases hnew r' h1 with ⟨o', i', e', _⟩ | ⟨o', c', n', e', _⟩ <;> (rw [e'] at e; cases e)
  · intro t ht
    rcases resume_startsShape pid orc hpre with hst | ⟨t0, r0, hst, hr0⟩
    · rw [hst] at ht
      obtain ⟨r, hr, e⟩ := h.startsRec t ht
      obtain ⟨r', hr', e'⟩ := hfwd r hr
      exact ⟨r', hr', e'.trans e⟩
    · rw [hst] at ht
      rcases List.mem_append.mp ht with h1 | h1
      · obtain ⟨r, hr, e⟩ := h.startsRec t h1
        obtain ⟨r', hr', e'⟩ := hfwd r hr
        exact ⟨r', hr', e'.trans e⟩
      · simp only [List.mem_singleton] at h1
        subst h1
        obtain ⟨r', hr', e'⟩ := hfwd r0 (List.mem_of_find?_eq_some hr0)
        exact ⟨r', hr', e'.trans (task?_id hr0)⟩

theorem reachOk_reci (s0 s : Sys) (hw : WFConfig s0) (h : ReachOk s0 s) : RecI s := by
  induction h with
  | start => exact reci_start s0 hw
  | step s pid orc hr hen hpre ih => exact reci_step (reach_inv s0 s hw hr) ih hen orc hpre

end Sys
end Topsim
