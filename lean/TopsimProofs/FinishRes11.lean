/-
  FinishRes11 — `RI` along every run of BatchProcessing; no reservation is left
  when the simulation has finished.
-/
import TopsimProofs.FinishRes10

namespace Topsim
namespace Sys

open Cluster

/-! ### blocks that create no process -/

theorem monitorBlock_procsq (s : Sys) (now : Time) : (s.monitorBlock now).1.procs = s.procs := rfl

theorem ingestStreamIter_procsq (s : Sys) (now : Time) (oid : Oid) (tl : Int) :
    (s.ingestStreamIter now oid tl).1.procs = s.procs := by
  unfold ingestStreamIter; mach_split

theorem ingestStreamBlock_procsq (s : Sys) (now : Time) (pc : Nat) (oid : Oid) (tl : Int) :
    (s.ingestStreamBlock now pc oid tl).1.procs = s.procs := by
  unfold ingestStreamBlock
  split
  · split
    · rfl
    · split
      · rfl
      · exact ingestStreamIter_procsq _ _ _ _
  · exact ingestStreamIter_procsq _ _ _ _

theorem hot2coldIter_procsq (s : Sys) (now : Time) (o : Oid) (left : Int) :
    (s.hot2coldIter now o left).1.procs = s.procs := by
  unfold hot2coldIter; mach_split

theorem hot2coldBlock_procsq (s : Sys) (now : Time) (cur : Option (Oid × Int)) :
    (s.hot2coldBlock now cur).1.procs = s.procs := by
  unfold hot2coldBlock
  split
  · exact hot2coldIter_procsq _ _ _ _
  · split
    · rfl
    · rfl
    · rw [hot2coldIter_procsq]; rfl

theorem cold2hotIter_procsq (s : Sys) (now : Time) (o : Oid) (left : Int) :
    (s.cold2hotIter now o left).1.procs = s.procs := by
  unfold cold2hotIter; mach_split

theorem cold2hotBlock_procsq (s : Sys) (now : Time) (cur : Option (Oid × Int)) :
    (s.cold2hotBlock now cur).1.procs = s.procs := by
  unfold cold2hotBlock
  split
  · exact cold2hotIter_procsq _ _ _ _
  · split
    · rfl
    · rfl
    · rw [cold2hotIter_procsq]; rfl

theorem bufferLoopBlock_newprocs (s : Sys) (now : Time) :
    ∃ new, (s.bufferLoopBlock now).1.procs = s.procs ++ new ∧
      ∀ q ∈ new, q.k.tag = "hot2cold" ∨ q.k.tag = "cold2hot" := by
  unfold bufferLoopBlock
  split
  · exact ⟨[], by simp, by simp⟩
  · rename_i d _
    simp only
    by_cases h1 : d.startHot2Cold = true <;> by_cases h2 : d.startCold2Hot = true
    · simp only [h1, h2, if_true]
      exact ⟨[{ pid := s.nextPid, k := .hot2cold none, wake := now },
        { pid := s.nextPid + 1, k := .cold2hot none, wake := now }], by simp, by simp [PK.tag]⟩
    · simp only [h1, h2, if_true]
      exact ⟨[{ pid := s.nextPid, k := .hot2cold none, wake := now }], by simp, by simp [PK.tag]⟩
    · simp only [h1, h2, if_true]
      exact ⟨[{ pid := s.nextPid, k := .cold2hot none, wake := now }], by simp, by simp [PK.tag]⟩
    · simp only [h1, h2]
      exact ⟨[], by simp, by simp⟩

/-! ### one step -/

theorem RI.congr {a b : Sys} (h : RI a) (hq : b.queue = a.queue) (hp : b.procs = a.procs)
    (hpl : b.plans = a.plans) (ht : b.tasks = a.tasks) (hc : b.cl = a.cl) : RI b := by
  have hts : ∀ t, tstat b t = tstat a t := tstat_of_tasks ht
  have hplT : ∀ o, planTasks b o = planTasks a o := planTasks_of_plans hpl
  constructor
  · rw [hq]; exact h.qNodup
  · rw [hp, hq]; unfold plan?; rw [hpl]; exact h.atsQ
  · rw [hp]; exact h.atsUniq
  · intro q hq' hqa o sc pa po hqk
    rw [hp] at hq'
    obtain ⟨g1, g2⟩ := h.sl q hq' hqa o sc pa po hqk
    exact ⟨g1, fun t ht' => ⟨by rw [hplT]; exact (g2 t ht').1, by rw [hts]; exact (g2 t ht').2⟩⟩
  · rw [hpl]; exact h.pt
  · rw [hpl]; exact h.pf
  · rw [hpl]; exact h.pn
  · intro q hq' hqa t m preds o ret hqk
    rw [hp] at hq'
    obtain ⟨g1, g2⟩ := h.st q hq' hqa t m preds o ret hqk
    exact ⟨by rw [hts]; exact g1, by rw [hplT]; exact g2⟩
  · rw [hc, hp]; exact h.rc
  · rw [hc, hq]; exact h.keyQ
  · rw [hc]; exact h.keyNE

theorem ri_step {s : Sys} (hs : SInv s) (h : RI s) (hbuf : BufI s) {pid : Nat} (hen : s.enabled pid)
    (orc : Oracle) {parts minPer : Nat} {split : Option (List (Oid × Nat × Nat))}
    (halg : s.alg = .batch parts minPer split) : RI (s.resume pid orc).1 := by
  obtain ⟨p, hp, ha, hmin⟩ := hen
  obtain ⟨hpm, hpid⟩ := proc?_some hp
  subst hpid
  have hcore := resume_core s p.pid orc p hp ha
  have hpw := hs.pw
  refine RI.congr (a := (s.block p orc).1.updProc p.pid (fin (s.block p orc).2.1 (s.block p orc).2.2 p.wake)) ?_
    (resume_queue s p.pid orc p hp ha) hcore.procs (resume_plans s p.pid orc p hp ha) hcore.tasks hcore.cl
  cases hk : p.k with
  | monitor =>
    have hb : s.block p orc = ((s.monitorBlock p.wake).1, p.k, (s.monitorBlock p.wake).2) := by
      unfold block; simp only [hk]
    exact ri_quiet hs h hpm orc (by simp [hk, PK.tag]) (by simp [hk, PK.tag]) (by simp [hk, PK.tag])
      (by simp [hk, PK.tag]) (by simp [hk, PK.tag]) [] (by rw [hb]; simpa using monitorBlock_procsq s p.wake)
      (by rw [hb]; exact (monitorBlock_pres s p.wake).pw hpw) (by simp)
  | telescope =>
    have hb : s.block p orc = ((s.telescopeBlock p.wake).1, .telescope, (s.telescopeBlock p.wake).2) := by
      unfold block; simp only [hk]
    obtain ⟨hc, _, _⟩ := telescope_key hs.eg hpm ha hmin hk
    obtain ⟨new, hprocs, hnewk⟩ := telescopeBlock_procs s p.wake
    exact ri_quiet hs h hpm orc (by simp [hk, PK.tag]) (by simp [hk, PK.tag]) (by simp [hk, PK.tag])
      (by simp [hk, PK.tag]) (by simp [hk, PK.tag]) new (by rw [hb]; exact hprocs) (by rw [hb]; exact hc.pw hpw)
      (fun q hq => by rw [hnewk q hq]; exact ⟨by decide, by decide⟩)
  | clusterLoop =>
    have hb : s.block p orc = ({ s with cl := s.cl.loopTick }, p.k, .timeout 1) := by
      unfold block; simp only [hk]
    exact ri_quiet hs h hpm orc (by simp [hk, PK.tag]) (by simp [hk, PK.tag]) (by simp [hk, PK.tag])
      (by simp [hk, PK.tag]) (by simp [hk, PK.tag]) [] (by rw [hb]; simp)
      (by rw [hb]; exact (clusterLoop_pres s).pw hpw) (by simp)
  | schedLoop =>
    have hb : s.block p orc = ((s.schedLoopBlock p.wake orc).1, p.k, (s.schedLoopBlock p.wake orc).2) := by
      unfold block; simp only [hk]
    rw [hb]
    simp only
    rw [hk]
    exact ri_schedLoop hs h hbuf hpm orc hk
  | bufferLoop =>
    have hb : s.block p orc = ((s.bufferLoopBlock p.wake).1, p.k, (s.bufferLoopBlock p.wake).2) := by
      unfold block; simp only [hk]
    obtain ⟨new, hprocs, hnewk⟩ := bufferLoopBlock_newprocs s p.wake
    exact ri_quiet hs h hpm orc (by simp [hk, PK.tag]) (by simp [hk, PK.tag]) (by simp [hk, PK.tag])
      (by simp [hk, PK.tag]) (by simp [hk, PK.tag]) new (by rw [hb]; exact hprocs)
      (by rw [hb]; exact (bufferLoopBlock_pres s p.wake).pw hpw)
      (fun q hq => by rcases hnewk q hq with e | e <;> rw [e] <;> exact ⟨by decide, by decide⟩)
  | allocIngest o tl =>
    have hb : s.block p orc = s.allocIngestBlock p.wake p.pc o tl := by
      unfold block; simp only [hk]
    have hpwX : PW (s.block p orc).1 := by rw [hb]; exact (allocIngestBlock_E s p.wake p.pc o tl).1.pw hpw
    rcases allocIngestBlock_procs s p.wake p.pc o tl with hsame | ⟨ob, d, _, _, hprocs, _⟩
    · exact ri_quiet hs h hpm orc (by simp [hk, PK.tag]) (by simp [hk, PK.tag]) (by simp [hk, PK.tag])
        (by simp [hk, PK.tag]) (by simp [hk, PK.tag]) [] (by rw [hb]; simpa using hsame) hpwX (by simp)
    · exact ri_quiet hs h hpm orc (by simp [hk, PK.tag]) (by simp [hk, PK.tag]) (by simp [hk, PK.tag])
        (by simp [hk, PK.tag]) (by simp [hk, PK.tag]) _ (by rw [hb]; exact hprocs) hpwX (by simp [PK.tag])
  | provIngest o d => exact ri_provIngest hs h hpm orc hk
  | ingestStream o tl =>
    have hb : s.block p orc = s.ingestStreamBlock p.wake p.pc o tl := by
      unfold block; simp only [hk]
    exact ri_quiet hs h hpm orc (by simp [hk, PK.tag]) (by simp [hk, PK.tag]) (by simp [hk, PK.tag])
      (by simp [hk, PK.tag]) (by simp [hk, PK.tag]) [] (by rw [hb]; simpa using ingestStreamBlock_procsq s p.wake p.pc o tl)
      (by rw [hb]; exact (ingestStreamBlock_pres s p.wake p.pc o tl).pw hpw) (by simp)
  | allocTask t m preds obs ing ret => exact ri_allocTask hs h hpm ha orc hk
  | doWork t m preds ph tot => exact ri_doWork hs h hpm ha orc hk
  | allocTasks o sc pa po fn => exact ri_allocTasks hs h hpm ha orc hk halg
  | hot2cold cur =>
    have hb : s.block p orc = s.hot2coldBlock p.wake cur := by
      unfold block; simp only [hk]
    exact ri_quiet hs h hpm orc (by simp [hk, PK.tag]) (by simp [hk, PK.tag]) (by simp [hk, PK.tag])
      (by simp [hk, PK.tag]) (by simp [hk, PK.tag]) [] (by rw [hb]; simpa using hot2coldBlock_procsq s p.wake cur)
      (by rw [hb]; exact (hot2coldBlock_pres s p.wake cur).pw hpw) (by simp)
  | cold2hot cur =>
    have hb : s.block p orc = s.cold2hotBlock p.wake cur := by
      unfold block; simp only [hk]
    exact ri_quiet hs h hpm orc (by simp [hk, PK.tag]) (by simp [hk, PK.tag]) (by simp [hk, PK.tag])
      (by simp [hk, PK.tag]) (by simp [hk, PK.tag]) [] (by rw [hb]; simpa using cold2hotBlock_procsq s p.wake cur)
      (by rw [hb]; exact (cold2hotBlock_pres s p.wake cur).pw hpw) (by simp)

theorem start_ri (s0 : Sys) (hw : WFConfig s0) : RI s0.start := by
  obtain ⟨hprocs, _, _, hplans, hqueue, _⟩ := hw.fresh
  have hp : s0.start.procs = s0.procs ++
      [{ pid := s0.nextPid, k := .monitor, wake := 0 }, { pid := s0.nextPid + 1, k := .telescope, wake := 0 },
       { pid := s0.nextPid + 2, k := .clusterLoop, wake := 0 }, { pid := s0.nextPid + 3, k := .schedLoop, wake := 0 },
       { pid := s0.nextPid + 4, k := .bufferLoop, wake := 0 }] := by
    simp [start, spawn]
  have hq : s0.start.queue = s0.queue := by simp [start, spawn]
  have hpl : s0.start.plans = s0.plans := by simp [start, spawn]
  have hcl : s0.start.cl = s0.cl := by simp [start, spawn]
  rw [hprocs] at hp
  simp only [List.nil_append] at hp
  have hno : ∀ q ∈ s0.start.procs, q.k.tag ≠ "allocTasks" ∧ q.k.tag ≠ "allocTask" := by
    intro q hq'
    rw [hp] at hq'
    simp only [List.mem_cons, List.not_mem_nil, or_false] at hq'
    rcases hq' with rfl | rfl | rfl | rfl | rfl <;> exact ⟨by simp [PK.tag], by simp [PK.tag]⟩
  have hclI : s0.start.cl = Cluster.init (s0.machines.map (·.id)) := by rw [hcl, hw.clInit]
  constructor
  · rw [hq, hqueue]; simp
  · intro q hq' _ o sc pa po hk; have := (hno q hq').1; rw [hk] at this; exact absurd rfl this
  · intro q hq' _ _ _ _ o sc pa po _ _ _ hk; have := (hno q hq').1; rw [hk] at this; exact absurd rfl this
  · intro q hq' _ o sc pa po hk; have := (hno q hq').1; rw [hk] at this; exact absurd rfl this
  · rw [hpl, hplans]; intro pl h; simp at h
  · rw [hpl, hplans]; intro pl h; simp at h
  · rw [hpl, hplans]; simp
  · intro q hq' _ t m preds o ret hk; have := (hno q hq').2; rw [hk] at this; exact absurd rfl this
  · rw [hclI]; intro e he; simp [Cluster.init] at he
  · rw [hclI]; intro o ho; simp [Cluster.init] at ho
  · rw [hclI]; intro o l hl; simp [Cluster.init, dictGet] at hl

theorem reach_ri (s0 s : Sys) (hw : WFConfig s0) (hbuf : bufList s0.buf = [])
    {parts minPer : Nat} {split : Option (List (Oid × Nat × Nat))}
    (halg : s0.alg = .batch parts minPer split) (h : Reach s0 s) : RI s := by
  have hno : s0.alg ≠ .oracle := by rw [halg]; simp
  induction h with
  | start => exact start_ri s0 hw
  | step s pid orc hr hen ih =>
    exact ri_step (reach_inv s0 s hw (hr.toOk hno)) ih (reach_bufi s0 s hw hbuf hno hr) hen orc
      (by rw [reach_alg hr]; exact halg)

/-- (6) for BatchProcessing: a finished simulation holds no reservation -/
theorem finished_no_reservation_batch (s0 s : Sys) (hw : WFConfig s0) (hbuf : bufList s0.buf = [])
    {parts minPer : Nat} {split : Option (List (Oid × Nat × Nat))}
    (halg : s0.alg = .batch parts minPer split) (h : Reach s0 s) (hf : s.isFinished = true) :
    s.cl.idle = [] := by
  have hri := reach_ri s0 s hw hbuf halg h
  obtain ⟨_, _, hq, _⟩ := (sim_isFinished_iff s).mp hf
  cases hi : s.cl.idle with
  | nil => rfl
  | cons x r =>
    have := hri.keyQ x.1 (by rw [hi]; simp)
    rw [hq] at this; simp at this

end Sys
end Topsim
