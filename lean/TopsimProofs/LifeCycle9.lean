/-
  LifeCycle9 — the scheduler's and the buffer-removal events are emitted at most once per
  observation: `queueAdded` (the observation moves from `stored` to `scheduled`, for ever),
  `allocStarted` (first block of the one `allocate_tasks` process of the observation),
  `allocStopped` / `bufRemoved` / `queueRemoved` (the observation moves from `scheduled` to
  `finished`, for ever).
-/
import TopsimProofs.LifeCycle8

namespace Topsim
namespace Sys

/-! ### per block -/

/-- the events of one iteration of `allocate_tasks`, counted -/
theorem atev_counts {s1 : Sys} {n : Nat} {o' : Oid} {r : Sys × PK × Yield} {c u : List Event}
    (h : ATEv s1 n o' r c u) (o : Oid) :
    evCount o .allocStarted (c ++ u) = 0 ∧
    evCount o .bufRemoved (c ++ u) = evCount o .allocStopped (c ++ u) ∧
    evCount o .queueRemoved (c ++ u) ≤ evCount o .allocStopped (c ++ u) ∧
    evCount o .allocStopped (c ++ u) ≤ 1 ∧
    (1 ≤ evCount o .allocStopped (c ++ u) → o = o' ∧
      (o' ∈ s1.buf.hot.scheduled → o' ∈ r.1.buf.hot.finished) ∧
      ∀ e ∈ c ++ u, e.time = n ∧ e.obs = o') := by
  cases h with
  | quiet => simp
  | finish X sc pa po _ _ hb _ _ =>
    simp only [List.cons_append, List.nil_append, evCount_cons, evCount_nil]
    by_cases e : o' = o
    · subst e
      refine ⟨by simp, by simp, by simp, by simp, fun _ => ⟨rfl, fun hin => ?_, by simp⟩⟩
      show o' ∈ X.buf.hot.finished
      rw [hb]; exact (remove_lists s1.buf o').2.2 hin
    · simp [e]
  | finishBad X sc pa po err _ _ hb _ _ =>
    simp only [List.cons_append, List.nil_append, evCount_cons, evCount_nil]
    by_cases e : o' = o
    · subst e
      refine ⟨by simp, by simp, by simp, by simp, fun _ => ⟨rfl, fun hin => ?_, by simp⟩⟩
      show o' ∈ X.buf.hot.finished
      rw [hb]; exact (remove_lists s1.buf o').2.2 hin
    · simp [e]
  | finishWait X sc pa po _ hnin _ _ =>
    simp only [List.cons_append, List.nil_append, evCount_cons, evCount_nil]
    by_cases e : o' = o
    · subst e
      exact ⟨by simp, by simp, by simp, by simp, fun _ => ⟨rfl, fun hin => absurd hin hnin, by simp⟩⟩
    · simp [e]

/-- a block whose process is not `allocate_tasks` emits none of its events -/
theorem evCount_ats_zero (s : Sys) (p : Proc) (orc : Oracle)
    (hk : ∀ o sc pa po fin, p.k ≠ .allocTasks o sc pa po fin) (o : Oid) :
    evCount o .allocStarted (blockEvents s p orc) = 0 ∧ evCount o .allocStopped (blockEvents s p orc) = 0 ∧
    evCount o .bufRemoved (blockEvents s p orc) = 0 ∧ evCount o .queueRemoved (blockEvents s p orc) = 0 := by
  refine ⟨?_, ?_, ?_, ?_⟩ <;> apply evCount_zero_of_kind <;> intro e he hkind <;>
    rcases blockEvents_kinds s p orc e he with ⟨_, h⟩ | ⟨_, h⟩ | ⟨_, h⟩ | ⟨⟨sc, pa, po, fin, h⟩, _⟩ | ⟨_, h⟩
  all_goals first
    | exact hk _ _ _ _ _ h
    | (simp [isTransfer, hkind] at h)

/-- one block, the `allocate_tasks` events of observation `o` -/
theorem block_allocEvents (s : Sys) (p : Proc) (orc : Oracle) (o : Oid) :
    evCount o .allocStarted (blockEvents s p orc) ≤ 1 ∧
    (1 ≤ evCount o .allocStarted (blockEvents s p orc) →
      (∃ sc pa po, p.k = .allocTasks o sc pa po false) ∧ p.pc = 0) ∧
    evCount o .bufRemoved (blockEvents s p orc) = evCount o .allocStopped (blockEvents s p orc) ∧
    evCount o .queueRemoved (blockEvents s p orc) ≤ evCount o .allocStopped (blockEvents s p orc) ∧
    evCount o .allocStopped (blockEvents s p orc) ≤ 1 ∧
    (1 ≤ evCount o .allocStopped (blockEvents s p orc) →
      (∃ sc pa po, p.k = .allocTasks o sc pa po false) ∧
      (o ∈ s.buf.hot.scheduled → o ∈ (s.block p orc).1.buf.hot.finished)) := by
  by_cases hk : ∃ o' sc pa po fin, p.k = .allocTasks o' sc pa po fin
  · obtain ⟨o', sc, pa, po, fin, hk⟩ := hk
    rcases blockEvents_allocTasks (s := s) orc hk with ⟨_, h, _⟩ | ⟨hf, c, u, hat, h⟩
    · rw [h]; simp
    · subst hf
      obtain ⟨a1, a2, a3, a4, a5⟩ := atev_counts hat o
      rw [h, List.append_assoc]
      simp only [evCount_append]
      have hA : ∀ k, k ≠ EvKind.allocStarted →
          evCount o k (if p.pc = 0 then [(⟨natNow p.wake, o', .allocStarted⟩ : Event)] else []) = 0 := by
        intro k hne
        split
        · rw [evCount_single]; simp [Ne.symm hne]
        · rfl
      simp only [evCount_append] at a1 a2 a3 a4 a5
      rw [hA .bufRemoved (by simp), hA .allocStopped (by simp), hA .queueRemoved (by simp)]
      refine ⟨?_, ?_, by omega, by omega, by omega, ?_⟩
      · split
        · rw [evCount_single]; split <;> omega
        · simp only [evCount_nil]; omega
      · intro h1
        split at h1
        · rename_i hpc
          rw [evCount_single] at h1
          by_cases e : o' = o
          · subst e; exact ⟨⟨sc, pa, po, hk⟩, hpc⟩
          · simp only [e, false_and, if_false] at h1; omega
        · simp only [evCount_nil] at h1; omega
      · intro h1
        obtain ⟨e, hfin, _⟩ := a5 (by omega)
        subst e
        refine ⟨⟨sc, pa, po, hk⟩, fun hin => hfin ?_⟩
        rw [atStart_buf]; exact hin
  · have hk' : ∀ o sc pa po fin, p.k ≠ .allocTasks o sc pa po fin :=
      fun o sc pa po fin h => hk ⟨o, sc, pa, po, fin, h⟩
    obtain ⟨z1, z2, z3, z4⟩ := evCount_ats_zero s p orc hk' o
    rw [z1, z2, z3, z4]; simp

/-- one block, `queueAdded` of observation `o` -/
theorem block_queueAdded (s : Sys) (p : Proc) (orc : Oracle) (o : Oid) :
    evCount o .queueAdded (blockEvents s p orc) ≤ 1 ∧
    (1 ≤ evCount o .queueAdded (blockEvents s p orc) →
      p.k = .schedLoop ∧ o ∈ s.buf.hot.stored ∧ o ∉ s.queue ∧
      (∃ pl ∈ (s.block p orc).1.plans, pl.obs = o) ∧
      blockEvents s p orc = [⟨natNow p.wake, o, .queueAdded⟩]) := by
  by_cases hk : p.k = .schedLoop
  · rcases blockEvents_schedLoop (s := s) orc hk with ⟨h, _⟩ | ⟨oid, ob, h, _, _, hq, _, hpr⟩
    · rw [h]; simp
    · rw [h, evCount_single]
      by_cases e : oid = o
      · subst e
        refine ⟨by simp, fun _ => ⟨hk, ?_⟩⟩
        rcases new_allocTasks s p orc hpr with hnone | ⟨oid', _, hst, _, hpl, hn⟩
        · exact absurd rfl (hnone _ (List.mem_singleton.mpr rfl) oid [] [] [] false)
        · simp only [List.cons.injEq, and_true] at hn
          have : oid = oid' := by injection hn with _ hk' _; injection hk'
          subst this
          exact ⟨hst, hq, hpl, rfl⟩
      · simp [e]
  · have : evCount o .queueAdded (blockEvents s p orc) = 0 := by
      apply evCount_zero_of_kind
      intro e he hkind
      rcases blockEvents_kinds s p orc e he with ⟨_, h⟩ | ⟨h, _⟩ | ⟨_, h⟩ | ⟨_, h⟩ | ⟨_, h⟩
      · simp [hkind] at h
      · exact hk h
      · simp [hkind] at h
      · simp [hkind] at h
      · simp [isTransfer, hkind] at h
    rw [this]; simp

/-! ### along a trajectory -/

structure SchedEvInv (s : Sys) (evs : List Event) : Prop where
  qaLe : ∀ o, evCount o .queueAdded evs ≤ 1
  qaPlan : ∀ o, 1 ≤ evCount o .queueAdded evs → ∃ pl ∈ s.plans, pl.obs = o
  asLe : ∀ o, evCount o .allocStarted evs ≤ 1
  asRan : ∀ o, 1 ≤ evCount o .allocStarted evs →
    ∃ q ∈ s.procs, ∃ sc pa po fin, q.k = .allocTasks o sc pa po fin ∧ 1 ≤ q.pc
  apLe : ∀ o, evCount o .allocStopped evs ≤ 1
  apFin : ∀ o, 1 ≤ evCount o .allocStopped evs → o ∈ s.buf.hot.finished
  brEq : ∀ o, evCount o .bufRemoved evs = evCount o .allocStopped evs
  qrLe : ∀ o, evCount o .queueRemoved evs ≤ evCount o .allocStopped evs

/-- an observation that is in `scheduled` or `finished` is in neither `stored` nor twice there -/
theorem BufI.excl {s : Sys} (hb : BufI s) (o : Oid) :
    (o ∈ s.buf.hot.scheduled ++ s.buf.hot.finished → o ∉ s.buf.hot.stored) ∧
    (o ∈ s.buf.hot.scheduled → o ∉ s.buf.hot.finished) := by
  have hc := hb.cnt o
  unfold locCount bufList at hc
  simp only [List.count_append] at hc
  constructor
  · intro h1 h2
    have a1 : 1 ≤ s.buf.hot.stored.count o := List.count_pos_iff.mpr h2
    have a2 : 1 ≤ (s.buf.hot.scheduled ++ s.buf.hot.finished).count o := List.count_pos_iff.mpr h1
    simp only [List.count_append] at a2
    omega
  · intro h1 h2
    have a1 : 1 ≤ s.buf.hot.scheduled.count o := List.count_pos_iff.mpr h1
    have a2 : 1 ≤ s.buf.hot.finished.count o := List.count_pos_iff.mpr h2
    omega

theorem allocTasks_keep {s : Sys} (hi : EInv s) {pid : Nat} (hen : s.enabled pid) (orc : Oracle) (o : Oid)
    (h : ∃ q ∈ s.procs, ∃ sc pa po fin, q.k = .allocTasks o sc pa po fin ∧ 1 ≤ q.pc) :
    ∃ q ∈ (s.resume pid orc).1.procs, ∃ sc pa po fin, q.k = .allocTasks o sc pa po fin ∧ 1 ≤ q.pc := by
  obtain ⟨p, hp, ha, hmin⟩ := hen
  obtain ⟨hpm, hpid⟩ := proc?_some hp
  obtain ⟨new, hnew, _⟩ := block_newp s p orc
  have hm := resume_memSpec hi hp ha hmin orc hnew
  obtain ⟨q, hq, sc, pa, po, fin, hqk, hqc⟩ := h
  rcases hm.old hi.pw hpm hq with rfl | hq'
  · obtain ⟨sc', pa', po', fin', hk'⟩ := ((block_class s hi.pw q orc).2 o).mpr ⟨sc, pa, po, fin, hqk⟩
    exact ⟨_, (hm _).mpr (Or.inl rfl), sc', pa', po', fin', by simp [hk'], by simp⟩
  · exact ⟨q, hq', sc, pa, po, fin, hqk, hqc⟩

theorem schedEvInv_step {s : Sys} {evs : List Event} (hi : EInv s) (hb : BufI s) (hat : LcATI s)
    (h : SchedEvInv s evs) {pid : Nat} (hen : s.enabled pid) (orc : Oracle) :
    SchedEvInv (s.resume pid orc).1 (evs ++ s.stepEvents pid orc) := by
  have hkeep := allocTasks_keep hi hen orc
  obtain ⟨p, hp, ha, hmin⟩ := hen
  obtain ⟨hpm, hpid⟩ := proc?_some hp
  obtain ⟨new, hnew, _⟩ := block_newp s p orc
  have hm := resume_memSpec hi hp ha hmin orc hnew
  have hplans := resume_plansFwd s pid orc p hp ha
  have hbufEq : (s.resume pid orc).1.buf = (s.block p orc).1.buf := resume_buf s pid orc p hp ha
  have hplEq : (s.resume pid orc).1.plans = (s.block p orc).1.plans := resume_plans s pid orc p hp ha
  obtain ⟨hfk, _, _⟩ := block_hot s p orc
  rw [stepEvents_alive orc hp ha]
  -- an emission finds the count at zero
  have qa0 : ∀ o, 1 ≤ evCount o .queueAdded (blockEvents s p orc) → evCount o .queueAdded evs = 0 := by
    intro o h1
    obtain ⟨_, hst, _⟩ := (block_queueAdded s p orc o).2 h1
    cases hc : evCount o .queueAdded evs with
    | zero => rfl
    | succ n =>
      obtain ⟨pl, hpl, hpo⟩ := h.qaPlan o (by omega)
      have := hb.planLoc pl hpl
      rw [hpo] at this
      exact absurd hst ((hb.excl o).1 this)
  have as0 : ∀ o, 1 ≤ evCount o .allocStarted (blockEvents s p orc) → evCount o .allocStarted evs = 0 := by
    intro o h1
    obtain ⟨⟨sc, pa, po, hk⟩, hpc⟩ := (block_allocEvents s p orc o).2.1 h1
    cases hc : evCount o .allocStarted evs with
    | zero => rfl
    | succ n =>
      obtain ⟨q, hq, sc', pa', po', fin', hqk, hqc⟩ := h.asRan o (by omega)
      have : q = p := hi.pw.eq_of_pid hq hpm (hat.uniq q hq p hpm o _ _ _ _ _ _ _ _ hqk hk)
      subst this; omega
  have ap0 : ∀ o, 1 ≤ evCount o .allocStopped (blockEvents s p orc) → evCount o .allocStopped evs = 0 := by
    intro o h1
    obtain ⟨⟨sc, pa, po, hk⟩, _⟩ := (block_allocEvents s p orc o).2.2.2.2.2 h1
    cases hc : evCount o .allocStopped evs with
    | zero => rfl
    | succ n =>
      exact absurd (h.apFin o (by omega)) ((hb.excl o).2 (hat.sched p hpm ha o sc pa po hk))
  obtain ⟨b1, b2⟩ := fun o => block_queueAdded s p orc o |>.1, fun o => block_queueAdded s p orc o |>.2
  constructor
  · intro o
    rw [evCount_append]
    have := h.qaLe o
    have := b1 o
    by_cases h3 : 1 ≤ evCount o .queueAdded (blockEvents s p orc)
    · have := qa0 o h3; omega
    · omega
  · intro o hge
    rw [evCount_append] at hge
    by_cases h3 : 1 ≤ evCount o .queueAdded (blockEvents s p orc)
    · obtain ⟨_, _, _, ⟨pl, hpl, hpo⟩, _⟩ := b2 o h3
      exact ⟨pl, by rw [hplEq]; exact hpl, hpo⟩
    · obtain ⟨pl, hpl, hpo⟩ := h.qaPlan o (by omega)
      obtain ⟨pl', hpl', e⟩ := hplans pl hpl
      exact ⟨pl', hpl', e.trans hpo⟩
  · intro o
    rw [evCount_append]
    have := h.asLe o
    have := (block_allocEvents s p orc o).1
    by_cases h3 : 1 ≤ evCount o .allocStarted (blockEvents s p orc)
    · have := as0 o h3; omega
    · omega
  · intro o hge
    rw [evCount_append] at hge
    by_cases h3 : 1 ≤ evCount o .allocStarted (blockEvents s p orc)
    · obtain ⟨⟨sc, pa, po, hk⟩, _⟩ := (block_allocEvents s p orc o).2.1 h3
      obtain ⟨sc', pa', po', fin', hk'⟩ := ((block_class s hi.pw p orc).2 o).mpr ⟨sc, pa, po, false, hk⟩
      exact ⟨_, (hm _).mpr (Or.inl rfl), sc', pa', po', fin', by simp [hk'], by simp⟩
    · exact hkeep o (h.asRan o (by omega))
  · intro o
    rw [evCount_append]
    have := h.apLe o
    have := (block_allocEvents s p orc o).2.2.2.2.1
    by_cases h3 : 1 ≤ evCount o .allocStopped (blockEvents s p orc)
    · have := ap0 o h3; omega
    · omega
  · intro o hge
    rw [evCount_append] at hge
    rw [hbufEq]
    by_cases h3 : 1 ≤ evCount o .allocStopped (blockEvents s p orc)
    · obtain ⟨⟨sc, pa, po, hk⟩, hfin⟩ := (block_allocEvents s p orc o).2.2.2.2.2 h3
      exact hfin (hat.sched p hpm ha o sc pa po hk)
    · exact hfk o (h.apFin o (by omega))
  · intro o
    rw [evCount_append, evCount_append, h.brEq o, (block_allocEvents s p orc o).2.2.1]
  · intro o
    rw [evCount_append, evCount_append]
    have := h.qrLe o
    have := (block_allocEvents s p orc o).2.2.2.1
    omega

theorem reachEvOk_sched {s0 s : Sys} {evs : List Event} (hw : WFConfig s0) (hbuf : bufList s0.buf = [])
    (h : ReachEvOk s0 s evs) : SchedEvInv s evs := by
  induction h with
  | start => exact ⟨by simp, by simp, by simp, by simp, by simp, by simp, by simp, by simp⟩
  | step s evs pid orc hr hen hpre ih =>
    exact schedEvInv_step (reach_einv s0 s hw hr.toOk.toReach) (reachOk_bufi s0 s hw hbuf hr.toOk)
      (reachOk_ati s0 s hw hbuf hr.toOk) ih hen orc

end Sys
end Topsim
