/-
  Freed1 — C07, the WHEN of the release, block level.

  One block of `allocate_tasks` for observation `o`, in ANY state:
  * every shipped algorithm (and the oracle) reports FINISHED on an empty plan and returns the
    leftover schedule it was given (`freed_runAlgorithm_nil`); queue / dynamic / greedy and the
    oracle cannot raise on an empty plan (`freed_runAlgorithm_nil_ok`);
  * when every remaining task of the plan is FINISHED in the task table, the pruning step empties
    the plan (`freed_prune_nil`), so the block hands the observation back to the buffer in this very
    round (`freed_iter_complete`, `freed_block_complete`, `freed_resume_complete`);
  * while some task of the plan is not FINISHED the block leaves buffer and queue alone
    (`freed_iter_running`, `freed_resume_running`).
-/
import TopsimProofs.FinishWf3
import TopsimProofs.LifeCycle8

namespace Topsim
namespace Sys

/-! ### the algorithms on an empty plan -/

theorem freed_batchRun_nil (cl : Cluster) (plan : Plan) (view : Tid → TaskView) (parts minPer : Nat)
    (split : Option (List (Oid × Nat × Nat))) (sched : List (Tid × Mid)) (pool : List Tid) (out : AlgOut)
    (hnil : plan.tasks = []) (h : Alg.batchRun cl plan view parts minPer split sched pool = .ok out) :
    out.status = .finished ∧ out.schedule = sched := by
  unfold Alg.batchRun at h
  split at h
  · exact absurd h (by simp)
  · rename_i cl1 prov hpr
    injection h with h
    subst h
    simp only [hnil, List.filter_nil, List.foldl_nil, Alg.finishStatus, List.length_nil, if_true]
    refine ⟨trivial, ?_⟩
    split <;> rfl

theorem freed_queueRun_nil (cl : Cluster) (plan : Plan) (view : Tid → TaskView)
    (sched : List (Tid × Mid)) (pool : List Tid) (out : AlgOut)
    (hnil : plan.tasks = []) (h : Alg.queueRun cl plan view sched pool = .ok out) :
    out.status = .finished ∧ out.schedule = sched := by
  unfold Alg.queueRun at h
  injection h with h
  subst h
  simp only [hnil, List.filter_nil, List.foldl_nil, Alg.finishStatus, List.length_nil, if_true]
  exact ⟨trivial, trivial⟩

theorem freed_dynamicRun_nil (cl : Cluster) (plan : Plan) (view : Tid → TaskView)
    (sched : List (Tid × Mid)) (pool : List Tid) (hnil : plan.tasks = []) :
    ∃ out, Alg.dynamicRun cl plan view sched pool = .ok out ∧ out.status = .finished ∧
      out.schedule = sched := by
  unfold Alg.dynamicRun
  simp only [hnil, List.filter_nil, List.mergeSort_nil, List.foldl_nil, Alg.finishStatus, List.length_nil,
    if_true]
  exact ⟨_, rfl, rfl, rfl⟩

theorem freed_greedyRun_nil (cl : Cluster) (plan : Plan) (view : Tid → TaskView)
    (sched : List (Tid × Mid)) (pool : List Tid) (hnil : plan.tasks = []) :
    ∃ out, Alg.greedyRun cl plan view sched pool = .ok out ∧ out.status = .finished ∧
      out.schedule = sched := by
  unfold Alg.greedyRun
  simp only [hnil, List.foldl_nil, Alg.finishStatus, List.length_nil, if_true]
  exact ⟨_, rfl, rfl, rfl⟩

/-- **Every algorithm reports FINISHED on an empty plan** and proposes nothing new: the four shipped
algorithms return the leftover schedule they were given; the oracle (a user algorithm) returns the
leftover schedule plus its own proposals. -/
theorem freed_runAlgorithm_nil (s : Sys) (orc : Oracle) (plan : Plan) (sc : List (Tid × Mid))
    (po : List Tid) (out : AlgOut) (hnil : plan.tasks = [])
    (h : s.runAlgorithm orc plan sc po = .ok out) :
    out.status = .finished ∧
    (s.alg ≠ .oracle → out.schedule = sc) ∧
    (s.alg = .oracle → out.schedule = orc.proposals.foldl (fun d p => dictSet d p.1 p.2) sc) := by
  unfold runAlgorithm at h
  split at h
  · rename_i parts minPer split halg
    obtain ⟨h1, h2⟩ := freed_batchRun_nil _ _ _ _ _ _ _ _ _ hnil h
    exact ⟨h1, fun _ => h2, fun e => by rw [halg] at e; cases e⟩
  · rename_i halg
    obtain ⟨h1, h2⟩ := freed_queueRun_nil _ _ _ _ _ _ hnil h
    exact ⟨h1, fun _ => h2, fun e => by rw [halg] at e; cases e⟩
  · rename_i halg
    obtain ⟨out', e, h1, h2⟩ := freed_dynamicRun_nil s.cl plan s.taskView sc po hnil
    rw [e] at h; injection h with h; subst h
    exact ⟨h1, fun _ => h2, fun e => by rw [halg] at e; cases e⟩
  · rename_i halg
    obtain ⟨out', e, h1, h2⟩ := freed_greedyRun_nil s.cl plan s.taskView sc po hnil
    rw [e] at h; injection h with h; subst h
    exact ⟨h1, fun _ => h2, fun e => by rw [halg] at e; cases e⟩
  · rename_i halg
    injection h with h
    subst h
    simp only [Alg.finishStatus, hnil, List.length_nil, if_true]
    exact ⟨trivial, fun hne => absurd halg hne, fun _ => trivial⟩

/-- queue, dynamic, greedy and the oracle cannot raise on an empty plan (BatchProcessing can: its
`_provision_resources` runs first) -/
theorem freed_runAlgorithm_nil_ok (s : Sys) (orc : Oracle) (plan : Plan) (sc : List (Tid × Mid))
    (po : List Tid) (hnil : plan.tasks = []) (halg : NoBatch s.alg ∨ s.alg = .oracle) :
    ∃ out, s.runAlgorithm orc plan sc po = .ok out := by
  unfold runAlgorithm
  rcases halg with (h | h | h) | h <;> rw [h] <;> simp only
  · exact ⟨_, rfl⟩
  · obtain ⟨out, e, _⟩ := freed_dynamicRun_nil s.cl plan s.taskView sc po hnil
    exact ⟨out, e⟩
  · obtain ⟨out, e, _⟩ := freed_greedyRun_nil s.cl plan s.taskView sc po hnil
    exact ⟨out, e⟩
  · exact ⟨_, rfl⟩

/-! ### the pruning step -/

theorem freed_plan?_updPlan (s : Sys) (o : Oid) (f : Plan → Plan) (hf : ∀ p, (f p).obs = p.obs) :
    (s.updPlan o f).plan? o = (s.plan? o).map f := by
  have := plan?_map s (s.updPlan o f) o f hf rfl o
  rw [this]
  cases h : s.plan? o with
  | none => rfl
  | some pl => simp [(plan?_mem h).2]

/-- the plan of `o` after `_update_current_plan`: the tasks without FINISHED record remain -/
theorem freed_prune_plan {s : Sys} {o : Oid} {pl : Plan} (hpl : s.plan? o = some pl) :
    (s.updateCurrentPlan o).plan? o =
      some { pl with tasks := pl.tasks.filter (fun t => (s.taskView t).status ≠ .finished) } := by
  have hplans := updateCurrentPlan_plans s o
  rw [hpl] at hplans
  simp only at hplans
  have := plan?_of_plans hplans o
  rw [this, freed_plan?_updPlan s o _ (by intro p; rfl), hpl]
  rfl

/-- **pruning empties a complete plan**: when every remaining task has a FINISHED record -/
theorem freed_prune_nil {s : Sys} {o : Oid} {pl : Plan} (hpl : s.plan? o = some pl)
    (hfin : ∀ t ∈ pl.tasks, tstat s t = .finished) :
    (s.updateCurrentPlan o).plan? o = some { pl with tasks := [] } := by
  rw [freed_prune_plan hpl]
  have : pl.tasks.filter (fun t => (s.taskView t).status ≠ .finished) = [] := by
    rw [List.filter_eq_nil_iff]
    intro t ht
    have := hfin t ht
    unfold tstat at this
    simp [this]
  rw [this]

theorem freed_atS4_buf (s3 : Sys) (n : Nat) (oid : Oid) : (atS4 s3 n oid).buf = s3.buf := rfl
theorem freed_atS4_queue (s3 : Sys) (n : Nat) (oid : Oid) : (atS4 s3 n oid).queue = s3.queue := rfl

/-! ### one iteration on a complete plan -/

/-- **One iteration of `allocate_tasks` on a complete workflow.**  The observation `o` is resident
as scheduled, it has a plan whose remaining tasks are all FINISHED in the task table, the process
carries no leftover proposal, and a user algorithm (oracle) proposes nothing.  Then the iteration
either raises, or it hands the observation back: it yields one time unit, the process enters its
final phase, the buffer is the buffer after `remove o`, and `o` leaves the queue. -/
theorem freed_iter_complete (a : Sys) (now : Time) (orc : Oracle) (o : Oid) (pa : List (Tid × Mid))
    (po : List Tid) (pl : Plan) (hpl : a.plan? o = some pl)
    (hfin : ∀ t ∈ pl.tasks, tstat a t = .finished)
    (horc : a.alg = .oracle → orc.proposals = []) (hin : o ∈ a.buf.hot.scheduled) :
    (∃ e, (a.allocTasksIter now orc o [] pa po).2.2 = .raised e) ∨
    ((a.allocTasksIter now orc o [] pa po).2.2 = .timeout 1 ∧
      (∃ po', (a.allocTasksIter now orc o [] pa po).2.1 = .allocTasks o [] pa po' true) ∧
      (a.allocTasksIter now orc o [] pa po).1.buf = (a.buf.remove o).1 ∧
      (a.allocTasksIter now orc o [] pa po).1.queue = a.queue.erase o ∧ o ∈ a.queue ∧
      (a.allocTasksIter now orc o [] pa po).1.procs = a.procs) := by
  have hprune := freed_prune_nil hpl hfin
  have halgU : (a.updateCurrentPlan o).alg = a.alg := updateCurrentPlan_alg a o
  have hout := allocTasksIter_out a now orc o [] pa po
  -- what the algorithm returns on the pruned plan
  have hres : ∀ plan out, (a.updateCurrentPlan o).plan? o = some plan →
      (a.updateCurrentPlan o).runAlgorithm orc plan [] po = .ok out →
      out.status = .finished ∧ out.schedule = [] := by
    intro plan out h1 h2
    rw [hprune] at h1
    injection h1 with h1
    obtain ⟨g1, g2, g3⟩ := freed_runAlgorithm_nil _ orc plan [] po out (by rw [← h1]) h2
    refine ⟨g1, ?_⟩
    by_cases ho : a.alg = .oracle
    · rw [g3 (halgU.trans ho), horc ho]; rfl
    · exact g2 (fun e => ho (halgU.symm.trans e))
  have hbuf4 : ∀ out : AlgOut, (atS4 (atS3 (a.updateCurrentPlan o) out o) (natNow now) o).buf = a.buf := by
    intro out; rw [freed_atS4_buf, atS3_buf, updateCurrentPlan_buf]
  have hq3 : ∀ out : AlgOut, (atS3 (a.updateCurrentPlan o) out o).queue = a.queue := by
    intro out; rw [atS3_queue, updateCurrentPlan_queue]
  generalize a.allocTasksIter now orc o [] pa po = r at hout
  cases hout with
  | noPlan _ => exact Or.inl ⟨_, rfl⟩
  | algErr plan e _ _ => exact Or.inl ⟨_, rfl⟩
  | finish plan out h1 h2 h3 h4 h5 h6 =>
    right
    obtain ⟨_, g2⟩ := hres plan out h1 h2
    refine ⟨rfl, ⟨out.pool, by simp only [g2]⟩, ?_, ?_, ?_, ?_⟩
    · show ((atS4 (atS3 (a.updateCurrentPlan o) out o) (natNow now) o).buf.remove o).1 = _
      rw [hbuf4]
    · show (atS4 (atS3 (a.updateCurrentPlan o) out o) (natNow now) o).queue.erase o = _
      rw [freed_atS4_queue, hq3]
    · rw [← hq3 out]; exact h6
    · show (atS3 (a.updateCurrentPlan o) out o).procs = _
      rw [atS3_procs, (updateCurrentPlan_core a o).procs]
  | finishBad plan out _ _ _ _ _ _ => exact Or.inl ⟨_, rfl⟩
  | finishWait plan out h1 h2 h3 h4 h5 =>
    exfalso
    rw [hbuf4] at h5
    unfold Buffer.remove at h5
    simp [hin] at h5
  | idle plan out h1 h2 h3 h4 => exact absurd (hres plan out h1 h2).1 h4
  | alloc plan out y h1 h2 h3 _ =>
    exfalso
    rw [(hres plan out h1 h2).2] at h3
    simp at h3

/-- on a complete plan, with queue / dynamic / greedy, or an oracle that proposes nothing, and the
observation queued, the iteration cannot raise -/
theorem freed_iter_complete_noraise (a : Sys) (now : Time) (orc : Oracle) (o : Oid) (pa : List (Tid × Mid))
    (po : List Tid) (pl : Plan) (hpl : a.plan? o = some pl)
    (hfin : ∀ t ∈ pl.tasks, tstat a t = .finished)
    (halg : NoBatch a.alg ∨ (a.alg = .oracle ∧ orc.proposals = [])) (hq : o ∈ a.queue) :
    ∀ e, (a.allocTasksIter now orc o [] pa po).2.2 ≠ .raised e := by
  have hprune := freed_prune_nil hpl hfin
  have halgU : (a.updateCurrentPlan o).alg = a.alg := updateCurrentPlan_alg a o
  have hout := allocTasksIter_out a now orc o [] pa po
  have hq3 : ∀ out : AlgOut, (atS3 (a.updateCurrentPlan o) out o).queue = a.queue := by
    intro out; rw [atS3_queue, updateCurrentPlan_queue]
  have halg' : NoBatch a.alg ∨ a.alg = .oracle := by
    rcases halg with h | ⟨h, _⟩
    · exact Or.inl h
    · exact Or.inr h
  generalize a.allocTasksIter now orc o [] pa po = r at hout
  intro e he
  cases hout with
  | noPlan h1 => rw [hprune] at h1; cases h1
  | algErr plan e' h1 h2 =>
    rw [hprune] at h1
    injection h1 with h1
    obtain ⟨out, hok⟩ := freed_runAlgorithm_nil_ok (a.updateCurrentPlan o) orc plan [] po (by rw [← h1])
      (by rw [halgU]; exact halg')
    rw [hok] at h2; cases h2
  | finish plan out _ _ _ _ _ _ => cases he
  | finishBad plan out _ _ _ _ _ h6 => rw [hq3] at h6; exact h6 hq
  | finishWait plan out _ _ _ _ _ => cases he
  | idle plan out _ _ _ _ => cases he
  | alloc plan out y h1 h2 h3 hy =>
    rw [hprune] at h1
    injection h1 with h1
    obtain ⟨g1, g2, g3⟩ := freed_runAlgorithm_nil _ orc plan [] po out (by rw [← h1]) h2
    rcases halg with hnb | ⟨ho, hp⟩
    · have hne : (a.updateCurrentPlan o).alg ≠ .oracle := by
        rw [halgU]; rcases hnb with h | h | h <;> rw [h] <;> simp
      rw [g2 hne] at h3; simp at h3
    · rw [g3 (halgU.trans ho), hp] at h3; simp at h3

/-! ### one iteration on a plan with an unfinished task -/

/-- **The converse guard.**  While some task of the plan has no FINISHED record (and the plan is not
marked FINISHED), an iteration of `allocate_tasks` leaves the buffer and the queue alone, whatever
the algorithm returns and whether or not the iteration raises. -/
theorem freed_iter_running (a : Sys) (now : Time) (orc : Oracle) (o : Oid) (sc pa : List (Tid × Mid))
    (po : List Tid) (pl : Plan) (hpl : a.plan? o = some pl)
    (hun : ∃ t ∈ pl.tasks, tstat a t ≠ .finished) (hst : pl.status ≠ .finished) :
    (a.allocTasksIter now orc o sc pa po).1.buf = a.buf ∧
    (a.allocTasksIter now orc o sc pa po).1.queue = a.queue := by
  have hprune := freed_prune_plan hpl
  have hout := allocTasksIter_out a now orc o sc pa po
  have hnofin : ∀ plan out, (a.updateCurrentPlan o).plan? o = some plan →
      (a.updateCurrentPlan o).runAlgorithm orc plan sc po = .ok out → out.status ≠ .finished := by
    intro plan out h1 h2 hf
    rw [hprune] at h1
    injection h1 with h1
    rcases runAlgorithm_finished _ orc plan sc po out h2 hf with h | h
    · obtain ⟨t, ht, hts⟩ := hun
      rw [← h1] at h
      simp only at h
      have : t ∈ pl.tasks.filter (fun t => (a.taskView t).status ≠ .finished) :=
        List.mem_filter.mpr ⟨ht, by simpa [tstat] using hts⟩
      rw [h] at this; simp at this
    · rw [← h1] at h; exact hst h
  generalize a.allocTasksIter now orc o sc pa po = r at hout
  cases hout with
  | noPlan _ => exact ⟨updateCurrentPlan_buf a o, updateCurrentPlan_queue a o⟩
  | algErr plan e _ _ => exact ⟨updateCurrentPlan_buf a o, updateCurrentPlan_queue a o⟩
  | finish plan out h1 h2 _ h4 _ _ => exact absurd h4 (hnofin plan out h1 h2)
  | finishBad plan out h1 h2 _ h4 _ _ => exact absurd h4 (hnofin plan out h1 h2)
  | finishWait plan out h1 h2 _ h4 _ => exact absurd h4 (hnofin plan out h1 h2)
  | idle plan out _ _ _ _ =>
    exact ⟨by rw [atS3_buf, updateCurrentPlan_buf], by rw [atS3_queue, updateCurrentPlan_queue]⟩
  | alloc plan out y _ _ _ _ =>
    exact ⟨by rw [processCurrentSchedule_buf, atS3_buf, updateCurrentPlan_buf],
      by rw [processCurrentSchedule_queue, atS3_queue, updateCurrentPlan_queue]⟩

/-! ### the whole block (first block included) -/

/-- the plan of `o` in the state in which the iteration starts -/
theorem freed_atStart_plan (s : Sys) (now : Time) (pc : Nat) (o : Oid) {pl : Plan}
    (hpl : s.plan? o = some pl) :
    ∃ pl', (atStart s now pc o).plan? o = some pl' ∧ pl'.tasks = pl.tasks ∧ pl'.status = pl.status := by
  rcases atStart_plans s now pc o with h | h
  · exact ⟨pl, by rw [plan?_of_plans h o]; exact hpl, rfl, rfl⟩
  · refine ⟨{ pl with ast := some (natNow now) }, ?_, rfl, rfl⟩
    rw [plan?_of_plans h o, freed_plan?_updPlan s o _ (by intro p; rfl), hpl]
    rfl

/-- **(1), as a block of `allocate_tasks`.** -/
theorem freed_block_complete (s : Sys) (now : Time) (orc : Oracle) (pc : Nat) (o : Oid)
    (pa : List (Tid × Mid)) (po : List Tid) (pl : Plan) (hpl : s.plan? o = some pl)
    (hfin : ∀ t ∈ pl.tasks, tstat s t = .finished)
    (horc : s.alg = .oracle → orc.proposals = []) (hin : o ∈ s.buf.hot.scheduled) :
    (∃ e, (s.allocTasksBlock now orc pc o [] pa po false).2.2 = .raised e) ∨
    ((s.allocTasksBlock now orc pc o [] pa po false).2.2 = .timeout 1 ∧
      (∃ po', (s.allocTasksBlock now orc pc o [] pa po false).2.1 = .allocTasks o [] pa po' true) ∧
      (s.allocTasksBlock now orc pc o [] pa po false).1.buf = (s.buf.remove o).1 ∧
      (s.allocTasksBlock now orc pc o [] pa po false).1.queue = s.queue.erase o ∧ o ∈ s.queue ∧
      (s.allocTasksBlock now orc pc o [] pa po false).1.procs = s.procs) := by
  rw [allocTasksBlock_eq]
  obtain ⟨pl', h1, h2, _⟩ := freed_atStart_plan s now pc o hpl
  have := freed_iter_complete (atStart s now pc o) now orc o pa po pl' h1
    (fun t ht => by rw [atStart_tstat]; exact hfin t (h2 ▸ ht))
    (fun e => horc ((atStart_alg s now pc o).symm.trans e))
    (by rw [atStart_buf]; exact hin)
  rw [atStart_buf, atStart_queue, atStart_procs] at this
  exact this

theorem freed_block_complete_noraise (s : Sys) (now : Time) (orc : Oracle) (pc : Nat) (o : Oid)
    (pa : List (Tid × Mid)) (po : List Tid) (pl : Plan) (hpl : s.plan? o = some pl)
    (hfin : ∀ t ∈ pl.tasks, tstat s t = .finished)
    (halg : NoBatch s.alg ∨ (s.alg = .oracle ∧ orc.proposals = [])) (hq : o ∈ s.queue) :
    ∀ e, (s.allocTasksBlock now orc pc o [] pa po false).2.2 ≠ .raised e := by
  rw [allocTasksBlock_eq]
  obtain ⟨pl', h1, h2, _⟩ := freed_atStart_plan s now pc o hpl
  exact freed_iter_complete_noraise (atStart s now pc o) now orc o pa po pl' h1
    (fun t ht => by rw [atStart_tstat]; exact hfin t (h2 ▸ ht))
    (by rw [atStart_alg]; exact halg) (by rw [atStart_queue]; exact hq)

theorem freed_block_running (s : Sys) (now : Time) (orc : Oracle) (pc : Nat) (o : Oid)
    (sc pa : List (Tid × Mid)) (po : List Tid) (fn : Bool) (pl : Plan) (hpl : s.plan? o = some pl)
    (hun : ∃ t ∈ pl.tasks, tstat s t ≠ .finished) (hst : pl.status ≠ .finished) :
    (s.allocTasksBlock now orc pc o sc pa po fn).1.buf = s.buf ∧
    (s.allocTasksBlock now orc pc o sc pa po fn).1.queue = s.queue := by
  cases fn with
  | true => rw [allocTasksBlock_fin]; exact ⟨rfl, rfl⟩
  | false =>
    rw [allocTasksBlock_eq]
    obtain ⟨pl', h1, h2, h3⟩ := freed_atStart_plan s now pc o hpl
    obtain ⟨t, ht, hts⟩ := hun
    have := freed_iter_running (atStart s now pc o) now orc o sc pa po pl' h1
      ⟨t, h2 ▸ ht, by rw [atStart_tstat]; exact hts⟩ (by rw [h3]; exact hst)
    rw [atStart_buf, atStart_queue] at this
    exact this

/-! ### in terms of `resume` -/

theorem freed_resume_yield (s : Sys) (pid : Nat) (orc : Oracle) (p : Proc) (hp : s.proc? pid = some p)
    (ha : p.alive = true) : (s.resume pid orc).2 = (s.block p orc).2.2 := by
  unfold resume
  simp only [hp, ha, Bool.not_true, Bool.false_eq_true, if_false]
  generalize s.block p orc = r
  obtain ⟨s1, k, y⟩ := r
  cases y <;> rfl

/-- the entry of the process that ran, when its block yields a timeout -/
theorem freed_resume_proc (s : Sys) (pid : Nat) (orc : Oracle) (p : Proc) (hp : s.proc? pid = some p)
    (ha : p.alive = true) (d : Time) (hy : (s.block p orc).2.2 = .timeout d)
    (hpre : (s.block p orc).1.proc? pid = some p) :
    (s.resume pid orc).1.proc? pid =
      some { p with k := (s.block p orc).2.1, pc := p.pc + 1, wake := p.wake + d } := by
  unfold resume
  simp only [hp, ha, Bool.not_true, Bool.false_eq_true, if_false]
  generalize s.block p orc = r at hy hpre
  obtain ⟨s1, k, y⟩ := r
  simp only at hy hpre
  subst hy
  simp only
  have hpid : p.pid = pid := (proc?_some hp).2
  unfold proc? updProc
  simp only
  have := find?_map_upd (fun q : Proc => q.pid) s1.procs pid pid
    (fun q => { q with k := k, pc := q.pc + 1, wake := p.wake + d }) (fun _ => rfl)
  rw [this]
  unfold proc? at hpre
  rw [hpre]
  simp [hpid, ha]

/-- what `HotBuffer.remove` does to a scheduled observation -/
theorem freed_remove_spec (b : Buffer) (o : Oid) (hin : o ∈ b.hot.scheduled) :
    (b.remove o).1.hot.cur = b.hot.cur + b.sizeOf o ∧
    (b.remove o).1.hot.finished = b.hot.finished ++ [o] ∧
    (b.remove o).1.hot.scheduled = b.hot.scheduled.erase o ∧
    (b.remove o).1.hot.total = b.hot.total ∧ (b.remove o).1.hot.stored = b.hot.stored ∧
    (b.remove o).1.cold = b.cold ∧ (b.remove o).1.size = b.size := by
  unfold Buffer.remove
  simp [hin]

/-- **(1), in terms of `resume`.**  Process `pid` is a live `allocate_tasks` process of observation
`o` with no leftover proposal; `o` is resident as scheduled and has a plan whose remaining tasks all
have a FINISHED record; a user algorithm proposes nothing.  If the block does not raise, then it
yields one time unit, the buffer is the buffer after `remove o`, `o` has left the queue (one
occurrence erased), and the process is in its final phase (`fin = true`), due one unit later. -/
theorem freed_resume_complete (s : Sys) (pid : Nat) (orc : Oracle) (p : Proc) (o : Oid)
    (pa : List (Tid × Mid)) (po : List Tid) (pl : Plan)
    (hp : s.proc? pid = some p) (ha : p.alive = true) (hk : p.k = .allocTasks o [] pa po false)
    (hpl : s.plan? o = some pl) (hfin : ∀ t ∈ pl.tasks, tstat s t = .finished)
    (horc : s.alg = .oracle → orc.proposals = []) (hin : o ∈ s.buf.hot.scheduled)
    (hnr : ∀ e, (s.resume pid orc).2 ≠ .raised e) :
    (s.resume pid orc).2 = .timeout 1 ∧
    (s.resume pid orc).1.buf = (s.buf.remove o).1 ∧
    (s.resume pid orc).1.queue = s.queue.erase o ∧ o ∈ s.queue ∧
    ∃ po', (s.resume pid orc).1.proc? pid =
      some { p with k := .allocTasks o [] pa po' true, pc := p.pc + 1, wake := p.wake + 1 } := by
  have hy := freed_resume_yield s pid orc p hp ha
  have hb := block_allocTasks (s := s) orc hk
  rcases freed_block_complete s p.wake orc p.pc o pa po pl hpl hfin horc hin with ⟨e, he⟩ | ⟨h1, ⟨po', h2⟩, h3, h4, h5, h6⟩
  · exfalso
    apply hnr e
    rw [hy, hb]; exact he
  · rw [← hb] at h1 h2 h3 h4 h6
    refine ⟨by rw [hy]; exact h1, by rw [resume_buf s pid orc p hp ha]; exact h3,
      by rw [resume_queue s pid orc p hp ha]; exact h4, h5, po', ?_⟩
    have := freed_resume_proc s pid orc p hp ha 1 h1 (by unfold proc?; rw [h6]; exact hp)
    rw [this, h2]

/-- with queue / dynamic / greedy, or an oracle that proposes nothing, and the observation queued,
the completing block does not raise -/
theorem freed_resume_complete_noraise (s : Sys) (pid : Nat) (orc : Oracle) (p : Proc) (o : Oid)
    (pa : List (Tid × Mid)) (po : List Tid) (pl : Plan)
    (hp : s.proc? pid = some p) (ha : p.alive = true) (hk : p.k = .allocTasks o [] pa po false)
    (hpl : s.plan? o = some pl) (hfin : ∀ t ∈ pl.tasks, tstat s t = .finished)
    (halg : NoBatch s.alg ∨ (s.alg = .oracle ∧ orc.proposals = [])) (hq : o ∈ s.queue) :
    ∀ e, (s.resume pid orc).2 ≠ .raised e := by
  intro e he
  rw [freed_resume_yield s pid orc p hp ha, block_allocTasks (s := s) orc hk] at he
  exact freed_block_complete_noraise s p.wake orc p.pc o pa po pl hpl hfin halg hq e he

/-- **The converse guard, in terms of `resume`** — any process, any state.  While some task of the
plan of `o` has no FINISHED record (and the plan is not marked FINISHED), no block moves `o` to the
removed observations, and the block of `o`'s own `allocate_tasks` process leaves the whole buffer
and the queue as they are. -/
theorem freed_resume_running (s : Sys) (pid : Nat) (orc : Oracle) (o : Oid) (pl : Plan)
    (hpl : s.plan? o = some pl) (hun : ∃ t ∈ pl.tasks, tstat s t ≠ .finished)
    (hst : pl.status ≠ .finished) :
    (o ∈ (s.resume pid orc).1.buf.hot.finished → o ∈ s.buf.hot.finished) ∧
    (∀ p sc pa po fn, s.proc? pid = some p → p.k = .allocTasks o sc pa po fn →
      (s.resume pid orc).1.buf = s.buf ∧ (s.resume pid orc).1.queue = s.queue) := by
  have own : ∀ p sc pa po fn, s.proc? pid = some p → p.k = .allocTasks o sc pa po fn →
      (s.resume pid orc).1.buf = s.buf ∧ (s.resume pid orc).1.queue = s.queue := by
    intro p sc pa po fn hp hk
    cases ha : p.alive with
    | false =>
      have : (s.resume pid orc).1 = s := by unfold resume; simp [hp, ha]
      rw [this]; exact ⟨rfl, rfl⟩
    | true =>
      rw [resume_buf s pid orc p hp ha, resume_queue s pid orc p hp ha, block_allocTasks (s := s) orc hk]
      exact freed_block_running s p.wake orc p.pc o sc pa po fn pl hpl hun hst
  refine ⟨?_, own⟩
  intro hafter
  cases hp : s.proc? pid with
  | none =>
    have : (s.resume pid orc).1 = s := by unfold resume; simp [hp]
    rw [this] at hafter; exact hafter
  | some p =>
    cases ha : p.alive with
    | false =>
      have : (s.resume pid orc).1 = s := by unfold resume; simp [hp, ha]
      rw [this] at hafter; exact hafter
    | true =>
      rw [resume_buf s pid orc p hp ha] at hafter
      rcases (block_hot s p orc).2.2 o hafter with h | ⟨sc, pa, po, hk⟩
      · exact h
      · have := (own p sc pa po false hp hk).1
        rw [resume_buf s pid orc p hp ha] at this
        rw [this] at hafter; exact hafter

/-- the final phase: a process with `fin = true` ends at its next block and changes nothing -/
theorem freed_resume_final (s : Sys) (pid : Nat) (orc : Oracle) (p : Proc) (o : Oid)
    (sc pa : List (Tid × Mid)) (po : List Tid)
    (hp : s.proc? pid = some p) (ha : p.alive = true) (hk : p.k = .allocTasks o sc pa po true) :
    (s.resume pid orc).2 = .done ∧ (s.resume pid orc).1.buf = s.buf ∧
    (s.resume pid orc).1.queue = s.queue := by
  have hb : s.block p orc = (s, .allocTasks o sc pa po true, .done) := by
    rw [block_allocTasks (s := s) orc hk, allocTasksBlock_fin]
  refine ⟨by rw [freed_resume_yield s pid orc p hp ha, hb],
    by rw [resume_buf s pid orc p hp ha, hb], by rw [resume_queue s pid orc p hp ha, hb]⟩

end Sys
end Topsim
