/-
  Live17f — T8: a block of an `allocate_tasks` process does not raise (QueueProcessing), from the
  invariants of the state in which it runs: `RI` (queue, plan, UNSCHEDULED leftover schedule),
  `NcP` (`pairs`), `PR` / `PX` / `ST` (ready tasks, predecessors of one observation and clock), `FI`.
-/
import TopsimProofs.Live17e
import TopsimProofs.Preced12
import TopsimProofs.Preced13
import TopsimProofs.PlanFollow1

namespace Topsim
namespace Sys

open Cluster

/-! ### the loop of `_process_current_schedule` -/

/-- what one iteration leaves alone: the records of the other tasks, the machine table, the
schedule entries of the other tasks -/
theorem nc_processOne_frame (now : Time) (oid : Oid) (st : PcsSt) (x : Tid) :
    (∀ t, t ≠ x → (processOne now oid st x).s.task? t = st.s.task? t) ∧
    (processOne now oid st x).s.machines = st.s.machines ∧
    (∀ t, t ≠ x → dictGet (processOne now oid st x).schedule t = dictGet st.schedule t) := by
  refine ⟨?_, processOne_machs now oid st x, ?_⟩
  · intro t hne
    have hua : ∀ s1, UA st.s x s1 → s1.task? t = st.s.task? t := by
      intro s1 h
      rcases h with rfl | ⟨mm, rfl⟩
      · rfl
      · exact task?_updTask_ne st.s _ (fun r => updateAllocation_id r mm) hne
    rcases processOne_cases2 now oid st x with ⟨s1, h1, hs, _⟩ | ⟨s1, m, r, h1, _, _, _, hs, _⟩
    · rw [hs]; exact hua s1 h1
    · rw [hs]
      refine (task?_updTask_ne _ (fun r : TaskRec => { r with status := .scheduled }) (fun _ => rfl) hne).trans ?_
      exact hua s1 h1
  · intro t hne
    rcases processOne_cases2 now oid st x with ⟨s1, _, _, hsc⟩ | ⟨s1, m, r, _, _, _, _, _, hsc⟩
    · rw [hsc]
    · rw [hsc]; exact dictGet_dictErase_ne st.schedule x t hne

/-- what is known of a key of the schedule that the loop has not reached yet -/
def NcKey (st : PcsSt) (t : Tid) : Prop :=
  ∃ m r mm, dictGet st.schedule t = some m ∧ st.s.task? t = some r ∧ st.s.machine? m = some mm ∧
    0 < mm.cpu ∧ 0 < mm.bw ∧ r.status = .unscheduled ∧ ∀ q ∈ r.preds, dictHas st.pairs q = true

theorem nc_processOne_err (now : Time) (oid : Oid) (st : PcsSt) (x : Tid) (herr : st.err = none)
    (hx : NcKey st x) : (processOne now oid st x).err = none := by
  obtain ⟨m, r, mm, hm, hr, hmm, hcpu, hbw, hst, hpr⟩ := hx
  unfold processOne
  simp only [herr, hm, hr, hmm]
  have hz : ¬ ((r.allocObj || r.planned != some m) = true ∧ (mm.cpu = 0 ∨ mm.bw = 0)) := by
    intro h; omega
  simp only [hz, if_false]
  have hmiss : ¬ ((r.preds.any fun p => !dictHas (dictSet st.pairs x m) p) = true) := by
    intro h
    obtain ⟨q, hq, hq'⟩ := List.any_eq_true.mp h
    have := nc_dictHas_dictSet st.pairs x q m (hpr q hq)
    rw [this] at hq'
    simp at hq'
  have hst' : ¬ (r.status ≠ TStatus.unscheduled) := by rw [hst]; simp
  split <;> split <;> first | rfl | (rw [if_neg hmiss, if_neg hst'])

theorem nc_processOne_keys (now : Time) (oid : Oid) (st : PcsSt) (x : Tid) {t : Tid} (hne : t ≠ x)
    (ht : NcKey st t) : NcKey (processOne now oid st x) t := by
  obtain ⟨m, r, mm, hm, hr, hmm, hcpu, hbw, hst, hpr⟩ := ht
  obtain ⟨f1, f2, f3⟩ := nc_processOne_frame now oid st x
  refine ⟨m, r, mm, by rw [f3 t hne]; exact hm, by rw [f1 t hne]; exact hr,
    by rw [machine?_congr f2]; exact hmm, hcpu, hbw, hst, ?_⟩
  intro q hq
  exact (nc_processOne_pairs now oid st x).1 q (hpr q hq)

theorem nc_fold_err (now : Time) (oid : Oid) : ∀ (l : List Tid) (st : PcsSt), l.Nodup → st.err = none →
    (∀ t ∈ l, NcKey st t) → (l.foldl (processOne now oid) st).err = none := by
  intro l
  induction l with
  | nil => intro st _ h _; exact h
  | cons x r ih =>
    intro st hnd herr hk
    rw [List.nodup_cons] at hnd
    simp only [List.foldl_cons]
    apply ih _ hnd.2 (nc_processOne_err now oid st x herr (hk x (by simp)))
    intro t ht
    exact nc_processOne_keys now oid st x (fun e => hnd.1 (e ▸ ht)) (hk t (List.mem_cons_of_mem _ ht))

theorem nc_pcs_err (a : Sys) (now : Time) (oid : Oid) (sched0 pairs0 : List (Tid × Mid))
    (hnd : (dictKeys sched0).Nodup)
    (hk : ∀ t ∈ dictKeys sched0, NcKey { s := a, schedule := sched0, pairs := pairs0, curr := [] } t) :
    (processCurrentSchedule a now oid sched0 pairs0).err = none := by
  unfold processCurrentSchedule
  simp only
  apply nc_fold_err
  · exact (List.mergeSort_perm _ _).nodup_iff.mpr hnd
  · rfl
  · intro t ht
    exact hk t (List.mem_mergeSort.mp ht)

/-! ### one iteration -/

theorem nc_allocTasksIter_nr (a : Sys) (now : Time) (orc : Oracle) (oid : Oid) (sc pa : List (Tid × Mid))
    (po : List Tid) (hplan : ((a.updateCurrentPlan oid).plan? oid).isSome = true)
    (halg : (a.updateCurrentPlan oid).alg = .queue) (hq : oid ∈ (a.updateCurrentPlan oid).queue)
    (herr : ∀ plan out, (a.updateCurrentPlan oid).plan? oid = some plan →
      (a.updateCurrentPlan oid).runAlgorithm orc plan sc po = .ok out → out.schedule.isEmpty = false →
      (processCurrentSchedule (atS3 (a.updateCurrentPlan oid) out oid) now oid out.schedule pa).err = none) :
    ∀ err, (a.allocTasksIter now orc oid sc pa po).2.2 ≠ .raised err := by
  intro err
  obtain ⟨plan, hpl⟩ := Option.isSome_iff_exists.mp hplan
  unfold allocTasksIter
  simp only
  rw [hpl]
  simp only
  cases hrun : (a.updateCurrentPlan oid).runAlgorithm orc plan sc po with
  | error e =>
    exfalso
    unfold runAlgorithm at hrun
    rw [halg] at hrun
    simp [Alg.queueRun] at hrun
  | ok out =>
    simp only
    have hs3 : (if out.status = WStatus.delayed then
        { (({ (a.updateCurrentPlan oid) with cl := out.cl }).updPlan oid (fun p => { p with status := out.status })) with schedDelayed := true }
        else ({ (a.updateCurrentPlan oid) with cl := out.cl }).updPlan oid (fun p => { p with status := out.status }))
        = atS3 (a.updateCurrentPlan oid) out oid := rfl
    rw [hs3]
    by_cases hemp : out.schedule.isEmpty = true
    · by_cases hfin : out.status = .finished
      · simp only [hemp, hfin, and_self, if_true]
        have hs4 : ((atS3 (a.updateCurrentPlan oid) out oid).addSch ⟨natNow now, oid, .allocStopped⟩).addBuf
            ⟨natNow now, oid, .bufRemoved⟩ = atS4 (atS3 (a.updateCurrentPlan oid) out oid) (natNow now) oid := rfl
        rw [hs4]
        cases hrem : ((atS4 (atS3 (a.updateCurrentPlan oid) out oid) (natNow now) oid).buf.remove oid) with
        | mk b1 flag =>
          cases flag with
          | true =>
            simp only
            have hq' : oid ∈ (atS4 (atS3 (a.updateCurrentPlan oid) out oid) (natNow now) oid).queue := by
              show oid ∈ (atS3 (a.updateCurrentPlan oid) out oid).queue
              rw [atS3_queue]; exact hq
            simp only [hq', if_true]
            simp
          | false => simp
      · simp only [hemp, hfin, and_false, if_false, if_true]
        simp
    · have hemp' : out.schedule.isEmpty = false := by simpa using hemp
      simp only [hemp', Bool.false_eq_true, false_and, if_false]
      rw [herr plan out hpl hrun hemp']
      simp

/-! ### one block -/

theorem nc_allocTasks_nr {s : Sys} (hs : SInv s) (hri : RI s) (hnp : NcP s) (hpr : PR s) (hpx : PX s)
    (hst : ST s) (hfi : FI s) (halg : s.alg = .queue)
    (hmach : ∀ m ∈ s.cl.machines, ∃ mm, s.machine? m = some mm ∧ 0 < mm.cpu ∧ 0 < mm.bw)
    {p : Proc} (hp : p ∈ s.procs) (ha : p.alive = true) {oid : Oid} {sc pa : List (Tid × Mid)}
    {po : List Tid} {fn : Bool} (hk : p.k = .allocTasks oid sc pa po fn) (orc : Oracle) :
    ∀ err, (s.block p orc).2.2 ≠ .raised err := by
  rw [block_allocTasks orc hk]
  cases fn with
  | true =>
    rw [allocTasksBlock_fin]
    intro err h; cases h
  | false =>
    rw [allocTasksBlock_eq]
    obtain ⟨U, hU⟩ := hs.ci
    obtain ⟨h1, e_procs, e_np, e_q, e_cl, e_alg, e_ts⟩ := hri.pruned p.wake p.pc oid
    have hp1 : p ∈ ((atStart s p.wake p.pc oid).updateCurrentPlan oid).procs := by rw [e_procs]; exact hp
    have hinv1 : Cluster.Inv ((atStart s p.wake p.pc oid).updateCurrentPlan oid).cl U := by rw [e_cl]; exact hU.inv
    obtain ⟨hq1, hpl1⟩ := h1.atsQ p hp1 ha oid sc pa po hk
    have halg1 : ((atStart s p.wake p.pc oid).updateCurrentPlan oid).alg = .queue := e_alg.trans halg
    have hno1 : ((atStart s p.wake p.pc oid).updateCurrentPlan oid).alg ≠ .oracle := by rw [halg1]; simp
    -- the states: `s`, the state `s1` in which the algorithm runs, the state `a3` in which the loop starts
    have hQ01 : QuietB s ((atStart s p.wake p.pc oid).updateCurrentPlan oid) :=
      (quietB_atStart s p.wake p.pc oid).trans (quietB_updateCurrentPlan _ oid)
    have hst1 : ST ((atStart s p.wake p.pc oid).updateCurrentPlan oid) := hQ01.st hst
    have hm1 : ((atStart s p.wake p.pc oid).updateCurrentPlan oid).machines = s.machines :=
      (updateCurrentPlan_machs _ oid).trans (atStart_machs _ _ _ _)
    refine nc_allocTasksIter_nr _ _ _ _ _ _ _ hpl1 halg1 hq1 ?_
    intro plan out hplan hrun hemp
    generalize hs1 : (atStart s p.wake p.pc oid).updateCurrentPlan oid = s1 at *
    have hqr : Alg.queueRun s1.cl plan s1.taskView sc po = .ok out := by
      have := hrun
      unfold runAlgorithm at this
      rw [halg1] at this
      exact this
    obtain ⟨h3, _, _, g4, g5, _⟩ := h1.nc_afterQueue hinv1 hp1 ha hk plan hplan out hqr
    obtain ⟨_, _, _, _, hsched⟩ := nc_queueRun_facts _ _ _ _ _ _ hqr
    have hQ13 : QuietB s1 (atS3 s1 out oid) :=
      quietB_atS3 s1 out oid (runAlgorithm_finished_eq s1 orc plan sc po out hno1 hrun)
    have hQ03 : QuietB s (atS3 s1 out oid) := hQ01.trans hQ13
    have hprop := proposals_ready hst1 hno1 orc oid plan hplan sc po out hrun
    apply nc_pcs_err _ _ _ _ _ g4
    intro t ht
    -- the entry of the schedule
    have hsome : ∃ m, dictGet out.schedule t = some m := by
      cases hd : dictGet out.schedule t with
      | none => exact absurd ht ((dictGet_none_iff _ _).mp hd)
      | some m => exact ⟨m, rfl⟩
    obtain ⟨m, hm⟩ := hsome
    have hmem : (t, m) ∈ out.schedule := dictGet_some_mem hm
    -- its machine
    have hmc : m ∈ s.cl.machines := by
      rcases hsched (t, m) hmem with h2 | h2
      · exact hnp.scM p hp oid sc pa po false hk (t, m) h2
      · rw [e_cl] at h2
        exact nc_avail_machine hU.inv h2
    obtain ⟨mm, hmm, hcpu, hbw⟩ := hmach m hmc
    have hmm3 : (atS3 s1 out oid).machine? m = some mm := by
      rw [machine?_congr ((atS3_machs s1 out oid).trans hm1)]; exact hmm
    -- its record
    have hrdy : Rdy (atS3 s1 out oid) t := by
      rcases hprop t ht with h2 | h2
      · exact hQ03.rdy (hpr.schedRdy p hp oid sc pa po false hk t h2)
      · exact hQ13.rdy h2.1
    obtain ⟨r3, hr3, hpreds⟩ := hrdy
    obtain ⟨hpt, hun⟩ := g5 t ht
    have hstat : r3.status = .unscheduled := by
      have h2 : tstat (atS3 s1 out oid) t = .unscheduled := by rw [atS3_tstat]; exact hun
      rw [tstat_eq, hr3] at h2
      exact h2
    obtain ⟨c, n, htwf⟩ := planTasks_wf h1.pt hpt
    -- the record in `s`
    have hrs : ∃ rs, s.task? t = some rs ∧ rs.preds = r3.preds := by
      rcases hQ03.task.bwd hr3 with ⟨rs, hrs, hkk⟩ | ⟨h0, _⟩
      · exact ⟨rs, hrs, hkk.shape.preds.symm⟩
      · exfalso
        have := hQ03.newIng t r3 h0 hr3
        rw [htwf] at this
        simp [Tid.isIngest] at this
    obtain ⟨rs, hrs, hrsp⟩ := hrs
    refine ⟨m, r3, mm, hm, hr3, hmm3, hcpu, hbw, hstat, ?_⟩
    intro q hq
    obtain ⟨hqw, hqf⟩ := hpreds q hq
    have hqf0 : FinT s q := (finT_congr hQ03.fin q).mp hqf
    -- the predecessor has run: it has a body, hence an allocation process
    have hstart := hfi.finRan q hqf0
    obtain ⟨d, hd, md, pd, phd, totd, hdk, _⟩ := hs.dg.startsDw q hstart
    obtain ⟨a, ha1, m', preds', obs, ing, ret, hak⟩ := hnp.dwAT d hd _ _ _ _ _ hdk
    cases ing with
    | true =>
      exfalso
      have := hnp.atIng a ha1 _ _ _ _ _ hak
      rw [isWf_not_ingest hqw] at this
      cases this
    | false =>
      obtain ⟨o1, c1, n1, e1, e2⟩ := hpx.atObs a ha1 _ _ _ _ _ hak
      obtain ⟨u, e3⟩ := hpx.predObs t rs hrs oid c n htwf q (by rw [hrsp]; exact hq)
      rw [e2] at e3
      injection e3 with e4 _ _
      subst e4
      subst e1
      exact hnp.atPairs a ha1 q m' preds' o1 ret hak p hp ha sc pa po hk

end Sys
end Topsim
