/-
  PlanTraj4 — the plan queries on a relabelled edge list; order in a pruned list;
  the life of one plan along a run (`PlanPruned`, `LaterOk`).
-/
import TopsimProofs.PlanTraj3

namespace Topsim
namespace Sys

/-! ### order is kept by pruning -/

theorem idxOf_cons_ne {α} [DecidableEq α] {x a : α} (l : List α) (h : x ≠ a) :
    (x :: l).idxOf a = l.idxOf a + 1 := by
  have e : (x == a) = false := by simpa using h
  simp [List.idxOf_cons, e]

theorem idxOf_cons_self' {α} [DecidableEq α] (x : α) (l : List α) : (x :: l).idxOf x = 0 := by
  simp

/-- in a sublist of a duplicate-free list the relative order of two elements is the same -/
theorem sublist_idxOf_lt {α} [DecidableEq α] {l' l : List α} (hs : l'.Sublist l) (hnd : l.Nodup) {a b : α}
    (ha : a ∈ l') (hb : b ∈ l') (hlt : l.idxOf a < l.idxOf b) : l'.idxOf a < l'.idxOf b := by
  induction hs with
  | slnil => simp at ha
  | @cons l1 l2 x hs ih =>
    rw [List.nodup_cons] at hnd
    have hax : x ≠ a := fun e => hnd.1 (e ▸ hs.subset ha)
    have hbx : x ≠ b := fun e => hnd.1 (e ▸ hs.subset hb)
    rw [idxOf_cons_ne _ hax, idxOf_cons_ne _ hbx] at hlt
    exact ih hnd.2 ha hb (by omega)
  | @cons_cons l1 l2 x hs ih =>
    rw [List.nodup_cons] at hnd
    by_cases hax : x = a
    · subst hax
      by_cases hbx : x = b
      · subst hbx; rw [idxOf_cons_self'] at hlt; omega
      · rw [idxOf_cons_self', idxOf_cons_ne _ hbx]; omega
    · have hbx : x ≠ b := by
        intro e; subst e
        rw [idxOf_cons_self'] at hlt; omega
      rw [idxOf_cons_ne _ hax, idxOf_cons_ne _ hbx] at hlt ⊢
      have ha' : a ∈ l1 := by
        rcases List.mem_cons.mp ha with e | e
        · exact absurd e.symm hax
        · exact e
      have hb' : b ∈ l1 := by
        rcases List.mem_cons.mp hb with e | e
        · exact absurd e.symm hbx
        · exact e
      have := ih hnd.2 ha' hb' (by omega)
      omega

/-! ### the queries of a plan whose edge list is a relabelled workflow -/

theorem preds_of_relabel (pl : Plan) (wf : Workflow) (o : Oid) (c : Nat)
    (he : pl.edges = wf.edges.map (fun e => (Tid.wf o c e.1, Tid.wf o c e.2.1))) (n : Nat) :
    pl.preds (Tid.wf o c n) = (wf.edges.filter (fun e => e.2.1 = n)).map (fun e => Tid.wf o c e.1) := by
  unfold Plan.preds
  rw [he, List.filter_map, List.map_map]
  congr 1
  apply List.filter_congr
  intro e _
  simp only [Function.comp]
  by_cases h : e.2.1 = n
  · simp [h]
  · have : Tid.wf o c e.2.1 ≠ Tid.wf o c n := fun e' => h (by injection e')
    simp [h, this]

theorem succs_of_relabel (pl : Plan) (wf : Workflow) (o : Oid) (c : Nat)
    (he : pl.edges = wf.edges.map (fun e => (Tid.wf o c e.1, Tid.wf o c e.2.1))) (n : Nat) :
    pl.succs (Tid.wf o c n) = (wf.edges.filter (fun e => e.1 = n)).map (fun e => Tid.wf o c e.2.1) := by
  unfold Plan.succs
  rw [he, List.filter_map, List.map_map]
  congr 1
  apply List.filter_congr
  intro e _
  simp only [Function.comp]
  by_cases h : e.1 = n
  · simp [h]
  · have : Tid.wf o c e.1 ≠ Tid.wf o c n := fun e' => h (by injection e')
    simp [h, this]

/-- a task that is not a node of the relabelled graph has no predecessor in it -/
theorem preds_of_relabel_other (pl : Plan) (wf : Workflow) (o : Oid) (c : Nat)
    (he : pl.edges = wf.edges.map (fun e => (Tid.wf o c e.1, Tid.wf o c e.2.1))) (t : Tid)
    (ht : ∀ n, t ≠ Tid.wf o c n) : pl.preds t = [] := by
  unfold Plan.preds
  rw [he, List.map_eq_nil_iff, List.filter_eq_nil_iff]
  intro e hem
  obtain ⟨x, _, rfl⟩ := List.mem_map.mp hem
  simpa using fun e' => ht x.2.1 e'.symm

/-! ### the life of one plan -/

/-- `pl'` is `pl` one or more blocks later: same observation, same edges, same estimate; the task
list has only lost tasks -/
structure PlanPruned (pl pl' : Plan) : Prop where
  obs : pl'.obs = pl.obs
  edges : pl'.edges = pl.edges
  est : pl'.est = pl.est
  sub : pl'.tasks.Sublist pl.tasks

theorem PlanPruned.refl (pl : Plan) : PlanPruned pl pl := ⟨rfl, rfl, rfl, List.Sublist.refl _⟩
theorem PlanPruned.trans {a b c : Plan} (h1 : PlanPruned a b) (h2 : PlanPruned b c) : PlanPruned a c :=
  ⟨h2.obs.trans h1.obs, h2.edges.trans h1.edges, h2.est.trans h1.est, h2.sub.trans h1.sub⟩

theorem PRel.pruned {fin : Tid → Prop} {pl pl' : Plan} (h : PRel fin pl pl') : PlanPruned pl pl' :=
  ⟨h.obs, h.edges, h.est, h.sub⟩

theorem tstat_finished_iff (s : Sys) (t : Tid) :
    tstat s t = .finished ↔ ∃ r, s.task? t = some r ∧ r.status = .finished := by
  rw [tstat_eq]
  cases h : s.task? t with
  | none => simp
  | some r => simp

/-- one step, backwards (no hypothesis): a plan of the state after the step is an old plan, with
the same observation, edges and estimate, from whose task list only tasks with a FINISHED record
(before the step) have been dropped — or it is the plan the scheduler loop has just generated -/
theorem resume_plan_back (s : Sys) (pid : Nat) (orc : Oracle) :
    ∀ pl' ∈ (s.resume pid orc).1.plans,
      (∃ pl ∈ s.plans, PlanPruned pl pl' ∧
        ∀ t ∈ pl.tasks, t ∉ pl'.tasks → ∃ r, s.task? t = some r ∧ r.status = .finished) ∨
      (∃ p o recs, s.proc? pid = some p ∧ p.k = .schedLoop ∧ s.obs? pl'.obs = some o ∧
        (recs, pl') = (if s.staticPlan then staticPlanOf o (natNow p.wake) orc.plan
          else batchPlan o (natNow p.wake))) := by
  intro pl' hpl'
  rcases resume_plansShape s pid orc with hP | ⟨p, hp, _, hk, oid, o, recs, plan, _, hob, hrp, _, hpl⟩
  · obtain ⟨pl, hpl, hr⟩ := hP.back hpl'
    exact Or.inl ⟨pl, hpl, hr.pruned, fun t ht hn => (tstat_finished_iff s t).mp (hr.dropped t ht hn)⟩
  · rw [hpl] at hpl'
    rcases List.mem_append.mp hpl' with h1 | h1
    · exact Or.inl ⟨pl', (List.mem_filter.mp h1).1, PlanPruned.refl pl', fun t ht hn => absurd ht hn⟩
    · simp only [List.mem_singleton] at h1
      subst h1
      right
      have hobs : pl'.obs = oid := by
        obtain ⟨a1, _⟩ := planOf_attrs o (natNow p.wake) s.staticPlan orc.plan recs pl' hrp
        rw [a1]; exact (obs_mem_of_obs? hob).2
      exact ⟨p, o, recs, hp, hk, by rw [hobs]; exact hob, hrp⟩

/-- one step, forwards, when every observation is handed to the scheduler at most once (`BufI`):
every plan is still there after the step, with the same observation, edges and estimate, and has
only lost tasks with a FINISHED record -/
theorem resume_plan_fwd {s : Sys} (hb : BufI s) (pid : Nat) (orc : Oracle) :
    ∀ pl ∈ s.plans, ∃ pl' ∈ (s.resume pid orc).1.plans, PlanPruned pl pl' ∧
      ∀ t ∈ pl.tasks, t ∉ pl'.tasks → ∃ r, s.task? t = some r ∧ r.status = .finished := by
  intro pl hpl
  rcases resume_plansShape s pid orc with hP | ⟨p, _, _, _, oid, o, recs, plan, hnx, _, _, _, hpl'⟩
  · obtain ⟨pl', hpl', hr⟩ := hP.fwd hpl
    exact ⟨pl', hpl', hr.pruned, fun t ht hn => (tstat_finished_iff s t).mp (hr.dropped t ht hn)⟩
  · obtain ⟨_, hst, _, _⟩ := bufList_next s.buf oid hnx
    have hne : pl.obs ≠ oid := by
      intro e
      have h1 := hb.planLoc pl hpl
      rw [e] at h1
      have h2 := hb.cnt oid
      have c1 := count_pos_of_mem hst
      have c2 := count_pos_of_mem h1
      unfold locCount bufList at h2
      simp only [List.count_append] at h2 c2
      omega
    refine ⟨pl, ?_, PlanPruned.refl pl, fun t ht hn => absurd ht hn⟩
    rw [hpl']
    exact List.mem_append_left _ (List.mem_filter.mpr ⟨hpl, by simpa using hne⟩)

/-- `s'` is reached from the `ReachOk` state `s` by zero or more further `ReachOk` steps -/
inductive LaterOk (s0 s : Sys) : Sys → Prop
  | refl : ReachOk s0 s → LaterOk s0 s s
  | step (s' : Sys) (pid : Nat) (orc : Oracle) :
      LaterOk s0 s s' → s'.enabled pid → (s'.alg = .oracle → orc.preOk) → LaterOk s0 s (s'.resume pid orc).1

theorem LaterOk.reach_left {s0 s s' : Sys} (h : LaterOk s0 s s') : ReachOk s0 s := by
  induction h with
  | refl hr => exact hr
  | step _ _ _ _ _ _ ih => exact ih

theorem LaterOk.reach_right {s0 s s' : Sys} (h : LaterOk s0 s s') : ReachOk s0 s' := by
  induction h with
  | refl hr => exact hr
  | step s' pid orc _ hen hpre ih => exact ReachOk.step s' pid orc ih hen hpre

/-- a plan, once generated, is never replaced: at every later moment of the run the plan table
holds a plan with the same observation, edges and estimate whose task list is a sublist -/
theorem later_plan_fwd {s0 s s' : Sys} (hw : WFConfig s0) (hbuf : bufList s0.buf = [])
    (h : LaterOk s0 s s') : ∀ pl ∈ s.plans, ∃ pl' ∈ s'.plans, PlanPruned pl pl' := by
  induction h with
  | refl _ => exact fun pl hpl => ⟨pl, hpl, PlanPruned.refl pl⟩
  | step s' pid orc hl _ _ ih =>
    intro pl hpl
    obtain ⟨pl1, hpl1, hr1⟩ := ih pl hpl
    obtain ⟨pl2, hpl2, hr2, _⟩ := resume_plan_fwd (reachOk_bufi s0 s' hw hbuf hl.reach_right) pid orc pl1 hpl1
    exact ⟨pl2, hpl2, hr1.trans hr2⟩

end Sys
end Topsim
