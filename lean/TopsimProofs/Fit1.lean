/-
  Fit1 — F14: machines promised to admitted observations are covered by the machines available.
  Block-level part.

  `promF s`: the machines promised and not yet moved to the ingest pool (`ilPromisedTo`: the
  pipeline demand of an observation whose ingest supervisor or provisioning process is alive and
  before its first block), summed over the observations of the configuration.

  * monotonicity of `promF` under the changes of the process table (`promF_mono`, `promF_drop`);
  * one visit of the telescope's admission loop (`fit_visit`) with the REPAIRED admission test:
    an admission is granted only if `demand + max 0 (provIngest − |ingest pool|) ≤ |available|`;
  * the whole loop (`fit_telFold`): if before the loop the promised machines are covered by the
    reservation counter beyond the ingest pool, and by the machines available, then so they are
    after the loop — however many observations the loop admits.  No `OneAdmission` hypothesis.
-/
import TopsimProofs.Live15b2

namespace Topsim

open KState Sys

/-! ### sums -/

theorem fit_sum_bump {α} [DecidableEq α] (f g : α → Nat) (l : List α) (hnd : l.Nodup) (x : α) (d : Nat)
    (h : ∀ a ∈ l, a ≠ x → f a ≤ g a) (hx : f x ≤ g x + d) : (l.map f).sum ≤ (l.map g).sum + d := by
  induction l with
  | nil => simp
  | cons a r ih =>
    rw [List.nodup_cons] at hnd
    simp only [List.map_cons, List.sum_cons]
    by_cases e : a = x
    · subst e
      have h1 := il_sum_le_of_le f g r (fun b hb => h b (List.mem_cons_of_mem _ hb)
        (by intro hba; rw [hba] at hb; exact hnd.1 hb))
      omega
    · have h1 := h a (by simp) e
      have h2 := ih hnd.2 (fun b hb => h b (List.mem_cons_of_mem _ hb))
      omega

theorem fit_sum_zero {α} (f : α → Nat) (l : List α) (h : ∀ a ∈ l, f a = 0) : (l.map f).sum = 0 := by
  induction l with
  | nil => rfl
  | cons a r ih =>
    simp only [List.map_cons, List.sum_cons]
    rw [h a (by simp), ih (fun b hb => h b (List.mem_cons_of_mem _ hb))]

/-! ### supervisors and provisioning processes before their first block -/

theorem ncoIng_of_unprov {k : PK} {o : Oid} (h : k.aiObs = some o ∨ k.piObs = some o) :
    k.ncoIng = some o := by
  cases k with
  | allocIngest o' tl => simpa [PK.ncoIng, PK.aiObs, PK.piObs] using h
  | provIngest o' d => simpa [PK.ncoIng, PK.aiObs, PK.piObs] using h
  | _ => simp [PK.aiObs, PK.piObs] at h

theorem unprov_of_ncoIng {k : PK} {o : Oid} (h : k.ncoIng = some o) :
    k.aiObs = some o ∨ k.piObs = some o := by
  cases k with
  | allocIngest o' tl => left; simpa [PK.ncoIng, PK.aiObs] using h
  | provIngest o' d => right; simpa [PK.ncoIng, PK.piObs] using h
  | _ => simp [PK.ncoIng] at h

theorem neutral_of_ncoIng_none {k : PK} (h : k.ncoIng = none) : k.aiObs = none ∧ k.piObs = none := by
  cases k <;> simp [PK.ncoIng] at h <;> exact ⟨rfl, rfl⟩

namespace Sys

/-- the observation ids, in the configuration's order -/
def oids (s : Sys) : List Oid := s.obs.map (·.id)

/-- machines promised and not yet moved to the ingest pool, summed over the observations -/
def promF (s : Sys) : Nat := ((s.oids).map (ilPromisedTo s.procs s.ilDemand)).sum

/-- some ingest supervisor or provisioning process is alive and before its first block -/
def Pend (s : Sys) : Prop := ∃ q ∈ s.procs, q.alive = true ∧ q.pc = 0 ∧ q.k.ncoIng ≠ none

theorem oids_keep {s s' : Sys} (h : ObsKeep s s') : s'.oids = s.oids := by
  unfold ObsKeep at h
  unfold oids
  have key : ∀ l : List Obs, l.map (·.id) = (l.map Obs.stat).map (·.1) := by
    intro l; rw [List.map_map]; rfl
  rw [key, key, h]

theorem ilDemand_keep {s s' : Sys} (h : ObsKeep s s') : s'.ilDemand = s.ilDemand :=
  funext (fun o => ot_ilDemand_keep h o)

theorem pend_of_unprov {s : Sys} {o : Oid} (h : ilUnprovisioned s.procs o = true) : Pend s := by
  obtain ⟨q, hq, h1, h2, h3⟩ := ilUnprovisioned_iff.mp h
  exact ⟨q, hq, h1, h2, by rw [ncoIng_of_unprov h3]; simp⟩

theorem promF_zero_of_noPend {s : Sys} (h : ¬ Pend s) : s.promF = 0 := by
  unfold promF
  apply fit_sum_zero
  intro o _
  unfold ilPromisedTo
  cases hu : ilUnprovisioned s.procs o with
  | false => simp
  | true => exact absurd (pend_of_unprov hu) h

theorem promF_mono {s s' : Sys} (hk : ObsKeep s s')
    (hU : ∀ o, ilUnprovisioned s'.procs o = true → ilUnprovisioned s.procs o = true) :
    s'.promF ≤ s.promF := by
  unfold promF
  rw [oids_keep hk, ilDemand_keep hk]
  exact il_sum_le_of_le _ _ _ (fun o _ => ilPromisedTo_mono (hU o))

/-- the promise of `o` is redeemed -/
theorem promF_drop {s s' : Sys} (hk : ObsKeep s s')
    (hU : ∀ o, ilUnprovisioned s'.procs o = true → ilUnprovisioned s.procs o = true)
    {o : Oid} (ho : o ∈ s.oids) (h0 : ilUnprovisioned s'.procs o = false)
    (h1 : ilUnprovisioned s.procs o = true) : s'.promF + s.ilDemand o ≤ s.promF := by
  unfold promF
  rw [oids_keep hk, ilDemand_keep hk]
  refine il_sum_drop _ _ _ (fun x _ => ilPromisedTo_mono (hU x)) ho _ ?_
  unfold ilPromisedTo
  rw [h0, h1]
  simp

/-- a live provisioning process before its first block stands for the demand of its observation -/
theorem le_promF {s : Sys} {o : Oid} (ho : o ∈ s.oids) (h1 : ilUnprovisioned s.procs o = true) :
    s.ilDemand o ≤ s.promF := by
  unfold promF
  have h := il_le_sum_of_mem (ilPromisedTo s.procs s.ilDemand) ho
  have e : ilPromisedTo s.procs s.ilDemand o = s.ilDemand o := by
    unfold ilPromisedTo; rw [if_pos h1]
  rw [e] at h
  exact h

/-! ### one admission -/

theorem promisedTo_admit_ne (ps : List Proc) (dem : Oid → Nat) (a : Proc) (oid x : Oid)
    (hak : a.k.aiObs = some oid) (hapi : a.k.piObs = none) (hne : x ≠ oid) :
    ilPromisedTo (ps ++ [a]) dem x ≤ ilPromisedTo ps dem x := by
  apply ilPromisedTo_mono
  intro hu
  obtain ⟨r, hr, r1, r2, r3⟩ := ilUnprovisioned_iff.mp hu
  rcases List.mem_append.mp hr with hr | hr
  · exact ilUnprovisioned_iff.mpr ⟨r, hr, r1, r2, r3⟩
  · simp only [List.mem_singleton] at hr
    subst hr
    rw [hak, hapi] at r3
    simp at r3
    exact absurd r3.symm hne

/-- one visit of the admission loop, with the repaired test (F14): nothing is created and the
counter is as before, or the visited observation is admitted after the test
`demand + max 0 (provIngest − |ingest pool|) ≤ |available|` -/
theorem fit_visit (n : Nat) (s : Sys) (oid : Oid) (r : Sys × Option Err)
    (hr : telescopeVisit n (s, none) oid = r) :
    r.1.cl = s.cl ∧ r.1.ilDemand = s.ilDemand ∧ r.1.oids = s.oids ∧
    ((r.1.procs = s.procs ∧ r.1.provIngest = s.provIngest) ∨
     (∃ o, s.obs? oid = some o ∧
        (o.ingestDemand : Int) + max 0 (s.provIngest - (s.cl.ingest.length : Int)) ≤
          (s.cl.available.length : Int) ∧
        r.1.provIngest = s.provIngest + o.ingestDemand ∧
        r.1.procs = s.procs ++ [{ pid := s.nextPid, k := .allocIngest oid 0, wake := (n : Time) }])) := by
  subst hr
  obtain ⟨t, hstep⟩ := telescopeVisit_step n (s, none) oid
  have hkeep : ObsKeep s (telescopeVisit n (s, none) oid).1 := telStep_keep hstep
  refine ⟨telescopeVisit_clq n (s, none) oid, ilDemand_keep hkeep, oids_keep hkeep, ?_⟩
  cases hob : s.obs? oid with
  | none =>
    have : telescopeVisit n (s, none) oid = (s, none) := by
      unfold telescopeVisit; simp [hob]
    rw [this]; exact Or.inl ⟨rfl, rfl⟩
  | some o =>
    rcases telescopeVisit_cases n s oid o hob with hc | ⟨_, s1, hc, hv⟩ | ⟨_, s1, hc, hv⟩ | ⟨_, _, hv⟩
    · rw [hc]; exact Or.inl ⟨rfl, rfl⟩
    · rw [hv]
      rcases checkIngestCapacity_ok s o _ _ hc with e | ⟨e, _⟩
      · rw [e]; exact Or.inl ⟨rfl, rfl⟩
      · simp at e
    · rw [hv]
      have cp := checkIngestCapacity_promised s o s1 hc
      obtain ⟨_, _, _, _, _, _, rfl⟩ := checkIngestCapacity_true s o s1 hc
      right
      refine ⟨o, rfl, cp, rfl, ?_⟩
      simp [admitState, spawn, updObs, addTel]
    · rw [hv]; exact Or.inl ⟨rfl, rfl⟩

/-- **The admission loop keeps the promises covered** (F14).  `idx`: the observation ids; `A`, `I`:
the machines available / in the ingest pool (the loop does not touch the cluster).  If the machines
promised are covered by what the reservation counter holds beyond the ingest pool, and by the
machines available, before the loop, then they are covered by the machines available after it. -/
theorem fit_telFold (n : Nat) (A I : Nat) (idx : List Oid) (hidx : idx.Nodup) (l : List Oid)
    (s : Sys) (err : Option Err) (hA : s.cl.available.length = A) (hI : s.cl.ingest.length = I)
    (h1 : (((idx.map (ilPromisedTo s.procs s.ilDemand)).sum : Nat) : Int) ≤ s.provIngest - (I : Int))
    (h2 : (idx.map (ilPromisedTo s.procs s.ilDemand)).sum ≤ A) :
    (idx.map (ilPromisedTo (l.foldl (telescopeVisit n) (s, err)).1.procs
        (l.foldl (telescopeVisit n) (s, err)).1.ilDemand)).sum ≤ A := by
  induction l generalizing s err with
  | nil => exact h2
  | cons x rest ih =>
    simp only [List.foldl_cons]
    cases err with
    | some e => rw [nco_visit_err]; exact ih s (some e) hA hI h1 h2
    | none =>
      obtain ⟨hcl, hd, _, hcase⟩ := fit_visit n s x _ rfl
      have key := ih (telescopeVisit n (s, none) x).1 (telescopeVisit n (s, none) x).2
        (by rw [hcl]; exact hA) (by rw [hcl]; exact hI)
      rcases hcase with ⟨c2, c3⟩ | ⟨o, hob, hg, c3, c2⟩
      · apply key
        · rw [c2, hd, c3]; exact h1
        · rw [c2, hd]; exact h2
      · have hdx : s.ilDemand x = o.ingestDemand := by unfold ilDemand; rw [hob]
        have hb : (idx.map (ilPromisedTo
              (s.procs ++ [{ pid := s.nextPid, k := .allocIngest x 0, wake := (n : Time) }]) s.ilDemand)).sum
            ≤ (idx.map (ilPromisedTo s.procs s.ilDemand)).sum + o.ingestDemand := by
          refine fit_sum_bump _ _ idx hidx x _ (fun y _ hne => promisedTo_admit_ne _ _ _ x y rfl rfl hne) ?_
          have := ilPromisedTo_le
            (s.procs ++ [{ pid := s.nextPid, k := .allocIngest x 0, wake := (n : Time) }]) s.ilDemand x
          omega
        apply key
        · rw [c2, hd, c3]; omega
        · rw [c2, hd]; omega

end Sys
end Topsim
