/-
  DelayTraj4 — (a) what the four shipped algorithms add to the local schedule of an
  `allocate_tasks` process: UNSCHEDULED tasks of the (pruned) plan, each key once;
  (b) which blocks change the status of a task as the scheduler sees it (`tstat`).
-/
import TopsimProofs.DelayTraj3

namespace Topsim

open Alg

/-! ### (a) the new keys of the schedule -/

theorem attemptAllocation_keys (cl : Cluster) (m : Mid) (t : Tid) (st : LoopSt) :
    (∀ k ∈ dictKeys (attemptAllocation cl m t st).alloc, k ∈ dictKeys st.alloc ∨ k = t) ∧
    ((dictKeys st.alloc).Nodup → (dictKeys (attemptAllocation cl m t st).alloc).Nodup) := by
  unfold attemptAllocation
  split
  · split
    · exact ⟨fun k hk => Or.inl hk, id⟩
    · refine ⟨fun k hk => ?_, fun hn => dictKeys_nodup_dictSet _ _ _ hn⟩
      rcases mem_dictKeys_dictSet _ _ _ _ hk with e | e
      · exact Or.inr e
      · exact Or.inl e
  · refine ⟨fun k hk => ?_, fun hn => dictKeys_nodup_dictSet _ _ _ hn⟩
    rcases mem_dictKeys_dictSet _ _ _ _ hk with e | e
    · exact Or.inr e
    · exact Or.inl e

theorem dynamicStep_keys (cl : Cluster) (plan : Plan) (view : Tid → TaskView) (n : Nat)
    (st st' : LoopSt) (t : Tid) (h : dynamicStep cl plan view n (.ok st) t = .ok st') :
    (∀ k ∈ dictKeys st'.alloc, k ∈ dictKeys st.alloc ∨ (k = t ∧ (view t).status = .unscheduled)) ∧
    ((dictKeys st.alloc).Nodup → (dictKeys st'.alloc).Nodup) := by
  have hsame : ∀ {x : LoopSt}, x.alloc = st.alloc →
      (∀ k ∈ dictKeys x.alloc, k ∈ dictKeys st.alloc ∨ (k = t ∧ (view t).status = .unscheduled)) ∧
      ((dictKeys st.alloc).Nodup → (dictKeys x.alloc).Nodup) := by
    intro x e; rw [e]; exact ⟨fun k hk => Or.inl hk, id⟩
  have hset : ∀ {x : LoopSt} {m : Mid}, (view t).status = .unscheduled → x.alloc = dictSet st.alloc t m →
      (∀ k ∈ dictKeys x.alloc, k ∈ dictKeys st.alloc ∨ (k = t ∧ (view t).status = .unscheduled)) ∧
      ((dictKeys st.alloc).Nodup → (dictKeys x.alloc).Nodup) := by
    intro x m hu e; rw [e]
    refine ⟨fun k hk => ?_, fun hn => dictKeys_nodup_dictSet _ _ _ hn⟩
    rcases mem_dictKeys_dictSet _ _ _ _ hk with e | e
    · exact Or.inr ⟨e, hu⟩
    · exact Or.inl e
  unfold dynamicStep at h
  simp only at h
  split at h
  · injection h with h; subst h; exact hsame rfl
  split at h
  · injection h with h; subst h; exact hsame rfl
  split at h
  · rename_i hc
    split at h
    · cases h
    · split at h
      · injection h with h; subst h; exact hsame rfl
      split at h
      · injection h with h; subst h; exact hset hc.1 rfl
      split at h
      · injection h with h; subst h; exact hset hc.1 rfl
      · injection h with h; subst h; exact hsame rfl
  · injection h with h; subst h; exact hsame rfl

theorem greedyStep_keys (cl : Cluster) (plan : Plan) (view : Tid → TaskView)
    (st st' : LoopSt) (t : Tid) (h : greedyStep cl plan view (.ok st) t = .ok st') :
    (∀ k ∈ dictKeys st'.alloc, k ∈ dictKeys st.alloc ∨ (k = t ∧ (view t).status = .unscheduled)) ∧
    ((dictKeys st.alloc).Nodup → (dictKeys st'.alloc).Nodup) := by
  have hsame : ∀ {x : LoopSt}, x.alloc = st.alloc →
      (∀ k ∈ dictKeys x.alloc, k ∈ dictKeys st.alloc ∨ (k = t ∧ (view t).status = .unscheduled)) ∧
      ((dictKeys st.alloc).Nodup → (dictKeys x.alloc).Nodup) := by
    intro x e; rw [e]; exact ⟨fun k hk => Or.inl hk, id⟩
  have hatt : ∀ (m : Mid) (x : LoopSt), (view t).status = .unscheduled → x.alloc = st.alloc →
      (∀ k ∈ dictKeys (attemptAllocation cl m t x).alloc,
        k ∈ dictKeys st.alloc ∨ (k = t ∧ (view t).status = .unscheduled)) ∧
      ((dictKeys st.alloc).Nodup → (dictKeys (attemptAllocation cl m t x).alloc).Nodup) := by
    intro m x hu e
    obtain ⟨a1, a2⟩ := attemptAllocation_keys cl m t x
    rw [e] at a1 a2
    refine ⟨fun k hk => ?_, a2⟩
    rcases a1 k hk with e | e
    · exact Or.inl e
    · exact Or.inr ⟨e, hu⟩
  unfold greedyStep at h
  simp only at h
  split at h
  · rename_i hu
    split at h
    · split at h
      · cases h
      · injection h with h; subst h; exact hatt _ _ hu rfl
    · split at h
      · cases h
      · split at h
        · injection h with h; subst h; exact hatt _ _ hu rfl
        · injection h with h; subst h; exact hsame rfl
  · injection h with h; subst h; exact hsame rfl

theorem foldl_keys {α} (key : α → Tid) (P : Tid → Prop) (f : Except Err LoopSt → α → Except Err LoopSt)
    (herr : ∀ e x, f (.error e) x = .error e)
    (hstep : ∀ st st' x, f (.ok st) x = .ok st' →
      (∀ k ∈ dictKeys st'.alloc, k ∈ dictKeys st.alloc ∨ (k = key x ∧ P (key x))) ∧
      ((dictKeys st.alloc).Nodup → (dictKeys st'.alloc).Nodup))
    (l : List α) (acc : Except Err LoopSt) (st' : LoopSt) (h : l.foldl f acc = .ok st') :
    ∃ st, acc = .ok st ∧
      (∀ k ∈ dictKeys st'.alloc, k ∈ dictKeys st.alloc ∨ (k ∈ l.map key ∧ P k)) ∧
      ((dictKeys st.alloc).Nodup → (dictKeys st'.alloc).Nodup) := by
  induction l generalizing acc with
  | nil => exact ⟨st', h, fun k hk => Or.inl hk, id⟩
  | cons x r ih =>
    obtain ⟨st1, h1, f1, n1⟩ := ih (f acc x) h
    cases acc with
    | error e => rw [herr] at h1; exact absurd h1 (by simp)
    | ok st =>
      obtain ⟨g1, g2⟩ := hstep st st1 x h1
      refine ⟨st, rfl, fun k hk => ?_, fun hn => n1 (g2 hn)⟩
      rcases f1 k hk with h2 | ⟨h2, h3⟩
      · rcases g1 k h2 with h3 | ⟨h3, h4⟩
        · exact Or.inl h3
        · exact Or.inr ⟨by simp only [List.map_cons, List.mem_cons]; exact Or.inl h3, by rw [h3]; exact h4⟩
      · exact Or.inr ⟨by simp only [List.map_cons, List.mem_cons]; exact Or.inr h2, h3⟩

namespace Sys

/-- a shipped algorithm adds to the schedule only UNSCHEDULED tasks of the plan it is given, and
keeps each key once -/
theorem runAlgorithm_sched (s : Sys) (orc : Oracle) (plan : Plan) (sched : List (Tid × Mid))
    (pool : List Tid) (out : AlgOut) (ha : s.alg ≠ .oracle)
    (h : s.runAlgorithm orc plan sched pool = .ok out) :
    (∀ k ∈ dictKeys out.schedule, k ∈ dictKeys sched ∨ (k ∈ plan.tasks ∧ tstat s k = .unscheduled)) ∧
    ((dictKeys sched).Nodup → (dictKeys out.schedule).Nodup) := by
  unfold runAlgorithm at h
  split at h
  · obtain ⟨g1, g2, _⟩ := batchRun_facts _ _ _ _ _ _ _ _ _ h
    exact ⟨g1, g2⟩
  · unfold Alg.queueRun at h
    injection h with h
    subst h
    obtain ⟨g1, g2⟩ := firstFreeFold_keys s.cl plan s.taskView s.cl.available.length
      (plan.tasks.filter (fun t => (Alg.seedPool plan pool).contains t))
      { alloc := sched, temp := s.cl.available, removed := [], added := [], status := plan.status }
    refine ⟨fun k hk => ?_, g2⟩
    rcases g1 k hk with h1 | ⟨h1, h2⟩
    · exact Or.inl h1
    · exact Or.inr ⟨(List.mem_filter.mp h1).1, h2⟩
  · unfold Alg.dynamicRun at h
    simp only at h
    split at h
    · exact absurd h (by simp)
    · rename_i st hfold
      injection h with h
      subst h
      obtain ⟨st0, e0, f0, n0⟩ := foldl_keys id (fun k => (s.taskView k).status = .unscheduled) _
        (fun e x => rfl) (fun st st' x => dynamicStep_keys _ _ _ _ st st' x) _ _ _ hfold
      injection e0 with e0
      subst e0
      refine ⟨fun k hk => ?_, n0⟩
      rcases f0 k hk with h1 | ⟨h1, h2⟩
      · exact Or.inl h1
      · right
        simp only [List.map_id] at h1
        exact ⟨(List.mem_filter.mp (List.mem_mergeSort.mp h1)).1, h2⟩
  · unfold Alg.greedyRun at h
    split at h
    · exact absurd h (by simp)
    · rename_i st hfold
      injection h with h
      subst h
      obtain ⟨st0, e0, f0, n0⟩ := foldl_keys id (fun k => (s.taskView k).status = .unscheduled) _
        (fun e x => rfl) (fun st st' x => greedyStep_keys _ _ _ st st' x) _ _ _ hfold
      injection e0 with e0
      subst e0
      refine ⟨fun k hk => ?_, n0⟩
      rcases f0 k hk with h1 | ⟨h1, h2⟩
      · exact Or.inl h1
      · right
        simp only [List.map_id] at h1
        exact ⟨h1, h2⟩
  · rename_i hb; exact absurd hb ha

/-! ### (b) the status of the other tasks -/

theorem tstat_upd1 {s X : Sys} {t0 t' : Tid} (f : TaskRec → TaskRec) (hid : ∀ r, (f r).id = r.id)
    (h : X.tasks = (s.updTask t0 f).tasks) (hne : t' ≠ t0) : tstat X t' = tstat s t' :=
  (tstat_of_tasks h t').trans (tstat_updTask_ne s f hid hne)

theorem tstat_upd2 {s X : Sys} {t0 t' : Tid} (f g : TaskRec → TaskRec) (hf : ∀ r, (f r).id = r.id)
    (hg : ∀ r, (g r).id = r.id) (h : X.tasks = ((s.updTask t0 f).updTask t0 g).tasks) (hne : t' ≠ t0) :
    tstat X t' = tstat s t' :=
  ((tstat_of_tasks h t').trans (tstat_updTask_ne _ g hg hne)).trans (tstat_updTask_ne s f hf hne)

theorem tstat_status1 (s : Sys) (t0 : Tid) (st : TStatus) (X : Sys) {t' : Tid}
    (h : X.tasks = (s.updTask t0 (fun r => { r with status := st })).tasks) (hne : t' ≠ t0) :
    tstat X t' = tstat s t' :=
  tstat_upd1 (fun r => { r with status := st }) (fun _ => rfl) h hne

theorem tstat_status2 (s : Sys) (t0 : Tid) (st1 st2 : TStatus) (X : Sys) {t' : Tid}
    (h : X.tasks = ((s.updTask t0 (fun r => { r with status := st1 })).updTask t0
      (fun r => { r with status := st2 })).tasks) (hne : t' ≠ t0) :
    tstat X t' = tstat s t' :=
  tstat_upd2 (fun r => { r with status := st1 }) (fun r => { r with status := st2 })
    (fun _ => rfl) (fun _ => rfl) h hne

syntax "at_tstat" term : tactic
macro_rules
  | `(tactic| at_tstat $hne) =>
    `(tactic| first
      | exact tstat_of_tasks rfl _
      | exact tstat_status1 _ _ _ _ rfl $hne
      | exact tstat_status2 _ _ _ _ _ rfl $hne
      | (split <;> at_tstat $hne))

/-- the allocation process of `t` leaves the status of every other task alone -/
theorem allocTask_tstat_ne (s : Sys) (now : Time) (t : Tid) (m : Mid) (preds : List Tid)
    (obs : Option Oid) (ing : Bool) (ret : Nat) {t' : Tid} (hne : t' ≠ t) :
    tstat (s.allocTaskBlock now t m preds obs ing ret).1 t' = tstat s t' := by
  unfold allocTaskBlock; simp only; at_tstat hne

/-- … and so does the body of `t` -/
theorem doWork_tstat_ne (s : Sys) (now : Time) (orc : Oracle) (t : Tid) (m : Mid) (preds : List Tid)
    (ph tot : Nat) {t' : Tid} (hne : t' ≠ t) :
    tstat (s.doWorkBlock now orc t m preds ph tot).1 t' = tstat s t' := by
  have hsh := doWorkBlock_shape2 s now orc t m preds ph tot
  generalize s.doWorkBlock now orc t m preds ph tot = X at hsh
  cases hsh with
  | raised ph' e _ => rfl
  | wait w => rfl
  | start r mm dur _ _ _ =>
    exact tstat_upd1 (dwStartF now dur) (fun _ => rfl) rfl hne
  | finish _ =>
    exact tstat_upd1 (dwEndF now tot) (fun r => (dwEndF_spec now tot r).1) rfl hne

/-- **A workflow task the scheduler sees as UNSCHEDULED stays so** under one block of any process
other than `allocate_tasks`. -/
theorem block_tstat_unsched {s : Sys} (hs : SInv s) {p : Proc} (hp : p ∈ s.procs) (ha : p.alive = true)
    (orc : Oracle) (htag : p.k.tag ≠ "allocTasks") {t : Tid} (hw : IsWf t) (hu : tstat s t = .unscheduled) :
    tstat (s.block p orc).1 t = .unscheduled := by
  obtain ⟨U, hU⟩ := hs.ci
  have hnotAT : ∀ t0 m preds obs ing ret, p.k = .allocTask t0 m preds obs ing ret → t ≠ t0 := by
    intro t0 m preds obs ing ret hk e
    subst e
    exact tstat_of_sched (hU.hasRec p hp t m preds obs ing ret hk) hu
  cases hk : p.k with
  | schedLoop =>
    rw [block_schedLoop orc hk]
    rcases schedLoopBlock_buf s p.wake orc with ⟨_, _, htasks, _, _⟩ |
      ⟨oid, o, recs, plan, _, _, hrp, _, _, htasks, _⟩
    · rw [tstat_of_tasks htasks]; exact hu
    · obtain ⟨_, _, _, g4⟩ := planOf_facts o (natNow p.wake) s.staticPlan orc.plan recs plan hrp
      rw [tstat_append_unsched s _ recs htasks (fun r hr => (g4 r hr).1)]; exact hu
  | provIngest o d =>
    rw [block_provIngest orc hk]
    obtain ⟨recs, hrecs, htasks, _⟩ := provIngestBlock_shape s p.wake p.pc o d
    rw [tstat_append s _ recs htasks t]
    · exact hu
    · intro r hr e
      have := hrecs r hr
      rw [e] at this
      obtain ⟨o', c, n, rfl⟩ := hw
      simp [Tid.isIngest] at this
  | allocTask t0 m preds obs ing ret =>
    rw [block_allocTask orc hk, allocTask_tstat_ne s _ _ _ _ _ _ _ (hnotAT t0 m preds obs ing ret hk)]
    exact hu
  | doWork t0 m preds ph tot =>
    have hne : t ≠ t0 := by
      intro e
      subst e
      obtain ⟨a, ha1, _, _, preds', obs, ing, hak⟩ := hs.dg.dwAlloc p hp ha _ _ _ _ _ hk
      exact tstat_of_sched (hU.hasRec a ha1 t m preds' obs ing p.pid hak) hu
    rw [block_doWork orc hk, doWork_tstat_ne s _ orc _ _ _ _ _ hne]
    exact hu
  | allocTasks o sc pa po fn => rw [hk] at htag; exact absurd rfl htag
  | _ =>
    rw [tstat_of_tasks (block_tasks s p orc (by rw [hk]; simp [PK.tag]) (by rw [hk]; simp [PK.tag])
      (by rw [hk]; simp [PK.tag]) (by rw [hk]; simp [PK.tag]) (by rw [hk]; simp [PK.tag]))]
    exact hu

end Sys
end Topsim
