/-
  LiveP2 — what `DynamicSchedulingFromPlan.run` and `GreedySchedulingFromPlan.run` return: the
  counterparts, for the two plan-following algorithms, of the facts about `QueueProcessing.run`
  used by the liveness development (`l7_queueRun`, `l7_queue_progress`, `l7_queue_leftover`,
  `l7_queueRun_cl` of Live7b / Live7f).

  * `l7_dynamicRun_P`: the pool arithmetic of `DynamicSchedulingFromPlan.run`.
  * `l7_plan_progress_P`: a run that does not raise, with every machine that a ready, UNSCHEDULED
    task `T` may name in the available pool, proposes something.
  * `l7_planRun_cl_P`: neither algorithm touches the cluster.
-/
import TopsimProofs.LiveP1

namespace Topsim

open Sys

namespace Alg

/-! ### the pool arithmetic of the plan-following loop -/

def L7FFx (plan : Plan) (sc : List (Tid × Mid)) : Except Err LoopSt → Prop
  | .error _ => True
  | .ok st => L7FF plan sc st

theorem l7_ff_assign_P {plan : Plan} {sc : List (Tid × Mid)} {st st' : LoopSt} (h : L7FF plan sc st)
    (t : Tid) (m : Mid) (ha : st'.alloc = dictSet st.alloc t m) (hr : st'.removed = st.removed ++ [t])
    (hd : st'.added = st.added ++ plan.succs t) : L7FF plan sc st' := by
  constructor
  · intro k hk
    rw [ha]
    exact l7_keys_dictSet_of_mem _ _ _ _ (h.old k hk)
  · intro x hx
    rw [hr] at hx
    rw [ha]
    rcases List.mem_append.mp hx with hx | hx
    · exact l7_keys_dictSet_of_mem _ _ _ _ (h.rem x hx)
    · simp only [List.mem_singleton] at hx
      subst hx
      exact l7_keys_dictSet_self _ _ _
  · intro x hx y hy
    rw [hr] at hx
    rw [hd]
    rcases List.mem_append.mp hx with hx | hx
    · exact List.mem_append_left _ (h.add x hx y hy)
    · simp only [List.mem_singleton] at hx
      subst hx
      exact List.mem_append_right _ hy
  · intro k hk
    rw [ha] at hk
    rw [hr]
    rcases mem_dictKeys_dictSet _ _ _ _ hk with e | e
    · exact Or.inr (List.mem_append_right _ (by simp [e]))
    · rcases h.new k e with h1 | h1
      · exact Or.inl h1
      · exact Or.inr (List.mem_append_left _ h1)

theorem l7_dyn_step_P (cl : Cluster) (plan : Plan) (view : Tid → TaskView) (n : Nat)
    (sc : List (Tid × Mid)) (acc : Except Err LoopSt) (t : Tid) (h : L7FFx plan sc acc) :
    L7FFx plan sc (dynamicStep cl plan view n acc t) := by
  cases acc with
  | error e => exact trivial
  | ok st =>
    unfold dynamicStep
    dsimp -zeta only
    split
    · exact h
    split
    · exact ⟨h.old, h.rem, h.add, h.new⟩
    split
    · extract_lets status1 st1
      have h1 : L7FF plan sc st1 := ⟨h.old, h.rem, h.add, h.new⟩
      split
      · exact trivial
      · split
        · exact h1
        · split
          · exact l7_ff_assign_P h1 t _ rfl rfl rfl
          · split
            · exact l7_ff_assign_P h1 t _ rfl rfl rfl
            · exact h1
    · exact h

end Alg

/-- what `DynamicSchedulingFromPlan.run` returns, with the two local sets of its loop -/
theorem l7_dynamicRun_P (cl : Cluster) (plan : Plan) (view : Tid → TaskView) (sc : List (Tid × Mid))
    (po : List Tid) (out : AlgOut) (h : Alg.dynamicRun cl plan view sc po = .ok out) :
    ∃ removed added : List Tid,
      (∀ k ∈ dictKeys sc, k ∈ dictKeys out.schedule) ∧
      (∀ t ∈ removed, t ∈ dictKeys out.schedule) ∧
      (∀ t ∈ removed, ∀ x ∈ plan.succs t, x ∈ added) ∧
      (∀ k ∈ dictKeys out.schedule, k ∈ dictKeys sc ∨ k ∈ removed) ∧
      (∀ t, t ∈ out.pool ↔ (t ∈ Alg.seedPool plan po ∧ t ∉ removed) ∨ t ∈ added) := by
  unfold Alg.dynamicRun at h
  extract_lets pool1 temp order at h
  have hinv := foldl_inv (Alg.dynamicStep cl plan view temp.length) (Alg.L7FFx plan sc)
    (fun s a hs => Alg.l7_dyn_step_P cl plan view _ sc s a hs) order
    (.ok { alloc := sc, temp := temp, removed := [], added := [], status := plan.status })
    ⟨fun k hk => hk, fun t ht => by simp at ht, fun t ht => by simp at ht, fun k hk => Or.inl hk⟩
  split at h
  · cases h
  · rename_i st heq
    rw [heq] at hinv
    injection h with h
    subst h
    exact ⟨st.removed, st.added, hinv.old, hinv.rem, hinv.add, hinv.new, fun t => Alg.mem_updatePool _ _ _ t⟩

/-! ### progress -/

namespace Alg

/-- nothing proposed yet: the loop has not stopped and the local copy of the available pool is whole -/
def DynProg (avail : List Mid) : Except Err LoopSt → Prop
  | .error _ => True
  | .ok st => st.alloc ≠ [] ∨ (st.stop = false ∧ st.temp = avail)

def AllocNe : Except Err LoopSt → Prop
  | .error _ => True
  | .ok st => st.alloc ≠ []

theorem dynamicStep_allocNe_P (cl : Cluster) (plan : Plan) (view : Tid → TaskView) (n : Nat)
    (acc : Except Err LoopSt) (t : Tid) (h : AllocNe acc) : AllocNe (dynamicStep cl plan view n acc t) := by
  cases acc with
  | error e => exact trivial
  | ok st =>
    unfold dynamicStep
    dsimp -zeta only
    split
    · exact h
    split
    · exact h
    split
    · extract_lets status1 st1
      split
      · exact trivial
      · split
        · exact h
        · split
          · exact dictSet_ne_nil _ _ _
          · split
            · exact dictSet_ne_nil _ _ _
            · exact h
    · exact h

theorem dynamicStep_prog_P (cl : Cluster) (plan : Plan) (view : Tid → TaskView) (avail : List Mid)
    (hav : avail ≠ []) (acc : Except Err LoopSt) (t : Tid) (h : DynProg avail acc) :
    DynProg avail (dynamicStep cl plan view avail.length acc t) := by
  cases acc with
  | error e => exact trivial
  | ok st =>
    rcases h with h | ⟨hs, ht⟩
    · have := dynamicStep_allocNe_P cl plan view avail.length (.ok st) t h
      generalize dynamicStep cl plan view avail.length (.ok st) t = r at this
      cases r with
      | error e => exact trivial
      | ok st' => exact Or.inl this
    · by_cases hne : st.alloc = []
      · unfold dynamicStep
        dsimp -zeta only
        rw [if_neg (by rw [hs]; simp)]
        have hlen : ¬ (st.alloc.length ≥ avail.length) := by
          rw [hne]
          have : 0 < avail.length := List.length_pos_iff.mpr hav
          simp only [List.length_nil]; omega
        rw [if_neg hlen]
        split
        · extract_lets status1 st1
          split
          · exact trivial
          · split
            · exact Or.inr ⟨hs, ht⟩
            · split
              · exact Or.inl (dictSet_ne_nil _ _ _)
              · split
                · exact Or.inl (dictSet_ne_nil _ _ _)
                · exact Or.inr ⟨hs, ht⟩
        · exact Or.inr ⟨hs, ht⟩
      · have := dynamicStep_allocNe_P cl plan view avail.length (.ok st) t hne
        generalize dynamicStep cl plan view avail.length (.ok st) t = r at this
        cases r with
        | error e => exact trivial
        | ok st' => exact Or.inl this

/-- the step on a ready UNSCHEDULED task whose planned machine is in the available pool -/
theorem dynamicStep_hit_P (cl : Cluster) (plan : Plan) (view : Tid → TaskView) (avail : List Mid)
    (hav : avail ≠ []) (acc : Except Err LoopSt) (T : Tid) (h : DynProg avail acc)
    (hu : (view T).status = .unscheduled) (hready : predsFinished cl plan T = true)
    (hmach : ∀ m, (view T).machine = .ok m → m ∈ avail) :
    AllocNe (dynamicStep cl plan view avail.length acc T) := by
  cases acc with
  | error e => exact trivial
  | ok st =>
    by_cases hne : st.alloc = []
    · rcases h with h | ⟨hs, ht⟩
      · exact absurd hne h
      · unfold dynamicStep
        dsimp -zeta only
        rw [if_neg (by rw [hs]; simp)]
        have hlen : ¬ (st.alloc.length ≥ avail.length) := by
          rw [hne]
          have : 0 < avail.length := List.length_pos_iff.mpr hav
          simp only [List.length_nil]; omega
        rw [if_neg hlen]
        have hcond : (view T).status = .unscheduled ∧ (!schedHas st.alloc T) = true ∧ st.temp.length > 0 := by
          refine ⟨hu, ?_, ?_⟩
          · rw [hne]; simp [schedHas, dictHas, dictGet]
          · rw [ht]; exact List.length_pos_iff.mpr hav
        rw [if_pos hcond]
        extract_lets status1 st1
        split
        · exact trivial
        · rename_i m hm
          have hmem : m ∈ st1.temp := by
            show m ∈ st.temp
            rw [ht]; exact hmach m hm
          have hc : ¬ ((!st1.temp.contains m) = true) := by simp [hmem]
          rw [if_neg hc]
          split
          · exact dictSet_ne_nil _ _ _
          · exact dictSet_ne_nil _ _ _
    · exact dynamicStep_allocNe_P cl plan view avail.length (.ok st) T hne

theorem dynamic_fold_hit_P (cl : Cluster) (plan : Plan) (view : Tid → TaskView) (avail : List Mid)
    (hav : avail ≠ []) (T : Tid) (hu : (view T).status = .unscheduled)
    (hready : predsFinished cl plan T = true) (hmach : ∀ m, (view T).machine = .ok m → m ∈ avail) :
    ∀ (l : List Tid) (acc : Except Err LoopSt), T ∈ l → DynProg avail acc →
      AllocNe (l.foldl (dynamicStep cl plan view avail.length) acc) := by
  intro l
  induction l with
  | nil => intro acc h; simp at h
  | cons x r ih =>
    intro acc hT hp
    simp only [List.foldl_cons]
    by_cases e : x = T
    · subst e
      exact foldl_inv _ AllocNe (fun s a hs => dynamicStep_allocNe_P cl plan view _ s a hs) r _
        (dynamicStep_hit_P cl plan view avail hav acc x hp hu hready hmach)
    · have hT' : T ∈ r := by
        rcases List.mem_cons.mp hT with h | h
        · exact absurd h.symm e
        · exact h
      exact ih _ hT' (dynamicStep_prog_P cl plan view avail hav acc x hp)

/-! the greedy loop -/

def GrProg (avail : List Mid) : Except Err LoopSt → Prop
  | .error _ => True
  | .ok st => st.alloc ≠ [] ∨ st.temp = avail

theorem attemptAllocation_ne_P (cl : Cluster) (m : Mid) (t : Tid) (st : LoopSt)
    (h : st.alloc ≠ [] ∨ st.temp ≠ []) : (attemptAllocation cl m t st).alloc ≠ [] := by
  unfold attemptAllocation
  split
  · split
    · rename_i he
      rcases h with h | h
      · exact h
      · exact absurd he h
    · exact dictSet_ne_nil _ _ _
  · exact dictSet_ne_nil _ _ _

theorem greedyStep_allocNe_P (cl : Cluster) (plan : Plan) (view : Tid → TaskView)
    (acc : Except Err LoopSt) (t : Tid) (h : AllocNe acc) : AllocNe (greedyStep cl plan view acc t) := by
  cases acc with
  | error e => exact trivial
  | ok st =>
    unfold greedyStep
    dsimp -zeta only
    split
    · extract_lets status1 st1
      split
      · split
        · exact trivial
        · exact attemptAllocation_ne_P _ _ _ _ (Or.inl h)
      · split
        · exact trivial
        · split
          · exact attemptAllocation_ne_P _ _ _ _ (Or.inl h)
          · exact h
    · exact h

theorem attemptAllocation_temp_P (cl : Cluster) (m : Mid) (t : Tid) (st : LoopSt) :
    (attemptAllocation cl m t st).alloc ≠ [] ∨ (attemptAllocation cl m t st).temp = st.temp := by
  unfold attemptAllocation
  split
  · split
    · exact Or.inr rfl
    · exact Or.inl (dictSet_ne_nil _ _ _)
  · exact Or.inl (dictSet_ne_nil _ _ _)

theorem greedyStep_prog_P (cl : Cluster) (plan : Plan) (view : Tid → TaskView) (avail : List Mid)
    (acc : Except Err LoopSt) (t : Tid) (h : GrProg avail acc) :
    GrProg avail (greedyStep cl plan view acc t) := by
  cases acc with
  | error e => exact trivial
  | ok st =>
    rcases h with h | ht
    · have := greedyStep_allocNe_P cl plan view (.ok st) t h
      generalize greedyStep cl plan view (.ok st) t = r at this
      cases r with
      | error e => exact trivial
      | ok st' => exact Or.inl this
    · unfold greedyStep
      dsimp -zeta only
      split
      · extract_lets status1 st1
        have hatt : ∀ (m : Mid) (x : LoopSt), x.temp = st.temp →
            GrProg avail (.ok (attemptAllocation cl m t x)) := by
          intro m x hx
          rcases attemptAllocation_temp_P cl m t x with h1 | h1
          · exact Or.inl h1
          · exact Or.inr (h1.trans (hx.trans ht))
        split
        · split
          · exact trivial
          · exact hatt _ _ rfl
        · split
          · exact trivial
          · split
            · exact hatt _ _ rfl
            · exact Or.inr ht
      · exact Or.inr ht

theorem greedyStep_hit_P (cl : Cluster) (plan : Plan) (view : Tid → TaskView) (avail : List Mid)
    (hav : avail ≠ []) (acc : Except Err LoopSt) (T : Tid) (h : GrProg avail acc)
    (hu : (view T).status = .unscheduled)
    (hready : (view T).predIds.all (fun p => dictHas cl.finished p) = true) :
    AllocNe (greedyStep cl plan view acc T) := by
  cases acc with
  | error e => exact trivial
  | ok st =>
    have hst : st.alloc ≠ [] ∨ st.temp ≠ [] := by
      rcases h with h | h
      · exact Or.inl h
      · exact Or.inr (by rw [h]; exact hav)
    unfold greedyStep
    dsimp -zeta only
    rw [if_pos hu]
    extract_lets status1 st1
    split
    · split
      · exact trivial
      · exact attemptAllocation_ne_P _ _ _ _ hst
    · split
      · exact trivial
      · exact attemptAllocation_ne_P _ _ _ _ hst

theorem greedy_fold_hit_P (cl : Cluster) (plan : Plan) (view : Tid → TaskView) (avail : List Mid)
    (hav : avail ≠ []) (T : Tid) (hu : (view T).status = .unscheduled)
    (hready : (view T).predIds.all (fun p => dictHas cl.finished p) = true) :
    ∀ (l : List Tid) (acc : Except Err LoopSt), T ∈ l → GrProg avail acc →
      AllocNe (l.foldl (greedyStep cl plan view) acc) := by
  intro l
  induction l with
  | nil => intro acc h; simp at h
  | cons x r ih =>
    intro acc hT hp
    simp only [List.foldl_cons]
    by_cases e : x = T
    · subst e
      exact foldl_inv _ AllocNe (fun s a hs => greedyStep_allocNe_P cl plan view s a hs) r _
        (greedyStep_hit_P cl plan view avail hav acc x hp hu hready)
    · have hT' : T ∈ r := by
        rcases List.mem_cons.mp hT with h | h
        · exact absurd h.symm e
        · exact h
      exact ih _ hT' (greedyStep_prog_P cl plan view avail acc x hp)

end Alg

/-- progress of `DynamicSchedulingFromPlan.run`: a ready UNSCHEDULED task of the pool whose planned
machine (if the lookup succeeds) is in the available pool makes the returned schedule non-empty -/
theorem l7_dynamic_progress_P (cl : Cluster) (plan : Plan) (view : Tid → TaskView) (sc : List (Tid × Mid))
    (po : List Tid) (out : AlgOut) (T : Tid) (hT : T ∈ plan.tasks) (hp : T ∈ Alg.seedPool plan po)
    (hu : (view T).status = .unscheduled) (hready : Alg.predsFinished cl plan T = true)
    (hmach : ∀ m, (view T).machine = .ok m → m ∈ cl.available) (hav : cl.available ≠ [])
    (h : Alg.dynamicRun cl plan view sc po = .ok out) : out.schedule ≠ [] := by
  unfold Alg.dynamicRun at h
  extract_lets pool1 temp order at h
  have hTo : T ∈ order := by
    apply List.mem_mergeSort.mpr
    simp only [List.mem_filter, List.contains_eq_mem, decide_eq_true_eq]
    exact ⟨hT, hp⟩
  have hinv := Alg.dynamic_fold_hit_P cl plan view cl.available hav T hu hready hmach order
    (.ok { alloc := sc, temp := temp, removed := [], added := [], status := plan.status }) hTo
    (Or.inr ⟨rfl, rfl⟩)
  split at h
  · cases h
  · rename_i st heq
    have heq' : List.foldl (Alg.dynamicStep cl plan view cl.available.length)
        (.ok { alloc := sc, temp := temp, removed := [], added := [], status := plan.status }) order = .ok st := heq
    rw [heq'] at hinv
    injection h with h
    subst h
    exact hinv

/-- progress of `GreedySchedulingFromPlan.run` -/
theorem l7_greedy_progress_P (cl : Cluster) (plan : Plan) (view : Tid → TaskView) (sc : List (Tid × Mid))
    (po : List Tid) (out : AlgOut) (T : Tid) (hT : T ∈ plan.tasks)
    (hu : (view T).status = .unscheduled)
    (hready : (view T).predIds.all (fun p => dictHas cl.finished p) = true) (hav : cl.available ≠ [])
    (h : Alg.greedyRun cl plan view sc po = .ok out) : out.schedule ≠ [] := by
  unfold Alg.greedyRun at h
  have hinv := Alg.greedy_fold_hit_P cl plan view cl.available hav T hu hready plan.tasks
    (.ok { alloc := sc, temp := cl.available, removed := [], added := [], status := plan.status }) hT
    (Or.inr rfl)
  split at h
  · cases h
  · rename_i st heq
    rw [heq] at hinv
    injection h with h
    subst h
    exact hinv

/-- neither plan-following algorithm touches the cluster -/
theorem l7_planRun_cl_P (s1 : Sys) (orc : Oracle) (plan : Plan) (sc : List (Tid × Mid)) (po : List Tid)
    (out : AlgOut) (halg : PlanAlg s1.alg) (h : s1.runAlgorithm orc plan sc po = .ok out) :
    out.cl = s1.cl := by
  unfold Sys.runAlgorithm at h
  rcases halg with e | e
  · rw [e] at h
    exact dynamicRun_cl _ _ _ _ _ _ h
  · rw [e] at h
    simp only at h
    unfold Alg.greedyRun at h
    split at h
    · cases h
    · injection h with h
      subst h
      rfl

/-- the status either algorithm returns -/
theorem l7_planRun_status_P (s1 : Sys) (orc : Oracle) (plan : Plan) (sc : List (Tid × Mid)) (po : List Tid)
    (out : AlgOut) (halg : PlanAlg s1.alg) (h : s1.runAlgorithm orc plan sc po = .ok out) :
    plan.tasks = [] → out.status = .finished := by
  intro he
  unfold Sys.runAlgorithm at h
  rcases halg with e | e
  · rw [e] at h
    simp only at h
    unfold Alg.dynamicRun at h
    extract_lets pool1 temp order at h
    split at h
    · cases h
    · injection h with h
      subst h
      simp [Alg.finishStatus, he]
  · rw [e] at h
    simp only at h
    unfold Alg.greedyRun at h
    split at h
    · cases h
    · injection h with h
      subst h
      simp [Alg.finishStatus, he]

/-! ### the keys of the leftover schedule stay (greedy) -/

namespace Alg

def GKeep (sc : List (Tid × Mid)) : Except Err LoopSt → Prop
  | .error _ => True
  | .ok st => ∀ k ∈ dictKeys sc, k ∈ dictKeys st.alloc

theorem attemptAllocation_keep_P (cl : Cluster) (m : Mid) (t : Tid) (st : LoopSt) (k : Tid)
    (h : k ∈ dictKeys st.alloc) : k ∈ dictKeys (attemptAllocation cl m t st).alloc := by
  unfold attemptAllocation
  split
  · split
    · exact h
    · exact l7_keys_dictSet_of_mem _ _ _ _ h
  · exact l7_keys_dictSet_of_mem _ _ _ _ h

theorem greedyStep_keep_P (cl : Cluster) (plan : Plan) (view : Tid → TaskView) (sc : List (Tid × Mid))
    (acc : Except Err LoopSt) (t : Tid) (h : GKeep sc acc) : GKeep sc (greedyStep cl plan view acc t) := by
  cases acc with
  | error e => exact trivial
  | ok st =>
    unfold greedyStep
    dsimp -zeta only
    split
    · extract_lets status1 st1
      split
      · split
        · exact trivial
        · exact fun k hk => attemptAllocation_keep_P _ _ _ _ k (h k hk)
      · split
        · exact trivial
        · split
          · exact fun k hk => attemptAllocation_keep_P _ _ _ _ k (h k hk)
          · exact h
    · exact h

end Alg

/-- what a plan-following `run()` returns, in the vocabulary of `l7_queueRun`: the leftover keys stay;
for DynamicSchedulingFromPlan the pool arithmetic is that of QueueProcessing -/
theorem l7_algRun_P (s1 : Sys) (orc : Oracle) (plan : Plan) (sc : List (Tid × Mid)) (po : List Tid)
    (out : AlgOut) (halg : PlanAlg s1.alg) (h : s1.runAlgorithm orc plan sc po = .ok out) :
    ∃ removed added : List Tid,
      (∀ k ∈ dictKeys sc, k ∈ dictKeys out.schedule) ∧
      (∀ t ∈ removed, t ∈ dictKeys out.schedule) ∧
      (∀ k ∈ dictKeys out.schedule, k ∈ dictKeys sc ∨ k ∈ removed) ∧
      (s1.alg = .dynamic →
        (∀ t ∈ removed, ∀ x ∈ plan.succs t, x ∈ added) ∧
        (∀ t, t ∈ out.pool ↔ (t ∈ Alg.seedPool plan po ∧ t ∉ removed) ∨ t ∈ added)) := by
  unfold Sys.runAlgorithm at h
  rcases halg with e | e
  · rw [e] at h
    obtain ⟨removed, added, q1, q2, q3, q4, q5⟩ := l7_dynamicRun_P _ _ _ _ _ _ h
    exact ⟨removed, added, q1, q2, q4, fun _ => ⟨q3, q5⟩⟩
  · rw [e] at h
    simp only at h
    refine ⟨dictKeys out.schedule, [], ?_, fun t ht => ht, fun k hk => Or.inr hk,
      fun e' => by rw [e] at e'; cases e'⟩
    unfold Alg.greedyRun at h
    have hinv := foldl_inv (Alg.greedyStep s1.cl plan s1.taskView) (Alg.GKeep sc)
      (fun s a hs => Alg.greedyStep_keep_P s1.cl plan s1.taskView sc s a hs) plan.tasks
      (.ok { alloc := sc, temp := s1.cl.available, removed := [], added := [], status := plan.status })
      (fun k hk => hk)
    split at h
    · cases h
    · rename_i st heq
      rw [heq] at hinv
      injection h with h
      subst h
      exact hinv

/-! ### the machines a plan-following `run()` proposes -/

theorem dictSet_values_nodup_P {κ α} [DecidableEq κ] (d : List (κ × α)) (k : κ) (v : α)
    (hnd : (d.map (·.2)).Nodup) (hv : v ∉ d.map (·.2)) : ((dictSet d k v).map (·.2)).Nodup := by
  induction d with
  | nil => simp [dictSet]
  | cons p r ih =>
    obtain ⟨k', v'⟩ := p
    simp only [List.map_cons, List.nodup_cons, List.mem_cons, not_or] at hnd hv
    by_cases e : k' = k
    · simp only [dictSet, e, if_true, List.map_cons, List.nodup_cons]
      exact ⟨hv.2, hnd.2⟩
    · simp only [dictSet, e, if_false, List.map_cons, List.nodup_cons]
      refine ⟨?_, ih hnd.2 hv.2⟩
      intro hm
      obtain ⟨x, hx, ex⟩ := List.mem_map.mp hm
      rcases mem_dictSet hx with h1 | h1
      · rw [h1] at ex
        exact hv.1 ex
      · exact hnd.1 (List.mem_map.mpr ⟨x, h1, ex⟩)

namespace Alg

/-- the machines proposed so far are pairwise different, are no longer in the local copy of the
available pool, and come from the available pool -/
structure MD (avail : List Mid) (st : LoopSt) : Prop where
  tnd : st.temp.Nodup
  and : (st.alloc.map (·.2)).Nodup
  dis : ∀ p ∈ st.alloc, p.2 ∉ st.temp
  tav : ∀ m ∈ st.temp, m ∈ avail
  aav : ∀ p ∈ st.alloc, p.2 ∈ avail

def MDx (avail : List Mid) : Except Err LoopSt → Prop
  | .error _ => True
  | .ok st => MD avail st

theorem MD.assign {avail : List Mid} {st st' : LoopSt} (h : MD avail st) (t : Tid) (m : Mid) (hm : m ∈ st.temp)
    (ha : st'.alloc = dictSet st.alloc t m) (ht : st'.temp = st.temp.erase m) : MD avail st' := by
  have hnm : m ∉ st.alloc.map (·.2) := by
    intro hx
    obtain ⟨x, hx1, ex⟩ := List.mem_map.mp hx
    exact h.dis x hx1 (by rw [ex]; exact hm)
  refine ⟨by rw [ht]; exact h.tnd.erase m, by rw [ha]; exact dictSet_values_nodup_P _ _ _ h.and hnm, ?_, ?_, ?_⟩
  · intro p hp hpt
    rw [ha] at hp
    rw [ht] at hpt
    rcases mem_dictSet hp with h1 | h1
    · rw [h1] at hpt
      exact (List.Nodup.mem_erase_iff h.tnd).mp hpt |>.1 rfl
    · exact h.dis p h1 (List.mem_of_mem_erase hpt)
  · intro x hx
    rw [ht] at hx
    exact h.tav x (List.mem_of_mem_erase hx)
  · intro p hp
    rw [ha] at hp
    rcases mem_dictSet hp with h1 | h1
    · rw [h1]; exact h.tav m hm
    · exact h.aav p h1

theorem MD.status {avail : List Mid} {st st' : LoopSt} (h : MD avail st) (ha : st'.alloc = st.alloc)
    (ht : st'.temp = st.temp) : MD avail st' :=
  ⟨by rw [ht]; exact h.tnd, by rw [ha]; exact h.and, by rw [ha, ht]; exact h.dis, by rw [ht]; exact h.tav,
    by rw [ha]; exact h.aav⟩

theorem dynamicStep_md_P (cl : Cluster) (plan : Plan) (view : Tid → TaskView) (n : Nat) (avail : List Mid)
    (acc : Except Err LoopSt) (t : Tid) (h : MDx avail acc) : MDx avail (dynamicStep cl plan view n acc t) := by
  cases acc with
  | error e => exact trivial
  | ok st =>
    unfold dynamicStep
    dsimp -zeta only
    split
    · exact h
    split
    · exact MD.status h rfl rfl
    split
    · extract_lets status1 st1
      have h1 : MD avail st1 := MD.status h rfl rfl
      split
      · exact trivial
      · rename_i m hm
        split
        · exact h1
        · rename_i hcont
          have hmt : m ∈ st1.temp := by simpa using hcont
          split
          · exact h1.assign t m hmt rfl rfl
          · split
            · exact h1.assign t m hmt rfl rfl
            · exact h1
    · exact h

theorem attemptAllocation_md_P (cl : Cluster) (avail : List Mid) (m : Mid) (t : Tid) (st : LoopSt)
    (h : MD avail st) : MD avail (attemptAllocation cl m t st) := by
  unfold attemptAllocation
  split
  · split
    · exact h
    · rename_i m' rest htemp
      have hm' : m' ∈ st.temp := by rw [htemp]; exact List.mem_cons_self
      have herase : st.temp.erase m' = rest := by rw [htemp]; simp
      exact h.assign t m' hm' rfl herase.symm
  · rename_i hc
    have hmt : m ∈ st.temp := by
      simp only [not_or, Bool.not_eq_true, Bool.not_eq_false'] at hc
      simpa using hc.2
    exact h.assign t m hmt rfl rfl

theorem greedyStep_md_P (cl : Cluster) (plan : Plan) (view : Tid → TaskView) (avail : List Mid)
    (acc : Except Err LoopSt) (t : Tid) (h : MDx avail acc) : MDx avail (greedyStep cl plan view acc t) := by
  cases acc with
  | error e => exact trivial
  | ok st =>
    unfold greedyStep
    dsimp -zeta only
    split
    · extract_lets status1 st1
      have h1 : MD avail st1 := MD.status h rfl rfl
      split
      · split
        · exact trivial
        · exact attemptAllocation_md_P cl avail _ t _ (MD.status h1 rfl rfl)
      · split
        · exact trivial
        · split
          · exact attemptAllocation_md_P cl avail _ t _ h1
          · exact h1
    · exact h

/-- the loop does not raise when the machine lookup of every UNSCHEDULED task it visits succeeds -/
def IsOk : Except Err LoopSt → Prop
  | .error _ => False
  | .ok _ => True

theorem dynamicStep_ok_P (cl : Cluster) (plan : Plan) (view : Tid → TaskView) (n : Nat)
    (acc : Except Err LoopSt) (t : Tid) (h : IsOk acc)
    (hm : (view t).status = .unscheduled → ∃ m, (view t).machine = .ok m) :
    IsOk (dynamicStep cl plan view n acc t) := by
  cases acc with
  | error e => exact h
  | ok st =>
    unfold dynamicStep
    dsimp -zeta only
    split
    · exact trivial
    split
    · exact trivial
    split
    · rename_i hc
      extract_lets status1 st1
      obtain ⟨m, hmm⟩ := hm hc.1
      rw [hmm]
      dsimp only
      split
      · exact trivial
      · split
        · exact trivial
        · split <;> exact trivial
    · exact trivial

theorem greedyStep_ok_P (cl : Cluster) (plan : Plan) (view : Tid → TaskView)
    (acc : Except Err LoopSt) (t : Tid) (h : IsOk acc)
    (hm : (view t).status = .unscheduled → ∃ m, (view t).machine = .ok m) :
    IsOk (greedyStep cl plan view acc t) := by
  cases acc with
  | error e => exact h
  | ok st =>
    unfold greedyStep
    dsimp -zeta only
    split
    · rename_i hc
      extract_lets status1 st1
      obtain ⟨m, hmm⟩ := hm hc
      rw [hmm]
      dsimp only
      split
      · exact trivial
      · split <;> exact trivial
    · exact trivial

theorem fold_ok_P {f : Except Err LoopSt → Tid → Except Err LoopSt} {Q : Tid → Prop}
    (hstep : ∀ acc t, IsOk acc → Q t → IsOk (f acc t)) :
    ∀ (l : List Tid) (acc : Except Err LoopSt), IsOk acc → (∀ t ∈ l, Q t) → IsOk (l.foldl f acc) := by
  intro l
  induction l with
  | nil => intro acc h _; exact h
  | cons x r ih =>
    intro acc h hq
    exact ih _ (hstep acc x h (hq x List.mem_cons_self)) (fun t ht => hq t (List.mem_cons_of_mem _ ht))

end Alg

/-- the facts about a plan-following `run()` the no-raise invariants use (the counterpart of
`nc_queueRun_facts`) -/
theorem nc_planRun_facts_P (s1 : Sys) (orc : Oracle) (plan : Plan) (sched : List (Tid × Mid)) (pool : List Tid)
    (out : AlgOut) (halg : PlanAlg s1.alg) (h : s1.runAlgorithm orc plan sched pool = .ok out) :
    (∀ k ∈ dictKeys out.schedule, k ∈ dictKeys sched ∨ (k ∈ plan.tasks ∧ tstat s1 k = .unscheduled)) ∧
    ((dictKeys sched).Nodup → (dictKeys out.schedule).Nodup) ∧
    (out.status = .finished → plan.tasks = [] ∨ plan.status = .finished) ∧
    out.cl = s1.cl := by
  obtain ⟨g1, g2⟩ := Sys.runAlgorithm_sched s1 orc plan sched pool out halg.noOracle h
  exact ⟨g1, g2, fun hf => Sys.runAlgorithm_finished s1 orc plan sched pool out h hf,
    l7_planRun_cl_P s1 orc plan sched pool out halg h⟩

/-- with no leftover schedule, the machines a plan-following `run()` proposes are pairwise different
machines of the available pool -/
theorem nc_planRun_machines_P (s1 : Sys) (orc : Oracle) (plan : Plan) (pool : List Tid)
    (out : AlgOut) (halg : PlanAlg s1.alg) (hnd : s1.cl.available.Nodup)
    (h : s1.runAlgorithm orc plan [] pool = .ok out) :
    (out.schedule.map (·.2)).Nodup ∧ ∀ x ∈ out.schedule, x.2 ∈ s1.cl.available := by
  have h0 : Alg.MD s1.cl.available
      { alloc := [], temp := s1.cl.available, removed := [], added := [], status := plan.status } :=
    ⟨hnd, by simp, by simp, fun _ hm => hm, by simp⟩
  unfold Sys.runAlgorithm at h
  rcases halg with e | e
  · rw [e] at h
    simp only at h
    unfold Alg.dynamicRun at h
    extract_lets pool1 temp order at h
    have hinv := foldl_inv (Alg.dynamicStep s1.cl plan s1.taskView temp.length) (Alg.MDx s1.cl.available)
      (fun s a hs => Alg.dynamicStep_md_P s1.cl plan s1.taskView _ _ s a hs) order
      (.ok { alloc := [], temp := temp, removed := [], added := [], status := plan.status }) h0
    split at h
    · cases h
    · rename_i st heq
      rw [heq] at hinv
      injection h with h
      subst h
      exact ⟨hinv.and, hinv.aav⟩
  · rw [e] at h
    simp only at h
    unfold Alg.greedyRun at h
    have hinv := foldl_inv (Alg.greedyStep s1.cl plan s1.taskView) (Alg.MDx s1.cl.available)
      (fun s a hs => Alg.greedyStep_md_P s1.cl plan s1.taskView _ s a hs) plan.tasks
      (.ok { alloc := [], temp := s1.cl.available, removed := [], added := [], status := plan.status }) h0
    split at h
    · cases h
    · rename_i st heq
      rw [heq] at hinv
      injection h with h
      subst h
      exact ⟨hinv.and, hinv.aav⟩

/-- a plan-following `run()` does not raise when the machine lookup succeeds for every UNSCHEDULED
task of the plan -/
theorem nc_planRun_ok_P (s1 : Sys) (orc : Oracle) (plan : Plan) (sched : List (Tid × Mid)) (pool : List Tid)
    (halg : PlanAlg s1.alg)
    (hview : ∀ t ∈ plan.tasks, (s1.taskView t).status = .unscheduled → ∃ m, (s1.taskView t).machine = .ok m) :
    ∃ out, s1.runAlgorithm orc plan sched pool = .ok out := by
  unfold Sys.runAlgorithm
  rcases halg with e | e
  · rw [e]
    simp only
    unfold Alg.dynamicRun
    extract_lets pool1 temp order
    have hinv := Alg.fold_ok_P (f := Alg.dynamicStep s1.cl plan s1.taskView temp.length)
      (Q := fun t => (s1.taskView t).status = .unscheduled → ∃ m, (s1.taskView t).machine = .ok m)
      (fun acc t h hq => Alg.dynamicStep_ok_P s1.cl plan s1.taskView _ acc t h hq) order
      (.ok { alloc := sched, temp := temp, removed := [], added := [], status := plan.status }) trivial
      (fun t ht => hview t (List.mem_filter.mp (List.mem_mergeSort.mp ht)).1)
    split
    · rename_i e' heq
      rw [heq] at hinv
      exact absurd hinv (by simp [Alg.IsOk])
    · exact ⟨_, rfl⟩
  · rw [e]
    simp only
    unfold Alg.greedyRun
    have hinv := Alg.fold_ok_P (f := Alg.greedyStep s1.cl plan s1.taskView)
      (Q := fun t => (s1.taskView t).status = .unscheduled → ∃ m, (s1.taskView t).machine = .ok m)
      (fun acc t h hq => Alg.greedyStep_ok_P s1.cl plan s1.taskView acc t h hq) plan.tasks
      (.ok { alloc := sched, temp := s1.cl.available, removed := [], added := [], status := plan.status }) trivial
      hview
    split
    · rename_i e' heq
      rw [heq] at hinv
      exact absurd hinv (by simp [Alg.IsOk])
    · exact ⟨_, rfl⟩

namespace Alg

/-- every proposal is a leftover proposal or names a machine of the available pool -/
def GAv (cl : Cluster) (sched : List (Tid × Mid)) : Except Err LoopSt → Prop
  | .error _ => True
  | .ok st => (∀ m ∈ st.temp, m ∈ cl.available) ∧ ∀ p ∈ st.alloc, p ∈ sched ∨ p.2 ∈ cl.available

theorem attemptAllocation_av_P (cl : Cluster) (sched : List (Tid × Mid)) (m : Mid) (t : Tid) (st : LoopSt)
    (h : GAv cl sched (.ok st)) : GAv cl sched (.ok (attemptAllocation cl m t st)) := by
  unfold attemptAllocation
  split
  · split
    · exact h
    · rename_i m' rest htemp
      have hm' : m' ∈ st.temp := by rw [htemp]; exact List.mem_cons_self
      refine ⟨fun x hx => h.1 x (by rw [htemp]; exact List.mem_cons_of_mem _ hx), fun p hp => ?_⟩
      rcases mem_dictSet hp with h1 | h1
      · rw [h1]; exact Or.inr (h.1 m' hm')
      · exact h.2 p h1
  · rename_i hc
    have hmt : m ∈ st.temp := by
      simp only [not_or, Bool.not_eq_true, Bool.not_eq_false'] at hc
      simpa using hc.2
    refine ⟨fun x hx => h.1 x (List.mem_of_mem_erase hx), fun p hp => ?_⟩
    rcases mem_dictSet hp with h1 | h1
    · rw [h1]; exact Or.inr (h.1 m hmt)
    · exact h.2 p h1

theorem greedyStep_av_P (cl : Cluster) (plan : Plan) (view : Tid → TaskView) (sched : List (Tid × Mid))
    (acc : Except Err LoopSt) (t : Tid) (h : GAv cl sched acc) : GAv cl sched (greedyStep cl plan view acc t) := by
  cases acc with
  | error e => exact trivial
  | ok st =>
    unfold greedyStep
    dsimp -zeta only
    split
    · extract_lets status1 st1
      have h1 : GAv cl sched (.ok st1) := h
      split
      · split
        · exact trivial
        · exact attemptAllocation_av_P cl sched _ t _ h
      · split
        · exact trivial
        · split
          · exact attemptAllocation_av_P cl sched _ t _ h1
          · exact h1
    · exact h

end Alg

/-- every proposal of a plan-following `run()` is a leftover proposal or names a machine of the
available pool -/
theorem nc_planRun_avail_P (s1 : Sys) (orc : Oracle) (plan : Plan) (sched : List (Tid × Mid)) (pool : List Tid)
    (out : AlgOut) (halg : PlanAlg s1.alg) (h : s1.runAlgorithm orc plan sched pool = .ok out) :
    ∀ x ∈ out.schedule, x ∈ sched ∨ x.2 ∈ s1.cl.available := by
  unfold Sys.runAlgorithm at h
  rcases halg with e | e
  · rw [e] at h
    intro x hx
    by_cases hs : x ∈ sched
    · exact Or.inl hs
    · exact Or.inr (dynamic_machine_available _ _ _ _ _ _ h x hx hs)
  · rw [e] at h
    simp only at h
    unfold Alg.greedyRun at h
    have hinv := foldl_inv (Alg.greedyStep s1.cl plan s1.taskView) (Alg.GAv s1.cl sched)
      (fun s a hs => Alg.greedyStep_av_P s1.cl plan s1.taskView sched s a hs) plan.tasks
      (.ok { alloc := sched, temp := s1.cl.available, removed := [], added := [], status := plan.status })
      ⟨fun _ hm => hm, fun _ hp => Or.inl hp⟩
    split at h
    · cases h
    · rename_i st heq
      rw [heq] at hinv
      injection h with h
      subst h
      exact hinv.2

/-! ### the planned machine of a ready task is used in that run (dynamic) -/

theorem dictSet_fresh_P {κ α} [DecidableEq κ] (d : List (κ × α)) (k : κ) (v : α) (h : dictHas d k = false) :
    (dictSet d k v).length = d.length + 1 ∧ ∀ x ∈ d, x ∈ dictSet d k v := by
  induction d with
  | nil => simp [dictSet]
  | cons p r ih =>
    obtain ⟨k', v'⟩ := p
    have hne : k' ≠ k := by
      intro e
      unfold dictHas dictGet at h
      simp [e] at h
    have hr : dictHas r k = false := by
      unfold dictHas dictGet at h
      simp only [hne, if_false] at h
      exact h
    obtain ⟨i1, i2⟩ := ih hr
    simp only [dictSet, hne, if_false, List.length_cons]
    refine ⟨by omega, ?_⟩
    intro x hx
    rcases List.mem_cons.mp hx with e | e
    · rw [e]; exact List.mem_cons_self
    · exact List.mem_cons_of_mem _ (i2 x e)

namespace Alg

structure DU (m : Mid) (n : Nat) (st : LoopSt) : Prop where
  len : st.alloc.length + st.temp.length = n
  hit : m ∈ st.temp ∨ ∃ x ∈ st.alloc, x.2 = m
  stp : st.stop = true → st.temp = []

def DUx (m : Mid) (n : Nat) : Except Err LoopSt → Prop
  | .error _ => True
  | .ok st => DU m n st

def Used (m : Mid) : Except Err LoopSt → Prop
  | .error _ => True
  | .ok st => ∃ x ∈ st.alloc, x.2 = m

theorem DU.assign {m : Mid} {n : Nat} {st st' : LoopSt} (h : DU m n st) (t : Tid) (m' : Mid)
    (hf : dictHas st.alloc t = false) (hm' : m' ∈ st.temp)
    (ha : st'.alloc = dictSet st.alloc t m') (ht : st'.temp = st.temp.erase m') (hs : st'.stop = st.stop) :
    DU m n st' := by
  obtain ⟨l1, l2⟩ := dictSet_fresh_P st.alloc t m' hf
  have hlen : (st.temp.erase m').length = st.temp.length - 1 := List.length_erase_of_mem hm'
  have hpos : 0 < st.temp.length := List.length_pos_of_mem hm'
  refine ⟨by rw [ha, ht, l1, hlen]; have := h.len; omega, ?_, ?_⟩
  · rcases h.hit with h1 | ⟨x, hx, e⟩
    · by_cases e : m = m'
      · right
        refine ⟨(t, m'), ?_, e.symm⟩
        rw [ha]
        have : (t, m') ∈ dictSet st.alloc t m' := by
          have := dictGet_dictSet_self st.alloc t m'
          exact dictGet_some_mem this
        exact this
      · left
        rw [ht]
        exact (List.mem_erase_of_ne e).mpr h1
    · exact Or.inr ⟨x, by rw [ha]; exact l2 x hx, e⟩
  · intro hst
    rw [hs] at hst
    rw [ht, h.stp hst]
    rfl

theorem dynamicStep_du_P (cl : Cluster) (plan : Plan) (view : Tid → TaskView) (m : Mid) (n : Nat)
    (acc : Except Err LoopSt) (t : Tid) (h : DUx m n acc) : DUx m n (dynamicStep cl plan view n acc t) := by
  cases acc with
  | error e => exact trivial
  | ok st =>
    unfold dynamicStep
    dsimp -zeta only
    split
    · exact h
    split
    · rename_i hge
      refine ⟨h.len, h.hit, fun _ => ?_⟩
      have := h.len
      have h0 : st.temp.length = 0 := by omega
      exact List.length_eq_zero_iff.mp h0
    split
    · rename_i hc
      extract_lets status1 st1
      have h1 : DU m n st1 := ⟨h.len, h.hit, h.stp⟩
      have hf : dictHas st1.alloc t = false := by
        have := hc.2.1
        simpa [schedHas] using this
      split
      · exact trivial
      · rename_i m' hm'
        split
        · exact h1
        · rename_i hcont
          have hmt : m' ∈ st1.temp := by simpa using hcont
          split
          · exact h1.assign t m' hf hmt rfl rfl rfl
          · split
            · exact h1.assign t m' hf hmt rfl rfl rfl
            · exact h1
    · exact h

theorem dynamicStep_used_P (cl : Cluster) (plan : Plan) (view : Tid → TaskView) (m : Mid) (n : Nat)
    (acc : Except Err LoopSt) (t : Tid) (h : Used m acc) : Used m (dynamicStep cl plan view n acc t) := by
  cases acc with
  | error e => exact trivial
  | ok st =>
    obtain ⟨x, hx, e⟩ := h
    unfold dynamicStep
    dsimp -zeta only
    split
    · exact ⟨x, hx, e⟩
    split
    · exact ⟨x, hx, e⟩
    split
    · rename_i hc
      extract_lets status1 st1
      have hf : dictHas st1.alloc t = false := by
        have := hc.2.1
        simpa [schedHas] using this
      split
      · exact trivial
      · split
        · exact ⟨x, hx, e⟩
        · split
          · exact ⟨x, (dictSet_fresh_P st1.alloc t _ hf).2 x hx, e⟩
          · split
            · exact ⟨x, (dictSet_fresh_P st1.alloc t _ hf).2 x hx, e⟩
            · exact ⟨x, hx, e⟩
    · exact ⟨x, hx, e⟩

/-- the step on a ready UNSCHEDULED task planned on `m` -/
theorem dynamicStep_duhit_P (cl : Cluster) (plan : Plan) (view : Tid → TaskView) (m : Mid) (n : Nat)
    (acc : Except Err LoopSt) (T : Tid) (h : DUx m n acc)
    (hview : match acc with | .error _ => True | .ok st => ∀ x ∈ st.alloc, x.1 = T → x.2 = m)
    (hu : (view T).status = .unscheduled) (hready : predsFinished cl plan T = true)
    (hmach : (view T).machine = .ok m) : Used m (dynamicStep cl plan view n acc T) := by
  cases acc with
  | error e => exact trivial
  | ok st =>
    rcases h.hit with hmt | hused
    · have htne : st.temp ≠ [] := List.ne_nil_of_mem hmt
      unfold dynamicStep
      dsimp -zeta only
      rw [if_neg (fun hs => htne (h.stp hs))]
      have hlen : ¬ (st.alloc.length ≥ n) := by
        have := h.len
        have : 0 < st.temp.length := List.length_pos_of_mem hmt
        omega
      rw [if_neg hlen]
      by_cases hin : dictHas st.alloc T = true
      · -- already proposed in this run: on its planned machine
        have hcond : ¬ ((view T).status = .unscheduled ∧ (!schedHas st.alloc T) = true ∧ st.temp.length > 0) := by
          intro hc
          have := hc.2.1
          simp [schedHas, hin] at this
        rw [if_neg hcond]
        unfold dictHas at hin
        cases hg : dictGet st.alloc T with
        | none => rw [hg] at hin; cases hin
        | some m' =>
          have hmem := dictGet_some_mem hg
          exact ⟨(T, m'), hmem, hview (T, m') hmem rfl⟩
      · have hcond : (view T).status = .unscheduled ∧ (!schedHas st.alloc T) = true ∧ st.temp.length > 0 := by
          refine ⟨hu, ?_, List.length_pos_of_mem hmt⟩
          simpa [schedHas] using hin
        rw [if_pos hcond]
        extract_lets status1 st1
        rw [hmach]
        dsimp only
        have hc : ¬ ((!st1.temp.contains m) = true) := by
          have : m ∈ st1.temp := hmt
          simp [this]
        rw [if_neg hc]
        have hself : (T, m) ∈ dictSet st1.alloc T m := dictGet_some_mem (dictGet_dictSet_self st1.alloc T m)
        split
        · exact ⟨(T, m), hself, rfl⟩
        · exact ⟨(T, m), hself, rfl⟩
    · exact dynamicStep_used_P cl plan view m n (.ok st) T hused

end Alg

/-- **Under DynamicSchedulingFromPlan a ready task whose planned machine is available is started in
that run, or a task of the same plan that comes before it in the planned-start order is started on
that machine.**  `T` a task of the plan and of the pool, UNSCHEDULED, predecessors reported
finished, planned on `m` (the lookup succeeds), `m` in the available pool, no leftover schedule, and
`run()` does not raise: some proposal of the run is on `m`, for a task planned on `m`. -/
theorem l7_dynamic_machine_used_P (cl : Cluster) (plan : Plan) (view : Tid → TaskView)
    (po : List Tid) (out : AlgOut) (T : Tid) (m : Mid) (hT : T ∈ plan.tasks) (hp : T ∈ Alg.seedPool plan po)
    (hu : (view T).status = .unscheduled) (hready : Alg.predsFinished cl plan T = true)
    (hmach : (view T).machine = .ok m) (hav : m ∈ cl.available)
    (h : Alg.dynamicRun cl plan view [] po = .ok out) :
    ∃ x ∈ out.schedule, x.2 = m ∧ (view x.1).machine = .ok m := by
  have hpm := dynamic_planned_machine cl plan view [] po out h
  unfold Alg.dynamicRun at h
  extract_lets pool1 temp order at h
  have hTo : T ∈ order := by
    apply List.mem_mergeSort.mpr
    simp only [List.mem_filter, List.contains_eq_mem, decide_eq_true_eq]
    exact ⟨hT, hp⟩
  -- the fold, with the invariants `DU` (until `T`) and `Used` (from `T` on), and the planned machines
  have key : ∀ (l : List Tid) (acc : Except Err Alg.LoopSt), T ∈ l → Alg.DUx m temp.length acc →
      Alg.DynInv cl plan view [] acc →
      Alg.Used m (l.foldl (Alg.dynamicStep cl plan view temp.length) acc) := by
    intro l
    induction l with
    | nil => intro acc hin; simp at hin
    | cons x r ih =>
      intro acc hin hdu hdi
      simp only [List.foldl_cons]
      by_cases e : x = T
      · subst e
        refine foldl_inv _ (Alg.Used m) (fun s a hs => Alg.dynamicStep_used_P cl plan view m _ s a hs) r _ ?_
        refine Alg.dynamicStep_duhit_P cl plan view m _ acc x hdu ?_ hu hready hmach
        cases acc with
        | error e => exact trivial
        | ok st =>
          intro y hy ey
          rcases hdi.2 y hy with h1 | ⟨_, h2, _⟩
          · simp at h1
          · rw [ey, hmach] at h2
            injection h2 with h2
            exact h2.symm
      · have hT' : T ∈ r := by
          rcases List.mem_cons.mp hin with h1 | h1
          · exact absurd h1.symm e
          · exact h1
        exact ih _ hT' (Alg.dynamicStep_du_P cl plan view m _ acc x hdu)
          (Alg.dynamicStep_inv cl plan view _ [] acc x hdi)
  have hfin := key order
    (.ok { alloc := [], temp := temp, removed := [], added := [], status := plan.status }) hTo
    ⟨by simp, Or.inl hav, by intro h0; cases h0⟩ ⟨fun _ hm => hm, fun _ hp => Or.inl hp⟩
  split at h
  · cases h
  · rename_i st heq
    rw [heq] at hfin
    injection h with h
    subst h
    obtain ⟨x, hx, e⟩ := hfin
    refine ⟨x, hx, e, ?_⟩
    have := hpm x hx (by simp)
    rw [e] at this
    exact this

end Topsim
