/-
  IngestLimit2 — the ledger invariant `ILC` under the elementary changes of the
  process table and of the ghost list of ingest allocation processes:
  appending processes the ledger does not read, shrinking the ghost list,
  replacing the entry of the process that ran.
-/
import TopsimProofs.IngestLimit1

namespace Topsim

/-! ### the list of live supervisors -/

theorem ilLiveAI_append (a b : List Proc) : ilLiveAI (a ++ b) = ilLiveAI a ++ ilLiveAI b := by
  unfold ilLiveAI; exact List.filterMap_append

theorem ilLiveAI_cons_some {p : Proc} {o : Oid} (h : ilAiLive p = some o) (ps : List Proc) :
    ilLiveAI (p :: ps) = o :: ilLiveAI ps := by
  unfold ilLiveAI; rw [List.filterMap_cons, h]

theorem ilLiveAI_cons_none {p : Proc} (h : ilAiLive p = none) (ps : List Proc) :
    ilLiveAI (p :: ps) = ilLiveAI ps := by
  unfold ilLiveAI; rw [List.filterMap_cons, h]

theorem ilAiLive_none_of_aiObs {p : Proc} (h : p.k.aiObs = none) : ilAiLive p = none := by
  unfold ilAiLive; split <;> simp [h]

theorem ilAiLive_none_of_dead {p : Proc} (h : p.alive = false) : ilAiLive p = none := by
  unfold ilAiLive; simp [h]

theorem ilLiveAI_neutral {new : List Proc} (hn : ∀ q ∈ new, q.k.aiObs = none) : ilLiveAI new = [] := by
  induction new with
  | nil => rfl
  | cons x r ih =>
    rw [ilLiveAI_cons_none (ilAiLive_none_of_aiObs (hn x (by simp)))]
    exact ih (fun q hq => hn q (List.mem_cons_of_mem _ hq))

/-- replacing one entry by an entry that is dead or stands for the same observation -/
theorem ilLiveAI_replace_sublist (l1 l2 : List Proc) {p p' : Proc}
    (h : ilAiLive p' = none ∨ ilAiLive p' = ilAiLive p) :
    (ilLiveAI (l1 ++ p' :: l2)).Sublist (ilLiveAI (l1 ++ p :: l2)) := by
  rw [ilLiveAI_append, ilLiveAI_append]
  apply List.Sublist.append (List.Sublist.refl _)
  rcases h with h | h
  · rw [ilLiveAI_cons_none h]
    cases hp : ilAiLive p with
    | none => rw [ilLiveAI_cons_none hp]; exact List.Sublist.refl _
    | some o => rw [ilLiveAI_cons_some hp]; exact List.sublist_cons_self _ _
  · cases hp : ilAiLive p with
    | none => rw [ilLiveAI_cons_none hp, ilLiveAI_cons_none (h.trans hp)]; exact List.Sublist.refl _
    | some o => rw [ilLiveAI_cons_some hp, ilLiveAI_cons_some (h.trans hp)]; exact List.Sublist.refl _

theorem ilLiveAI_replace_eq (l1 l2 : List Proc) {p p' : Proc} (h : ilAiLive p' = ilAiLive p) :
    ilLiveAI (l1 ++ p' :: l2) = ilLiveAI (l1 ++ p :: l2) := by
  rw [ilLiveAI_append, ilLiveAI_append]
  congr 1
  cases hp : ilAiLive p with
  | none => rw [ilLiveAI_cons_none hp, ilLiveAI_cons_none (h.trans hp)]
  | some o => rw [ilLiveAI_cons_some hp, ilLiveAI_cons_some (h.trans hp)]

theorem mem_replace {α} {l1 l2 : List α} {p p' q : α} (h : q ∈ l1 ++ p' :: l2) :
    q = p' ∨ ((q ∈ l1 ∨ q ∈ l2) ∧ q ∈ l1 ++ p :: l2) := by
  rw [List.mem_append, List.mem_cons] at h
  rcases h with h | h | h
  · exact Or.inr ⟨Or.inl h, by simp [h]⟩
  · exact Or.inl h
  · exact Or.inr ⟨Or.inr h, by simp [h]⟩

theorem mem_replace_of_side {α} {l1 l2 : List α} {p' q : α} (h : q ∈ l1 ∨ q ∈ l2) :
    q ∈ l1 ++ p' :: l2 := by
  rcases h with h | h <;> simp [h]

/-! ### the parts of the invariant that only go down -/

theorem il_mem_of_countP {E E' : List RunEntry}
    (hE : ∀ P : RunEntry → Bool, E'.countP P ≤ E.countP P) {e : RunEntry} (he : e ∈ E') : e ∈ E := by
  have h1 : 0 < E'.countP (fun x => x == e) := List.countP_pos_iff.mpr ⟨e, he, by simp⟩
  have h2 := hE (fun x => x == e)
  obtain ⟨a, ha, hae⟩ := List.countP_pos_iff.mp (Nat.lt_of_lt_of_le h1 h2)
  have : a = e := by simpa using hae
  exact this ▸ ha

/-- the counter, the per-observation bound and the ghost list, when the live supervisors, the
unprovisioned observations and the ghost list only shrink -/
theorem ILC.mono_core {ps ps' : List Proc} {dem : Oid → Nat} {E E' : List RunEntry} {P : Int} {M : Nat}
    {adm : List Oid} (h : ILC ps dem E P M adm)
    (hA : (ilLiveAI ps').Sublist (ilLiveAI ps))
    (hU : ∀ o, ilUnprovisioned ps' o = true → ilUnprovisioned ps o = true)
    (hE : ∀ Q : RunEntry → Bool, E'.countP Q ≤ E.countP Q)
    (h1 : ∀ p ∈ ps', ∀ o, p.k.aiObs = some o → o ∈ adm)
    (h2 : ∀ p ∈ ps', ∀ q ∈ ps', ∀ o, p.k.aiObs = some o → q.k.aiObs = some o → p.pid = q.pid)
    (h3 : ∀ q ∈ ps', q.alive = true → q.pc = 0 → ∀ o d, q.k = .provIngest o d →
      d = dem o ∧ ∃ p ∈ ps', p.alive = true ∧ 1 ≤ p.pc ∧ p.k.aiObs = some o ∧ q.wake < p.wake) :
    ILC ps' dem E' P M adm ∧ ilPromised ps' dem ≤ ilPromised ps dem := by
  have hpt : ∀ o, ilPromisedTo ps' dem o ≤ ilPromisedTo ps dem o := fun o => ilPromisedTo_mono (hU o)
  refine ⟨⟨?_, h.cap, ?_, h1, h2, ?_, h3⟩, ?_⟩
  · have := il_sum_sublist dem hA
    have := h.owed
    omega
  · intro o ho
    have := h.perObs o (hA.subset ho)
    have := hpt o
    have : ilEntCount E' o ≤ ilEntCount E o := hE _
    omega
  · intro e he o ho
    exact h.entAdm e (il_mem_of_countP hE he) o ho
  · unfold ilPromised
    exact Nat.le_trans (il_sum_le_of_le _ _ _ (fun o _ => hpt o)) (il_sum_sublist _ hA)

/-! ### appending processes the ledger does not read -/

theorem ilUnprovisioned_append_neutral (ps new : List Proc)
    (hn : ∀ q ∈ new, q.k.aiObs = none ∧ q.k.piObs = none) (o : Oid) :
    ilUnprovisioned (ps ++ new) o = ilUnprovisioned ps o := by
  rw [Bool.eq_iff_iff, ilUnprovisioned_iff, ilUnprovisioned_iff]
  constructor
  · rintro ⟨p, hp, h1, h2, h3⟩
    rcases List.mem_append.mp hp with hp | hp
    · exact ⟨p, hp, h1, h2, h3⟩
    · have := hn p hp
      rw [this.1, this.2] at h3
      simp at h3
  · rintro ⟨p, hp, h⟩; exact ⟨p, List.mem_append_left _ hp, h⟩

theorem ilPromised_append_neutral (ps new : List Proc) (dem : Oid → Nat)
    (hn : ∀ q ∈ new, q.k.aiObs = none ∧ q.k.piObs = none) :
    ilPromised (ps ++ new) dem = ilPromised ps dem := by
  unfold ilPromised
  rw [ilLiveAI_append, ilLiveAI_neutral (fun q hq => (hn q hq).1), List.append_nil]
  apply congrArg
  apply List.map_congr_left
  intro o _
  unfold ilPromisedTo
  rw [ilUnprovisioned_append_neutral ps new hn o]

theorem ILC.append_neutral {ps : List Proc} {dem : Oid → Nat} {E : List RunEntry} {P : Int} {M : Nat}
    {adm : List Oid} (h : ILC ps dem E P M adm) (new : List Proc)
    (hn : ∀ q ∈ new, q.k.aiObs = none ∧ q.k.piObs = none) : ILC (ps ++ new) dem E P M adm := by
  have hA : ilLiveAI (ps ++ new) = ilLiveAI ps := by
    rw [ilLiveAI_append, ilLiveAI_neutral (fun q hq => (hn q hq).1), List.append_nil]
  refine (h.mono_core (by rw [hA]; exact List.Sublist.refl _)
    (fun o ho => by rw [ilUnprovisioned_append_neutral ps new hn o] at ho; exact ho)
    (fun _ => Nat.le_refl _) ?_ ?_ ?_).1
  · intro p hp o ho
    rcases List.mem_append.mp hp with hp | hp
    · exact h.aiAdm p hp o ho
    · rw [(hn p hp).1] at ho; exact absurd ho (by simp)
  · intro p hp q hq o ho ho'
    rcases List.mem_append.mp hp with hp | hp
    · rcases List.mem_append.mp hq with hq | hq
      · exact h.aiUniq p hp q hq o ho ho'
      · rw [(hn q hq).1] at ho'; exact absurd ho' (by simp)
    · rw [(hn p hp).1] at ho; exact absurd ho (by simp)
  · intro q hq hqa hqc o d hqk
    rcases List.mem_append.mp hq with hq | hq
    · obtain ⟨e, p, hp, r⟩ := h.piLive q hq hqa hqc o d hqk
      exact ⟨e, p, List.mem_append_left _ hp, r⟩
    · have := (hn q hq).2
      rw [hqk] at this; exact absurd this (by simp [PK.piObs])

/-! ### shrinking the ghost list -/

theorem ILC.shrink {ps : List Proc} {dem : Oid → Nat} {E E' : List RunEntry} {P : Int} {M : Nat}
    {adm : List Oid} (h : ILC ps dem E P M adm)
    (hE : ∀ Q : RunEntry → Bool, E'.countP Q ≤ E.countP Q) : ILC ps dem E' P M adm :=
  (h.mono_core (List.Sublist.refl _) (fun _ ho => ho) hE h.aiAdm h.aiUniq h.piLive).1

/-! ### replacing the entry of the process that ran -/

theorem ilUnprovisioned_replace {l1 l2 : List Proc} {p p' : Proc}
    (hun : ∀ o, ilUnprov o p' = true → ilUnprov o p = true) (o : Oid)
    (h : ilUnprovisioned (l1 ++ p' :: l2) o = true) : ilUnprovisioned (l1 ++ p :: l2) o = true := by
  unfold ilUnprovisioned at h ⊢
  rw [List.any_eq_true] at h ⊢
  obtain ⟨q, hq, hqu⟩ := h
  rcases mem_replace (p := p) hq with rfl | ⟨_, hq⟩
  · exact ⟨p, by simp, hun o hqu⟩
  · exact ⟨q, hq, hqu⟩

/-- the entry of the process that ran is replaced by one with the same pid and the same
observation, that is not newly alive and not newly unprovisioned; the old entry was nobody's
witness of a live supervisor -/
theorem ILC.replace {l1 l2 : List Proc} {p p' : Proc} {dem : Oid → Nat} {E : List RunEntry} {P : Int}
    {M : Nat} {adm : List Oid} (h : ILC (l1 ++ p :: l2) dem E P M adm)
    (hai : p'.k.aiObs = p.k.aiObs) (hpid : p'.pid = p.pid)
    (halive : p'.alive = true → p.alive = true)
    (hun : ∀ o, ilUnprov o p' = true → ilUnprov o p = true)
    (hnw : ∀ q, q ∈ l1 ∨ q ∈ l2 → q.alive = true → q.pc = 0 → ∀ o d, q.k = .provIngest o d →
      ¬ (p.alive = true ∧ 1 ≤ p.pc ∧ p.k.aiObs = some o ∧ q.wake < p.wake))
    (hpi : p'.alive = true → p'.pc = 0 → ∀ o d, p'.k ≠ .provIngest o d) :
    ILC (l1 ++ p' :: l2) dem E P M adm ∧
      ilPromised (l1 ++ p' :: l2) dem ≤ ilPromised (l1 ++ p :: l2) dem := by
  have hlive : ilAiLive p' = none ∨ ilAiLive p' = ilAiLive p := by
    by_cases ha : p'.alive = true
    · right; unfold ilAiLive; rw [if_pos ha, if_pos (halive ha), hai]
    · left; exact ilAiLive_none_of_dead (by simpa using ha)
  -- every entry of the new table stands for an entry of the old one
  have back : ∀ q ∈ l1 ++ p' :: l2, ∃ q0 ∈ l1 ++ p :: l2, q0.pid = q.pid ∧ q0.k.aiObs = q.k.aiObs := by
    intro q hq
    rcases mem_replace (p := p) hq with rfl | ⟨_, hq⟩
    · exact ⟨p, by simp, hpid.symm, hai.symm⟩
    · exact ⟨q, hq, rfl, rfl⟩
  refine h.mono_core (ilLiveAI_replace_sublist l1 l2 hlive) (ilUnprovisioned_replace hun)
    (fun _ => Nat.le_refl _) ?_ ?_ ?_
  · intro q hq o ho
    obtain ⟨q0, hq0, _, e⟩ := back q hq
    exact h.aiAdm q0 hq0 o (e.trans ho)
  · intro q1 hq1 q2 hq2 o ho1 ho2
    obtain ⟨a, ha, ea, ka⟩ := back q1 hq1
    obtain ⟨b, hb, eb, kb⟩ := back q2 hq2
    rw [← ea, ← eb]
    exact h.aiUniq a ha b hb o (ka.trans ho1) (kb.trans ho2)
  · intro q hq hqa hqc o d hqk
    rcases mem_replace (p := p) hq with rfl | ⟨hside, hq⟩
    · exact absurd hqk (hpi hqa hqc o d)
    · obtain ⟨e, w, hw, w1, w2, w3, w4⟩ := h.piLive q hq hqa hqc o d hqk
      refine ⟨e, w, ?_, w1, w2, w3, w4⟩
      rw [List.mem_append, List.mem_cons] at hw
      rcases hw with hw | rfl | hw
      · exact mem_replace_of_side (Or.inl hw)
      · exact absurd ⟨w1, w2, w3, w4⟩ (hnw q hside hqa hqc o d hqk)
      · exact mem_replace_of_side (Or.inr hw)

/-! ### the supervisor's last block -/

/-- the supervisor ends: its entry dies and the counter goes down by the demand -/
theorem ILC.epilogue {l1 l2 : List Proc} {p p' : Proc} {dem : Oid → Nat} {E : List RunEntry} {P : Int}
    {M : Nat} {adm : List Oid} {o : Oid} (h : ILC (l1 ++ p :: l2) dem E P M adm)
    (hpa : p.alive = true) (hpk : p.k.aiObs = some o)
    (hai : p'.k.aiObs = p.k.aiObs) (hpid : p'.pid = p.pid) (hdead : p'.alive = false)
    (hnw : ∀ q, q ∈ l1 ∨ q ∈ l2 → q.alive = true → q.pc = 0 → ∀ o d, q.k = .provIngest o d →
      ¬ (p.alive = true ∧ 1 ≤ p.pc ∧ p.k.aiObs = some o ∧ q.wake < p.wake)) :
    ILC (l1 ++ p' :: l2) dem E (P - (dem o : Nat)) M adm ∧
      ilPromised (l1 ++ p' :: l2) dem ≤ ilPromised (l1 ++ p :: l2) dem := by
  have hun : ∀ o, ilUnprov o p' = true → ilUnprov o p = true := by
    intro o' ho'
    have := (ilUnprov_iff.mp ho').1
    rw [hdead] at this; exact absurd this (by simp)
  obtain ⟨hc, hl⟩ := h.replace hai hpid (fun ha => by rw [hdead] at ha; exact absurd ha (by simp)) hun hnw
    (fun ha => by rw [hdead] at ha; exact absurd ha (by simp))
  refine ⟨⟨?_, ?_, hc.perObs, hc.aiAdm, hc.aiUniq, hc.entAdm, hc.piLive⟩, hl⟩
  · have h1 : ilLiveAI (l1 ++ p :: l2) = ilLiveAI l1 ++ o :: ilLiveAI l2 := by
      rw [ilLiveAI_append, ilLiveAI_cons_some (ilAiLive_some.mpr ⟨hpa, hpk⟩)]
    have h2 : ilLiveAI (l1 ++ p' :: l2) = ilLiveAI l1 ++ ilLiveAI l2 := by
      rw [ilLiveAI_append, ilLiveAI_cons_none (ilAiLive_none_of_dead hdead)]
    have := h.owed
    rw [h1] at this
    rw [h2]
    simp only [List.map_append, List.map_cons, List.sum_append, List.sum_cons] at this ⊢
    omega
  · have := h.cap
    omega

/-! ### the supervisor's first block: the provisioning process is created -/

/-- a provisioning process for `o` is appended; the supervisor of `o` is alive, past its first
block and due later; nothing of `o` is in the ghost list yet -/
theorem ILC.addPI {ps : List Proc} {dem : Oid → Nat} {E : List RunEntry} {P : Int} {M : Nat}
    {adm : List Oid} (h : ILC ps dem E P M adm) (q : Proc) (o : Oid)
    (hqk : q.k = .provIngest o (dem o))
    (hw : ∃ p ∈ ps, p.alive = true ∧ 1 ≤ p.pc ∧ p.k.aiObs = some o ∧ q.wake < p.wake)
    (hE : ilEntCount E o = 0) : ILC (ps ++ [q]) dem E P M adm := by
  have hqai : q.k.aiObs = none := by rw [hqk]; rfl
  have hA : ilLiveAI (ps ++ [q]) = ilLiveAI ps := by
    rw [ilLiveAI_append, ilLiveAI_neutral (new := [q]) (by simpa using hqai), List.append_nil]
  have hU : ∀ o', o' ≠ o → ilUnprovisioned (ps ++ [q]) o' = true → ilUnprovisioned ps o' = true := by
    intro o' hne hu
    obtain ⟨r, hr, r1, r2, r3⟩ := ilUnprovisioned_iff.mp hu
    rcases List.mem_append.mp hr with hr | hr
    · exact ilUnprovisioned_iff.mpr ⟨r, hr, r1, r2, r3⟩
    · simp only [List.mem_singleton] at hr
      subst hr
      rw [hqai, hqk] at r3
      simp [PK.piObs] at r3
      exact absurd r3.symm hne
  refine ⟨by rw [hA]; exact h.owed, h.cap, ?_, ?_, ?_, h.entAdm, ?_⟩
  · intro o' ho'
    rw [hA] at ho'
    by_cases hne : o' = o
    · subst hne
      have := ilPromisedTo_le (ps ++ [q]) dem o'
      omega
    · have := h.perObs o' ho'
      have : ilPromisedTo (ps ++ [q]) dem o' ≤ ilPromisedTo ps dem o' := ilPromisedTo_mono (hU o' hne)
      omega
  · intro p hp o' ho'
    rcases List.mem_append.mp hp with hp | hp
    · exact h.aiAdm p hp o' ho'
    · simp only [List.mem_singleton] at hp; subst hp; rw [hqai] at ho'; exact absurd ho' (by simp)
  · intro p hp r hr o' ho1 ho2
    rcases List.mem_append.mp hp with hp | hp
    · rcases List.mem_append.mp hr with hr | hr
      · exact h.aiUniq p hp r hr o' ho1 ho2
      · simp only [List.mem_singleton] at hr; subst hr; rw [hqai] at ho2; exact absurd ho2 (by simp)
    · simp only [List.mem_singleton] at hp; subst hp; rw [hqai] at ho1; exact absurd ho1 (by simp)
  · intro r hr hra hrc o' d hrk
    rcases List.mem_append.mp hr with hr | hr
    · obtain ⟨e, w, hw', r'⟩ := h.piLive r hr hra hrc o' d hrk
      exact ⟨e, w, List.mem_append_left _ hw', r'⟩
    · simp only [List.mem_singleton] at hr
      subst hr
      rw [hqk] at hrk
      injection hrk with e1 e2
      subst e1 e2
      obtain ⟨w, hw', r'⟩ := hw
      exact ⟨rfl, w, List.mem_append_left _ hw', r'⟩

/-- the promise moves from the supervisor (before its first block) to the provisioning process:
the total promised does not grow -/
theorem ilPromised_aiSpawn {l1 l2 : List Proc} {p p' q : Proc} (dem : Oid → Nat) {o : Oid}
    (hpa : p.alive = true) (hpc : p.pc = 0) (hpk : p.k.aiObs = some o)
    (hlive : ilAiLive p' = ilAiLive p) (hpc' : p'.pc ≠ 0)
    (hqai : q.k.aiObs = none) (hqpi : q.k.piObs = some o) :
    ilPromised ((l1 ++ p' :: l2) ++ [q]) dem ≤ ilPromised (l1 ++ p :: l2) dem := by
  unfold ilPromised
  have hA : ilLiveAI ((l1 ++ p' :: l2) ++ [q]) = ilLiveAI (l1 ++ p :: l2) := by
    rw [ilLiveAI_append, ilLiveAI_neutral (new := [q]) (by simpa using hqai), List.append_nil,
      ilLiveAI_replace_eq l1 l2 hlive]
  rw [hA]
  apply il_sum_le_of_le
  intro x _
  apply ilPromisedTo_mono
  intro hu
  obtain ⟨r, hr, r1, r2, r3⟩ := ilUnprovisioned_iff.mp hu
  rcases List.mem_append.mp hr with hr | hr
  · rcases mem_replace (p := p) hr with rfl | ⟨_, hr⟩
    · exact absurd r2 hpc'
    · exact ilUnprovisioned_iff.mpr ⟨r, hr, r1, r2, r3⟩
  · simp only [List.mem_singleton] at hr
    subst hr
    rw [hqai, hqpi] at r3
    have : o = x := by simpa using r3
    subst this
    exact ilUnprovisioned_iff.mpr ⟨p, by simp, hpa, hpc, Or.inl hpk⟩

/-! ### the provisioning block -/

theorem ilEntCount_append (E E' : List RunEntry) (o : Oid) :
    ilEntCount (E ++ E') o = ilEntCount E o + ilEntCount E' o := by
  unfold ilEntCount; exact List.countP_append

theorem ilEntCount_le_length (E : List RunEntry) (o : Oid) : ilEntCount E o ≤ E.length := by
  unfold ilEntCount; exact List.countP_le_length

theorem ilEntCount_other {E : List RunEntry} {o o' : Oid} (h : ∀ e ∈ E, e.obs = some o) (hne : o' ≠ o) :
    ilEntCount E o' = 0 := by
  unfold ilEntCount
  rw [List.countP_eq_zero]
  intro e he
  rw [h e he]
  simpa using fun e' => hne e'.symm

/-- the machines of `o` arrive: `newE` (at most the demand, all of `o`) joins the ghost list; no
process of `o` is unprovisioned any more -/
theorem ILC.addEntries {ps : List Proc} {dem : Oid → Nat} {E : List RunEntry} {P : Int} {M : Nat}
    {adm : List Oid} (h : ILC ps dem E P M adm) (newE : List RunEntry) (o : Oid)
    (hobs : ∀ e ∈ newE, e.obs = some o) (hlen : newE.length ≤ dem o) (hE : ilEntCount E o = 0)
    (hun : ilUnprovisioned ps o = false) (hadm : o ∈ adm) : ILC ps dem (E ++ newE) P M adm := by
  refine ⟨h.owed, h.cap, ?_, h.aiAdm, h.aiUniq, ?_, h.piLive⟩
  · intro o' ho'
    rw [ilEntCount_append]
    by_cases hne : o' = o
    · subst hne
      have : ilPromisedTo ps dem o' = 0 := by unfold ilPromisedTo; simp [hun]
      have := ilEntCount_le_length newE o'
      omega
    · rw [ilEntCount_other hobs hne]
      exact h.perObs o' ho'
  · intro e he o' ho'
    rcases List.mem_append.mp he with he | he
    · exact h.entAdm e he o' ho'
    · rw [hobs e he] at ho'
      injection ho' with ho'
      exact ho' ▸ hadm

/-! ### the admission -/

/-- the telescope admits `o`: the counter goes up by the demand and a supervisor is created -/
theorem ILC.admit {ps : List Proc} {dem : Oid → Nat} {E : List RunEntry} {P : Int} {M : Nat}
    {adm : List Oid} (h : ILC ps dem E P M adm) (a : Proc) (o : Oid)
    (hak : a.k.aiObs = some o) (hapi : a.k.piObs = none) (haa : a.alive = true)
    (hno : o ∉ adm) (hcap : P + (dem o : Nat) ≤ (M : Int)) :
    ILC (ps ++ [a]) dem E (P + (dem o : Nat)) M (adm ++ [o]) ∧
      ilPromised (ps ++ [a]) dem ≤ ilPromised ps dem + dem o := by
  have hnoAI : ∀ p ∈ ps, p.k.aiObs ≠ some o := fun p hp e => hno (h.aiAdm p hp o e)
  have hA : ilLiveAI (ps ++ [a]) = ilLiveAI ps ++ [o] := by
    rw [ilLiveAI_append, ilLiveAI_cons_some (ilAiLive_some.mpr ⟨haa, hak⟩)]; rfl
  have hnotin : ∀ x ∈ ilLiveAI ps, x ≠ o := by
    intro x hx e
    obtain ⟨p, hp, _, hk⟩ := mem_ilLiveAI.mp hx
    exact hnoAI p hp (e ▸ hk)
  have hU : ∀ x, x ≠ o → ilUnprovisioned (ps ++ [a]) x = true → ilUnprovisioned ps x = true := by
    intro x hne hu
    obtain ⟨r, hr, r1, r2, r3⟩ := ilUnprovisioned_iff.mp hu
    rcases List.mem_append.mp hr with hr | hr
    · exact ilUnprovisioned_iff.mpr ⟨r, hr, r1, r2, r3⟩
    · simp only [List.mem_singleton] at hr
      subst hr
      rw [hak, hapi] at r3
      simp at r3
      exact absurd r3.symm hne
  have hE0 : ilEntCount E o = 0 := by
    unfold ilEntCount
    rw [List.countP_eq_zero]
    intro e he hobs
    exact hno (h.entAdm e he o (by simpa using hobs))
  refine ⟨⟨?_, hcap, ?_, ?_, ?_, ?_, ?_⟩, ?_⟩
  · rw [hA]
    have := h.owed
    simp only [List.map_append, List.map_cons, List.map_nil, List.sum_append, List.sum_cons, List.sum_nil]
    omega
  · intro x hx
    rw [hA] at hx
    rcases List.mem_append.mp hx with hx | hx
    · have := h.perObs x hx
      have : ilPromisedTo (ps ++ [a]) dem x ≤ ilPromisedTo ps dem x :=
        ilPromisedTo_mono (hU x (hnotin x hx))
      omega
    · simp only [List.mem_singleton] at hx
      subst hx
      have := ilPromisedTo_le (ps ++ [a]) dem x
      omega
  · intro p hp x hx
    rcases List.mem_append.mp hp with hp | hp
    · exact List.mem_append_left _ (h.aiAdm p hp x hx)
    · simp only [List.mem_singleton] at hp
      subst hp
      rw [hak] at hx
      injection hx with hx
      subst hx
      simp
  · intro p hp0 r hr0 x hx1 hx2
    rcases List.mem_append.mp hp0 with hp | hp
    · rcases List.mem_append.mp hr0 with hr | hr
      · exact h.aiUniq p hp r hr x hx1 hx2
      · have hr' : r = a := by simpa using hr
        rw [hr', hak] at hx2; injection hx2 with hx2
        exact absurd (hx2 ▸ hx1) (hnoAI p hp)
    · have hp' : p = a := by simpa using hp
      rcases List.mem_append.mp hr0 with hr | hr
      · rw [hp', hak] at hx1; injection hx1 with hx1
        exact absurd (hx1 ▸ hx2) (hnoAI r hr)
      · have hr' : r = a := by simpa using hr
        rw [hp', hr']
  · intro e he x hx
    exact List.mem_append_left _ (h.entAdm e he x hx)
  · intro r hr hra hrc x d hrk
    rcases List.mem_append.mp hr with hr | hr
    · obtain ⟨e, w, hw', r'⟩ := h.piLive r hr hra hrc x d hrk
      exact ⟨e, w, List.mem_append_left _ hw', r'⟩
    · simp only [List.mem_singleton] at hr
      subst hr
      rw [hrk] at hapi
      simp [PK.piObs] at hapi
  · unfold ilPromised
    rw [hA]
    simp only [List.map_append, List.map_cons, List.map_nil, List.sum_append, List.sum_cons, List.sum_nil]
    have h1 : ((ilLiveAI ps).map (ilPromisedTo (ps ++ [a]) dem)).sum
        ≤ ((ilLiveAI ps).map (ilPromisedTo ps dem)).sum :=
      il_sum_le_of_le _ _ _ (fun x hx => ilPromisedTo_mono (hU x (hnotin x hx)))
    have := ilPromisedTo_le (ps ++ [a]) dem o
    omega

/-! ### stale allocation processes -/

theorem ilStale_eq_zero_iff (ps : List Proc) (E : List RunEntry) :
    ilStale ps E = 0 ↔ ∀ e ∈ E, ilStaleEntry ps e = false := by
  unfold ilStale
  rw [List.countP_eq_zero]
  constructor
  · intro h e he; simpa using h e he
  · intro h e he; simp [h e he]

theorem ilStaleEntry_mono {ps ps' : List Proc} (h : ∀ o, o ∈ ilLiveAI ps → o ∈ ilLiveAI ps')
    (e : RunEntry) (he : ilStaleEntry ps e = false) : ilStaleEntry ps' e = false := by
  unfold ilStaleEntry at he ⊢
  cases hobs : e.obs with
  | none => rw [hobs] at he; simp at he
  | some o =>
    rw [hobs] at he
    have hc : ilCovered ps o = true := by simpa using he
    have := ilCovered_iff.mpr (h o (ilCovered_iff.mp hc))
    simp [this]

theorem ilStale_zero_mono {ps ps' : List Proc} {E : List RunEntry}
    (h : ∀ o, o ∈ ilLiveAI ps → o ∈ ilLiveAI ps') (h0 : ilStale ps E = 0) : ilStale ps' E = 0 := by
  rw [ilStale_eq_zero_iff] at h0 ⊢
  exact fun e he => ilStaleEntry_mono h e (h0 e he)

end Topsim
