/-
  LiveP9 — the declarations of Live9.lean that depend on the configuration structures, restated for
  the plan-following configurations (`LivePCfg`, `NcPCfg`, `L7PLib`); the proofs are those of Live9.lean.
-/
import TopsimProofs.LiveP8h

namespace Topsim

open KState Sys

section

variable {env : SimEnv} {s0 : Sys}

/-- one step keeps every process record up to its local variables: same pid, same tag, and an
allocation process keeps its task, machine, cross list, observation and flag -/
theorem live_procs_step_P (C : LivePCfg env s0) (K : LiveKernel env s0) (n : Nat) :
    ∀ q ∈ (simAt env s0 n).st.procs, ∃ q' ∈ (simAt env s0 (n + 1)).st.procs, q'.pid = q.pid ∧
      q'.k.tag = q.k.tag ∧
      ∀ t m preds obs ing ret, q.k = .allocTask t m preds obs ing ret →
        ∃ ret', q'.k = .allocTask t m preds obs ing ret' := by
  obtain ⟨e, p, hpk, hpp, ha, het, hen, hs, hst⟩ := live_step_P C K n
  have hpw := ((K.reach n).l3inv C.hw).sinv.pw
  obtain ⟨_, m2, m3⟩ := il_resume_procs_mem hpw hpp ha (env.oracle (simAt env s0 n).st)
  obtain ⟨hpm, hpid⟩ := proc?_some hpp
  intro q hq
  by_cases hqe : q.pid = e.pid
  · have hqp : q = p := hpw.eq_of_pid hq hpm (hqe.trans hpid.symm)
    subst hqp
    refine ⟨_, by rw [hst]; exact m2, by simp, ?_, ?_⟩
    · simp only [fin_k]
      exact block_tag _ hpw q _
    · intro t m preds obs ing ret hk
      simp only [fin_k]
      rw [block_allocTask _ hk]
      exact allocTaskBlock_key _ _ _ _ _ _ _ _
  · exact ⟨q, by rw [hst]; exact m3 q hq hqe, rfl, rfl, fun t m preds obs ing ret hk => ⟨ret, hk⟩⟩

theorem live_procs_keep_P (C : LivePCfg env s0) (K : LiveKernel env s0) {n m : Nat} (h : n ≤ m) :
    ∀ q ∈ (simAt env s0 n).st.procs, ∃ q' ∈ (simAt env s0 m).st.procs, q'.pid = q.pid ∧
      q'.k.tag = q.k.tag ∧
      ∀ t mm preds obs ing ret, q.k = .allocTask t mm preds obs ing ret →
        ∃ ret', q'.k = .allocTask t mm preds obs ing ret' := by
  induction m with
  | zero =>
    have : n = 0 := by omega
    subst this
    exact fun q hq => ⟨q, hq, rfl, rfl, fun t mm preds obs ing ret hk => ⟨ret, hk⟩⟩
  | succ m ih =>
    by_cases e : n = m + 1
    · subst e
      exact fun q hq => ⟨q, hq, rfl, rfl, fun t mm preds obs ing ret hk => ⟨ret, hk⟩⟩
    · intro q hq
      obtain ⟨q1, hq1, e1, e2, e3⟩ := ih (by omega) q hq
      obtain ⟨q2, hq2, f1, f2, f3⟩ := live_procs_step_P C K m q1 hq1
      refine ⟨q2, hq2, f1.trans e1, f2.trans e2, ?_⟩
      intro t mm preds obs ing ret hk
      obtain ⟨r1, hk1⟩ := e3 t mm preds obs ing ret hk
      exact f3 t mm preds obs ing r1 hk1

end

namespace Sys

end Sys

section

variable {env : SimEnv} {s0 : Sys}

theorem live_PAT_mono_P (C : LivePCfg env s0) (K : LiveKernel env s0) {o : Oid} {node : Nat} {n m : Nat}
    (h : n ≤ m) (hp : Sys.PAT o node (simAt env s0 n).st) : Sys.PAT o node (simAt env s0 m).st := by
  obtain ⟨q, hq, c, mm, preds, obs, ing, ret, hk⟩ := hp
  obtain ⟨q', hq', _, _, h3⟩ := live_procs_keep_P C K h q hq
  obtain ⟨ret', hk'⟩ := h3 _ _ _ _ _ _ hk
  exact ⟨q', hq', c, mm, preds, obs, ing, ret', hk'⟩

theorem live_PAst_mono_P (C : LivePCfg env s0) (K : LiveKernel env s0) {o : Oid} {n m : Nat}
    (h : n ≤ m) (hp : Sys.PAst o (simAt env s0 n).st) : Sys.PAst o (simAt env s0 m).st := by
  obtain ⟨ob, a, hob, hast⟩ := hp
  obtain ⟨ob', hob', hast', _⟩ := SimPath.ast_persist C.hw (K.reach n) (simAt_path env s0 n m h) hob hast
  exact ⟨ob', a, hob', hast'⟩

theorem live_PRun_mono_P (C : LivePCfg env s0) (K : LiveKernel env s0) {o : Oid} {n m : Nat}
    (h : n ≤ m) (hp : Sys.PRun o (simAt env s0 n).st) : Sys.PRun o (simAt env s0 m).st := by
  obtain ⟨ob, hob, hst⟩ := hp
  obtain ⟨ob', hob', hr, _⟩ := SimPath.status_mono C.hw (K.reach n) (simAt_path env s0 n m h) hob
  refine ⟨ob', hob', ?_⟩
  intro hw
  rw [hw] at hr
  have : ob.status = .waiting := by
    cases hs : ob.status <;> rw [hs] at hr <;> simp [obsRank] at hr ⊢
  exact hst this

theorem live_PFin_mono_P (C : LivePCfg env s0) (K : LiveKernel env s0) {o : Oid} {n m : Nat}
    (h : n ≤ m) (hp : Sys.PFin o (simAt env s0 n).st) : Sys.PFin o (simAt env s0 m).st := by
  obtain ⟨ob, hob, hst⟩ := hp
  obtain ⟨ob', hob', hr, _⟩ := SimPath.status_mono C.hw (K.reach n) (simAt_path env s0 n m h) hob
  refine ⟨ob', hob', ?_⟩
  rw [hst] at hr
  cases hs : ob'.status <;> rw [hs] at hr <;> simp [obsRank] at hr ⊢

theorem live_PQ_step_P (C : LivePCfg env s0) (K : LiveKernel env s0) (o : Oid) (n : Nat) :
    (Sys.PRm o (simAt env s0 n).st → Sys.PRm o (simAt env s0 (n + 1)).st) ∧
    (Sys.PQ o (simAt env s0 n).st → Sys.PQ o (simAt env s0 (n + 1)).st) := by
  obtain ⟨e, p, hpk, hpp, ha, het, hen, hs, hst⟩ := live_step_P C K n
  have hpw := ((K.reach n).l3inv C.hw).sinv.pw
  have hb := resume_buf (simAt env s0 n).st e.pid (env.oracle (simAt env s0 n).st) p hpp ha
  unfold Sys.PRm Sys.PQ
  rw [hst, hb]
  exact block_pq_mono _ hpw p _ o

theorem live_PRm_mono_P (C : LivePCfg env s0) (K : LiveKernel env s0) {o : Oid} {n m : Nat}
    (h : n ≤ m) (hp : Sys.PRm o (simAt env s0 n).st) : Sys.PRm o (simAt env s0 m).st :=
  mono_le (P := fun n => Sys.PRm o (simAt env s0 n).st) (fun n => (live_PQ_step_P C K o n).1) h hp

theorem live_PQ_mono_P (C : LivePCfg env s0) (K : LiveKernel env s0) {o : Oid} {n m : Nat}
    (h : n ≤ m) (hp : Sys.PQ o (simAt env s0 n).st) : Sys.PQ o (simAt env s0 m).st :=
  mono_le (P := fun n => Sys.PQ o (simAt env s0 n).st) (fun n => (live_PQ_step_P C K o n).2) h hp

/-- the list of admitted observations only grows -/
theorem live_PAdm_step_P (C : LivePCfg env s0) (K : LiveKernel env s0) (o : Oid) (n : Nat)
    (hp : Sys.PAdm o (simAt env s0 n).st) : Sys.PAdm o (simAt env s0 (n + 1)).st := by
  obtain ⟨e, p, hpk, hpp, ha, het, hen, hs, hst⟩ := live_step_P C K n
  have hrts := resume_telSame (simAt env s0 n).st e.pid (env.oracle (simAt env s0 n).st) p hpp ha
  unfold Sys.PAdm at hp ⊢
  rw [hst, hrts.admitted]
  by_cases hk : p.k = .telescope
  · rcases blockEvents_telescope (s := (simAt env s0 n).st) (env.oracle (simAt env s0 n).st) hk with
      ⟨_, hb, _⟩ | ⟨s00, e0, g1, _, _, _, _, _, _, hrun, _⟩
    · rw [hb]; exact hp
    · have hpre := telRun_admitted_prefix hrun
      exact hpre.subset (by rw [g1]; exact hp)
  · rw [(block_telSame _ p _ hk).admitted]; exact hp

theorem live_PAdm_mono_P (C : LivePCfg env s0) (K : LiveKernel env s0) {o : Oid} {n m : Nat}
    (h : n ≤ m) (hp : Sys.PAdm o (simAt env s0 n).st) : Sys.PAdm o (simAt env s0 m).st :=
  mono_le (P := fun n => Sys.PAdm o (simAt env s0 n).st) (fun n => live_PAdm_step_P C K o n) h hp

end

end Topsim

