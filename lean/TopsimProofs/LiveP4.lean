/-
  LiveP4 — the invariant `NcM` along the runs of the plan-following algorithms that have not raised:

  * `scNil`: the leftover schedule of every `allocate_tasks` process is empty (every proposal of a
    block is handed to an allocation process in that block, `pcs_clean_P`);
  * `mo`: the machine lookup `get_machine_from_id(task.allocated_machine_id)` succeeds for every
    UNSCHEDULED task of every plan: the record names its planned machine by id (`OnPlan`: the field has
    not been turned into a Machine object by `update_allocation`) and the id is a machine of the
    cluster (hypothesis `PlanOk.mach`).

  With `mo` neither algorithm's `run()` raises KeyError (`nc_planRun_ok_P`).
-/
import TopsimProofs.LiveP3

namespace Topsim

open Sys

namespace Sys

structure NcM (s : Sys) : Prop where
  scNil : ∀ q ∈ s.procs, ∀ o sc pa po fn, q.k = .allocTasks o sc pa po fn → sc = []
  mo : ∀ pl ∈ s.plans, ∀ t ∈ pl.tasks, tstat s t = .unscheduled →
    ∃ m, OnPlan s t m ∧ (s.machine? m).isSome = true

theorem ncm_start (s0 : Sys) (hw : WFConfig s0) : NcM s0.start := by
  constructor
  · intro q hq o sc pa po fn hk
    rw [start_procs s0 hw] at hq
    simp only [List.mem_cons, List.not_mem_nil, or_false] at hq
    rcases hq with rfl | rfl | rfl | rfl | rfl <;> simp at hk
  · obtain ⟨_, _, _, hplans, _⟩ := hw.fresh
    have hpl : s0.start.plans = [] := by rw [← hplans]; simp [start, spawn]
    intro pl h
    rw [hpl] at h
    simp at h

/-- the available pool has no repetition, and a machine of it is neither occupied nor ingesting -/
theorem avail_facts_P {c : Cluster} {U : List Tid} (h : Cluster.Inv c U) :
    c.available.Nodup ∧ ∀ m ∈ c.available, c.isOccupied m = false := by
  have hle : ∀ m, c.machines.count m ≤ 1 := fun m => List.nodup_iff_count_le_one.mp h.nodupM m
  constructor
  · rw [List.nodup_iff_count_le_one]
    intro m
    have := h.part m
    have := hle m
    omega
  · intro m hm
    have h1 : 0 < c.available.count m := List.count_pos_iff.mpr hm
    have := h.part m
    have := hle m
    unfold Cluster.isOccupied
    have ho : m ∉ c.occupied := fun hin => by
      have : 0 < c.occupied.count m := List.count_pos_iff.mpr hin
      omega
    have hi : m ∉ c.ingest := fun hin => by
      have : 0 < c.ingest.count m := List.count_pos_iff.mpr hin
      omega
    simp [ho, hi]

attribute [local irreducible] atS3 atStart Sys.updateCurrentPlan processCurrentSchedule in
/-- **One block of an `allocate_tasks` process with an empty leftover schedule** (plan-following
algorithm) that does not raise: the leftover schedule is empty again, and a record that is
UNSCHEDULED afterwards still names its planned machine by id. -/
theorem ats_block_clean_P {s : Sys} (hs : SInv s) (halg : PlanAlg s.alg) (p : Proc) (orc : Oracle)
    {o : Oid} {pa : List (Tid × Mid)} {po : List Tid} {fn : Bool} (hk : p.k = .allocTasks o [] pa po fn)
    (hnr : ∀ e, (s.block p orc).2.2 ≠ .raised e) :
    (∀ o' sc' pa' po' fn', (s.block p orc).2.1 = .allocTasks o' sc' pa' po' fn' → sc' = []) ∧
    (∀ t, tstat (s.block p orc).1 t = .unscheduled → ∀ m, OnPlan s t m → OnPlan (s.block p orc).1 t m) := by
  obtain ⟨U, hU⟩ := hs.ci
  rw [block_allocTasks orc hk] at hnr ⊢
  cases fn with
  | true =>
    rw [allocTasksBlock_fin]
    refine ⟨?_, fun t _ m h => h⟩
    intro o' sc' pa' po' fn' e
    simp only [PK.allocTasks.injEq] at e
    exact e.2.1.symm
  | false =>
    rw [allocTasksBlock_eq] at hnr ⊢
    have hK01 : PlanKeep s ((atStart s p.wake p.pc o).updateCurrentPlan o) :=
      (planKeep_atStart s p.wake p.pc o).trans (PlanKeep.of_eq (updateCurrentPlan_core _ o).tasks)
    have hcl1 : ((atStart s p.wake p.pc o).updateCurrentPlan o).cl = s.cl :=
      (updateCurrentPlan_core _ o).cl.trans (atStart_cl s p.wake p.pc o)
    have halg1 : PlanAlg ((atStart s p.wake p.pc o).updateCurrentPlan o).alg := by
      rw [updateCurrentPlan_alg, atStart_alg]; exact halg
    have herr : ∀ plan out, ((atStart s p.wake p.pc o).updateCurrentPlan o).plan? o = some plan →
        ((atStart s p.wake p.pc o).updateCurrentPlan o).runAlgorithm orc plan [] po = .ok out →
        out.schedule.isEmpty = false →
        (processCurrentSchedule (atS3 ((atStart s p.wake p.pc o).updateCurrentPlan o) out o) p.wake o
          out.schedule pa).err = none :=
      fun plan out h1 h2 h3 => l7_iter_alloc_err (atStart s p.wake p.pc o) p.wake orc o [] pa po plan out h1 h2 h3 hnr
    have hout := allocTasksIter_out (atStart s p.wake p.pc o) p.wake orc o [] pa po
    generalize (atStart s p.wake p.pc o).allocTasksIter p.wake orc o [] pa po = r at hout hnr ⊢
    -- the outcomes in which the records are those of the state the algorithm ran in
    have quiet : ∀ (X : Sys) (sc1 : List (Tid × Mid)) (pa1 : List (Tid × Mid)) (po1 : List Tid) (fn1 : Bool),
        X.tasks = ((atStart s p.wake p.pc o).updateCurrentPlan o).tasks → sc1.isEmpty = true →
        (∀ o' sc' pa' po' fn', PK.allocTasks o sc1 pa1 po1 fn1 = .allocTasks o' sc' pa' po' fn' → sc' = []) ∧
        (∀ t, tstat X t = .unscheduled → ∀ m, OnPlan s t m → OnPlan X t m) := by
      intro X sc1 pa1 po1 fn1 hX hemp
      refine ⟨?_, fun t _ m h => (h.keep hK01).congr hX⟩
      intro o' sc' pa' po' fn' e
      simp only [PK.allocTasks.injEq] at e
      rw [← e.2.1]
      simpa using hemp
    cases hout with
    | noPlan _ => exact absurd rfl (hnr _)
    | algErr plan e _ _ => exact absurd rfl (hnr _)
    | finishBad plan out _ _ _ _ _ _ => exact absurd rfl (hnr _)
    | finish plan out _ _ hemp _ _ _ =>
      exact quiet _ _ _ _ _ (atS3_tasks _ out o) hemp
    | finishWait plan out _ _ hemp _ _ =>
      exact quiet _ _ _ _ _ (atS3_tasks _ out o) hemp
    | idle plan out _ _ hemp _ =>
      exact quiet _ _ _ _ _ (atS3_tasks _ out o) hemp
    | alloc plan out y hplan hrun hemp _ =>
      have hinv1 : Cluster.Inv ((atStart s p.wake p.pc o).updateCurrentPlan o).cl U := by rw [hcl1]; exact hU.inv
      obtain ⟨hav1, hav2⟩ := avail_facts_P hinv1
      obtain ⟨hmd, hmav⟩ := nc_planRun_machines_P _ orc plan po out halg1 hav1 hrun
      obtain ⟨_, hnd⟩ := runAlgorithm_sched _ orc plan [] po out halg1.noOracle hrun
      have hcl3 : (atS3 ((atStart s p.wake p.pc o).updateCurrentPlan o) out o).cl =
          ((atStart s p.wake p.pc o).updateCurrentPlan o).cl := by
        rw [atS3_cl]; exact l7_planRun_cl_P _ orc plan [] po out halg1 hrun
      obtain ⟨c1, c2, _⟩ := pcs_clean_P (atS3 ((atStart s p.wake p.pc o).updateCurrentPlan o) out o) p.wake o
        out.schedule pa (hnd (by simp [dictKeys])) hmd
        (fun x hx => by rw [hcl3]; exact hav2 x.2 (hmav x hx)) (herr plan out hplan hrun hemp)
      refine ⟨?_, ?_⟩
      · intro o' sc' pa' po' fn' e
        simp only [PK.allocTasks.injEq] at e
        rw [← e.2.1]; exact c1
      · intro t htu m hon
        obtain ⟨r1, hr1, hp1, ho1⟩ := (hon.keep hK01).congr (atS3_tasks _ out o)
        exact ⟨r1, by rw [c2 t htu]; exact hr1, hp1, ho1⟩

/-- the records a static plan makes name machines of the cluster, by id -/
theorem staticPlanOf_onPlan_P (o : Obs) (c : Nat) (rows : List (Nat × Mid × Nat × Nat)) (x : Nat × Mid × Nat × Nat)
    (hx : x ∈ rows) :
    ∃ r ∈ (staticPlanOf o c rows).1, r.id = Tid.wf o.id c x.1 ∧
      ∀ r ∈ (staticPlanOf o c rows).1, r.id = Tid.wf o.id c x.1 →
        r.allocObj = false ∧ ∃ y ∈ rows, r.planned = some y.2.1 := by
  unfold staticPlanOf
  simp only
  refine ⟨_, List.mem_map.mpr ⟨x, hx, rfl⟩, rfl, ?_⟩
  intro r hr _
  obtain ⟨y, hy, rfl⟩ := List.mem_map.mp hr
  obtain ⟨n, mid, est, eft⟩ := y
  exact ⟨rfl, (n, mid, est, eft), hy, rfl⟩

/-! ### one step of the run -/

theorem machine?_isSome_of_mem_P {s : Sys} {mm : Machine} (h : mm ∈ s.machines) : (s.machine? mm.id).isSome = true := by
  unfold machine?
  rw [List.find?_isSome]
  exact ⟨mm, h, by simp⟩

theorem ncm_step_P {env : SimEnv} {s0 s s' : Sys} {p : Proc} (hP : PlanOk env s0)
    (hobs : ObsSame s0.obs s.obs) (hmach0 : s.machines = s0.machines) (L : L7PLib s0 s)
    (h : L7Step s s' p (env.oracle s)) (M : NcM s) : NcM s' := by
  have hpm := h.mem
  have hs := L.sinv
  obtain ⟨new, hnewe, hnewp⟩ := block_newp s p (env.oracle s)
  have hm := h.memSpec hs hnewe
  have hmach' : s'.machines = s.machines := by rw [h.res]; exact resume_machs s p.pid _
  -- the block of an `allocate_tasks` process
  have hats : ∀ o sc pa po fn, p.k = .allocTasks o sc pa po fn →
      (∀ o' sc' pa' po' fn', (s.block p (env.oracle s)).2.1 = .allocTasks o' sc' pa' po' fn' → sc' = []) ∧
      (∀ t, tstat (s.block p (env.oracle s)).1 t = .unscheduled → ∀ m, OnPlan s t m →
        OnPlan (s.block p (env.oracle s)).1 t m) := by
    intro o sc pa po fn hk
    have hsc : sc = [] := M.scNil p hpm o sc pa po fn hk
    subst hsc
    exact ats_block_clean_P hs L.alg p _ hk h.nr
  -- a record that is UNSCHEDULED after the step still names its planned machine by id
  have hkeep : ∀ t, tstat s' t = .unscheduled → ∀ m, OnPlan s t m → OnPlan s' t m := by
    intro t htu m hon
    apply OnPlan.congr h.tasks
    by_cases h4 : p.k.tag = "allocTasks"
    · cases hk : p.k with
      | allocTasks o sc pa po fn =>
        rw [h.tstat] at htu
        exact (hats o sc pa po fn hk).2 t htu m hon
      | _ => rw [hk] at h4; simp [PK.tag] at h4
    · by_cases h2 : p.k.tag = "allocTask"
      · cases hk : p.k with
        | allocTask t0 m0 preds obs ing ret => exact hon.keep (allocTask_facts s hs.pw p _ hk).1
        | _ => rw [hk] at h2; simp [PK.tag] at h2
      · by_cases h3 : p.k.tag = "doWork"
        · cases hk : p.k with
          | doWork t0 m0 preds ph tot => exact hon.keep (doWork_facts s p _ hk).1
          | _ => rw [hk] at h3; simp [PK.tag] at h3
        · exact hon.keep (block_planKeep_harmless s p _ h2 h3 h4)
  constructor
  · intro q hq o sc pa po fn hqk
    rcases (hm q).mp hq with rfl | ⟨hq0, _⟩ | hqn
    · simp only [fin_k] at hqk
      obtain ⟨sc0, pa0, po0, fn0, hk⟩ := ((block_class s hs.pw p (env.oracle s)).2 o).mp ⟨sc, pa, po, fn, hqk⟩
      exact (hats o sc0 pa0 po0 fn0 hk).1 o sc pa po fn hqk
    · exact M.scNil q hq0 o sc pa po fn hqk
    · obtain ⟨_, _, _, hnk⟩ := hnewp q hqn
      rw [hqk] at hnk
      exact (nc_newKind_allocTasks hnk).2
  · intro pl' hpl' t ht htu
    -- plans made before this step
    have old : ∀ pl ∈ s.plans, t ∈ pl.tasks → ∃ m, OnPlan s' t m ∧ (s'.machine? m).isSome = true := by
      intro pl hpl ht0
      have hwt : IsWf t := by
        obtain ⟨c, n, e⟩ := L.wi.pt pl hpl t ht0
        exact ⟨_, c, n, e⟩
      have hu0 : tstat s t = .unscheduled := by
        rcases l7_tstat_step_P L h hnewe hwt with e | ⟨_, e⟩ | ⟨_, e, _⟩
        · rw [← e]; exact htu
        · exact absurd htu e
        · rw [htu] at e; cases e
      obtain ⟨m, hon, hmm⟩ := M.mo pl hpl t ht0 hu0
      exact ⟨m, hkeep t htu m hon, by rw [machine?_congr hmach']; exact hmm⟩
    rw [h.res] at hpl'
    rcases resume_shape s hs.pw p.pid (env.oracle s) with ⟨hPm, _⟩ | ⟨hPm, _⟩ |
        ⟨p1, hp1, _, hk1, oid, ob, recs, plan, hnx, hob, hrp, htk, hpl⟩
    · obtain ⟨pl, hpl, hr⟩ := hPm.back hpl'
      exact old pl hpl (hr.sub.subset ht)
    · obtain ⟨pl, hpl, hr⟩ := hPm.back hpl'
      exact old pl hpl (hr.sub.subset ht)
    · rw [hpl] at hpl'
      rcases List.mem_append.mp hpl' with h1 | h1
      · exact old pl' (List.mem_filter.mp h1).1 ht
      · simp only [List.mem_singleton] at h1
        subst h1
        -- the plan made by this step
        rw [h.hp] at hp1
        injection hp1 with hp1
        subst hp1
        obtain ⟨hom, hoid⟩ := obs_mem_of_obs? hob
        obtain ⟨o0, ho0, e0, _⟩ := hobs.back hom
        obtain ⟨_, _, hold⟩ := l7_next_fresh L.wi L.bufi hnx
        obtain ⟨_, _, _, _, a5, _⟩ := planOf_attrs ob (natNow p.wake) s.staticPlan (env.oracle s).plan recs pl' hrp
        have hrows : (env.oracle s).plan = env.rowsOf o0.id := by
          rw [env.oracle_plan s hnx, e0, hoid]
        rw [a5 L.stat, hrows] at ht
        obtain ⟨x, hx, rfl⟩ := List.mem_map.mp ht
        have hrecs : recs = (staticPlanOf ob (natNow p.wake) (env.rowsOf o0.id)).1 := by
          rw [L.stat, hrows] at hrp
          simp only [if_true] at hrp
          exact congrArg Prod.fst hrp
        obtain ⟨r0, hr0, hid0, hall⟩ := staticPlanOf_onPlan_P ob (natNow p.wake) (env.rowsOf o0.id) x hx
        -- the record `task?` finds
        have htk' : s'.tasks = s.tasks ++ recs := by rw [h.res]; exact htk
        have hnone : s.tasks.find? (fun r => decide (r.id = Tid.wf ob.id (natNow p.wake) x.1)) = none := by
          rw [List.find?_eq_none]
          intro r hr
          have := hold r hr (natNow p.wake) x.1
          rw [hoid]
          simpa using this
        have hsome : (recs.find? (fun r => decide (r.id = Tid.wf ob.id (natNow p.wake) x.1))).isSome = true := by
          rw [List.find?_isSome]
          exact ⟨r0, by rw [hrecs]; exact hr0, by simpa using hid0⟩
        obtain ⟨r1, hr1⟩ := Option.isSome_iff_exists.mp hsome
        have hr1m : r1 ∈ recs := List.mem_of_find?_eq_some hr1
        have hr1id : r1.id = Tid.wf ob.id (natNow p.wake) x.1 := by simpa using List.find?_some hr1
        have hfind : s'.task? (Tid.wf ob.id (natNow p.wake) x.1) = some r1 := by
          unfold task?
          rw [htk', List.find?_append, hnone]
          exact hr1
        obtain ⟨hao, y, hy, hpy⟩ := hall r1 (by rw [← hrecs]; exact hr1m) hr1id
        obtain ⟨mm, hmm, hmid⟩ := hP.mach o0 ho0 y hy
        refine ⟨y.2.1, ⟨r1, hfind, hpy, hao⟩, ?_⟩
        rw [machine?_congr (hmach'.trans hmach0), ← hmid]
        exact machine?_isSome_of_mem_P hmm

end Sys

/-! ### along the run -/

section
variable {env : SimEnv} {s0 : Sys}

open KState

/-- the library invariants at an index at which nothing has raised -/
theorem nc_lib_P (N : NcPCfg env s0) (n : Nat) (hc : (simAt env s0 n).st.crashed = none) :
    L7PLib s0 (simAt env s0 n).st := by
  have hok : ReachOk s0 (simAt env s0 n).st := nc_reachOk_P N n hc
  have hbuf : bufList s0.buf = [] := hb0_bufList N.hb0
  have hno : s0.alg ≠ .oracle := N.alg.noOracle
  exact {
    ok := hok
    nc := hc
    sinv := reach_inv s0 _ N.hw hok
    wi := reachOk_wi s0 _ N.hw hbuf hok hc
    gi := reach_gi s0 _ N.hw hok.toReach
    st := reach_st s0 _ N.hw hbuf hno hok.toReach hc
    pr := reach_pr s0 _ N.hw hbuf hno hok.toReach hc
    px := reach_px s0 _ N.hw hbuf hno hok.toReach hc
    su := reachOk_su s0 _ N.hw hbuf hno hok hc
    ati := reachOk_ati s0 _ N.hw hbuf hok
    bufi := reachOk_bufi s0 _ N.hw hbuf hok
    alg := by rw [reach_alg hok.toReach]; exact N.alg
    stat := (reach_stat hok.toReach).trans N.stat }

/-- one index of the run in block form, when nothing has raised after it -/
theorem nc_l7step_P (N : NcPCfg env s0) (n : Nat) (hc1 : (simAt env s0 (n + 1)).st.crashed = none) :
    ∃ e p, (simAt env s0 n).peek = some e ∧ (simAt env s0 n).st.proc? e.pid = some p ∧ e.pid = p.pid ∧
      L7Step (simAt env s0 n).st (simAt env s0 (n + 1)).st p (env.oracle (simAt env s0 n).st) := by
  have hc := live_crashed_mono env s0 N.hw (Nat.le_succ n) hc1
  obtain ⟨e, p, hpk, hpp, ha, _, hen, hst⟩ := nc_step_P N n hc
  have hpid : p.pid = e.pid := (proc?_some hpp).2
  obtain ⟨p2, hp2, _, hmin⟩ := hen
  rw [hpp] at hp2
  injection hp2 with hp2
  subst hp2
  refine ⟨e, p, hpk, hpp, hpid.symm, ?_⟩
  have hcr := hc1
  rw [hst] at hcr
  have hst' := hst
  unfold Sys.resume at hcr hst
  simp only [hpp, ha, Bool.not_true, Bool.false_eq_true, if_false] at hcr hst
  refine ⟨by rw [hpid]; exact hpp, ha, hmin, ?_, ?_, by rw [hpid]; exact hst'⟩
  · intro err herr
    generalize (simAt env s0 n).st.block p (env.oracle (simAt env s0 n).st) = r at hcr herr
    obtain ⟨s1, k, y⟩ := r
    simp only at herr
    subst herr
    exact absurd hcr (l7_crash_ne _ _)
  · rw [hst, hpid]
    generalize (simAt env s0 n).st.block p (env.oracle (simAt env s0 n).st) = r at hcr
    obtain ⟨s1, k, y⟩ := r
    cases y with
    | timeout d => rfl
    | done => rfl
    | raised err => exact absurd hcr (l7_crash_ne _ _)

/-- `NcM` at every index of the run at which nothing has raised -/
theorem nc_ncm_P (N : NcPCfg env s0) (n : Nat) (hc : (simAt env s0 n).st.crashed = none) :
    Sys.NcM (simAt env s0 n).st := by
  induction n with
  | zero => exact Sys.ncm_start s0 N.hw
  | succ n ih =>
    have hc0 := live_crashed_mono env s0 N.hw (Nat.le_succ n) hc
    obtain ⟨e, p, _, _, _, hstep⟩ := nc_l7step_P N n hc
    have L := nc_lib_P N n hc0
    exact Sys.ncm_step_P N.plan (reach_obsSame L.ok.toReach) (reach_sys_machines L.ok.toReach) L hstep (ih hc0)

end

end Topsim
