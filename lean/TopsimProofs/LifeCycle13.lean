/-
  LifeCycle13 — the scheduler side of the causal order: `queueAdded` after `telStarted`,
  `allocStarted` after `queueAdded`, `allocStopped` after `allocStarted`, and the two removals in
  the very block of `allocStopped`.
-/
import TopsimProofs.LifeCycle12

namespace Topsim
namespace Sys

/-- the events of a block of `allocate_tasks` (not yet finished) for observation `o` -/
theorem allocTasks_events {s : Sys} {p : Proc} (orc : Oracle) {o : Oid} {sc pa : List (Tid × Mid)}
    {po : List Tid} (hk : p.k = .allocTasks o sc pa po false) :
    ∃ R, blockEvents s p orc = (if p.pc = 0 then [⟨natNow p.wake, o, .allocStarted⟩] else []) ++ R ∧
      (∀ e ∈ R, e.time = natNow p.wake ∧ e.obs = o ∧
        (e.kind = .allocStopped ∨ e.kind = .queueRemoved ∨ e.kind = .bufRemoved)) ∧
      (R = [] ∨ ((⟨natNow p.wake, o, .allocStopped⟩ : Event) ∈ R ∧ (⟨natNow p.wake, o, .bufRemoved⟩ : Event) ∈ R)) := by
  rcases blockEvents_allocTasks (s := s) orc hk with ⟨hf, _⟩ | ⟨_, c, u, hat, h⟩
  · exact absurd hf (by simp)
  · refine ⟨c ++ u, by rw [h, List.append_assoc], ?_, ?_⟩
    · generalize s.block p orc = r at hat
      cases hat with
      | quiet => intro e he; simp at he
      | finish => intro e he; simp at he; rcases he with rfl | rfl | rfl <;> simp
      | finishBad => intro e he; simp at he; rcases he with rfl | rfl <;> simp
      | finishWait => intro e he; simp at he; rcases he with rfl | rfl <;> simp
    · generalize s.block p orc = r at hat
      cases hat with
      | quiet => exact Or.inl rfl
      | finish => exact Or.inr ⟨by simp, by simp⟩
      | finishBad => exact Or.inr ⟨by simp, by simp⟩
      | finishWait => exact Or.inr ⟨by simp, by simp⟩

structure LcSW (s : Sys) (evs : List Event) : Prop where
  atq : ∀ q ∈ s.procs, ∀ o sc pa po fin, q.k = .allocTasks o sc pa po fin →
    hasEv evs o .queueAdded (fun _ => True) ∧ (q.pc = 0 → fin = false) ∧
    (1 ≤ q.pc → hasEv evs o .allocStarted (fun _ => True))
  qa : ∀ eB ∈ evs, eB.kind = .queueAdded → hasEv evs eB.obs .telStarted (fun t => t ≤ eB.time)
  as : ∀ eB ∈ evs, eB.kind = .allocStarted → hasEv evs eB.obs .queueAdded (fun t => t ≤ eB.time)
  ap : ∀ eB ∈ evs, eB.kind = .allocStopped → hasEv evs eB.obs .allocStarted (fun t => t ≤ eB.time)
  qr : ∀ eB ∈ evs, eB.kind = .queueRemoved → hasEv evs eB.obs .allocStopped (fun t => t = eB.time)
  br : ∀ eB ∈ evs, eB.kind = .bufRemoved → hasEv evs eB.obs .allocStopped (fun t => t = eB.time)
  pb : ∀ eB ∈ evs, eB.kind = .allocStopped → hasEv evs eB.obs .bufRemoved (fun t => t = eB.time)

theorem sw_step {s : Sys} {evs : List Event} (hi : EInv s) (hb : BufI s) (hti : LcTI s evs) (htw : LcTW s evs)
    (h : LcSW s evs) {pid : Nat} (hen : s.enabled pid) (orc : Oracle) :
    LcSW (s.resume pid orc).1 (evs ++ s.stepEvents pid orc) := by
  obtain ⟨p, hp, ha, hmin⟩ := hen
  obtain ⟨hpm, hpid⟩ := proc?_some hp
  obtain ⟨new, hnew, hnewp⟩ := block_newp s p orc
  have hm := resume_memSpec hi hp ha hmin orc hnew
  have hbefore := hti.before hp ha
  have hcls := (block_class s hi.pw p orc).2
  rw [stepEvents_alive orc hp ha]
  have hkinds := blockEvents_kinds s p orc
  generalize hL : blockEvents s p orc = L at hkinds
  generalize hn : natNow p.wake = n at hbefore
  -- an old witness is stamped no later than this step
  have old : ∀ {o k}, hasEv evs o k (fun _ => True) → hasEv (evs ++ L) o k (fun t => t ≤ n) := by
    intro o k ⟨e, he, h1, h2, _⟩
    exact ⟨e, List.mem_append_left _ he, h1, h2, hbefore e he⟩
  -- an event of `allocate_tasks` comes from the live process of its observation
  have hats : ∀ eB ∈ L, (eB.kind = .allocStarted ∨ eB.kind = .allocStopped ∨ eB.kind = .queueRemoved ∨
      eB.kind = .bufRemoved) → ∃ sc pa po, p.k = .allocTasks eB.obs sc pa po false := by
    intro eB he hk
    rcases hkinds eB he with ⟨_, g⟩ | ⟨_, g⟩ | ⟨_, g⟩ | ⟨⟨sc, pa, po, fin, g⟩, _⟩ | ⟨_, g⟩
    · rcases hk with hk | hk | hk | hk <;> simp [hk] at g
    · rcases hk with hk | hk | hk | hk <;> simp [hk] at g
    · rcases hk with hk | hk | hk | hk <;> simp [hk] at g
    · cases fin with
      | false => exact ⟨sc, pa, po, g⟩
      | true =>
        rcases blockEvents_allocTasks (s := s) orc g with ⟨_, h0, _⟩ | ⟨hf, _⟩
        · rw [hL] at h0; rw [h0] at he; simp at he
        · exact absurd hf (by simp)
    · rcases hk with hk | hk | hk | hk <;> simp [isTransfer, hk] at g
  constructor
  · -- at
    intro q hq o sc pa po fin hqk
    rcases (hm q).mp hq with rfl | ⟨hq0, _⟩ | hqn
    · simp only [fin_k] at hqk
      obtain ⟨sc0, pa0, po0, fin0, hk0⟩ := (hcls o).mp ⟨sc, pa, po, fin, hqk⟩
      obtain ⟨g1, g2, g3⟩ := h.atq p hpm o sc0 pa0 po0 fin0 hk0
      refine ⟨g1.left L, fun hpc => by simp at hpc, fun _ => ?_⟩
      by_cases hpc : p.pc = 0
      · have hf := g2 hpc
        subst hf
        obtain ⟨R, hR, _⟩ := allocTasks_events (s := s) orc hk0
        rw [hL, if_pos hpc] at hR
        exact (hasEv.of_mem (n := natNow p.wake) (by rw [hR]; simp) trivial).right evs
      · exact (g3 (by omega)).left L
    · obtain ⟨g1, g2, g3⟩ := h.atq q hq0 o sc pa po fin hqk
      exact ⟨g1.left L, g2, fun hc => (g3 hc).left L⟩
    · rcases new_allocTasks s p orc hnew with hnone | ⟨oid, hpk, _, _, _, hn'⟩
      · exact absurd hqk (hnone q hqn o sc pa po fin)
      · rw [hn'] at hqn; simp at hqn; subst hqn
        simp only [PK.allocTasks.injEq] at hqk
        obtain ⟨e1, _, _, _, e5⟩ := hqk
        subst e1
        refine ⟨?_, fun _ => e5.symm, fun hc => by simp at hc⟩
        rcases blockEvents_schedLoop (s := s) orc hpk with ⟨_, hpr, _⟩ | ⟨oid', ob, hev, _, _, _, _, hpr⟩
        · rw [hnew] at hpr
          have := List.append_cancel_left (hpr.trans (List.append_nil _).symm)
          rw [hn'] at this; simp at this
        · rw [hnew] at hpr
          have := List.append_cancel_left hpr
          rw [hn'] at this
          simp only [List.cons.injEq, and_true] at this
          have e : oid = oid' := by injection this with _ hk' _; injection hk'
          subst e
          rw [hL] at hev
          exact (hasEv.of_mem (n := natNow p.wake) (by rw [hev]; simp) trivial).right evs
  · -- qa
    intro eB he hk
    rcases List.mem_append.mp he with he | he
    · exact (h.qa eB he hk).left L
    · have h1 : 1 ≤ evCount eB.obs .queueAdded (blockEvents s p orc) := by
        rw [hL]; exact (evCount_pos_iff _ _ _).mpr ⟨eB, he, rfl, hk⟩
      obtain ⟨_, hst, _, _, hLe⟩ := (block_queueAdded s p orc eB.obs).2 h1
      rw [hL] at hLe
      have ht : eB.time = n := by rw [hLe] at he; simp at he; rw [he, hn]
      have hloc : 0 < locCount s eB.obs := by
        unfold locCount bufList
        have := List.count_pos_iff.mpr hst
        simp only [List.count_append]; omega
      have := old (htw.beg eB.obs (hb.locObs eB.obs hloc))
      rw [ht]; exact this
  · -- as
    intro eB he hk
    rcases List.mem_append.mp he with he | he
    · exact (h.as eB he hk).left L
    · obtain ⟨sc, pa, po, hpk⟩ := hats eB he (Or.inl hk)
      have ht : eB.time = n := by
        have := stepEvents_time s pid orc p hp ha eB (by rw [stepEvents_alive orc hp ha, hL]; exact he)
        rw [this, hn]
      rw [ht]
      exact old (h.atq p hpm eB.obs sc pa po false hpk).1
  · -- ap
    intro eB he hk
    rcases List.mem_append.mp he with he | he
    · exact (h.ap eB he hk).left L
    · obtain ⟨sc, pa, po, hpk⟩ := hats eB he (Or.inr (Or.inl hk))
      have ht : eB.time = n := by
        have := stepEvents_time s pid orc p hp ha eB (by rw [stepEvents_alive orc hp ha, hL]; exact he)
        rw [this, hn]
      rw [ht]
      by_cases hpc : p.pc = 0
      · obtain ⟨R, hR, _⟩ := allocTasks_events (s := s) orc hpk
        rw [hL, if_pos hpc, hn] at hR
        exact (hasEv.of_mem (P := fun t => t ≤ n) (by rw [hR]; simp) (Nat.le_refl _)).right evs
      · exact old ((h.atq p hpm eB.obs sc pa po false hpk).2.2 (by omega))
  · -- qr
    intro eB he hk
    rcases List.mem_append.mp he with he | he
    · exact (h.qr eB he hk).left L
    · obtain ⟨sc, pa, po, hpk⟩ := hats eB he (Or.inr (Or.inr (Or.inl hk)))
      obtain ⟨R, hR, hRk, hRs⟩ := allocTasks_events (s := s) orc hpk
      rw [hL, hn] at hR
      rw [hn] at hRk hRs
      have heR : eB ∈ R := by
        rw [hR] at he
        rcases List.mem_append.mp he with he | he
        · split at he
          · simp at he; rw [he] at hk; simp at hk
          · simp at he
        · exact he
      rcases hRs with e0 | ⟨m1, _⟩
      · rw [e0] at heR; simp at heR
      · exact (hasEv.of_mem (P := fun t => t = eB.time) (by rw [hR]; exact List.mem_append_right _ m1)
          (hRk eB heR).1.symm).right evs
  · -- br
    intro eB he hk
    rcases List.mem_append.mp he with he | he
    · exact (h.br eB he hk).left L
    · obtain ⟨sc, pa, po, hpk⟩ := hats eB he (Or.inr (Or.inr (Or.inr hk)))
      obtain ⟨R, hR, hRk, hRs⟩ := allocTasks_events (s := s) orc hpk
      rw [hL, hn] at hR
      rw [hn] at hRk hRs
      have heR : eB ∈ R := by
        rw [hR] at he
        rcases List.mem_append.mp he with he | he
        · split at he
          · simp at he; rw [he] at hk; simp at hk
          · simp at he
        · exact he
      rcases hRs with e0 | ⟨m1, _⟩
      · rw [e0] at heR; simp at heR
      · exact (hasEv.of_mem (P := fun t => t = eB.time) (by rw [hR]; exact List.mem_append_right _ m1)
          (hRk eB heR).1.symm).right evs
  · -- pb
    intro eB he hk
    rcases List.mem_append.mp he with he | he
    · exact (h.pb eB he hk).left L
    · obtain ⟨sc, pa, po, hpk⟩ := hats eB he (Or.inr (Or.inl hk))
      obtain ⟨R, hR, hRk, hRs⟩ := allocTasks_events (s := s) orc hpk
      rw [hL, hn] at hR
      rw [hn] at hRk hRs
      have heR : eB ∈ R := by
        rw [hR] at he
        rcases List.mem_append.mp he with he | he
        · split at he
          · simp at he; rw [he] at hk; simp at hk
          · simp at he
        · exact he
      rcases hRs with e0 | ⟨_, m2⟩
      · rw [e0] at heR; simp at heR
      · exact (hasEv.of_mem (P := fun t => t = eB.time) (by rw [hR]; exact List.mem_append_right _ m2)
          (hRk eB heR).1.symm).right evs

theorem reachEvOk_sw {s0 s : Sys} {evs : List Event} (hw : WFConfig s0) (hbuf : bufList s0.buf = [])
    (h : ReachEvOk s0 s evs) : LcSW s evs := by
  induction h with
  | start =>
    refine ⟨?_, by simp, by simp, by simp, by simp, by simp, by simp⟩
    intro q hq o sc pa po fin hk
    rw [start_procs s0 hw] at hq; simp only [List.mem_cons, List.not_mem_nil, or_false] at hq
    rcases hq with rfl | rfl | rfl | rfl | rfl <;> simp at hk
  | step s evs pid orc hr hen hpre ih =>
    exact sw_step (reach_einv s0 s hw hr.toOk.toReach) (reachOk_bufi s0 s hw hbuf hr.toOk)
      (reachEv_ti hw hr.toEv) (reachEv_tw hw hr.toEv) ih hen orc

end Sys
end Topsim
