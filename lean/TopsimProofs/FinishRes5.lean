/-
  FinishRes5 — `RI` under the blocks other than the scheduler loop and
  `allocate_tasks`.
-/
import TopsimProofs.FinishRes4

namespace Topsim
namespace Sys

open Cluster

theorem KeyNE.congr {c c' : Cluster} (h : KeyNE c) (hi : c'.idle = c.idle) (hr : c'.runOn = c.runOn) :
    KeyNE c' :=
  h.mono_runOn hi (fun e he _ => by rw [hr]; exact he)

/-- blocks that touch neither queue, plans, task records nor allocations -/
theorem ri_quiet {s : Sys} (hs : SInv s) (h : RI s) {p : Proc} (hp : p ∈ s.procs) (orc : Oracle)
    (h1 : p.k.tag ≠ "schedLoop") (h2 : p.k.tag ≠ "allocTasks") (h3 : p.k.tag ≠ "provIngest")
    (h4 : p.k.tag ≠ "allocTask") (h5 : p.k.tag ≠ "doWork")
    (new : List Proc) (hprocs : (s.block p orc).1.procs = s.procs ++ new) (hpwX : PW (s.block p orc).1)
    (hnew : ∀ q ∈ new, q.k.tag ≠ "allocTasks" ∧ q.k.tag ≠ "allocTask") :
    RI ((s.block p orc).1.updProc p.pid (fin (s.block p orc).2.1 (s.block p orc).2.2 p.wake)) := by
  have hpw := hs.pw
  have htag := block_tag s hpw p orc
  have hm := memSpec_updProc hpw hp new hprocs hpwX (fin (s.block p orc).2.1 (s.block p orc).2.2 p.wake)
  obtain ⟨hro, hid⟩ := block_runOn_idle s p orc h3 h4 h2
  have htasks := block_tasks s p orc h1 h3 h4 h5 h2
  have hts : ∀ t, tstat ((s.block p orc).1.updProc p.pid (fin (s.block p orc).2.1 (s.block p orc).2.2 p.wake)) t
      = tstat s t := fun t => tstat_of_tasks htasks t
  refine h.step hpw hp hm (by simp) (block_queue s p orc h1 h2) (block_plans s p orc h1 h2) ?_ ?_ ?_ ?_ ?_ ?_ ?_
  · intro o c n ht; rw [hts]; exact ht
  · intro o c n ht; left; rw [hts] at ht; exact ht
  · intro q hq _ o sc pa po hqk
    rcases hq with rfl | hq
    · simp only [fin_k] at hqk; rw [hqk] at htag; exact absurd htag.symm h2
    · have := (hnew q hq).1; rw [hqk] at this; exact absurd rfl this
  · intro q hq _ t m preds o ret hqk
    rcases hq with rfl | hq
    · simp only [fin_k] at hqk; rw [hqk] at htag; exact absurd htag.symm h4
    · have := (hnew q hq).2; rw [hqk] at this; exact absurd rfl this
  · exact rc_quiet h hpw hp hm hro h4
  · intro o ho
    have : ((s.block p orc).1.updProc p.pid (fin (s.block p orc).2.1 (s.block p orc).2.2 p.wake)).cl.idle
        = s.cl.idle := hid
    rw [this] at ho; exact ho
  · exact h.keyNE.congr hid hro

/-! ### `do_work` -/

theorem doWorkBlock_tasks (s : Sys) (now : Time) (orc : Oracle) (t : Tid) (m : Mid) (preds : List Tid)
    (ph tot : Nat) :
    (s.doWorkBlock now orc t m preds ph tot).1.tasks = s.tasks ∨
    ∃ f : TaskRec → TaskRec, (∀ r, (f r).id = r.id) ∧
      ((∀ r, (f r).status = .running) ∨ (∀ r, (f r).status = r.status)) ∧
      (s.doWorkBlock now orc t m preds ph tot).1.tasks = (s.updTask t f).tasks := by
  unfold doWorkBlock
  by_cases h0 : ph = 0
  · simp only [h0, if_true]
    split
    · split
      · split
        · exact Or.inl rfl
        · refine Or.inr ⟨_, ?_, ?_, rfl⟩
          · exact fun _ => rfl
          · exact Or.inl fun _ => rfl
      · exact Or.inl rfl
    · split <;> exact Or.inl rfl
  · simp only [h0, if_false]
    by_cases h1 : ph = 1
    · simp only [h1, if_true]
      split
      · split
        · exact Or.inl rfl
        · refine Or.inr ⟨_, ?_, ?_, rfl⟩
          · exact fun _ => rfl
          · exact Or.inl fun _ => rfl
      · exact Or.inl rfl
    · simp only [h1, if_false]
      refine Or.inr ⟨_, ?_, Or.inr ?_, rfl⟩
      · intro r; simp only; split <;> rfl
      · intro r; simp only; split <;> rfl

theorem ri_doWork {s : Sys} (hs : SInv s) (h : RI s) {p : Proc} (hp : p ∈ s.procs) (ha : p.alive = true)
    (orc : Oracle) {t m preds ph tot} (hk : p.k = .doWork t m preds ph tot) :
    RI ((s.block p orc).1.updProc p.pid (fin (s.block p orc).2.1 (s.block p orc).2.2 p.wake)) := by
  have hpw := hs.pw
  obtain ⟨U, hU⟩ := hs.ci
  have hb : s.block p orc = s.doWorkBlock p.wake orc t m preds ph tot := by
    unfold block; simp only [hk]
  have htag := block_tag s hpw p orc
  have hprocs : (s.block p orc).1.procs = s.procs ++ [] := by
    rw [hb]; simpa using doWorkBlock_procs s p.wake orc t m preds ph tot
  have hpwX : PW (s.block p orc).1 := by
    rw [hb]; exact (doWorkBlock_presE s p.wake orc t m preds ph tot).1.pw hpw
  have hm := memSpec_updProc hpw hp [] hprocs hpwX (fin (s.block p orc).2.1 (s.block p orc).2.2 p.wake)
  have h1 : p.k.tag ≠ "schedLoop" := by simp [hk, PK.tag]
  have h2 : p.k.tag ≠ "allocTasks" := by simp [hk, PK.tag]
  have h3 : p.k.tag ≠ "provIngest" := by simp [hk, PK.tag]
  have h4 : p.k.tag ≠ "allocTask" := by simp [hk, PK.tag]
  obtain ⟨hro, hid⟩ := block_runOn_idle s p orc h3 h4 h2
  -- the task has an allocation process, hence a record past UNSCHEDULED
  have hsched : tstat s t ≠ .unscheduled := by
    obtain ⟨a, ha1, _, _, preds', obs, ing, hak⟩ := hs.dg.dwAlloc p hp ha _ _ _ _ _ hk
    exact tstat_of_sched (hU.hasRec a ha1 _ _ _ _ _ _ hak)
  have hts : ∀ t', (tstat (s.block p orc).1 t' = tstat s t') ∨
      (t' = t ∧ tstat (s.block p orc).1 t' = .running) := by
    intro t'
    rw [hb]
    rcases doWorkBlock_tasks s p.wake orc t m preds ph tot with e | ⟨f, hf, hst, e⟩
    · exact Or.inl (tstat_of_tasks e t')
    · rw [tstat_of_tasks (a := s.updTask t f) e]
      rcases hst with hst | hst
      · by_cases ee : t' = t
        · right
          subst ee
          refine ⟨rfl, ?_⟩
          cases hr : s.task? t' with
          | none => rw [tstat_eq, hr] at hsched; exact absurd rfl hsched
          | some r => exact tstat_updTask_set s t' f hf .running hst hr
        · exact Or.inl (tstat_updTask_ne s f hf ee)
      · exact Or.inl (tstat_updTask_keep s t t' f hf hst)
  refine h.step hpw hp hm (by simp) (block_queue s p orc h1 h2) (block_plans s p orc h1 h2) ?_ ?_ ?_ ?_ ?_ ?_ ?_
  · intro o c n ht
    rcases hts (.wf o c n) with e | ⟨e, _⟩
    · show tstat (s.block p orc).1 _ = _; rw [e]; exact ht
    · rw [e] at ht; exact absurd ht hsched
  · intro o c n ht
    left
    rcases hts (.wf o c n) with e | ⟨_, e⟩
    · have : tstat (s.block p orc).1 (.wf o c n) = .finished := ht
      rw [e] at this; exact this
    · have : tstat (s.block p orc).1 (.wf o c n) = .finished := ht
      rw [e] at this; exact absurd this (by simp)
  · intro q hq _ o sc pa po hqk
    rcases hq with rfl | hq
    · simp only [fin_k] at hqk; rw [hqk] at htag; exact absurd htag.symm h2
    · simp at hq
  · intro q hq _ t1 m1 preds1 o ret hqk
    rcases hq with rfl | hq
    · simp only [fin_k] at hqk; rw [hqk] at htag; exact absurd htag.symm h4
    · simp at hq
  · exact rc_quiet h hpw hp hm hro h4
  · intro o ho
    have : ((s.block p orc).1.updProc p.pid (fin (s.block p orc).2.1 (s.block p orc).2.2 p.wake)).cl.idle
        = s.cl.idle := hid
    rw [this] at ho; exact ho
  · exact h.keyNE.congr hid hro

/-! ### the ingest provisioner -/

theorem moveToIngest_runOn (c : Cluster) (obs : Oid) (pairs : List (Mid × Tid)) :
    (moveToIngest c obs pairs).1.runOn = c.runOn := by
  induction pairs generalizing c with
  | nil => rfl
  | cons p rest ih =>
    obtain ⟨m, t⟩ := p
    unfold moveToIngest
    simp only
    split
    · exact ih _
    · rfl

theorem provisionIngest_runOn_idle (c : Cluster) (d : Nat) (o : Oid) :
    (c.provisionIngest d o).1.runOn = c.runOn ∧ (c.provisionIngest d o).1.idle = c.idle := by
  unfold provisionIngest
  split
  · exact ⟨rfl, rfl⟩
  · simp only
    exact ⟨moveToIngest_runOn _ _ _, moveToIngest_idle _ _ _⟩

theorem tstat_append (s X : Sys) (recs : List TaskRec) (hX : X.tasks = s.tasks ++ recs) (t : Tid)
    (hne : ∀ r ∈ recs, r.id ≠ t) : tstat X t = tstat s t := by
  rw [tstat_eq, tstat_eq]
  unfold task?
  rw [hX, List.find?_append]
  cases h : s.tasks.find? (fun r => decide (r.id = t)) with
  | some r => rfl
  | none =>
    simp only [Option.none_or]
    have : recs.find? (fun r => decide (r.id = t)) = none := by
      rw [List.find?_eq_none]
      intro r hr
      simpa using hne r hr
    rw [this]

theorem provIngestBlock_shape (s : Sys) (now : Time) (pc : Nat) (oid : Oid) (d : Nat) :
    ∃ recs : List TaskRec, (∀ r ∈ recs, r.id.isIngest = true) ∧
      (s.provIngestBlock now pc oid d).1.tasks = s.tasks ++ recs ∧
      (s.provIngestBlock now pc oid d).1.cl.runOn = s.cl.runOn ∧
      (s.provIngestBlock now pc oid d).1.cl.idle = s.cl.idle ∧
      ∃ new, (s.provIngestBlock now pc oid d).1.procs = s.procs ++ new ∧
        ∀ q ∈ new, ∃ t m, q.k = .allocTask t m [] (some oid) true 0 := by
  unfold provIngestBlock
  split
  · simp only
    have hri := provisionIngest_runOn_idle s.cl d oid
    generalize hr : s.cl.provisionIngest d oid = r at hri
    obtain ⟨cl1, e1, pairs⟩ := r
    simp only at hri
    cases e1 with
    | some e => exact ⟨[], by simp, by simp, hri.1, hri.2, [], by simp, by simp⟩
    | none =>
      simp only
      generalize hs1 : ({ s with cl := cl1, tasks := s.tasks ++ List.map (fun x : Mid × Tid => ({ id := x.2, duration := (match s.obs? oid with | some o => o.duration | none => 0), status := TStatus.scheduled } : TaskRec)) pairs } : Sys) = s1
      have e1 : s1.procs = s.procs := by subst hs1; rfl
      have e2 : s1.cl = cl1 := by subst hs1; rfl
      have e3 : s1.tasks = s.tasks ++ List.map (fun x : Mid × Tid => ({ id := x.2, duration := (match s.obs? oid with | some o => o.duration | none => 0), status := TStatus.scheduled } : TaskRec)) pairs := by subst hs1; rfl
      obtain ⟨new, g1, g2, _⟩ := foldSpawn_spec2
        (fun x : Mid × Tid => PK.allocTask x.2 x.1 [] (some oid) true 0) now pairs s1
      obtain ⟨_, _, gcl, gtasks, _⟩ := foldSpawn_spec
        (fun x : Mid × Tid => PK.allocTask x.2 x.1 [] (some oid) true 0) now pairs s1
      refine ⟨_, ?_, by rw [gtasks, e3], by rw [gcl, e2]; exact hri.1, by rw [gcl, e2]; exact hri.2, new,
        by rw [g1, e1], ?_⟩
      · intro r hr'
        obtain ⟨x, hx, rfl⟩ := List.mem_map.mp hr'
        -- the pairs of `provisionIngest` carry ingest ids
        have : (s.cl.provisionIngest d oid).2.2 = pairs := by rw [hr]
        have hx' : x ∈ (s.cl.provisionIngest d oid).2.2 := by rw [this]; exact hx
        unfold provisionIngest at hx'
        split at hx'
        · simp at hx'
        · simp only at hx'
          obtain ⟨⟨m', i⟩, _, rfl⟩ := List.mem_map.mp hx'
          rfl
      · intro q hq
        obtain ⟨_, _, x, _, hqk⟩ := g2 q hq
        exact ⟨x.2, x.1, hqk⟩
  · exact ⟨[], by simp, by simp, rfl, rfl, [], by simp, by simp⟩

theorem ri_provIngest {s : Sys} (hs : SInv s) (h : RI s) {p : Proc} (hp : p ∈ s.procs)
    (orc : Oracle) {o d} (hk : p.k = .provIngest o d) :
    RI ((s.block p orc).1.updProc p.pid (fin (s.block p orc).2.1 (s.block p orc).2.2 p.wake)) := by
  have hpw := hs.pw
  have hb : s.block p orc = s.provIngestBlock p.wake p.pc o d := by
    unfold block; simp only [hk]
  have htag := block_tag s hpw p orc
  obtain ⟨recs, hrecs, htasks, hro, hid, new, hprocs, hnew⟩ := provIngestBlock_shape s p.wake p.pc o d
  have hpwX : PW (s.block p orc).1 := by
    rw [hb]; exact (provIngestBlock_presE s p.wake p.pc o d).1.pw hpw
  rw [← hb] at htasks hro hid hprocs
  have hm := memSpec_updProc hpw hp new hprocs hpwX (fin (s.block p orc).2.1 (s.block p orc).2.2 p.wake)
  have h1 : p.k.tag ≠ "schedLoop" := by simp [hk, PK.tag]
  have h2 : p.k.tag ≠ "allocTasks" := by simp [hk, PK.tag]
  have h4 : p.k.tag ≠ "allocTask" := by simp [hk, PK.tag]
  have hts : ∀ o c n, tstat (s.block p orc).1 (.wf o c n) = tstat s (.wf o c n) := by
    intro o' c n
    apply tstat_append s _ recs htasks
    intro r hr e
    have := hrecs r hr
    rw [e] at this; simp [Tid.isIngest] at this
  refine h.step hpw hp hm (by simp) (block_queue s p orc h1 h2) (block_plans s p orc h1 h2) ?_ ?_ ?_ ?_ ?_ ?_ ?_
  · intro o' c n ht; show tstat (s.block p orc).1 _ = _; rw [hts]; exact ht
  · intro o' c n ht
    left
    have ht' : tstat (s.block p orc).1 (.wf o' c n) = .finished := ht
    rw [hts] at ht'; exact ht'
  · intro q hq _ o' sc pa po hqk
    rcases hq with rfl | hq
    · simp only [fin_k] at hqk; rw [hqk] at htag; exact absurd htag.symm h2
    · obtain ⟨t, m, e⟩ := hnew q hq; rw [e] at hqk; simp at hqk
  · intro q hq _ t m preds o' ret hqk
    rcases hq with rfl | hq
    · simp only [fin_k] at hqk; rw [hqk] at htag; exact absurd htag.symm h4
    · obtain ⟨t', m', e⟩ := hnew q hq; rw [e] at hqk; simp at hqk
  · exact rc_quiet h hpw hp hm hro h4
  · intro o' ho
    have : ((s.block p orc).1.updProc p.pid (fin (s.block p orc).2.1 (s.block p orc).2.2 p.wake)).cl.idle
        = s.cl.idle := hid
    rw [this] at ho; exact ho
  · exact h.keyNE.congr hid hro

end Sys
end Topsim
