/-
  FinishRes4 — the reservation invariant `RI`: queue, plans, local schedules of
  the `allocate_tasks` processes, allocation processes, `runOn`, reservations.
-/
import TopsimProofs.FinishRes3

namespace Topsim
namespace Sys

open Cluster

/-- the (pruned) task list of an observation's plan -/
def planTasks (s : Sys) (o : Oid) : List Tid :=
  match s.plan? o with
  | some p => p.tasks
  | none => []

structure RI (s : Sys) : Prop where
  qNodup : s.queue.Nodup
  /-- a running `allocate_tasks` has its observation in the queue, and a plan -/
  atsQ : ∀ p ∈ s.procs, p.alive = true → ∀ o sc pa po, p.k = .allocTasks o sc pa po false →
    o ∈ s.queue ∧ (s.plan? o).isSome = true
  atsUniq : ∀ p ∈ s.procs, ∀ q ∈ s.procs, p.alive = true → q.alive = true → ∀ o sc pa po sc' pa' po',
    p.k = .allocTasks o sc pa po false → q.k = .allocTasks o sc' pa' po' false → p.pid = q.pid
  /-- its leftover schedule proposes UNSCHEDULED tasks of the plan -/
  sl : ∀ p ∈ s.procs, p.alive = true → ∀ o sc pa po, p.k = .allocTasks o sc pa po false →
    (dictKeys sc).Nodup ∧ ∀ t ∈ dictKeys sc, t ∈ planTasks s o ∧ tstat s t = .unscheduled
  pt : ∀ pl ∈ s.plans, ∀ t ∈ pl.tasks, ∃ c n, t = .wf pl.obs c n
  pf : ∀ pl ∈ s.plans, pl.status = .finished → pl.tasks = []
  pn : (s.plans.map (·.obs)).Nodup
  /-- a scheduler-side allocation process carries an unfinished task of its observation's plan -/
  st : ∀ p ∈ s.procs, p.alive = true → ∀ t m preds o ret, p.k = .allocTask t m preds (some o) false ret →
    tstat s t ≠ .finished ∧ t ∈ planTasks s o
  /-- every `runOn` entry belongs to a polling allocation process -/
  rc : ∀ e ∈ s.cl.runOn, ∃ p ∈ s.procs, p.alive = true ∧ 1 ≤ p.pc ∧
    ∃ preds ret, p.k = .allocTask e.task e.mach preds e.obs e.ing ret
  keyQ : ∀ o ∈ dictKeys s.cl.idle, o ∈ s.queue
  keyNE : KeyNE s.cl

theorem tstat_of_sched {s : Sys} {t : Tid} (h : Sched s.tasks t) : tstat s t ≠ .unscheduled := by
  obtain ⟨r, hr, hs⟩ := h
  rw [tstat_eq]
  have : s.task? t = some r := hr
  rw [this]; exact hs

theorem planTasks_of_plans {a b : Sys} (h : b.plans = a.plans) (o : Oid) : planTasks b o = planTasks a o := by
  unfold planTasks plan?; rw [h]

theorem plan?_mem {s : Sys} {o : Oid} {pl : Plan} (h : s.plan? o = some pl) : pl ∈ s.plans ∧ pl.obs = o := by
  unfold plan? at h
  exact ⟨List.mem_of_find?_eq_some h, by simpa using List.find?_some h⟩

theorem planTasks_wf {s : Sys} (hpt : ∀ pl ∈ s.plans, ∀ t ∈ pl.tasks, ∃ c n, t = .wf pl.obs c n) {o : Oid}
    {t : Tid} (h : t ∈ planTasks s o) : ∃ c n, t = .wf o c n := by
  unfold planTasks at h
  cases hp : s.plan? o with
  | none => rw [hp] at h; simp at h
  | some pl =>
    rw [hp] at h
    obtain ⟨h1, h2⟩ := plan?_mem hp
    obtain ⟨c, n, e⟩ := hpt pl h1 t h
    exact ⟨c, n, by rw [e, h2]⟩

/-- one step, for a block that leaves queue and plans alone; the process that ran may be an
`allocate_tasks` process with a new local schedule -/
theorem RI.step' {s s' : Sys} (h : RI s) (_hpw : PW s) {p : Proc} (hp : p ∈ s.procs) {p' : Proc}
    {new : List Proc} (hm : MemSpec s s' p p' new) (hpid : p'.pid = p.pid)
    (hqu : s'.queue = s.queue) (hpl : s'.plans = s.plans)
    (hU : ∀ q ∈ s.procs, q.pid ≠ p.pid → q.alive = true → ∀ o sc pa po, q.k = .allocTasks o sc pa po false →
      ∀ t ∈ dictKeys sc, tstat s t = .unscheduled → tstat s' t = .unscheduled)
    (hF : ∀ o c n, tstat s' (.wf o c n) = .finished → tstat s (.wf o c n) = .finished ∨
      (∀ q ∈ s'.procs, q.alive = true → ∀ m preds o' ret,
        q.k ≠ .allocTask (.wf o c n) m preds (some o') false ret))
    (hATs : ∀ q, (q = p' ∨ q ∈ new) → q.alive = true → ∀ o sc pa po, q.k = .allocTasks o sc pa po false →
      q = p' ∧ p.alive = true ∧ ∃ sc0 pa0 po0, p.k = .allocTasks o sc0 pa0 po0 false)
    (hsl : p'.alive = true → ∀ o sc pa po, p'.k = .allocTasks o sc pa po false →
      (dictKeys sc).Nodup ∧ ∀ t ∈ dictKeys sc, t ∈ planTasks s' o ∧ tstat s' t = .unscheduled)
    (hAT : ∀ q, (q = p' ∨ q ∈ new) → q.alive = true → ∀ t m preds o ret,
      q.k = .allocTask t m preds (some o) false ret →
      (q = p' ∧ p.alive = true ∧ ∃ ret0, p.k = .allocTask t m preds (some o) false ret0) ∨
      (tstat s' t ≠ .finished ∧ t ∈ planTasks s' o))
    (hrc : ∀ e ∈ s'.cl.runOn, ∃ q ∈ s'.procs, q.alive = true ∧ 1 ≤ q.pc ∧
      ∃ preds ret, q.k = .allocTask e.task e.mach preds e.obs e.ing ret)
    (hkq : ∀ o ∈ dictKeys s'.cl.idle, o ∈ s.queue) (hkne : KeyNE s'.cl) : RI s' := by
  have hplT : ∀ o, planTasks s' o = planTasks s o := planTasks_of_plans hpl
  -- an `allocate_tasks` entry of the new table is the one that ran, or an old one
  have backS : ∀ q ∈ s'.procs, q.alive = true → ∀ o sc pa po, q.k = .allocTasks o sc pa po false →
      (q = p' ∧ p.alive = true ∧ ∃ sc0 pa0 po0, p.k = .allocTasks o sc0 pa0 po0 false) ∨
      (q ∈ s.procs ∧ q.pid ≠ p.pid) := by
    intro q hq hqa o sc pa po hqk
    rcases (hm q).mp hq with rfl | hq0 | hqn
    · exact Or.inl (hATs _ (Or.inl rfl) hqa o sc pa po hqk)
    · exact Or.inr hq0
    · exact Or.inl (hATs q (Or.inr hqn) hqa o sc pa po hqk)
  constructor
  · rw [hqu]; exact h.qNodup
  · intro q hq hqa o sc pa po hqk
    have : o ∈ s.queue ∧ (s.plan? o).isSome = true := by
      rcases backS q hq hqa o sc pa po hqk with ⟨_, h2, sc0, pa0, po0, h3⟩ | ⟨hq0, _⟩
      · exact h.atsQ p hp h2 o sc0 pa0 po0 h3
      · exact h.atsQ q hq0 hqa o sc pa po hqk
    rw [hqu]; unfold plan?; rw [hpl]; exact this
  · intro q1 hq1 q2 hq2 ha1 ha2 o sc pa po sc' pa' po' hk1 hk2
    rcases backS q1 hq1 ha1 o sc pa po hk1 with ⟨e1, a1, sc1, pa1, po1, k1⟩ | ⟨b1, n1⟩ <;>
    rcases backS q2 hq2 ha2 o sc' pa' po' hk2 with ⟨e2, a2, sc2, pa2, po2, k2⟩ | ⟨b2, n2⟩
    · rw [e1, e2]
    · rw [e1, hpid]; exact h.atsUniq p hp q2 b2 a1 ha2 o _ _ _ _ _ _ k1 hk2
    · rw [e2, hpid]; exact h.atsUniq q1 b1 p hp ha1 a2 o _ _ _ _ _ _ hk1 k2
    · exact h.atsUniq q1 b1 q2 b2 ha1 ha2 o _ _ _ _ _ _ hk1 hk2
  · intro q hq hqa o sc pa po hqk
    rcases backS q hq hqa o sc pa po hqk with ⟨e1, _⟩ | ⟨hq0, hne⟩
    · subst e1; exact hsl hqa o sc pa po hqk
    · obtain ⟨g1, g2⟩ := h.sl q hq0 hqa o sc pa po hqk
      refine ⟨g1, fun t ht => ?_⟩
      obtain ⟨g3, g4⟩ := g2 t ht
      exact ⟨by rw [hplT]; exact g3, hU q hq0 hne hqa o sc pa po hqk t ht g4⟩
  · rw [hpl]; exact h.pt
  · rw [hpl]; exact h.pf
  · rw [hpl]; exact h.pn
  · intro q hq hqa t m preds o ret hqk
    have hold : ∀ q0 ∈ s.procs, q0.alive = true → ∀ ret0, q0.k = .allocTask t m preds (some o) false ret0 →
        tstat s' t ≠ .finished ∧ t ∈ planTasks s' o := by
      intro q0 hq0 ha0 r0 hk0
      obtain ⟨g1, g2⟩ := h.st q0 hq0 ha0 t m preds o r0 hk0
      obtain ⟨c, n, rfl⟩ := planTasks_wf h.pt g2
      refine ⟨fun hfin => ?_, by rw [hplT]; exact g2⟩
      rcases hF o c n hfin with h1 | h1
      · exact g1 h1
      · exact h1 q hq hqa m preds o ret hqk
    rcases (hm q).mp hq with rfl | ⟨hq0, _⟩ | hqn
    · rcases hAT _ (Or.inl rfl) hqa t m preds o ret hqk with ⟨_, h2, r0, h3⟩ | h2
      · exact hold p hp h2 r0 h3
      · exact h2
    · exact hold q hq0 hqa ret hqk
    · rcases hAT q (Or.inr hqn) hqa t m preds o ret hqk with ⟨_, h2, r0, h3⟩ | h2
      · exact hold p hp h2 r0 h3
      · exact h2
  · exact hrc
  · intro o ho; rw [hqu]; exact hkq o ho
  · exact hkne

/-- one step, for a block that leaves queue and plans alone -/
theorem RI.step {s s' : Sys} (h : RI s) (hpw : PW s) {p : Proc} (hp : p ∈ s.procs) {p' : Proc}
    {new : List Proc} (hm : MemSpec s s' p p' new) (hpid : p'.pid = p.pid)
    (hqu : s'.queue = s.queue) (hpl : s'.plans = s.plans)
    (hU : ∀ o c n, tstat s (.wf o c n) = .unscheduled → tstat s' (.wf o c n) = .unscheduled)
    (hF : ∀ o c n, tstat s' (.wf o c n) = .finished → tstat s (.wf o c n) = .finished ∨
      (∀ q ∈ s'.procs, q.alive = true → ∀ m preds o' ret,
        q.k ≠ .allocTask (.wf o c n) m preds (some o') false ret))
    (hATs : ∀ q, (q = p' ∨ q ∈ new) → q.alive = true → ∀ o sc pa po, q.k = .allocTasks o sc pa po false →
      q = p' ∧ p.alive = true ∧ p.k = .allocTasks o sc pa po false)
    (hAT : ∀ q, (q = p' ∨ q ∈ new) → q.alive = true → ∀ t m preds o ret,
      q.k = .allocTask t m preds (some o) false ret →
      q = p' ∧ p.alive = true ∧ ∃ ret0, p.k = .allocTask t m preds (some o) false ret0)
    (hrc : ∀ e ∈ s'.cl.runOn, ∃ q ∈ s'.procs, q.alive = true ∧ 1 ≤ q.pc ∧
      ∃ preds ret, q.k = .allocTask e.task e.mach preds e.obs e.ing ret)
    (hkq : ∀ o ∈ dictKeys s'.cl.idle, o ∈ dictKeys s.cl.idle) (hkne : KeyNE s'.cl) : RI s' := by
  have hUk : ∀ o, ∀ t ∈ planTasks s o, tstat s t = .unscheduled → tstat s' t = .unscheduled := by
    intro o t ht hu
    obtain ⟨c, n, rfl⟩ := planTasks_wf h.pt ht
    exact hU o c n hu
  refine h.step' hpw hp hm hpid hqu hpl ?_ hF ?_ ?_ ?_ hrc (fun o ho => h.keyQ o (hkq o ho)) hkne
  · intro q hq _ hqa o sc pa po hqk t ht hu
    exact hUk o t ((h.sl q hq hqa o sc pa po hqk).2 t ht).1 hu
  · intro q hq hqa o sc pa po hqk
    obtain ⟨h1, h2, h3⟩ := hATs q hq hqa o sc pa po hqk
    exact ⟨h1, h2, sc, pa, po, h3⟩
  · intro hqa o sc pa po hqk
    obtain ⟨_, h2, h3⟩ := hATs p' (Or.inl rfl) hqa o sc pa po hqk
    obtain ⟨g1, g2⟩ := h.sl p hp h2 o sc pa po h3
    refine ⟨g1, fun t ht => ?_⟩
    obtain ⟨g3, g4⟩ := g2 t ht
    exact ⟨by rw [planTasks_of_plans hpl]; exact g3, hUk o t g3 g4⟩
  · intro q hq hqa t m preds o ret hqk
    exact Or.inl (hAT q hq hqa t m preds o ret hqk)

/-- `runOn` unchanged and the process that ran is not an allocation process -/
theorem rc_quiet {s s' : Sys} (h : RI s) (hpw : PW s) {p : Proc} (hp : p ∈ s.procs) {p' : Proc}
    {new : List Proc} (hm : MemSpec s s' p p' new) (hr : s'.cl.runOn = s.cl.runOn)
    (hk : p.k.tag ≠ "allocTask") :
    ∀ e ∈ s'.cl.runOn, ∃ q ∈ s'.procs, q.alive = true ∧ 1 ≤ q.pc ∧
      ∃ preds ret, q.k = .allocTask e.task e.mach preds e.obs e.ing ret := by
  intro e he
  rw [hr] at he
  obtain ⟨q, hq, hqa, hqc, preds, ret, hqk⟩ := h.rc e he
  refine ⟨q, ?_, hqa, hqc, preds, ret, hqk⟩
  rcases hm.old hpw hp hq with rfl | hq'
  · rw [hqk] at hk; exact absurd rfl hk
  · exact hq'

end Sys
end Topsim
