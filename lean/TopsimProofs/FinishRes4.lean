/-
  FinishRes4 — the reservation invariant `RI`: queue, plans, local schedules of
  the `allocate_tasks` processes, allocation processes, `runOn`, reservations.
-/
import TopsimProofs.FinishRes3

namespace Topsim
namespace Sys

open Cluster

/-- the (pruned) task list of an observation's plan -/
def planTasks (s : Sys) (o : Oid) : List Tid :=
  match s.plan? o with
  | some p => p.tasks
  | none => []

structure RI (s : Sys) : Prop where
  qNodup : s.queue.Nodup
  /-- a running `allocate_tasks` has its observation in the queue, and a plan -/
  atsQ : ∀ p ∈ s.procs, p.alive = true → ∀ o sc pa po, p.k = .allocTasks o sc pa po false →
    o ∈ s.queue ∧ (s.plan? o).isSome = true
  atsUniq : ∀ p ∈ s.procs, ∀ q ∈ s.procs, p.alive = true → q.alive = true → ∀ o sc pa po sc' pa' po',
    p.k = .allocTasks o sc pa po false → q.k = .allocTasks o sc' pa' po' false → p.pid = q.pid
  /-- its leftover schedule proposes UNSCHEDULED tasks of the plan -/
  sl : ∀ p ∈ s.procs, p.alive = true → ∀ o sc pa po, p.k = .allocTasks o sc pa po false →
    (dictKeys sc).Nodup ∧ ∀ t ∈ dictKeys sc, t ∈ planTasks s o ∧ tstat s t = .unscheduled
  pt : ∀ pl ∈ s.plans, ∀ t ∈ pl.tasks, ∃ c n, t = .wf pl.obs c n
  pf : ∀ pl ∈ s.plans, pl.status = .finished → pl.tasks = []
  /-- a scheduler-side allocation process carries an unfinished task of its observation's plan -/
  st : ∀ p ∈ s.procs, p.alive = true → ∀ t m preds o ret, p.k = .allocTask t m preds (some o) false ret →
    tstat s t ≠ .finished ∧ t ∈ planTasks s o
  /-- every `runOn` entry belongs to a polling allocation process -/
  rc : ∀ e ∈ s.cl.runOn, ∃ p ∈ s.procs, p.alive = true ∧ 1 ≤ p.pc ∧
    ∃ preds ret, p.k = .allocTask e.task e.mach preds e.obs e.ing ret
  keyQ : ∀ o ∈ dictKeys s.cl.idle, o ∈ s.queue
  keyNE : KeyNE s.cl

theorem tstat_of_sched {s : Sys} {t : Tid} (h : Sched s.tasks t) : tstat s t ≠ .unscheduled := by
  obtain ⟨r, hr, hs⟩ := h
  rw [tstat_eq]
  have : s.task? t = some r := hr
  rw [this]; exact hs

theorem planTasks_of_plans {a b : Sys} (h : b.plans = a.plans) (o : Oid) : planTasks b o = planTasks a o := by
  unfold planTasks plan?; rw [h]

theorem plan?_mem {s : Sys} {o : Oid} {pl : Plan} (h : s.plan? o = some pl) : pl ∈ s.plans ∧ pl.obs = o := by
  unfold plan? at h
  exact ⟨List.mem_of_find?_eq_some h, by simpa using List.find?_some h⟩

theorem planTasks_wf {s : Sys} (hpt : ∀ pl ∈ s.plans, ∀ t ∈ pl.tasks, ∃ c n, t = .wf pl.obs c n) {o : Oid}
    {t : Tid} (h : t ∈ planTasks s o) : ∃ c n, t = .wf o c n := by
  unfold planTasks at h
  cases hp : s.plan? o with
  | none => rw [hp] at h; simp at h
  | some pl =>
    rw [hp] at h
    obtain ⟨h1, h2⟩ := plan?_mem hp
    obtain ⟨c, n, e⟩ := hpt pl h1 t h
    exact ⟨c, n, by rw [e, h2]⟩

/-- one step, for a block that leaves queue and plans alone -/
theorem RI.step {s s' : Sys} (h : RI s) (_hpw : PW s) {p : Proc} (hp : p ∈ s.procs) {p' : Proc}
    {new : List Proc} (hm : MemSpec s s' p p' new) (hpid : p'.pid = p.pid)
    (hqu : s'.queue = s.queue) (hpl : s'.plans = s.plans)
    (hU : ∀ o c n, tstat s (.wf o c n) = .unscheduled → tstat s' (.wf o c n) = .unscheduled)
    (hF : ∀ o c n, tstat s' (.wf o c n) = .finished → tstat s (.wf o c n) = .finished ∨
      (∀ q ∈ s'.procs, q.alive = true → ∀ m preds o' ret,
        q.k ≠ .allocTask (.wf o c n) m preds (some o') false ret))
    (hATs : ∀ q, (q = p' ∨ q ∈ new) → q.alive = true → ∀ o sc pa po, q.k = .allocTasks o sc pa po false →
      q = p' ∧ p.alive = true ∧ p.k = .allocTasks o sc pa po false)
    (hAT : ∀ q, (q = p' ∨ q ∈ new) → q.alive = true → ∀ t m preds o ret,
      q.k = .allocTask t m preds (some o) false ret →
      q = p' ∧ p.alive = true ∧ ∃ ret0, p.k = .allocTask t m preds (some o) false ret0)
    (hrc : ∀ e ∈ s'.cl.runOn, ∃ q ∈ s'.procs, q.alive = true ∧ 1 ≤ q.pc ∧
      ∃ preds ret, q.k = .allocTask e.task e.mach preds e.obs e.ing ret)
    (hkq : ∀ o ∈ dictKeys s'.cl.idle, o ∈ dictKeys s.cl.idle) (hkne : KeyNE s'.cl) : RI s' := by
  -- every `allocate_tasks` / allocation entry of the new table stands for an old one
  have backS : ∀ q ∈ s'.procs, q.alive = true → ∀ o sc pa po, q.k = .allocTasks o sc pa po false →
      ∃ q0 ∈ s.procs, q0.pid = q.pid ∧ q0.alive = true ∧ q0.k = .allocTasks o sc pa po false := by
    intro q hq hqa o sc pa po hqk
    rcases (hm q).mp hq with rfl | ⟨hq0, _⟩ | hqn
    · obtain ⟨_, h2, h3⟩ := hATs _ (Or.inl rfl) hqa o sc pa po hqk
      exact ⟨p, hp, hpid.symm, h2, h3⟩
    · exact ⟨q, hq0, rfl, hqa, hqk⟩
    · obtain ⟨h1, h2, h3⟩ := hATs q (Or.inr hqn) hqa o sc pa po hqk
      exact ⟨p, hp, by rw [h1]; exact hpid.symm, h2, h3⟩
  have backT : ∀ q ∈ s'.procs, q.alive = true → ∀ t m preds o ret,
      q.k = .allocTask t m preds (some o) false ret →
      ∃ q0 ∈ s.procs, q0.alive = true ∧ ∃ ret0, q0.k = .allocTask t m preds (some o) false ret0 := by
    intro q hq hqa t m preds o ret hqk
    rcases (hm q).mp hq with rfl | ⟨hq0, _⟩ | hqn
    · obtain ⟨_, h2, r0, h3⟩ := hAT _ (Or.inl rfl) hqa t m preds o ret hqk
      exact ⟨p, hp, h2, r0, h3⟩
    · exact ⟨q, hq0, hqa, ret, hqk⟩
    · obtain ⟨_, h2, r0, h3⟩ := hAT q (Or.inr hqn) hqa t m preds o ret hqk
      exact ⟨p, hp, h2, r0, h3⟩
  have hplT : ∀ o, planTasks s' o = planTasks s o := planTasks_of_plans hpl
  constructor
  · rw [hqu]; exact h.qNodup
  · intro q hq hqa o sc pa po hqk
    obtain ⟨q0, hq0, _, ha0, hk0⟩ := backS q hq hqa o sc pa po hqk
    have := h.atsQ q0 hq0 ha0 o sc pa po hk0
    rw [hqu]; unfold plan?; rw [hpl]; exact this
  · intro q1 hq1 q2 hq2 ha1 ha2 o sc pa po sc' pa' po' hk1 hk2
    obtain ⟨a, ha, hap, haa, hak⟩ := backS q1 hq1 ha1 o sc pa po hk1
    obtain ⟨b, hb, hbp, hba, hbk⟩ := backS q2 hq2 ha2 o sc' pa' po' hk2
    rw [← hap, ← hbp]
    exact h.atsUniq a ha b hb haa hba o sc pa po sc' pa' po' hak hbk
  · intro q hq hqa o sc pa po hqk
    obtain ⟨q0, hq0, _, ha0, hk0⟩ := backS q hq hqa o sc pa po hqk
    obtain ⟨g1, g2⟩ := h.sl q0 hq0 ha0 o sc pa po hk0
    refine ⟨g1, fun t ht => ?_⟩
    obtain ⟨g3, g4⟩ := g2 t ht
    obtain ⟨c, n, rfl⟩ := planTasks_wf h.pt g3
    exact ⟨by rw [hplT]; exact g3, hU o c n g4⟩
  · rw [hpl]; exact h.pt
  · rw [hpl]; exact h.pf
  · intro q hq hqa t m preds o ret hqk
    obtain ⟨q0, hq0, ha0, r0, hk0⟩ := backT q hq hqa t m preds o ret hqk
    obtain ⟨g1, g2⟩ := h.st q0 hq0 ha0 t m preds o r0 hk0
    obtain ⟨c, n, rfl⟩ := planTasks_wf h.pt g2
    refine ⟨fun hfin => ?_, by rw [hplT]; exact g2⟩
    rcases hF o c n hfin with h1 | h1
    · exact g1 h1
    · exact h1 q hq hqa m preds o ret hqk
  · exact hrc
  · intro o ho; rw [hqu]; exact h.keyQ o (hkq o ho)
  · exact hkne

/-- `runOn` unchanged and the process that ran is not an allocation process -/
theorem rc_quiet {s s' : Sys} (h : RI s) (hpw : PW s) {p : Proc} (hp : p ∈ s.procs) {p' : Proc}
    {new : List Proc} (hm : MemSpec s s' p p' new) (hr : s'.cl.runOn = s.cl.runOn)
    (hk : p.k.tag ≠ "allocTask") :
    ∀ e ∈ s'.cl.runOn, ∃ q ∈ s'.procs, q.alive = true ∧ 1 ≤ q.pc ∧
      ∃ preds ret, q.k = .allocTask e.task e.mach preds e.obs e.ing ret := by
  intro e he
  rw [hr] at he
  obtain ⟨q, hq, hqa, hqc, preds, ret, hqk⟩ := h.rc e he
  refine ⟨q, ?_, hqa, hqc, preds, ret, hqk⟩
  rcases hm.old hpw hp hq with rfl | hq'
  · rw [hqk] at hk; exact absurd rfl hk
  · exact hq'

end Sys
end Topsim
