/-
  DelayTraj9 — (a) the exact amount `_update_current_plan` adds to `delay_offset`;
  (b) at `is_finished()` of a run that has not raised every workflow record is FINISHED and has
  left its (emptied) plan, so every flagged one has been reported.
-/
import TopsimProofs.DelayTraj8
import TopsimProofs.FinishStr4

namespace Topsim
namespace Sys

/-! ### (a) the offset -/

/-- the sum of the offsets of the flagged tasks of a list -/
def ucpSum (s : Sys) (fin : List Tid) : Int :=
  (fin.map (fun t => match s.task? t with
    | some r => if r.delayFlag then r.delayOffset else 0
    | none => 0)).sum

theorem ucpFold_offset (s : Sys) (fin : List Tid) :
    (ucpFold s fin).delayOffset = s.delayOffset + ucpSum s fin := by
  induction fin generalizing s with
  | nil => simp [ucpFold, ucpSum]
  | cons x l ih =>
    have hstep : ucpFold s (x :: l) = ucpFold
        (match s.task? x with
          | some r => if r.delayFlag then { s with schedDelayed := true, delayOffset := s.delayOffset + r.delayOffset } else s
          | none => s) l := rfl
    rw [hstep]
    have hsum : ucpSum s (x :: l) = (match s.task? x with
        | some r => if r.delayFlag then r.delayOffset else 0
        | none => 0) + ucpSum s l := by
      simp [ucpSum]
    rw [hsum]
    cases hx : s.task? x with
    | none => simp only; rw [ih s]; omega
    | some rx =>
      simp only
      by_cases hfl : rx.delayFlag = true
      · rw [if_pos hfl, if_pos hfl, ih]
        have : ucpSum ({ s with schedDelayed := true, delayOffset := s.delayOffset + rx.delayOffset } : Sys) l
            = ucpSum s l := rfl
        rw [this]
        show s.delayOffset + rx.delayOffset + ucpSum s l = _
        omega
      · rw [if_neg hfl, if_neg hfl, ih s]; omega

/-- `_update_current_plan` adds exactly the offsets of the flagged FINISHED tasks it removes -/
theorem updateCurrentPlan_offset (s : Sys) (oid : Oid) :
    (s.updateCurrentPlan oid).delayOffset = s.delayOffset + ucpSum s (ucpFin s oid) := by
  have h : (s.updateCurrentPlan oid).delayOffset = (ucpFold s (ucpFin s oid)).delayOffset :=
    congrArg Prod.snd (updateCurrentPlan_sd s oid)
  rw [h, ucpFold_offset]

/-- … and reports DELAYED iff it was reported before or one of them is flagged -/
theorem updateCurrentPlan_report (s : Sys) (oid : Oid) :
    (s.updateCurrentPlan oid).schedDelayed = true ↔
      s.schedDelayed = true ∨ ∃ t ∈ ucpFin s oid, ∃ r, s.task? t = some r ∧ r.delayFlag = true := by
  have h : (s.updateCurrentPlan oid).schedDelayed = (ucpFold s (ucpFin s oid)).schedDelayed :=
    congrArg Prod.fst (updateCurrentPlan_sd s oid)
  rw [h, (ucpFold_sd s _).1]

/-! ### (b) at the end -/

/-- the observation of a plan is an observation of the configuration -/
theorem plan_obs_mem {s : Sys} (hb : BufI s) {pl : Plan} (hpl : pl ∈ s.plans) : ∃ ob ∈ s.obs, ob.id = pl.obs := by
  have h1 := hb.planLoc pl hpl
  have hpos : 0 < locCount s pl.obs := by
    have : 0 < (bufList s.buf).count pl.obs := by
      apply count_pos_of_mem
      unfold bufList
      rcases List.mem_append.mp h1 with h | h
      · simp [h]
      · simp [h]
    unfold locCount; omega
  obtain ⟨ob, hob, _⟩ := hb.locObs pl.obs hpos
  exact ⟨ob, List.mem_of_find?_eq_some hob, by simpa using List.find?_some hob⟩

/-- at `is_finished()` of a run that has not raised: the record of a workflow task is FINISHED and the
plan of its observation is empty -/
theorem finished_wf_done (s0 s : Sys) (hw : WFConfig s0) (hbuf : bufList s0.buf = [])
    (hsz0 : s0.buf.size = [] ∧ s0.buf.hot.cur ≤ s0.buf.hot.total ∧ s0.buf.cold.cur ≤ s0.buf.cold.total)
    (hrate : ∀ o ∈ s0.obs, 0 < o.rate) (h : ReachOk s0 s) (hf : s.isFinished = true) (hc : s.crashed = none)
    {o : Oid} {c n : Nat} {r : TaskRec} (hr : s.task? (Tid.wf o c n) = some r) :
    r.status = .finished ∧ planTasks s o = [] := by
  have hwi := reachOk_wi s0 s hw hbuf h hc
  have hb := reachOk_bufi s0 s hw hbuf h
  obtain ⟨hm, hid⟩ := mem_of_task? hr
  have hsome := hwi.pr r hm o c n hid
  cases hpo : s.plan? o with
  | none => rw [hpo] at hsome; cases hsome
  | some pl =>
    obtain ⟨hplm, hpobs⟩ := plan?_mem hpo
    obtain ⟨ob, hobm, hobid⟩ := plan_obs_mem hb hplm
    have hfin := finished_all_removed2 s0 s hw hbuf hsz0 hrate h hf hc ob hobm
    obtain ⟨p, hp, hnil, hall⟩ := removed_tasks_ran s0 s hw hbuf h hc ob.id hfin
    rw [hobid, hpobs, hpo] at hp
    injection hp with hp
    subst hp
    refine ⟨(hall r hm ⟨c, n, by rw [hid, hobid, hpobs]⟩).1, ?_⟩
    unfold planTasks; rw [hpo]; exact hnil

end Sys
end Topsim
