/-
  IngestLimit15 — the ingest timing invariant across a block of a task body
  (`do_work`).  The body of an ingest task takes exactly the observation's
  duration (no work, planned duration, no delay model): started at `ast`, it
  ends at `ast + duration - 1`.
-/
import TopsimProofs.IngestLimit14

namespace Topsim
namespace Sys

open Cluster

theorem il_task?_mem {s : Sys} {t : Tid} {r : TaskRec} (h : s.task? t = some r) : r ∈ s.tasks ∧ r.id = t := by
  unfold task? at h
  exact ⟨List.mem_of_find?_eq_some h, by simpa using List.find?_some h⟩

/-! ### what a `do_work` block does to the fields -/

theorem il_doWorkBlock_fields (s : Sys) (now : Time) (orc : Oracle) (t : Tid) (m : Mid) (preds : List Tid)
    (ph tot : Nat) :
    (s.doWorkBlock now orc t m preds ph tot).1.obs = s.obs ∧
    (s.doWorkBlock now orc t m preds ph tot).1.cl = s.cl ∧
    (s.doWorkBlock now orc t m preds ph tot).1.procs = s.procs ∧
    ∃ ph' tot', (s.doWorkBlock now orc t m preds ph tot).2.1 = .doWork t m preds ph' tot' := by
  rcases doWorkBlock_out s now orc t m preds ph tot with
    ⟨_, ph', tot', y, heq⟩ | ⟨_, f, tot', d, _, heq⟩ | ⟨_, f, _, heq⟩ <;> rw [heq]
  · exact ⟨rfl, rfl, rfl, ph', tot', rfl⟩
  · exact ⟨rfl, rfl, rfl, 2, tot', rfl⟩
  · exact ⟨rfl, rfl, rfl, 3, tot, rfl⟩

/-- the start stamp: status, start time and duration of the records of `t` -/
theorem il_taskK_start (s : Sys) (t : Tid) (now : Time) (dur : Nat)
    (h : ∀ r ∈ s.tasks, r.id = t → t.isIngest = true → r.flops = 0 → r.data = 0 → r.duration = dur) :
    IlTaskK s.tasks (s.updTask t (fun r => { r with status := .running, ast := some now, duration := dur })).tasks := by
  intro r' hr' hi
  simp only [Sys.updTask, List.mem_map] at hr'
  obtain ⟨r, hr, rfl⟩ := hr'
  refine ⟨r, hr, ?_⟩
  by_cases hrt : r.id = t
  · rw [if_pos hrt] at hi ⊢
    have hi' : t.isIngest = true := by rw [← hrt]; exact hi
    exact ⟨rfl, rfl, rfl, fun h0 h0' => (h r hr hrt hi' h0 h0').symm, rfl⟩
  · rw [if_neg hrt]
    exact ⟨rfl, rfl, rfl, fun _ _ => rfl, rfl⟩

/-- F13: as `IlTaskK`, but the last block of the body stamps the finish `now + 1` on its task -/
def IlTaskKD (t : Tid) (ph : Nat) (now : Time) (ts ts' : List TaskRec) : Prop :=
  ∀ r' ∈ ts', r'.id.isIngest = true →
    ∃ r ∈ ts, r'.id = r.id ∧ r'.flops = r.flops ∧ r'.data = r.data ∧
      (r.flops = 0 → r.data = 0 → r'.duration = r.duration) ∧
      (r'.aft = r.aft ∨ (r.id = t ∧ 2 ≤ ph ∧ r'.aft = some (now + 1)))

theorem IlTaskK.toD {ts ts' : List TaskRec} (h : IlTaskK ts ts') (t : Tid) (ph : Nat) (now : Time) :
    IlTaskKD t ph now ts ts' := by
  intro r' hr' hi
  obtain ⟨r, hr, e1, e2, e3, e4, e5⟩ := h r' hr' hi
  exact ⟨r, hr, e1, e2, e3, e4, Or.inl e5⟩

theorem il_doWorkBlock_taskK (s : Sys) (now : Time) (orc : Oracle) (t : Tid) (m : Mid) (preds : List Tid)
    (ph tot : Nat)
    (hR : t.isIngest = true → ∀ r ∈ s.tasks, r.id = t → r.flops = 0 ∧ r.data = 0 ∧
      ∀ r2 ∈ s.tasks, r2.id = t → r2.duration = r.duration) :
    IlTaskKD t ph now s.tasks (s.doWorkBlock now orc t m preds ph tot).1.tasks := by
  -- the start stamp, whatever the delay
  have hstart : ∀ (total : Nat), IlTaskK s.tasks
      (match s.task? t, s.machine? m with
        | some r, some mm =>
          match nominalDuration r.flops r.data mm.cpu mm.bw r.duration with
          | .error e => ((s, PK.doWork t m preds 2 total, Yield.raised e) : Sys × PK × Yield)
          | .ok dur =>
            let tot := match orc.total with
              | some t => t
              | none =>
                if t.isIngest then dur
                else match dictGet orc.delayTable dur with
                | some t => t
                | none =>
                  if orc.delayScript.isEmpty then dur
                  else dur + orc.delayScript.getD
                    ((s.starts.filter (fun (x : Tid) => !x.isIngest)).length % orc.delayScript.length) 0
            let s1 := s.updTask t (fun r => { r with status := .running, ast := some now, duration := dur })
            let s2 := { s1 with starts := s1.starts ++ [t], active := s1.active ++ [(m, t)] }
            (s2, .doWork t m preds 2 tot, .timeout (bodyWait tot : Nat))
        | _, _ => (s, .doWork t m preds 2 total, .raised .other)).1.tasks := by
    intro total
    split
    · rename_i r mm hr _
      obtain ⟨hrm, hrid⟩ := il_task?_mem hr
      split
      · exact IlTaskK.refl _
      · rename_i dur hdur
        simp only
        apply il_taskK_start
        intro r2 hr2 hr2id hi h0 h0'
        obtain ⟨f1, f2, f3⟩ := hR hi r hrm hrid
        have : dur = r.duration := by
          unfold nominalDuration at hdur
          simp [f1, f2] at hdur
          exact hdur.symm
        rw [this]
        exact f3 r2 hr2 hr2id
    · exact IlTaskK.refl _
  unfold doWorkBlock
  simp only
  by_cases h0 : ph = 0
  · simp only [h0, if_true]
    split
    · exact (hstart tot).toD _ _ _
    · split
      · exact (IlTaskK.refl _).toD _ _ _
      · exact (IlTaskK.refl _).toD _ _ _
  · simp only [h0, if_false]
    by_cases h1 : ph = 1
    · simp only [h1, if_true]
      exact (hstart tot).toD _ _ _
    · simp only [h1, if_false]
      intro r' hr' _
      simp only [Sys.updTask, List.mem_map] at hr'
      obtain ⟨r, hr, rfl⟩ := hr'
      refine ⟨r, hr, ?_⟩
      by_cases hrt : r.id = t
      · rw [if_pos hrt]
        refine ⟨?_, ?_, ?_, fun _ _ => ?_, Or.inr ⟨hrt, by omega, rfl⟩⟩ <;> (simp only; split <;> rfl)
      · rw [if_neg hrt]
        exact ⟨rfl, rfl, rfl, fun _ _ => rfl, Or.inl rfl⟩

/-- the body of an ingest task of an observation of duration `D`: it starts at once, takes `D`,
and its last block only ends it -/
theorem il_doWorkBlock_ingest (s : Sys) (now : Time) (orc : Oracle) (htot : orc.total = none) (o : Oid)
    (i : Nat) (m : Mid) (ph tot D : Nat)
    (hR : ∀ rec, s.task? (.ingest o i) = some rec → rec.flops = 0 ∧ rec.data = 0 ∧ rec.duration = D) :
    (ph = 0 →
      (∃ e, (s.doWorkBlock now orc (.ingest o i) m [] ph tot).2.2 = .raised e) ∨
      ((s.doWorkBlock now orc (.ingest o i) m [] ph tot).2.1 = .doWork (.ingest o i) m [] 2 D ∧
       (s.doWorkBlock now orc (.ingest o i) m [] ph tot).2.2 = .timeout ((bodyWait D : Nat) : Time))) ∧
    (2 ≤ ph → (s.doWorkBlock now orc (.ingest o i) m [] ph tot).2.2 = .done) := by
  constructor
  · intro h0
    unfold doWorkBlock
    simp only [h0, if_true, List.isEmpty_nil]
    cases hr : s.task? (.ingest o i) with
    | none => left; exact ⟨_, rfl⟩
    | some rec =>
      cases hm : s.machine? m with
      | none => left; exact ⟨_, rfl⟩
      | some mm =>
        obtain ⟨f1, f2, f3⟩ := hR rec hr
        simp only
        have : nominalDuration rec.flops rec.data mm.cpu mm.bw rec.duration = .ok D := by
          unfold nominalDuration; simp [f1, f2, f3]
        rw [this]
        right
        simp [htot, Tid.isIngest]
  · intro h2
    unfold doWorkBlock
    have h0 : ¬ ph = 0 := by omega
    have h1 : ¬ ph = 1 := by omega
    simp only [h0, h1, if_false]

theorem il_doWorkBlock_done (s : Sys) (now : Time) (orc : Oracle) (t : Tid) (m : Mid) (preds : List Tid)
    (ph tot : Nat) (h2 : 2 ≤ ph) : (s.doWorkBlock now orc t m preds ph tot).2.2 = .done := by
  unfold doWorkBlock
  have h0 : ¬ ph = 0 := by omega
  have h1 : ¬ ph = 1 := by omega
  simp only [h0, h1, if_false]

theorem il_cast_bodyWait (a D : Nat) (h : 1 ≤ D) :
    ((a : Nat) : Time) + ((bodyWait D : Nat) : Time) = ((a + (D - 1) : Nat) : Time) := by
  unfold bodyWait
  have : ¬ D < 1 := by omega
  simp only [this, if_false]
  rw [Rat.natCast_add]

/-! ### the step -/

theorem ilti_step_doWork {s : Sys} (hs : SInv s) (h : ILTI s) {pid : Nat} {p : Proc}
    (hp : s.proc? pid = some p) (ha : p.alive = true) (orc : Oracle) (htot : orc.total = none)
    {t : Tid} {m : Mid} {preds : List Tid} {ph tot : Nat} (hk : p.k = .doWork t m preds ph tot) :
    ILTI (s.resume pid orc).1 := by
  obtain ⟨hpm, hpid⟩ := proc?_some hp
  have hpw := hs.pw
  have hb : s.block p orc = s.doWorkBlock p.wake orc t m preds ph tot := by
    unfold block; simp only [hk]
  obtain ⟨f1, f2, f3⟩ := il_resume_fields s pid orc p hp ha
  obtain ⟨g1, g2, g3, ph', tot', g4⟩ := il_doWorkBlock_fields s p.wake orc t m preds ph tot
  rw [hb] at f1 f2 f3
  have hobs : (s.resume pid orc).1.obs = s.obs := f1.trans g1
  have hcl : (s.resume pid orc).1.cl = s.cl := f2.trans g2
  have ho : ∀ o, (s.resume pid orc).1.obs? o = s.obs? o := il_obs?_congr' hobs
  have hnewk : ∃ new, (s.block p orc).1.procs = s.procs ++ new ∧ ∀ q ∈ new, q.k.ilRel = false :=
    ⟨[], by rw [hb, g3]; simp, by simp⟩
  obtain ⟨m1, m3⟩ := il_resume_procs_irrel hpw hp ha orc hnewk
  -- the entry of the body after its block
  have hp'k : (fin (s.block p orc).2.1 (s.block p orc).2.2 p.wake p).k = .doWork t m preds ph' tot' := by
    rw [fin_k, hb, g4]
  have hp'in : fin (s.block p orc).2.1 (s.block p orc).2.2 p.wake p ∈ (s.resume pid orc).1.procs :=
    (il_resume_procs_mem hpw hp ha orc).2.1
  have hpnr : p.k.ilRel = false := by rw [hk]; rfl
  have hrel : ∀ q' ∈ (s.resume pid orc).1.procs, q'.k.ilRel = true → q' ∈ s.procs ∧ q'.pid ≠ pid := by
    intro q' hq' hr
    rcases m1 q' hq' with rfl | hh | ⟨hh, _⟩
    · rw [hp'k] at hr; exact absurd hr (by simp [PK.ilRel])
    · exact hh
    · rw [hh] at hr; exact absurd hr (by simp)
  have hold : ∀ q ∈ s.procs, q.k.ilRel = true → q ∈ (s.resume pid orc).1.procs := by
    intro q hq hr
    apply m3 q hq
    intro e
    have : q = p := hpw.eq_of_pid hq hpm (e.trans hpid.symm)
    subst this
    rw [hpnr] at hr; exact absurd hr (by simp)
  have hlive : ∀ o, o ∉ ilLiveAI (s.resume pid orc).1.procs → o ∉ ilLiveAI s.procs := by
    intro o hno hin
    obtain ⟨q, hq, hqa, hqk⟩ := mem_ilLiveAI.mp hin
    apply hno
    refine mem_ilLiveAI.mpr ⟨q, hold q hq ?_, hqa, hqk⟩
    cases hkq : q.k <;> simp [hkq, PK.aiObs] at hqk <;> rfl
  -- ingest task records
  have hRt : t.isIngest = true → ∀ r ∈ s.tasks, r.id = t → r.flops = 0 ∧ r.data = 0 ∧
      ∀ r2 ∈ s.tasks, r2.id = t → r2.duration = r.duration := by
    intro hi r hr hrid
    cases t with
    | ingest o i =>
      obtain ⟨e1, e2, ob, hob, e3⟩ := h.taskR r hr o i hrid
      refine ⟨e1, e2, ?_⟩
      intro r2 hr2 hr2id
      obtain ⟨_, _, ob2, hob2, e4⟩ := h.taskR r2 hr2 o i hr2id
      rw [hob] at hob2; cases hob2
      rw [e3, e4]
    | wf o c n => simp [Tid.isIngest] at hi
    | raw n => simp [Tid.isIngest] at hi
  have htasks : IlTaskKD t ph p.wake s.tasks (s.resume pid orc).1.tasks := by
    rw [f3]; exact il_doWorkBlock_taskK s p.wake orc t m preds ph tot hRt
  constructor
  · rw [hobs]; exact h.durPos
  · intro r' hr' o i hid
    obtain ⟨r, hr, e1, e2, e3, e4, _⟩ := htasks r' hr' (by rw [hid]; rfl)
    obtain ⟨k1, k2, ob, hob, k3⟩ := h.taskR r hr o i (e1 ▸ hid)
    exact ⟨e2.trans k1, e3.trans k2, ob, by rw [ho]; exact hob, (e4 k1 k2).trans k3⟩
  · intro q hq o tl hqk hpc
    obtain ⟨n, ob, h1, h2, h3⟩ := h.aiNew q (hrel q hq (by rw [hqk]; rfl)).1 o tl hqk hpc
    exact ⟨n, ob, h1, by rw [ho]; exact h2, h3⟩
  · intro q hq hqa hpc o tl hqk
    obtain ⟨ob, a, j, h1, r⟩ := h.aiRun q (hrel q hq (by rw [hqk]; rfl)).1 hqa hpc o tl hqk
    exact ⟨ob, a, j, by rw [ho]; exact h1, r⟩
  · intro q hq hqa o tl hqk ob a hob
    rw [ho] at hob
    exact h.aiFin q (hrel q hq (by rw [hqk]; rfl)).1 hqa o tl hqk ob a hob
  · intro q hq hqa hqc o d hqk
    obtain ⟨ob, a, h1, r⟩ := h.piW q (hrel q hq (by rw [hqk]; rfl)).1 hqa hqc o d hqk
    exact ⟨ob, a, by rw [ho]; exact h1, r⟩
  · intro q hq hqa hqc t1 m1' preds1 o ret hqk
    obtain ⟨h1, h2, ob, a, h3, r⟩ := h.atPend q (hrel q hq (by rw [hqk]; rfl)).1 hqa hqc t1 m1' preds1 o ret hqk
    exact ⟨h1, h2, ob, a, by rw [ho]; exact h3, r⟩
  · -- polling allocation processes: the body may be the one that ran
    intro q hq hqa hqc t1 m1' preds1 o ret hqk
    obtain ⟨hqold, _⟩ := hrel q hq (by rw [hqk]; rfl)
    obtain ⟨⟨i, hti⟩, r, hr, hrp, hqw, phr, totr, hrk, hph, ob, a, b, hob, hast, hrw, hb0, hbd⟩ :=
      h.atRun q hqold hqa hqc t1 m1' preds1 o ret hqk
    refine ⟨⟨i, hti⟩, ?_⟩
    by_cases hrpid : r.pid = pid
    · -- the body of this very task has run
      have hrp' : r = p := hpw.eq_of_pid hr hpm (hrpid.trans hpid.symm)
      subst hrp'
      rw [hk] at hrk
      injection hrk with e1 e2 e3 e4 e5
      subst e1 e2 e3 e4 e5
      subst hti
      have hD := h.durPos ob (by unfold obs? at hob; exact List.mem_of_find?_eq_some hob)
      have hrec : ∀ rec, s.task? (.ingest o i) = some rec → rec.flops = 0 ∧ rec.data = 0 ∧ rec.duration = ob.duration := by
        intro rec hrec
        obtain ⟨hrm, hrid⟩ := il_task?_mem hrec
        obtain ⟨k1, k2, ob2, hob2, k3⟩ := h.taskR rec hrm o i hrid
        rw [hob] at hob2; cases hob2
        exact ⟨k1, k2, k3⟩
      obtain ⟨d0, d2⟩ := il_doWorkBlock_ingest s r.wake orc htot o i m ph tot ob.duration hrec
      refine ⟨_, hp'in, by simp [hrp], ?_⟩
      rcases hph ha with hph0 | hph2
      · rcases d0 hph0 with ⟨e, he⟩ | ⟨dk, dy⟩
        · -- the start failed: the body is dead, where it was
          have hy : (s.block r orc).2.2 = .raised e := by rw [hb]; exact he
          refine ⟨by rw [hy]; exact hqw, ph', tot', hp'k, ?_, ob, a, b, by rw [ho]; exact hob, hast,
            by rw [hy]; exact hrw, ?_, hbd⟩
          · intro hal; rw [hy] at hal; exact absurd hal (by simp)
          · intro hal; rw [hy] at hal; exact absurd hal (by simp)
        · -- started: it ends `duration - 1` later
          have hy : (s.block r orc).2.2 = .timeout ((bodyWait ob.duration : Nat) : Time) := by rw [hb]; exact dy
          have hkk : (s.block r orc).2.1 = .doWork (.ingest o i) m [] 2 ob.duration := by rw [hb]; exact dk
          have hba : b = a := hb0 ha hph0
          have hw' : (fin (s.block r orc).2.1 (s.block r orc).2.2 r.wake r).wake
              = ((a + (ob.duration - 1) : Nat) : Time) := by
            rw [hy, il_fin_wake_timeout, hrw, hba]
            exact il_cast_bodyWait a ob.duration hD
          refine ⟨?_, 2, ob.duration, by rw [fin_k, hkk], fun _ => Or.inr (Nat.le_refl _), ob, a,
            a + (ob.duration - 1), by rw [ho]; exact hob, hast, hw', fun _ h2 => absurd h2 (by simp), by omega, hbd.2⟩
          rw [hw']
          have : ((a : Nat) : Time) ≤ ((a + (ob.duration - 1) : Nat) : Time) :=
            Rat.natCast_le_natCast.mpr (by omega)
          rw [hrw, hba] at hqw
          grind
      · -- the last block: the body ends where it is
        have hy : (s.block r orc).2.2 = .done := by rw [hb]; exact d2 hph2
        refine ⟨by rw [hy]; exact hqw, ph', tot', hp'k, ?_, ob, a, b, by rw [ho]; exact hob, hast,
          by rw [hy]; exact hrw, ?_, hbd⟩
        · intro hal; rw [hy] at hal; exact absurd hal (by simp)
        · intro hal; rw [hy] at hal; exact absurd hal (by simp)
    · exact ⟨r, m3 r hr hrpid, hrp, hqw, phr, totr, hrk, hph, ob, a, b, by rw [ho]; exact hob, hast, hrw, hb0, hbd⟩
  · -- F13: recorded finishes: the old ones, and the one this block stamps
    intro r' hr' hi f hf
    obtain ⟨r, hr, e1, _, _, _, e5⟩ := htasks r' hr' hi
    rcases e5 with e5 | ⟨hrt, hph2, e5⟩
    · obtain ⟨d, hd, hda, hfd, m', preds', ph'', tot'', hdk⟩ := h.aftI r hr (e1 ▸ hi) f (e5 ▸ hf)
      refine ⟨d, m3 d hd ?_, hda, hfd, m', preds', ph'', tot'', by rw [e1]; exact hdk⟩
      intro e
      have : d = p := hpw.eq_of_pid hd hpm (e.trans hpid.symm)
      rw [this, ha] at hda; exact absurd hda (by simp)
    · have hy : (s.block p orc).2.2 = .done := by rw [hb]; exact il_doWorkBlock_done s p.wake orc t m preds ph tot hph2
      rw [e5] at hf
      injection hf with hf
      refine ⟨_, hp'in, by rw [hy]; rfl, ?_, m, preds, ph', tot', by rw [hp'k, e1, hrt]⟩
      rw [hy]; exact hf.symm
  · intro e he
    rw [hcl] at he
    obtain ⟨o, h1, q, hq, h2, h3, preds1, ret, hqk⟩ := h.entPend e he
    exact ⟨o, h1, q, hold q hq (by rw [hqk]; rfl), h2, h3, preds1, ret, hqk⟩
  · intro e he hi
    rw [hcl] at he
    obtain ⟨o, h1, q, hq, h2, h3, preds1, ret, hqk⟩ := h.entRun e he hi
    exact ⟨o, h1, q, hold q hq (by rw [hqk]; rfl), h2, h3, preds1, ret, hqk⟩
  · intro e he o heo hno
    rw [hcl] at he
    obtain ⟨q, hq, hqa, hqc, ⟨preds1, ret, hqk, hdead⟩, hlt⟩ := h.stale e he o heo (hlive o hno)
    refine ⟨q, hold q hq (by rw [hqk]; rfl), hqa, hqc, ⟨preds1, ret, hqk, ?_⟩, ?_⟩
    · intro r' hr' hrp
      rcases m1 r' hr' with rfl | ⟨hh, _⟩ | ⟨_, hge⟩
      · -- the body that ran was alive: it is not the (dead) body of a stale allocation process
        exfalso
        have := (hdead p hpm (by simpa [hpid] using hrp)).1
        rw [this] at ha; exact absurd ha (by simp)
      · exact hdead r' hh hrp
      · exfalso
        obtain ⟨_, r, hr, hrpid, _⟩ := h.atRun q hq hqa hqc _ _ _ _ _ hqk
        have := hpw.lt r hr
        omega
    · intro t' ht' htk hta
      exact hlt t' (hrel t' ht' (by rw [htk]; rfl)).1 htk hta

end Sys
end Topsim
