/-
  Live17b — no block of the run raises (part 2): the provisioner (T3), the allocation process (T5)
  and the task body (T6).
-/
import TopsimProofs.Live17
import TopsimProofs.PlanFollow3

namespace Topsim

open KState Sys

/-! ### T3: the provisioner -/

theorem Cluster.nc_provisionIngest_ok {c : Cluster} {U : List Tid} (h : Cluster.Inv c U) (d : Nat) (o : Oid)
    (hd : d ≤ c.available.length) : (c.provisionIngest d o).2.1 = none := by
  unfold Cluster.provisionIngest
  have hd' : ¬ d > c.available.length := by omega
  simp only [hd', if_false]
  generalize hp : ((c.available.take d).zipIdx.map (fun (x : Mid × Nat) => (x.1, Tid.ingest o x.2))) = pairs
  have hfst : pairs.map (·.1) = c.available.take d := by
    subst hp; rw [List.map_map]; exact List.zipIdx_map_fst 0 _
  have hsub : ∀ p ∈ pairs, p.1 ∈ c.available := by
    intro p hp'
    have : p.1 ∈ pairs.map (·.1) := List.mem_map_of_mem hp'
    rw [hfst] at this
    exact List.mem_of_mem_take this
  have hnd : (pairs.map (·.1)).Nodup := by
    rw [hfst]; exact (List.take_sublist d c.available).nodup h.avail_nodup
  exact Cluster.moveToIngest_noerr { c with ingestStatus := true, ingestDemand := d } o pairs hsub hnd

theorem Sys.nc_provIngest_nr (s : Sys) (now : Time) (pc : Nat) (oid : Oid) (d : Nat)
    (h : pc = 0 → (s.cl.provisionIngest d oid).2.1 = none) :
    ∀ err, (s.provIngestBlock now pc oid d).2.2 ≠ .raised err := by
  intro err
  unfold Sys.provIngestBlock
  split
  · rename_i hpc
    have h' := h hpc
    simp only
    split
    · rename_i heq
      rw [heq] at h'
      cases h'
    · simp
  · simp

section
variable {env : SimEnv} {s0 : Sys}

theorem nc_block_provIngest_ok (N : NcCfg env s0) (Ord : NcOrder env s0) (n : Nat)
    (hc : (simAt env s0 n).st.crashed = none) {e : HEntry} {p : Proc}
    (hpk : (simAt env s0 n).peek = some e) (hpp : (simAt env s0 n).st.proc? e.pid = some p)
    (ha : p.alive = true) {o : Oid} {d : Nat} (hk : p.k = .provIngest o d) (orc : Oracle) :
    ∀ err, ((simAt env s0 n).st.block p orc).2.2 ≠ .raised err := by
  rw [block_provIngest orc hk]
  apply Sys.nc_provIngest_nr
  intro hpc
  obtain ⟨U, hU⟩ := (nc_sinv N n).ci
  exact Cluster.nc_provisionIngest_ok hU.inv d o (Ord.prov n hc hpk hpp ha hk hpc)

end

/-! ### T5: the allocation process -/

theorem Cluster.nc_allocBegin_ing (c : Cluster) (t : Tid) (m : Mid) (obs : Option Oid) (ht : t ∉ c.running)
    (hm : m ∈ c.ingest) : (c.allocBegin t m obs true).2 = none := by
  unfold Cluster.allocBegin
  simp [ht, hm]

theorem Cluster.nc_allocBegin_task (c : Cluster) (t : Tid) (m : Mid) (obs : Option Oid) (ht : t ∉ c.running)
    (hm : m ∈ c.available) : (c.allocBegin t m obs false).2 = none := by
  unfold Cluster.allocBegin Cluster.setMachineOccupied
  simp [ht, hm]

/-- the first block of an allocation process whose `allocBegin` is accepted does not raise -/
theorem Sys.nc_allocTask_begin_nr (s : Sys) (now : Time) (t : Tid) (m : Mid) (preds : List Tid)
    (obs : Option Oid) (ing : Bool) (ret : Nat) (hnr : t ∉ s.cl.running)
    (hb : (s.cl.allocBegin t m obs ing).2 = none) :
    ∀ err, (s.allocTaskBlock now t m preds obs ing ret).2.2 ≠ .raised err := by
  intro err h
  have hend := allocEnd_after_ingestBegin s.cl t m obs
  unfold Sys.allocTaskBlock at h
  simp only [hnr, not_false_eq_true, if_true] at h
  generalize hr : s.cl.allocBegin t m obs ing = r at h hb hend
  obtain ⟨cl1, e1⟩ := r
  simp only at hb
  subst hb
  simp only at h
  cases ing with
  | false => simp at h
  | true =>
    simp only [if_true] at h
    rw [hr] at hend
    have hend' := hend rfl
    simp only at hend'
    split at h
    · simp only [spawn_cl, updTask_cl] at h
      generalize hr2 : cl1.allocEnd t m obs true = r2 at h hend'
      obtain ⟨cl2, e2⟩ := r2
      simp only at hend'
      subst hend'
      simp at h
    · simp at h

/-- a polling block of an allocation process whose `allocEnd` is accepted does not raise -/
theorem Sys.nc_allocTask_poll_nr (s : Sys) (now : Time) (t : Tid) (m : Mid) (preds : List Tid)
    (obs : Option Oid) (ing : Bool) (ret : Nat) (hr : t ∈ s.cl.running)
    (he : (s.cl.allocEnd t m obs ing).2 = none) :
    ∀ err, (s.allocTaskBlock now t m preds obs ing ret).2.2 ≠ .raised err := by
  intro err h
  unfold Sys.allocTaskBlock at h
  simp only [hr, not_true_eq_false, if_false] at h
  generalize hr2 : s.cl.allocEnd t m obs ing = r2 at h he
  obtain ⟨cl2, e2⟩ := r2
  simp only at he
  subst he
  split at h <;> simp at h

section
variable {env : SimEnv} {s0 : Sys}

theorem nc_block_allocTask_ok (N : NcCfg env s0) (Ord : NcOrder env s0) (n : Nat)
    (hc : (simAt env s0 n).st.crashed = none) {e : HEntry} {p : Proc}
    (hpk : (simAt env s0 n).peek = some e) (hpp : (simAt env s0 n).st.proc? e.pid = some p)
    (ha : p.alive = true) {t : Tid} {m : Mid} {preds : List Tid} {obs : Option Oid} {ing : Bool} {ret : Nat}
    (hk : p.k = .allocTask t m preds obs ing ret) (orc : Oracle) :
    ∀ err, ((simAt env s0 n).st.block p orc).2.2 ≠ .raised err := by
  rw [block_allocTask orc hk]
  obtain ⟨U, hU⟩ := (nc_sinv N n).ci
  have hp := nc_mem hpp
  by_cases hr : t ∈ (simAt env s0 n).st.cl.running
  · -- polling: the entry of the process is in `runOn`
    have hpc : 1 ≤ p.pc := by
      rcases Nat.eq_zero_or_pos p.pc with h0 | h0
      · exfalso
        cases ing with
        | true =>
          have he := hU.pend p hp ha t m preds obs ret hk h0
          exact (hU.inv.pendFresh _ he).1 hr
        | false =>
          exact (hU.newT p hp ha t m preds obs ret hk h0).1 (hU.inv.usedRun t hr)
      · exact h0
    have he := hU.runOn p hp ha t m preds obs ing ret hk hpc
    exact Sys.nc_allocTask_poll_nr _ _ _ _ _ _ _ _ hr (Cluster.allocEnd_ok hU.inv ⟨t, m, obs, ing⟩ he).1
  · -- the first block
    have hpc : p.pc = 0 := by
      rcases Nat.eq_zero_or_pos p.pc with h0 | h0
      · exact h0
      · exfalso
        have he := hU.runOn p hp ha t m preds obs ing ret hk h0
        apply hr
        rw [← hU.inv.runOnTasks]
        exact List.mem_map_of_mem (f := (·.task)) he
    apply Sys.nc_allocTask_begin_nr _ _ _ _ _ _ _ _ hr
    cases ing with
    | true =>
      have he := hU.pend p hp ha t m preds obs ret hk hpc
      have hmi : m ∈ (simAt env s0 n).st.cl.ingest := by
        have h1 := hU.inv.ingm m
        have h2 : 0 < ((simAt env s0 n).st.cl.pending.map (·.mach)).count m :=
          count_pos_of_mem (List.mem_map_of_mem (f := (·.mach)) he)
        exact List.count_pos_iff.mp (by omega)
      exact Cluster.nc_allocBegin_ing _ _ _ _ hr hmi
    | false =>
      exact Cluster.nc_allocBegin_task _ _ _ _ hr (Ord.alloc n hc hpk hpp ha hk hpc)

end

/-! ### T6: the task body -/

theorem Sys.nc_doWork_nr (s : Sys) (now : Time) (orc : Oracle) (t : Tid) (m : Mid) (preds : List Tid)
    (ph tot : Nat) {r : TaskRec} {mm : Machine} (hr : s.task? t = some r) (hm : s.machine? m = some mm)
    (hcpu : 0 < mm.cpu) (hbw : 0 < mm.bw) :
    ∀ err, (s.doWorkBlock now orc t m preds ph tot).2.2 ≠ .raised err := by
  intro err
  have h1 : ¬ (mm.cpu = 0 ∨ mm.bw = 0) := by omega
  have h2 : ¬ mm.bw = 0 := by omega
  have h3 : ¬ mm.cpu = 0 := by omega
  unfold Sys.doWorkBlock Sys.transferWait nominalDuration calculateRuntime
  simp only [hr, hm, h2, h3, or_self, if_false]
  repeat' split
  all_goals first
    | (simp; done)
    | (rename_i h; split at h <;> cases h)
    | (rename_i h; simp at h; done)
    | (rename_i h _; simp at h; done)

section
variable {env : SimEnv} {s0 : Sys}

/-- a machine of the cluster is a machine of the configuration, with positive speeds -/
theorem nc_machine (N : NcCfg env s0) (n : Nat) (hc : (simAt env s0 n).st.crashed = none) {m : Mid}
    (hm : m ∈ (simAt env s0 n).st.cl.machines) :
    ∃ mm, (simAt env s0 n).st.machine? m = some mm ∧ 0 < mm.cpu ∧ 0 < mm.bw := by
  rw [sim_machines env s0 N.hw _ (simAt_reach env s0 n)] at hm
  obtain ⟨mm0, hmm0, hid⟩ := List.mem_map.mp hm
  have hms : (simAt env s0 n).st.machines = s0.machines := reach_sys_machines (nc_reach N n hc)
  have hsome : ((simAt env s0 n).st.machine? m).isSome = true := by
    unfold Sys.machine?
    rw [hms, List.find?_isSome]
    exact ⟨mm0, hmm0, by simp [hid]⟩
  obtain ⟨mm, hmm⟩ := Option.isSome_iff_exists.mp hsome
  have hmem : mm ∈ s0.machines := by
    unfold Sys.machine? at hmm
    rw [hms] at hmm
    exact List.mem_of_find?_eq_some hmm
  exact ⟨mm, hmm, N.feas.2.1 mm hmem⟩

/-- the machine of a `runOn` entry is a machine of the cluster -/
theorem Cluster.nc_runOn_machine {c : Cluster} {U : List Tid} (h : Cluster.Inv c U) {e : RunEntry}
    (he : e ∈ c.runOn) : e.mach ∈ c.machines := by
  have hmr := count_pos_of_mem (Cluster.mem_runMachines he)
  have hp := h.part e.mach
  have : 0 < c.machines.count e.mach := by
    cases hi : e.ing with
    | true =>
      rw [hi] at hmr
      have := h.ingm e.mach
      omega
    | false =>
      rw [hi] at hmr
      have := h.occ e.mach
      omega
  exact List.count_pos_iff.mp this

theorem nc_block_doWork_ok (N : NcCfg env s0) (n : Nat) (hc : (simAt env s0 n).st.crashed = none)
    {p : Proc} (hp : p ∈ (simAt env s0 n).st.procs) (ha : p.alive = true) {t : Tid} {m : Mid}
    {preds : List Tid} {ph tot : Nat} (hk : p.k = .doWork t m preds ph tot) (orc : Oracle) :
    ∀ err, ((simAt env s0 n).st.block p orc).2.2 ≠ .raised err := by
  rw [block_doWork orc hk]
  have hs := nc_sinv N n
  obtain ⟨U, hU⟩ := hs.ci
  obtain ⟨r, hr⟩ := Sys.dw_hasRec hs hp hk
  obtain ⟨a, ha1, haa, hapc, preds', obs, ing, hak⟩ := hs.dg.dwAlloc p hp ha _ _ _ _ _ hk
  have he := hU.runOn a ha1 haa _ _ _ _ _ _ hak hapc
  obtain ⟨mm, hmm, hcpu, hbw⟩ := nc_machine N n hc (Cluster.nc_runOn_machine hU.inv he)
  exact Sys.nc_doWork_nr _ _ _ _ _ _ _ _ hr hmm hcpu hbw

end

end Topsim
