/-
  Transit3 — the simulator (L3) side of the room-on-top-of-transit property.

  `TransitSimRun Q env s0 k`: an uninterrupted run of the simulator along which every state
  satisfies `Q`.  It refines `TransitReach Q` (`transit_l3_refines`, in the style of
  `l3_refines_reachD`), so the trajectory theorem of Transit2 holds at every kernel step that
  admits an observation (`transit_admission_cold_room_simpy`).

  For concrete runs: `transitRunChk` evaluates `Q` (as a Boolean) at every state of `runUntil`.
-/
import TopsimProofs.Transit2
import TopsimProofs.Witness1

namespace Topsim

open Sys

inductive TransitSimRun (Q : Sys → Prop) (env : SimEnv) (s0 : Sys) : SimState → Prop
  | start : Q (SimState.start s0).st → TransitSimRun Q env s0 (SimState.start s0)
  | step (k k1 : SimState) : TransitSimRun Q env s0 k → k.st.halted = false →
      k.step (simHandler env) = some k1 → Q k1.st → TransitSimRun Q env s0 k1

theorem TransitSimRun.toRun {Q : Sys → Prop} {env : SimEnv} {s0 : Sys} {k : SimState}
    (h : TransitSimRun Q env s0 k) : SimRun env s0 k := by
  induction h with
  | start _ => exact SimRun.start
  | step k k1 _ hh hs _ ih => exact SimRun.step k k1 ih hh hs

theorem TransitSimRun.holds {Q : Sys → Prop} {env : SimEnv} {s0 : Sys} {k : SimState}
    (h : TransitSimRun Q env s0 k) : Q k.st := by
  cases h with
  | start h => exact h
  | step k k1 _ _ _ h => exact h

/-- the runs of the simulator along which `Q` holds are runs of the block system along which `Q`
holds (up to the `halted` flag) -/
theorem transit_l3_refines (Q : Sys → Prop) (env : SimEnv) (s0 : Sys) (hw : WFConfig s0) (k : SimState)
    (h : TransitSimRun Q env s0 k) :
    ∃ s, TransitReach Q s0 s ∧ (k.st = s ∨ (k.st = { s with halted := true } ∧ k.st.halted = true)) := by
  induction h with
  | start hq => exact ⟨_, TransitReach.start hq, Or.inl rfl⟩
  | step k k1 hr hh hs hq ih =>
    obtain ⟨s, hrs, hks⟩ := ih
    rcases hks with hks | ⟨_, hks⟩
    · obtain ⟨hsinv, hheap⟩ := hr.toRun.toReach.inv hw
      obtain ⟨_, _, e, _, hc⟩ := il_l3_step env k k1 hsinv hheap hs
      rcases hc with ⟨hc, _⟩ | ⟨hen, _, hc⟩
      · exact ⟨s, hrs, Or.inr ⟨by rw [hc, hks], by rw [hc]⟩⟩
      · refine ⟨_, TransitReach.step s e.pid (env.oracle s) hrs (by rw [← hks]; exact hen)
          (fun _ => il_oracle_preOk env s) ?_, Or.inl ?_⟩
        · rw [← hks, ← hc]; exact hq
        · rw [hc, hks]
    · rw [hks] at hh; exact absurd hh (by simp)

theorem transit_simRun_reach {Q : Sys → Prop} {env : SimEnv} {s0 : Sys} (hw : WFConfig s0) {k : SimState}
    (h : TransitSimRun Q env s0 k) (hh : k.st.halted = false) : TransitReach Q s0 k.st := by
  obtain ⟨s, hr, hks | ⟨hks, _⟩⟩ := transit_l3_refines Q env s0 hw k h
  · rw [hks]; exact hr
  · rw [hks] at hh; cases hh

/-- **Along the simulator's runs.**  At every kernel step that admits an observation, in a run that
has kept at most one hot→cold move alive (and no cold→hot move beside it) and has not raised, the
cold tier has room for the observation's whole volume on top of what is still in transit to it. -/
theorem transit_admission_cold_room_simpy (env : SimEnv) (s0 : Sys) (hw : WFConfig s0)
    (hbuf : bufList s0.buf = [])
    (hfull : s0.buf.size = [] ∧ s0.buf.hot.cur = s0.buf.hot.total ∧ s0.buf.cold.cur = s0.buf.cold.total)
    (hrate : ∀ o ∈ s0.obs, 0 < o.rate) (k k1 : SimState) (h : TransitSimRun TransitOneCold env s0 k)
    (hh : k.st.halted = false) (hc : k.st.crashed = none) (hs : k.step (simHandler env) = some k1)
    (oid : Oid) (hn : oid ∉ k.st.admitted) (ha : oid ∈ k1.st.admitted) :
    ∃ o, k.st.obs? oid = some o ∧ o.rate * o.duration + k.st.inTransitToCold ≤ k.st.buf.cold.cur := by
  have hr := transit_simRun_reach hw h hh
  obtain ⟨hsinv, hheap⟩ := h.toRun.toReach.inv hw
  obtain ⟨_, _, e, _, hcase⟩ := il_l3_step env k k1 hsinv hheap hs
  rcases hcase with ⟨hk1, _⟩ | ⟨_, _, hk1⟩
  · rw [hk1] at ha; exact absurd ha hn
  · rw [hk1] at ha
    exact transit_admission_cold_room s0 k.st hw hbuf hfull hrate hr hc e.pid (env.oracle k.st)
      (fun _ => il_oracle_preOk env k.st) oid hn ha

/-! ### evaluating `Q` along a concrete run -/

/-- `Q` (as a Boolean) at every state `runUntil` goes through after `k` -/
def transitRunChk (q : Sys → Bool) (env : SimEnv) (u : Time) : Nat → SimState → Bool
  | 0, _ => true
  | fuel + 1, k =>
    if k.st.halted then true
    else match k.peek with
      | none => true
      | some e =>
        if e.time < u then
          match k.step (simHandler env) with
          | none => true
          | some k1 => q k1.st && transitRunChk q env u fuel k1
        else true

theorem transit_runChk_sound {Q : Sys → Prop} (q : Sys → Bool) (hq : ∀ s, q s = true → Q s)
    {env : SimEnv} {s0 : Sys} (u : Time) (fuel : Nat) {k : SimState} (h : TransitSimRun Q env s0 k)
    (hc : transitRunChk q env u fuel k = true) :
    TransitSimRun Q env s0 (SimState.runUntil env u fuel k) := by
  induction fuel generalizing k with
  | zero => exact h
  | succ n ih =>
    unfold SimState.runUntil
    unfold transitRunChk at hc
    by_cases hh : k.st.halted = true
    · simp only [hh, if_true]; exact h
    · have hh' : k.st.halted = false := by simpa using hh
      simp only [hh', Bool.false_eq_true, if_false] at hc ⊢
      cases hp : k.peek with
      | none => exact h
      | some e =>
        simp only [hp] at hc ⊢
        by_cases ht : e.time < u
        · simp only [ht, if_true] at hc ⊢
          cases hs : k.step (simHandler env) with
          | none => exact h
          | some k1 =>
            simp only [hs, Bool.and_eq_true] at hc ⊢
            exact ih (TransitSimRun.step k k1 h hh' hs (hq _ hc.1)) hc.2
        · simp only [ht, if_false]; exact h

/-- one more kernel step -/
def transitStep (env : SimEnv) (k : SimState) : SimState := (k.step (simHandler env)).getD k

theorem transitStep_spec {env : SimEnv} {k : SimState} (h : (k.step (simHandler env)).isSome = true) :
    k.step (simHandler env) = some (transitStep env k) := by
  unfold transitStep
  cases hs : k.step (simHandler env) with
  | none => rw [hs] at h; cases h
  | some k1 => rfl

instance (s : Sys) : Decidable (TransitOneCold s) := by
  unfold TransitOneCold; exact inferInstance

instance (s : Sys) : Decidable (TransitOneHot s) := by
  unfold TransitOneHot; exact inferInstance

/-- a concrete run from the start, `Q` checked at every state -/
theorem transit_witRun {Q : Sys → Prop} [DecidablePred Q] (s0 : Sys) (u fuel : Nat)
    (h0 : Q (SimState.start s0).st)
    (hc : transitRunChk (fun s => decide (Q s)) {} (u : Nat) fuel (SimState.start s0) = true) :
    TransitSimRun Q {} s0 (witRun s0 u fuel) :=
  transit_runChk_sound (fun s => decide (Q s)) (fun _ h => of_decide_eq_true h) _ _
    (TransitSimRun.start h0) hc

/-- schedules of the block system from a `ReachOk` state (shipped algorithms) -/
theorem transit_reachOk_run {s0 : Sys} (hno : s0.alg ≠ .oracle) (pids : List Nat) (s : Sys)
    (h : ReachOk s0 s) (hen : ilEnabledAll pids s = true) : ReachOk s0 (ilRun pids s) :=
  (il_reach_run pids s h.toReach hen).toOk hno

end Topsim
